"""CLI-level correspondence and search (C04, C14, C15): runs the REAL lz4 binaries built from /repo's current tree
(single- and multi-threaded builds, plus builds linked with the stdio fault shim) and hands archives / decode runs to the Lean judge."""
import os, sys, struct, random, subprocess, time, hashlib, glob, shutil, itertools
from . import core

PROG_SRCS = ['lz4cli.c', 'lz4io.c', 'bench.c', 'lorem.c', 'threadpool.c', 'timefn.c', 'util.c']
WRAPS = ['fread', 'fwrite', 'fopen', 'fclose', 'fflush', 'fseek', 'remove']

def build_cli(mt, wrap=False, san=False):
    name = 'lz4%s%s%s' % ('mt' if mt else 'st', '_wrap' if wrap else '', '_san' if san else '')
    srcs = [os.path.join(core.REPO, 'programs', f) for f in PROG_SRCS] + sorted(glob.glob(os.path.join(core.REPO, 'lib', '*.c')))
    flags = ['-O2', '-g', '-DXXH_NAMESPACE=LZ4_', '-DLZ4IO_MULTITHREAD=%d' % (1 if mt else 0)]
    libs = ['-pthread']
    if san: flags += ['-fsanitize=address,undefined', '-fno-sanitize-recover=all']
    if wrap:
        srcs.append(os.path.join(core.HARN, 'cli_wrap.c')); libs += ['-Wl,' + ','.join('--wrap=' + w for w in WRAPS)]
    return core.build_harness(name, srcs, flags, 'gcc', libs)

class Rec:
    def __init__(self, path): self.f = open(path, 'wb'); self.n = 0
    def write(self, op, args):
        self.n += 1
        b = struct.pack('<IIII', 0x5643345A, op, self.n, len(args))
        for a in args:
            if isinstance(a, int): a = struct.pack('<q', a)
            b += struct.pack('<I', len(a)) + a
        self.f.write(b)
    def close(self): self.f.close()

def run(exe, args, stdin=None, env=None, cwd=None, timeout=300):
    e = dict(os.environ); e.pop('LZ4_NBWORKERS', None); e.pop('LZ4_CLEVEL', None); e.update(env or {})
    try:
        p = subprocess.run([exe] + args, input=stdin, stdout=subprocess.PIPE, stderr=subprocess.PIPE, env=e, cwd=cwd, timeout=timeout)
        return p.returncode, p.stdout, p.stderr
    except subprocess.TimeoutExpired:
        return 124, b'', b'TIMEOUT'

# ------------------------------------------------------------------ data
def gen_content(rng, n, kind):
    if n == 0: return b''
    if kind == 'random': return rng.randbytes(n)
    if kind == 'zeros': return bytes(n)
    if kind == 'sparse':   # zero-rich: long zero runs with islands of data
        out = bytearray(n); i = 0
        while i < n:
            i += rng.choice([1, 100, 4096, 32768, 70000, 1 << 20]); l = rng.choice([1, 10, 500, 5000])
            if i < n: out[i:i + l] = rng.randbytes(min(l, n - i)); i += l
        return bytes(out[:n])
    if kind == 'text':
        words = [b'the ', b'lz4 ', b'frame ', b'block ', b'compression ', b'\n', b'0123456789 ', b'stream ']
        chunk = b''.join(rng.choice(words) for _ in range(2000)); return (chunk * (n // len(chunk) + 1))[:n]
    # lz-like: random chunks repeated at various distances
    base = rng.randbytes(min(n, 70000)); out = bytearray()
    while len(out) < n:
        if rng.random() < 0.5 and len(out) > 100:
            d = rng.randint(1, min(len(out), 65535)); l = rng.randint(4, 400); s = len(out) - d; out += out[s:s + l] if d >= l else (out[s:] * (l // d + 1))[:l]
        else:
            p = rng.randint(0, len(base) - 1); out += base[p:p + rng.randint(1, 60)]
    return bytes(out[:n])

# ------------------------------------------------------------------ hand-made frames (independent of liblz4)
P1, P2, P3, P4, P5 = 2654435761, 2246822519, 3266489917, 668265263, 374761393
def _rotl(x, r): return ((x << r) | (x >> (32 - r))) & 0xFFFFFFFF
def xxh32(b, seed=0):
    n = len(b); i = 0
    if n >= 16:
        v = [(seed + P1 + P2) & 0xFFFFFFFF, (seed + P2) & 0xFFFFFFFF, seed, (seed - P1) & 0xFFFFFFFF]
        while i + 16 <= n:
            for k in range(4):
                w = struct.unpack_from('<I', b, i + 4 * k)[0]; v[k] = (_rotl((v[k] + w * P2) & 0xFFFFFFFF, 13) * P1) & 0xFFFFFFFF
            i += 16
        h = (_rotl(v[0], 1) + _rotl(v[1], 7) + _rotl(v[2], 12) + _rotl(v[3], 18)) & 0xFFFFFFFF
    else: h = (seed + P5) & 0xFFFFFFFF
    h = (h + n) & 0xFFFFFFFF
    while i + 4 <= n:
        w = struct.unpack_from('<I', b, i)[0]; h = (_rotl((h + w * P3) & 0xFFFFFFFF, 17) * P4) & 0xFFFFFFFF; i += 4
    while i < n:
        h = (_rotl((h + b[i] * P5) & 0xFFFFFFFF, 11) * P1) & 0xFFFFFFFF; i += 1
    h ^= h >> 15; h = (h * P2) & 0xFFFFFFFF; h ^= h >> 13; h = (h * P3) & 0xFFFFFFFF; h ^= h >> 16
    return h

def lit_block(data):
    """a valid LZ4 block holding `data` as one literal run"""
    n = len(data)
    if n < 15: return bytes([n << 4]) + data
    out = bytearray([0xF0]); v = n - 15
    while v >= 255: out.append(255); v -= 255
    out.append(v); return bytes(out) + data

def handmade_lz4_frame(data, bsid=4, block_crc=False, content_crc=True, content_size=False, raw=True):
    flg = 0x40 | 0x20 | (0x10 if block_crc else 0) | (0x08 if content_size else 0) | (0x04 if content_crc else 0)
    desc = bytes([flg, bsid << 4]) + (struct.pack('<Q', len(data)) if content_size else b'')
    out = struct.pack('<I', 0x184D2204) + desc + bytes([(xxh32(desc) >> 8) & 0xFF])
    bs = {4: 65536, 5: 262144, 6: 1 << 20, 7: 4 << 20}[bsid]
    for i in range(0, len(data), bs):
        chunk = data[i:i + bs]
        if raw: payload = chunk; word = len(chunk) | 0x80000000
        else: payload = lit_block(chunk); word = len(payload)
        out += struct.pack('<I', word) + payload + (struct.pack('<I', xxh32(payload)) if block_crc else b'')
    out += struct.pack('<I', 0) + (struct.pack('<I', xxh32(data)) if content_crc else b'')
    return out

def handmade_legacy_frame(blocks):
    out = struct.pack('<I', 0x184C2102)
    for b in blocks:
        p = lit_block(b); out += struct.pack('<I', len(p)) + p
    return out

def skippable_frame(magic_idx, size, rng):
    return struct.pack('<II', 0x184D2A50 + magic_idx, size) + rng.randbytes(size)

# ------------------------------------------------------------------ common
class Ctx:
    def __init__(self, prop, tier, seed, wd):
        self.prop, self.tier, self.seed, self.wd = prop, tier, seed, wd
        self.rng = random.Random(seed * 7919 + sum(ord(c) for c in prop))
        self.rr = core.RunResult(); self.calls = 0; self.thorough = tier == 'thorough'
        self.rec = Rec(os.path.join(wd, prop + '_cli.cases'))
        self.t0 = time.time()
    def fail(self, kind, detail, rec_args=None):
        f = ''
        if rec_args is not None and len(self.rr.fails) < 20:
            f = os.path.join(self.wd, 'fails', 'cli%d.bin' % len(self.rr.fails)); r = Rec(f); r.write(rec_args[0], rec_args[1]); r.close()
        self.rr.fails.append(dict(kind=kind, file=f, detail=detail, source='harness'))
    def stat(self, k, v=1): self.rr.stats[k] = self.rr.stats.get(k, 0) + v
    def finish(self):
        self.rec.close()
        path = self.rec.f.name
        if self.rec.n:
            rc, out, err, _ = core.run([core.MODEL, 'judge', path, os.path.join(self.wd, 'fails')], timeout=3000)
            import re
            for l in out.splitlines():
                if l.startswith('FAIL '):
                    m = re.match(r'FAIL case=(\d+) op=(\d+) kind=(\S+) file=(\S+) detail=(.*)', l)
                    if m: self.rr.fails.append(dict(kind=m.group(3), file=m.group(4), detail=m.group(5), source='judge', case=m.group(1)))
                elif l.startswith('TAG '): _, k, v = l.split(' ', 2); self.rr.tags[k] = self.rr.tags.get(k, 0) + int(v)
                elif l.startswith('DISTINCT '): self.rr.distinct += int(l.split()[1])
                elif l.startswith('DONE '): self.rr.records += int(re.search(r'records=(\d+)', l).group(1))
                elif l.startswith('SAMPLE '): self.rr.samples.append(l[7:])
            if rc not in (0, 1) or 'DONE ' not in out: self.rr.errors.append('judge failed on CLI records: ' + (out + err)[-300:])
            os.unlink(path)
        self.rr.stats['calls'] = self.calls; self.rr.stats['records'] = self.rec.n
        self.rr.wall = time.time() - self.t0
        return self.rr

def builds(ctx, want):
    out = {}
    for key in want:
        mt = 'mt' in key; wrap = 'wrap' in key
        ok, exe, err = build_cli(mt, wrap)
        if not ok: ctx.rr.errors.append('CLI build %s failed against the current tree: %s' % (key, err[-300:])); return None
        out[key] = exe
    return out

def write_file(path, data):
    with open(path, 'wb') as f: f.write(data)

# ------------------------------------------------------------------ C04
def check_c04(tier, seed, wd):
    ctx = Ctx('C04', tier, seed, wd); rng = ctx.rng
    B = builds(ctx, ['st', 'mt'])
    if not B: return ctx.finish()
    MB = 1 << 20
    sizes_small = [0, 1, 12, 65535, 65536, 65537, 262145]
    sizes_big = [4 * MB - 1, 4 * MB, 4 * MB + 1, 8 * MB + 1] + ([12 * MB + 17, 8 * MB - 1, 8 * MB] if ctx.thorough else [])
    levels = ['-1', '-3', '-9', '--fast=3', '--best', '-12', '--fast=1', '-5']
    blocks = ['', '-B4', '-B5', '-B6', '-B7', '-B32', '-B65536', '-B70000', '-B1048577']
    deps = ['', '-BD', '-BI']
    dictfile = os.path.join(wd, 'dict.bin'); dictdata = gen_content(rng, 70000, 'lz'); write_file(dictfile, dictdata)
    ncases = 270 if ctx.thorough else 54
    for ci in range(ncases):
        legacy = rng.random() < 0.12
        big = (ci % 4 == 0)
        n = rng.choice(sizes_big if big else sizes_small) if rng.random() < 0.8 else rng.randint(0, 300000)
        lvl = rng.choice(levels)
        if n > MB and lvl in ('-9', '--best', '-12', '-5'): lvl = rng.choice(['-1', '--fast=3', '-3'])
        kind = rng.choice(['random', 'lz', 'text', 'sparse', 'zeros', 'lz'])
        # pinned cases, always run: incompressible data filling whole blocks (blocks that EXPAND: a legacy block above 8 MiB, raw LZ4 frame blocks)
        if ci == 0: legacy, n, kind, lvl = True, 8 * MB + 1, 'random', '-1'
        if ci == 1: legacy, n, kind, lvl = False, 4 * MB + 1, 'random', '-1'
        if ci == 2: legacy, n, kind, lvl = True, 8 * MB - 40000, 'random', '-9'
        if 3 <= ci <= 8: legacy, n, lvl = True, [0, 1, 13, 1000, 70000, 250000][ci - 3], rng.choice(['-1', '--fast=3', '-1'])   # small legacy archives: compared byte for byte with Model/Legacy.lean
        # small default-format archives at a fast level with independent blocks: compared byte for byte with Model/CliFrame.lean (both builds)
        pinned_frame = 9 <= ci <= 16
        if pinned_frame: legacy, n, lvl = False, [0, 1, 13, 65535, 65536, 70000, 250000, 262144][ci - 9], rng.choice(['-1', '--fast=3', '--fast=1', '-1'])
        # small default-format archives at a fast level with LINKED blocks (-BD): compared byte for byte with Model/CliLinked.lean (both builds)
        pinned_linked = 17 <= ci <= 24
        if pinned_linked: legacy, n, lvl = False, [1, 65535, 65536, 65537, 131072, 200000, 262145, 290000][ci - 17], rng.choice(['-1', '--fast=3', '--fast=1', '-1'])
        # pinned: a dictionary AND linked blocks on an input of several multi-threaded jobs, the content quoting the dictionary all along: from the second job on
        # the history a block may refer to is the previous 64 KB of data, not the dictionary
        pinned_dictlinked = ci in (25, 26)
        if pinned_dictlinked: legacy, n, lvl = False, 9 * MB + 123, rng.choice(['-1', '-3'])
        content = gen_content(rng, n, kind)
        if pinned_dictlinked:
            ba = bytearray(content); pos = 0
            while pos + 600 < len(ba):
                l = rng.randint(40, 400); frm = rng.randint(0, len(dictdata) - l); ba[pos:pos + l] = dictdata[frm:frm + l]; pos += l + rng.randint(100, 3000)
            content = bytes(ba)
        opts = [lvl]; want_bsid = 0; want_indep = 2; want_cs = 2; want_cc = 2; use_dict = False
        if legacy: opts = ['-l'] + ([lvl] if lvl in ('-1', '-9', '-3', '--fast=3') else [])
        elif pinned_dictlinked:
            opts += ['-BD', '-D', dictfile]; want_indep = 0; use_dict = True
            if ci == 26: opts.append('--no-frame-crc'); want_cc = 0
        elif pinned_linked:
            b = rng.choice(['-B4', '-B4', '-B5', '', '-B4'])
            if b: opts.append(b); want_bsid = int(b[2])
            opts.append('-BD'); want_indep = 0
            if rng.random() < 0.4: opts.append('-BX')
            if rng.random() < 0.4: opts.append('--content-size'); want_cs = 1 if n > 0 else 2
            if rng.random() < 0.3: opts.append('--no-frame-crc'); want_cc = 0
        elif pinned_frame:
            b = rng.choice(['', '-B4', '-B5', '-B6', '-B7', '-B4'])
            if b: opts.append(b); want_bsid = int(b[2])
            if rng.random() < 0.3: opts.append('-BI'); want_indep = 1
            if rng.random() < 0.4: opts.append('-BX')
            if rng.random() < 0.4: opts.append('--content-size'); want_cs = 1 if n > 0 else 2
            if rng.random() < 0.3: opts.append('--no-frame-crc'); want_cc = 0
        else:
            b = rng.choice(blocks); d = rng.choice(deps)
            if b: opts.append(b)
            if b in ('-B4', '-B5', '-B6', '-B7'): want_bsid = int(b[2])
            if d: opts.append(d); want_indep = 0 if d == '-BD' else 1
            if rng.random() < 0.3: opts.append('-BX')
            r = rng.random()
            if r < 0.3: opts.append('--content-size'); want_cs = 1 if n > 0 else 2    # LZ4F cannot express a content size of 0
            elif r < 0.5: opts.append('--no-content-size'); want_cs = 0
            r = rng.random()
            if r < 0.3: opts.append('--no-frame-crc'); want_cc = 0
            elif r < 0.5: opts.append('--frame-crc'); want_cc = 1
            if rng.random() < 0.15: opts += ['-D', dictfile]; use_dict = True
        src = os.path.join(wd, 'in.bin'); write_file(src, content)
        pipe = rng.random() < 0.3
        comp_mt = rng.random() < 0.5
        if pinned_frame or pinned_linked: comp_mt = (ci % 2 == 0)
        if pinned_dictlinked: comp_mt = True
        comp_exe = B['mt' if comp_mt else 'st']
        arch = os.path.join(wd, 'in.lz4')
        if os.path.exists(arch): os.unlink(arch)
        if pipe:
            rc, out, err = run(comp_exe, opts + ['-c'], stdin=content); archive = out
            if want_cs == 1 and not legacy: want_cs = 2     # content size cannot be known on a pipe
        else:
            rc, out, err = run(comp_exe, opts + ['-f', src, arch]); archive = open(arch, 'rb').read() if os.path.exists(arch) else b''
        ctx.calls += 1; ctx.stat('compress_runs'); ctx.stat('legacy' if legacy else 'lz4frame'); ctx.stat('pipe' if pipe else 'file')
        lvlnum = {'--best': 12}.get(lvl, None)
        if lvlnum is None: lvlnum = -int(lvl.split('=')[1]) if lvl.startswith('--fast') else int(lvl[1:])
        if legacy and lvl not in opts: lvlnum = 1      # `lz4 -l` alone: default level 1
        # what reaches the frame, for the archive model: build, requested block size id (0: a custom size), -BX, frame checksum, content size known, independent blocks
        bopt = [o for o in opts if o.startswith('-B') and o[2:].isdigit()]
        m_bsid = 7 if not bopt else (int(bopt[-1][2:]) if 4 <= int(bopt[-1][2:]) <= 7 else 0)
        m_cs = 1 if ('--content-size' in opts and not pipe) else 0
        recargs = (7, [content, archive, dictdata if use_dict else b'', 1 if legacy else 0, want_bsid, want_indep, want_cs, want_cc, lvlnum,
                       1 if comp_mt else 0, m_bsid, 1 if '-BX' in opts else 0, 0 if '--no-frame-crc' in opts else 1, m_cs, 0 if '-BD' in opts else 1])
        if rc != 0: ctx.fail('compress_exit_nonzero', 'opts=%s n=%d rc=%d %s' % (opts, n, rc, err[-200:]), recargs); continue
        ctx.rec.write(*recargs)
        write_file(arch, archive)
        # decode with both builds, -d to file (sparse / no-sparse), -dc to pipe, -t
        for bk in ('st', 'mt'):
            dopts = (['-D', dictfile] if use_dict else [])
            mode = rng.choice(['file', 'file-sparse', 'file-nosparse', 'pipe'])
            outp = os.path.join(wd, 'out.bin')
            if os.path.exists(outp): os.unlink(outp)
            if mode == 'pipe': rc, out, err = run(B[bk], ['-dc'] + dopts + [arch]); got = out
            else:
                extra = {'file': [], 'file-sparse': ['--sparse'], 'file-nosparse': ['--no-sparse']}[mode]
                rc, out, err = run(B[bk], ['-d', '-f'] + extra + dopts + [arch, outp]); got = open(outp, 'rb').read() if os.path.exists(outp) else b''
            ctx.calls += 1; ctx.stat('decode_' + mode)
            if rc != 0: ctx.fail('decode_exit_nonzero', 'build=%s mode=%s opts=%s n=%d rc=%d %s' % (bk, mode, opts, n, rc, err[-200:]), recargs)
            elif got != content: ctx.fail('decode_content_mismatch', 'build=%s mode=%s opts=%s n=%d got=%d' % (bk, mode, opts, n, len(got)), recargs)
            rc, out, err = run(B[bk], ['-t'] + dopts + [arch]); ctx.calls += 1
            if rc != 0: ctx.fail('test_mode_exit_nonzero', 'build=%s opts=%s n=%d rc=%d' % (bk, opts, n, rc), recargs)
        # determinism across worker counts, LZ4_NBWORKERS and repeated runs (multi-threaded build)
        if ci % 2 == 0 or big:
            ref = None
            for variant in (['-T1'], ['-T2'], ['-T3'], ['-T8'], None, ['-T2']):
                env = {'LZ4_NBWORKERS': '5'} if variant is None else None
                if pipe: rc, out, err = run(B['mt'], opts + (variant or []) + ['-c'], stdin=content, env=env)
                else: rc, out, err = run(B['mt'], opts + (variant or []) + ['-c', src], env=env)
                ctx.calls += 1; ctx.stat('determinism_runs')
                if rc != 0: ctx.fail('compress_exit_nonzero', 'opts=%s variant=%s rc=%d' % (opts, variant, rc), recargs); break
                if ref is None: ref = out
                elif out != ref: ctx.fail('archive_depends_on_workers_or_run', 'opts=%s variant=%s n=%d sizes %d vs %d' % (opts, variant, n, len(out), len(ref)), recargs); break
    # -m : several files at once
    for rep in range(6 if ctx.thorough else 2):
        names = []; conts = []
        for k in range(3):
            p = os.path.join(wd, 'm%d.dat' % k); c = gen_content(rng, rng.choice([0, 5, 70000, 300000]), 'lz'); write_file(p, c); names.append(p); conts.append(c)
            for ext in ('.lz4',):
                if os.path.exists(p + ext): os.unlink(p + ext)
        rc, out, err = run(B['mt'], ['-m', '-f'] + names); ctx.calls += 1
        if rc != 0: ctx.fail('compress_exit_nonzero', '-m rc=%d %s' % (rc, err[-200:]))
        for p, c in zip(names, conts):
            a = open(p + '.lz4', 'rb').read() if os.path.exists(p + '.lz4') else b''
            ctx.rec.write(7, [c, a, b'', 0, 0, 2, 2, 2]); os.unlink(p)
        rc, out, err = run(B['st'], ['-d', '-m', '-f'] + [p + '.lz4' for p in names]); ctx.calls += 1
        if rc != 0: ctx.fail('decode_exit_nonzero', '-d -m rc=%d' % rc)
        for p, c in zip(names, conts):
            if not os.path.exists(p) or open(p, 'rb').read() != c: ctx.fail('decode_content_mismatch', '-m file %s' % os.path.basename(p))
    return ctx.finish()

# ------------------------------------------------------------------ C14 / C15 helpers
def make_frames(ctx, B):
    """a pool of valid frames: made by the real compressor and by hand (python, independent of liblz4)"""
    rng = ctx.rng; pool = []
    def real(opts, data, tag):
        rc, out, err = run(B['st'], opts + ['-c'], stdin=data); ctx.calls += 1
        if rc == 0: pool.append((tag, 'lz4' if '-l' not in opts else 'legacy', out, data))
    d1 = gen_content(rng, 300, 'text'); d2 = gen_content(rng, 70000, 'lz'); d3 = gen_content(rng, 9, 'random')
    real(['-1'], d1, 'lz4-default'); real(['-9', '-BD', '--content-size', '-BX'], d2, 'lz4-linked-bx'); real(['--no-frame-crc', '-B4'], d3, 'lz4-nocrc')
    real(['-1'], b'', 'lz4-empty'); real(['-l'], d1, 'legacy-real')
    pool.append(('hm-raw', 'lz4', handmade_lz4_frame(d1, raw=True), d1)); pool.append(('hm-lit', 'lz4', handmade_lz4_frame(d3, raw=False, block_crc=True, content_size=True), d3))
    pool.append(('legacy-0blocks', 'legacy', handmade_legacy_frame([]), b'')); pool.append(('legacy-1block', 'legacy', handmade_legacy_frame([d1]), d1))
    pool.append(('legacy-3blocks', 'legacy', handmade_legacy_frame([d1, d3, d1]), d1 + d3 + d1))
    for mi, sz in [(0, 0), (3, 3), (15, 70000), (7, 40)]: pool.append(('skip-%d-%d' % (mi, sz), 'skippable', skippable_frame(mi, sz, rng), b''))
    # frames whose decoded size is an exact multiple of the decoders' buffer sizes (64 KB, 128 KB), compressed blocks, with and without a frame checksum:
    # the frame ends exactly when an output buffer is full
    d64 = gen_content(rng, 65536, 'text'); d128 = gen_content(rng, 131072, 'lz')
    real(['--no-frame-crc'], d64, 'lz4-64K-nocrc'); real(['--no-frame-crc', '-B4', '-BD'], d128, 'lz4-128K-nocrc'); real(['-1'], d64, 'lz4-64K')
    return pool

def decode_run(ctx, exe, data, how, wd, extra=()):
    """how: 'file' (-d file out), 'stdin' (-dc < pipe), 'test' (-t file).  returns (rc, written or None)"""
    src = os.path.join(wd, 'd_in.lz4'); outp = os.path.join(wd, 'd_out.bin')
    if os.path.exists(outp): os.unlink(outp)
    if how == 'stdin': rc, out, err = run(exe, ['-dc'] + list(extra), stdin=data); ctx.calls += 1; return rc, out, err
    write_file(src, data)
    if how == 'test': rc, out, err = run(exe, ['-t'] + list(extra) + [src]); ctx.calls += 1; return rc, None, err
    rc, out, err = run(exe, ['-d', '-f'] + list(extra) + [src, outp]); ctx.calls += 1
    return rc, (open(outp, 'rb').read() if os.path.exists(outp) else b''), err

# ------------------------------------------------------------------ C15
def check_c15(tier, seed, wd):
    ctx = Ctx('C15', tier, seed, wd); rng = ctx.rng
    B = builds(ctx, ['st', 'mt'])
    if not B: return ctx.finish()
    pool = make_frames(ctx, B)
    maxlen = 4 if ctx.thorough else 3
    seqs = [s for L in range(1, 3) for s in itertools.product(range(len(pool)), repeat=L)]
    rng.shuffle(seqs)
    seqs = seqs[: (400 if ctx.thorough else 70)]
    for _ in range(300 if ctx.thorough else 40):
        seqs.append(tuple(rng.randrange(len(pool)) for _ in range(rng.randint(3, 12 if ctx.thorough else maxlen + 2))))
    # pinned: every "buffer-multiple" frame alone, last, and in front of each other kind of frame
    idx = {t[0]: i for i, t in enumerate(pool)}
    for x in ('lz4-64K-nocrc', 'lz4-128K-nocrc', 'lz4-64K'):
        if x in idx:
            for seq in ([x], [x, 'legacy-real'], ['legacy-1block', x], [x, 'skip-7-40', x], [x, 'lz4-default'], ['skip-3-3', x]):
                if all(t in idx for t in seq): seqs.append(tuple(idx[t] for t in seq))
    for s in seqs:
        data = b''.join(pool[i][2] for i in s); content = b''.join(pool[i][3] for i in s); tags = [pool[i][0] for i in s]; kinds = [pool[i][1] for i in s]
        for bk in ('st', 'mt'):
            for how in (['file', 'stdin', 'test'] if ctx.thorough else [rng.choice(['file', 'stdin']), 'test']):
                rc, written, err = decode_run(ctx, B[bk], data, how, wd)
                ctx.stat('decode_%s_%s' % (bk, how))
                adj = ['%s>%s' % (a, b) for a, b in zip(kinds, kinds[1:])]
                f6 = bk == 'mt' and any(kinds[i] == 'lz4' and kinds[j] == 'legacy' and all(k in ('lz4', 'skippable') for k in kinds[i + 1:j]) for i in range(len(kinds)) for j in range(i + 1, len(kinds)))
                detail = 'build=%s how=%s frames=%s adj=%s rc=%d%s' % (bk, how, '+'.join(tags), ','.join(adj), rc, ' [F6-signature: MT build, legacy frame reached from inside the LZ4F decoding loop]' if f6 else '')
                recargs = (8, [data, rc, written if written is not None else b'', b'', 1 if written is not None else 0])
                if rc != 0: ctx.fail('valid_concatenation_rejected', detail + ' ' + err.decode(errors='replace')[-120:].replace('\n', ' '), recargs)
                elif written is not None and written != content: ctx.fail('concatenation_wrong_content', detail + ' got=%d want=%d' % (len(written), len(content)), recargs)
                if bk == 'st' and how != 'test': ctx.rec.write(*recargs)    # the specification must agree that the stream is valid
    # pinned: a legacy frame holding a FULL 8 MiB block of incompressible data (hand-made: one literal run; its compressed size 8421506 lies between the
    # decoded block size and LZ4_COMPRESSBOUND(8 MiB), the range in which a block size must not be taken for the next frame's magic number), alone and next to other frames
    big = rng.randbytes(8 << 20); tail = rng.randbytes(100)
    L8 = handmade_legacy_frame([big, tail]); c8 = big + tail
    small = {t[0]: t for t in pool}
    combos = [([L8], c8, 'legacy-8MiB-incompressible')]
    for t in ('lz4-default', 'skip-3-3', 'legacy-1block'):
        if t in small:
            combos.append(([small[t][2], L8], small[t][3] + c8, t + '+legacy-8MiB-incompressible'))
            combos.append(([L8, small[t][2]], c8 + small[t][3], 'legacy-8MiB-incompressible+' + t))
    for parts, content, tag in combos:
        data = b''.join(parts)
        for bk in ('st', 'mt'):
            f6 = bk == 'mt' and tag.startswith('lz4-default+legacy')
            for how in (['file', 'stdin', 'test'] if ctx.thorough else ['file', 'test'] if bk == 'st' else ['stdin']):
                rc, written, err = decode_run(ctx, B[bk], data, how, wd); ctx.stat('decode_big_legacy_block')
                detail = 'build=%s how=%s frames=%s rc=%d%s' % (bk, how, tag, rc, ' [F6-signature: MT build, legacy frame reached from inside the LZ4F decoding loop]' if f6 else '')
                if rc != 0: ctx.fail('valid_concatenation_rejected', detail + ' ' + err.decode(errors='replace')[-120:].replace('\n', ' '))
                elif written is not None and written != content: ctx.fail('concatenation_wrong_content', detail + ' got=%d want=%d' % (len(written), len(content)))
    return ctx.finish()

# ------------------------------------------------------------------ C14
def check_c14(tier, seed, wd):
    ctx = Ctx('C14', tier, seed, wd); rng = ctx.rng
    B = builds(ctx, ['st', 'mt', 'st_wrap', 'mt_wrap'])
    if not B: return ctx.finish()
    pool = {t: (k, b, c) for t, k, b, c in make_frames(ctx, B)}
    parts = ['lz4-default', 'legacy-1block', 'skip-7-40', 'lz4-nocrc', 'hm-lit']
    data = b''.join(pool[t][1] for t in parts)
    bounds = []; pos = 0
    for t in parts: bounds.append((pos, pos + len(pool[t][1]), pool[t][0])); pos += len(pool[t][1])
    def in_skippable_userdata(cut):
        return any(k == 'skippable' and a + 8 <= cut < b for a, b, k in bounds)
    # (1) every truncation point
    cuts = list(range(len(data)))
    if not ctx.thorough: cuts = [c for c in cuts if c % 3 == seed % 3 or c < 40 or any(abs(c - a) < 6 or abs(c - b) < 6 for a, b, _ in bounds)]
    for cut in cuts:
        if in_skippable_userdata(cut): continue
        for bk in ('st', 'mt'):
            how = 'file' if (cut + (bk == 'mt')) % 2 == 0 else 'stdin'
            rc, written, err = decode_run(ctx, B[bk], data[:cut], how, wd); ctx.stat('truncations')
            ctx.rec.write(8, [data[:cut], rc, written or b'', b'', 1])
    # (2) single-bit flips (sampled in quick)
    nbits = len(data) * 8; flips = range(nbits) if ctx.thorough else rng.sample(range(nbits), 500)
    for bit in flips:
        m = bytearray(data); m[bit // 8] ^= 1 << (bit % 8); m = bytes(m)
        bk = 'st' if bit % 2 else 'mt'
        rc, written, err = decode_run(ctx, B[bk], m, 'file' if bit % 3 else 'stdin', wd); ctx.stat('bitflips')
        ctx.rec.write(8, [m, rc, written or b'', b'', 1])
    # (3) trailing garbage of every byte class, 1..9 bytes
    for n in range(1, 10):
        for cls in (b'\x00', b'\xff', b'\x04', b'\x21', None):
            g = (cls * n) if cls else rng.randbytes(n)
            for t in ('lz4-default', 'legacy-1block', 'skip-7-40'):
                m = pool[t][1] + g; bk = rng.choice(['st', 'mt'])
                rc, written, err = decode_run(ctx, B[bk], m, 'file', wd); ctx.stat('trailing_garbage')
                ctx.rec.write(8, [m, rc, written or b'', b'', 1])
    # (4) --rm : the source may disappear only when the whole operation succeeded
    def rm_case(exe, args_fn, src_bytes, label, env=None, expect_fail=False):
        src = os.path.join(wd, 'rm_src.lz4' if label.startswith('d') else 'rm_src.dat'); write_file(src, src_bytes)
        outp = os.path.join(wd, 'rm_out')
        if os.path.exists(outp): os.unlink(outp)
        rc, out, err = run(exe, args_fn(src, outp), env=env); ctx.calls += 1; ctx.stat('rm_cases')
        gone = not os.path.exists(src)
        if gone and rc != 0: ctx.fail('source_removed_after_failure', '%s rc=%d' % (label, rc))
        if expect_fail and rc == 0: ctx.fail('exit0_despite_fault', '%s rc=0 source_removed=%s' % (label, gone))
        if os.path.exists(src): os.unlink(src)
        return rc, gone
    for t in ('lz4-default', 'legacy-1block', 'skip-7-40'):
        for g in (b'', b'garbage-bytes', b'\x00\x00\x00\x00\x01'):
            for bk in ('st', 'mt'):
                rm_case(B[bk], lambda s, o: ['-d', '-f', '--rm', s, o], pool[t][1] + g, 'd-rm %s+%r %s' % (t, g, bk))
    for cut in (5, 30, len(pool['lz4-linked-bx'][1]) // 2):
        for bk in ('st', 'mt'): rm_case(B[bk], lambda s, o: ['-d', '-f', '--rm', s, o], pool['lz4-linked-bx'][1][:cut], 'd-rm truncated@%d %s' % (cut, bk))
    # (5) I/O faults: the k-th call of each wrapped stdio function fails, for every k, compress / decompress / test, with --rm
    big = gen_content(rng, (9 << 20) + 17 if ctx.thorough else (4 << 20) + 70000, 'lz'); rc, bigarch, err = run(B['st'], ['-1', '-c'], stdin=big)
    small = gen_content(rng, 200000, 'text'); rc, smallarch, err = run(B['st'], ['-1', '-c'], stdin=small)
    flog = os.path.join(wd, 'fault.log')
    for bk in ('st_wrap', 'mt_wrap'):
        for op, payload in (('c', big), ('d', bigarch), ('t', smallarch), ('c', small), ('d', smallarch)):
            for fn in ('fread', 'fwrite', 'fopen', 'fclose', 'fflush'):
                maxk = 60 if ctx.thorough else 14
                for k in range(1, maxk + 1):
                    if os.path.exists(flog): os.unlink(flog)
                    env = {'VERIF_FAULT': '%s:%d' % (fn, k), 'VERIF_FAULT_LOG': flog}
                    if op == 'c': args_fn = lambda s, o: ['-1', '-f', '--rm', s, o]; label = 'c'
                    elif op == 'd': args_fn = lambda s, o: ['-d', '-f', '--rm', s, o]; label = 'd'
                    else: args_fn = lambda s, o: ['-t', s]; label = 'dt'
                    src = os.path.join(wd, 'rm_src.lz4' if label.startswith('d') else 'rm_src.dat'); write_file(src, payload)
                    outp = os.path.join(wd, 'rm_out')
                    if os.path.exists(outp): os.unlink(outp)
                    rc, out, err = run(B[bk], args_fn(src, outp), env=env); ctx.calls += 1
                    fired = os.path.exists(flog)
                    gone = not os.path.exists(src)
                    if not fired:
                        if os.path.exists(src): os.unlink(src)
                        break
                    ctx.stat('faults_fired'); ctx.stat('fault.%s' % fn)
                    desc = 'build=%s op=%s fault=%s:%d rc=%d source_removed=%s size=%d' % (bk, op, fn, k, rc, gone, len(payload))
                    if gone and rc != 0: ctx.fail('source_removed_after_failure', desc)
                    if rc == 0:
                        # success is acceptable only if the result really is complete and correct (a failing fclose/fflush of an input stream is harmless)
                        good = False
                        if op == 'c' and os.path.exists(outp):
                            r2, o2, e2 = run(B['st'], ['-dc', outp]); good = (r2 == 0 and o2 == payload)
                        elif op == 'd' and os.path.exists(outp): good = open(outp, 'rb').read() == (big if payload is bigarch else small)
                        elif op == 't': good = fn in ('fclose', 'fflush', 'fopen')   # nothing is written in test mode; only read faults matter
                        if not good: ctx.fail('exit0_despite_fault', desc)
                        elif gone and fn in ('fwrite',): ctx.fail('exit0_despite_fault', desc + ' (write fault reported as success)')
                    if os.path.exists(src): os.unlink(src)
    # (6) device-level write errors that only surface when stdio flushes
    for bk in ('st', 'mt'):
        s = os.path.join(wd, 'full_src.txt'); write_file(s, b'hello world, this is a small file\n' * 20)
        rc, out, err = run(B[bk], ['-f', '--rm', s, '/dev/full']); ctx.calls += 1; ctx.stat('dev_full')
        if rc == 0: ctx.fail('exit0_despite_fault', 'build=%s lz4 -f --rm small /dev/full -> rc=0 source_removed=%s' % (bk, not os.path.exists(s)))
        if not os.path.exists(s) : ctx.fail('source_removed_after_failure', 'build=%s compress to /dev/full rc=%d' % (bk, rc)) if rc != 0 else None
        if os.path.exists(s): os.unlink(s)
        a = os.path.join(wd, 'full_src.lz4'); write_file(a, pool['lz4-default'][1])
        rc, out, err = run(B[bk], ['-d', '-f', '--rm', '--no-sparse', a, '/dev/full']); ctx.calls += 1; ctx.stat('dev_full')
        if rc == 0: ctx.fail('exit0_despite_fault', 'build=%s lz4 -d -f --rm --no-sparse small.lz4 /dev/full -> rc=0 source_removed=%s' % (bk, not os.path.exists(a)))
        elif not os.path.exists(a): ctx.fail('source_removed_after_failure', 'build=%s decompress to /dev/full rc=%d' % (bk, rc))
        if os.path.exists(a): os.unlink(a)
        write_file(a, pool['lz4-default'][1])
        with open('/dev/full', 'wb') as full:
            try: p = subprocess.run([B[bk], '-dc', a], stdout=full, stderr=subprocess.PIPE, timeout=60); rc = p.returncode
            except Exception: rc = 124
        ctx.calls += 1; ctx.stat('dev_full')
        if rc == 0: ctx.fail('exit0_despite_fault', 'build=%s lz4 -dc small.lz4 > /dev/full -> rc=0' % bk)
        os.unlink(a)
    # (6b) several files to ONE output stream (-m -c) with --rm: a source may be deleted only if what it contributes really reached the output.
    #      Output errors that surface late (device full at flush time, the k-th fwrite/fflush/fclose failing) hit after some files were "done".
    mdir = os.path.join(wd, 'multi'); shutil.rmtree(mdir, ignore_errors=True); os.makedirs(mdir)
    for sizes in ((300, 900, 2000), (300, 120000, 50)):
        plain = [gen_content(rng, n, 'text') + bytes([65 + i]) * 40 for i, n in enumerate(sizes)]
        frames = []
        for c in plain:
            rc, out, err = run(B['st'], ['-1', '-c'], stdin=c); frames.append(out)
        for op in ('d', 'c'):
            srcs_data = frames if op == 'd' else plain
            contrib = plain if op == 'd' else frames          # what each source contributes to the common output
            names = [os.path.join(mdir, 'f%d%s' % (i, '.lz4' if op == 'd' else '.txt')) for i in range(len(sizes))]
            base = (['-d'] if op == 'd' else ['-1']) + ['-m', '--rm', '-c']
            variants = [('st', None, None), ('mt', None, None)] + [(bk, fn, k) for bk in ('st_wrap', 'mt_wrap') for fn in ('fwrite', 'fflush', 'fclose') for k in ((1, 2, 3, 4) if ctx.thorough else (1, 2, 3))]
            for bk, fn, k in variants:
                for nm, dta in zip(names, srcs_data): write_file(nm, dta)
                capt = os.path.join(mdir, 'stdout.bin')
                env = None
                if fn:
                    if os.path.exists(flog): os.unlink(flog)
                    env = dict(os.environ); env.pop('LZ4_NBWORKERS', None); env.update({'VERIF_FAULT': '%s:%d' % (fn, k), 'VERIF_FAULT_LOG': flog})
                try:
                    with open('/dev/full' if fn is None else capt, 'wb') as so:
                        pr = subprocess.run([B[bk]] + base + names, stdout=so, stderr=subprocess.PIPE, timeout=120, env=env); rc = pr.returncode
                except Exception: rc = 124
                ctx.calls += 1; ctx.stat('multi_to_stdout_rm')
                if fn and not os.path.exists(flog):
                    for nm in names:
                        if os.path.exists(nm): os.unlink(nm)
                    continue
                written = b'' if fn is None else (open(capt, 'rb').read() if os.path.exists(capt) else b'')
                desc = 'build=%s lz4 %s <%d files of %s bytes> > %s rc=%d' % (bk, ' '.join(base), len(names), list(sizes), '/dev/full' if fn is None else 'file with fault %s:%d' % (fn, k), rc)
                if fn is None and rc == 0: ctx.fail('exit0_despite_fault', desc)
                for nm, cb in zip(names, contrib):
                    if not os.path.exists(nm) and cb not in written:
                        ctx.fail('source_removed_after_failure', desc + ' : %s was deleted but what it contributes (%d bytes) never reached the output (%d bytes written)' % (os.path.basename(nm), len(cb), len(written))); break
                if fn: ctx.stat('faults_fired')
                for nm in names:
                    if os.path.exists(nm): os.unlink(nm)
    shutil.rmtree(mdir, ignore_errors=True)
    # (7) exit status with many failing files (-m): 255, 256, 257 files that all fail to decode
    for nfiles in ((255, 256, 257) if ctx.thorough else (256,)):
        d = os.path.join(wd, 'many'); shutil.rmtree(d, ignore_errors=True); os.makedirs(d)
        bad = pool['legacy-1block'][1] + b'junkjunkjunk'
        names = []
        for i in range(nfiles):
            p = os.path.join(d, 'f%03d.lz4' % i); write_file(p, bad); names.append(p)
        rc, out, err = run(B['st'], ['-d', '-m', '-f'] + names); ctx.calls += 1; ctx.stat('many_files')
        if rc == 0: ctx.fail('exit0_despite_fault', 'lz4 -d -m over %d files that each fail to decode -> exit status 0' % nfiles)
        shutil.rmtree(d, ignore_errors=True)
    return ctx.finish()

# ------------------------------------------------------------------ C13
def build_sched():
    srcs = [os.path.join(core.REPO, 'programs', f) for f in PROG_SRCS] + sorted(glob.glob(os.path.join(core.REPO, 'lib', '*.c'))) + [os.path.join(core.HARN, 'sched.c')]
    return core.build_harness('lz4sched', srcs, ['-O2', '-g', '-DXXH_NAMESPACE=LZ4_', '-DLZ4IO_MULTITHREAD=1', '-include', os.path.join(core.HARN, 'vs_sched.h')], 'gcc', ['-pthread'])

def build_tsan():
    srcs = [os.path.join(core.REPO, 'programs', f) for f in PROG_SRCS] + sorted(glob.glob(os.path.join(core.REPO, 'lib', '*.c')))
    return core.build_harness('lz4tsan', srcs, ['-O1', '-g', '-DXXH_NAMESPACE=LZ4_', '-DLZ4IO_MULTITHREAD=1', '-fsanitize=thread'], 'clang', ['-pthread'])

def check_c13(tier, seed, wd):
    """the REAL threadpool.c / lz4io.c pipelines under a deterministic scheduler: every scheduling decision (next thread, which waiter a
    signal wakes, spurious wake-ups) is drawn from the seed or from an adversarial policy; outputs must equal the sequential result."""
    import re
    ctx = Ctx('C13', tier, seed, wd); rng = ctx.rng
    B = builds(ctx, ['st', 'mt'])
    ok, sched, err = build_sched()
    if not B or not ok:
        if not ok: ctx.rr.errors.append('scheduler build failed against the current tree: ' + err[-300:])
        return ctx.finish()
    MB = 1 << 20
    files = {}
    for name, n in (('c4p', 13 * MB + 200000), ('c2x', 8 * MB), ('c1p', 4 * MB + 1), ('c5', 17 * MB + 5)):
        data = gen_content(rng, n, 'lz' if name != 'c2x' else 'text'); p = os.path.join(wd, name + '.dat'); write_file(p, data); files[name] = (p, data)
    # decoded data that ENDS IN ZEROS (the last thing the sparse writer does is pending skips): what remains to be written when the pipelines wind down
    for name, n, nz in (('z1', 9 * MB + 77, 3 * MB), ('z2', 5 * MB, 100000)):
        data = gen_content(rng, n - nz, 'lz') + bytes(nz); p = os.path.join(wd, name + '.dat'); write_file(p, data); files[name] = (p, data)
    refs = {}
    def ref(name, opts):
        key = (name, tuple(opts))
        if key not in refs:
            rc, out, err = run(B['mt'], list(opts) + ['-T1', '-c', files[name][0]], timeout=90); ctx.calls += 1
            if rc == 124: ctx.fail('sched_real_binary_hangs', 'lz4 %s -T1 on %s (%d bytes) did not terminate within 90 s (natural schedule)' % (' '.join(opts), name, len(files[name][1])))
            refs[key] = out if rc == 0 else None
        return refs[key]
    nruns = 160 if ctx.thorough else 36
    pinned = [('dl', 'z1', 'random', 2), ('dl', 'z1', 'lifo', 3), ('dl', 'z2', 'fifo', 2), ('d', 'z1', 'random', 4), ('d', 'z2', 'starve1', 2), ('dl', 'z1', 'starve0', 1), ('dl', 'z2', 'starve2', 4), ('d', 'z1', 'lifo', 2)]
    for i in range(nruns + len(pinned)):
        name = rng.choice(['c4p', 'c2x', 'c1p', 'c5', 'z1', 'z2'] if i % 3 else ['c4p', 'c5', 'z1'])
        policy = rng.choice(['random', 'random', 'lifo', 'fifo', 'starve1', 'starve2', 'starve0'])
        workers = rng.choice([1, 2, 3, 4, 8])
        op = rng.choice(['c', 'c', 'cl', 'd', 'dl', 'cBD'])
        if i >= nruns: op, name, policy, workers = pinned[i - nruns]
        env = {'VS_SEED': str(seed * 1000 + i), 'VS_POLICY': policy, 'VS_SPURIOUS': str(rng.choice([0, 0, 10, 50]))}
        path, data = files[name]
        outp = os.path.join(wd, 'sched.out')
        if os.path.exists(outp): os.unlink(outp)
        if op in ('c', 'cl', 'cBD'):
            opts = {'c': ['-1'], 'cl': ['-l'], 'cBD': ['-1', '-BD', '-B4']}[op]
            expect = ref(name, opts)
            rc, out, err = run(sched, opts + ['-T%d' % workers, '-f', path, outp], env=env, timeout=300)
        else:
            opts = ['-1'] if op == 'd' else ['-l']
            arch = ref(name, opts); a = os.path.join(wd, 'sched.in.lz4'); write_file(a, arch or b''); expect = data
            rc, out, err = run(sched, ['-d', '-T%d' % workers, '-f', a, outp], env=env, timeout=300)
        ctx.calls += 1; ctx.stat('sched_runs'); ctx.stat('policy.' + policy); ctx.stat('op.' + op)
        e = err.decode(errors='replace'); m = re.search(r'VS_SCHED: steps=(\d+) switches=(\d+) threads=(\d+) policy=\d+ selfpushblocks=(\d+) mixed=(\d+) spurious=(\d+)', e)
        desc = 'op=%s file=%s(%d bytes) workers=%d policy=%s seed=%s spurious=%s rc=%d' % (op, name, len(data), workers, policy, env['VS_SEED'], env['VS_SPURIOUS'], rc)
        got = open(outp, 'rb').read() if os.path.exists(outp) else b''
        if rc == 97: ctx.fail('sched_deadlock', desc + ' ' + e[-300:].replace('\n', ' '))
        elif rc == 124: ctx.fail('sched_no_termination', desc)
        elif rc != 0: ctx.fail('sched_exit_nonzero', desc + ' ' + e[-200:].replace('\n', ' '))
        elif expect is None or got != expect: ctx.fail('sched_output_differs_from_sequential', desc + ' got=%d want=%s' % (len(got), len(expect) if expect is not None else None))
        if m:
            ctx.stat('scheduling_points', int(m.group(1))); ctx.stat('context_switches', int(m.group(2))); ctx.stat('spurious_wakeups', int(m.group(6)))
            if int(m.group(4)): ctx.fail('pool_self_push_blocked', desc + ' selfpushblocks=%s (Lean theorem Pool.push_never_blocks)' % m.group(4))
            if int(m.group(5)): ctx.fail('mixed_waiters_on_condvar', desc + ' mixed=%s' % m.group(5))
        elif rc == 0: ctx.fail('sched_exit_nonzero', desc + ' (no scheduler report: pthread calls not routed?)')
        if len(ctx.rr.samples) < 4: ctx.rr.samples.append(desc + ' ' + (m.group(0) if m else ''))
    if ctx.thorough:
        ok, tsan, err = build_tsan()
        if ok:
            for name in ('c4p', 'c5'):
                for args in (['-1', '-T4', '-c', files[name][0]], ['-l', '-T3', '-c', files[name][0]]):
                    rc, out, err = run(tsan, args, env={'TSAN_OPTIONS': 'exitcode=66'}); ctx.calls += 1; ctx.stat('tsan_runs')
                    if b'ThreadSanitizer' in err or rc == 66: ctx.fail('tsan_data_race', ' '.join(args[:2]) + ' ' + err.decode(errors='replace')[:300].replace('\n', ' '))
                    a = os.path.join(wd, 'tsan.lz4'); write_file(a, out)
                    rc, out2, err = run(tsan, ['-dc', '-T4', a], env={'TSAN_OPTIONS': 'exitcode=66'}); ctx.calls += 1; ctx.stat('tsan_runs')
                    if b'ThreadSanitizer' in err or rc == 66: ctx.fail('tsan_data_race', 'decode ' + err.decode(errors='replace')[:300].replace('\n', ' '))
    for p, _ in files.values(): os.unlink(p)
    return ctx.finish()

STEPS = {'c04': check_c04, 'c14': check_c14, 'c15': check_c15, 'c13': check_c13}
