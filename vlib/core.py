"""Shared machinery of ./check : build cache, translator driver, Lean build + axiom audit, harness runs, verdict, evidence."""
import os, sys, subprocess, hashlib, json, time, fcntl, re, glob, shutil

ROOT = os.path.dirname(os.path.dirname(os.path.abspath(__file__)))
REPO = os.environ.get('VERIF_REPO', '/repo')
LEAN = os.path.join(ROOT, 'lean')
CACHE = os.path.join(ROOT, '.cache')
HARN = os.path.join(ROOT, 'harness')
MODEL = os.path.join(LEAN, '.lake', 'build', 'bin', 'lz4vmodel')
ALLOWED_AXIOMS = {'propext', 'Quot.sound', 'Classical.choice'}
FORBIDDEN = re.compile(r'\bsorry\b|\badmit\b|^\s*axiom\s|native_decide|bv_decide|implemented_by|\bunsafe\s|maxHeartbeats\s+0')
TRUSTED_BASE = [
    'Lean 4.33.0 kernel (thorough tier: re-checked with leanchecker)',
    'axioms: propext, Quot.sound, Classical.choice only (audited with #print axioms on every run); no native_decide, no bv_decide, no sorry',
    'Spec layer (LZ4V/Spec) as the reading of doc/lz4_Block_format.md, doc/lz4_Frame_format.md and the XXH32 definition',
    'translate/gen.py + c2lean.py and clang-14 AST for the regenerated Gen layer',
    'correspondence: C harnesses (gcc, ASan/UBSan) and the compiled Lean judge (Lean compiler trusted only for running models)',
]

os.makedirs(CACHE, exist_ok=True)

class Lock:
    def __init__(self, name): self.path = os.path.join(CACHE, name + '.lock')
    def __enter__(self):
        self.f = open(self.path, 'w'); fcntl.flock(self.f, fcntl.LOCK_EX); return self
    def __exit__(self, *a):
        fcntl.flock(self.f, fcntl.LOCK_UN); self.f.close()

def run(cmd, timeout=None, env=None, cwd=None, inp=None):
    e = dict(os.environ); e.update(env or {})
    t0 = time.time()
    try:
        p = subprocess.run(cmd, capture_output=True, text=True, timeout=timeout, env=e, cwd=cwd, input=inp, errors='replace')
        return p.returncode, p.stdout, p.stderr, time.time() - t0
    except subprocess.TimeoutExpired as ex:
        return 124, (ex.stdout or b'').decode(errors='replace') if isinstance(ex.stdout, bytes) else (ex.stdout or ''), 'TIMEOUT', time.time() - t0

def repo_hash(subdirs=('lib', 'programs')):
    h = hashlib.sha256()
    for d in subdirs:
        for f in sorted(glob.glob(os.path.join(REPO, d, '*.[ch]'))):
            h.update(f.encode()); h.update(open(f, 'rb').read())
    return h.hexdigest()[:20]

# ------------------------------------------------------------------ Gen + Lean
class ProofState:
    def __init__(self): self.ok = True; self.reason = ''; self.detail = ''; self.discharged = []; self.obligations = []; self.axioms = {}

def regenerate():
    """returns (ok, message)"""
    with Lock('gen'):
        rc, out, err, _ = run([sys.executable, os.path.join(ROOT, 'translate', 'gen.py')], timeout=600)
    return rc == 0, (out + err).strip()

def lake_build(targets, timeout=3000):
    with Lock('lake'):
        rc, out, err, dt = run(['lake', 'build'] + targets, cwd=LEAN, timeout=timeout)
    return rc == 0, out + err

def first_error(buildlog):
    m = re.search(r'error: (\S+\.lean):(\d+):(\d+): (.*)', buildlog)
    if not m: return buildlog[-400:]
    f, line = m.group(1), int(m.group(2))
    decl = ''
    try:
        src = open(os.path.join(LEAN, f)).read().split('\n')
        for i in range(min(line, len(src)) - 1, -1, -1):
            mm = re.match(r'\s*(?:private\s+|protected\s+)?(theorem|lemma|def|example|instance)\s+(\S+)?', src[i])
            if mm: decl = '%s %s' % (mm.group(1), mm.group(2) or ''); break
    except Exception: pass
    return '%s:%d (%s): %s' % (f, line, decl.strip(), m.group(4)[:200])

def source_scan():
    """forbidden tokens outside comments in the hand-written Lean library"""
    bad = []
    for f in glob.glob(os.path.join(LEAN, '**', '*.lean'), recursive=True):
        if '/.lake/' in f: continue
        txt = open(f).read()
        txt = re.sub(r'/-.*?-/', lambda m: '\n' * m.group(0).count('\n'), txt, flags=re.S)
        for i, l in enumerate(txt.split('\n')):
            l2 = l.split('--')[0]
            if FORBIDDEN.search(l2): bad.append('%s:%d: %s' % (os.path.relpath(f, LEAN), i + 1, l.strip()[:80]))
    return bad

def audit(module, theorems):
    """#print axioms for each theorem; returns dict thm -> list of axioms or None when missing"""
    src = 'import %s\n' % module + ''.join('#print axioms %s\n' % t for t in theorems)
    os.makedirs(os.path.join(CACHE, 'audit'), exist_ok=True)
    f = os.path.join(CACHE, 'audit', module.replace('.', '_') + '.lean')
    open(f, 'w').write(src)
    rc, out, err, _ = run(['lake', 'env', 'lean', f], cwd=LEAN, timeout=600)
    res = {}
    txt = out + err
    for t in theorems:
        m = re.search(r"'%s' depends on axioms: \[([^\]]*)\]" % re.escape(t), txt, flags=re.S)
        if m: res[t] = [a.strip() for a in m.group(1).replace('\n', ' ').split(',') if a.strip()]
        elif re.search(r"'%s' does not depend on any axioms" % re.escape(t), txt): res[t] = []
        else: res[t] = None
    return res, txt

def proof_side(prop, module, theorems, thorough=False):
    st = ProofState(); st.obligations = list(theorems)
    ok, msg = regenerate()
    if not ok:
        st.ok = False; st.reason = 'translator'; st.detail = msg[-600:]; return st
    ok, log = lake_build([module, 'lz4vmodel'])
    if not ok:
        st.ok = False; st.reason = 'lake-build'; st.detail = first_error(log); return st
    bad = source_scan()
    if bad:
        st.ok = False; st.reason = 'forbidden-token'; st.detail = '; '.join(bad[:5]); return st
    ax, txt = audit(module, theorems)
    st.axioms = ax
    for t in theorems:
        if ax.get(t) is None: st.ok = False; st.reason = 'theorem-missing'; st.detail = t
        elif not set(ax[t]) <= ALLOWED_AXIOMS: st.ok = False; st.reason = 'axiom-audit'; st.detail = '%s uses %s' % (t, ax[t])
        else: st.discharged.append(t)
    if thorough and st.ok:
        rc, out, err, _ = run(['lake', 'env', 'leanchecker', module], cwd=LEAN, timeout=1800)
        if rc != 0: st.ok = False; st.reason = 'leanchecker'; st.detail = (out + err)[-400:]
    return st

# ------------------------------------------------------------------ harness builds
# nonnull-attribute is off: `memcpy(p, NULL, 0)` (LZ4F_getFrameInfo on a started context calls LZ4F_decompress with a NULL source of size 0) touches no memory and
# violates none of the properties; a NULL pointer with a non-zero size still dies under ASan
SAN = ['-O1', '-g', '-fsanitize=address,undefined', '-fno-sanitize=nonnull-attribute', '-fno-sanitize-recover=all', '-DVERIF_ASAN', '-fno-omit-frame-pointer']

def build_harness(name, sources, flags=(), cc='gcc', libs=()):
    """compile a harness against /repo's current tree; cached on (repo contents, harness sources, flags)"""
    h = hashlib.sha256()
    h.update(repo_hash().encode())
    for s in sources: h.update(open(s, 'rb').read())
    for s in glob.glob(os.path.join(HARN, '*.h')): h.update(open(s, 'rb').read())
    h.update(' '.join(flags).encode()); h.update(cc.encode())
    key = h.hexdigest()[:16]
    bdir = os.path.join(CACHE, 'bin'); os.makedirs(bdir, exist_ok=True)
    exe = os.path.join(bdir, '%s_%s' % (name, key))
    if os.path.exists(exe): return True, exe, ''
    with Lock('cc_' + name):
        if os.path.exists(exe): return True, exe, ''
        for old in glob.glob(os.path.join(bdir, name + '_*')):
            try: os.unlink(old)
            except OSError: pass
        cmd = [cc] + list(flags) + ['-I' + REPO + '/lib', '-I' + REPO + '/programs', '-I' + HARN] + list(sources) + ['-o', exe + '.tmp'] + list(libs)
        rc, out, err, _ = run(cmd, timeout=900)
        if rc != 0: return False, '', err[-1500:]
        os.rename(exe + '.tmp', exe)
    return True, exe, ''

def instrument_hc():
    """a COPY of /repo's current lib/lz4hc.c with four log points (the answers of the two match finders of LZ4HC_compress_hashChain and every encoded
    sequence): the input of the oracle model lean/LZ4V/HC.  /repo is not touched; a missing anchor text = the instrumentation (the tie) is broken."""
    gdir = os.path.join(CACHE, 'gen_hc'); os.makedirs(gdir, exist_ok=True)
    src = open(os.path.join(REPO, 'lib', 'lz4hc.c')).read()
    reps = [("        m1 = LZ4HC_InsertAndFindBestMatch(ctx, ip, matchlimit, maxNbAttempts, patternAnalysis, dict);\n",
             "        m1 = LZ4HC_InsertAndFindBestMatch(ctx, ip, matchlimit, maxNbAttempts, patternAnalysis, dict);\n        VLOG_B(ip, m1);\n"),
            ("            start2 += m2.back;\n", "            VLOG_W(start2, ip, m1.len, m2); start2 += m2.back;\n"),
            ("            start3 += m3.back;\n", "            VLOG_W(start3, start2, m2.len, m3); start3 += m3.back;\n"),
            ("    BYTE* const token = op++;\n", "    BYTE* const token = op++;\n    VLOG_E(anchor, ip, matchLength, offset);\n")]
    for a, b in reps:
        if src.count(a) != 1: return None, 'instrumentation anchor not found exactly once: %r' % a.strip()
        src = src.replace(a, b)
    out = os.path.join(gdir, 'lz4hc_verif.c')
    if not os.path.exists(out) or open(out).read() != src:
        with open(out + '.tmp', 'w') as f: f.write(src)
        os.rename(out + '.tmp', out)
    return gdir, ''

def workdir(prop, tier):
    d = os.path.join(CACHE, 'work', '%s_%s_%d' % (prop, tier, os.getpid()))
    shutil.rmtree(d, ignore_errors=True); os.makedirs(os.path.join(d, 'fails'))
    return d

class RunResult:
    def __init__(self):
        self.fails = []       # dicts: kind, file, detail, source ('judge'|'harness'|'crash')
        self.stats = {}; self.tags = {}; self.records = 0; self.distinct = 0; self.samples = []; self.errors = []; self.wall = 0.0

ASAN_ENV = {'ASAN_OPTIONS': 'detect_leaks=0:abort_on_error=0:allocator_may_return_null=1:detect_stack_use_after_return=0:exitcode=99', 'UBSAN_OPTIONS': 'print_stacktrace=1:exitcode=99:halt_on_error=1'}

def split_cases(path, nparts):
    """split a case file at record boundaries into nparts files of about equal size; blob records (op 100) are repeated at the head of every part"""
    import struct, mmap
    size = os.path.getsize(path)
    if nparts <= 1 or size < (8 << 20): return [path], 0
    with open(path, 'rb') as f:
        mm = mmap.mmap(f.fileno(), 0, access=mmap.ACCESS_READ)
        pos = 0; bounds = []; blobs = []
        while pos + 16 <= size:
            magic, op, cid, n = struct.unpack_from('<IIII', mm, pos)
            if magic != 0x5643345A: break
            p = pos + 16
            for _ in range(n):
                if p + 4 > size: p = size + 1; break
                p += 4 + struct.unpack_from('<I', mm, p)[0]
            if p > size: break
            if op == 100: blobs.append((pos, p))
            else: bounds.append((pos, p))
            pos = p
        if pos != size or len(bounds) < 2 * nparts: mm.close(); return [path], 0       # malformed tail: let the single judge report it
        head = b''.join(mm[a:b] for a, b in blobs)
        # records are dealt round-robin: neighbouring records (same generator class, similar cost) end up in different parts
        parts = ['%s.part%d' % (path, k) for k in range(nparts)]
        fs = [open(pp, 'wb') for pp in parts]
        for f2 in fs: f2.write(head)
        for i, (a, b) in enumerate(bounds): fs[i % nparts].write(mm[a:b])
        for f2 in fs: f2.close()
        mm.close()
    return parts, len(blobs)

def judge_parallel(cases, faildir, timeout):
    """run the Lean judge on the case file, split over the cores; returns (rc, merged stdout with one DISTINCT/DONE line, stderr)"""
    parts, nblobs = split_cases(cases, min(12, os.cpu_count() or 1))
    if len(parts) == 1:
        rc, out, err, _ = run([MODEL, 'judge', cases, faildir], timeout=timeout); return rc, out, err
    procs = []
    e = dict(os.environ); e['LZ4V_SIGS'] = '1'
    for i, pp in enumerate(parts):
        fd = '%s_p%d' % (faildir, i); os.makedirs(fd, exist_ok=True)
        procs.append((pp, subprocess.Popen([MODEL, 'judge', pp, fd], stdout=subprocess.PIPE, stderr=subprocess.PIPE, text=True, env=e, errors='replace')))
    lines = []; sigs = set(); recs = 0; fails = 0; rc = 0; errs = ''; done = 0; t_end = time.time() + (timeout or 3000)
    for pp, p in procs:
        try: o, er = p.communicate(timeout=max(1, t_end - time.time()))
        except subprocess.TimeoutExpired: p.kill(); o, er = p.communicate(); er += 'TIMEOUT'
        errs += er[-300:]
        if p.returncode not in (0, 1): rc = p.returncode
        elif p.returncode == 1 and rc == 0: rc = 1
        for l in o.splitlines():
            if l.startswith('SIG '): sigs.add(l[4:])
            elif l.startswith('DISTINCT '): pass
            elif l.startswith('DONE '):
                m = re.search(r'records=(\d+) fails=(\d+)', l)
                if m: recs += int(m.group(1)); fails += int(m.group(2)); done += 1
            else: lines.append(l)
        try: os.unlink(pp)
        except OSError: pass
    lines.append('DISTINCT %d' % len(sigs))
    if done == len(procs): lines.append('DONE records=%d fails=%d' % (recs - (len(parts) - 1) * nblobs, fails))
    return rc, '\n'.join(lines) + '\n', errs

NSHARDS = 8        # thorough tier: one check's harness work is split over this many processes (VERIF_SHARD=i/K, see harness/gen.h)

def _harness_once(exe, mode, tier, seed, cases, crash, extra_args, timeout, shard=None):
    env = dict(ASAN_ENV)
    if shard is not None: env['VERIF_SHARD'] = '%d/%d' % shard
    return run([exe, mode, tier, str(seed), cases, crash] + list(extra_args), env=env, timeout=timeout)

def run_harness_and_judge(exe, mode, tier, seed, wd, tag, timeout=3000, extra_args=()):
    """runs `exe mode tier seed casefile crashfile` (thorough tier: NSHARDS of them side by side), then the Lean judge on every case file"""
    rr = RunResult(); t0 = time.time()
    shards = [(i, NSHARDS) for i in range(NSHARDS)] if tier == 'thorough' and not extra_args else [None]
    files = [(os.path.join(wd, '%s%s.cases' % (tag, '' if sh is None else '_s%d' % sh[0])), os.path.join(wd, '%s%s.crash' % (tag, '' if sh is None else '_s%d' % sh[0]))) for sh in shards]
    if len(shards) == 1:
        results = [_harness_once(exe, mode, tier, seed, files[0][0], files[0][1], extra_args, timeout)]
    else:
        import concurrent.futures
        with concurrent.futures.ThreadPoolExecutor(len(shards)) as ex:
            results = list(ex.map(lambda a: _harness_once(exe, mode, tier, seed, a[1][0], a[1][1], extra_args, timeout, a[0]), zip(shards, files)))
    for si, ((rc, out, err, _), (cases, crash)) in enumerate(zip(results, files)):
        for l in out.splitlines():
            if l.startswith('STAT '):
                _, k, v = l.split(' ', 2); rr.stats[k] = rr.stats.get(k, 0) + int(v)
            elif l.startswith('CFAIL '):
                d = dict(x.split('=', 1) for x in l[6:].split(' ') if '=' in x)
                rr.fails.append(dict(kind=d.get('reason', '?'), file=d.get('file', ''), detail=l[6:], source='harness', case=d.get('case')))
            elif l.startswith('SAMPLE '): rr.samples.append(l[7:])
        if rc in (0, 1) and 'STAT cfails' not in out: rc = 98          # the harness did not reach its end
        if rc not in (0, 1):
            kind = 'sanitizer_abort' if ('AddressSanitizer' in err or 'runtime error' in err) else ('timeout' if rc == 124 else 'harness_crash')
            m = re.search(r'(ERROR: AddressSanitizer: [^\n]*|runtime error: [^\n]*)', err)
            summ = m.group(1) if m else err[-300:]
            fr = re.findall(r'#\d+ 0x[0-9a-f]+ in (\S+) (\S+)', err)
            where = ' <- '.join('%s %s' % (a, os.path.basename(b)) for a, b in fr[:4])
            rr.fails.append(dict(kind=kind, file=crash if os.path.exists(crash) else '', detail='%s | %s' % (summ, where), source='crash', rc=rc))
        if os.path.exists(cases) and os.path.getsize(cases) > 0:
            rc2, out2, err2 = judge_parallel(cases, os.path.join(wd, 'fails' if len(shards) == 1 else 'fails_s%d' % si), timeout)
            for l in out2.splitlines():
                if l.startswith('FAIL '):
                    m = re.match(r'FAIL case=(\d+) op=(\d+) kind=(\S+) file=(\S+) detail=(.*)', l)
                    if m: rr.fails.append(dict(kind=m.group(3), file=m.group(4), detail=m.group(5), source='judge', case=m.group(1), op=m.group(2)))
                elif l.startswith('TAG '):
                    _, k, v = l.split(' ', 2); rr.tags[k] = rr.tags.get(k, 0) + int(v)
                elif l.startswith('DISTINCT '): rr.distinct += int(l.split()[1])
                elif l.startswith('DONE '):
                    m = re.search(r'records=(\d+)', l); rr.records += int(m.group(1))
                elif l.startswith('SAMPLE '): rr.samples.append(l[7:])
            if rc2 not in (0, 1) or 'DONE ' not in out2: rr.errors.append('judge failed rc=%d: %s' % (rc2, (out2 + err2)[-300:]))
            try: os.unlink(cases)
            except OSError: pass
        elif rc in (0, 1) and not extra_args:
            rr.errors.append('harness wrote no cases (rc=%d): %s' % (rc, (out + err)[-300:]))
    if len(shards) > 1: rr.stats['harness_shards'] = len(shards)
    rr.wall = time.time() - t0
    return rr

# ------------------------------------------------------------------ known findings, replay, evidence, verdict
def load_findings():
    p = os.path.join(ROOT, 'known_findings.json')
    return json.load(open(p)) if os.path.exists(p) else {'known': [], 'fixed': []}

def match_finding(prop, fail, findings):
    for k in findings.get('known', []):
        if k['property'] != prop: continue
        if k.get('kind') and k['kind'] != fail.get('kind'): continue
        if k.get('detail_regex') and not re.search(k['detail_regex'], fail.get('detail', '')): continue
        return k
    return None

def write_replay(prop, kind, payload):
    d = os.path.join(ROOT, 'replays'); os.makedirs(d, exist_ok=True)
    path = os.path.join(d, '%s_%s_%d.json' % (prop, kind, int(time.time() * 1000) % 10**10))
    rec = payload.get('record_file')
    if rec and os.path.exists(rec):
        keep = path[:-5] + '.bin'; shutil.copyfile(rec, keep); payload['record_file'] = keep
        b = open(keep, 'rb').read(); payload['record_hex_prefix'] = b[:256].hex(); payload['record_size'] = len(b)
    payload.update(property=prop, kind=kind, replay_cmd='./check replay %s' % path)
    json.dump(payload, open(path, 'w'), indent=1)
    return path

def write_evidence(prop, tier, seed, st, rrs, wall, violations, extra_cov=None, assumptions=None, checker_cmd=None):
    ev = int(sum(r.stats.get('calls', r.records) for r in rrs)) if rrs else 0
    cov = {
        'obligations': len(st.obligations), 'discharged': len(st.discharged),
        'checker_cmd': checker_cmd or 'cd lean && lake build && lake env lean .cache/audit/<module>.lean  (#print axioms for each obligation)',
        'trusted_base': TRUSTED_BASE,
        'theorems': [{'name': t, 'axioms': st.axioms.get(t)} for t in st.obligations],
        'evaluations': ev,
        'distinct_nontrivial': int(sum(r.distinct for r in rrs)),
        'rule': 'correspondence/search cases: distinct = distinct (op, branch-tag set) signatures as classified by the Lean judge; evaluations = calls into the real code',
        'samples': [s for r in rrs for s in r.samples][:8] or ['(no samples)'],
        'input_distribution': {k: v for r in rrs for k, v in r.stats.items()},
        'judge_tags': {k: v for r in rrs for k, v in r.tags.items()},
        'exhaustive': False,
    }
    if extra_cov: cov.update(extra_cov)
    e = {'property_id': prop, 'tier': tier, 'seed': int(seed), 'level': 'proof', 'coverage': cov,
         'assumptions': assumptions or [], 'wall_s': round(wall, 2), 'violations': int(violations)}
    os.makedirs(os.path.join(ROOT, 'evidence'), exist_ok=True)
    json.dump(e, open(os.path.join(ROOT, 'evidence', prop + '.json'), 'w'), indent=1)
