"""Property registry: Lean module + theorems (proof obligations), correspondence/search steps, failure kinds."""
from . import core

HARNESSES = {
    'blk': dict(sources=['blk.c'], flags=core.SAN, replay=False),
    'dec': dict(sources=['dec.c'], flags=core.SAN, replay=False),
    'strm': dict(sources=['strm.c'], flags=core.SAN, replay=False),
    'file': dict(sources=['file.c'], flags=core.SAN, replay=False),
    'frm': dict(sources=['frm.c'], flags=core.SAN, replay=False),
    'dec0': dict(sources=['dec.c'], flags=core.SAN + ['-DLZ4_FAST_DEC_LOOP=0'], replay=False),
}

BLOCK_DECODE_KINDS = ['spec_decode_fails', 'spec_decode_mismatch', 'real_decoder_mismatch_*', 'crosscheck', 'sanitizer_abort', 'harness_crash', 'timeout', 'negative_return']

NOT_APPLICABLE = {}
HOOK_COMMITS = []

PROPS = {
 'C01': dict(
    module='LZ4V.Properties.C01',
    theorems=['LZ4V.C01.lossless_of_valid_parse'],
    steps=[dict(harness='blk', mode='c01'), dict(harness='strm', mode='c18')],
    kinds=BLOCK_DECODE_KINDS + ['full_reset_depends_on_state_garbage', 'bound_should_succeed', 'block_does_not_decode_against_history', 'stream_block_spec_decode_*', 'fastReset_failed_at_bound'],
    note='HC match finders are an oracle with a per-answer contract check; byPtr (32-bit) table mode not modelled',
 ),
 'C06': dict(
    module='LZ4V.Properties.C06',
    theorems=['LZ4V.C06.decode_is_parse_then_exec', 'LZ4V.C06.serialize_decodes_to_exec'],
    steps=[dict(harness='blk', mode='c06'), dict(harness='strm', mode='c11')],
    kinds=['spec_decode_fails', 'spec_decode_mismatch', 'end_conditions', 'offset_range', 'crosscheck', 'stream_block_spec_decode_*', 'sanitizer_abort', 'harness_crash', 'timeout'],
    note='theorems are about the independent decoder/parser; that every real compressor output passes it is checked per output (verified validator), not proved on a compressor model',
 ),
 'C09': dict(
    module='LZ4V.Properties.C09',
    theorems=['LZ4V.C09.compressBound_covers_every_parse', 'LZ4V.C09.compressBound_bad_size', 'LZ4V.C09.limited_success_decodes'],
    steps=[dict(harness='blk', mode='c09')],
    kinds=['bound_should_succeed', 'ret_gt_cap', 'spec_decode_fails', 'spec_decode_mismatch', 'real_decoder_mismatch_*', 'bad_size_nonzero', 'compressBound_bad_size_nonzero',
           'negative_return', 'sanitizer_abort', 'harness_crash', 'timeout'],
    note='bound theorem is over the regenerated LZ4_compressBound; memory footprint of the real compressors is observed with ASan on exact-size buffers for every capacity 0..bound+1',
 ),
 'C17': dict(
    module='LZ4V.Properties.C17',
    theorems=['LZ4V.C17.adaptLastRun_fits', 'LZ4V.C17.adaptLastRun_fills', 'LZ4V.C17.reducedMatchCode_fits', 'LZ4V.C17.next_match_reserve'],
    steps=[dict(harness='blk', mode='c17'), dict(harness='strm', mode='c17')],
    kinds=['destsize_zero', 'destsize_not_full_at_bound', 'ret_gt_cap', 'consumed_out_of_range', 'spec_decode_fails', 'spec_decode_mismatch', 'end_conditions',
           'real_decoder_mismatch_*', 'negative_return', 'sanitizer_abort', 'harness_crash', 'timeout', 'block_does_not_decode_against_history', 'ring_decoder_mismatch',
           'stream_block_spec_decode_*', 'continue_destSize_contract', 'continue_destSize_not_full_at_bound', 'continue_after_destSize_failed'],
    note='arithmetic of the fillOutput adaptations over regenerated constants; HC destSize via correspondence only so far',
 ),
 'C02': dict(
    module='LZ4V.Properties.C02',
    theorems=['LZ4V.C02.decompress_safe_memory_safe', 'LZ4V.C02.decompress_safe_partial_memory_safe', 'LZ4V.C02.usingDictEnv_wf',
              'LZ4V.C02.decompress_safe_usingDict_memory_safe', 'LZ4V.C02.decompress_safe_partial_usingDict_memory_safe',
              'LZ4V.Model.Decode.generic_total', 'LZ4V.Model.Decode.loop_good'],
    steps=[dict(harness='dec', mode='c02'), dict(harness='dec0', mode='c02')],
    kinds=['model_fault', 'model_mismatch_*', 'ret_gt_limit', 'ret_gt_capacity', 'partial_wrote_beyond_target', 'prefix_modified', 'dictionary_modified',
           'sanitizer_abort', 'harness_crash', 'timeout'],
    note='64-bit little-endian only; the model abstracts each n-byte memcpy to a checked byte-wise copy (overlap = fault); tie = correspondence of return value and output bytes on every call + ASan on exact-size buffers',
 ),
 'C05': dict(
    module='LZ4V.Properties.C05',
    theorems=['LZ4V.C05.converse_fails_on_offset_zero', 'LZ4V.C05.spec_decode_is_exec_of_parse', 'LZ4V.C05.decoders_total'],
    steps=[dict(harness='dec', mode='c05'), dict(harness='dec0', mode='c05'), dict(harness='dec', mode='c02')],
    kinds=['valid_block_rejected', 'valid_block_wrong_bytes', 'false_success', 'accepts_offset_zero', 'fast_decoder_mismatch', 'model_fault', 'model_mismatch_*',
           'sanitizer_abort', 'harness_crash', 'timeout'],
    note='partial: refinement model<->specification not yet a theorem (FullStatement kept); decided per call by correspondence + verified validator; converse holds only modulo offset 0 (known finding F7a)',
 ),
 'C16': dict(
    module='LZ4V.Properties.C16',
    theorems=['LZ4V.C16.partial_never_exceeds', 'LZ4V.C16.partial_usingDict_never_exceeds'],
    steps=[dict(harness='dec', mode='c16'), dict(harness='dec0', mode='c16')],
    kinds=['partial_wrong_size', 'partial_wrong_bytes', 'partial_wrote_beyond_target', 'ret_gt_limit', 'ret_gt_capacity', 'model_fault', 'model_mismatch_*',
           'sanitizer_abort', 'harness_crash', 'timeout'],
    note='partial: exact-prefix half decided by correspondence (every target for small contents); bound half is a theorem',
 ),
 'C03': dict(
    module='LZ4V.Properties.C03',
    theorems=[],
    steps=[dict(harness='frm', mode='c03')],
    kinds=['compression_call_failed_*', 'roundtrip_*', 'decoder_no_progress*', 'frame_rejected_by_spec_parser', 'frame_has_trailing_bytes', 'frame_content_mismatch',
           'sanitizer_abort', 'harness_crash', 'timeout'],
 ),
 'C07': dict(
    module='LZ4V.Properties.C07',
    theorems=[],
    steps=[dict(harness='frm', mode='c07')],
    kinds=['frame_rejected_by_spec_parser', 'frame_has_trailing_bytes', 'frame_content_mismatch', 'header_*', 'compressed_block_not_smaller', 'compression_call_failed_*',
           'sanitizer_abort', 'harness_crash', 'timeout'],
 ),
 'C08': dict(
    module='LZ4V.Properties.C08',
    theorems=[],
    steps=[dict(harness='frm', mode='c08')],
    kinds=['decoder_no_progress*', 'verdict_depends_on_chunking*', 'output_depends_on_chunking', 'completion_not_at_frame_end', 'complete_but_wrong_output', 'valid_frame_not_completed',
           'false_completion', 'accepts_offset_zero', 'sanitizer_abort', 'harness_crash', 'timeout'],
 ),
 'C10': dict(
    module='LZ4V.Properties.C10',
    theorems=[],
    steps=[dict(harness='frm', mode='c10')],
    kinds=['gen_function_disagrees_with_c', 'begin_failed', 'first_update_failed_at_bound', 'update_failed_with_capacity_at_bound', '*_wrote_more_than_capacity', 'flush_failed_at_bound0',
           'end_failed_at_bound0', 'compressFrame_failed_at_frameBound', 'sanitizer_abort', 'harness_crash', 'timeout'],
 ),
 'C19': dict(
    module='LZ4V.Properties.C19',
    theorems=[],
    steps=[dict(harness='frm', mode='c19')],
    kinds=['begin_after_history_failed', 'fresh_context_failed', 'reused_cctx_differs_from_fresh', 'reused_dctx_*', 'completion_did_not_stop_at_frame_end', 'getFrameInfo_*',
           'frame_rejected_by_spec_parser', 'frame_has_trailing_bytes', 'frame_content_mismatch', 'header_*', 'sanitizer_abort', 'harness_crash', 'timeout'],
 ),
 'C11': dict(
    module='LZ4V.Properties.C11',
    theorems=['LZ4V.C11.decoder_history_superset', 'LZ4V.C11.linked_block_roundtrip'],
    steps=[dict(harness='strm', mode='c11')],
    kinds=['block_does_not_decode_against_history', 'ring_decoder_mismatch', 'stream_block_spec_decode_*', 'continue_failed_at_bound', 'saveDict_bad_return', 'fastReset_failed_at_bound', 'sanitizer_abort', 'harness_crash', 'timeout'] + ['continue_destSize_contract', 'continue_after_destSize_failed'],
    note='partial: theorems are about the specification (history-superset, linked-block round trip); the streaming state machines (LZ4_compress_fast_continue / HC) are tied by correspondence of every block over random histories and geometries incl. a mirror ring decoder of exactly LZ4_decoderRingBufferSize bytes; > 2 GB renormalisation is not exercised in the quick tier',
 ),
 'C12': dict(
    module='LZ4V.Properties.C12',
    theorems=['LZ4V.C12.dict_block_roundtrip', 'LZ4V.C12.dict_prefix_irrelevant'],
    steps=[dict(harness='strm', mode='c12')],
    kinds=['block_does_not_decode_against_history', 'ring_decoder_mismatch', 'stream_block_spec_decode_*', 'continue_failed_at_bound', 'saveDict_bad_return', 'fastReset_failed_at_bound', 'sanitizer_abort', 'harness_crash', 'timeout'] + ['attached_dictionary_stream_modified'],
    note='partial: read-only use of a shared dictionary stream is observed by byte comparison of the dictionary stream before/after every use; concurrency is not exercised',
 ),
 'C18': dict(
    module='LZ4V.Properties.C18',
    theorems=['LZ4V.C18.decodes_against_declared_history_only'],
    steps=[dict(harness='strm', mode='c18')],
    kinds=['block_does_not_decode_against_history', 'ring_decoder_mismatch', 'stream_block_spec_decode_*', 'continue_failed_at_bound', 'saveDict_bad_return', 'fastReset_failed_at_bound', 'sanitizer_abort', 'harness_crash', 'timeout'],
    note='partial: the table invariant of the fast compressor is not yet a theorem; every output of reuse histories (bursts of fast-reset one-shots on contiguous small records, streaming sessions, dictionary loads/attachments, failed limited-output calls, each with the documented reset) is judged by the proved specification decoder against the declared history only',
 ),
 'C20': dict(
    module='LZ4V.Properties.C20',
    theorems=[],
    steps=[dict(harness='file', mode='c20')],
    kinds=['writeOpen_failed', 'write_failed', 'writeClose_failed', 'readOpen_failed', 'read_*', 'frame_rejected_by_spec_parser', 'frame_has_trailing_bytes', 'frame_content_mismatch', 'header_*',
           'sanitizer_abort', 'harness_crash', 'timeout'],
 ),
 'C04': dict(
    module='LZ4V.Properties.C04',
    theorems=[],
    steps=[dict(py='c04')],
    kinds=['compress_exit_nonzero', 'decode_exit_nonzero', 'decode_content_mismatch', 'test_mode_exit_nonzero', 'archive_depends_on_workers_or_run', 'archive_rejected_by_spec', 'archive_content_mismatch',
           'archive_not_legacy', 'archive_not_lz4_frames', 'cli_header_*', 'sanitizer_abort', 'harness_crash', 'timeout'],
 ),
 'C14': dict(
    module='LZ4V.Properties.C14',
    theorems=[],
    steps=[dict(py='c14')],
    kinds=['exit0_but_wrong_bytes', 'exit0_on_undecodable_input', 'source_removed_after_failure', 'exit0_despite_fault', 'accepts_offset_zero'],
 ),
 'C15': dict(
    module='LZ4V.Properties.C15',
    theorems=[],
    steps=[dict(py='c15')],
    kinds=['valid_concatenation_rejected', 'concatenation_wrong_content', 'valid_stream_rejected', 'exit0_but_wrong_bytes'],
 ),
}
