"""Property registry: Lean module + theorems (proof obligations), correspondence/search steps, failure kinds."""
from . import core

HARNESSES = {
    'blk': dict(sources=['blk.c'], flags=core.SAN, replay=False),
    'dec': dict(sources=['dec.c'], flags=core.SAN, replay=False),
    'dec0': dict(sources=['dec.c'], flags=core.SAN + ['-DLZ4_FAST_DEC_LOOP=0'], replay=False),
}

BLOCK_DECODE_KINDS = ['spec_decode_fails', 'spec_decode_mismatch', 'real_decoder_mismatch_*', 'crosscheck', 'sanitizer_abort', 'harness_crash', 'timeout', 'negative_return']

NOT_APPLICABLE = {}
HOOK_COMMITS = []

PROPS = {
 'C01': dict(
    module='LZ4V.Properties.C01',
    theorems=['LZ4V.C01.lossless_of_valid_parse'],
    steps=[dict(harness='blk', mode='c01')],
    kinds=BLOCK_DECODE_KINDS + ['full_reset_depends_on_state_garbage', 'bound_should_succeed'],
    note='HC match finders are an oracle with a per-answer contract check; byPtr (32-bit) table mode not modelled',
 ),
 'C06': dict(
    module='LZ4V.Properties.C06',
    theorems=['LZ4V.C06.decode_is_parse_then_exec', 'LZ4V.C06.serialize_decodes_to_exec'],
    steps=[dict(harness='blk', mode='c06')],
    kinds=['spec_decode_fails', 'spec_decode_mismatch', 'end_conditions', 'offset_range', 'crosscheck', 'sanitizer_abort', 'harness_crash', 'timeout'],
    note='theorems are about the independent decoder/parser; that every real compressor output passes it is checked per output (verified validator), not proved on a compressor model',
 ),
 'C09': dict(
    module='LZ4V.Properties.C09',
    theorems=['LZ4V.C09.compressBound_covers_every_parse', 'LZ4V.C09.compressBound_bad_size', 'LZ4V.C09.limited_success_decodes'],
    steps=[dict(harness='blk', mode='c09')],
    kinds=['bound_should_succeed', 'ret_gt_cap', 'spec_decode_fails', 'spec_decode_mismatch', 'real_decoder_mismatch_*', 'bad_size_nonzero', 'compressBound_bad_size_nonzero',
           'negative_return', 'sanitizer_abort', 'harness_crash', 'timeout'],
    note='bound theorem is over the regenerated LZ4_compressBound; memory footprint of the real compressors is observed with ASan on exact-size buffers for every capacity 0..bound+1',
 ),
 'C17': dict(
    module='LZ4V.Properties.C17',
    theorems=['LZ4V.C17.adaptLastRun_fits', 'LZ4V.C17.adaptLastRun_fills', 'LZ4V.C17.reducedMatchCode_fits', 'LZ4V.C17.next_match_reserve'],
    steps=[dict(harness='blk', mode='c17')],
    kinds=['destsize_zero', 'destsize_not_full_at_bound', 'ret_gt_cap', 'consumed_out_of_range', 'spec_decode_fails', 'spec_decode_mismatch', 'end_conditions',
           'real_decoder_mismatch_*', 'negative_return', 'sanitizer_abort', 'harness_crash', 'timeout'],
    note='arithmetic of the fillOutput adaptations over regenerated constants; HC destSize via correspondence only so far',
 ),
 'C02': dict(
    module='LZ4V.Properties.C02',
    theorems=['LZ4V.C02.decompress_safe_memory_safe', 'LZ4V.C02.decompress_safe_partial_memory_safe', 'LZ4V.C02.usingDictEnv_wf',
              'LZ4V.C02.decompress_safe_usingDict_memory_safe', 'LZ4V.C02.decompress_safe_partial_usingDict_memory_safe',
              'LZ4V.Model.Decode.generic_total', 'LZ4V.Model.Decode.loop_good'],
    steps=[dict(harness='dec', mode='c02'), dict(harness='dec0', mode='c02')],
    kinds=['model_fault', 'model_mismatch_*', 'ret_gt_limit', 'ret_gt_capacity', 'partial_wrote_beyond_target', 'prefix_modified', 'dictionary_modified',
           'sanitizer_abort', 'harness_crash', 'timeout'],
    note='64-bit little-endian only; the model abstracts each n-byte memcpy to a checked byte-wise copy (overlap = fault); tie = correspondence of return value and output bytes on every call + ASan on exact-size buffers',
 ),
 'C05': dict(
    module='LZ4V.Properties.C05',
    theorems=['LZ4V.C05.converse_fails_on_offset_zero', 'LZ4V.C05.spec_decode_is_exec_of_parse', 'LZ4V.C05.decoders_total'],
    steps=[dict(harness='dec', mode='c05'), dict(harness='dec0', mode='c05'), dict(harness='dec', mode='c02')],
    kinds=['valid_block_rejected', 'valid_block_wrong_bytes', 'false_success', 'accepts_offset_zero', 'fast_decoder_mismatch', 'model_fault', 'model_mismatch_*',
           'sanitizer_abort', 'harness_crash', 'timeout'],
    note='partial: refinement model<->specification not yet a theorem (FullStatement kept); decided per call by correspondence + verified validator; converse holds only modulo offset 0 (known finding F7a)',
 ),
 'C16': dict(
    module='LZ4V.Properties.C16',
    theorems=['LZ4V.C16.partial_never_exceeds', 'LZ4V.C16.partial_usingDict_never_exceeds'],
    steps=[dict(harness='dec', mode='c16'), dict(harness='dec0', mode='c16')],
    kinds=['partial_wrong_size', 'partial_wrong_bytes', 'partial_wrote_beyond_target', 'ret_gt_limit', 'ret_gt_capacity', 'model_fault', 'model_mismatch_*',
           'sanitizer_abort', 'harness_crash', 'timeout'],
    note='partial: exact-prefix half decided by correspondence (every target for small contents); bound half is a theorem',
 ),
}
