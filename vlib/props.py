"""Property registry: Lean module + theorems (proof obligations), correspondence/search steps, failure kinds."""
from . import core

HARNESSES = {
    'blk': dict(sources=['blk.c'], flags=core.SAN, replay=False),
}

BLOCK_DECODE_KINDS = ['spec_decode_fails', 'spec_decode_mismatch', 'real_decoder_mismatch_*', 'crosscheck', 'sanitizer_abort', 'harness_crash', 'timeout', 'negative_return']

PROPS = {
 'C01': dict(
    module='LZ4V.Properties.C01',
    theorems=['LZ4V.C01.lossless_of_valid_parse'],
    steps=[dict(harness='blk', mode='c01')],
    kinds=BLOCK_DECODE_KINDS + ['full_reset_depends_on_state_garbage', 'bound_should_succeed'],
    note='HC match finders are an oracle with a per-answer contract check; byPtr (32-bit) table mode not modelled',
 ),
}
