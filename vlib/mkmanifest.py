#!/usr/bin/env python3
"""Regenerate MANIFEST.json from the property registry (vlib/props.py) so the two never drift."""
import json, os, sys
sys.path.insert(0, os.path.dirname(os.path.dirname(os.path.abspath(__file__))))
from vlib.props import PROPS, NOT_APPLICABLE, HOOK_COMMITS
ROOT = os.path.dirname(os.path.dirname(os.path.abspath(__file__)))
allp = [json.loads(l)['id'] for l in open(os.path.join(ROOT, 'properties.jsonl'))]
checks = []
for pid in allp:
    if pid not in PROPS or not PROPS[pid]['theorems']: continue
    P = PROPS[pid]
    checks.append({
        'property_id': pid, 'quick_cmd': './check %s --tier quick' % pid, 'thorough_cmd': './check %s --tier thorough' % pid,
        'evidence_file': 'evidence/%s.json' % pid, 'replay_cmd_template': './check replay {path}', 'engine': 'lean-proof',
        'level_claimed': {'category': 'proof', 'text': P.get('claim', 'Lean 4 theorems %s; tie to the code by regenerated Gen + correspondence' % ', '.join(t.split('.')[-1] for t in P['theorems'])),
                          'design_ref': 'DESIGN.md §6 ' + pid},
        'level_note': P.get('note', ''), 'technique': P.get('technique', 'Lean 4 machine-checked proof + model/implementation correspondence'),
    })
na = [{'property_id': pid, 'reason': NOT_APPLICABLE.get(pid, 'check not built yet in this session (work in progress); not claimed')} for pid in allp if pid not in PROPS or not PROPS[pid]['theorems']]
m = {
 'version': 1, 'setup_cmd': './check setup',
 'hooks': {'guard': 'LZ4_VERIF',
           'enable': 'no hook was added to /repo (source_commits is empty; the guard name is reserved): harnesses compile lib/*.c and programs/*.c from /repo\'s working tree and observe them without source changes (#include of the .c files, #define interposition of two LZ4 calls around the #include of lz4frame.c, -include vs_sched.h for pthreads, -Wl,--wrap for stdio); the HC match-finder log comes from an instrumented COPY of lib/lz4hc.c made textually on every run (vlib/core.py instrument_hc)',
           'baseline_off_cmd': 'make -C /repo -k test', 'source_commits': HOOK_COMMITS, 'add_only': True},
 'engines': [
  {'name': 'lean-proof', 'path': 'lean/', 'serves_properties': [c['property_id'] for c in checks], 'kind_free_text': 'Lean 4 theorems over Spec / Gen / Model; Gen regenerated from /repo by translate/gen.py (clang AST) on every run; axioms audited per run'},
  {'name': 'correspondence', 'path': 'harness/', 'serves_properties': [c['property_id'] for c in checks], 'kind_free_text': 'C harnesses run the real code (ASan/UBSan, exact-size buffers, fault shims, deterministic scheduler); the compiled Lean judge (lean/Driver.lean) runs Spec/Model on the same cases and compares'},
 ],
 'checks': checks, 'not_applicable': na,
 'notes': 'single entry point ./check; see DESIGN.md. Known findings: known_findings.json.',
}
json.dump(m, open(os.path.join(ROOT, 'MANIFEST.json'), 'w'), indent=1)
print('MANIFEST: %d checks, %d not claimed' % (len(checks), len(na)))
