#!/usr/bin/env python3
"""C-subset -> Lean 4 translator over clang-14's typed JSON AST.

Everything is emitted over `Int`; an operation whose C type is unsigned of width w is wrapped in `% 2^w`
(in-range literals are folded); signed operations are left unwrapped (their no-overflow side conditions are the
reader's to discharge).  C conditions become `Bool`.  Supported: integer expressions with all implicit casts, ?:,
local declarations, plain / compound assignment and ++/-- on locals (re-binding lets), field assignment on local
structs (record update), if/return, if guarding an assignment, `while` loops whose body is assignments and
`if (..) return ..` (fuel-indexed local recursion), struct field reads, enum constants, file-scope const integers,
static const tables, sizeof, calls to other translated functions, pointer-to-struct parameters tested against NULL
as `Option`, memset(&x,0,sizeof x) as `x := default`.
Anything else raises Unsupported: the caller reports a broken tie, never a silent skip."""
import json, subprocess, re, os, tempfile

CLANG = 'clang-14'

class Unsupported(Exception):
    pass

def _objs(out):
    dec = json.JSONDecoder(); i = 0; objs = []
    while i < len(out):
        while i < len(out) and out[i] in ' \n\r\t': i += 1
        if i >= len(out): break
        o, j = dec.raw_decode(out, i); objs.append(o); i = j
    return objs

def load_function(cfile, fn, incs, defs=()):
    cmd = [CLANG, '-fsyntax-only', '-w'] + ['-I' + i for i in incs] + ['-D' + d for d in defs] + \
          ['-Xclang', '-ast-dump=json', '-Xclang', '-ast-dump-filter=' + fn, cfile]
    p = subprocess.run(cmd, capture_output=True, text=True)
    if p.returncode != 0:
        raise Unsupported('clang failed on %s: %s' % (cfile, p.stderr[:400]))
    for o in _objs(p.stdout):
        if o.get('kind') == 'FunctionDecl' and o.get('name') == fn and any(c.get('kind') == 'CompoundStmt' for c in o.get('inner', [])):
            return o
    raise Unsupported('function body not found: ' + fn)

BITS = {'unsigned char': 8, 'unsigned short': 16, 'unsigned int': 32, 'unsigned long': 64, 'unsigned long long': 64,
        'char': 8, 'signed char': 8, 'short': 16, 'int': 32, 'long': 64, 'long long': 64, '_Bool': 1}

def walk(n):
    yield n
    for c in n.get('inner', []) or []:
        if isinstance(c, dict):
            yield from walk(c)

class Translator:
    """structs: name -> list of (field, leanType, default)"""
    sigs = {}
    def __init__(self, structs, funcs, values):
        self.structs = structs      # struct typedef name -> [field names]
        self.funcs = funcs          # names of translated functions (callable)
        self.values = values        # evaluated names: enum constants, global consts, sizeof(...) keys, nullary functions
        self.needed = set()         # names that must be evaluated (first pass)
        self.tables = {}

    # ---------- types ----------
    def cty(self, n):
        t = n.get('type', {})
        q = t.get('desugaredQualType', t.get('qualType', ''))
        q = re.sub(r'\b(const|volatile|restrict)\b', '', q).replace('  ', ' ').replace(' *', '*').strip()
        if q.endswith('*'): return ('ptr', q[:-1].strip())
        if q in BITS: return ('u' if q.startswith('unsigned') or q == '_Bool' else 's', BITS[q])
        if q.startswith('enum '): return ('u', 32)
        if q.startswith('struct '): q = q[7:]
        name = t.get('qualType', '')
        name = re.sub(r'\b(const|volatile)\b', '', name).strip()
        if name in self.structs: return ('struct', name)
        if q in self.structs: return ('struct', q)
        m = re.match(r'(.*)\[(\d+)\]$', q)
        if m: return ('arr', m.group(1))
        return ('unk', q)

    def wrap(self, e, ty):
        m = re.fullmatch(r'\(*(\d+) : Int\)*', e)
        if ty[0] == 'u' and m and int(m.group(1)) < 2 ** ty[1]: return '(%s : Int)' % m.group(1)
        if ty[0] == 'u': return '((%s) %% %d)' % (e, 2 ** ty[1])
        return '(%s)' % e

    def val(self, key):
        if key in self.values: return '(%d : Int)' % self.values[key]
        self.needed.add(key)
        return '(0 : Int)'

    # ---------- conditions ----------
    def isnull(self, n):
        while n['kind'] in ('ParenExpr', 'ImplicitCastExpr', 'CStyleCastExpr'): n = n['inner'][0]
        return n['kind'] == 'IntegerLiteral' and n.get('value') == '0'

    def cond(self, n):
        k = n['kind']
        if k in ('ParenExpr',): return self.cond(n['inner'][0])
        if k == 'ImplicitCastExpr' and n.get('castKind') in ('LValueToRValue', 'NoOp', 'IntegralCast', 'IntegralToBoolean', 'PointerToBoolean'):
            inner = n['inner'][0]
            if n.get('castKind') in ('IntegralToBoolean', 'PointerToBoolean', 'LValueToRValue', 'NoOp') or self.cty(inner)[0] == 'ptr':
                return self.cond(inner)
        if k == 'BinaryOperator':
            op = n['opcode']; a, b = n['inner']
            if op in ('<', '>', '<=', '>=', '==', '!='):
                if self.cty(a)[0] == 'ptr' and self.isnull(b): return ('isNone' if op == '==' else 'isSome', self.expr(a))
                lop = {'==': '=', '!=': '≠', '<': '<', '>': '>', '<=': '≤', '>=': '≥'}[op]
                return 'decide (%s %s %s)' % (self.expr(a), lop, self.expr(b))
            if op == '&&':
                ca = self.cond(a)
                if isinstance(ca, tuple) and ca[0] == 'isSome':
                    return '(match %s with | none => false | some %s => %s)' % (ca[1], ca[1], self.c2s(self.cond(b)))
                return '(%s && %s)' % (self.c2s(ca), self.c2s(self.cond(b)))
            if op == '||': return '(%s || %s)' % (self.c2s(self.cond(a)), self.c2s(self.cond(b)))
        if k == 'UnaryOperator' and n['opcode'] == '!': return '(! %s)' % self.c2s(self.cond(n['inner'][0]))
        if k == 'CallExpr':   # __builtin_expect(x, c)
            f = self.callee(n)
            if f == '__builtin_expect': return self.cond(n['inner'][1])
        if self.cty(n)[0] == 'ptr': return ('isSome', self.expr(n))
        return 'decide (%s ≠ 0)' % self.expr(n)

    def c2s(self, c):
        if isinstance(c, tuple): return '(%s).%s' % (c[1], c[0])
        return c

    def callee(self, n):
        f = n['inner'][0]
        while f['kind'] in ('ImplicitCastExpr', 'ParenExpr'): f = f['inner'][0]
        if f['kind'] == 'DeclRefExpr': return f['referencedDecl']['name']
        raise Unsupported('indirect call')

    # ---------- expressions ----------
    def expr(self, n):
        k = n['kind']
        if k == 'ParenExpr': return self.expr(n['inner'][0])
        if k == 'ConstantExpr': return self.expr(n['inner'][0])
        if k == 'IntegerLiteral': return '(%s : Int)' % n['value']
        if k == 'CharacterLiteral': return '(%s : Int)' % n['value']
        if k == 'DeclRefExpr':
            rd = n['referencedDecl']
            if rd['kind'] == 'EnumConstantDecl': return self.val(rd['name'])
            if rd['kind'] == 'VarDecl' and rd['name'] in self.globals_: return self.val(rd['name'])
            return rd['name']
        if k in ('ImplicitCastExpr', 'CStyleCastExpr'):
            ck = n.get('castKind'); inner = n['inner'][0]
            if ck in ('LValueToRValue', 'NoOp', 'ArrayToPointerDecay', 'FunctionToPointerDecay', 'BitCast', 'NullToPointer'): return self.expr(inner)
            if ck == 'IntegralCast':
                dst = self.cty(n); src = self.cty(inner); e = self.expr(inner)
                if dst[0] == 'u' and not (src[0] == 'u' and src[1] <= dst[1]): return self.wrap(e, dst)
                if dst[0] == 's' and src[0] in ('u', 's') and src[1] > dst[1]:
                    # narrowing to signed: value-preserving only when in range; keep explicit
                    return '(Int.bmod (%s) %d)' % (e, 2 ** dst[1])
                if dst[0] == 's' and src[0] == 'u' and src[1] == dst[1]:
                    return '(Int.bmod (%s) %d)' % (e, 2 ** dst[1])
                return e
            if ck == 'IntegralToBoolean': return '(if %s ≠ 0 then (1 : Int) else (0 : Int))' % self.expr(inner)
            if ck == 'ToVoid': return self.expr(inner)
            raise Unsupported('unsupported cast ' + str(ck))
        if k == 'BinaryOperator':
            op = n['opcode']; a, b = n['inner']; ty = self.cty(n)
            if op in ('<', '>', '<=', '>=', '==', '!=', '&&', '||'): return '(if %s then (1 : Int) else (0 : Int))' % self.c2s(self.cond(n))
            A, B = self.expr(a), self.expr(b)
            if op in '+-*': return self.wrap('%s %s %s' % (A, op, B), ty)
            if op == '/': return '(Int.tdiv %s %s)' % (A, B) if ty[0] == 's' else '(%s / %s)' % (A, B)
            if op == '%': return '(Int.tmod %s %s)' % (A, B) if ty[0] == 's' else '(%s %% %s)' % (A, B)
            if op == '<<': return self.wrap('%s * 2 ^ (%s).toNat' % (A, B), ty)
            if op == '>>': return '(%s / 2 ^ (%s).toNat)' % (A, B)
            if op == '&': return '(Int.ofNat ((%s).toNat &&& (%s).toNat))' % (A, B)
            if op == '|': return '(Int.ofNat ((%s).toNat ||| (%s).toNat))' % (A, B)
            if op == '^': return '(Int.ofNat ((%s).toNat ^^^ (%s).toNat))' % (A, B)
            if op == ',': return B
            raise Unsupported('unsupported binop ' + op)
        if k == 'ConditionalOperator':
            c, a, b = n['inner']; cc = self.cond(c)
            if isinstance(cc, tuple):
                ptr = cc[1]; A, B = self.expr(a), self.expr(b)
                return '(match %s with | none => %s | some %s => %s)' % (ptr, A if cc[0] == 'isNone' else B, ptr, B if cc[0] == 'isNone' else A)
            return '(if %s then %s else %s)' % (cc, self.expr(a), self.expr(b))
        if k == 'UnaryOperator':
            op = n['opcode']; e = self.expr(n['inner'][0])
            if op in ('&', '*'): return e
            if op == '-': return self.wrap('- %s' % e, self.cty(n))
            if op == '+': return e
            if op == '!': return '(if %s = 0 then (1 : Int) else (0 : Int))' % e
            if op == '~':
                ty = self.cty(n)
                if ty[0] == 'u': return '((%d : Int) - %s)' % (2 ** ty[1] - 1, e)
                return '(- %s - 1)' % e
            raise Unsupported('unsupported unop ' + op)
        if k == 'MemberExpr': return '%s.%s' % (self.expr(n['inner'][0]), n['name'])
        if k == 'CallExpr':
            f = self.callee(n)
            if f == '__builtin_expect': return self.expr(n['inner'][1])
            if f in self.nullary_: return self.val(f + '()')
            if f not in self.funcs: raise Unsupported('call to untranslated function ' + f)
            sig = self.sigs.get(f, [])
            args = []
            for i, a in enumerate(n['inner'][1:]):
                e = self.expr(a)
                if i < len(sig) and sig[i]:
                    b = a
                    while b['kind'] in ('ImplicitCastExpr', 'ParenExpr', 'CStyleCastExpr'): b = b['inner'][0]
                    if b['kind'] == 'UnaryOperator' and b['opcode'] == '&': e = '(some %s)' % e
                    elif b['kind'] == 'DeclRefExpr' and b['referencedDecl']['name'] in self.optparams_: pass
                    elif self.isnull(a): e = 'none'
                    else: e = '(some %s)' % e
                args.append(e)
            return '(%s %s)' % (f, ' '.join(args)) if args else f
        if k == 'ArraySubscriptExpr':
            t, i = n['inner']; return '((%s).getD (%s).toNat 0)' % (self.expr(t), self.expr(i))
        if k == 'InitListExpr':
            ty = self.cty(n)
            if ty[0] == 'arr': return '[' + ', '.join(self.expr(x) for x in n.get('inner', [])) + ']'
            if ty[0] == 'struct':
                fields = self.structs[ty[1]]; vals = [self.expr(x) for x in n.get('inner', [])]
                vals += ['default'] * (len(fields) - len(vals))
                return '{ ' + ', '.join('%s := %s' % (f, v) for f, v in zip(fields, vals)) + ' }'
        if k == 'ImplicitValueInitExpr': return 'default'
        if k == 'UnaryExprOrTypeTraitExpr' and n.get('name') == 'sizeof':
            if 'argType' in n: key = 'sizeof(%s)' % n['argType']['qualType']
            else:
                inner = n['inner'][0]
                while inner['kind'] == 'ParenExpr': inner = inner['inner'][0]
                key = 'sizeof(%s)' % inner['type']['qualType']
            return self.val(key)
        raise Unsupported('unsupported expr ' + k)

    # ---------- statements ----------
    def lvalue_path(self, n):
        if n['kind'] == 'MemberExpr': b, p = self.lvalue_path(n['inner'][0]); return b, p + [n['name']]
        if n['kind'] == 'DeclRefExpr': return n['referencedDecl']['name'], []
        if n['kind'] in ('ParenExpr', 'ImplicitCastExpr'): return self.lvalue_path(n['inner'][0])
        if n['kind'] == 'UnaryOperator' and n['opcode'] == '*': return self.lvalue_path(n['inner'][0])
        raise Unsupported('unsupported lvalue ' + n['kind'])

    def upd(self, base, path, val):
        if not path: return val
        return '{ ' + base + ' with ' + path[0] + ' := ' + self.upd(base + '.' + path[0], path[1:], val) + ' }'

    def assign_of(self, s):
        k = s['kind']
        if k == 'BinaryOperator' and s['opcode'] == '=':
            base, path = self.lvalue_path(s['inner'][0]); return base, path, self.expr(s['inner'][1])
        if k == 'CompoundAssignOperator':
            base, path = self.lvalue_path(s['inner'][0]); op = s['opcode'][:-1]; cur = '.'.join([base] + path)
            rhs = self.expr(s['inner'][1]); ty = self.cty(s)
            if op in '+-*': return base, path, self.wrap('%s %s %s' % (cur, op, rhs), ty)
            if op == '<<': return base, path, self.wrap('%s * 2 ^ (%s).toNat' % (cur, rhs), ty)
            if op == '>>': return base, path, '(%s / 2 ^ (%s).toNat)' % (cur, rhs)
            if op == '|': return base, path, '(Int.ofNat ((%s).toNat ||| (%s).toNat))' % (cur, rhs)
            if op == '&': return base, path, '(Int.ofNat ((%s).toNat &&& (%s).toNat))' % (cur, rhs)
            raise Unsupported('compound op ' + op)
        if k == 'UnaryOperator' and s['opcode'] in ('++', '--'):
            base, path = self.lvalue_path(s['inner'][0]); cur = '.'.join([base] + path)
            return base, path, self.wrap('%s %s 1' % (cur, '+' if s['opcode'] == '++' else '-'), self.cty(s))
        if k == 'CallExpr' and self.callee(s) == 'memset':   # memset(&x, 0, sizeof x)  ==>  x := default
            a = s['inner'][1]
            while a['kind'] in ('ImplicitCastExpr', 'ParenExpr', 'CStyleCastExpr'): a = a['inner'][0]
            if a['kind'] == 'UnaryOperator' and a['opcode'] == '&' and self.isnull(s['inner'][2]):
                base, path = self.lvalue_path(a['inner'][0]); return base, path, 'default'
            raise Unsupported('memset form')
        if k == 'CompoundStmt' and len(s.get('inner', [])) == 1: return self.assign_of(s['inner'][0])
        if k == 'ParenExpr': return self.assign_of(s['inner'][0])
        return None

    def ends_ret(self, x):
        if x['kind'] == 'ReturnStmt': return True
        if x['kind'] == 'CompoundStmt' and x.get('inner'): return self.ends_ret(x['inner'][-1])
        if x['kind'] == 'IfStmt' and len(x['inner']) > 2: return self.ends_ret(x['inner'][1]) and self.ends_ret(x['inner'][2])
        return False

    def is_noop(self, s):
        k = s['kind']
        if k == 'NullStmt': return True
        if k in ('ParenExpr', 'CStyleCastExpr') and s.get('type', {}).get('qualType') == 'void': return True   # assert -> ((void)0)
        if k == 'DoStmt':   # do { } while (0)
            return all(self.is_noop(c) or c['kind'] in ('IntegerLiteral',) for c in walk(s) if c is not s and c['kind'] in ('CompoundStmt', 'NullStmt')) and \
                   not any(c['kind'] in ('BinaryOperator', 'CallExpr', 'ReturnStmt') for c in walk(s))
        return False

    def block(self, stmts, ind, loopret=None):
        """loopret: inside a loop body, text to emit when control falls off the end (the recursive call)"""
        if not stmts:
            if loopret is not None: return ind + loopret
            raise Unsupported('control falls off the end of a non-void function')
        s, rest = stmts[0], stmts[1:]; k = s['kind']
        if k == 'CompoundStmt': return self.block(list(s.get('inner', [])) + rest, ind, loopret)
        if self.is_noop(s): return self.block(rest, ind, loopret)
        if k == 'DeclStmt':
            out = ''
            for v in s['inner']:
                if v['kind'] != 'VarDecl': continue
                init = [c for c in v.get('inner', []) if 'kind' in c and not c['kind'].endswith('Attr')]
                vt = self.cty(v)
                lt = {'struct': vt[1], 'arr': 'List Int', 'ptr': vt[1]}.get(vt[0]) or 'Int'
                self.locals_.append((v['name'], lt))
                out += '%slet %s : %s := %s\n' % (ind, v['name'], lt, self.expr(init[0]) if init else 'default')
            return out + self.block(rest, ind, loopret)
        if k == 'ReturnStmt':
            e = self.expr(s['inner'][0])
            return ind + ('some (.inr %s)' % e if self.inloop else e)
        a = self.assign_of(s) if k != 'IfStmt' else None
        if a:
            base, path, val = a
            return '%slet %s := %s\n' % (ind, base, self.upd(base, path, val)) + self.block(rest, ind, loopret)
        if k == 'IfStmt':
            parts = s['inner']; c = self.c2s(self.cond(parts[0])); th = parts[1]; el = parts[2] if len(parts) > 2 else None
            if self.ends_ret(th) and el is None:
                return '%sif %s then\n%s\n%selse\n%s' % (ind, c, self.block([th], ind + '  ', loopret), ind, self.block(rest, ind + '  ', loopret))
            if el is None and self.assign_of(th):
                base, path, val = self.assign_of(th)
                return '%slet %s := if %s then %s else %s\n' % (ind, base, c, self.upd(base, path, val), base) + self.block(rest, ind, loopret)
            if el is not None and self.ends_ret(th) and self.ends_ret(el):
                return '%sif %s then\n%s\n%selse\n%s' % (ind, c, self.block([th], ind + '  ', loopret), ind, self.block([el], ind + '  ', loopret))
            if el is not None and self.assign_of(th) and self.assign_of(el):
                b1, p1, v1 = self.assign_of(th); b2, p2, v2 = self.assign_of(el)
                if b1 == b2:
                    cc = self.cond(parts[0])
                    if isinstance(cc, tuple):
                        ptr = cc[1]; A, B = self.upd(b1, p1, v1), self.upd(b2, p2, v2)
                        return '%slet %s := (match %s with | none => %s | some %s => %s)\n' % (ind, b1, ptr, A if cc[0] == 'isNone' else B, ptr, B if cc[0] == 'isNone' else A) + self.block(rest, ind, loopret)
                    return '%slet %s := if %s then %s else %s\n' % (ind, b1, c, self.upd(b1, p1, v1), self.upd(b2, p2, v2)) + self.block(rest, ind, loopret)
            if el is None:
                # general: then-branch is a sequence of assignments -> conditional re-binding of each assigned variable
                body = th.get('inner', []) if th['kind'] == 'CompoundStmt' else [th]
                asg = [self.assign_of(x) for x in body]
                if all(asg):
                    out = ''; cn = '_c%d' % self.fresh(); out += '%slet %s : Bool := %s\n' % (ind, cn, c)
                    for (b, p, v) in asg: out += '%slet %s := if %s then %s else %s\n' % (ind, b, cn, self.upd(b, p, v), b)
                    return out + self.block(rest, ind, loopret)
            raise Unsupported('unsupported if shape')
        if k == 'WhileStmt':
            return self.loop(s, rest, ind, loopret)
        raise Unsupported('unsupported stmt ' + k)

    _fresh = 0
    def fresh(self):
        Translator._fresh += 1; return Translator._fresh

    def assigned_vars(self, n):
        out = []
        for c in walk(n):
            a = None
            if c['kind'] in ('BinaryOperator',) and c.get('opcode') == '=': a = self.lvalue_path(c['inner'][0])[0]
            if c['kind'] == 'CompoundAssignOperator': a = self.lvalue_path(c['inner'][0])[0]
            if c['kind'] == 'UnaryOperator' and c.get('opcode') in ('++', '--'): a = self.lvalue_path(c['inner'][0])[0]
            if a and a not in out: out.append(a)
        return out

    def loop(self, s, rest, ind, loopret):
        """while (c) body; rest   ==>   let rec-free encoding: an auxiliary top-level def `<fn>.loopN` over fuel."""
        if self.inloop: raise Unsupported('nested loop')
        cnode, body = s['inner'][0], s['inner'][1]
        # loop condition may itself assign (`while (x >>= 2)`): hoist
        pre = ''
        a = self.assign_of(cnode)
        vars_ = self.assigned_vars(s)
        types = dict(self.locals_ + self.params_)
        for v in vars_:
            if v not in types: raise Unsupported('loop assigns unknown variable ' + v)
        name = '%s.loop%d' % (self.fname, self.fresh())
        free = [(p, t) for (p, t) in self.params_ + self.locals_ if p not in vars_]
        # dedupe free (later shadows earlier)
        seen = {};
        for p, t in free: seen[p] = t
        free = list(seen.items())
        sig = ' '.join('(%s : %s)' % (p, t) for p, t in free)
        st = ' '.join('(%s : %s)' % (v, types[v]) for v in vars_)
        call = '%s %s fuel %s' % (name, ' '.join(p for p, _ in free), ' '.join(vars_))
        self.inloop = True
        if a:
            base, path, val = a
            condtxt = 'let %s := %s\n      if decide (%s ≠ 0) then' % (base, self.upd(base, path, val), base)
        else:
            condtxt = 'if %s then' % self.c2s(self.cond(cnode))
        bodytxt = self.block([body], '        ', loopret='(%s)' % call)
        self.inloop = False
        tup = '(' + ', '.join(vars_) + ')' if len(vars_) != 1 else vars_[0]
        tupty = ' × '.join(types[v] for v in vars_)
        aux = 'def %s %s : Nat → %s → Option ((%s) ⊕ Int)\n' % (name, sig, ' → '.join(types[v] for v in vars_), tupty)
        aux += '  | 0, %s => none\n' % ', '.join('_' for _ in vars_)
        aux += '  | fuel+1, %s =>\n      %s\n%s\n      else some (.inl %s)\n' % (', '.join(vars_), condtxt, bodytxt, tup)
        self.aux.append(aux)
        fuel = self.loop_fuel
        out = '%smatch %s %s %d %s with\n' % (ind, name, ' '.join(p for p, _ in free), fuel, ' '.join(vars_))
        out += '%s| none => (0 : Int)   -- out of fuel: obligation `%s_terminates`\n' % (ind, name)
        out += '%s| some (.inr r) => r\n' % ind
        out += '%s| some (.inl %s) =>\n' % (ind, tup)
        out += self.block(rest, ind + '  ', loopret)
        return out

    def func(self, fd, ptr_optional=(), globals_=(), nullary=(), loop_fuel=64):
        self.fname = fd['name']; self.globals_ = set(globals_); self.nullary_ = set(nullary); self.loop_fuel = loop_fuel
        self.locals_ = []; self.params_ = []; self.aux = []; self.inloop = False; self.optparams_ = set(ptr_optional)
        params = []
        for p in fd.get('inner', []):
            if p['kind'] != 'ParmVarDecl': continue
            ty = self.cty(p)
            if ty[0] == 'ptr': lt = ('Option ' if p['name'] in ptr_optional else '') + ty[1]
            elif ty[0] == 'struct': lt = ty[1]
            else: lt = 'Int'
            params.append('(%s : %s)' % (p['name'], lt)); self.params_.append((p['name'], lt))
        body = [c for c in fd['inner'] if c['kind'] == 'CompoundStmt'][0]
        txt = self.block([body], '  ')
        return ''.join(a + '\n' for a in self.aux) + 'def %s %s : Int :=\n%s\n' % (fd['name'], ' '.join(params), txt)


def guard_literals(fd):
    """ordered list of integer literals occurring in if/while conditions and in initialisers of pointer-typed locals"""
    out = []
    def lits(n):
        return [int(c['value']) for c in walk(n) if c['kind'] == 'IntegerLiteral']
    def visit(n, label):
        k = n.get('kind')
        if k == 'LabelStmt': label = n.get('name', label)
        if k in ('IfStmt', 'WhileStmt', 'DoStmt', 'ForStmt'):
            cond = n['inner'][0] if k != 'DoStmt' else n['inner'][-1]
            if k == 'ForStmt': cond = n['inner'][2] if len(n['inner']) > 2 and n['inner'][2] else {'kind': 'NullStmt'}
            if cond: out.append((label, k, lits(cond)))
        if k == 'VarDecl' and n.get('type', {}).get('qualType', '').rstrip().endswith('*') or (k == 'VarDecl' and '*' in n.get('type', {}).get('qualType', '')):
            init = [c for c in n.get('inner', []) if 'kind' in c and not c['kind'].endswith('Attr')]
            if init: out.append((label, 'ptrinit:' + n['name'], lits(init[0])))
        for c in n.get('inner', []) or []:
            if isinstance(c, dict): visit(c, label)
    visit(fd, 'entry')
    return out
