#!/usr/bin/env python3
"""Regenerate lean/LZ4V/Gen/*.lean from /repo's current sources.

Gen/Consts.lean : evaluated preprocessor constants, file-scope const integers, small tables
Gen/Funcs.lean  : pure integer functions translated from the typed AST (c2lean.py)
Gen/Guards.lean : ordered integer literals of if/while conditions and pointer initialisers of hand-modelled functions

Files are rewritten only when their text changes, so an unchanged tree leaves `lake build` a no-op.
Exit status 0 = regenerated; 3 = translator failure (a broken tie; message on stderr names the item)."""
import os, sys, subprocess, json, hashlib, tempfile, re
HERE = os.path.dirname(os.path.abspath(__file__))
sys.path.insert(0, HERE)
import c2lean
from c2lean import Translator, Unsupported, load_function, guard_literals

REPO = os.environ.get('VERIF_REPO', '/repo')
OUT = os.path.join(HERE, '..', 'lean', 'LZ4V', 'Gen')
CACHE = os.path.join(HERE, '..', '.cache', 'gen')
INCS = [REPO + '/lib', REPO + '/programs']

# ---------------------------------------------------------------- evaluated constants
CONSTS = {
  'lz4': (['lz4.c'], ['LZ4_STATIC_LINKING_ONLY'], [
    'MINMATCH', 'WILDCOPYLENGTH', 'LASTLITERALS', 'MFLIMIT', 'MATCH_SAFEGUARD_DISTANCE', 'FASTLOOP_SAFE_DISTANCE',
    'LZ4_minLength', 'ML_BITS', 'ML_MASK', 'RUN_BITS', 'RUN_MASK', 'LZ4_DISTANCE_MAX', 'LZ4_DISTANCE_ABSOLUTE_MAX',
    'LZ4_MAX_INPUT_SIZE', 'LZ4_MEMORY_USAGE', 'LZ4_HASHLOG', 'LZ4_HASHTABLESIZE', 'LZ4_HASH_SIZE_U32', 'LZ4_64Klimit',
    'LZ4_skipTrigger', 'LZ4_ACCELERATION_DEFAULT', 'LZ4_ACCELERATION_MAX', 'LZ4_FAST_DEC_LOOP', 'LZ4_STREAM_MINSIZE',
    'STEPSIZE', 'HASH_UNIT', ('sizeof_LZ4_stream_t_internal', 'sizeof(LZ4_stream_t_internal)'),
    ('sizeof_LZ4_stream_t', 'sizeof(LZ4_stream_t)'), ('LZ4_isLittleEndian', 'LZ4_isLittleEndian()'),
    ('sizeof_reg_t', 'sizeof(reg_t)'), ('KB64', '64 KB'), ('GB1', '1 GB'), ('KB4', '4 KB'),
    ('LZ4_DECODER_RING_BUFFER_SIZE_0', 'LZ4_DECODER_RING_BUFFER_SIZE(0)'),
    ('LZ4_DECOMPRESS_INPLACE_MARGIN_0', 'LZ4_DECOMPRESS_INPLACE_MARGIN(0)'),
    ('LZ4_DECOMPRESS_INPLACE_MARGIN_65536', 'LZ4_DECOMPRESS_INPLACE_MARGIN(65536)'),
    ('byPtr', 'byPtr'), ('byU32', 'byU32'), ('byU16', 'byU16'), ('clearedTable', 'clearedTable'),
    ], [('inc32table', 8), ('dec64table', 8)]),
  'lz4hc': (['lz4hc.c'], ['LZ4_HC_STATIC_LINKING_ONLY', 'LZ4_STATIC_LINKING_ONLY'], [
    'LZ4HC_CLEVEL_MIN', 'LZ4HC_CLEVEL_DEFAULT', 'LZ4HC_CLEVEL_OPT_MIN', 'LZ4HC_CLEVEL_MAX', 'LZ4HC_DICTIONARY_LOGSIZE',
    'LZ4HC_MAXD', 'LZ4HC_MAXD_MASK', 'LZ4HC_HASH_LOG', 'LZ4HC_HASHTABLESIZE', 'LZ4HC_HASH_MASK', 'OPTIMAL_ML', 'LZ4_OPT_NUM',
    'LZ4MID_HASHLOG', 'LZ4MID_HASHTABLESIZE', 'TRAILING_LITERALS', ('sizeof_LZ4HC_CCtx_internal', 'sizeof(LZ4HC_CCtx_internal)'),
    ], []),
  'lz4frame': (['lz4frame.c'], ['LZ4F_STATIC_LINKING_ONLY'], [
    'LZ4F_MAGICNUMBER', 'LZ4F_MAGIC_SKIPPABLE_START', 'LZ4F_BLOCKUNCOMPRESSED_FLAG', 'LZ4F_BLOCKSIZEID_DEFAULT',
    'BHSize', 'BFSize', 'minFHSize', 'maxFHSize', 'LZ4F_HEADER_SIZE_MIN', 'LZ4F_HEADER_SIZE_MAX', 'LZ4F_BLOCK_HEADER_SIZE',
    'LZ4F_BLOCK_CHECKSUM_SIZE', 'LZ4F_CONTENT_CHECKSUM_SIZE', 'LZ4F_ENDMARK_SIZE', 'LZ4F_VERSION',
    'LZ4F_max64KB', 'LZ4F_max256KB', 'LZ4F_max1MB', 'LZ4F_max4MB', 'LZ4F_blockLinked', 'LZ4F_blockIndependent',
    'LZ4F_ERROR_maxBlockSize_invalid', 'LZ4F_ERROR_dstMaxSize_tooSmall', 'LZ4F_ERROR_GENERIC', 'LZ4F_ERROR_maxCode',
    'LZ4F_ERROR_headerVersion_wrong', 'LZ4F_ERROR_reservedFlag_set', 'LZ4F_ERROR_frameHeader_incomplete', 'LZ4F_ERROR_frameType_unknown', 'LZ4F_ERROR_headerChecksum_invalid',
    'LZ4F_ERROR_blockChecksum_invalid', 'LZ4F_ERROR_contentChecksum_invalid', 'LZ4F_ERROR_frameSize_wrong', 'LZ4F_ERROR_decompressionFailed',
    'LZ4F_MIN_SIZE_TO_KNOW_HEADER_LENGTH', 'LZ4F_ERROR_frameDecoding_alreadyStarted', 'LZ4F_ERROR_io_read', 'LZ4F_ERROR_parameter_null', 'LZ4F_ERROR_allocation_failed',
    ], []),
  'lz4io': (['lz4io.c'], ['LZ4IO_MULTITHREAD=1'], [
    'LZ4IO_MAGICNUMBER', 'LEGACY_MAGICNUMBER', 'LZ4IO_SKIPPABLE0', 'LZ4IO_SKIPPABLEMASK', 'LEGACY_BLOCKSIZE',
    'MAGICNUMBER_SIZE', 'LZ4IO_BLOCKSIZEID_DEFAULT', 'MIN_STREAM_BUFSIZE',
    'NB_BUFFSETS', 'INBUFF_SIZE', 'OUTBUFF_SIZE', 'PBUFFERS_NB', 'LZ4_NBWORKERS_DEFAULT', 'LZ4_NBWORKERS_MAX', 'OUTBUFF_QUEUE',
    'ENDOFSTREAM', 'DECODING_ERROR', ('chunkSize_MT', '4 MB'), ('sparseOneGB', '1 GB'),
    ], []),
}

# ---------------------------------------------------------------- translated functions
# (file, function, ptr params that may be NULL, defines)
FUNCS = [
  ('lib/lz4.c', 'LZ4_compressBound', (), ['LZ4_STATIC_LINKING_ONLY']),
  ('lib/lz4.c', 'LZ4_decoderRingBufferSize', (), ['LZ4_STATIC_LINKING_ONLY']),
  ('lib/lz4.c', 'LZ4_hash4', (), ['LZ4_STATIC_LINKING_ONLY']),
  ('lib/lz4.c', 'LZ4_hash5', (), ['LZ4_STATIC_LINKING_ONLY']),
  ('lib/lz4hc.c', 'LZ4HC_literalsPrice', (), []),
  ('lib/lz4hc.c', 'LZ4HC_sequencePrice', (), []),
  ('lib/lz4frame.c', 'LZ4F_returnErrorCode', (), ['LZ4F_STATIC_LINKING_ONLY']),
  ('lib/lz4frame.c', 'LZ4F_getBlockSize', (), ['LZ4F_STATIC_LINKING_ONLY']),
  ('lib/lz4frame.c', 'LZ4F_optimalBSID', (), ['LZ4F_STATIC_LINKING_ONLY']),
  ('lib/lz4frame.c', 'LZ4F_compressBound_internal', ('preferencesPtr',), ['LZ4F_STATIC_LINKING_ONLY']),
  ('lib/lz4frame.c', 'LZ4F_compressBound', ('preferencesPtr',), ['LZ4F_STATIC_LINKING_ONLY']),
  ('lib/lz4frame.c', 'LZ4F_compressFrameBound', ('preferencesPtr',), ['LZ4F_STATIC_LINKING_ONLY']),
]
EVAL_FILES = {'lib/lz4.c': ['lz4.c'], 'lib/lz4hc.c': ['lz4hc.c'], 'lib/lz4frame.c': ['lz4frame.c'], 'programs/lz4io.c': ['lz4io.c'], 'programs/threadpool.c': ['threadpool.c']}
NULLARY = {'LZ4_isLittleEndian'}
GLOBALS = {'LZ4_minLength', 'LZ4_64Klimit', 'LZ4_skipTrigger', 'minFHSize', 'maxFHSize', 'BHSize', 'BFSize'}

# hand-modelled functions whose guard literals are exported
GUARDS = [
  ('lib/lz4.c', 'LZ4_decompress_generic', ['LZ4_STATIC_LINKING_ONLY']),
  ('lib/lz4.c', 'read_variable_length', ['LZ4_STATIC_LINKING_ONLY']),
  ('lib/lz4.c', 'LZ4_compress_generic_validated', ['LZ4_STATIC_LINKING_ONLY']),
  ('lib/lz4.c', 'LZ4_prepareTable', ['LZ4_STATIC_LINKING_ONLY']),
  ('lib/lz4.c', 'LZ4_compress_fast_continue', ['LZ4_STATIC_LINKING_ONLY']),
  ('lib/lz4.c', 'LZ4_renormDictT', ['LZ4_STATIC_LINKING_ONLY']),
  ('lib/lz4.c', 'LZ4_loadDict_internal', ['LZ4_STATIC_LINKING_ONLY']),
  ('lib/lz4.c', 'LZ4_decompress_safe_usingDict', ['LZ4_STATIC_LINKING_ONLY']),
  ('lib/lz4.c', 'LZ4_decompress_safe_continue', ['LZ4_STATIC_LINKING_ONLY']),
]

# call sites whose literal arguments parameterise a hand-written model: (file, function, callee, defines)
CALLS = [
  ('programs/lz4io.c', 'LZ4IO_compressLegacy_internal', 'TPool_create', ['LZ4IO_MULTITHREAD=1']),
  ('programs/lz4io.c', 'LZ4IO_compressFilename_extRess_MT', 'TPool_create', ['LZ4IO_MULTITHREAD=1']),
  ('programs/lz4io.c', 'LZ4IO_decodeLegacyStream', 'TPool_create', ['LZ4IO_MULTITHREAD=1']),
  ('programs/lz4io.c', 'LZ4IO_decompressLZ4F', 'TPool_create', ['LZ4IO_MULTITHREAD=1']),
]

STRUCT_HEADERS = [('lib/lz4frame.h', ['LZ4F_STATIC_LINKING_ONLY'], ['LZ4F_frameInfo_t', 'LZ4F_preferences_t'])]


def fail(msg):
    sys.stderr.write('GEN-FAIL: ' + msg + '\n'); sys.exit(3)

LINK = {'lz4.c': [], 'lz4hc.c': ['lib/lz4.c'], 'lz4frame.c': ['lib/lz4.c', 'lib/lz4hc.c', 'lib/xxhash.c'],
        'lz4io.c': ['lib/lz4.c', 'lib/lz4hc.c', 'lib/xxhash.c', 'lib/lz4frame.c', 'programs/threadpool.c', 'programs/timefn.c', 'programs/util.c'],
        'threadpool.c': []}

def evaluate(group_files, defs, items):
    """items: list of (key, c-expression); returns dict key -> int by compiling and running a tiny C program"""
    if not items: return {}
    os.makedirs(CACHE, exist_ok=True)
    src = ''.join('#define %s\n' % d.replace('=', ' ') for d in defs)
    src += '#include <stdio.h>\n' + ''.join('#include "%s"\n' % f for f in group_files)
    src += 'int main(void){\n' + ''.join('  printf("%%s\\t%%lld\\n", %s, (long long)(%s));\n' % (json.dumps(k), e) for k, e in items) + '  return 0; }\n'
    h = hashlib.sha256(src.encode()).hexdigest()[:16]
    cfile = os.path.join(CACHE, 'eval_%s.c' % h); exe = os.path.join(CACHE, 'eval_%s' % h)
    open(cfile, 'w').write(src)
    extra = [os.path.join(REPO, x) for x in LINK[group_files[-1]]]
    p = subprocess.run(['gcc', '-w', '-O0', '-DXXH_NAMESPACE=LZ4_'] + ['-I' + i for i in INCS] + [cfile] + extra + ['-o', exe, '-lpthread'], capture_output=True, text=True)
    if p.returncode != 0: fail('cannot evaluate constants %s: %s' % ([k for k, _ in items][:6], p.stderr[-600:]))
    out = subprocess.run([exe], capture_output=True, text=True).stdout
    os.unlink(exe); os.unlink(cfile)
    return {l.split('\t')[0]: int(l.split('\t')[1]) for l in out.splitlines() if '\t' in l}

def struct_defs():
    structs = {}; text = []
    for hdr, defs, names in STRUCT_HEADERS:
        p = subprocess.run([c2lean.CLANG, '-fsyntax-only', '-w'] + ['-I' + i for i in INCS] + ['-D' + d for d in defs] +
                           ['-Xclang', '-ast-dump=json', os.path.join(REPO, hdr)], capture_output=True, text=True)
        if p.returncode != 0: fail('clang failed on ' + hdr)
        ast = json.loads(p.stdout)
        recs = {n['id']: n for n in ast['inner'] if n.get('kind') == 'RecordDecl' and n.get('completeDefinition')}
        for n in ast['inner']:
            if n.get('kind') == 'TypedefDecl' and n['name'] in names:
                rid = None
                for c in c2lean.walk(n):
                    if 'ownedTagDecl' in c: rid = c['ownedTagDecl']['id']
                    if c.get('kind') == 'RecordType' and 'decl' in c: rid = rid or c['decl']['id']
                if rid not in recs: fail('struct body not found: ' + n['name'])
                fields = []
                for f in recs[rid].get('inner', []):
                    if f.get('kind') != 'FieldDecl': continue
                    q = f['type'].get('desugaredQualType', f['type']['qualType']).replace('struct ', '')
                    qq = f['type']['qualType'].replace('struct ', '')
                    m = re.match(r'.*\[(\d+)\]$', q)
                    if m: fields.append((f['name'], 'List Int', '[' + ', '.join(['0'] * int(m.group(1))) + ']'))
                    elif qq in structs: fields.append((f['name'], qq, '{}'))
                    else: fields.append((f['name'], 'Int', '0'))
                structs[n['name']] = [f[0] for f in fields]
                text.append('structure %s where\n' % n['name'] + ''.join('  %s : %s := %s\n' % f for f in fields) + 'deriving Repr\ninstance : Inhabited %s := ⟨{}⟩\n' % n['name'])
    return structs, text

def write_if_changed(path, txt):
    os.makedirs(os.path.dirname(path), exist_ok=True)
    old = open(path).read() if os.path.exists(path) else None
    if old != txt:
        open(path, 'w').write(txt); return True
    return False

def main():
    changed = []
    # ---- constants
    lines = ['-- GENERATED by translate/gen.py from /repo sources (evaluated constants and tables); do not edit', 'namespace LZ4V.Gen', '']
    for group, (files, defs, names, tables) in CONSTS.items():
        items = [(n, n) if isinstance(n, str) else n for n in names]
        for t, ln in tables: items += [('%s[%d]' % (t, i), '%s[%d]' % (t, i)) for i in range(ln)]
        vals = evaluate(files, defs, items)
        lines.append('/-! ### %s -/' % ', '.join(files))
        for k, _ in items:
            if '[' in k: continue
            if k not in vals: fail('constant not evaluated: ' + k)
            v = vals[k]
            lines.append('def %s : %s := %d' % (k, 'Int' if v < 0 else 'Nat', v))
        for t, ln in tables:
            lines.append('def %s : List Int := [%s]' % (t, ', '.join(str(vals['%s[%d]' % (t, i)]) for i in range(ln))))
        lines.append('')
    lines.append('end LZ4V.Gen')
    if write_if_changed(os.path.join(OUT, 'Consts.lean'), '\n'.join(lines) + '\n'): changed.append('Consts')

    # ---- functions (two passes: discover needed values, evaluate them, translate)
    structs, stext = struct_defs()
    fds = []
    try:
        for rel, fn, opt, defs in FUNCS:
            fds.append((rel, fn, opt, defs, load_function(os.path.join(REPO, rel), fn, INCS, defs)))
        names = {fn for _, fn, _, _ in FUNCS}
        Translator.sigs = {fn: [pp['name'] in opt for pp in fd.get('inner', []) if pp['kind'] == 'ParmVarDecl'] for _, fn, opt, _, fd in fds}
        tr = Translator(structs, names, {})
        for rel, fn, opt, defs, fd in fds:
            tr.func(fd, opt, GLOBALS, NULLARY)
        by_file = {}
        for rel, fn, opt, defs, fd in fds:
            t2 = Translator(structs, names, {}); t2.func(fd, opt, GLOBALS, NULLARY)
            by_file.setdefault((rel, tuple(defs)), set()).update(t2.needed)
        values = {}
        for (rel, defs), keys in by_file.items():
            values.update(evaluate(EVAL_FILES[rel], list(defs), [(k, k) for k in sorted(keys)]))
        out = ['-- GENERATED by translate/gen.py (c2lean.py) from /repo sources through clang\'s typed AST; do not edit',
               'set_option linter.unusedVariables false', 'namespace LZ4V.Gen', ''] + stext
        c2lean.Translator._fresh = 0
        for rel, fn, opt, defs, fd in fds:
            t = Translator(structs, names, values)
            txt = t.func(fd, opt, GLOBALS, NULLARY)
            if t.needed: fail('unevaluated names in %s: %s' % (fn, sorted(t.needed)))
            out.append('-- %s : %s' % (rel, fn)); out.append(txt)
        out.append('end LZ4V.Gen')
    except Unsupported as e:
        fail('translator: %s' % e)
    if write_if_changed(os.path.join(OUT, 'Funcs.lean'), '\n'.join(out) + '\n'): changed.append('Funcs')

    # ---- guard literals
    g = ['-- GENERATED by translate/gen.py: integer literals of conditions / pointer initialisers, in source order; do not edit',
         'namespace LZ4V.Gen.Guards', '']
    try:
        for rel, fn, defs in GUARDS:
            fd = load_function(os.path.join(REPO, rel), fn, INCS, defs)
            gl = guard_literals(fd)
            g.append('/-- %s : %s  — (label, kind, literals) -/' % (rel, fn))
            g.append('def %s : List (String × String × List Nat) := [' % fn)
            g.append(',\n'.join('  (%s, %s, [%s])' % (json.dumps(l), json.dumps(k), ', '.join(str(x) for x in v)) for l, k, v in gl))
            g.append(']'); g.append('')
    except Unsupported as e:
        fail('guards: %s' % e)
    g.append('end LZ4V.Gen.Guards')
    if write_if_changed(os.path.join(OUT, 'Guards.lean'), '\n'.join(g) + '\n'): changed.append('Guards')
    # ---- call-site arguments
    def strip(n):
        while n.get('kind') in ('ImplicitCastExpr', 'ParenExpr', 'CStyleCastExpr', 'ConstantExpr') and n.get('inner'): n = n['inner'][0]
        return n
    cl = ['-- GENERATED by translate/gen.py: arguments of selected call sites, in source order (none = not an integer literal); do not edit',
          'namespace LZ4V.Gen.Calls', '']
    try:
        for rel, fn, callee, defs in CALLS:
            fd = load_function(os.path.join(REPO, rel), fn, INCS, defs)
            sites = []
            for n in c2lean.walk(fd):
                if n.get('kind') == 'CallExpr' and n.get('inner'):
                    c0 = strip(n['inner'][0])
                    if c0.get('kind') == 'DeclRefExpr' and c0.get('referencedDecl', {}).get('name') == callee:
                        args = []
                        for a in n['inner'][1:]:
                            a = strip(a)
                            args.append('some %d' % int(a['value']) if a.get('kind') == 'IntegerLiteral' else 'none')
                        sites.append('[' + ', '.join(args) + ']')
            if not sites: fail('calls: no call of %s in %s' % (callee, fn))
            cl.append('/-- %s : calls of %s in %s -/' % (rel, callee, fn))
            cl.append('def %s_%s : List (List (Option Nat)) := [%s]' % (fn, callee, ', '.join(sites))); cl.append('')
    except Unsupported as e:
        fail('calls: %s' % e)
    cl.append('end LZ4V.Gen.Calls')
    if write_if_changed(os.path.join(OUT, 'Calls.lean'), '\n'.join(cl) + '\n'): changed.append('Calls')
    print('GEN ok changed=%s' % (','.join(changed) if changed else 'none'))

if __name__ == '__main__':
    main()
