import LZ4V.Spec.Frame
/-!
# The frame and stream formats as list parsers (proof-friendly twin of `Spec/Frame.lean`)

Written from `doc/lz4_Frame_format.md` (LZ4 frames, skippable frames, legacy frames) and `programs/lz4.1.md`
(concatenated frames).  Everything is a `Parser`: a function from the remaining input to a result and the rest, built
from `takeN`/`peekN` only, so that *locality* (a successful parse does not look beyond what it consumed) can be proved
compositionally.  The checksum function and the block decoder are parameters (`Env`): the theorems hold for every
instantiation; the executable instantiation (XXH32, the block specification decoder) is cross-checked against
`Spec/Frame.lean` on every frame and archive the judges see.
-/
namespace LZ4V.Spec.FrameL
open LZ4V.Spec.Frame (Bad Header blockSizeOf isSkippableMagic legacyMagic isKnownMagic)

abbrev Bytes := List UInt8

structure Env where
  hash : Bytes → Nat                              -- XXH32, seed 0
  dec  : Bytes → Bytes → Nat → Option Bytes       -- block decoder: history, payload, capacity

/-- little-endian value -/
def le : Bytes → Nat
  | [] => 0
  | b :: t => b.toNat + 256 * le t

def Parser (α : Type) := Bytes → Except Bad (α × Bytes)

namespace Parser
def pure (x : α) : Parser α := fun s => .ok (x, s)
def fail (e : Bad) : Parser α := fun _ => .error e
def bind (p : Parser α) (f : α → Parser β) : Parser β := fun s =>
  match p s with
  | .error e => .error e
  | .ok (x, r) => f x r
end Parser

/-- consume exactly `n` bytes -/
def takeN (n : Nat) : Parser Bytes := fun s => if s.length < n then .error (.truncated "input") else .ok (s.take n, s.drop n)
/-- look at the next `n` bytes without consuming them -/
def peekN (n : Nat) : Parser Bytes := fun s => if s.length < n then .error (.truncated "input") else .ok (s.take n, s)

def lz4Magic : Nat := 0x184D2204

/-- the last ≤ 64 KB of `dict ++ content` -/
def window (dict content : Bytes) : Bytes := (dict ++ content).drop ((dict ++ content).length - 65536)

/-- frame descriptor (after the magic number): FLG, BD, optional content size and dictionary id, header checksum -/
def pHeader (E : Env) : Parser Header :=
  (takeN 2).bind fun fb =>
  let flg := (fb.getD 0 0).toNat
  let bd := (fb.getD 1 0).toNat
  if flg / 64 ≠ 1 then Parser.fail .version else
  if (flg / 2) % 2 ≠ 0 then Parser.fail .reserved else
  if bd / 128 ≠ 0 ∨ bd % 16 ≠ 0 then Parser.fail .reserved else
  if (bd / 16) % 8 < 4 then Parser.fail .blockSizeId else
  let hasCS := (flg / 8) % 2 == 1
  let hasDict := flg % 2 == 1
  (takeN ((if hasCS then 8 else 0) + (if hasDict then 4 else 0))).bind fun ext =>
  (takeN 1).bind fun hcb =>
  if (E.hash (fb ++ ext) / 256) % 256 ≠ (hcb.getD 0 0).toNat then Parser.fail .headerChecksum else
  Parser.pure { blockIndep := (flg / 32) % 2 == 1, blockChecksum := (flg / 16) % 2 == 1,
                contentSize := if hasCS then some (le (ext.take 8)) else none,
                contentChecksum := (flg / 4) % 2 == 1,
                dictId := if hasDict then some (le (ext.drop (if hasCS then 8 else 0))) else none,
                bsid := (bd / 16) % 8, maxBlock := blockSizeOf ((bd / 16) % 8),
                size := 4 + 2 + ((if hasCS then 8 else 0) + (if hasDict then 4 else 0)) + 1 }

/-- data blocks until the EndMark; accumulates the decoded content -/
def pBlocks (E : Env) (hdr : Header) (dict : Bytes) : Nat → Bytes → Parser Bytes
  | 0, _ => Parser.fail (.truncated "fuel")
  | fuel+1, content =>
    (takeN 4).bind fun w4 =>
    if le w4 = 0 then Parser.pure content else
    if le w4 % 0x80000000 > hdr.maxBlock then Parser.fail .blockTooLarge else
    (takeN (le w4 % 0x80000000)).bind fun payload =>
    (takeN (if hdr.blockChecksum then 4 else 0)).bind fun crc =>
    if hdr.blockChecksum ∧ E.hash payload ≠ le crc then Parser.fail .blockChecksum else
    if le w4 ≥ 0x80000000 then pBlocks E hdr dict fuel (content ++ payload)
    else
      match E.dec (if hdr.blockIndep then window dict [] else window dict content) payload hdr.maxBlock with
      | some d => pBlocks E hdr dict fuel (content ++ d)
      | none => Parser.fail (.blockDecode "")

/-- one LZ4 frame after its magic number: descriptor, blocks, optional content checksum, declared content size -/
def pFrameBody (E : Env) (dict : Bytes) (fuel : Nat) : Parser Bytes :=
  (pHeader E).bind fun hdr =>
  (pBlocks E hdr dict fuel []).bind fun content =>
  (takeN (if hdr.contentChecksum then 4 else 0)).bind fun crc =>
  if hdr.contentChecksum ∧ E.hash content ≠ le crc then Parser.fail .contentChecksum else
  if hdr.contentSize.isSome ∧ hdr.contentSize ≠ some content.length then Parser.fail .contentSize else
  Parser.pure content

/-- one LZ4 frame, magic number included -/
def pFrame (E : Env) (dict : Bytes) (fuel : Nat) : Parser Bytes :=
  (takeN 4).bind fun m4 => if le m4 ≠ lz4Magic then Parser.fail .magic else pFrameBody E dict fuel

def legacyBound : Nat := 8388608 + 8388608 / 255 + 16

/-- legacy blocks (after the legacy magic number): the frame ends at end of input or in front of a known magic number -/
def pLegacy (E : Env) : Nat → Bytes → Parser Bytes
  | 0, _ => Parser.fail (.truncated "fuel")
  | fuel+1, content => fun s =>
    if s = [] then .ok (content, []) else
    ((peekN 4).bind fun w4 =>
      if le w4 > legacyBound then (if isKnownMagic (le w4) then Parser.pure content else Parser.fail .legacyBlock)
      else
        (takeN 4).bind fun _ =>
        (takeN (le w4)).bind fun payload =>
        match E.dec [] payload 8388608 with
        | some d => pLegacy E fuel (content ++ d)
        | none => Parser.fail .legacyBlock) s

/-- a skippable frame after its magic number -/
def pSkippable : Parser Unit :=
  (takeN 4).bind fun sz4 => (takeN (le sz4)).bind fun _ => Parser.pure ()

/-- one frame of any kind, magic number included; yields the content it contributes -/
def pAnyFrame (E : Env) (dict : Bytes) (F : Nat) : Parser Bytes :=
  (takeN 4).bind fun m4 =>
  if le m4 = lz4Magic then pFrameBody E dict F
  else if le m4 = legacyMagic then pLegacy E F []
  else if isSkippableMagic (le m4) then pSkippable.bind fun _ => Parser.pure []
  else Parser.fail .magic

/-- a whole stream: any sequence of LZ4, legacy and skippable frames; `F` = fuel of the block loops -/
def pStream (E : Env) (dict : Bytes) (F : Nat) : Nat → Bytes → Except Bad Bytes
  | 0, _ => .error (.truncated "fuel")
  | fuel+1, s =>
    if s = [] then .ok [] else
    match pAnyFrame E dict F s with
    | .error e => .error e
    | .ok (c, rest) =>
      match pStream E dict F fuel rest with
      | .error e => .error e
      | .ok c' => .ok (c ++ c')

/-- what `lz4 -d` must write for input `s` -/
def decodeStream (E : Env) (dict : Bytes) (s : Bytes) : Except Bad Bytes := pStream E dict (s.length + 1) (s.length + 1) s

/-- one frame occupying the whole input -/
def decodeFrame (E : Env) (dict : Bytes) (s : Bytes) : Except Bad (Bytes × Bytes) := pFrame E dict (s.length + 1) s

end LZ4V.Spec.FrameL
