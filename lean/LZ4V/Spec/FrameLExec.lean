import LZ4V.Spec.FrameL
import LZ4V.Spec.BlockFast
/-! # Executable instantiation of `FrameL.Env`: XXH32 and the block specification decoder -/
namespace LZ4V.Spec.FrameL

def toBA (l : Bytes) : ByteArray := ByteArray.mk l.toArray

def xxhEnv : Env where
  hash := fun l => (LZ4V.Spec.XXH32.hash (toBA l)).toNat
  dec := fun hist payload cap =>
    match LZ4V.Spec.BlockA.decodeA (toBA hist) (toBA payload) cap with
    | .ok (d, _) => some d.toList
    | .error _ => none

end LZ4V.Spec.FrameL
