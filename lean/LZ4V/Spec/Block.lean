/-!
# LZ4 block format — specification layer

Written from `doc/lz4_Block_format.md` only.  This file is part of the *trusted statement*: it says what
"decodes to" means.  Everything is list based and consumes its input, so it can be read in minutes.

* `Seq`, `serialize`          : a parse (sequences + last literals) and its byte encoding
* `copyMatch`, `exec`         : the meaning of a parse (sequence semantics, overlapping copies included)
* `decodeAux`, `decode`       : the specification decoder (with history in front of the output)
* `parseAux`, `parse`         : format-only parser (no history needed)
* `endConditions`             : the three end-of-block rules of the document, on a parse
-/
namespace LZ4V.Spec.Block

/-- a sequence: literals, then a match of `ml ≥ 4` bytes at distance `off` -/
structure Seq where
  lits : List UInt8
  off  : Nat
  ml   : Nat
deriving Repr, DecidableEq

/-! ## length fields -/

/-- extra length bytes for a value `v` : 255* then the remainder (< 255) -/
def encLen (v : Nat) : List UInt8 :=
  if h : v ≥ 255 then (255 : UInt8) :: encLen (v - 255) else [UInt8.ofNat v]
termination_by v
decreasing_by omega

def decLen : List UInt8 → Option (Nat × List UInt8)
  | [] => none
  | b :: rest =>
    if b = 255 then
      match decLen rest with
      | some (v, r) => some (v + 255, r)
      | none => none
    else some (b.toNat, rest)

/-- 4-bit field of a length -/
def nib (v : Nat) : Nat := if v ≥ 15 then 15 else v
/-- optional extension bytes of a length -/
def ext (v : Nat) : List UInt8 := if v ≥ 15 then encLen (v - 15) else []

def token (ll mlc : Nat) : UInt8 := UInt8.ofNat (nib ll * 16 + nib mlc)

/-- read a length field: nibble + optional extension -/
def readField (nibble : Nat) (inp : List UInt8) : Option (Nat × List UInt8) :=
  if nibble = 15 then
    match decLen inp with
    | some (v, r) => some (15 + v, r)
    | none => none
  else some (nibble, inp)

/-! ## serialisation of a parse -/

def serSeq (s : Seq) : List UInt8 :=
  token s.lits.length (s.ml - 4) :: (ext s.lits.length ++ s.lits ++
    [UInt8.ofNat (s.off % 256), UInt8.ofNat (s.off / 256)] ++ ext (s.ml - 4))

def serLast (l : List UInt8) : List UInt8 := token l.length 0 :: (ext l.length ++ l)

def serialize (seqs : List Seq) (last : List UInt8) : List UInt8 :=
  (seqs.map serSeq).flatten ++ serLast last

/-! ## sequence semantics -/

/-- match copy: append `n` bytes, each equal to the byte `off` positions back (overlap allowed);
    `off = 0` and `off` beyond the available data are invalid -/
def copyMatch (out : List UInt8) (off : Nat) : Nat → Option (List UInt8)
  | 0 => some out
  | n+1 =>
    if 1 ≤ off ∧ off ≤ out.length then
      match out[out.length - off]? with
      | some b => copyMatch (out ++ [b]) off n
      | none => none
    else none

/-- meaning of a parse, starting from the data already present (`out` = history ++ decoded so far) -/
def exec (out : List UInt8) : List Seq → List UInt8 → Option (List UInt8)
  | [], last => some (out ++ last)
  | s :: rest, last =>
    match copyMatch (out ++ s.lits) s.off s.ml with
    | some out' => exec out' rest last
    | none => none

/-! ## the specification decoder -/

/-- consumes its input; `fuel` bounds the number of sequences; `out` starts as the history -/
def decodeAux : Nat → List UInt8 → List UInt8 → Option (List UInt8)
  | 0, _, _ => none
  | _, [], _ => none
  | fuel+1, tok :: inp, out =>
    match readField (tok.toNat / 16) inp with
    | none => none
    | some (ll, inp1) =>
      if ll > inp1.length then none else
      match inp1.drop ll with
      | [] => some (out ++ inp1.take ll)                  -- last sequence: literals only, input exhausted
      | [_] => none
      | lo :: hi :: inp3 =>
        match readField (tok.toNat % 16) inp3 with
        | none => none
        | some (mlc, inp4) =>
          match copyMatch (out ++ inp1.take ll) (lo.toNat + 256 * hi.toNat) (mlc + 4) with
          | some out2 => decodeAux fuel inp4 out2
          | none => none

/-- `decode hist blk` : the content of block `blk` when `hist` precedes it (dictionary / earlier blocks) -/
def decode (hist blk : List UInt8) : Option (List UInt8) :=
  (decodeAux (blk.length + 1) blk hist).map (·.drop hist.length)

/-! ## format-only parser and end-of-block rules -/

def parseAux : Nat → List UInt8 → Option (List Seq × List UInt8)
  | 0, _ => none
  | _, [] => none
  | fuel+1, tok :: inp =>
    match readField (tok.toNat / 16) inp with
    | none => none
    | some (ll, inp1) =>
      if ll > inp1.length then none else
      match inp1.drop ll with
      | [] => some ([], inp1.take ll)
      | [_] => none
      | lo :: hi :: inp3 =>
        match readField (tok.toNat % 16) inp3 with
        | none => none
        | some (mlc, inp4) =>
          match parseAux fuel inp4 with
          | some (seqs, last) => some (⟨inp1.take ll, lo.toNat + 256 * hi.toNat, mlc + 4⟩ :: seqs, last)
          | none => none

def parse (blk : List UInt8) : Option (List Seq × List UInt8) := parseAux (blk.length + 1) blk

/-- End of block rules of the document, stated on the parse:
    the last sequence is literal-only (by construction of a parse); if there is any match, the last 5 bytes
    are literals and the last match starts at least 12 bytes before the end of the (decoded) block. -/
def endConditions (seqs : List Seq) (last : List UInt8) : Bool :=
  match seqs.getLast? with
  | none => true
  | some s => decide (5 ≤ last.length) && decide (12 ≤ s.ml + last.length)

/-- every offset is in `1..dmax` (the document's maximum is 65535) -/
def offsetsInRange (dmax : Nat) (seqs : List Seq) : Bool :=
  seqs.all (fun s => decide (1 ≤ s.off) && decide (s.off ≤ dmax))

end LZ4V.Spec.Block
