import LZ4V.Spec.BlockFast
/-!
# LZ4 frame format, legacy frames, skippable frames — specification layer (executable)

Written from `doc/lz4_Frame_format.md` and the public definition of XXH32.  Independent of `lib/lz4frame.c`,
`lib/xxhash.c` and `programs/lz4io.c`; it is the validator for C03/C04/C07/C08/C14/C15/C19/C20.
All functions are total.  `ByteArray` based (the payload decoder is `Spec.BlockA`, cross-checked against the list spec).
-/
namespace LZ4V.Spec.XXH32

def P1 : UInt32 := 2654435761
def P2 : UInt32 := 2246822519
def P3 : UInt32 := 3266489917
def P4 : UInt32 := 668265263
def P5 : UInt32 := 374761393

@[inline] def rotl (x : UInt32) (r : UInt32) : UInt32 := (x <<< r) ||| (x >>> (32 - r))
@[inline] def rd32 (b : ByteArray) (i : Nat) : UInt32 :=
  (b.get! i).toUInt32 ||| ((b.get! (i+1)).toUInt32 <<< 8) ||| ((b.get! (i+2)).toUInt32 <<< 16) ||| ((b.get! (i+3)).toUInt32 <<< 24)
@[inline] def round (acc inp : UInt32) : UInt32 := rotl (acc + inp * P2) 13 * P1

/-- the four-lane stripe loop over `[i, i + 16*k)` -/
def stripes (b : ByteArray) : Nat → Nat → UInt32 → UInt32 → UInt32 → UInt32 → (UInt32 × UInt32 × UInt32 × UInt32)
  | 0, _, v1, v2, v3, v4 => (v1, v2, v3, v4)
  | k+1, i, v1, v2, v3, v4 =>
    stripes b k (i + 16) (round v1 (rd32 b i)) (round v2 (rd32 b (i+4))) (round v3 (rd32 b (i+8))) (round v4 (rd32 b (i+12)))

def tail4 (b : ByteArray) : Nat → Nat → UInt32 → UInt32
  | 0, _, h => h
  | k+1, i, h => tail4 b k (i + 4) (rotl (h + rd32 b i * P3) 17 * P4)

def tail1 (b : ByteArray) : Nat → Nat → UInt32 → UInt32
  | 0, _, h => h
  | k+1, i, h => tail1 b k (i + 1) (rotl (h + (b.get! i).toUInt32 * P5) 11 * P1)

def avalanche (h : UInt32) : UInt32 :=
  let h := h ^^^ (h >>> 15); let h := h * P2; let h := h ^^^ (h >>> 13); let h := h * P3; h ^^^ (h >>> 16)

/-- XXH32 of `b[lo, hi)` -/
def hashRange (b : ByteArray) (lo hi : Nat) (seed : UInt32 := 0) : UInt32 :=
  let n := hi - lo
  let ns := n / 16
  let h0 : UInt32 :=
    if n ≥ 16 then
      let (v1, v2, v3, v4) := stripes b ns lo (seed + P1 + P2) (seed + P2) seed (seed - P1)
      rotl v1 1 + rotl v2 7 + rotl v3 12 + rotl v4 18
    else seed + P5
  let h1 := h0 + n.toUInt32
  let i := lo + 16 * ns
  let n4 := (hi - i) / 4
  let h2 := tail4 b n4 i h1
  let h3 := tail1 b (hi - (i + 4 * n4)) (i + 4 * n4) h2
  avalanche h3

def hash (b : ByteArray) (seed : UInt32 := 0) : UInt32 := hashRange b 0 b.size seed

end LZ4V.Spec.XXH32

namespace LZ4V.Spec.Frame
open LZ4V.Spec

def rdLE (b : ByteArray) (i k : Nat) : Nat := (List.range k).foldl (fun acc j => acc + (b.get! (i+j)).toNat <<< (8*j)) 0

structure Header where
  blockIndep      : Bool
  blockChecksum   : Bool
  contentSize     : Option Nat
  contentChecksum : Bool
  dictId          : Option Nat
  bsid            : Nat          -- 4..7
  maxBlock        : Nat
  size            : Nat          -- header size in bytes, magic included
deriving Repr, BEq

inductive Bad
  | truncated (what : String)
  | magic | version | reserved | blockSizeId | headerChecksum
  | blockTooLarge | blockChecksum | blockDecode (e : String) | contentChecksum | contentSize
  | legacyBlock
deriving Repr, BEq

def blockSizeOf (bsid : Nat) : Nat := match bsid with | 4 => 65536 | 5 => 262144 | 6 => 1048576 | 7 => 4194304 | _ => 0

/-- parse and validate the frame header at `p` (magic number included) -/
def parseHeader (b : ByteArray) (p : Nat) : Except Bad Header :=
  if p + 7 > b.size then .error (.truncated "header") else
  if rdLE b p 4 ≠ 0x184D2204 then .error .magic else
  let flg := (b.get! (p+4)).toNat
  let bd := (b.get! (p+5)).toNat
  if flg / 64 ≠ 1 then .error .version else
  if (flg / 2) % 2 ≠ 0 then .error .reserved else
  if bd / 128 ≠ 0 ∨ bd % 16 ≠ 0 then .error .reserved else
  let bsid := (bd / 16) % 8
  if bsid < 4 then .error .blockSizeId else
  let hasCS := (flg / 8) % 2 == 1
  let hasDict := flg % 2 == 1
  let descLen := 2 + (if hasCS then 8 else 0) + (if hasDict then 4 else 0)
  if p + 4 + descLen + 1 > b.size then .error (.truncated "descriptor") else
  let hc := ((XXH32.hashRange b (p+4) (p+4+descLen)) >>> 8).toNat % 256
  if hc ≠ (b.get! (p+4+descLen)).toNat then .error .headerChecksum else
  .ok { blockIndep := (flg / 32) % 2 == 1, blockChecksum := (flg / 16) % 2 == 1,
        contentSize := if hasCS then some (rdLE b (p+6) 8) else none,
        contentChecksum := (flg / 4) % 2 == 1,
        dictId := if hasDict then some (rdLE b (p+6+(if hasCS then 8 else 0)) 4) else none,
        bsid, maxBlock := blockSizeOf bsid, size := 4 + descLen + 1 }

structure BlockInfo where
  raw : Bool
  csize : Nat
  dsize : Nat
  maxOff : Nat
deriving Repr

structure Parsed where
  hdr     : Header
  content : ByteArray
  next    : Nat                  -- offset just after the frame
  blocks  : Array BlockInfo

/-- the last ≤ 64 KB of `dict ++ content` -/
def window (dict content : ByteArray) : ByteArray :=
  if content.size ≥ 65536 then content.extract (content.size - 65536) content.size
  else
    let need := 65536 - content.size
    (dict.extract (dict.size - min dict.size need) dict.size) ++ content

/-- data blocks until the EndMark -/
def parseBlocks (b : ByteArray) (hdr : Header) (dict : ByteArray) :
    Nat → Nat → ByteArray → Array BlockInfo → Except Bad (Nat × ByteArray × Array BlockInfo)
  | 0, _, _, _ => .error (.truncated "fuel")
  | fuel+1, q, content, infos =>
    if q + 4 > b.size then .error (.truncated "block header") else
    let w := rdLE b q 4
    if w = 0 then .ok (q + 4, content, infos) else
    let raw := w ≥ 0x80000000
    let sz := w % 0x80000000
    if sz > hdr.maxBlock then .error .blockTooLarge else
    if q + 4 + sz + (if hdr.blockChecksum then 4 else 0) > b.size then .error (.truncated "block") else
    let payload := b.extract (q+4) (q+4+sz)
    if hdr.blockChecksum ∧ (XXH32.hash payload).toNat ≠ rdLE b (q+4+sz) 4 then .error .blockChecksum else
    let q' := q + 4 + sz + (if hdr.blockChecksum then 4 else 0)
    if raw then parseBlocks b hdr dict fuel q' (content ++ payload) (infos.push ⟨true, sz, sz, 0⟩)
    else
      let hist := if hdr.blockIndep then window dict ByteArray.empty else window dict content
      match BlockA.decodeA hist payload hdr.maxBlock with
      | .ok (d, sm) => parseBlocks b hdr dict fuel q' (content ++ d) (infos.push ⟨false, sz, d.size, sm.maxOff⟩)
      | .error e => .error (.blockDecode (reprStr e))

/-- parse, validate and decode one LZ4 frame at offset `p` -/
def parseFrame (b : ByteArray) (p : Nat) (dict : ByteArray := ByteArray.empty) (checkContentChecksum : Bool := true) : Except Bad Parsed := do
  let hdr ← parseHeader b p
  let (q, content, infos) ← parseBlocks b hdr dict (b.size + 1) (p + hdr.size) ByteArray.empty #[]
  let q2 ←
    if hdr.contentChecksum then
      if q + 4 > b.size then .error (.truncated "content checksum")
      else if checkContentChecksum ∧ (XXH32.hash content).toNat ≠ rdLE b q 4 then .error .contentChecksum
      else pure (q + 4)
    else pure q
  match hdr.contentSize with
  | some s => if s ≠ content.size then .error .contentSize else pure ⟨hdr, content, q2, infos⟩
  | none => pure ⟨hdr, content, q2, infos⟩

/-! ## legacy and skippable frames, streams (what `lz4 -d` consumes) -/

def legacyMagic : Nat := 0x184C2102
def isSkippableMagic (m : Nat) : Bool := m / 16 == 0x184D2A5

inductive Kind | lz4 | legacy | skippable
deriving Repr, BEq

def isKnownMagic (m : Nat) : Bool := m == 0x184D2204 || m == legacyMagic || isSkippableMagic m

/-- legacy blocks: `u32 csize | payload` each decoding to ≤ 8 MB with no history; the frame ends at end of input or where
    the next 4 bytes are a known magic number (the CLI's rule: a "block size" above `LZ4_COMPRESSBOUND(8 MB)`) -/
def parseLegacyBlocks (b : ByteArray) : Nat → Nat → ByteArray → Except Bad (Nat × ByteArray)
  | 0, _, _ => .error (.truncated "fuel")
  | fuel+1, q, content =>
    if q = b.size then .ok (q, content) else
    if q + 4 > b.size then .error (.truncated "legacy block size") else
    let sz := rdLE b q 4
    if sz > 8388608 + 8388608 / 255 + 16 then
      (if isKnownMagic sz then .ok (q, content) else .error .legacyBlock)
    else if q + 4 + sz > b.size then .error (.truncated "legacy block") else
    match BlockA.decodeA ByteArray.empty (b.extract (q+4) (q+4+sz)) 8388608 with
    | .ok (d, _) => parseLegacyBlocks b fuel (q + 4 + sz) (content ++ d)
    | .error _ => .error .legacyBlock

/-- decode a whole stream: concatenation of LZ4 frames, legacy frames and skippable frames -/
def decodeStream (b : ByteArray) (dict : ByteArray := ByteArray.empty) : Nat → Nat → ByteArray → Array Kind → Except Bad (ByteArray × Array Kind)
  | 0, _, _, _ => .error (.truncated "fuel")
  | fuel+1, p, out, kinds =>
    if p = b.size then .ok (out, kinds) else
    if p + 4 > b.size then .error (.truncated "magic") else
    let m := rdLE b p 4
    if m = 0x184D2204 then
      match parseFrame b p dict with
      | .ok f => decodeStream b dict fuel f.next (out ++ f.content) (kinds.push .lz4)
      | .error e => .error e
    else if m = legacyMagic then
      match parseLegacyBlocks b (b.size + 1) (p + 4) ByteArray.empty with
      | .ok (q, c) => decodeStream b dict fuel q (out ++ c) (kinds.push .legacy)
      | .error e => .error e
    else if isSkippableMagic m then
      if p + 8 > b.size then .error (.truncated "skippable size") else
      let sz := rdLE b (p+4) 4
      if p + 8 + sz > b.size then .error (.truncated "skippable data") else
      decodeStream b dict fuel (p + 8 + sz) out (kinds.push .skippable)
    else .error .magic

def decodeWholeStream (b : ByteArray) (dict : ByteArray := ByteArray.empty) : Except Bad (ByteArray × Array Kind) :=
  decodeStream b dict (b.size + 1) 0 ByteArray.empty #[]

end LZ4V.Spec.Frame
