import LZ4V.Spec.Block
/-!
# Executable (array based) form of the block specification

`decodeA hist blk` computes the same function as `Spec.Block.decode` but over `ByteArray` with cursors, in time linear in
the output, and also returns a summary of the parse (number of sequences, largest offset, last match length, last
literal run) that `endConditions` / `offsetsInRange` need.  It is the validator the correspondence and the search use;
the driver cross-checks it against the list specification on every small case it sees (`crossCheck`).
All functions are total (structural recursion on fuel / counters).
-/
namespace LZ4V.Spec.BlockA

structure Summary where
  nseq     : Nat := 0      -- number of sequences with a match
  maxOff   : Nat := 0
  minOff   : Nat := 0      -- 0 = none yet
  lastMl   : Nat := 0
  lastLits : Nat := 0
  maxMl    : Nat := 0
  maxLits  : Nat := 0
deriving Repr, Inhabited

/-- extension bytes of a length field: returns (sum, next ip) -/
def readLen (src : ByteArray) : Nat → Nat → Nat → Option (Nat × Nat)
  | 0, _, _ => none
  | fuel+1, ip, acc =>
    if h : ip < src.size then
      let b := src[ip].toNat
      if b = 255 then readLen src fuel (ip+1) (acc + 255) else some (acc + b, ip+1)
    else none

def readField (src : ByteArray) (nibble ip : Nat) : Option (Nat × Nat) :=
  if nibble = 15 then readLen src (src.size + 1) ip 15 else some (nibble, ip)

/-- append `n` bytes, each the byte `off` back (caller guarantees 1 ≤ off ≤ out.size) -/
def copyMatch (out : ByteArray) (off : Nat) : Nat → ByteArray
  | 0 => out
  | n+1 => copyMatch (out.push (out.get! (out.size - off))) off n

/-- liblz4's documented deviation: offset 0 yields zero bytes (used only to classify finding F7a) -/
def zeros (out : ByteArray) : Nat → ByteArray
  | 0 => out
  | n+1 => zeros (out.push 0) n

inductive Err | truncated | badOffset (seqIdx off avail : Nat) | tooLong | fuel
deriving Repr

def decodeAux (src : ByteArray) (limit : Nat) (zeroOk : Bool := false) : Nat → Nat → ByteArray → Summary → Except Err (ByteArray × Summary)
  | 0, _, _, _ => .error .fuel
  | fuel+1, ip, out, sm =>
    if h : ip < src.size then
      let tok := src[ip].toNat
      match readField src (tok / 16) (ip+1) with
      | none => .error .truncated
      | some (ll, ip1) =>
        if ip1 + ll > src.size then .error .truncated else
        let out1 := out ++ src.extract ip1 (ip1 + ll)
        let ip2 := ip1 + ll
        if out1.size > limit then .error .tooLong else
        if ip2 = src.size then .ok (out1, { sm with lastLits := ll, maxLits := max sm.maxLits ll })
        else if ip2 + 2 > src.size then .error .truncated else
        let off := (src.get! ip2).toNat + 256 * (src.get! (ip2+1)).toNat
        match readField src (tok % 16) (ip2 + 2) with
        | none => .error .truncated
        | some (mlc, ip3) =>
          let ml := mlc + 4
          if (off = 0 ∧ ¬ zeroOk) ∨ off > out1.size then .error (.badOffset sm.nseq off out1.size) else
          if out1.size + ml > limit then .error .tooLong else
          let out2 := if off = 0 then zeros out1 ml else copyMatch out1 off ml
          decodeAux src limit zeroOk fuel ip3 out2
            { nseq := sm.nseq + 1, maxOff := max sm.maxOff off, minOff := if sm.minOff = 0 then off else min sm.minOff off,
              lastMl := ml, lastLits := 0, maxMl := max sm.maxMl ml, maxLits := max sm.maxLits ll }
    else .error .truncated

/-- decode `blk` with `hist` in front; `maxOut` bounds the decoded size (protection for the judge, not part of the format) -/
def decodeA (hist blk : ByteArray) (maxOut : Nat) : Except Err (ByteArray × Summary) :=
  match decodeAux blk (hist.size + maxOut) false (blk.size + 1) 0 hist {} with
  | .ok (out, sm) => .ok (out.extract hist.size out.size, sm)
  | .error e => .error e

/-- `SpecZ`: the specification extended by "offset 0 copies zeros" -/
def decodeZ (hist blk : ByteArray) (maxOut : Nat) : Except Err (ByteArray × Summary) :=
  match decodeAux blk (hist.size + maxOut) true (blk.size + 1) 0 hist {} with
  | .ok (out, sm) => .ok (out.extract hist.size out.size, sm)
  | .error e => .error e

def endConditionsA (sm : Summary) : Bool :=
  sm.nseq = 0 || (decide (5 ≤ sm.lastLits) && decide (12 ≤ sm.lastMl + sm.lastLits))

/-- cross-check against the list specification (used by the driver on small inputs) -/
def crossCheck (hist blk : ByteArray) : Bool :=
  let l := LZ4V.Spec.Block.decode hist.toList blk.toList
  match decodeA hist blk (1 <<< 40), l with
  | .ok (o, sm), some lo =>
      o.toList == lo &&
      (match LZ4V.Spec.Block.parse blk.toList with
       | some (seqs, last) => LZ4V.Spec.Block.endConditions seqs last == endConditionsA sm && seqs.length == sm.nseq
       | none => false)
  | .error _, none => true
  | _, _ => false

end LZ4V.Spec.BlockA
