import LZ4V.Proofs.FrameDS4
/-!
# The dStage machine — part 5: every call terminates

`rank` orders the stages so that an iteration of the `while (doAnotherStage)` loop that neither stops nor fails either consumes input or moves to a
context of lower rank; `32 * (bytes not yet consumed) + rank` therefore decreases, and the fuel the model gives its loop (`fuelFor`) is never used up.
-/
namespace LZ4V.Model.FrameDS
open LZ4V.Spec.FrameL
open LZ4V.Spec.Frame (Bad Header isSkippableMagic)

/-- rank of a context: non-consuming transitions only go down -/
def rank (c : Ctx) : Nat :=
  match c.stage with
  | .getFrameHeader => 25
  | .storeFrameHeader => if c.staged.length < c.tmpInTarget then 20 else 31
  | .init => 2
  | .getBlockHeader => 1
  | .storeBlockHeader => if c.staged.length < 4 then 0 else 31
  | .copyDirect => 10
  | .getBlockChecksum => 5
  | .getCBlock => 12
  | .storeCBlock => 11
  | .flushOut => 3
  | .getSuffix => 4
  | .storeSuffix => 0
  | .getSFrameSize => 6
  | .storeSFrameSize => 5
  | .skipSkippable => 0

theorem rank_le (c : Ctx) : rank c ≤ 31 := by
  unfold rank; cases c.stage <;> dsimp only <;> (try split) <;> omega

def pot (k : Call) : Nat := 32 * k.src.length + rank k.c

/-- the measure decreases along `.next` -/
def Dec (bound : Nat) : Step → Prop
  | .next k' => pot k' < bound
  | _ => True

theorem decodeBlockHeader_dec (k : Call) (sel : Bytes) : Dec (32 * k.src.length + 13) (decodeBlockHeader k sel) := by
  unfold decodeBlockHeader; dsimp only
  split; · show 32 * k.src.length + 4 < _; omega
  split; · exact True.intro
  split; · show 32 * k.src.length + 10 < _; omega
  split
  · exact True.intro
  · show 32 * k.src.length + 12 < _; omega

theorem length_drop_min (l : Bytes) (n : Nat) : (l.drop n).length = l.length - n := List.length_drop

theorem sStoreBlockHeader_dec (k : Call) (hs : k.c.stage = .storeBlockHeader) : Dec (pot k) (sStoreBlockHeader k) := by
  unfold sStoreBlockHeader; dsimp only
  have hB : LZ4V.Gen.BHSize = 4 := rfl
  rw [hB]
  split
  · exact True.intro
  · rename_i hge
    have hd := decodeBlockHeader_dec { k with c := { k.c with staged := k.c.staged ++ List.take (min (4 - k.c.staged.length) k.src.length) k.src }, src := List.drop (min (4 - k.c.staged.length) k.src.length) k.src }
      (k.c.staged ++ List.take (min (4 - k.c.staged.length) k.src.length) k.src)
    revert hd
    generalize decodeBlockHeader _ _ = st
    intro hd
    cases st with
    | next k' =>
      unfold Dec at hd ⊢
      dsimp only at hd
      rw [List.length_drop] at hd
      rw [List.length_append, List.length_take] at hge
      have hr : rank k.c = if k.c.staged.length < 4 then 0 else 31 := by unfold rank; rw [hs]
      show pot k' < 32 * k.src.length + rank k.c
      rw [hr]
      split <;> omega
    | stop _ _ => exact True.intro
    | fail _ _ => exact True.intro

theorem Dec.mono {b b' : Nat} {st : Step} (h : Dec b st) (hb : b ≤ b') : Dec b' st := by
  cases st with
  | next k' => exact Nat.lt_of_lt_of_le h hb
  | stop _ _ => exact True.intro
  | fail _ _ => exact True.intro

theorem sGetBlockHeader_dec (k : Call) : Dec (32 * k.src.length + 1) (sGetBlockHeader k) := by
  unfold sGetBlockHeader
  have hB : LZ4V.Gen.BHSize = 4 := rfl
  rw [hB]
  split
  · have := decodeBlockHeader_dec { k with src := k.src.drop 4 } (k.src.take 4)
    dsimp only at this
    rw [List.length_drop] at this
    exact this.mono (by omega)
  · have := sStoreBlockHeader_dec { k with c := { k.c with staged := [], stage := .storeBlockHeader } } rfl
    exact this.mono (by unfold pot rank; simp)

theorem sInit_dec (k : Call) : Dec (32 * k.src.length + 2) (sInit k) := by
  unfold sInit; dsimp only
  exact (sGetBlockHeader_dec _).mono (by dsimp only; omega)

theorem sCopyDirect_dec (k : Call) : Dec (32 * k.src.length + 10) (sCopyDirect k) := by
  unfold sCopyDirect; dsimp only
  split
  · split
    · show 32 * (List.drop _ k.src).length + 5 < _; rw [List.length_drop]; omega
    · show 32 * (List.drop _ k.src).length + 1 < _; rw [List.length_drop]; omega
  · exact True.intro

theorem checkBlockCrc_dec (E : Env) (k : Call) (sel : Bytes) : Dec (32 * k.src.length + 2) (checkBlockCrc E k sel) := by
  unfold checkBlockCrc
  split
  · exact True.intro
  · show 32 * k.src.length + 1 < _; omega

theorem sGetBlockChecksum_dec (E : Env) (k : Call) : Dec (32 * k.src.length + 5) (sGetBlockChecksum E k) := by
  unfold sGetBlockChecksum
  split
  · have := checkBlockCrc_dec E { k with src := k.src.drop 4 } (k.src.take 4)
    dsimp only at this; rw [List.length_drop] at this
    exact this.mono (by omega)
  · dsimp only
    split
    · exact True.intro
    · have := checkBlockCrc_dec E { k with c := { k.c with staged := k.c.staged ++ List.take (min (4 - k.c.staged.length) k.src.length) k.src }, src := List.drop (min (4 - k.c.staged.length) k.src.length) k.src }
        (k.c.staged ++ List.take (min (4 - k.c.staged.length) k.src.length) k.src)
      dsimp only at this; rw [List.length_drop] at this
      exact this.mono (by omega)

theorem sFlushOut_dec (k : Call) : Dec (32 * k.src.length + 2) (sFlushOut k) := by
  unfold sFlushOut; dsimp only
  split
  · show 32 * k.src.length + 1 < _; omega
  · exact True.intro

theorem decodeCBlock_dec (E : Env) (k : Call) (sel : Bytes) : Dec (32 * k.src.length + 2) (decodeCBlock E k sel) := by
  unfold decodeCBlock; dsimp only
  split; · exact True.intro
  generalize (if k.c.blockChecksum = true then { k.c with tmpInTarget := k.c.tmpInTarget - 4 } else k.c) = c1
  cases E.dec (history c1) (List.take c1.tmpInTarget sel) c1.maxBlockSize with
  | none => exact True.intro
  | some d =>
    dsimp only
    by_cases hr : k.room ≥ c1.maxBlockSize
    · rw [if_pos hr]; show 32 * k.src.length + 1 < _; omega
    · rw [if_neg hr]; exact sFlushOut_dec _

theorem sStoreCBlock_dec (E : Env) (k : Call) : Dec (32 * k.src.length + 11) (sStoreCBlock E k) := by
  unfold sStoreCBlock; dsimp only
  split
  · exact True.intro
  · have := decodeCBlock_dec E { k with c := { k.c with staged := k.c.staged ++ List.take (min (k.c.tmpInTarget - k.c.staged.length) k.src.length) k.src }, src := List.drop (min (k.c.tmpInTarget - k.c.staged.length) k.src.length) k.src }
      (k.c.staged ++ List.take (min (k.c.tmpInTarget - k.c.staged.length) k.src.length) k.src)
    dsimp only at this; rw [List.length_drop] at this
    exact this.mono (by omega)

theorem sGetCBlock_dec (E : Env) (k : Call) : Dec (32 * k.src.length + 12) (sGetCBlock E k) := by
  unfold sGetCBlock
  split
  · show 32 * k.src.length + 11 < _; omega
  · have := decodeCBlock_dec E { k with src := k.src.drop k.c.tmpInTarget } (k.src.take k.c.tmpInTarget)
    dsimp only at this; rw [List.length_drop] at this
    exact this.mono (by omega)

theorem checkSuffix_dec (E : Env) (k : Call) (sel : Bytes) (b : Nat) : Dec b (checkSuffix E k sel) := by
  unfold checkSuffix; split <;> exact True.intro

theorem sStoreSuffix_dec (E : Env) (k : Call) (b : Nat) : Dec b (sStoreSuffix E k) := by
  unfold sStoreSuffix; dsimp only; split
  · exact True.intro
  · exact checkSuffix_dec E _ _ b

theorem sGetSuffix_dec (E : Env) (k : Call) (b : Nat) : Dec b (sGetSuffix E k) := by
  unfold sGetSuffix
  split; · exact True.intro
  split; · exact True.intro
  split
  · exact sStoreSuffix_dec E _ b
  · exact checkSuffix_dec E _ _ b

theorem decodeSFrameSize_dec (k : Call) (sel : Bytes) : Dec (32 * k.src.length + 1) (decodeSFrameSize k sel) := by
  unfold decodeSFrameSize
  show 32 * k.src.length + 0 < _; omega

theorem sStoreSFrameSize_dec (k : Call) : Dec (32 * k.src.length + 5) (sStoreSFrameSize k) := by
  unfold sStoreSFrameSize; dsimp only
  split
  · exact True.intro
  · have := decodeSFrameSize_dec { k with c := { k.c with staged := k.c.staged ++ List.take (min (k.c.tmpInTarget - k.c.staged.length) k.src.length) k.src }, src := List.drop (min (k.c.tmpInTarget - k.c.staged.length) k.src.length) k.src }
      ((k.c.staged ++ List.take (min (k.c.tmpInTarget - k.c.staged.length) k.src.length) k.src).drop 4)
    dsimp only at this; rw [List.length_drop] at this
    exact this.mono (by omega)

theorem sGetSFrameSize_dec (k : Call) : Dec (32 * k.src.length + 6) (sGetSFrameSize k) := by
  unfold sGetSFrameSize
  split
  · have := decodeSFrameSize_dec { k with src := k.src.drop 4 } (k.src.take 4)
    dsimp only at this; rw [List.length_drop] at this
    exact this.mono (by omega)
  · exact (sStoreSFrameSize_dec _).mono (by dsimp only; omega)

theorem sSkipSkippable_dec (k : Call) (b : Nat) : Dec b (sSkipSkippable k) := by
  unfold sSkipSkippable; dsimp only; split <;> exact True.intro

/-- `LZ4F_decodeHeader`: at least 4 bytes read, and the context it leaves has rank at most 20 -/
theorem decodeHeader_rank (E : Env) (c : Ctx) (src : Bytes) (fromHeader : Bool) (c' : Ctx) (h : Nat)
    (hres : decodeHeader E c src fromHeader = .ok (c', h)) : rank c' ≤ 20 ∧ 4 ≤ h := by
  unfold decodeHeader at hres
  split at hres; · cases hres
  rename_i h7
  have hmin : LZ4V.Gen.minFHSize = 7 := rfl
  rw [hmin] at h7
  dsimp only at hres
  split at hres
  · split at hres
    · injection hres with hres; injection hres with h1 h2; subst h1; subst h2
      exact ⟨by unfold rank; simp, by omega⟩
    · injection hres with hres; injection hres with h1 h2; subst h1; subst h2
      exact ⟨by unfold rank; simp, by omega⟩
  · cases hd : FrameD.decodeHeader E.hash src with
    | error e => rw [hd] at hres; cases hres
    | ok r =>
      rw [hd] at hres
      have hshape := FrameD.decodeHeader_shape E src r hd
      cases r with
      | needMore target =>
        dsimp only at hres hshape
        injection hres with hres; injection hres with h1 h2; subst h1; subst h2
        refine ⟨?_, by omega⟩
        unfold rank; dsimp only; rw [if_pos hshape.1]; omega
      | done hdr size =>
        dsimp only at hres hshape
        injection hres with hres; injection hres with h1 h2; subst h1; subst h2
        exact ⟨by unfold rank; simp, by omega⟩

theorem sStoreFrameHeader_dec (E : Env) (k : Call) (hs : k.c.stage = .storeFrameHeader) : Dec (pot k) (sStoreFrameHeader E k) := by
  unfold sStoreFrameHeader; dsimp only
  generalize hn : min (k.c.tmpInTarget - k.c.staged.length) k.src.length = n
  split
  · exact True.intro
  · rename_i hge
    cases hres : decodeHeader E { k.c with staged := k.c.staged ++ List.take n k.src } (k.c.staged ++ List.take n k.src) true with
    | error e => exact True.intro
    | ok r =>
      obtain ⟨c', h⟩ := r
      dsimp only
      have hr := (decodeHeader_rank E _ _ _ c' h hres).1
      have hk : rank k.c = if k.c.staged.length < k.c.tmpInTarget then 20 else 31 := by unfold rank; rw [hs]
      show 32 * (List.drop n k.src).length + rank c' < 32 * k.src.length + rank k.c
      rw [hk, List.length_drop]
      rw [List.length_append, List.length_take] at hge
      split <;> omega

theorem sGetFrameHeader_dec (E : Env) (k : Call) : Dec (32 * k.src.length + 25) (sGetFrameHeader E k) := by
  unfold sGetFrameHeader
  have hmax : LZ4V.Gen.maxFHSize = 19 := rfl
  rw [hmax]
  split
  · rename_i h19
    cases hres : decodeHeader E k.c k.src false with
    | error e => exact True.intro
    | ok r =>
      obtain ⟨c', h⟩ := r
      dsimp only
      obtain ⟨hr, h4⟩ := decodeHeader_rank E _ _ _ c' h hres
      show 32 * (List.drop h k.src).length + rank c' < _
      rw [List.length_drop]
      omega
  · split
    · exact True.intro
    · have := sStoreFrameHeader_dec E { k with c := { k.c with staged := [], tmpInTarget := LZ4V.Gen.minFHSize, stage := .storeFrameHeader } } rfl
      exact this.mono (by unfold pot rank; simp [show LZ4V.Gen.minFHSize = 7 from rfl])

/-- **every iteration of the `while` that does not stop decreases the measure** -/
theorem step_dec (E : Env) (k : Call) : Dec (pot k) (step E k) := by
  unfold step
  cases hs : k.c.stage <;> dsimp only
  · exact (sGetFrameHeader_dec E k).mono (by unfold pot rank; rw [hs]; exact Nat.le_refl _)
  · exact sStoreFrameHeader_dec E k hs
  · exact (sInit_dec k).mono (by unfold pot rank; rw [hs]; exact Nat.le_refl _)
  · exact (sGetBlockHeader_dec k).mono (by unfold pot rank; rw [hs]; exact Nat.le_refl _)
  · exact sStoreBlockHeader_dec k hs
  · exact (sCopyDirect_dec k).mono (by unfold pot rank; rw [hs]; exact Nat.le_refl _)
  · exact (sGetBlockChecksum_dec E k).mono (by unfold pot rank; rw [hs]; exact Nat.le_refl _)
  · exact (sGetCBlock_dec E k).mono (by unfold pot rank; rw [hs]; exact Nat.le_refl _)
  · exact (sStoreCBlock_dec E k).mono (by unfold pot rank; rw [hs]; exact Nat.le_refl _)
  · exact (sFlushOut_dec k).mono (by unfold pot rank; rw [hs]; show _ + 2 ≤ _ + 3; omega)
  · exact sGetSuffix_dec E k _
  · exact sStoreSuffix_dec E k _
  · exact (sGetSFrameSize_dec k).mono (by unfold pot rank; rw [hs]; exact Nat.le_refl _)
  · exact (sStoreSFrameSize_dec k).mono (by unfold pot rank; rw [hs]; exact Nat.le_refl _)
  · exact sSkipSkippable_dec k _

theorem loop_not_stuck (E : Env) : ∀ (fuel : Nat) (k : Call), pot k < fuel → (loop E fuel k).2 ≠ .stuck := by
  intro fuel
  induction fuel with
  | zero => intro k h; omega
  | succ fuel ih =>
    intro k h
    unfold loop
    have hd := step_dec E k
    cases hs : step E k with
    | next k' =>
      rw [hs] at hd
      dsimp only
      exact ih k' (by unfold Dec at hd; omega)
    | stop k' hh => dsimp only; intro hc; cases hc
    | fail c e => dsimp only; intro hc; cases hc

/-- **one call of `LZ4F_decompress` terminates**: the model's loop never runs out of fuel, for any context, input, capacity and option -/
theorem decompress_terminates (E : Env) (c : Ctx) (src : Bytes) (cap : Nat) (skipOpt : Bool) : (decompress E c src cap skipOpt).ret ≠ .stuck := by
  unfold decompress
  dsimp only
  have h := loop_not_stuck E (fuelFor src) { c := { c with skipChecksum := c.skipChecksum || skipOpt }, src := src, room := cap, out := [] }
    (by unfold pot fuelFor; have := rank_le { c with skipChecksum := c.skipChecksum || skipOpt }; dsimp only; omega)
  revert h
  generalize loop E (fuelFor src) _ = res
  intro h
  obtain ⟨k', ret⟩ := res
  cases ret with
  | hint hh => dsimp only; intro hc; cases hc
  | error e => dsimp only; intro hc; cases hc
  | stuck => exact absurd rfl h

end LZ4V.Model.FrameDS
