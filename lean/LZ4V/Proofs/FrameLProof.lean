import LZ4V.Spec.FrameL
/-!
# Locality, fuel monotonicity and concatenation for the list parsers of `Spec/FrameL.lean`

* `Local p`  : a successful parse of `a` is unchanged by appending anything to `a` (the rest grows by what was appended);
* `Le p q`   : whatever `p` accepts, `q` accepts with the same result (more fuel never changes an answer);
* LZ4 frames and skippable frames are `Local`; a legacy frame, which has no end mark, is local provided what follows is
  nothing or starts with a known magic number (`LocalG`);
* streams: if `a` decodes to `ca` and `b` decodes to `cb` then `a ++ b` decodes to `ca ++ cb`.
-/
namespace LZ4V.Spec.FrameL
open LZ4V.Spec.Frame (Bad Header blockSizeOf isSkippableMagic legacyMagic isKnownMagic)

@[irreducible] def Local (p : Parser α) : Prop := ∀ a b x r, p a = .ok (x, r) → p (a ++ b) = .ok (x, r ++ b)

/-- locality under a condition `G` on what follows when the parse stopped at the very end of its input -/
@[irreducible] def LocalG (G : Bytes → Prop) (p : Parser α) : Prop := ∀ a b x r, p a = .ok (x, r) → (r = [] → G b) → p (a ++ b) = .ok (x, r ++ b)

@[irreducible] def Le (p q : Parser α) : Prop := ∀ s res, p s = .ok res → q s = .ok res

theorem Local.elim {p : Parser α} (h : Local p) : ∀ a b x r, p a = .ok (x, r) → p (a ++ b) = .ok (x, r ++ b) := by unfold Local at h; exact h
theorem Local.mk {p : Parser α} (h : ∀ a b x r, p a = .ok (x, r) → p (a ++ b) = .ok (x, r ++ b)) : Local p := by unfold Local; exact h
theorem LocalG.elim {G : Bytes → Prop} {p : Parser α} (h : LocalG G p) : ∀ a b x r, p a = .ok (x, r) → (r = [] → G b) → p (a ++ b) = .ok (x, r ++ b) := by unfold LocalG at h; exact h
theorem LocalG.mk {G : Bytes → Prop} {p : Parser α} (h : ∀ a b x r, p a = .ok (x, r) → (r = [] → G b) → p (a ++ b) = .ok (x, r ++ b)) : LocalG G p := by unfold LocalG; exact h
theorem Le.elim {p q : Parser α} (h : Le p q) : ∀ s res, p s = .ok res → q s = .ok res := by unfold Le at h; exact h
theorem Le.mk {p q : Parser α} (h : ∀ s res, p s = .ok res → q s = .ok res) : Le p q := by unfold Le; exact h

theorem Local.toG {G : Bytes → Prop} {p : Parser α} (h : Local p) : LocalG G p := LocalG.mk fun a b x r hp _ => h.elim a b x r hp

theorem Local.pure (x : α) : Local (Parser.pure x) := by
  apply Local.mk
  intro a b y r h
  simp only [Parser.pure, Except.ok.injEq, Prod.mk.injEq] at h ⊢
  exact ⟨h.1, by rw [h.2]⟩

theorem Local.fail (e : Bad) : Local (Parser.fail e : Parser α) := by
  apply Local.mk
  intro a b y r h
  simp [Parser.fail] at h

theorem Local.takeN (n : Nat) : Local (takeN n) := by
  apply Local.mk
  intro a b x r h
  unfold FrameL.takeN at h ⊢
  by_cases hl : a.length < n
  · rw [if_pos hl] at h; cases h
  · rw [if_neg hl] at h
    simp only [Except.ok.injEq, Prod.mk.injEq] at h
    have hl2 : ¬ (a ++ b).length < n := by rw [List.length_append]; omega
    rw [if_neg hl2, List.take_append_of_le_length (by omega), List.drop_append_of_le_length (by omega), h.1, h.2]

theorem Local.peekN (n : Nat) : Local (peekN n) := by
  apply Local.mk
  intro a b x r h
  unfold FrameL.peekN at h ⊢
  by_cases hl : a.length < n
  · rw [if_pos hl] at h; cases h
  · rw [if_neg hl] at h
    simp only [Except.ok.injEq, Prod.mk.injEq] at h
    have hl2 : ¬ (a ++ b).length < n := by rw [List.length_append]; omega
    rw [if_neg hl2, List.take_append_of_le_length (by omega), h.1, h.2]

theorem LocalG.bind {G : Bytes → Prop} {p : Parser α} {f : α → Parser β} (hp : Local p) (hf : ∀ x, LocalG G (f x)) : LocalG G (p.bind f) := by
  apply LocalG.mk
  intro a b y r h hg
  unfold Parser.bind at h ⊢
  cases hpa : p a with
  | error e => rw [hpa] at h; cases h
  | ok v =>
    obtain ⟨x, r1⟩ := v
    rw [hpa] at h
    rw [hp.elim a b x r1 hpa]
    exact (hf x).elim r1 b y r h hg

theorem Local.bind {p : Parser α} {f : α → Parser β} (hp : Local p) (hf : ∀ x, Local (f x)) : Local (p.bind f) := by
  apply Local.mk
  intro a b y r h
  exact (LocalG.bind (G := fun _ => True) hp (fun x => (hf x).toG)).elim a b y r h (fun _ => trivial)

theorem Le.refl (p : Parser α) : Le p p := Le.mk fun _ _ h => h
theorem Le.fail (e : Bad) (q : Parser α) : Le (Parser.fail e) q := by
  apply Le.mk
  intro s res h; simp [Parser.fail] at h
theorem Le.bind {p : Parser α} {f g : α → Parser β} (h : ∀ x, Le (f x) (g x)) : Le (p.bind f) (p.bind g) := by
  apply Le.mk
  intro s res hs
  unfold Parser.bind at hs ⊢
  cases hps : p s with
  | error e => rw [hps] at hs; cases hs
  | ok v =>
    obtain ⟨x, r⟩ := v
    rw [hps] at hs
    exact (h x).elim r res hs
theorem Le.bind2 {p q : Parser α} {f g : α → Parser β} (hpq : Le p q) (h : ∀ x, Le (f x) (g x)) : Le (p.bind f) (q.bind g) := by
  apply Le.mk
  intro s res hs
  unfold Parser.bind at hs ⊢
  cases hps : p s with
  | error e => rw [hps] at hs; cases hs
  | ok v =>
    obtain ⟨x, r⟩ := v
    rw [hps] at hs
    rw [hpq.elim s (x, r) hps]
    exact (h x).elim r res hs

/-- one step of a compositional locality proof -/
macro "local_step" : tactic => `(tactic| first
  | exact Local.fail _ | exact Local.pure _ | exact Local.takeN _ | exact Local.peekN _
  | apply Local.bind | split | intro _ | dsimp only)

macro "le_step" : tactic => `(tactic| first
  | exact Le.refl _ | exact Le.fail _ _ | apply Le.bind | split | intro _ | dsimp only)

theorem pHeader_local (E : Env) : Local (pHeader E) := by
  unfold pHeader
  repeat' local_step

theorem pBlocks_local (E : Env) (hdr : Header) (dict : Bytes) : ∀ (fuel : Nat) (content : Bytes), Local (pBlocks E hdr dict fuel content) := by
  intro fuel
  induction fuel with
  | zero => intro content; unfold pBlocks; exact Local.fail _
  | succ f ih =>
    intro content
    unfold pBlocks
    repeat' local_step
    all_goals exact ih _

theorem pBlocks_mono1 (E : Env) (hdr : Header) (dict : Bytes) : ∀ (fuel : Nat) (content : Bytes),
    Le (pBlocks E hdr dict fuel content) (pBlocks E hdr dict (fuel + 1) content) := by
  intro fuel
  induction fuel with
  | zero => intro content; conv => lhs; unfold pBlocks
            exact Le.fail _ _
  | succ f ih =>
    intro content
    conv => lhs; unfold pBlocks
    conv => rhs; unfold pBlocks
    repeat' le_step
    all_goals exact ih _

theorem Le.trans {p q r : Parser α} (h1 : Le p q) (h2 : Le q r) : Le p r := Le.mk fun s res h => h2.elim s res (h1.elim s res h)

theorem pBlocks_mono (E : Env) (hdr : Header) (dict : Bytes) (content : Bytes) (f : Nat) : ∀ (d : Nat),
    Le (pBlocks E hdr dict f content) (pBlocks E hdr dict (f + d) content) := by
  intro d
  induction d with
  | zero => exact Le.refl _
  | succ k ih => exact Le.trans ih (pBlocks_mono1 E hdr dict (f + k) content)

theorem pFrameBody_local (E : Env) (dict : Bytes) (fuel : Nat) : Local (pFrameBody E dict fuel) := by
  unfold pFrameBody
  apply Local.bind (pHeader_local E)
  intro hdr
  apply Local.bind (pBlocks_local E hdr dict fuel [])
  repeat' local_step

theorem pFrameBody_mono (E : Env) (dict : Bytes) (f d : Nat) : Le (pFrameBody E dict f) (pFrameBody E dict (f + d)) := by
  unfold pFrameBody
  apply Le.bind
  intro hdr
  apply Le.bind2 (pBlocks_mono E hdr dict [] f d)
  intro c
  exact Le.refl _

theorem pFrame_local (E : Env) (dict : Bytes) (fuel : Nat) : Local (pFrame E dict fuel) := by
  unfold pFrame
  apply Local.bind (Local.takeN 4)
  intro m4
  split
  · exact Local.fail _
  · exact pFrameBody_local E dict fuel

theorem pFrame_mono (E : Env) (dict : Bytes) (f d : Nat) : Le (pFrame E dict f) (pFrame E dict (f + d)) := by
  unfold pFrame
  apply Le.bind
  intro m4
  split
  · exact Le.refl _
  · exact pFrameBody_mono E dict f d

theorem pSkippable_local : Local pSkippable := by
  unfold pSkippable
  repeat' local_step

/-! ## legacy frames -/

/-- what may follow a legacy frame: nothing, or something that starts with a known magic number -/
def G (b : Bytes) : Prop := b = [] ∨ (4 ≤ b.length ∧ le (b.take 4) > legacyBound ∧ isKnownMagic (le (b.take 4)) = true)

theorem LocalG.ite {G : Bytes → Prop} {c : Prop} [Decidable c] {p q : Parser α} (hp : LocalG G p) (hq : LocalG G q) : LocalG G (if c then p else q) := by
  split <;> assumption

theorem pLegacy_local (E : Env) : ∀ (fuel : Nat) (content : Bytes), LocalG G (pLegacy E fuel content) := by
  intro fuel
  induction fuel with
  | zero => intro content; unfold pLegacy; exact (Local.fail _).toG
  | succ f ih =>
    intro content
    apply LocalG.mk
    intro a b x r h hg
    unfold pLegacy at h ⊢
    by_cases ha : a = []
    · subst ha
      rw [if_pos rfl] at h
      simp only [Except.ok.injEq, Prod.mk.injEq] at h
      obtain ⟨hx, hr⟩ := h
      subst hx; subst hr
      rw [List.nil_append]
      by_cases hb : b = []
      · rw [if_pos hb, hb]
      · rw [if_neg hb]
        rcases hg rfl with h0 | ⟨h4, hgt, hk⟩
        · exact absurd h0 hb
        · unfold Parser.bind FrameL.peekN
          rw [if_neg (by omega)]
          simp only [hgt, hk, ↓reduceIte]
          rfl
    · rw [if_neg ha] at h
      have hab : a ++ b ≠ [] := by
        intro h0
        exact ha (List.append_eq_nil_iff.mp h0).1
      rw [if_neg hab]
      have hq : LocalG G ((peekN 4).bind fun w4 =>
          if le w4 > legacyBound then (if isKnownMagic (le w4) then Parser.pure content else Parser.fail .legacyBlock)
          else
            (takeN 4).bind fun _ =>
            (takeN (le w4)).bind fun payload =>
            match E.dec [] payload 8388608 with
            | some d => pLegacy E f (content ++ d)
            | none => Parser.fail .legacyBlock) := by
        apply LocalG.bind (Local.peekN 4)
        intro w4
        apply LocalG.ite
        · apply LocalG.ite
          · exact (Local.pure _).toG
          · exact (Local.fail _).toG
        · apply LocalG.bind (Local.takeN 4)
          intro _
          apply LocalG.bind (Local.takeN _)
          intro payload
          split
          · exact ih _
          · exact (Local.fail _).toG
      exact hq.elim a b x r h hg

theorem pLegacy_mono1 (E : Env) : ∀ (fuel : Nat) (content : Bytes), Le (pLegacy E fuel content) (pLegacy E (fuel + 1) content) := by
  intro fuel
  induction fuel with
  | zero => intro content; conv => lhs; unfold pLegacy
            exact Le.fail _ _
  | succ f ih =>
    intro content
    apply Le.mk
    intro s res h
    conv at h => unfold pLegacy
    conv => unfold pLegacy
    by_cases hs : s = []
    · rw [if_pos hs] at h ⊢; exact h
    · rw [if_neg hs] at h ⊢
      revert h
      have : Le ((peekN 4).bind fun w4 =>
          if le w4 > legacyBound then (if isKnownMagic (le w4) then Parser.pure content else Parser.fail .legacyBlock)
          else
            (takeN 4).bind fun _ =>
            (takeN (le w4)).bind fun payload =>
            match E.dec [] payload 8388608 with
            | some d => pLegacy E f (content ++ d)
            | none => Parser.fail .legacyBlock)
          ((peekN 4).bind fun w4 =>
          if le w4 > legacyBound then (if isKnownMagic (le w4) then Parser.pure content else Parser.fail .legacyBlock)
          else
            (takeN 4).bind fun _ =>
            (takeN (le w4)).bind fun payload =>
            match E.dec [] payload 8388608 with
            | some d => pLegacy E (f + 1) (content ++ d)
            | none => Parser.fail .legacyBlock) := by
        repeat' le_step
        all_goals exact ih _
      exact this.elim s res

theorem pLegacy_mono (E : Env) (content : Bytes) (f : Nat) : ∀ (d : Nat), Le (pLegacy E f content) (pLegacy E (f + d) content) := by
  intro d
  induction d with
  | zero => exact Le.refl _
  | succ k ih => exact Le.trans ih (pLegacy_mono1 E (f + k) content)

end LZ4V.Spec.FrameL
