import LZ4V.Model.FastX
import LZ4V.Proofs.FastSProof
/-!
# A whole life of one `LZ4_stream_t`, sources placed anywhere: every block decodes against the history of the stream

`JX S` : every table entry is an index `≤ currentOffset`, and the dictionary is no longer than `currentOffset`.  Every operation keeps it
(`LZ4_renormDictT`, tiny-dictionary invalidation, overlap trimming, both compression modes, `LZ4_saveDict`, `LZ4_loadDict(Slow)`,
`LZ4_resetStream_fast`).  `Tail S H` : the dictionary is a tail of the declared history `H` (what was loaded / compressed since the last reset).
One compression runs `FastR.runR` on `dictionary ++ data` (with `Cfg.split` in external-dictionary mode): by `FastR.runR_spec` the block is a
byte-verified parse against the dictionary (`FastS.Parsed`), hence against every tail of `H` that contains it or is at least 65535 bytes long.
-/
namespace LZ4V.Model.FastX
open LZ4V.Model.Fast LZ4V.Model.FastR
open LZ4V.Spec.Block
open LZ4V.Model.FastS (Parsed)

structure JX (S : XState) : Prop where
  tbl : ∀ i, S.tbl.getD i 0 ≤ S.currentOffset
  ds  : S.dict.size ≤ S.currentOffset

/-- `b` is a tail of `a` -/
def IsTail (b a : List UInt8) : Prop := ∃ p, a = p ++ b

theorem IsTail.refl (a : List UInt8) : IsTail a a := ⟨[], rfl⟩
theorem IsTail.nil (a : List UInt8) : IsTail [] a := ⟨a, by simp⟩
theorem IsTail.trans {a b c : List UInt8} (h1 : IsTail c b) (h2 : IsTail b a) : IsTail c a := by
  obtain ⟨p, hp⟩ := h1; obtain ⟨q, hq⟩ := h2
  exact ⟨q ++ p, by rw [hq, hp, List.append_assoc]⟩
theorem IsTail.append {a b : List UInt8} (h : IsTail b a) (t : List UInt8) : IsTail (b ++ t) (a ++ t) := by
  obtain ⟨p, hp⟩ := h; exact ⟨p, by rw [hp, List.append_assoc]⟩
theorem IsTail.right (a t : List UInt8) : IsTail t (a ++ t) := ⟨a, rfl⟩

theorem lastN_tail (a : Array UInt8) (k : Nat) : IsTail (lastN a k).toList a.toList :=
  ⟨a.toList.take (a.size - k), by unfold lastN; rw [LZ4V.Model.FastS.extract_tail_toList]; exact (List.take_append_drop _ _).symm⟩

theorem lastN_size (a : Array UInt8) (k : Nat) : (lastN a k).size ≤ a.size := by
  unfold lastN; rw [Array.size_extract]; omega

theorem lastN_size_le (a : Array UInt8) (k : Nat) : (lastN a k).size ≤ k := by
  unfold lastN; rw [Array.size_extract]; omega

theorem init_tbl : ({} : XState).tbl = Array.replicate LZ4V.Gen.LZ4_HASH_SIZE_U32 0 := rfl
theorem init_tbl_le (i : Nat) : ({} : XState).tbl.getD i 0 ≤ ({} : XState).currentOffset := by
  rw [init_tbl, replicate_getD]; exact Nat.zero_le _
theorem JX_init : JX {} := JX.mk init_tbl_le (Nat.zero_le _)

/-! ## the adjustments before a compression -/

theorem renorm_spec (S : XState) (n : Nat) (hJ : JX S) : JX (renorm S n) ∧ IsTail (renorm S n).dict.toList S.dict.toList := by
  unfold renorm
  have k64 : LZ4V.Gen.KB64 = 65536 := rfl
  by_cases h : S.currentOffset + n > 0x80000000
  · rw [if_pos h]
    refine ⟨⟨?_, ?_⟩, lastN_tail _ _⟩
    · intro i
      dsimp only
      rw [LZ4V.Model.FastS.map_getD _ _ _ (by split <;> omega)]
      have := hJ.tbl i
      split <;> omega
    · dsimp only
      have h1 := lastN_size_le S.dict (if S.dict.size > LZ4V.Gen.KB64 then LZ4V.Gen.KB64 else S.dict.size)
      have h2 : (if S.dict.size > LZ4V.Gen.KB64 then LZ4V.Gen.KB64 else S.dict.size) ≤ LZ4V.Gen.KB64 := by split <;> omega
      exact Nat.le_trans h1 h2
  · rw [if_neg h]; exact ⟨hJ, IsTail.refl _⟩

theorem adjust_spec (S : XState) (addr n : Nat) (hJ : JX S) : JX (adjust S addr n).1 ∧ IsTail (adjust S addr n).1.dict.toList S.dict.toList := by
  obtain ⟨r1, r2⟩ := renorm_spec S n hJ
  unfold adjust
  dsimp only
  generalize renorm S n = S1 at r1 r2
  generalize (decide (S1.dict.size < 4) && decide ((if S.dict.size ≠ 0 then some (S.dictAddr + S.dict.size) else none) ≠ some addr) && decide (n > 0) && S1.dctx.isNone) = tiny
  have h2 : JX (if tiny = true then { S1 with dict := #[], dictAddr := addr } else S1) ∧
      IsTail (if tiny = true then { S1 with dict := #[], dictAddr := addr } else S1).dict.toList S.dict.toList := by
    cases tiny with
    | true => exact ⟨⟨r1.tbl, Nat.zero_le _⟩, IsTail.nil _⟩
    | false => exact ⟨r1, r2⟩
  generalize (if tiny = true then { S1 with dict := #[], dictAddr := addr } else S1) = S2 at h2
  obtain ⟨j2, t2⟩ := h2
  generalize (if tiny = true then some addr else if S.dict.size ≠ 0 then some (S.dictAddr + S.dict.size) else none) = dictEnd
  cases dictEnd with
  | none => exact ⟨j2, t2⟩
  | some e =>
    dsimp only
    split
    · refine ⟨⟨j2.tbl, ?_⟩, (lastN_tail _ _).trans t2⟩
      dsimp only
      have := lastN_size S2.dict (if (if e - (addr + n) > LZ4V.Gen.KB64 then LZ4V.Gen.KB64 else e - (addr + n)) < 4 then 0 else if e - (addr + n) > LZ4V.Gen.KB64 then LZ4V.Gen.KB64 else e - (addr + n))
      have := j2.ds
      omega
    · exact ⟨j2, t2⟩

theorem renorm_dctx (S : XState) (n : Nat) : (renorm S n).dctx = S.dctx := by
  unfold renorm; split <;> rfl

theorem renorm_dict_size (S : XState) (n : Nat) : (renorm S n).dict.size ≤ S.dict.size := by
  unfold renorm; split
  · exact lastN_size _ _
  · exact Nat.le_refl _

theorem adjust_dctx (S : XState) (addr n : Nat) : (adjust S addr n).1.dctx = S.dctx := by
  unfold adjust
  dsimp only
  have h1 := renorm_dctx S n
  generalize renorm S n = S1 at h1
  generalize (decide (S1.dict.size < 4) && decide ((if S.dict.size ≠ 0 then some (S.dictAddr + S.dict.size) else none) ≠ some addr) && decide (n > 0) && S1.dctx.isNone) = tiny
  have h2 : (if tiny = true then { S1 with dict := #[], dictAddr := addr } else S1).dctx = S.dctx := by
    cases tiny with
    | true => exact h1
    | false => exact h1
  generalize (if tiny = true then { S1 with dict := #[], dictAddr := addr } else S1) = S2 at h2
  generalize (if tiny = true then some addr else if S.dict.size ≠ 0 then some (S.dictAddr + S.dict.size) else none) = dictEnd
  cases dictEnd with
  | none => exact h2
  | some e => dsimp only; split <;> exact h2

/-- with a dictionary stream attached and no dictionary of its own, the stream never takes the prefix mode and stays without a dictionary of its own -/
theorem adjust_attached (S : XState) (addr n : Nat) (D : DCtx) (hD : S.dctx = some D) (h0 : S.dict.size = 0) :
    (adjust S addr n).2 = false ∧ (adjust S addr n).1.dict.size = 0 := by
  unfold adjust
  dsimp only
  have h1 := renorm_dctx S n
  have h1s := renorm_dict_size S n
  generalize renorm S n = S1 at h1 h1s
  have hnone : S1.dctx.isNone = false := by rw [h1, hD]; rfl
  have hde : (if S.dict.size ≠ 0 then some (S.dictAddr + S.dict.size) else none : Option Nat) = none := by rw [if_neg (by omega)]
  rw [hde, hnone]
  simp only [Bool.and_false, Bool.false_eq_true, ↓reduceIte]
  exact ⟨by simp, by omega⟩

/-! ## one compression in either mode -/

theorem clampAccel_pos (a : Int) : 1 ≤ clampAccel a := by
  unfold clampAccel
  have c1 : LZ4V.Gen.LZ4_ACCELERATION_DEFAULT = 1 := rfl
  have c2 : LZ4V.Gen.LZ4_ACCELERATION_MAX = 65537 := rfl
  split
  · omega
  · split
    · omega
    · omega

theorem core_spec (hashOf : Array UInt8 → Bool → Nat → Nat) (S : XState) (contig : Bool) (addr : Nat) (data : Array UInt8) (acceleration : Int) (cap : Nat)
    (hJ : JX S) :
    JX (core hashOf S contig addr data acceleration cap).1 ∧
    (∀ blk, (core hashOf S contig addr data acceleration cap).2 = some blk →
      IsTail (core hashOf S contig addr data acceleration cap).1.dict.toList (S.dict.toList ++ data.toList) ∧ Parsed S.dict.toList blk data.toList) := by
  have c13 : LZ4V.Gen.LZ4_minLength = 13 := rfl
  unfold core
  dsimp only
  by_cases h0 : data.size = 0
  · rw [if_pos h0]
    have hd : data = #[] := Array.eq_empty_of_size_eq_zero h0
    refine ⟨?_, ?_⟩
    · cases contig with
      | true => exact hJ
      | false => exact ⟨hJ.tbl, Nat.zero_le _⟩
    · intro blk h
      refine ⟨?_, ?_⟩
      · rw [hd]
        cases contig with
        | true => simpa using IsTail.refl _
        | false => exact IsTail.nil _
      · dsimp only at h
        split at h
        · cases h
        · simp only [Option.some.injEq] at h
          subst h
          rw [hd]
          have e : serialize [] ([] : List UInt8) = [0] := by decide
          rw [← e]
          exact Parsed.lit _ _
  rw [if_neg h0]
  -- the dictionary after the call
  have hdT : IsTail (if contig = true then S.dict ++ data else data).toList (S.dict.toList ++ data.toList) := by
    cases contig with
    | true => rw [if_pos rfl, Array.toList_append]; exact IsTail.refl _
    | false => exact IsTail.right _ _
  have hdS : (if contig = true then S.dict ++ data else data).size ≤ S.dict.size + data.size := by
    cases contig with
    | true => rw [if_pos rfl, Array.size_append]; exact Nat.le_refl _
    | false => rw [if_neg Bool.false_ne_true]; omega
  generalize (if contig = true then S.dict ++ data else data) = dict' at hdT hdS
  generalize (if contig = true then S.dictAddr else addr) = addr'
  by_cases hmax : data.size > LZ4V.Gen.LZ4_MAX_INPUT_SIZE
  · rw [if_pos hmax]
    exact ⟨hJ, fun blk h => by cases h⟩
  rw [if_neg hmax]
  have hJ2 : ∀ tbl : Array Nat, TI tbl (S.currentOffset + data.size + 1) →
      JX { S with currentOffset := S.currentOffset + data.size, used := true, dict := dict', dictAddr := addr', tbl := tbl } := by
    intro tbl h
    exact ⟨fun i => by have := h i; dsimp only; omega, by dsimp only; have := hJ.ds; omega⟩
  by_cases hmin : data.size < LZ4V.Gen.LZ4_minLength
  · rw [if_pos hmin]
    refine ⟨hJ2 S.tbl (fun i => by have := hJ.tbl i; omega), ?_⟩
    intro blk h
    refine ⟨hdT, ?_⟩
    dsimp only at h
    split at h
    · cases h
    · simp only [Option.some.injEq] at h
      subst h
      exact Parsed.lit _ _
  rw [if_neg hmin]
  rw [c13] at hmin
  -- the segment and the configuration of this call
  generalize hsplit : (if contig = true then 0 else S.dict.size) = split
  generalize hP : ({ hash := hashOf (S.dict ++ data) false, byU16 := false, accel := clampAccel acceleration, limit := some cap } : Params) = P
  have hPb : P.byU16 = false := by rw [← hP]
  have hPa : 1 ≤ P.accel := by rw [← hP]; exact clampAccel_pos acceleration
  have hPh : hashOf (S.dict ++ data) false = P.hash := by rw [← hP]
  rw [hPh]
  have hsz : (S.dict ++ data).size = S.dict.size + data.size := Array.size_append
  have ok : CfgOK { P := P, s := S.currentOffset - S.dict.size, small := decide (S.currentOffset - S.dict.size ≠ 0), split := split } (S.dict ++ data) := by
    refine ⟨?_, ?_, ?_, hPa⟩
    · intro h; dsimp only at h; rw [hPb] at h; cases h
    · intro h; dsimp only at h; rw [hPb] at h; cases h
    · intro h; dsimp only at h ⊢; simpa using h
  have hst0 : store false S.currentOffset = S.currentOffset := rfl
  rw [hst0]
  have hinv : InvR { P := P, s := S.currentOffset - S.dict.size, small := decide (S.currentOffset - S.dict.size ≠ 0), split := split } (S.dict ++ data)
      { anchor := S.dict.size, ip := S.dict.size + 1, tbl := S.tbl.setIfInBounds (P.hash S.dict.size) S.currentOffset, op := 0 } := by
    refine ⟨by dsimp only; omega, by dsimp only; omega, ?_⟩
    dsimp only
    have hds := hJ.ds
    exact (show TI S.tbl (S.currentOffset - S.dict.size + (S.dict.size + 1)) from fun i => by have := hJ.tbl i; omega).set _ _ (by omega)
  obtain ⟨rt, rl⟩ := runR_spec _ (S.dict ++ data) ok (by omega) ((S.dict ++ data).size + 1) _ [] hinv (by dsimp only; omega) (by dsimp only; omega)
  dsimp only at rt rl
  generalize hrun : runR { P := P, s := S.currentOffset - S.dict.size, small := decide (S.currentOffset - S.dict.size ≠ 0), split := split } (S.dict ++ data) ((S.dict ++ data).size + 1)
      { anchor := S.dict.size, ip := S.dict.size + 1, tbl := S.tbl.setIfInBounds (P.hash S.dict.size) S.currentOffset, op := 0 } [] = r at rt rl
  obtain ⟨ro, rtbl⟩ := r
  dsimp only at rt rl
  have rt' : TI rtbl (S.currentOffset + data.size + 1) := rt.mono (by rw [hsz]; have := hJ.ds; omega)
  cases ro with
  | none =>
    exact ⟨hJ2 rtbl rt', fun blk h => by cases h⟩
  | some v =>
    obtain ⟨l, stf⟩ := v
    refine ⟨hJ2 rtbl rt', ?_⟩
    intro blk h
    refine ⟨hdT, ?_⟩
    dsimp only at h
    by_cases hov : over P (stf.op + ((S.dict ++ data).size - stf.anchor) + 1 + ((S.dict ++ data).size - stf.anchor + 255 - 15) / 255) = true
    · have h' : (none : Option (List UInt8)) = some blk := by
        have := h
        simp only [hov, ↓reduceIte] at this
        exact this
      cases h'
    · have h' : some (serialize (List.map (toSeq (S.dict ++ data)) l) ((S.dict ++ data).extract stf.anchor (S.dict ++ data).size).toList) = some blk := by
        have := h
        simp only [hov, Bool.false_eq_true, ↓reduceIte] at this
        exact this
      simp only [Option.some.injEq] at h'
      subst h'
      obtain ⟨l', q1, q2, q3, q4, q5⟩ := rl l stf rfl
      simp only [List.reverse_nil, List.nil_append] at q1
      subst q1
      have hlast : ((S.dict ++ data).extract stf.anchor (S.dict ++ data).size).toList = (S.dict ++ data).toList.drop stf.anchor := by
        simp only [Array.toList_extract, List.extract]
        rw [List.take_of_length_le]
        rw [List.length_drop, Array.length_toList]
        omega
      have hv := PV_valid (S.dict ++ data) l S.dict.size stf.anchor q2 (by omega) q3
      have htake : (S.dict ++ data).toList.take S.dict.size = S.dict.toList := by
        rw [Array.toList_append, List.take_append_of_le_length (by rw [Array.length_toList]; omega), List.take_of_length_le (by rw [Array.length_toList]; omega)]
      rw [htake] at hv
      rw [hlast]
      refine ⟨_, _, rfl, (fun s hs => ?_), (by rw [← Array.toList_append]; exact hv), (fun s hs => ?_), ?_, ?_⟩
      · obtain ⟨x, hx, rfl⟩ := List.mem_map.mp hs
        obtain ⟨a1, _, a3, _⟩ := q4 x hx
        exact ⟨a1, by show x.off < 65536; omega⟩
      · obtain ⟨x, hx, rfl⟩ := List.mem_map.mp hs
        exact (q4 x hx).2.1
      · exact LZ4V.Model.FastS.endConditions_of_PV (S.dict ++ data) l S.dict.size stf.anchor q2 q3 q4 q5
      · have := PV_covered (S.dict ++ data) l S.dict.size stf.anchor q2 q3
        rw [Array.length_toList]
        omega

/-- what a compression leaves alone: the attached dictionary stream; the index only grows; without the prefix mode an empty block leaves no dictionary -/
theorem core_frame (hashOf : Array UInt8 → Bool → Nat → Nat) (S : XState) (contig : Bool) (addr : Nat) (data : Array UInt8) (acceleration : Int) (cap : Nat) :
    (core hashOf S contig addr data acceleration cap).1.dctx = S.dctx ∧ S.currentOffset ≤ (core hashOf S contig addr data acceleration cap).1.currentOffset ∧
    (contig = false → data.size = 0 → (core hashOf S contig addr data acceleration cap).1.dict.size = 0) := by
  unfold core
  dsimp only
  by_cases h0 : data.size = 0
  · rw [if_pos h0]
    cases contig with
    | true => exact ⟨rfl, Nat.le_refl _, fun h => by cases h⟩
    | false => exact ⟨rfl, Nat.le_refl _, fun _ _ => rfl⟩
  rw [if_neg h0]
  by_cases hmax : data.size > LZ4V.Gen.LZ4_MAX_INPUT_SIZE
  · rw [if_pos hmax]; exact ⟨rfl, Nat.le_refl _, fun _ h => absurd h h0⟩
  rw [if_neg hmax]
  by_cases hmin : data.size < LZ4V.Gen.LZ4_minLength
  · rw [if_pos hmin]; exact ⟨rfl, Nat.le_add_right _ _, fun _ h => absurd h h0⟩
  rw [if_neg hmin]
  generalize runR _ _ _ _ _ = r
  obtain ⟨ro, rtbl⟩ := r
  cases ro with
  | none => exact ⟨rfl, Nat.le_add_right _ _, fun _ h => absurd h h0⟩
  | some v => obtain ⟨l, st⟩ := v; exact ⟨rfl, Nat.le_add_right _ _, fun _ h => absurd h h0⟩

/-! ## an attached dictionary stream -/

structure DOK (D : DCtx) : Prop where
  tbl : ∀ i, D.tbl.getD i 0 ≤ D.currentOffset
  ds  : D.dict.size ≤ D.currentOffset

theorem range_map_getD (n : Nat) (f : Nat → Nat) (i : Nat) : ((Array.range n).map f).getD i 0 = if i < n then f i else 0 := by
  rw [Array.getD_eq_getD_getElem?, Array.getElem?_map, Array.getElem?_range]
  split <;> simp

theorem mergedTbl_le (own dt : Array Nat) (startIndex delta B : Nat) (h1 : ∀ i, own.getD i 0 ≤ B) (h2 : ∀ i, dt.getD i 0 + delta ≤ B) :
    ∀ i, (mergedTbl own dt startIndex delta).getD i 0 ≤ B := by
  intro i
  unfold mergedTbl
  rw [range_map_getD]
  by_cases hi : i < own.size
  · rw [if_pos hi]
    by_cases hc : own.getD i 0 < startIndex
    · rw [if_pos hc]; exact h2 i
    · rw [if_neg hc]; exact h1 i
  · rw [if_neg hi]; exact Nat.zero_le _

theorem restoreTbl_le (own0 final : Array Nat) (startIndex B : Nat) (h1 : ∀ i, own0.getD i 0 ≤ B) (h2 : ∀ i, final.getD i 0 ≤ B) :
    ∀ i, (restoreTbl own0 final startIndex).getD i 0 ≤ B := by
  intro i
  unfold restoreTbl
  rw [range_map_getD]
  by_cases hi : i < own0.size
  · rw [if_pos hi]
    by_cases hc : final.getD i 0 < startIndex
    · rw [if_pos hc]; exact h1 i
    · rw [if_neg hc]; exact h2 i
  · rw [if_neg hi]; exact Nat.zero_le _

/-- where the history used by a compression comes from: the stream's own dictionary, or the dictionary of the attached stream -/
def Src (S : XState) (d : List UInt8) : Prop := IsTail d S.dict.toList ∨ ∃ D, S.dctx = some D ∧ IsTail d D.dict.toList

theorem compress_spec (hashOf : Array UInt8 → Bool → Nat → Nat) (S : XState) (addr : Nat) (data : Array UInt8) (acceleration : Int) (cap : Nat) (hJ : JX S)
    (hD : ∀ D, S.dctx = some D → DOK D ∧ S.dict.size = 0) :
    JX (compress hashOf S addr data acceleration cap).1 ∧
    (∀ D', (compress hashOf S addr data acceleration cap).1.dctx = some D' → S.dctx = some D' ∧ data.size = 0 ∧ (compress hashOf S addr data acceleration cap).1.dict.size = 0) ∧
    (∀ blk, (compress hashOf S addr data acceleration cap).2 = some blk →
      ∃ d, Src S d ∧ Parsed d blk data.toList ∧ IsTail (compress hashOf S addr data acceleration cap).1.dict.toList (d ++ data.toList)) := by
  obtain ⟨a1, a2⟩ := adjust_spec S addr data.size hJ
  have ad := adjust_dctx S addr data.size
  unfold compress
  dsimp only
  cases hdc : S.dctx with
  | none =>
    -- nothing attached
    rw [ad, hdc]
    have hm : (if (adjust S addr data.size).2 = true then (none : Option DCtx) else none) = none := by split <;> rfl
    rw [hm]
    dsimp only
    obtain ⟨c1, c2⟩ := core_spec hashOf (adjust S addr data.size).1 (adjust S addr data.size).2 addr data acceleration cap a1
    obtain ⟨f1, _, _⟩ := core_frame hashOf (adjust S addr data.size).1 (adjust S addr data.size).2 addr data acceleration cap
    refine ⟨c1, ?_, ?_⟩
    · intro D' h; rw [f1, ad, hdc] at h; cases h
    · intro blk h
      obtain ⟨t, p⟩ := c2 blk h
      exact ⟨_, Or.inl a2, p, t⟩
  | some D =>
    obtain ⟨dok, hs0⟩ := hD D hdc
    obtain ⟨g1, g2⟩ := adjust_attached S addr data.size D hdc hs0
    rw [ad, hdc, g1]
    simp only [Bool.false_eq_true, ↓reduceIte]
    by_cases h0 : data.size = 0
    · rw [if_pos h0]
      obtain ⟨c1, c2⟩ := core_spec hashOf (adjust S addr data.size).1 false addr data acceleration cap a1
      obtain ⟨f1, _, f3⟩ := core_frame hashOf (adjust S addr data.size).1 false addr data acceleration cap
      refine ⟨c1, ?_, ?_⟩
      · intro D' h; rw [f1, ad, hdc] at h; exact ⟨h, h0, f3 rfl h0⟩
      · intro blk h
        obtain ⟨t, p⟩ := c2 blk h
        exact ⟨_, Or.inl a2, p, t⟩
    rw [if_neg h0]
    by_cases hbig : data.size > LZ4V.Gen.KB4
    · -- the dictionary stream is copied over the working stream
      rw [if_pos hbig]
      have jd : JX { tbl := D.tbl, currentOffset := D.currentOffset, dict := D.dict, dictAddr := D.dictAddr, used := true, dctx := none } := ⟨dok.tbl, dok.ds⟩
      obtain ⟨c1, c2⟩ := core_spec hashOf _ false addr data acceleration cap jd
      obtain ⟨f1, _, _⟩ := core_frame hashOf { tbl := D.tbl, currentOffset := D.currentOffset, dict := D.dict, dictAddr := D.dictAddr, used := true, dctx := none } false addr data acceleration cap
      refine ⟨c1, ?_, ?_⟩
      · intro D' h; rw [f1] at h; cases h
      · intro blk h
        obtain ⟨t, p⟩ := c2 blk h
        exact ⟨_, Or.inr ⟨D, hdc, IsTail.refl _⟩, p, t⟩
    rw [if_neg hbig]
    by_cases hwrap : (adjust S addr data.size).1.currentOffset < D.currentOffset
    · rw [if_pos hwrap]
      refine ⟨⟨a1.tbl, a1.ds⟩, ?_, ?_⟩
      · intro D' h; cases h
      · intro blk h; cases h
    rw [if_neg hwrap]
    -- two tables
    generalize hT : (adjust S addr data.size).1 = T at a1 a2 g2 hwrap
    have jm : JX { tbl := mergedTbl T.tbl D.tbl T.currentOffset (T.currentOffset - D.currentOffset), currentOffset := T.currentOffset, dict := D.dict,
                   dictAddr := D.dictAddr, used := T.used, dctx := some D } := by
      refine ⟨mergedTbl_le _ _ _ _ _ a1.tbl (fun i => ?_), ?_⟩
      · have := dok.tbl i; dsimp only; omega
      · have := dok.ds; dsimp only; omega
    obtain ⟨c1, c2⟩ := core_spec hashOf _ false addr data acceleration cap jm
    obtain ⟨f1, f2, _⟩ := core_frame hashOf { tbl := mergedTbl T.tbl D.tbl T.currentOffset (T.currentOffset - D.currentOffset), currentOffset := T.currentOffset, dict := D.dict, dictAddr := D.dictAddr, used := T.used, dctx := some D } false addr data acceleration cap
    dsimp only at f2
    refine ⟨⟨?_, c1.ds⟩, ?_, ?_⟩
    · exact restoreTbl_le _ _ _ _ (fun i => Nat.le_trans (a1.tbl i) f2) c1.tbl
    · intro D' h; cases h
    · intro blk h
      obtain ⟨t, p⟩ := c2 blk h
      exact ⟨_, Or.inr ⟨D, hdc, IsTail.refl _⟩, p, t⟩

theorem saveDict_spec (S : XState) (addr k : Nat) (hJ : JX S) : JX (saveDict S addr k).1 ∧ IsTail (saveDict S addr k).1.dict.toList S.dict.toList := by
  unfold saveDict
  dsimp only
  refine ⟨⟨hJ.tbl, ?_⟩, lastN_tail _ _⟩
  dsimp only
  have := lastN_size S.dict (if (if k > LZ4V.Gen.KB64 then LZ4V.Gen.KB64 else k) > S.dict.size then S.dict.size else if k > LZ4V.Gen.KB64 then LZ4V.Gen.KB64 else k)
  have := hJ.ds
  omega

theorem fill3_le (h : Nat → Nat) (idx0 size B : Nat) (hB : idx0 + size ≤ B + 8) : ∀ (fuel p : Nat) (tbl : Array Nat),
    (∀ i, tbl.getD i 0 ≤ B) → ∀ i, (fill3 h idx0 size fuel p tbl).getD i 0 ≤ B := by
  intro fuel
  induction fuel with
  | zero => intro p tbl ht; exact ht
  | succ f ih =>
    intro p tbl ht
    unfold fill3
    split
    · apply ih
      intro i
      have := (show TI tbl (B + 1) from fun i => by have := ht i; omega).set (h p) (idx0 + p) (by omega) i
      omega
    · exact ht

theorem fill1_le (h : Nat → Nat) (idx0 size limit B : Nat) (hB : idx0 + size ≤ B + 8) : ∀ (fuel p : Nat) (tbl : Array Nat),
    (∀ i, tbl.getD i 0 ≤ B) → ∀ i, (fill1 h idx0 size limit fuel p tbl).getD i 0 ≤ B := by
  intro fuel
  induction fuel with
  | zero => intro p tbl ht; exact ht
  | succ f ih =>
    intro p tbl ht
    unfold fill1
    split
    · apply ih
      split
      · intro i
        have := (show TI tbl (B + 1) from fun i => by have := ht i; omega).set (h p) (idx0 + p) (by omega) i
        omega
      · exact ht
    · exact ht

theorem loadDict_spec (hashOf : Array UInt8 → Bool → Nat → Nat) (addr : Nat) (d : Array UInt8) (slow : Bool) :
    JX (loadDict hashOf addr d slow).1 ∧ IsTail (loadDict hashOf addr d slow).1.dict.toList d.toList := by
  have k64 : LZ4V.Gen.KB64 = 65536 := rfl
  unfold loadDict
  dsimp only
  split
  · exact ⟨⟨fun i => by show (Array.replicate LZ4V.Gen.LZ4_HASH_SIZE_U32 0).getD i 0 ≤ _; rw [replicate_getD]; exact Nat.zero_le _, Nat.zero_le _⟩, IsTail.nil _⟩
  · refine ⟨⟨?_, ?_⟩, lastN_tail _ _⟩
    · dsimp only
      have hds : (if d.size > LZ4V.Gen.KB64 then LZ4V.Gen.KB64 else d.size) ≤ LZ4V.Gen.KB64 := by split <;> omega
      generalize (if d.size > LZ4V.Gen.KB64 then LZ4V.Gen.KB64 else d.size) = ds at hds
      have h0 : ∀ i, (Array.replicate LZ4V.Gen.LZ4_HASH_SIZE_U32 0).getD i 0 ≤ LZ4V.Gen.KB64 := fun i => by rw [replicate_getD]; exact Nat.zero_le _
      have h1 := fill3_le (hashOf (lastN d ds) false) (LZ4V.Gen.KB64 - ds) ds LZ4V.Gen.KB64 (by omega) (ds + 1) 0 _ h0
      cases slow with
      | false => exact h1
      | true => exact fill1_le (hashOf (lastN d ds) false) (LZ4V.Gen.KB64 - ds) ds _ LZ4V.Gen.KB64 (by omega) (ds + 1) 0 _ h1
    · dsimp only
      have h1 := lastN_size_le d (if d.size > LZ4V.Gen.KB64 then LZ4V.Gen.KB64 else d.size)
      have h2 : (if d.size > LZ4V.Gen.KB64 then LZ4V.Gen.KB64 else d.size) ≤ LZ4V.Gen.KB64 := by split <;> omega
      exact Nat.le_trans h1 h2

theorem reset_spec (S : XState) (hJ : JX S) : JX (reset S) ∧ (reset S).dict = #[] := by
  unfold reset
  dsimp only
  refine ⟨⟨?_, Nat.zero_le _⟩, rfl⟩
  intro i
  dsimp only
  split
  · dsimp only
    rw [replicate_getD]; exact Nat.zero_le _
  · have := hJ.tbl i
    split <;> omega

/-! ## a whole life -/

/-- the declared history of the stream: what a decoder that followed the stream has seen since the last reset / dictionary load / attachment -/
def hist (H : List UInt8) : Op → List UInt8
  | .compress _ data _ _ => H ++ data.toList
  | .saveDict _ _ => H
  | .loadDict _ d _ => d.toList
  | .reset => []
  | .attach _ d _ => d.toList

def histAt (H : List UInt8) (ops : List Op) (k : Nat) : List UInt8 := (ops.take k).foldl hist H

/-- the invariant of a life: `JX`; the stream's own dictionary is a tail of the declared history `H`; an attached dictionary stream is well formed, its
    dictionary is a tail of `H` too, and while it is attached the stream has no dictionary of its own -/
structure Inv (S : XState) (H : List UInt8) : Prop where
  jx : JX S
  tail : IsTail S.dict.toList H
  dctx : ∀ D, S.dctx = some D → DOK D ∧ S.dict.size = 0 ∧ IsTail D.dict.toList H

theorem Inv_init : Inv {} [] := ⟨JX_init, IsTail.refl _, fun D h => by cases h⟩

theorem saveDict_frame (S : XState) (addr k : Nat) : (saveDict S addr k).1.dctx = S.dctx ∧ (saveDict S addr k).1.dict.size ≤ S.dict.size := by
  unfold saveDict
  exact ⟨rfl, lastN_size _ _⟩

theorem size_zero_nil (a : Array UInt8) (h : a.size = 0) : a.toList = [] := by
  apply List.eq_nil_of_length_eq_zero; rw [Array.length_toList]; exact h

/-- one operation keeps the invariant (for a compression: when it succeeds) -/
theorem step_spec (hashOf : Array UInt8 → Bool → Nat → Nat) (S : XState) (H : List UInt8) (op : Op) (hI : Inv S H) :
    (step hashOf S op).2 ≠ .block none → Inv (step hashOf S op).1 (hist H op) := by
  obtain ⟨hJ, hT, hD⟩ := hI
  cases op with
  | compress addr data acc cap =>
    obtain ⟨c1, c2, c3⟩ := compress_spec hashOf S addr data acc cap hJ (fun D h => ⟨(hD D h).1, (hD D h).2.1⟩)
    intro hne
    show Inv (compress hashOf S addr data acc cap).1 (H ++ data.toList)
    cases hb : (compress hashOf S addr data acc cap).2 with
    | none => exact absurd (by show Out.block (compress hashOf S addr data acc cap).2 = Out.block none; rw [hb]) hne
    | some blk =>
      obtain ⟨d, hsrc, _, ht⟩ := c3 blk hb
      have hdH : IsTail d H := by
        rcases hsrc with h | ⟨D, hDc, h⟩
        · exact h.trans hT
        · exact h.trans (hD D hDc).2.2
      refine ⟨c1, ht.trans (hdH.append _), ?_⟩
      intro D' h'
      obtain ⟨e1, e2, e3⟩ := c2 D' h'
      have hd0 : data.toList = [] := size_zero_nil data e2
      rw [hd0, List.append_nil]
      exact ⟨(hD D' e1).1, e3, (hD D' e1).2.2⟩
  | saveDict addr k =>
    obtain ⟨s1, s2⟩ := saveDict_spec S addr k hJ
    obtain ⟨f1, f2⟩ := saveDict_frame S addr k
    intro _
    refine ⟨s1, s2.trans hT, ?_⟩
    intro D h
    have h' : S.dctx = some D := by rw [← f1]; exact h
    have := (hD D h').2.1
    exact ⟨(hD D h').1, by show (saveDict S addr k).1.dict.size = 0; omega, (hD D h').2.2⟩
  | loadDict addr d slow =>
    obtain ⟨l1, l2⟩ := loadDict_spec hashOf addr d slow
    intro _
    refine ⟨l1, l2, ?_⟩
    intro D h
    have : (loadDict hashOf addr d slow).1.dctx = none := by unfold loadDict; dsimp only; split <;> rfl
    rw [show (step hashOf S (.loadDict addr d slow)).1 = (loadDict hashOf addr d slow).1 from rfl, this] at h
    cases h
  | reset =>
    obtain ⟨r1, r2⟩ := reset_spec S hJ
    intro _
    refine ⟨r1, ?_, ?_⟩
    · show IsTail (reset S).dict.toList []
      rw [r2]; exact IsTail.refl _
    · intro D h
      have : (reset S).dctx = none := rfl
      rw [show (step hashOf S .reset).1 = reset S from rfl, this] at h
      cases h
  | attach addr d slow =>
    obtain ⟨r1, r2⟩ := reset_spec S hJ
    obtain ⟨l1, l2⟩ := loadDict_spec hashOf addr d slow
    intro _
    have k64 : LZ4V.Gen.KB64 = 65536 := rfl
    refine ⟨⟨?_, ?_⟩, ?_, ?_⟩
    · intro i
      have := r1.tbl i
      show (reset S).tbl.getD i 0 ≤ (if (reset S).currentOffset = 0 then LZ4V.Gen.KB64 else (reset S).currentOffset)
      split <;> omega
    · show (reset S).dict.size ≤ _
      rw [r2]; exact Nat.zero_le _
    · show IsTail (reset S).dict.toList d.toList
      rw [r2]; exact IsTail.nil _
    · intro D h
      have hstep : (step hashOf S (.attach addr d slow)).1.dctx =
          (if (loadDict hashOf addr d slow).1.dict.size = 0 then none
           else some { tbl := (loadDict hashOf addr d slow).1.tbl, currentOffset := (loadDict hashOf addr d slow).1.currentOffset,
                       dict := (loadDict hashOf addr d slow).1.dict, dictAddr := (loadDict hashOf addr d slow).1.dictAddr }) := rfl
      rw [hstep] at h
      split at h
      · cases h
      · simp only [Option.some.injEq] at h
        subst h
        refine ⟨⟨l1.tbl, l1.ds⟩, ?_, l2⟩
        show (reset S).dict.size = 0
        rw [r2]; rfl

/-- **any life of a stream**: for every sequence of operations (compressions placed anywhere — after the dictionary, elsewhere, over the start of
    the dictionary —, dictionary saves of any size to any place, dictionary loads, attached dictionary streams, fast resets; any sizes, capacities,
    accelerations, any hash function; any state satisfying the invariant), a block returned by the `k`-th operation is a verified parse of its
    source against every tail `w` of the history at that point that is the whole history or at least 65535 bytes long -/
theorem run_parsed (hashOf : Array UInt8 → Bool → Nat → Nat) : ∀ (ops : List Op) (S : XState) (H : List UInt8), Inv S H →
    ∀ k addr data acc cap blk, ops[k]? = some (.compress addr data acc cap) → (run hashOf S ops)[k]? = some (.block (some blk)) →
    ∀ pre w, histAt H ops k = pre ++ w → (pre = [] ∨ 65535 ≤ w.length) → Parsed w blk data.toList := by
  intro ops
  induction ops with
  | nil => intro S H _ k addr data acc cap blk h; simp at h
  | cons op rest ih =>
    intro S H hI k addr data acc cap blk hop hrun pre w hw hlen
    have s2 := step_spec hashOf S H op hI
    cases k with
    | zero =>
      simp only [List.getElem?_cons_zero, Option.some.injEq] at hop
      subst hop
      simp only [histAt, List.take_zero, List.foldl_nil] at hw
      obtain ⟨c1, c2, c3⟩ := compress_spec hashOf S addr data acc cap hI.jx (fun D h => ⟨(hI.dctx D h).1, (hI.dctx D h).2.1⟩)
      have hb : (compress hashOf S addr data acc cap).2 = some blk := by
        unfold run at hrun
        simp only [step] at hrun
        cases hc : (compress hashOf S addr data acc cap).2 with
        | none => rw [hc] at hrun; simp at hrun
        | some b =>
          rw [hc] at hrun
          simp only [List.getElem?_cons_zero, Option.some.injEq, Out.block.injEq] at hrun
          rw [hrun]
      obtain ⟨d, hsrc, hp, _⟩ := c3 blk hb
      have hdH : IsTail d H := by
        rcases hsrc with h | ⟨D, hDc, h⟩
        · exact h.trans hI.tail
        · exact h.trans (hI.dctx D hDc).2.2
      obtain ⟨p1, hp1⟩ := hdH
      exact hp.of_tails (p := p1) (by rw [← hp1]; exact hw) hlen
    | succ k' =>
      simp only [List.getElem?_cons_succ] at hop
      unfold run at hrun
      cases hst : step hashOf S op with
      | mk S' o =>
        rw [hst] at hrun s2
        dsimp only at s2
        cases o with
        | block b =>
          cases b with
          | none => simp at hrun
          | some b0 =>
            simp only [List.getElem?_cons_succ] at hrun
            exact ih S' (hist H op) (s2 (by simp)) k' addr data acc cap blk hop hrun pre w (by simpa [histAt] using hw) hlen
        | size n =>
          simp only [List.getElem?_cons_succ] at hrun
          exact ih S' (hist H op) (s2 (by simp)) k' addr data acc cap blk hop hrun pre w (by simpa [histAt] using hw) hlen
        | unit =>
          simp only [List.getElem?_cons_succ] at hrun
          exact ih S' (hist H op) (s2 (by simp)) k' addr data acc cap blk hop hrun pre w (by simpa [histAt] using hw) hlen

end LZ4V.Model.FastX
