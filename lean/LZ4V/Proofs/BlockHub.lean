import LZ4V.Spec.Block
/-!
# Hub theorems of the block specification

`decode_serialize` : decoding the serialisation of any parse with legal field ranges is the meaning of the parse.
`roundtrip`        : if the parse is *valid for an input* (literals spell the input, every match continues the text
                     periodically at its offset) the specification decoder returns that input.
Every compressor theorem (C01, C06, C09, C11, C12, C17, C18) reduces to these.
-/
namespace LZ4V.Spec.Block

theorem decLen_encLen (v : Nat) (tl : List UInt8) : decLen (encLen v ++ tl) = some (v, tl) := by
  induction v using Nat.strongRecOn with
  | _ v ih =>
    unfold encLen
    split
    · simp only [List.cons_append, decLen]
      simp [ih (v - 255) (by omega)]
      omega
    · simp only [List.cons_append, List.nil_append, decLen]
      have : (UInt8.ofNat v) ≠ 255 := by
        intro hc
        have := congrArg UInt8.toNat hc
        simp at this
        omega
      simp [this]
      omega

theorem encLen_length (v : Nat) : (encLen v).length = v / 255 + 1 := by
  induction v using Nat.strongRecOn with
  | _ v ih =>
    unfold encLen
    split
    · simp only [List.length_cons, ih (v - 255) (by omega)]; omega
    · simp; omega

theorem readField_ext (v : Nat) (tl : List UInt8) : readField (nib v) (ext v ++ tl) = some (v, tl) := by
  unfold readField nib ext
  by_cases h : v ≥ 15
  · simp only [h, if_true]
    rw [decLen_encLen]
    simp; omega
  · simp only [h, if_false]
    have : ¬ (v = 15) := by omega
    simp [this]

theorem token_hi (ll mlc : Nat) : (token ll mlc).toNat / 16 = nib ll := by
  unfold token nib
  split <;> split <;> simp <;> omega

theorem token_lo (ll mlc : Nat) : (token ll mlc).toNat % 16 = nib mlc := by
  unfold token nib
  split <;> split <;> simp <;> omega

/-- one non-final sequence is decoded back, whatever follows -/
theorem decodeAux_serSeq (fuel : Nat) (s : Seq) (tl out : List UInt8) (h4 : 4 ≤ s.ml) (hoff : s.off < 65536) :
    decodeAux (fuel+1) (serSeq s ++ tl) out =
      (copyMatch (out ++ s.lits) s.off s.ml).bind (decodeAux fuel tl) := by
  unfold serSeq
  simp only [List.cons_append, List.append_assoc, decodeAux]
  rw [token_hi, readField_ext]
  simp only [List.length_append, List.take_left', List.drop_left']
  rw [if_neg (by omega)]
  simp only [List.nil_append]
  rw [token_lo, readField_ext]
  have hlo : (UInt8.ofNat (s.off % 256)).toNat + 256 * (UInt8.ofNat (s.off / 256)).toNat = s.off := by
    simp; omega
  have hml : s.ml - 4 + 4 = s.ml := by omega
  simp only [hlo, hml]
  cases copyMatch (out ++ s.lits) s.off s.ml <;> rfl

theorem decodeAux_serLast (fuel : Nat) (l out : List UInt8) : decodeAux (fuel+1) (serLast l) out = some (out ++ l) := by
  unfold serLast
  simp only [decodeAux]
  rw [token_hi, readField_ext]
  simp

/-- HUB: decode ∘ serialize = exec, for every parse with legal field ranges -/
theorem decodeAux_serialize (seqs : List Seq) (last out : List UInt8)
    (hwf : ∀ s ∈ seqs, 4 ≤ s.ml ∧ s.off < 65536) :
    decodeAux (seqs.length + 1) (serialize seqs last) out = exec out seqs last := by
  induction seqs generalizing out with
  | nil => simp [serialize, exec, decodeAux_serLast]
  | cons s rest ih =>
    have hs := hwf s (by simp)
    simp only [serialize, List.map_cons, List.flatten_cons, List.length_cons, List.append_assoc]
    rw [decodeAux_serSeq _ s _ out hs.1 hs.2]
    simp only [exec]
    cases h : copyMatch (out ++ s.lits) s.off s.ml with
    | none => rfl
    | some out2 =>
      have := ih out2 (fun t ht => hwf t (by simp [ht]))
      simpa [serialize] using this

/-- more fuel never changes a successful decode -/
theorem decodeAux_fuel_mono (fuel k : Nat) (inp out r : List UInt8)
    (h : decodeAux fuel inp out = some r) : decodeAux (fuel + k) inp out = some r := by
  induction fuel generalizing inp out with
  | zero => simp [decodeAux] at h
  | succ f ih =>
    cases inp with
    | nil => simp [decodeAux] at h
    | cons tok inp =>
      have e : f + 1 + k = (f + k) + 1 := by omega
      rw [e]
      simp only [decodeAux] at h ⊢
      split <;> rename_i hrf <;> rw [hrf] at h
      · simp at h
      · dsimp only at h ⊢
        split
        · rename_i hgt; rw [if_pos hgt] at h; simp at h
        · rename_i hgt
          rw [if_neg hgt] at h
          split <;> rename_i hdrop <;> rw [hdrop] at h <;> dsimp only at h ⊢
          · exact h
          · simp at h
          · split <;> rename_i hrf2 <;> rw [hrf2] at h <;> dsimp only at h ⊢
            · simp at h
            · split <;> rename_i hcm <;> rw [hcm] at h <;> dsimp only at h ⊢
              · exact ih _ _ h
              · simp at h

theorem serSeq_length_pos (s : Seq) : 1 ≤ (serSeq s).length := by
  unfold serSeq; simp

theorem serialize_length_ge (seqs : List Seq) (last : List UInt8) :
    seqs.length + 1 ≤ (serialize seqs last).length := by
  induction seqs with
  | nil => simp [serialize, serLast]
  | cons s rest ih =>
    have := serSeq_length_pos s
    simp only [serialize, List.map_cons, List.flatten_cons, List.length_append, List.length_cons] at ih ⊢
    omega

/-! ## valid parses -/

/-- a match the compressor verified byte-wise is reproduced by the spec's copy:
    if `m` continues `out` `off`-periodically, copying |m| bytes from `off` back yields `out ++ m` -/
theorem copyMatch_of_periodic (m out : List UInt8) (off : Nat) (h1 : 1 ≤ off) (h2 : off ≤ out.length)
    (hm : ∀ k, k < m.length → (out ++ m)[out.length + k]? = (out ++ m)[out.length + k - off]?) :
    copyMatch out off m.length = some (out ++ m) := by
  induction m generalizing out with
  | nil => simp [copyMatch]
  | cons b m ih =>
    simp only [List.length_cons, copyMatch]
    rw [if_pos ⟨h1, h2⟩]
    have h0 := hm 0 (by simp)
    simp only [Nat.add_zero] at h0
    rw [List.getElem?_append_right (Nat.le_refl _), List.getElem?_append_left (by omega)] at h0
    simp only [Nat.sub_self, List.getElem?_cons_zero] at h0
    rw [← h0]
    have := ih (out ++ [b]) (by simp; omega) (by
      intro k hk
      have := hm (k+1) (by simp; omega)
      simpa [List.append_assoc, Nat.add_assoc, Nat.add_comm 1 k] using this)
    simpa [List.append_assoc] using this

/-- a parse is valid for `input` after `out` when literals and matches spell out the input and
    every match continues the text periodically at its offset -/
def ValidParse : List UInt8 → List Seq → List UInt8 → List UInt8 → Prop
  | out, [], last, input => input = out ++ last
  | out, s :: rest, last, input =>
    ∃ m, m.length = s.ml ∧ 1 ≤ s.off ∧ s.off ≤ (out ++ s.lits).length ∧
      (∀ k, k < m.length → ((out ++ s.lits) ++ m)[(out ++ s.lits).length + k]? = ((out ++ s.lits) ++ m)[(out ++ s.lits).length + k - s.off]?) ∧
      ValidParse ((out ++ s.lits) ++ m) rest last input

theorem exec_of_valid (out : List UInt8) (seqs : List Seq) (last input : List UInt8)
    (h : ValidParse out seqs last input) : exec out seqs last = some input := by
  induction seqs generalizing out with
  | nil => simp [ValidParse] at h; simp [exec, h]
  | cons s rest ih =>
    obtain ⟨m, hm, h1, h2, hp, hrest⟩ := h
    simp only [exec]
    rw [← hm, copyMatch_of_periodic m (out ++ s.lits) s.off h1 h2 hp]
    exact ih _ hrest

/-- Round trip for any compressor, with history: if what it emitted is the serialisation of a parse that is valid
    for `hist ++ input` starting from `hist` (matches byte-verified, field ranges legal), the specification decoder
    given `hist` returns `input`. -/
theorem roundtrip (hist : List UInt8) (seqs : List Seq) (last input : List UInt8)
    (hwf : ∀ s ∈ seqs, 4 ≤ s.ml ∧ s.off < 65536) (hv : ValidParse hist seqs last (hist ++ input)) :
    decode hist (serialize seqs last) = some input := by
  unfold decode
  have h1 := decodeAux_serialize seqs last hist hwf
  rw [exec_of_valid hist seqs last _ hv] at h1
  have hle := serialize_length_ge seqs last
  have h2 := decodeAux_fuel_mono (seqs.length + 1) ((serialize seqs last).length - seqs.length) _ _ _ h1
  have e : seqs.length + 1 + ((serialize seqs last).length - seqs.length) = (serialize seqs last).length + 1 := by omega
  rw [e] at h2
  rw [h2]
  simp

/-! ## parse / exec factorisation of the decoder -/

theorem decodeAux_eq_parse_exec (fuel : Nat) (inp out : List UInt8) :
    decodeAux fuel inp out = (parseAux fuel inp).bind (fun p => exec out p.1 p.2) := by
  induction fuel generalizing inp out with
  | zero => simp [decodeAux, parseAux]
  | succ f ih =>
    cases inp with
    | nil => simp [decodeAux, parseAux]
    | cons tok inp =>
      simp only [decodeAux, parseAux]
      cases h1 : readField (tok.toNat / 16) inp with
      | none => simp
      | some r1 =>
        obtain ⟨ll, inp1⟩ := r1
        dsimp only
        by_cases hgt : ll > inp1.length
        · simp [hgt]
        · simp only [hgt, if_false]
          cases h2 : inp1.drop ll with
          | nil => simp [exec]
          | cons lo t =>
            cases t with
            | nil => simp
            | cons hi inp3 =>
              dsimp only
              cases h3 : readField (tok.toNat % 16) inp3 with
              | none => simp
              | some r3 =>
                obtain ⟨mlc, inp4⟩ := r3
                dsimp only
                cases hp : parseAux f inp4 with
                | none =>
                  cases hc : copyMatch (out ++ List.take ll inp1) (lo.toNat + 256 * hi.toNat) (mlc + 4) with
                  | none => simp
                  | some o2 => simp [ih, hp]
                | some p =>
                  obtain ⟨seqs, last⟩ := p
                  cases hc : copyMatch (out ++ List.take ll inp1) (lo.toNat + 256 * hi.toNat) (mlc + 4) with
                  | none => simp [exec, hc]
                  | some o2 => simp [ih, hp, exec, hc]

end LZ4V.Spec.Block

/-! ## history extension: more history in front never changes a decode -/
namespace LZ4V.Spec.Block

theorem copyMatch_prefix (pre out : List UInt8) (off n : Nat) (r : List UInt8)
    (h : copyMatch out off n = some r) : copyMatch (pre ++ out) off n = some (pre ++ r) := by
  induction n generalizing out with
  | zero => simp [copyMatch] at h ⊢; exact h
  | succ n ih =>
    simp only [copyMatch] at h ⊢
    by_cases hc : 1 ≤ off ∧ off ≤ out.length
    · rw [if_pos hc] at h
      rw [if_pos ⟨hc.1, by simp; omega⟩]
      have hidx : out.length - off < out.length := by omega
      rw [List.getElem?_eq_getElem hidx] at h
      have e : (pre ++ out).length - off = pre.length + (out.length - off) := by simp; omega
      rw [e, List.getElem?_append_right (by omega)]
      simp only [Nat.add_sub_cancel_left, List.getElem?_eq_getElem hidx]
      have := ih (out ++ [out[out.length - off]]) h
      simpa [List.append_assoc] using this
    · rw [if_neg hc] at h; simp at h

/-- a block that decodes with history `out` decodes to the same content with any longer history `pre ++ out` -/
theorem decodeAux_prefix (fuel : Nat) (inp pre out r : List UInt8)
    (h : decodeAux fuel inp out = some r) : decodeAux fuel inp (pre ++ out) = some (pre ++ r) := by
  induction fuel generalizing inp out with
  | zero => simp [decodeAux] at h
  | succ f ih =>
    cases inp with
    | nil => simp [decodeAux] at h
    | cons tok inp =>
      simp only [decodeAux] at h ⊢
      cases h1 : readField (tok.toNat / 16) inp with
      | none => rw [h1] at h; simp at h
      | some r1 =>
        obtain ⟨ll, inp1⟩ := r1
        rw [h1] at h
        dsimp only at h ⊢
        by_cases hgt : ll > inp1.length
        · rw [if_pos hgt] at h; simp at h
        · rw [if_neg hgt] at h ⊢
          cases h2 : inp1.drop ll with
          | nil => rw [h2] at h; dsimp only at h ⊢; simp at h ⊢; rw [← h]
          | cons lo t =>
            cases t with
            | nil => rw [h2] at h; simp at h
            | cons hi inp3 =>
              rw [h2] at h
              dsimp only at h ⊢
              cases h3 : readField (tok.toNat % 16) inp3 with
              | none => rw [h3] at h; simp at h
              | some r3 =>
                obtain ⟨mlc, inp4⟩ := r3
                rw [h3] at h
                dsimp only at h ⊢
                cases hc : copyMatch (out ++ List.take ll inp1) (lo.toNat + 256 * hi.toNat) (mlc + 4) with
                | none => rw [hc] at h; simp at h
                | some o2 =>
                  rw [hc] at h
                  dsimp only at h
                  have hcp := copyMatch_prefix pre _ _ _ _ hc
                  rw [List.append_assoc, hcp]
                  dsimp only
                  exact ih _ _ h

/-- **history superset**: whatever longer history the decoder holds (contiguous prefix, ring buffer, explicit
    dictionary — any means), the block decodes to the same content -/
theorem decode_history_superset (pre hist blk D : List UInt8) (h : decode hist blk = some D) :
    decode (pre ++ hist) blk = some D := by
  unfold decode at h ⊢
  cases hd : decodeAux (blk.length + 1) blk hist with
  | none => rw [hd] at h; simp at h
  | some r =>
    rw [hd] at h
    rw [decodeAux_prefix _ _ pre _ _ hd]
    simp only [Option.map_some, Option.some.injEq] at h ⊢
    rw [← h, List.length_append, List.drop_append]
    simp [List.drop_length]

end LZ4V.Spec.Block
