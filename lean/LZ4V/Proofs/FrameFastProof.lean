import LZ4V.Model.FrameFast
import LZ4V.Proofs.FastRProof
import LZ4V.Proofs.FrameLProof
import LZ4V.Proofs.FrameCProof
/-!
# The frame the model produces parses, by the stream specification, to exactly the input (end to end)
-/
namespace LZ4V.Model.FrameFast
open LZ4V.Model
open LZ4V.Spec.FrameL
open LZ4V.Spec.Frame (Header blockSizeOf Bad)

theorem encLE_length : ∀ (k v : Nat), (encLE k v).length = k := by
  intro k
  induction k with
  | zero => intro v; rfl
  | succ k ih => intro v; simp [encLE, ih]

theorem le_encLE : ∀ (k v : Nat), le (encLE k v) = v % 256 ^ k := by
  intro k
  induction k with
  | zero => intro v; simp [encLE, le, Nat.mod_one]
  | succ k ih =>
    intro v
    simp only [encLE, le, ih]
    rw [UInt8.toNat_ofNat']
    have h8 : (2 : Nat) ^ 8 = 256 := by decide
    rw [h8, Nat.pow_succ, Nat.mul_comm (256 ^ k) 256, Nat.mod_mul, Nat.mod_mod]

theorem le_encLE_lt (k v : Nat) (h : v < 256 ^ k) : le (encLE k v) = v := by
  rw [le_encLE, Nat.mod_eq_of_lt h]

theorem takeN_app (a r : Bytes) (k : Nat) (hk : a.length = k) : takeN k (a ++ r) = .ok (a, r) := by
  unfold takeN
  rw [if_neg (by rw [List.length_append]; omega), List.take_left' hk, List.drop_left' hk]

theorem b2n_le (b : Bool) : b2n b ≤ 1 := by cases b <;> decide

/-- the header record the specification reads back from `descriptor p` -/
def hdrOf (p : Prefs) : Header :=
  { blockIndep := true, blockChecksum := p.blockChecksum,
    contentSize := if p.contentSize > 0 then some p.contentSize else none,
    contentChecksum := p.contentChecksum,
    dictId := if p.dictID > 0 then some p.dictID else none,
    bsid := p.bsid, maxBlock := blockSizeOf p.bsid,
    size := 4 + 2 + ((if p.contentSize > 0 then 8 else 0) + (if p.dictID > 0 then 4 else 0)) + 1 }

theorem b2n_decide_eq (c : Prop) [Decidable c] : (b2n (decide c) == 1) = decide c := by
  by_cases h : c <;> simp [b2n, h]

theorem header_parses (E : Env) (p : Prefs) (hb : 4 ≤ p.bsid ∧ p.bsid ≤ 7) (hcs : p.contentSize < 256 ^ 8) (hd : p.dictID < 256 ^ 4) (rest : Bytes) :
    pHeader E (descriptor p ++ [UInt8.ofNat ((E.hash (descriptor p) / 256) % 256)] ++ rest) = .ok (hdrOf p, rest) := by
  have ha := b2n_le p.blockChecksum
  have hbb := b2n_le (decide (p.contentSize > 0))
  have hc := b2n_le p.contentChecksum
  have hdd := b2n_le (decide (p.dictID > 0))
  generalize hA : b2n p.blockChecksum = A at ha
  generalize hB : b2n (decide (p.contentSize > 0)) = B at hbb
  generalize hC : b2n p.contentChecksum = C at hc
  generalize hD : b2n (decide (p.dictID > 0)) = D at hdd
  have h28 : (2 : Nat) ^ 8 = 256 := by decide
  have hflg : (UInt8.ofNat (64 + 32 + 16 * A + 8 * B + 4 * C + D)).toNat = 64 + 32 + 16 * A + 8 * B + 4 * C + D := by
    rw [UInt8.toNat_ofNat', h28]; exact Nat.mod_eq_of_lt (by omega)
  have hbd : (UInt8.ofNat (p.bsid * 16)).toNat = p.bsid * 16 := by
    rw [UInt8.toNat_ofNat', h28]; exact Nat.mod_eq_of_lt (by omega)
  have hext : descriptor p = [UInt8.ofNat (64 + 32 + 16 * A + 8 * B + 4 * C + D), UInt8.ofNat (p.bsid * 16)] ++
      ((if p.contentSize > 0 then encLE 8 p.contentSize else []) ++ (if p.dictID > 0 then encLE 4 p.dictID else [])) := by
    unfold descriptor
    rw [hA, hB, hC, hD, List.append_assoc]
  generalize hextdef : (if p.contentSize > 0 then encLE 8 p.contentSize else []) ++ (if p.dictID > 0 then encLE 4 p.dictID else []) = ext at hext
  have hextlen : ext.length = (if p.contentSize > 0 then 8 else 0) + (if p.dictID > 0 then 4 else 0) := by
    rw [← hextdef, List.length_append]
    split <;> split <;> simp [encLE_length]
  have hBcs : (B == 1) = decide (p.contentSize > 0) := by rw [← hB]; exact b2n_decide_eq _
  have hDd : (D == 1) = decide (p.dictID > 0) := by rw [← hD]; exact b2n_decide_eq _
  have hAb : (A == 1) = p.blockChecksum := by rw [← hA]; cases p.blockChecksum <;> rfl
  have hCc : (C == 1) = p.contentChecksum := by rw [← hC]; cases p.contentChecksum <;> rfl
  unfold pHeader Parser.bind
  rw [hext]
  generalize hhcdef : UInt8.ofNat ((E.hash ([UInt8.ofNat (64 + 32 + 16 * A + 8 * B + 4 * C + D), UInt8.ofNat (p.bsid * 16)] ++ ext) / 256) % 256) = hcb
  have hhc : hcb.toNat = (E.hash ([UInt8.ofNat (64 + 32 + 16 * A + 8 * B + 4 * C + D), UInt8.ofNat (p.bsid * 16)] ++ ext) / 256) % 256 := by
    rw [← hhcdef, UInt8.toNat_ofNat', h28]; exact Nat.mod_eq_of_lt (Nat.mod_lt _ (by decide))
  simp only [List.append_assoc]
  have t2 : takeN 2 ([UInt8.ofNat (64 + 32 + 16 * A + 8 * B + 4 * C + D), UInt8.ofNat (p.bsid * 16)] ++ (ext ++ ([hcb] ++ rest)))
      = .ok ([UInt8.ofNat (64 + 32 + 16 * A + 8 * B + 4 * C + D), UInt8.ofNat (p.bsid * 16)], ext ++ ([hcb] ++ rest)) :=
    takeN_app [UInt8.ofNat (64 + 32 + 16 * A + 8 * B + 4 * C + D), UInt8.ofNat (p.bsid * 16)] _ 2 rfl
  rw [t2]
  simp only [List.getD_cons_zero, List.getD_cons_succ, hflg, hbd]
  have f1 : (64 + 32 + 16 * A + 8 * B + 4 * C + D) / 64 = 1 := by omega
  have f2 : (64 + 32 + 16 * A + 8 * B + 4 * C + D) / 2 % 2 = 0 := by omega
  have f3 : p.bsid * 16 / 128 = 0 := by omega
  have f4 : p.bsid * 16 % 16 = 0 := by omega
  have f5 : p.bsid * 16 / 16 % 8 = p.bsid := by omega
  have f6 : (64 + 32 + 16 * A + 8 * B + 4 * C + D) / 8 % 2 = B := by omega
  have f7 : (64 + 32 + 16 * A + 8 * B + 4 * C + D) % 2 = D := by omega
  have f8 : (64 + 32 + 16 * A + 8 * B + 4 * C + D) / 32 % 2 = 1 := by omega
  have f9 : (64 + 32 + 16 * A + 8 * B + 4 * C + D) / 16 % 2 = A := by omega
  have f10 : (64 + 32 + 16 * A + 8 * B + 4 * C + D) / 4 % 2 = C := by omega
  have hb4 : ¬ p.bsid < 4 := by omega
  simp only [f1, f2, f3, f4, f5, f6, f7, f8, f9, f10, hb4, ne_eq, not_true_eq_false, or_self, ↓reduceIte, hBcs, hDd, hAb, hCc, decide_eq_true_eq]
  have tk : takeN ((if p.contentSize > 0 then 8 else 0) + (if p.dictID > 0 then 4 else 0)) (ext ++ ([hcb] ++ rest)) = .ok (ext, [hcb] ++ rest) :=
    takeN_app _ _ _ hextlen
  rw [tk]
  simp only []
  have t1 : takeN 1 ([hcb] ++ rest) = .ok ([hcb], rest) := takeN_app [hcb] _ 1 rfl
  rw [t1]
  simp only [List.getD_cons_zero, hhc, not_true_eq_false, ↓reduceIte, Parser.pure, hdrOf]
  -- the optional fields
  have hcsf : (if p.contentSize > 0 then some (le (ext.take 8)) else none) = (if p.contentSize > 0 then some p.contentSize else none) := by
    by_cases h : p.contentSize > 0
    · rw [if_pos h, if_pos h]
      rw [← hextdef, if_pos h, List.take_left' (encLE_length 8 _), le_encLE_lt 8 _ hcs]
    · rw [if_neg h, if_neg h]
  have hdf : (if p.dictID > 0 then some (le (ext.drop (if p.contentSize > 0 then 8 else 0))) else none) = (if p.dictID > 0 then some p.dictID else none) := by
    by_cases h : p.dictID > 0
    · rw [if_pos h, if_pos h]
      rw [← hextdef, if_pos h]
      by_cases h2 : p.contentSize > 0
      · rw [if_pos h2, if_pos h2, List.drop_left' (encLE_length 8 _), le_encLE_lt 4 _ hd]
      · rw [if_neg h2, if_neg h2, List.nil_append, List.drop_zero, le_encLE_lt 4 _ hd]
    · rw [if_neg h, if_neg h]
  rw [hcsf, hdf]
  rfl

/-- what the theorems need from the checksum function and the block decoder -/
structure EnvOK (E : Env) : Prop where
  h32 : ∀ l, E.hash l < 4294967296
  dec : ∀ payload cap D, LZ4V.Spec.Block.decode [] payload = some D → D.length ≤ cap → E.dec [] payload cap = some D

theorem blockSizeOf_le (bsid : Nat) (hb : 4 ≤ bsid ∧ bsid ≤ 7) : 0 < blockSizeOf bsid ∧ blockSizeOf bsid ≤ 4194304 := by
  have : bsid = 4 ∨ bsid = 5 ∨ bsid = 6 ∨ bsid = 7 := by omega
  rcases this with rfl | rfl | rfl | rfl <;> decide

theorem decode_nil_ne (D : Bytes) (h : LZ4V.Spec.Block.decode [] [] = some D) : False := by
  have : LZ4V.Spec.Block.decode [] ([] : Bytes) = none := by decide
  rw [this] at h; cases h

/-- the specification's block loop on one well-formed block (general header): stored raw -/
theorem pBlocks_raw (E : Env) (hdr : Header) (dict : Bytes) (fuel : Nat) (acc w4 payload crc rest : Bytes)
    (h4 : w4.length = 4) (hw0 : le w4 ≠ 0) (hmod : le w4 % 0x80000000 = payload.length) (hmax : payload.length ≤ hdr.maxBlock)
    (hcl : crc.length = (if hdr.blockChecksum = true then 4 else 0)) (hcrc : ¬ (hdr.blockChecksum = true ∧ E.hash payload ≠ le crc))
    (hraw : le w4 ≥ 0x80000000) :
    pBlocks E hdr dict (fuel + 1) acc (w4 ++ (payload ++ (crc ++ rest))) = pBlocks E hdr dict fuel (acc ++ payload) rest := by
  conv => lhs; unfold pBlocks
  unfold Parser.bind
  rw [takeN_app w4 _ 4 h4]
  dsimp only
  have hcnd : ¬ payload.length > hdr.maxBlock := by omega
  rw [if_neg hw0, hmod]
  simp only [hcnd, ↓reduceIte]
  rw [takeN_app payload _ _ rfl]
  dsimp only
  rw [takeN_app crc rest _ hcl]
  dsimp only
  rw [if_neg hcrc, if_pos hraw]

/-- … compressed, and the block decoder returns `d` -/
theorem pBlocks_comp (E : Env) (hdr : Header) (dict : Bytes) (fuel : Nat) (acc w4 payload crc rest d : Bytes)
    (h4 : w4.length = 4) (hw0 : le w4 ≠ 0) (hmod : le w4 % 0x80000000 = payload.length) (hmax : payload.length ≤ hdr.maxBlock)
    (hcl : crc.length = (if hdr.blockChecksum = true then 4 else 0)) (hcrc : ¬ (hdr.blockChecksum = true ∧ E.hash payload ≠ le crc))
    (hraw : ¬ le w4 ≥ 0x80000000)
    (hdec : E.dec (if hdr.blockIndep = true then window dict [] else window dict acc) payload hdr.maxBlock = some d) :
    pBlocks E hdr dict (fuel + 1) acc (w4 ++ (payload ++ (crc ++ rest))) = pBlocks E hdr dict fuel (acc ++ d) rest := by
  conv => lhs; unfold pBlocks
  unfold Parser.bind
  rw [takeN_app w4 _ 4 h4]
  dsimp only
  have hcnd : ¬ payload.length > hdr.maxBlock := by omega
  rw [if_neg hw0, hmod]
  simp only [hcnd, ↓reduceIte]
  rw [takeN_app payload _ _ rfl]
  dsimp only
  rw [takeN_app crc rest _ hcl]
  dsimp only
  rw [if_neg hcrc, if_neg hraw, hdec]

/-- one block: the specification reads back, from the bytes `LZ4F_makeBlock` wrote, exactly the block's content -/
theorem makeBlock_parses (E : Env) (ok : EnvOK E) (hashOf : Array UInt8 → Bool → Nat → Nat) (p : Prefs) (hb : 4 ≤ p.bsid ∧ p.bsid ≤ 7)
    (S : FastR.RState) (hJ : FastR.J S) (content : Bytes) (hne : content ≠ []) (hlen : content.length ≤ blockSizeOf p.bsid)
    (fuel : Nat) (acc rest : Bytes) :
    FastR.J (makeBlock E hashOf p S content).1 ∧
    pBlocks E (hdrOf p) [] (fuel + 1) acc ((makeBlock E hashOf p S content).2 ++ rest) = pBlocks E (hdrOf p) [] fuel (acc ++ content) rest := by
  have hbs := blockSizeOf_le p.bsid hb
  have hn0 : 0 < content.length := List.length_pos_iff.mpr hne
  have cflag : LZ4V.Gen.LZ4F_BLOCKUNCOMPRESSED_FLAG = 2147483648 := rfl
  have p32 : (256 : Nat) ^ 4 = 4294967296 := by decide
  unfold makeBlock
  dsimp only
  obtain ⟨j1, j2⟩ := FastR.call_spec hashOf S content.toArray (if p.level < 0 then -p.level + 1 else 1) (content.length - 1)
    (LZ4V.Gen.LZ4_compressBound content.length).toNat hJ
  refine ⟨j1, ?_⟩
  -- payload, raw flag and their properties
  generalize hr : (FastR.call hashOf S content.toArray (if p.level < 0 then -p.level + 1 else 1) (content.length - 1) (LZ4V.Gen.LZ4_compressBound content.length).toNat).2 = r2 at j2
  have hkey : 0 < (payloadOf r2 content).length ∧ (payloadOf r2 content).length ≤ blockSizeOf p.bsid ∧
      (rawOf r2 content.length = true → payloadOf r2 content = content) ∧
      (rawOf r2 content.length = false → E.dec [] (payloadOf r2 content) (blockSizeOf p.bsid) = some content) := by
    cases r2 with
    | none => exact ⟨hn0, hlen, (fun _ => rfl), (fun h => by simp [rawOf] at h)⟩
    | some blk =>
      have hd := j2 blk rfl
      have hc : content.toArray.toList = content := by simp
      rw [hc] at hd
      by_cases hge : blk.length ≥ content.length
      · refine ⟨?_, ?_, ?_, ?_⟩
        · simp only [payloadOf, hge, ↓reduceIte]; exact hn0
        · simp only [payloadOf, hge, ↓reduceIte]; exact hlen
        · intro _; simp only [payloadOf, hge, ↓reduceIte]
        · intro h; simp [rawOf, hge] at h
      · refine ⟨?_, ?_, ?_, ?_⟩
        · simp only [payloadOf, hge, ↓reduceIte]
          cases blk with
          | nil => exact absurd hd (fun h => decode_nil_ne content h)
          | cons x t => simp
        · simp only [payloadOf, hge, ↓reduceIte]; omega
        · intro h; simp [rawOf, hge] at h
        · intro _; simp only [payloadOf, hge, ↓reduceIte]; exact ok.dec blk _ content hd hlen
  obtain ⟨hp0, hpl, hraw, hcomp⟩ := hkey
  generalize payloadOf r2 content = payload at hp0 hpl hraw hcomp
  generalize rawOf r2 content.length = raw at hraw hcomp
  generalize hw : payload.length + (if raw = true then LZ4V.Gen.LZ4F_BLOCKUNCOMPRESSED_FLAG else 0) = w
  have hwlt : w < 256 ^ 4 := by rw [← hw, cflag, p32]; split <;> omega
  have hwle : le (encLE 4 w) = w := le_encLE_lt 4 w hwlt
  have hw0 : w ≠ 0 := by rw [← hw]; omega
  have hwmod : w % 0x80000000 = payload.length := by
    rw [← hw, cflag]; split <;> omega
  have hcrclen : (if p.blockChecksum = true then encLE 4 (E.hash payload) else []).length = (if (hdrOf p).blockChecksum = true then 4 else 0) := by
    show _ = (if p.blockChecksum = true then 4 else 0)
    split <;> simp [encLE_length]
  have hbcf : (hdrOf p).blockChecksum = p.blockChecksum := rfl
  have hmb : (hdrOf p).maxBlock = blockSizeOf p.bsid := rfl
  have hind : (hdrOf p).blockIndep = true := rfl
  have hcrcok : ¬ ((hdrOf p).blockChecksum = true ∧ E.hash payload ≠ le (if p.blockChecksum = true then encLE 4 (E.hash payload) else [])) := by
    rw [hbcf]
    intro ⟨h1, h2⟩
    rw [if_pos h1, le_encLE_lt 4 _ (by rw [p32]; exact ok.h32 _)] at h2
    exact h2 rfl
  simp only [List.append_assoc]
  cases hrw : raw with
  | true =>
    have hge : le (encLE 4 w) ≥ 0x80000000 := by rw [hwle, ← hw, hrw, cflag]; simp
    rw [pBlocks_raw E (hdrOf p) [] fuel acc (encLE 4 w) payload _ rest (encLE_length 4 w) (by rw [hwle]; exact hw0) (by rw [hwle]; exact hwmod)
      (by rw [hmb]; exact hpl) hcrclen hcrcok hge, hraw hrw]
  | false =>
    have hlt : ¬ le (encLE 4 w) ≥ 0x80000000 := by rw [hwle, ← hw, hrw, cflag]; simp; omega
    rw [pBlocks_comp E (hdrOf p) [] fuel acc (encLE 4 w) payload _ rest content (encLE_length 4 w) (by rw [hwle]; exact hw0) (by rw [hwle]; exact hwmod)
      (by rw [hmb]; exact hpl) hcrclen hcrcok hlt (by rw [hind, hmb]; simp only [↓reduceIte]; exact hcomp hrw)]

/-- all blocks, then the end mark -/
theorem makeBlocks_parses (E : Env) (ok : EnvOK E) (hashOf : Array UInt8 → Bool → Nat → Nat) (p : Prefs) (hb : 4 ≤ p.bsid ∧ p.bsid ≤ 7) :
    ∀ (blocks : List Bytes) (S : FastR.RState), FastR.J S → (∀ b ∈ blocks, b ≠ [] ∧ b.length ≤ blockSizeOf p.bsid) → ∀ (acc rest : Bytes),
    pBlocks E (hdrOf p) [] (blocks.length + 1) acc (makeBlocks E hashOf p S blocks ++ (encLE 4 0 ++ rest)) = .ok (acc ++ blocks.flatten, rest) := by
  intro blocks
  induction blocks with
  | nil =>
    intro S _ _ acc rest
    simp only [makeBlocks, List.length_nil, List.nil_append, List.flatten_nil, List.append_nil]
    conv => lhs; unfold pBlocks
    unfold Parser.bind
    rw [takeN_app (encLE 4 0) rest 4 (encLE_length 4 0)]
    have : le (encLE 4 0) = 0 := by decide
    simp only [this, ↓reduceIte, Parser.pure]
  | cons b t ih =>
    intro S hJ hall acc rest
    obtain ⟨hne, hlen⟩ := hall b List.mem_cons_self
    obtain ⟨j1, hpb⟩ := makeBlock_parses E ok hashOf p hb S hJ b hne hlen (t.length + 1) acc (makeBlocks E hashOf p (makeBlock E hashOf p S b).1 t ++ (encLE 4 0 ++ rest))
    simp only [makeBlocks, List.length_cons, List.flatten_cons, List.append_assoc]
    rw [hpb, ih _ j1 (fun x hx => hall x (List.mem_cons_of_mem _ hx)), List.append_assoc]

/-- **end to end**: the frame the model produces for `blocks` is, for the stream specification, one complete LZ4 frame whose content is
    exactly the concatenation of the blocks, with nothing left over -/
theorem frameFrom_parses (E : Env) (ok : EnvOK E) (hashOf : Array UInt8 → Bool → Nat → Nat) (p : Prefs) (hb : 4 ≤ p.bsid ∧ p.bsid ≤ 7)
    (hcs64 : p.contentSize < 256 ^ 8) (hd32 : p.dictID < 256 ^ 4) (S0 : FastR.RState) (hJ0 : FastR.J S0) (blocks : List Bytes)
    (hall : ∀ b ∈ blocks, b ≠ [] ∧ b.length ≤ blockSizeOf p.bsid) (hcs : p.contentSize = 0 ∨ p.contentSize = blocks.flatten.length) :
    pFrame E [] (blocks.length + 1) (frameFrom E hashOf p S0 blocks) = .ok (blocks.flatten, []) := by
  have p32 : (256 : Nat) ^ 4 = 4294967296 := by decide
  unfold frameFrom header pFrame Parser.bind
  simp only [List.append_assoc]
  rw [takeN_app (encLE 4 LZ4V.Gen.LZ4F_MAGICNUMBER) _ 4 (encLE_length 4 _)]
  have hm : le (encLE 4 LZ4V.Gen.LZ4F_MAGICNUMBER) = lz4Magic := by decide
  simp only [hm, ne_eq, not_true_eq_false, ↓reduceIte]
  unfold pFrameBody Parser.bind
  have hh := header_parses E p hb hcs64 hd32 (makeBlocks E hashOf p S0 blocks ++ (encLE 4 0 ++ (if p.contentChecksum = true then encLE 4 (E.hash blocks.flatten) else [])))
  simp only [List.append_assoc] at hh
  rw [hh]
  simp only []
  have hbk := makeBlocks_parses E ok hashOf p hb blocks S0 hJ0 hall [] (if p.contentChecksum = true then encLE 4 (E.hash blocks.flatten) else [])
  rw [List.nil_append] at hbk
  rw [hbk]
  simp only []
  have hcc : (hdrOf p).contentChecksum = p.contentChecksum := rfl
  have hcrclen : (if p.contentChecksum = true then encLE 4 (E.hash blocks.flatten) else []).length = (if (hdrOf p).contentChecksum = true then 4 else 0) := by
    rw [hcc]; split <;> simp [encLE_length]
  have := takeN_app (if p.contentChecksum = true then encLE 4 (E.hash blocks.flatten) else []) [] _ hcrclen
  rw [List.append_nil] at this
  rw [this]
  simp only []
  have hc1 : ¬ ((hdrOf p).contentChecksum = true ∧ E.hash blocks.flatten ≠ le (if p.contentChecksum = true then encLE 4 (E.hash blocks.flatten) else [])) := by
    rw [hcc]
    intro ⟨h1, h2⟩
    rw [if_pos h1, le_encLE_lt 4 _ (by rw [p32]; exact ok.h32 _)] at h2
    exact h2 rfl
  have hc2 : ¬ ((hdrOf p).contentSize.isSome = true ∧ (hdrOf p).contentSize ≠ some blocks.flatten.length) := by
    show ¬ ((if p.contentSize > 0 then some p.contentSize else none).isSome = true ∧ (if p.contentSize > 0 then some p.contentSize else none) ≠ some blocks.flatten.length)
    rcases hcs with h0 | h0
    · rw [if_neg (by omega)]; simp
    · by_cases hz : p.contentSize > 0
      · rw [if_pos hz, h0]; simp
      · rw [if_neg hz]; simp
  simp only [hc1, hc2, ↓reduceIte, Parser.pure]

theorem frame_parses (E : Env) (ok : EnvOK E) (hashOf : Array UInt8 → Bool → Nat → Nat) (p : Prefs) (hb : 4 ≤ p.bsid ∧ p.bsid ≤ 7)
    (hcs64 : p.contentSize < 256 ^ 8) (hd32 : p.dictID < 256 ^ 4) (blocks : List Bytes)
    (hall : ∀ b ∈ blocks, b ≠ [] ∧ b.length ≤ blockSizeOf p.bsid) (hcs : p.contentSize = 0 ∨ p.contentSize = blocks.flatten.length) :
    pFrame E [] (blocks.length + 1) (frame E hashOf p blocks) = .ok (blocks.flatten, []) :=
  frameFrom_parses E ok hashOf p hb hcs64 hd32 {} FastR.J_init blocks hall hcs

end LZ4V.Model.FrameFast
