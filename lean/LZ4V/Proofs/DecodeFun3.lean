import LZ4V.Proofs.DecodeFun2
/-!
# What the decoder model computes, part 3: the length fields (`read_variable_length`) are the specification's `readField`
-/
namespace LZ4V.Model.Decode
open LZ4V.Model LZ4V.Gen LZ4V.Spec.Block

theorem u8_ne_255 (b : UInt8) (h : b.toNat ≠ 255) : b ≠ 255 := by
  intro hc; subst hc; exact h rfl

theorem u8_eq_255 (b : UInt8) (h : ¬ b.toNat ≠ 255) : b = 255 := by
  have : b.toNat = 255 := by omega
  exact UInt8.toNat_inj.mp (by simpa using this)

/-- `read_variable_length` reads what `decLen` reads; it gives up cleanly only if the field runs past `ilimit` (or is cut) -/
theorem readVarLen_sim (src : Bytes) (ilimit : Int) : ∀ (fuel ip : Nat) (initial : Bool), src.size - ip < fuel →
    Sim (fun r => decLen (rem src ip) = some (r.1, rem src r.2) ∧ r.2 = ip + r.1 / 255 + 1 ∧ r.2 ≤ src.size)
        (∃ v rest, decLen (rem src ip) = some (v, rest) ∧ ((ip + v / 255 + 1 : Nat) : Int) ≤ ilimit)
        (readVarLen src ip ilimit initial fuel) := by
  intro fuel
  induction fuel with
  | zero => intro ip initial hf; omega
  | succ fuel ih =>
    intro ip initial hf
    unfold readVarLen
    by_cases h0 : initial = true ∧ (ip : Int) ≥ ilimit
    · rw [if_pos h0]
      apply Sim.bad
      rintro ⟨v, rest, _, hv⟩
      omega
    · rw [if_neg h0]
      by_cases hip : ip < src.size
      · rw [dif_pos hip]
        by_cases h1 : ((ip + 1 : Nat) : Int) > ilimit
        · rw [if_pos h1]
          apply Sim.bad
          rintro ⟨v, rest, _, hv⟩
          omega
        · rw [if_neg h1]
          have hrem := rem_cons src ip hip
          by_cases h255 : src[ip].toNat ≠ 255
          · rw [if_pos h255]
            apply Sim.ok
            dsimp only
            have hlt := src[ip].toNat_lt
            refine ⟨?_, by omega, by omega⟩
            rw [hrem]
            unfold decLen
            rw [if_neg (u8_ne_255 _ h255)]
          · rw [if_neg h255]
            have hb := u8_eq_255 _ h255
            have hih := ih (ip + 1) false (by omega)
            revert hih
            generalize readVarLen src (ip + 1) ilimit false fuel = r
            intro hih
            match r, hih with
            | .ok (l, ip''), hih =>
              simp only [Sim] at hih ⊢
              obtain ⟨h1, h2, h3⟩ := hih
              refine ⟨?_, by omega, h3⟩
              rw [hrem]
              unfold decLen
              rw [if_pos hb, h1]
              simp only [Option.some.injEq, Prod.mk.injEq, and_true]
              omega
            | .error (.bad _), hih =>
              simp only [Sim] at hih ⊢
              rintro ⟨v, rest, hv, hlim⟩
              apply hih
              rw [hrem] at hv
              unfold decLen at hv
              rw [if_pos hb] at hv
              cases hd : decLen (rem src (ip + 1)) with
              | none => rw [hd] at hv; cases hv
              | some w =>
                obtain ⟨v', r'⟩ := w
                rw [hd] at hv
                simp only [Option.some.injEq, Prod.mk.injEq] at hv
                refine ⟨v', r', rfl, ?_⟩
                omega
            | .error (.fault f), _ => trivial
            | .error .fuel, _ => trivial
      · rw [dif_neg hip]; trivial

/-- the literal-length field: `readField` of the token's high nibble -/
theorem litLen_sim (src : Bytes) (ip token : Nat) :
    Sim (fun r => readField (token / 16) (rem src ip) = some (r.1, rem src r.2) ∧ ip ≤ r.2 ∧ r.2 ≤ max ip src.size ∧
                  (token / 16 ≠ 15 → r = (token / 16, ip)) ∧ (token / 16 = 15 → 15 ≤ r.1 ∧ r.2 = ip + (r.1 - 15) / 255 + 1))
        (∃ v rest, readField (token / 16) (rem src ip) = some (v, rest) ∧ (v ≥ 15 → ip + (v - 15) / 255 + 1 + 15 ≤ src.size))
        (litLen src ip token) := by
  unfold litLen
  have hr : RUN_MASK = 15 := rfl
  rw [hr]
  by_cases h15 : token / 16 = 15
  · rw [if_pos h15]
    have hs := readVarLen_sim src ((src.size : Int) - (15 : Nat)) (src.size + 1) ip true (by omega)
    revert hs
    generalize readVarLen src ip ((src.size : Int) - (15 : Nat)) true (src.size + 1) = r
    intro hs
    match r, hs with
    | .ok (l, ip'), hs =>
      simp only [Sim] at hs ⊢
      obtain ⟨h1, h2, h3⟩ := hs
      refine ⟨?_, by omega, by omega, fun h => absurd h15 h, fun _ => ⟨by omega, by omega⟩⟩
      unfold readField
      rw [if_pos h15, h1]
    | .error (.bad _), hs =>
      simp only [Sim] at hs ⊢
      rintro ⟨v, rest, hv, hlim⟩
      apply hs
      unfold readField at hv
      rw [if_pos h15] at hv
      cases hd : decLen (rem src ip) with
      | none => rw [hd] at hv; cases hv
      | some w =>
        obtain ⟨v', r'⟩ := w
        rw [hd] at hv
        simp only [Option.some.injEq, Prod.mk.injEq] at hv
        refine ⟨v', r', rfl, ?_⟩
        have := hlim (by omega)
        have e : v - 15 = v' := by omega
        rw [e] at this
        omega
    | .error (.fault f), _ => trivial
    | .error .fuel, _ => trivial
  · rw [if_neg h15]
    apply Sim.ok
    dsimp only
    refine ⟨?_, by omega, by omega, fun _ => rfl, fun h => absurd h h15⟩
    unfold readField
    rw [if_neg h15]

/-- the match-length field: `readField` of the token's low nibble, plus MINMATCH -/
theorem matchLen_sim (src : Bytes) (ip token : Nat) :
    Sim (fun r => readField (token % 16) (rem src ip) = some (r.1 - 4, rem src r.2) ∧ 4 ≤ r.1 ∧ ip ≤ r.2 ∧ r.2 ≤ max ip src.size ∧
                  (token % 16 ≠ 15 → r = (token % 16 + 4, ip)) ∧ (token % 16 = 15 → 19 ≤ r.1 ∧ r.2 = ip + (r.1 - 19) / 255 + 1))
        (∃ v rest, readField (token % 16) (rem src ip) = some (v, rest) ∧ (v ≥ 15 → ip + (v - 15) / 255 + 1 + 4 ≤ src.size))
        (matchLen src ip token) := by
  unfold matchLen
  have hr : ML_MASK = 15 := rfl
  have hm : MINMATCH = 4 := rfl
  have hl : LASTLITERALS = 5 := rfl
  rw [hr, hm, hl]
  by_cases h15 : token % 16 = 15
  · rw [if_pos h15]
    have hs := readVarLen_sim src ((src.size : Int) - (5 : Nat) + 1) (src.size + 1) ip false (by omega)
    revert hs
    generalize readVarLen src ip ((src.size : Int) - (5 : Nat) + 1) false (src.size + 1) = r
    intro hs
    match r, hs with
    | .ok (l, ip'), hs =>
      simp only [Sim] at hs ⊢
      obtain ⟨h1, h2, h3⟩ := hs
      refine ⟨?_, by omega, by omega, by omega, fun h => absurd h15 h, fun _ => ⟨by omega, by omega⟩⟩
      unfold readField
      rw [if_pos h15, h1]
      simp only [Option.some.injEq, Prod.mk.injEq, and_true]
      omega
    | .error (.bad _), hs =>
      simp only [Sim] at hs ⊢
      rintro ⟨v, rest, hv, hlim⟩
      apply hs
      unfold readField at hv
      rw [if_pos h15] at hv
      cases hd : decLen (rem src ip) with
      | none => rw [hd] at hv; cases hv
      | some w =>
        obtain ⟨v', r'⟩ := w
        rw [hd] at hv
        simp only [Option.some.injEq, Prod.mk.injEq] at hv
        refine ⟨v', r', rfl, ?_⟩
        have := hlim (by omega)
        have e : v - 15 = v' := by omega
        rw [e] at this
        omega
    | .error (.fault f), _ => trivial
    | .error .fuel, _ => trivial
  · rw [if_neg h15]
    apply Sim.ok
    dsimp only
    refine ⟨?_, by omega, by omega, by omega, fun _ => rfl, fun h => absurd h h15⟩
    unfold readField
    rw [if_neg h15]
    simp

end LZ4V.Model.Decode
