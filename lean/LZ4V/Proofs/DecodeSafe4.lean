import LZ4V.Proofs.DecodeSafe3
/-!
# Memory safety of the decoder model, part 4: `LZ4_decompress_generic` as a whole
-/
namespace LZ4V.Model.Decode
open LZ4V.Model LZ4V.Gen

/-- `LZ4_decompress_generic` never faults, never runs out of fuel, keeps the buffer size, and returns at most the capacity -/
theorem generic_good (env : Env) (buf : Bytes) (hw : WF env buf.size) :
    Good (fun r => r.buf.size = buf.size ∧ r.ret ≤ ((buf.size - env.dst0 : Nat) : Int)) (generic env buf) := by
  unfold generic
  have h64 := c_FSD
  have hd := hw.dst0_le
  simp only []
  split
  · split
    · exact Good.ok ⟨rfl, by dsimp only; omega⟩
    · split <;> exact Good.ok ⟨rfl, by dsimp only; omega⟩
  · rename_i hcap
    split
    · exact Good.ok ⟨rfl, by dsimp only; omega⟩
    · rename_i hsrc
      have hinv : LoopInv env buf.size
          (if env.fastLoop ∧ ¬ (buf.size - env.dst0 < FASTLOOP_SAFE_DISTANCE) then Next.fast ⟨0, env.dst0, buf⟩ else Next.safe ⟨0, env.dst0, buf⟩) := by
        split
        · simp only [LoopInv, true_and]; omega
        · simp only [LoopInv, true_and]; omega
      have hfu : (∃ s, (if env.fastLoop ∧ ¬ (buf.size - env.dst0 < FASTLOOP_SAFE_DISTANCE) then Next.fast ⟨0, env.dst0, buf⟩ else Next.safe ⟨0, env.dst0, buf⟩) = .done s) ∨
          env.src.size - nextIp (if env.fastLoop ∧ ¬ (buf.size - env.dst0 < FASTLOOP_SAFE_DISTANCE) then Next.fast ⟨0, env.dst0, buf⟩ else Next.safe ⟨0, env.dst0, buf⟩) < env.src.size + 2 := by
        right; split <;> simp only [nextIp] <;> omega
      have hg := loop_good env buf.size hw (env.src.size + 2) _ hinv hfu (by omega)
      revert hg
      generalize loop env (env.src.size + 2) _ = r
      intro hg
      match r, hg with
      | .ok st, hg =>
        simp only [Good] at hg
        exact Good.ok ⟨hg.1, by dsimp only; omega⟩
      | .error (.bad ip), _ => exact Good.ok ⟨rfl, by dsimp only; omega⟩
      | .error (.fault f), hg => simp [Good] at hg
      | .error .fuel, hg => simp [Good] at hg

/-- the call always returns (a size or a negative error code): no fault, no fuel exhaustion, no clean-error escape -/
theorem generic_total (env : Env) (buf : Bytes) (hw : WF env buf.size) :
    ∃ r, generic env buf = .ok r ∧ r.buf.size = buf.size ∧ r.ret ≤ ((buf.size - env.dst0 : Nat) : Int) := by
  have hg := generic_good env buf hw
  have hnb : ∀ ip, generic env buf ≠ .error (.bad ip) := by
    intro ip h
    unfold generic at h
    simp only [] at h
    split at h
    · split at h
      · cases h
      · split at h <;> cases h
    · split at h
      · cases h
      · generalize loop env (env.src.size + 2) _ = r at h
        match r, h with
        | .ok st, h => cases h
        | .error (.bad _), h => cases h
        | .error (.fault f), h => cases h
        | .error .fuel, h => cases h
  revert hg hnb
  generalize generic env buf = r
  intro hg hnb
  match r, hg with
  | .ok r, hg => exact ⟨r, rfl, hg⟩
  | .error (.bad ip), _ => exact absurd rfl (hnb ip)
  | .error (.fault f), hg => simp [Good] at hg
  | .error .fuel, hg => simp [Good] at hg

end LZ4V.Model.Decode
