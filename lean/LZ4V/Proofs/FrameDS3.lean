import LZ4V.Proofs.FrameDS2
/-!
# The dStage machine computes the frame specification — part 3: the block stages
-/
namespace LZ4V.Model.FrameDS
open LZ4V.Spec.FrameL
open LZ4V.Spec.Frame (Bad Header isSkippableMagic)

theorem KB_zero (E : Env) (c : Ctx) (content s : Bytes) : ∀ x, KB E 0 c content s ≠ .ok x := by
  intro x hx
  unfold KB Parser.bind pBlocks at hx
  simp [Parser.fail] at hx

/-- the fields the remaining parser depends on -/
structure SameHdr (c c' : Ctx) : Prop where
  linked : c'.linked = c.linked
  bc : c'.blockChecksum = c.blockChecksum
  cc : c'.contentChecksum = c.contentChecksum
  cs : c'.contentSize = c.contentSize
  mb : c'.maxBlockSize = c.maxBlockSize
  dict : c'.dict = c.dict

theorem KB_same (E : Env) (f : Nat) (c c' : Ctx) (h : SameHdr c c') (x : Bytes) : KB E f c' x = KB E f c x := by
  unfold KB hdrOf
  rw [h.linked, h.bc, h.cc, h.cs, h.mb, h.dict]

theorem K_copyDirect (E : Env) (f : Nat) (c c' : Ctx) (n : Nat) (t : Bytes) (h : SameHdr c c') (hst : c'.stage = .copyDirect)
    (htg : c'.tmpInTarget = n) (hct : c'.content = c.content) (hbh : c.blockChecksum = true → c'.blockHashed = []) :
    specRaw E f c n t = K E f c' (stg c' ++ t) := by
  unfold K stg
  rw [hst]
  dsimp only
  unfold specRaw KRaw crcN
  rw [htg, h.bc, hct, List.nil_append]
  congr 1
  funext payload
  congr 1
  funext crc
  rw [KB_same E f c c' h]
  by_cases hb : c.blockChecksum = true
  · rw [hbh hb, List.nil_append]
  · have hb' : c.blockChecksum = false := by cases hh : c.blockChecksum <;> simp_all
    simp [hb']

theorem K_getCBlock (E : Env) (f : Nat) (c c' : Ctx) (n : Nat) (t : Bytes) (h : SameHdr c c') (hst : c'.stage = .getCBlock)
    (htg : c'.tmpInTarget = n + crcN c) (hct : c'.content = c.content) :
    okEq (specComp E f c n t) (K E f c' (stg c' ++ t)) := by
  unfold K stg
  rw [hst]
  dsimp only
  rw [List.nil_append]
  have h1 : specComp E f c n t = specComp E f c' n t := by
    unfold specComp crcN history
    rw [h.bc, h.linked, h.dict, hct, h.mb]
    congr 1
    funext payload
    congr 1
    funext crc
    split
    · rfl
    · cases E.dec (if c.linked = true then window c.dict c.content else window c.dict []) payload c.maxBlockSize with
      | none => rfl
      | some d => dsimp only; rw [KB_same E f c c' h]
  rw [h1]
  exact KC_specComp E f c' n t (by rw [htg]; unfold crcN; rw [h.bc])

theorem decodeBlockHeader_spec (E : Env) (k : Call) (sel dl : Bytes) (hsel : sel.length = 4) (ib : IB k.c) (hdl : dl = k.c.content) :
    SubOK E (fun f s => KB E f k.c k.c.content (sel ++ s)) k dl (decodeBlockHeader k sel) := by
  unfold decodeBlockHeader
  dsimp only
  rw [List.take_of_length_le (by omega)]
  by_cases h0 : le sel = 0
  · rw [if_pos h0]
    refine ⟨[], [], 1, by omega, by simp, by simp, by simp, ?_, ?_, ?_⟩
    · exact Inv.ofIB _ ⟨ib.noskip, ib.rem, ib.hash⟩ rfl (fun h => by cases h) (fun h => by cases h) (fun h => by cases h)
        (fun h => by rcases h with h | h <;> cases h) (fun h => by cases h) (fun h => by cases h)
    · unfold Out; simp [inBlocks, pending, hdl]
    · intro f t
      apply okEq.of_eq
      dsimp only
      rw [List.nil_append, KB_succ E f k.c sel t hsel, if_pos h0]
      rfl
  · rw [if_neg h0]
    by_cases h1 : le sel % 0x80000000 > k.c.maxBlockSize
    · rw [if_pos h1]
      intro f t x
      dsimp only
      cases f with
      | zero => exact KB_zero E _ _ _ x
      | succ f =>
        rw [KB_succ E f k.c sel _ hsel, if_neg h0, if_pos h1]
        intro hx; cases hx
    · rw [if_neg h1]
      by_cases h2 : le sel ≥ 0x80000000
      · rw [if_pos h2]
        refine ⟨[], [], 1, by omega, by simp, by simp, by simp, ?_, ?_, ?_⟩
        · exact Inv.ofIB _ ⟨ib.noskip, ib.rem, ib.hash⟩ rfl (fun h => by cases h) (fun h => by cases h) (fun h => by cases h)
            (fun h => by rcases h with h | h <;> cases h) (fun h => by cases h) (fun h => by cases h)
        · unfold Out; simp [inBlocks, pending, hdl]
        · intro f t
          apply okEq.of_eq
          dsimp only
          rw [List.nil_append, KB_succ E f k.c sel t hsel, if_neg h0, if_neg h1, if_pos h2]
          exact K_copyDirect E f k.c _ _ t ⟨rfl, rfl, rfl, rfl, rfl, rfl⟩ rfl rfl rfl (by intro hb; dsimp only; rw [if_pos hb])
      · rw [if_neg h2]
        have hinv : ∀ c' : Ctx, c' = { k.c with tmpInTarget := le sel % 0x80000000 + (if k.c.blockChecksum then LZ4V.Gen.BFSize else 0), stage := Stage.getCBlock } → Inv c' := by
          intro c' hc'
          subst hc'
          exact Inv.ofIB _ ⟨ib.noskip, ib.rem, ib.hash⟩ rfl (fun h => by cases h) (fun h => by cases h) (fun h => by cases h)
            (fun _ hb => by dsimp only at hb ⊢; rw [if_pos hb]; show 4 ≤ _ + 4; omega) (fun h => by cases h) (fun h => by cases h)
        have hrel : ∀ f t, okEq (KB E (f + 1) k.c k.c.content (sel ++ ([] ++ t)))
            (K E f { k.c with tmpInTarget := le sel % 0x80000000 + (if k.c.blockChecksum then LZ4V.Gen.BFSize else 0), stage := Stage.getCBlock }
              (stg { k.c with tmpInTarget := le sel % 0x80000000 + (if k.c.blockChecksum then LZ4V.Gen.BFSize else 0), stage := Stage.getCBlock } ++ t)) := by
          intro f t
          rw [List.nil_append, KB_succ E f k.c sel t hsel, if_neg h0, if_neg h1, if_neg h2]
          exact K_getCBlock E f k.c _ _ t ⟨rfl, rfl, rfl, rfl, rfl, rfl⟩ rfl (by unfold crcN; rfl) rfl
        have hout : Out { k.c with tmpInTarget := le sel % 0x80000000 + (if k.c.blockChecksum then LZ4V.Gen.BFSize else 0), stage := Stage.getCBlock } (dl ++ []) := by
          unfold Out; simp [inBlocks, pending, hdl]
        split
        · exact ⟨[], [], by simp, by simp, by simp, Or.inr ⟨by unfold LZ4V.Gen.BHSize; omega, 1, by omega, hinv _ rfl, hout, hrel⟩⟩
        · exact ⟨[], [], 1, by omega, by simp, by simp, by simp, hinv _ rfl, hout, hrel⟩


theorem sStoreBlockHeader_spec (E : Env) (k : Call) (dl : Bytes) (ib : IB k.c) (hs : k.c.stage = .storeBlockHeader) (hst : k.c.staged.length ≤ 4) (hdl : dl = k.c.content) :
    SubOK E (fun f s => KB E f k.c k.c.content (k.c.staged ++ s)) k dl (sStoreBlockHeader k) := by
  unfold sStoreBlockHeader
  dsimp only
  have hB : LZ4V.Gen.BHSize = 4 := rfl
  rw [hB]
  have hlen : (k.c.staged ++ List.take (min (4 - k.c.staged.length) k.src.length) k.src).length = k.c.staged.length + min (4 - k.c.staged.length) k.src.length := by
    rw [List.length_append, List.length_take]; omega
  by_cases hlt : (k.c.staged ++ List.take (min (4 - k.c.staged.length) k.src.length) k.src).length < 4
  · rw [if_pos hlt]
    refine ⟨List.take (min (4 - k.c.staged.length) k.src.length) k.src, [], (List.take_append_drop _ _).symm, by simp, by simp, Or.inr ⟨by omega, 0, by omega, ?_, ?_, ?_⟩⟩
    · exact Inv.ofIB _ ⟨ib.noskip, ib.rem, ib.hash⟩ (by dsimp only; rw [hs]; rfl) (fun _ => by dsimp only; omega) (fun h => by simp [hs] at h) (fun h => by simp [hs] at h)
        (fun h => by simp [hs] at h) (fun h => by simp [hs] at h) (fun h => by simp [hs] at h)
    · unfold Out; simp [inBlocks, pending, hdl, hs]
    · intro f t
      apply okEq.of_eq
      simp only [K, stg, hs, Nat.add_zero, List.append_assoc]
      rfl
  · rw [if_neg hlt]
    refine SubOK.consume E _ (fun f s => KB E f k.c k.c.content ((k.c.staged ++ List.take (min (4 - k.c.staged.length) k.src.length) k.src) ++ s)) k
      { k with c := { k.c with staged := k.c.staged ++ List.take (min (4 - k.c.staged.length) k.src.length) k.src }, src := List.drop (min (4 - k.c.staged.length) k.src.length) k.src } dl _
      (List.take (min (4 - k.c.staged.length) k.src.length) k.src) (fun f s => by apply okEq.of_eq; simp only [List.append_assoc]) (List.take_append_drop _ _).symm rfl rfl ?_
    exact decodeBlockHeader_spec E _ _ dl (by omega) ⟨ib.noskip, ib.rem, ib.hash⟩ hdl

theorem sGetBlockHeader_spec (E : Env) (k : Call) (dl : Bytes) (ib : IB k.c) (hdl : dl = k.c.content) :
    SubOK E (fun f s => KB E f k.c k.c.content s) k dl (sGetBlockHeader k) := by
  unfold sGetBlockHeader
  have hB : LZ4V.Gen.BHSize = 4 := rfl
  rw [hB]
  by_cases h4 : k.src.length ≥ 4
  · rw [if_pos h4]
    refine SubOK.consume E _ (fun f s => KB E f k.c k.c.content (k.src.take 4 ++ s)) k { k with src := k.src.drop 4 } dl _ (k.src.take 4) (fun f s => okEq.rfl' _) (List.take_append_drop _ _).symm rfl rfl ?_
    exact decodeBlockHeader_spec E _ _ dl (by rw [List.length_take]; omega) ib hdl
  · rw [if_neg h4]
    refine SubOK.consume E _ (fun f s => KB E f k.c k.c.content s) k { k with c := { k.c with staged := [], stage := .storeBlockHeader } } dl _ [] (fun f s => okEq.rfl' _) (by simp) rfl rfl ?_
    have := sStoreBlockHeader_spec E { k with c := { k.c with staged := [], stage := .storeBlockHeader } } dl ⟨ib.noskip, ib.rem, ib.hash⟩ rfl (by simp) hdl
    exact this

theorem sInit_spec (E : Env) (k : Call) (hn : k.c.skipChecksum = false) (hr : k.c.frameRemaining = (k.c.contentSize : Int)) :
    SubOK E (fun f s => KB E f k.c [] s) k [] (sInit k) := by
  unfold sInit
  dsimp only
  -- the context handed to `sGetBlockHeader`, whatever the two allocation / checksum-reset decisions
  generalize hc1 : (if k.c.contentChecksum = true then { k.c with hashed := [] } else k.c) = c1
  have f1 : SameHdr k.c c1 ∧ c1.skipChecksum = false ∧ c1.frameRemaining = (c1.contentSize : Int) ∧ (c1.contentChecksum = true → c1.hashed = []) := by
    subst hc1
    by_cases h : k.c.contentChecksum = true
    · rw [if_pos h]; exact ⟨⟨rfl, rfl, rfl, rfl, rfl, rfl⟩, hn, hr, fun _ => rfl⟩
    · rw [if_neg h]; exact ⟨⟨rfl, rfl, rfl, rfl, rfl, rfl⟩, hn, hr, fun h' => absurd h' h⟩
  generalize hc2 : (if c1.maxBlockSize + (if c1.linked = true then 131072 else 0) > c1.maxBufferSize then
      { c1 with tmpInCap := c1.maxBlockSize + LZ4V.Gen.BFSize, maxBufferSize := c1.maxBlockSize + (if c1.linked = true then 131072 else 0) } else c1) = c2
  have f2 : SameHdr c1 c2 ∧ c2.skipChecksum = false ∧ c2.frameRemaining = (c2.contentSize : Int) ∧ (c2.contentChecksum = true → c2.hashed = []) := by
    subst hc2
    by_cases hb : c1.maxBlockSize + (if c1.linked = true then 131072 else 0) > c1.maxBufferSize
    · rw [if_pos hb]; exact ⟨⟨rfl, rfl, rfl, rfl, rfl, rfl⟩, f1.2.1, f1.2.2.1, f1.2.2.2⟩
    · rw [if_neg hb]; exact ⟨⟨rfl, rfl, rfl, rfl, rfl, rfl⟩, f1.2.1, f1.2.2.1, f1.2.2.2⟩
  obtain ⟨s1, _, _, _⟩ := f1
  obtain ⟨s2, n2, r2, h2⟩ := f2
  have hs : SameHdr k.c { c2 with staged := [], tmpInTarget := 0, tmpOut := [], tmpOutStart := 0, content := [], stage := Stage.getBlockHeader } :=
    ⟨s2.linked.trans s1.linked, s2.bc.trans s1.bc, s2.cc.trans s1.cc, s2.cs.trans s1.cs, s2.mb.trans s1.mb, s2.dict.trans s1.dict⟩
  refine SubOK.consume E _ (fun f s => KB E f { c2 with staged := [], tmpInTarget := 0, tmpOut := [], tmpOutStart := 0, content := [], stage := Stage.getBlockHeader } [] s) k
    { k with c := { c2 with staged := [], tmpInTarget := 0, tmpOut := [], tmpOutStart := 0, content := [], stage := Stage.getBlockHeader } } [] _ []
    (fun f s => okEq.of_eq (by rw [List.nil_append, KB_same E f k.c _ hs])) (by simp) rfl rfl ?_
  refine sGetBlockHeader_spec E _ [] ⟨n2, ?_, fun hcc => h2 hcc⟩ rfl
  dsimp only
  rw [r2]
  split <;> simp_all


theorem IB.append (c c' : Ctx) (data : Bytes) (ib : IB c) (h1 : c'.skipChecksum = c.skipChecksum) (h2 : c'.contentSize = c.contentSize)
    (h3 : c'.contentChecksum = c.contentChecksum) (h4 : c'.content = c.content ++ data)
    (h5 : c'.frameRemaining = if c.contentSize ≠ 0 then c.frameRemaining - (data.length : Int) else c.frameRemaining)
    (h6 : c'.hashed = if c.contentChecksum = true then c.hashed ++ data else c.hashed) : IB c' := by
  refine ⟨by rw [h1]; exact ib.noskip, ?_, ?_⟩
  · rw [h5, h2, h4, ib.rem, List.length_append]
    by_cases hz : c.contentSize = 0
    · simp [hz]
    · simp only [ne_eq, hz, not_false_eq_true, if_true]; push_cast; omega
  · intro hcc
    rw [h3] at hcc
    rw [h6, if_pos hcc, h4, ib.hash hcc]

/-! `K` at a context of a given stage, expressed with the header fields of another context that has the same ones -/
theorem K_getBlockHeader (E : Env) (f : Nat) (c c' : Ctx) (t : Bytes) (h : SameHdr c c') (hst : c'.stage = .getBlockHeader) :
    K E f c' (stg c' ++ t) = KB E f c c'.content t := by
  unfold K stg; rw [hst]; dsimp only; rw [List.nil_append, KB_same E f c c' h]

theorem K_storeBlockHeader (E : Env) (f : Nat) (c c' : Ctx) (t : Bytes) (h : SameHdr c c') (hst : c'.stage = .storeBlockHeader) :
    K E f c' (stg c' ++ t) = KB E f c c'.content (c'.staged ++ t) := by
  unfold K stg; rw [hst]; dsimp only; rw [KB_same E f c c' h]

theorem K_flushOut (E : Env) (f : Nat) (c c' : Ctx) (t : Bytes) (h : SameHdr c c') (hst : c'.stage = .flushOut) :
    K E f c' (stg c' ++ t) = KB E f c c'.content t := by
  unfold K stg; rw [hst]; dsimp only; rw [List.nil_append, KB_same E f c c' h]

theorem K_getBlockChecksum (E : Env) (f : Nat) (c c' : Ctx) (t : Bytes) (h : SameHdr c c') (hst : c'.stage = .getBlockChecksum) :
    K E f c' (stg c' ++ t) = ((takeN 4).bind fun crc => if E.hash c'.blockHashed ≠ le crc then Parser.fail .blockChecksum else KB E f c c'.content) (c'.staged ++ t) := by
  unfold K stg; rw [hst]; dsimp only; unfold KCrc
  congr 1; funext crc; rw [KB_same E f c c' h]

theorem K_copyDirect' (E : Env) (f : Nat) (c c' : Ctx) (t : Bytes) (h : SameHdr c c') (hst : c'.stage = .copyDirect) :
    K E f c' (stg c' ++ t) = ((takeN c'.tmpInTarget).bind fun rest => (takeN (if c.blockChecksum then 4 else 0)).bind fun crc =>
      if c.blockChecksum ∧ E.hash (c'.blockHashed ++ rest) ≠ le crc then Parser.fail .blockChecksum else KB E f c (c'.content ++ rest)) t := by
  unfold K stg; rw [hst]; dsimp only; unfold KRaw
  rw [List.nil_append, h.bc]
  congr 1; funext rest; congr 1; funext crc; rw [KB_same E f c c' h]

theorem K_getSuffix (E : Env) (f : Nat) (c c' : Ctx) (t : Bytes) (h : SameHdr c c') (hst : c'.stage = .getSuffix) :
    K E f c' (stg c' ++ t) = pSuffixZ E c.contentChecksum c.contentSize c'.content t := by
  unfold K stg; rw [hst]; dsimp only; rw [List.nil_append, h.cc, h.cs]

theorem K_storeSuffix (E : Env) (f : Nat) (c' : Ctx) (t : Bytes) (hst : c'.stage = .storeSuffix) :
    K E f c' (stg c' ++ t) = KSufCrc E c' (c'.staged ++ t) := by
  unfold K stg; rw [hst]

theorem K_storeCBlock (E : Env) (f : Nat) (c' : Ctx) (t : Bytes) (hst : c'.stage = .storeCBlock) :
    K E f c' (stg c' ++ t) = KC E f c' (c'.staged ++ t) := by
  unfold K stg; rw [hst]

theorem K_getCBlock' (E : Env) (f : Nat) (c' : Ctx) (t : Bytes) (hst : c'.stage = .getCBlock) :
    K E f c' (stg c' ++ t) = KC E f c' t := by
  unfold K stg; rw [hst]; rfl

theorem bc_false {c : Ctx} (hb : ¬ c.blockChecksum = true) : c.blockChecksum = false := by cases hh : c.blockChecksum <;> simp_all

theorem sCopyDirect_spec (E : Env) (k : Call) (dl : Bytes) (ib : IB k.c) (hs : k.c.stage = .copyDirect) (hdl : dl = k.c.content) :
    SubOK E (fun f s => KRaw E f k.c s) k dl (sCopyDirect k) := by
  unfold sCopyDirect
  have e1 : (!k.c.skipChecksum && k.c.blockChecksum) = k.c.blockChecksum := by rw [ib.noskip]; rfl
  have e2 : (!k.c.skipChecksum && k.c.contentChecksum) = k.c.contentChecksum := by rw [ib.noskip]; rfl
  dsimp only
  rw [e1, e2]
  generalize hn : min k.c.tmpInTarget (min k.src.length k.room) = n
  have hdata : (List.take n k.src).length = n := by rw [List.length_take]; omega
  have hsplit : k.src = List.take n k.src ++ List.drop n k.src := (List.take_append_drop _ _).symm
  have hroom : k.room - n + (List.take n k.src).length = k.room := by rw [hdata]; omega
  by_cases heq : n = k.c.tmpInTarget
  · rw [if_pos heq]
    by_cases hb : k.c.blockChecksum = true
    · rw [if_pos hb]
      refine ⟨List.take n k.src, List.take n k.src, 0, by omega, hsplit, rfl, hroom, ?_, ?_, ?_⟩
      · refine Inv.ofIB _ (IB.append k.c _ (List.take n k.src) ib rfl rfl rfl rfl (by dsimp only; rw [hdata]) rfl) rfl (fun h => by cases h)
          (fun _ => ⟨by simp, hb⟩) (fun h => by cases h) (fun h => by rcases h with h | h <;> cases h) (fun h => by cases h) (fun h => by cases h)
      · unfold Out; simp [inBlocks, pending, hdl]
      · intro f t
        apply okEq.of_eq
        dsimp only
        rw [K_getBlockChecksum E f k.c _ t]
        case h => exact ⟨rfl, rfl, rfl, rfl, rfl, rfl⟩
        case hst => rfl
        dsimp only
        unfold KRaw
        rw [Nat.add_zero, takeN_bind_app _ _ _ _ (by rw [hdata, heq]), List.nil_append]
        simp only [hb, if_true, true_and]
    · rw [if_neg hb]
      refine ⟨List.take n k.src, List.take n k.src, 0, by omega, hsplit, rfl, hroom, ?_, ?_, ?_⟩
      · refine Inv.ofIB _ (IB.append k.c _ (List.take n k.src) ib rfl rfl rfl rfl (by dsimp only; rw [hdata]) rfl) rfl (fun h => by cases h)
          (fun h => by cases h) (fun h => by cases h) (fun h => by rcases h with h | h <;> cases h) (fun h => by cases h) (fun h => by cases h)
      · unfold Out; simp [inBlocks, pending, hdl]
      · intro f t
        apply okEq.of_eq
        dsimp only
        rw [K_getBlockHeader E f k.c _ t]
        case h => exact ⟨rfl, rfl, rfl, rfl, rfl, rfl⟩
        case hst => rfl
        dsimp only
        unfold KRaw
        rw [Nat.add_zero, takeN_bind_app _ _ _ _ (by rw [hdata, heq])]
        have hb' := bc_false hb
        simp only [hb', Bool.false_eq_true, if_false, false_and]
        rw [takeN_bind_zero]
  · rw [if_neg heq]
    have hlt : n < k.c.tmpInTarget := by omega
    refine ⟨List.take n k.src, List.take n k.src, hsplit, rfl, hroom, Or.inr ⟨by unfold LZ4V.Gen.BHSize; omega, 0, by omega, ?_, ?_, ?_⟩⟩
    · refine Inv.ofIB _ (IB.append k.c _ (List.take n k.src) ib rfl rfl rfl rfl (by dsimp only; rw [hdata]) rfl) (by dsimp only; rw [hs]; rfl) (fun h => by simp [hs] at h)
        (fun h => by simp [hs] at h) (fun h => by simp [hs] at h) (fun h => by simp [hs] at h) (fun h => by simp [hs] at h) (fun h => by simp [hs] at h)
    · unfold Out; simp [inBlocks, pending, hdl, hs]
    · intro f t
      apply okEq.of_eq
      dsimp only
      rw [K_copyDirect' E f k.c _ t]
      case h => exact ⟨rfl, rfl, rfl, rfl, rfl, rfl⟩
      case hst => exact hs
      dsimp only
      unfold KRaw
      have htg : k.c.tmpInTarget = n + (k.c.tmpInTarget - n) := by omega
      rw [Nat.add_zero, htg, takeN_split, takeN_bind_app n _ _ _ hdata]
      have : n + (k.c.tmpInTarget - n) - n = k.c.tmpInTarget - n := by omega
      rw [this]
      congr 1
      funext rest
      congr 1
      funext crc
      by_cases hb : k.c.blockChecksum = true
      · simp only [hb, if_true, List.append_assoc]
      · have hb' := bc_false hb
        simp only [hb', Bool.false_eq_true, false_and, if_false, List.append_assoc]

theorem checkBlockCrc_spec (E : Env) (k : Call) (sel dl : Bytes) (hsel : sel.length = 4) (ib : IB k.c) (hdl : dl = k.c.content) :
    SubOK E (fun f s => (if E.hash k.c.blockHashed ≠ le sel then Parser.fail .blockChecksum else KB E f k.c k.c.content) s) k dl (checkBlockCrc E k sel) := by
  unfold checkBlockCrc
  rw [List.take_of_length_le (by omega), ib.noskip]
  by_cases hc : le sel ≠ E.hash k.c.blockHashed
  · rw [if_pos ⟨rfl, hc⟩]
    intro f t x
    dsimp only
    rw [if_pos (fun h => hc h.symm)]
    intro hx; cases hx
  · rw [if_neg (fun h => hc h.2)]
    refine ⟨[], [], 0, by omega, by simp, by simp, by simp, ?_, ?_, ?_⟩
    · exact Inv.ofIB _ ⟨ib.noskip, ib.rem, ib.hash⟩ rfl (fun h => by cases h) (fun h => by cases h) (fun h => by cases h)
        (fun h => by rcases h with h | h <;> cases h) (fun h => by cases h) (fun h => by cases h)
    · unfold Out; simp [inBlocks, pending, hdl]
    · intro f t
      apply okEq.of_eq
      dsimp only
      rw [K_getBlockHeader E f k.c _ t]
      case h => exact ⟨rfl, rfl, rfl, rfl, rfl, rfl⟩
      case hst => rfl
      have : ¬ E.hash k.c.blockHashed ≠ le sel := fun h => hc (fun h' => h h'.symm)
      rw [if_neg this, List.nil_append]
      rfl

theorem sGetBlockChecksum_spec (E : Env) (k : Call) (dl : Bytes) (ib : IB k.c) (hs : k.c.stage = .getBlockChecksum) (hst : k.c.staged.length ≤ 4)
    (hbc : k.c.blockChecksum = true) (hdl : dl = k.c.content) :
    SubOK E (fun f s => KCrc E f k.c (k.c.staged ++ s)) k dl (sGetBlockChecksum E k) := by
  unfold sGetBlockChecksum
  by_cases h4 : k.src.length ≥ 4 ∧ k.c.staged.length = 0
  · rw [if_pos h4]
    have hnil : k.c.staged = [] := List.eq_nil_of_length_eq_zero h4.2
    refine SubOK.consume E _ (fun f s => (if E.hash k.c.blockHashed ≠ le (k.src.take 4) then Parser.fail .blockChecksum else KB E f k.c k.c.content) s) k
      { k with src := k.src.drop 4 } dl _ (k.src.take 4) ?_ (List.take_append_drop _ _).symm rfl rfl ?_
    · intro f s
      apply okEq.of_eq
      unfold KCrc
      rw [hnil, List.nil_append, takeN_bind_app 4 _ _ _ (by rw [List.length_take]; omega)]
    · exact checkBlockCrc_spec E _ _ dl (by rw [List.length_take]; omega) ib hdl
  · rw [if_neg h4]
    dsimp only
    have hlen : (k.c.staged ++ List.take (min (4 - k.c.staged.length) k.src.length) k.src).length = k.c.staged.length + min (4 - k.c.staged.length) k.src.length := by
      rw [List.length_append, List.length_take]; omega
    by_cases hlt : (k.c.staged ++ List.take (min (4 - k.c.staged.length) k.src.length) k.src).length < 4
    · rw [if_pos hlt]
      refine ⟨List.take (min (4 - k.c.staged.length) k.src.length) k.src, [], (List.take_append_drop _ _).symm, by simp, by simp, Or.inr ⟨by omega, 0, by omega, ?_, ?_, ?_⟩⟩
      · exact Inv.ofIB _ ⟨ib.noskip, ib.rem, ib.hash⟩ (by dsimp only; rw [hs]; rfl) (fun h => by simp [hs] at h) (fun _ => ⟨by dsimp only; omega, hbc⟩) (fun h => by simp [hs] at h)
          (fun h => by simp [hs] at h) (fun h => by simp [hs] at h) (fun h => by simp [hs] at h)
      · unfold Out; simp [inBlocks, pending, hdl, hs]
      · intro f t
        apply okEq.of_eq
        dsimp only
        rw [K_getBlockChecksum E f k.c _ t]
        case h => exact ⟨rfl, rfl, rfl, rfl, rfl, rfl⟩
        case hst => exact hs
        dsimp only
        unfold KCrc
        rw [Nat.add_zero, List.append_assoc]
    · rw [if_neg hlt]
      refine SubOK.consume E _ (fun f s => (if E.hash k.c.blockHashed ≠ le (k.c.staged ++ List.take (min (4 - k.c.staged.length) k.src.length) k.src) then Parser.fail .blockChecksum else KB E f k.c k.c.content) s) k
        { k with c := { k.c with staged := k.c.staged ++ List.take (min (4 - k.c.staged.length) k.src.length) k.src }, src := List.drop (min (4 - k.c.staged.length) k.src.length) k.src } dl _
        (List.take (min (4 - k.c.staged.length) k.src.length) k.src) ?_ (List.take_append_drop _ _).symm rfl rfl ?_
      · intro f s
        apply okEq.of_eq
        unfold KCrc
        rw [← List.append_assoc, takeN_bind_app 4 _ _ _ (by omega)]
      · exact checkBlockCrc_spec E _ _ dl (by omega) ⟨ib.noskip, ib.rem, ib.hash⟩ hdl

theorem sFlushOut_spec (E : Env) (k : Call) (dl : Bytes) (ib : IB k.c) (hs : k.c.stage = .flushOut) (hst : k.c.tmpOutStart ≤ k.c.tmpOut.length)
    (hpre : ∃ pre, k.c.content = pre ++ k.c.tmpOut) (hdl : dl ++ k.c.tmpOut.drop k.c.tmpOutStart = k.c.content) :
    SubOK E (fun f s => KB E f k.c k.c.content s) k dl (sFlushOut k) := by
  unfold sFlushOut
  dsimp only
  generalize hn : min (k.c.tmpOut.length - k.c.tmpOutStart) k.room = n
  have hol : ((k.c.tmpOut.drop k.c.tmpOutStart).take n).length = n := by rw [List.length_take, List.length_drop]; omega
  by_cases hall : k.c.tmpOutStart + n = k.c.tmpOut.length
  · rw [if_pos hall]
    refine ⟨[], (k.c.tmpOut.drop k.c.tmpOutStart).take n, 0, by omega, by simp, rfl, by rw [hol]; show k.room - n + n = k.room; omega, ?_, ?_, ?_⟩
    · exact Inv.ofIB _ ⟨ib.noskip, ib.rem, ib.hash⟩ rfl (fun h => by cases h) (fun h => by cases h) (fun h => by cases h)
        (fun h => by rcases h with h | h <;> cases h) (fun h => by cases h) (fun h => by cases h)
    · unfold Out
      simp only [inBlocks, pending, if_true, List.append_nil]
      rw [List.take_of_length_le (by rw [List.length_drop]; omega)]
      exact hdl
    · intro f t
      apply okEq.of_eq
      dsimp only
      rw [K_getBlockHeader E f k.c _ t]
      case h => exact ⟨rfl, rfl, rfl, rfl, rfl, rfl⟩
      case hst => rfl
      rw [Nat.add_zero, List.nil_append]
  · rw [if_neg hall]
    refine ⟨[], (k.c.tmpOut.drop k.c.tmpOutStart).take n, by simp, rfl, by rw [hol]; show k.room - n + n = k.room; omega, Or.inr ⟨by unfold LZ4V.Gen.BHSize; omega, 0, by omega, ?_, ?_, ?_⟩⟩
    · exact Inv.ofIB _ ⟨ib.noskip, ib.rem, ib.hash⟩ (by dsimp only; rw [hs]; rfl) (fun h => by simp [hs] at h) (fun h => by simp [hs] at h) (fun h => by simp [hs] at h)
        (fun h => by simp [hs] at h) (fun h => by simp [hs] at h) (fun _ => ⟨by dsimp only; omega, hpre⟩)
    · unfold Out
      simp only [inBlocks, pending, hs, if_true]
      rw [List.append_assoc, ← List.drop_drop, List.take_append_drop]
      exact hdl
    · intro f t
      apply okEq.of_eq
      dsimp only
      rw [K_flushOut E f k.c _ t]
      case h => exact ⟨rfl, rfl, rfl, rfl, rfl, rfl⟩
      case hst => exact hs
      rw [Nat.add_zero, List.nil_append]

/-- the block decoder never returns more than the capacity it was given -/
def DecBounded (E : Env) : Prop := ∀ h p cap d, E.dec h p cap = some d → d.length ≤ cap

theorem KC_app (E : Env) (f : Nat) (c : Ctx) (sel t : Bytes) (h : sel.length = c.tmpInTarget) : KC E f c (sel ++ t) = KCsel E f c sel t := by
  unfold KC
  rw [takeN_bind_app _ _ _ _ h]

/-- the call state with which `decodeCBlock` enters `sFlushOut` -/
def flushCall (k : Call) (c1 : Ctx) (d : Bytes) : Call :=
  { k with c := { c1 with hashed := (if c1.contentChecksum = true then c1.hashed ++ d else c1.hashed),
                          frameRemaining := (if c1.contentSize ≠ 0 then c1.frameRemaining - (d.length : Int) else c1.frameRemaining),
                          content := c1.content ++ d, tmpOut := d, tmpOutStart := 0, stage := Stage.flushOut } }

theorem decodeCBlock_spec (E : Env) (hE : DecBounded E) (k : Call) (sel dl : Bytes) (hsel : sel.length = k.c.tmpInTarget) (ib : IB k.c)
    (htg : k.c.blockChecksum = true → 4 ≤ k.c.tmpInTarget) (hdl : dl = k.c.content) :
    SubOK E (fun f s => KCsel E f k.c sel s) k dl (decodeCBlock E k sel) := by
  unfold decodeCBlock
  dsimp only
  have hcrc : k.c.blockChecksum = true → (List.take 4 (List.drop (k.c.tmpInTarget - 4) sel)) = List.drop (k.c.tmpInTarget - 4) sel := by
    intro hb
    apply List.take_of_length_le; rw [List.length_drop]; have := htg hb; omega
  by_cases hbad : k.c.blockChecksum = true ∧ le (List.take 4 (List.drop (k.c.tmpInTarget - 4) sel)) ≠ E.hash (List.take (k.c.tmpInTarget - 4) sel)
  · rw [if_pos hbad]
    intro f t x
    unfold KCsel
    dsimp only
    rw [if_pos hbad.1]
    rw [hcrc hbad.1] at hbad
    rw [if_pos ⟨hbad.1, fun h => hbad.2 h.symm⟩]
    intro hx; cases hx
  · rw [if_neg hbad]
    -- the context after the checksum has been split off, and the payload
    generalize hc1 : (if k.c.blockChecksum = true then { k.c with tmpInTarget := k.c.tmpInTarget - 4 } else k.c) = c1
    have hn : c1.tmpInTarget = (if k.c.blockChecksum = true then k.c.tmpInTarget - 4 else k.c.tmpInTarget) := by
      subst hc1; by_cases hb : k.c.blockChecksum = true
      · rw [if_pos hb, if_pos hb]
      · rw [if_neg hb, if_neg hb]
    have hsame : SameHdr k.c c1 ∧ c1.content = k.c.content ∧ c1.hashed = k.c.hashed ∧ c1.skipChecksum = k.c.skipChecksum ∧ c1.frameRemaining = k.c.frameRemaining ∧ history c1 = history k.c := by
      subst hc1; by_cases hb : k.c.blockChecksum = true
      · rw [if_pos hb]; exact ⟨⟨rfl, rfl, rfl, rfl, rfl, rfl⟩, rfl, rfl, rfl, rfl, rfl⟩
      · rw [if_neg hb]; exact ⟨⟨rfl, rfl, rfl, rfl, rfl, rfl⟩, rfl, rfl, rfl, rfl, rfl⟩
    obtain ⟨s1, hct, hhs, hsk, hfr, hhi⟩ := hsame
    have hspec : ∀ f s, KCsel E f k.c sel s = (match E.dec (history c1) (List.take c1.tmpInTarget sel) c1.maxBlockSize with
        | some d => KB E f k.c (k.c.content ++ d) | none => Parser.fail (.blockDecode "")) s := by
      intro f s
      unfold KCsel
      have hgood : ¬ (k.c.blockChecksum = true ∧ E.hash (List.take (if k.c.blockChecksum = true then k.c.tmpInTarget - 4 else k.c.tmpInTarget) sel) ≠
          le (List.drop (if k.c.blockChecksum = true then k.c.tmpInTarget - 4 else k.c.tmpInTarget) sel)) := by
        intro ⟨hb, hne⟩
        rw [if_pos hb] at hne
        apply hbad
        refine ⟨hb, ?_⟩
        rw [hcrc hb]
        exact fun h => hne h.symm
      rw [if_neg hgood, hhi, hn, s1.mb]
      cases E.dec (history k.c) (List.take (if k.c.blockChecksum = true then k.c.tmpInTarget - 4 else k.c.tmpInTarget) sel) k.c.maxBlockSize <;> rfl
    cases hdec : E.dec (history c1) (List.take c1.tmpInTarget sel) c1.maxBlockSize with
    | none =>
      intro f t x
      dsimp only
      rw [hspec, hdec]
      intro hx; cases hx
    | some d =>
      dsimp only
      have hdl' := hE _ _ _ _ hdec
      have e1 : (c1.contentChecksum && !c1.skipChecksum) = c1.contentChecksum := by rw [hsk, ib.noskip]; simp
      rw [e1]
      have ib1 : IB c1 := ⟨by rw [hsk]; exact ib.noskip, by rw [hfr, s1.cs, hct]; exact ib.rem, by intro h; rw [hhs, hct]; exact ib.hash (by rw [← s1.cc]; exact h)⟩
      by_cases hroom : k.room ≥ c1.maxBlockSize
      · rw [if_pos hroom]
        refine ⟨[], d, 0, by omega, by simp, rfl, by show k.room - d.length + d.length = k.room; omega, ?_, ?_, ?_⟩
        · exact Inv.ofIB _ (IB.append c1 _ d ib1 rfl rfl rfl rfl rfl rfl) rfl (fun h => by cases h) (fun h => by cases h) (fun h => by cases h)
            (fun h => by rcases h with h | h <;> cases h) (fun h => by cases h) (fun h => by cases h)
        · unfold Out; simp [inBlocks, pending, hdl, hct]
        · intro f t
          apply okEq.of_eq
          dsimp only
          rw [K_getBlockHeader E f k.c _ t]
          case h => exact ⟨s1.linked, s1.bc, s1.cc, s1.cs, s1.mb, s1.dict⟩
          case hst => rfl
          rw [hspec, hdec, Nat.add_zero, List.nil_append]
          dsimp only
          rw [hct]
      · rw [if_neg hroom]
        refine SubOK.consume E _ (fun f s => KB E f k.c (k.c.content ++ d) s) k (flushCall k c1 d) dl _ [] ?_ (by simp [flushCall]) rfl rfl ?_
        · intro f s
          apply okEq.of_eq
          rw [hspec, hdec, List.nil_append]
        · have := sFlushOut_spec E (flushCall k c1 d) dl (IB.append c1 _ d ib1 rfl rfl rfl rfl rfl rfl) rfl (by simp [flushCall]) ⟨c1.content, rfl⟩ (by simp [flushCall, hdl, hct])
          refine SubOK.congr E _ _ _ dl _ ?_ this
          intro f s
          apply okEq.of_eq
          show KB E f k.c (k.c.content ++ d) s = KB E f (flushCall k c1 d).c (c1.content ++ d) s
          rw [hct, KB_same E f k.c (flushCall k c1 d).c ⟨s1.linked, s1.bc, s1.cc, s1.cs, s1.mb, s1.dict⟩]

theorem sStoreCBlock_spec (E : Env) (hE : DecBounded E) (k : Call) (dl : Bytes) (ib : IB k.c) (hs : k.c.stage = .storeCBlock)
    (hst : k.c.staged.length ≤ k.c.tmpInTarget) (htg : k.c.blockChecksum = true → 4 ≤ k.c.tmpInTarget) (hdl : dl = k.c.content) :
    SubOK E (fun f s => KC E f k.c (k.c.staged ++ s)) k dl (sStoreCBlock E k) := by
  unfold sStoreCBlock
  dsimp only
  generalize hn : min (k.c.tmpInTarget - k.c.staged.length) k.src.length = n
  have hlen : (k.c.staged ++ List.take n k.src).length = k.c.staged.length + n := by rw [List.length_append, List.length_take]; omega
  by_cases hlt : (k.c.staged ++ List.take n k.src).length < k.c.tmpInTarget
  · rw [if_pos hlt]
    refine ⟨List.take n k.src, [], (List.take_append_drop _ _).symm, by simp, by simp, Or.inr ⟨by unfold LZ4V.Gen.BHSize; omega, 0, by omega, ?_, ?_, ?_⟩⟩
    · exact Inv.ofIB _ ⟨ib.noskip, ib.rem, ib.hash⟩ (by dsimp only; rw [hs]; rfl) (fun h => by simp [hs] at h) (fun h => by simp [hs] at h) (fun _ => by dsimp only; omega)
        (fun _ hb => htg hb) (fun h => by simp [hs] at h) (fun h => by simp [hs] at h)
    · unfold Out; simp [inBlocks, pending, hdl, hs]
    · intro f t
      apply okEq.of_eq
      dsimp only
      rw [K_storeCBlock E f _ t]
      rotate_left
      · exact hs
      rw [Nat.add_zero, List.append_assoc]
      rfl
  · rw [if_neg hlt]
    refine SubOK.consume E _ (fun f s => KCsel E f k.c (k.c.staged ++ List.take n k.src) s) k
      { k with c := { k.c with staged := k.c.staged ++ List.take n k.src }, src := List.drop n k.src } dl _ (List.take n k.src) ?_ (List.take_append_drop _ _).symm rfl rfl ?_
    · intro f s
      apply okEq.of_eq
      rw [← List.append_assoc, KC_app E f k.c _ s (by omega)]
    · have := decodeCBlock_spec E hE { k with c := { k.c with staged := k.c.staged ++ List.take n k.src }, src := List.drop n k.src } (k.c.staged ++ List.take n k.src) dl
        (by dsimp only; omega) ⟨ib.noskip, ib.rem, ib.hash⟩ htg hdl
      refine SubOK.congr E _ _ _ dl _ ?_ this
      intro f s
      apply okEq.of_eq
      rfl

theorem sGetCBlock_spec (E : Env) (hE : DecBounded E) (k : Call) (dl : Bytes) (ib : IB k.c) (hs : k.c.stage = .getCBlock)
    (htg : k.c.blockChecksum = true → 4 ≤ k.c.tmpInTarget) (hdl : dl = k.c.content) :
    SubOK E (fun f s => KC E f k.c s) k dl (sGetCBlock E k) := by
  unfold sGetCBlock
  by_cases hlt : k.src.length < k.c.tmpInTarget
  · rw [if_pos hlt]
    refine ⟨[], [], 0, by omega, by simp, by simp, by simp, ?_, ?_, ?_⟩
    · exact Inv.ofIB _ ⟨ib.noskip, ib.rem, ib.hash⟩ rfl (fun h => by cases h) (fun h => by cases h) (fun _ => by simp)
        (fun _ hb => htg hb) (fun h => by cases h) (fun h => by cases h)
    · unfold Out; simp [inBlocks, pending, hdl]
    · intro f t
      apply okEq.of_eq
      dsimp only
      rw [K_storeCBlock E f _ t]
      rotate_left
      · rfl
      rw [Nat.add_zero]
      rfl
  · rw [if_neg hlt]
    refine SubOK.consume E _ (fun f s => KCsel E f k.c (k.src.take k.c.tmpInTarget) s) k { k with src := k.src.drop k.c.tmpInTarget } dl _ (k.src.take k.c.tmpInTarget) ?_
      (List.take_append_drop _ _).symm rfl rfl ?_
    · intro f s
      apply okEq.of_eq
      rw [KC_app E f k.c _ s (by rw [List.length_take]; omega)]
    · exact decodeCBlock_spec E hE _ _ dl (by rw [List.length_take]; dsimp only; omega) ib htg hdl

/-- a context ready for the next frame -/
theorem Inv.start (c : Ctx) (h1 : c.stage = .getFrameHeader) (h2 : c.skipChecksum = false) (h3 : c.frameRemaining = 0) : Inv c := by
  refine ⟨h2, fun _ => h3, ?_, ?_, ?_, ?_, ?_, ?_, ?_, ?_, ?_, ?_, ?_⟩
  · intro h; rw [h1] at h; cases h
  · intro h; rw [h1] at h; cases h
  · intro h; rw [h1] at h; cases h
  · intro h; rw [h1] at h; cases h
  · intro h; rw [h1] at h; cases h
  · intro h; rw [h1] at h; cases h
  · intro h; rw [h1] at h; cases h
  · intro h; rw [h1] at h; rcases h with h | h <;> cases h
  · intro h; rw [h1] at h; cases h
  · intro h; rw [h1] at h; cases h
  · intro h; rw [h1] at h; cases h

theorem reset_inv (c : Ctx) : Inv (reset c) := Inv.start _ rfl rfl rfl

theorem checkSuffix_spec (E : Env) (k : Call) (sel dl : Bytes) (hsel : sel.length = 4) (hn : k.c.skipChecksum = false) (hdl : dl = k.c.content) :
    SubOK E (fun _ s => (if E.hash k.c.hashed ≠ le sel then Parser.fail .contentChecksum else Parser.pure k.c.content) s) k dl (checkSuffix E k sel) := by
  unfold checkSuffix
  rw [List.take_of_length_le (by omega), hn]
  by_cases hc : le sel ≠ E.hash k.c.hashed
  · have hcond : ((!false) = true ∧ le sel ≠ E.hash k.c.hashed) := ⟨rfl, hc⟩
    rw [if_pos hcond]
    intro f t x
    dsimp only
    rw [if_pos (fun h => hc h.symm)]
    intro hx; cases hx
  · have hcond : ¬ ((!false) = true ∧ le sel ≠ E.hash k.c.hashed) := fun h => hc h.2
    rw [if_neg hcond]
    refine ⟨[], [], by simp, by simp, by simp, Or.inl ⟨rfl, rfl, reset_inv _, ?_⟩⟩
    intro f t
    apply okEq.of_eq
    dsimp only
    have : ¬ E.hash k.c.hashed ≠ le sel := fun h => hc (fun h' => h h'.symm)
    rw [if_neg this, List.nil_append, List.append_nil, hdl]
    rfl

theorem sStoreSuffix_spec (E : Env) (k : Call) (dl : Bytes) (hi : Inv k.c) (hs : k.c.stage = .storeSuffix) (hdl : dl = k.c.content) :
    SubOK E (fun _ s => KSufCrc E k.c (k.c.staged ++ s)) k dl (sStoreSuffix E k) := by
  unfold sStoreSuffix
  dsimp only
  obtain ⟨hst, hcc, hfr⟩ := hi.stSF hs
  have ib := hi.ib (by rw [hs]; rfl)
  generalize hn : min (4 - k.c.staged.length) k.src.length = n
  have hlen : (k.c.staged ++ List.take n k.src).length = k.c.staged.length + n := by rw [List.length_append, List.length_take]; omega
  by_cases hlt : (k.c.staged ++ List.take n k.src).length < 4
  · rw [if_pos hlt]
    refine ⟨List.take n k.src, [], (List.take_append_drop _ _).symm, by simp, by simp, Or.inr ⟨by omega, 0, by omega, ?_, ?_, ?_⟩⟩
    · exact Inv.ofIB _ ⟨ib.noskip, ib.rem, ib.hash⟩ (by dsimp only; rw [hs]; rfl) (fun h => by simp [hs] at h) (fun h => by simp [hs] at h) (fun h => by simp [hs] at h)
        (fun h => by simp [hs] at h) (fun _ => ⟨by dsimp only; omega, hcc, hfr⟩) (fun h => by simp [hs] at h)
    · unfold Out; simp [inBlocks, pending, hdl, hs]
    · intro f t
      apply okEq.of_eq
      dsimp only
      rw [K_storeSuffix E f _ t]
      rotate_left
      · exact hs
      rw [List.append_assoc]
      rfl
  · rw [if_neg hlt]
    refine SubOK.consume E _ (fun _ s => (if E.hash k.c.hashed ≠ le (k.c.staged ++ List.take n k.src) then Parser.fail .contentChecksum else Parser.pure k.c.content) s) k
      { k with c := { k.c with staged := k.c.staged ++ List.take n k.src }, src := List.drop n k.src } dl _ (List.take n k.src) ?_ (List.take_append_drop _ _).symm rfl rfl ?_
    · intro f s
      apply okEq.of_eq
      unfold KSufCrc
      rw [← List.append_assoc, takeN_bind_app 4 _ _ _ (by omega)]
    · exact checkSuffix_spec E _ _ dl (by omega) ib.noskip hdl

theorem sGetSuffix_spec (E : Env) (k : Call) (dl : Bytes) (ib : IB k.c) (hs : k.c.stage = .getSuffix) (hdl : dl = k.c.content) :
    SubOK E (fun _ s => pSuffixZ E k.c.contentChecksum k.c.contentSize k.c.content s) k dl (sGetSuffix E k) := by
  unfold sGetSuffix
  have hsz : (k.c.frameRemaining ≠ 0) ↔ (k.c.contentSize ≠ 0 ∧ k.c.contentSize ≠ k.c.content.length) := by
    rw [ib.rem]
    by_cases hz : k.c.contentSize = 0
    · simp [hz]
    · simp only [ne_eq, hz, not_false_eq_true, if_true, true_and]
      omega
  by_cases hbad : k.c.frameRemaining ≠ 0
  · rw [if_pos hbad]
    intro f t x
    dsimp only
    unfold pSuffixZ
    rw [if_pos (hsz.mp hbad)]
    intro hx; cases hx
  · rw [if_neg hbad]
    have hgood : ¬ (k.c.contentSize ≠ 0 ∧ k.c.contentSize ≠ k.c.content.length) := fun h => hbad (hsz.mpr h)
    have hfr : k.c.frameRemaining = 0 := by
      by_cases h : k.c.frameRemaining = 0
      · exact h
      · exact absurd h hbad
    by_cases hcc : k.c.contentChecksum = true
    · have e : (!k.c.contentChecksum) = false := by rw [hcc]; rfl
      rw [e]
      simp only [Bool.false_eq_true, if_false]
      by_cases h4 : k.src.length < 4
      · rw [if_pos h4]
        have := sStoreSuffix_spec E { k with c := { k.c with staged := [], stage := .storeSuffix } } dl
          (Inv.ofIB _ ⟨ib.noskip, ib.rem, ib.hash⟩ rfl (fun h => by cases h) (fun h => by cases h) (fun h => by cases h)
            (fun h => by rcases h with h | h <;> cases h) (fun _ => ⟨by simp, hcc, hfr⟩) (fun h => by cases h)) rfl hdl
        refine SubOK.consume E _ _ k { k with c := { k.c with staged := [], stage := .storeSuffix } } dl _ [] ?_ (by simp) rfl rfl this
        intro f s
        apply okEq.of_eq
        dsimp only
        unfold pSuffixZ KSufCrc
        rw [if_neg hgood, List.nil_append]
        dsimp only
        rw [hcc, ib.hash hcc]
        simp only [if_true, true_and, List.nil_append]
      · rw [if_neg h4]
        refine SubOK.consume E _ (fun _ s => (if E.hash k.c.hashed ≠ le (k.src.take 4) then Parser.fail .contentChecksum else Parser.pure k.c.content) s) k
          { k with src := k.src.drop 4 } dl _ (k.src.take 4) ?_ (List.take_append_drop _ _).symm rfl rfl ?_
        · intro f s
          apply okEq.of_eq
          unfold pSuffixZ
          rw [if_neg hgood, hcc, ib.hash hcc]
          simp only [if_true, true_and]
          rw [takeN_bind_app 4 _ _ _ (by rw [List.length_take]; omega)]
        · exact checkSuffix_spec E _ _ dl (by rw [List.length_take]; omega) ib.noskip hdl
    · have hcc' : k.c.contentChecksum = false := by cases hh : k.c.contentChecksum <;> simp_all
      have e : (!k.c.contentChecksum) = true := by rw [hcc']; rfl
      rw [e]
      simp only [if_true]
      refine ⟨[], [], by simp, by simp, by simp, Or.inl ⟨rfl, rfl, reset_inv _, ?_⟩⟩
      intro f t
      apply okEq.of_eq
      dsimp only
      unfold pSuffixZ
      rw [if_neg hgood, hcc']
      simp only [Bool.false_eq_true, if_false, false_and]
      rw [List.nil_append, takeN_bind_zero, List.append_nil, hdl]
      rfl

/-- the skippable-frame continuation -/
def pSkipRest : Parser Bytes := pSkippable.bind fun _ => Parser.pure []

theorem pSkipRest_app (sel t : Bytes) (h : sel.length = 4) : pSkipRest (sel ++ t) = ((takeN (le sel)).bind fun _ => Parser.pure []) t := by
  unfold pSkipRest pSkippable
  rw [Parser.bind_assoc', takeN_bind_app 4 _ _ _ h, Parser.bind_assoc']
  rfl

/-- a context in one of the skippable stages -/
theorem Inv.skip (c : Ctx) (h1 : c.stage = .getSFrameSize ∨ c.stage = .skipSkippable ∨ (c.stage = .storeSFrameSize ∧ 4 ≤ c.staged.length ∧ c.staged.length ≤ 8 ∧ c.tmpInTarget = 8))
    (h2 : c.skipChecksum = false) (h3 : c.frameRemaining = 0) : Inv c := by
  refine ⟨h2, fun _ => h3, ?_, ?_, ?_, ?_, ?_, ?_, ?_, ?_, ?_, ?_, ?_⟩
  · intro h; rcases h1 with h1 | h1 | ⟨h1, _⟩ <;> rw [h1] at h <;> cases h
  · intro h; rcases h1 with h1 | h1 | ⟨h1, _⟩ <;> rw [h1] at h <;> cases h
  · intro h; rcases h1 with h1 | h1 | ⟨h1, _⟩ <;> rw [h1] at h <;> cases h
  · intro h; rcases h1 with h1 | h1 | ⟨h1, _⟩ <;> rw [h1] at h <;> cases h
  · intro h; rcases h1 with h1 | h1 | ⟨h1, _⟩ <;> rw [h1] at h <;> cases h
  · intro h; rcases h1 with h1 | h1 | ⟨h1, _⟩ <;> rw [h1] at h <;> cases h
  · intro h; rcases h1 with h1 | h1 | ⟨h1, _⟩ <;> rw [h1] at h <;> cases h
  · intro h; rcases h1 with h1 | h1 | ⟨h1, _⟩ <;> rw [h1] at h <;> rcases h with h | h <;> cases h
  · intro h; rcases h1 with h1 | h1 | ⟨h1, _⟩ <;> rw [h1] at h <;> cases h
  · intro h; rcases h1 with h1 | h1 | ⟨h1, h4⟩
    · rw [h1] at h; cases h
    · rw [h1] at h; cases h
    · exact h4
  · intro h; rcases h1 with h1 | h1 | ⟨h1, _⟩ <;> rw [h1] at h <;> cases h

theorem decodeSFrameSize_spec (E : Env) (k : Call) (sel : Bytes) (hsel : sel.length = 4) (hn : k.c.skipChecksum = false) (hr : k.c.frameRemaining = 0) :
    SubOK E (fun _ s => ((takeN (le sel)).bind fun _ => Parser.pure []) s) k [] (decodeSFrameSize k sel) := by
  unfold decodeSFrameSize
  rw [List.take_of_length_le (by omega)]
  refine ⟨[], [], 0, by omega, by simp, by simp, by simp, Inv.skip _ (Or.inr (Or.inl rfl)) hn hr, ?_, ?_⟩
  · unfold Out; simp [inBlocks]
  · intro f t
    apply okEq.of_eq
    simp only [K, stg, List.nil_append]

theorem sSkipSkippable_spec (E : Env) (k : Call) (hs : k.c.stage = .skipSkippable) (hn : k.c.skipChecksum = false) (hr : k.c.frameRemaining = 0) :
    SubOK E (fun _ s => ((takeN k.c.tmpInTarget).bind fun _ => Parser.pure []) s) k [] (sSkipSkippable k) := by
  unfold sSkipSkippable
  dsimp only
  generalize hm : min k.c.tmpInTarget k.src.length = n
  have hdata : (List.take n k.src).length = n := by rw [List.length_take]; omega
  by_cases hz : k.c.tmpInTarget - n ≠ 0
  · rw [if_pos hz]
    refine ⟨List.take n k.src, [], (List.take_append_drop _ _).symm, by simp, by simp, Or.inr ⟨hz, 0, by omega, ?_, ?_, ?_⟩⟩
    · exact Inv.skip _ (Or.inr (Or.inl (by dsimp only; exact hs))) hn hr
    · unfold Out; simp [inBlocks, hs]
    · intro f t
      apply okEq.of_eq
      simp only [K, stg, hs, List.nil_append]
      have htg : k.c.tmpInTarget = n + (k.c.tmpInTarget - n) := by omega
      rw [htg, takeN_split, takeN_bind_app n _ _ _ hdata]
      have : n + (k.c.tmpInTarget - n) - n = k.c.tmpInTarget - n := by omega
      rw [this]
  · rw [if_neg hz]
    refine ⟨List.take n k.src, [], (List.take_append_drop _ _).symm, by simp, by simp, Or.inl ⟨rfl, rfl, reset_inv _, ?_⟩⟩
    intro f t
    apply okEq.of_eq
    dsimp only
    rw [takeN_bind_app _ _ _ _ (by rw [hdata]; omega)]
    rfl

theorem sStoreSFrameSize_spec (E : Env) (k : Call) (hi : Inv k.c) (hs : k.c.stage = .storeSFrameSize) :
    SubOK E (fun _ s => pSkipRest (k.c.staged.drop 4 ++ s)) k [] (sStoreSFrameSize k) := by
  unfold sStoreSFrameSize
  dsimp only
  obtain ⟨h4, h8, htg⟩ := hi.stSS hs
  have hr := hi.rem0 (Or.inr (Or.inr (Or.inr (Or.inl hs))))
  rw [htg]
  generalize hm : min (8 - k.c.staged.length) k.src.length = n
  have hlen : (k.c.staged ++ List.take n k.src).length = k.c.staged.length + n := by rw [List.length_append, List.length_take]; omega
  by_cases hlt : (k.c.staged ++ List.take n k.src).length < 8
  · rw [if_pos hlt]
    refine ⟨List.take n k.src, [], (List.take_append_drop _ _).symm, by simp, by simp, Or.inr ⟨by omega, 0, by omega, ?_, ?_, ?_⟩⟩
    · exact Inv.skip _ (Or.inr (Or.inr ⟨by dsimp only; exact hs, by dsimp only; omega, by dsimp only; omega, rfl⟩)) hi.noskip hr
    · unfold Out; simp [inBlocks, hs]
    · intro f t
      apply okEq.of_eq
      simp only [K, stg, hs]
      rw [List.drop_append_of_le_length h4, List.append_assoc]
      rfl
  · rw [if_neg hlt]
    have h44 : ((k.c.staged ++ List.take n k.src).drop 4).length = 4 := by rw [List.length_drop]; omega
    refine SubOK.consume E _ (fun _ s => ((takeN (le ((k.c.staged ++ List.take n k.src).drop 4))).bind fun _ => Parser.pure []) s) k
      { k with c := { k.c with staged := k.c.staged ++ List.take n k.src, tmpInTarget := 8 }, src := List.drop n k.src } [] _ (List.take n k.src) ?_ (List.take_append_drop _ _).symm rfl rfl ?_
    · intro f s
      apply okEq.of_eq
      rw [← List.append_assoc, ← List.drop_append_of_le_length h4, pSkipRest_app _ _ h44]
    · exact decodeSFrameSize_spec E _ _ h44 hi.noskip hr

theorem sGetSFrameSize_spec (E : Env) (k : Call) (hn : k.c.skipChecksum = false) (hr : k.c.frameRemaining = 0) :
    SubOK E (fun _ s => pSkipRest s) k [] (sGetSFrameSize k) := by
  unfold sGetSFrameSize
  by_cases h4 : k.src.length ≥ 4
  · rw [if_pos h4]
    refine SubOK.consume E _ (fun _ s => ((takeN (le (k.src.take 4))).bind fun _ => Parser.pure []) s) k { k with src := k.src.drop 4 } [] _ (k.src.take 4) ?_
      (List.take_append_drop _ _).symm rfl rfl ?_
    · intro f s
      apply okEq.of_eq
      rw [pSkipRest_app _ _ (by rw [List.length_take]; omega)]
    · exact decodeSFrameSize_spec E _ _ (by rw [List.length_take]; omega) hn hr
  · rw [if_neg h4]
    have := sStoreSFrameSize_spec E { k with c := { k.c with staged := List.replicate 4 0, tmpInTarget := 8, stage := .storeSFrameSize } }
      (Inv.skip _ (Or.inr (Or.inr ⟨rfl, by simp, by simp, rfl⟩)) hn hr) rfl
    refine SubOK.consume E _ _ k { k with c := { k.c with staged := List.replicate 4 0, tmpInTarget := 8, stage := .storeSFrameSize } } [] _ [] ?_ (by simp) rfl rfl this
    intro f s
    apply okEq.of_eq
    simp

end LZ4V.Model.FrameDS
