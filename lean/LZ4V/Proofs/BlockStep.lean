import LZ4V.Proofs.BlockHub
/-!
# One sequence of the block specification, as a function of the input alone

`pstep` reads one sequence (or the final literal run) from the input, without any history.  The specification decoder and the
format-only parser are both iterations of it (`decodeAux_pstep`, `parseAux_pstep`).  The decoder model is related to the specification
one `pstep` at a time (`Proofs/DecodeFun*.lean`).
-/
namespace LZ4V.Spec.Block

inductive PStep
  | fin (lits : List UInt8)
  | seq (s : Seq) (rest : List UInt8)
  | fail

def pstep : List UInt8 → PStep
  | [] => .fail
  | tok :: inp =>
    match readField (tok.toNat / 16) inp with
    | none => .fail
    | some (ll, inp1) =>
      if ll > inp1.length then .fail else
      match inp1.drop ll with
      | [] => .fin (inp1.take ll)
      | [_] => .fail
      | lo :: hi :: inp3 =>
        match readField (tok.toNat % 16) inp3 with
        | none => .fail
        | some (mlc, inp4) => .seq ⟨inp1.take ll, lo.toNat + 256 * hi.toNat, mlc + 4⟩ inp4

theorem decodeAux_pstep (f : Nat) (inp out : List UInt8) :
    decodeAux (f+1) inp out =
      match pstep inp with
      | .fin l => some (out ++ l)
      | .seq s rest => (match copyMatch (out ++ s.lits) s.off s.ml with | some out2 => decodeAux f rest out2 | none => none)
      | .fail => none := by
  cases inp with
  | nil => simp [decodeAux, pstep]
  | cons tok inp =>
    simp only [decodeAux, pstep]
    cases hrf : readField (tok.toNat / 16) inp with
    | none => rfl
    | some v =>
      obtain ⟨ll, inp1⟩ := v
      dsimp only
      by_cases hgt : ll > inp1.length
      · rw [if_pos hgt, if_pos hgt]
      · rw [if_neg hgt, if_neg hgt]
        cases hdr : inp1.drop ll with
        | nil => rfl
        | cons lo t =>
          cases t with
          | nil => rfl
          | cons hi inp3 =>
            dsimp only
            cases hrf2 : readField (tok.toNat % 16) inp3 with
            | none => rfl
            | some w => rfl

theorem parseAux_pstep (f : Nat) (inp : List UInt8) :
    parseAux (f+1) inp =
      match pstep inp with
      | .fin l => some ([], l)
      | .seq s rest => (match parseAux f rest with | some (seqs, last) => some (s :: seqs, last) | none => none)
      | .fail => none := by
  cases inp with
  | nil => simp [parseAux, pstep]
  | cons tok inp =>
    simp only [parseAux, pstep]
    cases hrf : readField (tok.toNat / 16) inp with
    | none => rfl
    | some v =>
      obtain ⟨ll, inp1⟩ := v
      dsimp only
      by_cases hgt : ll > inp1.length
      · rw [if_pos hgt, if_pos hgt]
      · rw [if_neg hgt, if_neg hgt]
        cases hdr : inp1.drop ll with
        | nil => rfl
        | cons lo t =>
          cases t with
          | nil => rfl
          | cons hi inp3 =>
            dsimp only
            cases hrf2 : readField (tok.toNat % 16) inp3 with
            | none => rfl
            | some w => rfl

/-- `decLen` consumes exactly `v / 255 + 1` bytes and returns a suffix -/
theorem decLen_suffix : ∀ (inp : List UInt8) (v : Nat) (r : List UInt8), decLen inp = some (v, r) →
    r = inp.drop (v / 255 + 1) ∧ v / 255 + 1 ≤ inp.length := by
  intro inp
  induction inp with
  | nil => intro v r h; simp [decLen] at h
  | cons b rest ih =>
    intro v r h
    unfold decLen at h
    by_cases hb : b = 255
    · rw [if_pos hb] at h
      cases hd : decLen rest with
      | none => rw [hd] at h; cases h
      | some w =>
        obtain ⟨v', r'⟩ := w
        rw [hd] at h
        simp only [Option.some.injEq, Prod.mk.injEq] at h
        obtain ⟨hv, hr⟩ := h
        obtain ⟨h1, h2⟩ := ih v' r' hd
        subst hv hr
        have : (v' + 255) / 255 + 1 = (v' / 255 + 1) + 1 := by omega
        rw [this, List.drop_succ_cons]
        exact ⟨h1, by simp only [List.length_cons]; omega⟩
    · rw [if_neg hb] at h
      simp only [Option.some.injEq, Prod.mk.injEq] at h
      obtain ⟨hv, hr⟩ := h
      subst hv hr
      have hlt : b.toNat < 255 := by
        have := b.toNat_lt
        have : b.toNat ≠ 255 := fun hc => hb (UInt8.toNat_inj.mp (by simpa using hc))
        omega
      have : b.toNat / 255 = 0 := by omega
      rw [this]
      exact ⟨by simp, by simp⟩

theorem readField_suffix (nibble : Nat) (inp : List UInt8) (v : Nat) (r : List UInt8) (h : readField nibble inp = some (v, r)) :
    r.length ≤ inp.length := by
  unfold readField at h
  by_cases hn : nibble = 15
  · rw [if_pos hn] at h
    cases hd : decLen inp with
    | none => rw [hd] at h; cases h
    | some w =>
      obtain ⟨v', r'⟩ := w
      rw [hd] at h
      simp only [Option.some.injEq, Prod.mk.injEq] at h
      obtain ⟨_, hr⟩ := h
      obtain ⟨h1, h2⟩ := decLen_suffix inp v' r' hd
      subst hr; rw [h1, List.length_drop]; omega
  · rw [if_neg hn] at h
    simp only [Option.some.injEq, Prod.mk.injEq] at h
    rw [← h.2]; omega

/-- a sequence consumes at least its token and its offset; what is left is a proper suffix -/
theorem pstep_seq_shorter (inp : List UInt8) (s : Seq) (rest : List UInt8) (h : pstep inp = .seq s rest) : rest.length + 3 ≤ inp.length := by
  cases inp with
  | nil => simp [pstep] at h
  | cons tok inp =>
    simp only [pstep] at h
    cases hrf : readField (tok.toNat / 16) inp with
    | none => rw [hrf] at h; cases h
    | some v =>
      obtain ⟨ll, inp1⟩ := v
      rw [hrf] at h
      dsimp only at h
      have hs1 := readField_suffix _ _ _ _ hrf
      by_cases hgt : ll > inp1.length
      · rw [if_pos hgt] at h; cases h
      · rw [if_neg hgt] at h
        cases hdr : inp1.drop ll with
        | nil => rw [hdr] at h; cases h
        | cons lo t =>
          cases t with
          | nil => rw [hdr] at h; cases h
          | cons hi inp3 =>
            rw [hdr] at h
            dsimp only at h
            have hlen : (inp1.drop ll).length = inp3.length + 2 := by rw [hdr]; simp
            rw [List.length_drop] at hlen
            cases hrf2 : readField (tok.toNat % 16) inp3 with
            | none => rw [hrf2] at h; cases h
            | some w =>
              obtain ⟨mlc, inp4⟩ := w
              rw [hrf2] at h
              simp only [PStep.seq.injEq] at h
              have hs2 := readField_suffix _ _ _ _ hrf2
              rw [← h.2]
              simp only [List.length_cons]
              omega

end LZ4V.Spec.Block
