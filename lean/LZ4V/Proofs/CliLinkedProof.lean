import LZ4V.Model.CliLinked
import LZ4V.Proofs.FrameLinkedProof
import LZ4V.Proofs.CliFrameProof
/-!
# `lz4 -BD FILE` at the fast levels decodes to FILE (both builds, below the sizes where other pipelines take over)
-/
namespace LZ4V.Model.CliLinked
open LZ4V.Model LZ4V.Model.FrameFast LZ4V.Model.FrameLinked LZ4V.Model.CliFrame
open LZ4V.Spec.FrameL
open LZ4V.Spec.Frame (blockSizeOf)

theorem chunks_flatten (bs : Nat) (hbs : 0 < bs) : ∀ (fuel : Nat) (s : Bytes), s.length < fuel → (chunks bs fuel s).flatten = s := by
  intro fuel
  induction fuel with
  | zero => intro s h; omega
  | succ f ih =>
    intro s h
    unfold chunks
    by_cases hs : s = []
    · rw [if_pos hs, hs]; rfl
    · rw [if_neg hs]
      have hl : 0 < s.length := List.length_pos_iff.mpr hs
      simp only [List.flatten_cons]
      rw [ih (s.drop bs) (by rw [List.length_drop]; omega), List.take_append_drop]

theorem chunks_bounds (bs : Nat) (hbs : 0 < bs) : ∀ (fuel : Nat) (s : Bytes), ∀ c ∈ chunks bs fuel s, 1 ≤ c.length ∧ c.length ≤ bs := by
  intro fuel
  induction fuel with
  | zero => intro s c h; simp [chunks] at h
  | succ f ih =>
    intro s c h
    unfold chunks at h
    by_cases hs : s = []
    · rw [if_pos hs] at h; cases h
    · rw [if_neg hs] at h
      have hl : 0 < s.length := List.length_pos_iff.mpr hs
      rcases List.mem_cons.mp h with rfl | h'
      · rw [List.length_take]; omega
      · exact ih _ c h'

theorem schedST_content : ∀ cs : List Bytes, contentOf (schedST cs) = cs.flatten := by
  intro cs
  induction cs with
  | nil => rfl
  | cons c t ih => simp [schedST, contentOf, ih]

theorem schedOne_content : ∀ (cs : List Bytes) (a : Nat), contentOf (schedOne a cs) = cs.flatten := by
  intro cs
  induction cs with
  | nil => intro a; rfl
  | cons c t ih => intro a; simp [schedOne, contentOf, ih]

theorem schedST_legal (p : Prefs) : ∀ cs : List Bytes, (∀ c ∈ cs, 1 ≤ c.length ∧ c.length ≤ blockSizeOf p.bsid) → LegalSizes p (schedST cs) := by
  intro cs
  induction cs with
  | nil => intro _; trivial
  | cons c t ih =>
    intro h
    have hc := h c List.mem_cons_self
    exact ⟨by simpa using hc, ih (fun x hx => h x (List.mem_cons_of_mem _ hx))⟩

theorem schedOne_legal (p : Prefs) : ∀ (cs : List Bytes) (a : Nat), (∀ c ∈ cs, 1 ≤ c.length ∧ c.length ≤ blockSizeOf p.bsid) → LegalSizes p (schedOne a cs) := by
  intro cs
  induction cs with
  | nil => intro _ _; trivial
  | cons c t ih =>
    intro a h
    have hc := h c List.mem_cons_self
    exact ⟨by simpa using hc, ih _ (fun x hx => h x (List.mem_cons_of_mem _ hx))⟩

/-- a linked-blocks frame that parses is a one-frame stream that decodes -/
theorem frame_decodes (E : Env) (f content : Bytes) (F : Nat) (hF : pFrame E [] F f = .ok (content, [])) : Decodes E [] f content := by
  have hany := pFrame_to_any E [] F f _ hF
  have hne : f ≠ [] := by
    intro h0
    subst h0
    unfold pFrame Parser.bind takeN at hF
    simp at hF
  refine ⟨F, 2, ?_⟩
  have := pStream_build E [] F 1 f hne content [] [] hany (pStream_nil E [] F 0)
  simpa using this

/-- **the archive `lz4 -BD FILE` writes decodes to FILE** (default format, fast level, linked blocks; both builds) -/
theorem archive_decodes (E : Env) (ok : EnvOK E) (okL : EnvOKL E) (hashOf : Array UInt8 → Bool → Nat → Nat) (mt : Bool) (o : Opts)
    (hr : 4 ≤ o.bsidReq ∧ o.bsidReq ≤ 7) (src : Bytes) (hn : src.length < 256 ^ 8) (f : Bytes)
    (h : archive E hashOf mt o src = some f) : Decodes E [] f src := by
  have p32 : (256 : Nat) ^ 4 = 4294967296 := by decide
  unfold archive at h
  dsimp only at h
  cases mt with
  | true =>
    simp only [if_true] at h
    by_cases hc : src.length < mtChunk
    · rw [if_pos hc] at h
      by_cases h1 : src.length ≤ blockSizeOf (prefsSingle o src.length).bsid
      · rw [if_pos h1] at h; exact single_decodes E ok hashOf o hr src hn f h
      · rw [if_neg h1] at h
        simp only [Option.some.injEq] at h
        subst h
        have hb := optimalBSID_range o.bsidReq hr src.length
        have hbp : 4 ≤ (prefsSingle o src.length).bsid ∧ (prefsSingle o src.length).bsid ≤ 7 := hb
        have hbs := (blockSizeOf_le (prefsSingle o src.length).bsid hbp).1
        have hfl := chunks_flatten _ hbs (src.length + 1) src (Nat.lt_succ_self _)
        have hF := frameL_parses E okL hashOf (prefsSingle o src.length) hbp
          (by show (if o.contentSize = true then src.length else 0) < 256 ^ 8; split <;> omega) (by show (0 : Nat) < 256 ^ 4; omega)
          (schedOne srcAddr (chunks (blockSizeOf (prefsSingle o src.length).bsid) (src.length + 1) src))
          (schedOne_legal _ _ _ (chunks_bounds _ hbs _ _))
          (by rw [schedOne_content, hfl]; show (if o.contentSize = true then src.length else 0) = 0 ∨ (if o.contentSize = true then src.length else 0) = src.length; split <;> simp)
        rw [schedOne_content, hfl] at hF
        exact frame_decodes E _ src _ hF
    · rw [if_neg hc] at h; cases h
  | false =>
    simp only [Bool.false_eq_true, if_false] at h
    by_cases hc : src.length < blockSizeOf o.bsidReq
    · rw [if_pos hc] at h; exact single_decodes E ok hashOf o hr src hn f h
    · rw [if_neg hc] at h
      simp only [Option.some.injEq] at h
      subst h
      have hbs := (blockSizeOf_le o.bsidReq hr).1
      have hfl := chunks_flatten _ hbs (src.length + 1) src (Nat.lt_succ_self _)
      have hF := frameL_parses E okL hashOf (prefsStream o src.length) hr
        (by show (if o.contentSize = true then src.length else 0) < 256 ^ 8; split <;> omega) (by show (0 : Nat) < 256 ^ 4; omega)
        (schedST (chunks (blockSizeOf o.bsidReq) (src.length + 1) src))
        (schedST_legal _ _ (chunks_bounds _ hbs _ _))
        (by rw [schedST_content, hfl]; show (if o.contentSize = true then src.length else 0) = 0 ∨ (if o.contentSize = true then src.length else 0) = src.length; split <;> simp)
      rw [schedST_content, hfl] at hF
      exact frame_decodes E _ src _ hF

end LZ4V.Model.CliLinked
