import LZ4V.Proofs.FrameDS5
/-!
# The dStage machine — part 6: the internal buffers are never overrun

`header[LZ4F_HEADER_SIZE_MAX]` receives the frame header, a block checksum and a skippable-frame size in pieces; `tmpIn` (allocated by `dstage_init` with
`maxBlockSize + BFSize` bytes and KEPT across frames as long as `maxBlockSize + (linked ? 128 KB : 0)` does not grow) receives block headers, compressed
blocks with their checksum and the content checksum in pieces.  `MemInv` says that what is staged, and the bound of the copy loop that fills the buffer,
fit; that a kept `tmpIn` is large enough for the next frame rests on the four block sizes (values of the regenerated `LZ4F_getBlockSize`: a smaller
total requirement implies a smaller block size).  Every step, call and session keeps it.
-/
namespace LZ4V.Model.FrameDS
open LZ4V.Spec.FrameL
open LZ4V.Spec.Frame (Bad Header isSkippableMagic blockSizeOf)

/-- the four block sizes of the format (values of the regenerated `LZ4F_getBlockSize` for the ids 4..7) -/
def isBS (n : Nat) : Prop := n = 65536 ∨ n = 262144 ∨ n = 1048576 ∨ n = 4194304

theorem done_maxBlock (E : Env) (src : Bytes) (hdr : Header) (size : Nat) (h : FrameD.decodeHeader E.hash src = .ok (.done hdr size)) : isBS hdr.maxBlock := by
  have hs := FrameD.decodeHeader_sound E src hdr size h
  obtain ⟨p1, p2, p3, p4, p5, p6, p7, p8⟩ := FrameD.spec_facts E src hdr _ hs
  have he := FrameD.spec_eval E src _ rfl p1 p2 p3 p4 p5 p6 p7 p8
  rw [hs] at he
  injection he with he
  injection he with h1 _
  rw [h1]
  unfold FrameD.specHdr
  dsimp only
  have h8 : FrameD.byteAt src 5 / 16 % 8 < 8 := Nat.mod_lt _ (by decide)
  have : FrameD.byteAt src 5 / 16 % 8 = 4 ∨ FrameD.byteAt src 5 / 16 % 8 = 5 ∨ FrameD.byteAt src 5 / 16 % 8 = 6 ∨ FrameD.byteAt src 5 / 16 % 8 = 7 := by omega
  unfold isBS
  rcases this with h | h | h | h <;> rw [h] <;> decide

/-- memory invariant of the internal buffers: `header[19]`, `tmpIn[tmpInCap]` -/
structure MemInv (c : Ctx) : Prop where
  alloc : c.maxBufferSize = 0 ∨ ∃ mb, isBS mb ∧ (c.maxBufferSize = mb ∨ c.maxBufferSize = mb + 131072) ∧ c.tmpInCap = mb + 4
  blk : (c.stage = .init ∨ inBlocks c.stage = true) → isBS c.maxBlockSize
  cap : inBlocks c.stage = true → c.maxBlockSize + 4 ≤ c.tmpInCap
  sFH : c.stage = .storeFrameHeader → c.staged.length ≤ 19 ∧ c.tmpInTarget ≤ 19
  sBC : c.stage = .getBlockChecksum → c.staged.length ≤ 4
  sSS : c.stage = .storeSFrameSize → c.staged.length ≤ 8 ∧ c.tmpInTarget ≤ 8
  sBH : c.stage = .storeBlockHeader → c.staged.length ≤ 4
  sSF : c.stage = .storeSuffix → c.staged.length ≤ 4
  tCB : (c.stage = .getCBlock ∨ c.stage = .storeCBlock) → c.tmpInTarget ≤ c.maxBlockSize + 4
  sCB : c.stage = .storeCBlock → c.staged.length ≤ c.tmpInTarget

/-- what the invariant is for: the bytes held in a staging buffer, and the bound of the copy loop that fills it, never exceed the buffer -/
theorem MemInv.bounds {c : Ctx} (h : MemInv c) :
    ((c.stage = .storeFrameHeader ∨ c.stage = .getBlockChecksum ∨ c.stage = .storeSFrameSize) → c.staged.length ≤ LZ4V.Gen.LZ4F_HEADER_SIZE_MAX) ∧
    ((c.stage = .storeBlockHeader ∨ c.stage = .storeCBlock ∨ c.stage = .storeSuffix) → c.staged.length ≤ c.tmpInCap) ∧
    (c.stage = .storeCBlock → c.tmpInTarget ≤ c.tmpInCap) := by
  have h19 : LZ4V.Gen.LZ4F_HEADER_SIZE_MAX = 19 := rfl
  rw [h19]
  refine ⟨?_, ?_, ?_⟩
  · intro hs; rcases hs with hs | hs | hs
    · exact (h.sFH hs).1
    · have := h.sBC hs; omega
    · have := (h.sSS hs).1; omega
  · intro hs; rcases hs with hs | hs | hs
    · have a := h.sBH hs; have b := h.cap (by rw [hs]; rfl); have c' := h.blk (Or.inr (by rw [hs]; rfl)); unfold isBS at c'; omega
    · have a := h.sCB hs; have b := h.cap (by rw [hs]; rfl); have t := h.tCB (Or.inr hs); omega
    · have a := h.sSF hs; have b := h.cap (by rw [hs]; rfl); have c' := h.blk (Or.inr (by rw [hs]; rfl)); unfold isBS at c'; omega
  · intro hs; have b := h.cap (by rw [hs]; rfl); have t := h.tCB (Or.inr hs); omega

/-- a context outside the block stages -/
theorem MemInv.outside (c : Ctx) (ha : c.maxBufferSize = 0 ∨ ∃ mb, isBS mb ∧ (c.maxBufferSize = mb ∨ c.maxBufferSize = mb + 131072) ∧ c.tmpInCap = mb + 4)
    (hs : c.stage = .getFrameHeader ∨ c.stage = .storeFrameHeader ∨ c.stage = .getSFrameSize ∨ c.stage = .storeSFrameSize ∨ c.stage = .skipSkippable)
    (h1 : c.stage = .storeFrameHeader → c.staged.length ≤ 19 ∧ c.tmpInTarget ≤ 19) (h2 : c.stage = .storeSFrameSize → c.staged.length ≤ 8 ∧ c.tmpInTarget ≤ 8) : MemInv c := by
  refine ⟨ha, ?_, ?_, h1, ?_, h2, ?_, ?_, ?_, ?_⟩
  · intro h; rcases hs with hs | hs | hs | hs | hs <;> rw [hs] at h <;> rcases h with h | h <;> cases h
  · intro h; rcases hs with hs | hs | hs | hs | hs <;> rw [hs] at h <;> cases h
  · intro h; rcases hs with hs | hs | hs | hs | hs <;> rw [hs] at h <;> cases h
  · intro h; rcases hs with hs | hs | hs | hs | hs <;> rw [hs] at h <;> cases h
  · intro h; rcases hs with hs | hs | hs | hs | hs <;> rw [hs] at h <;> cases h
  · intro h; rcases hs with hs | hs | hs | hs | hs <;> rw [hs] at h <;> rcases h with h | h <;> cases h
  · intro h; rcases hs with hs | hs | hs | hs | hs <;> rw [hs] at h <;> cases h

theorem memInv_fresh : MemInv ({} : Ctx) :=
  MemInv.outside _ (Or.inl rfl) (Or.inl rfl) (fun h => by cases h) (fun h => by cases h)

theorem memInv_reset (c : Ctx) (h : MemInv c) : MemInv (reset c) :=
  MemInv.outside _ h.alloc (Or.inl rfl) (fun h => by cases h) (fun h => by cases h)

/-- a context in the block stages, with the allocation facts carried over from another one -/
theorem MemInv.inside (c c' : Ctx) (h : MemInv c) (hb : isBS c.maxBlockSize) (hc : c.maxBlockSize + 4 ≤ c.tmpInCap)
    (e1 : c'.maxBufferSize = c.maxBufferSize) (e2 : c'.tmpInCap = c.tmpInCap) (e3 : c'.maxBlockSize = c.maxBlockSize) (hs : inBlocks c'.stage = true)
    (sBC : c'.stage = .getBlockChecksum → c'.staged.length ≤ 4) (sBH : c'.stage = .storeBlockHeader → c'.staged.length ≤ 4) (sSF : c'.stage = .storeSuffix → c'.staged.length ≤ 4)
    (tCB : (c'.stage = .getCBlock ∨ c'.stage = .storeCBlock) → c'.tmpInTarget ≤ c'.maxBlockSize + 4) (sCB : c'.stage = .storeCBlock → c'.staged.length ≤ c'.tmpInTarget) : MemInv c' := by
  refine ⟨by rw [e1, e2]; exact h.alloc, fun _ => by rw [e3]; exact hb, fun _ => by rw [e2, e3]; exact hc, ?_, sBC, ?_, sBH, sSF, tCB, sCB⟩
  · intro hh; rw [hh] at hs; cases hs
  · intro hh; rw [hh] at hs; cases hs

def AllocOK (c : Ctx) : Prop := c.maxBufferSize = 0 ∨ ∃ mb, isBS mb ∧ (c.maxBufferSize = mb ∨ c.maxBufferSize = mb + 131072) ∧ c.tmpInCap = mb + 4

/-- the invariant after a step (after a failure only the allocation facts matter: the context must be reset) -/
def MemKept : Step → Prop
  | .next k' => MemInv k'.c
  | .stop k' _ => MemInv k'.c
  | .fail c _ => AllocOK c

macro "mem_triv" : tactic => `(tactic| (intro h; first | (cases h; done) | (rcases h with h | h <;> cases h)))

/-- premise of the block-stage functions: invariant, a legal block size, `tmpIn` large enough for a block and its checksum -/
structure BlkMem (c : Ctx) : Prop where
  inv : MemInv c
  bs : isBS c.maxBlockSize
  cap : c.maxBlockSize + 4 ≤ c.tmpInCap

theorem MemInv.blkMem {c : Ctx} (h : MemInv c) (hs : inBlocks c.stage = true) : BlkMem c := ⟨h, h.blk (Or.inr hs), h.cap hs⟩

theorem decodeBlockHeader_mem (k : Call) (sel : Bytes) (b : BlkMem k.c) : MemKept (decodeBlockHeader k sel) := by
  unfold decodeBlockHeader; dsimp only
  split
  · exact MemInv.inside k.c _ b.inv b.bs b.cap rfl rfl rfl rfl (by mem_triv) (by mem_triv) (by mem_triv) (by mem_triv) (by mem_triv)
  split
  · exact b.inv.alloc
  split
  · exact MemInv.inside k.c _ b.inv b.bs b.cap rfl rfl rfl rfl (by mem_triv) (by mem_triv) (by mem_triv) (by mem_triv) (by mem_triv)
  · rename_i hle _
    have hB : LZ4V.Gen.BFSize = 4 := rfl
    have ht : le (List.take 4 sel) % 2147483648 + (if k.c.blockChecksum = true then LZ4V.Gen.BFSize else 0) ≤ k.c.maxBlockSize + 4 := by
      rw [hB]; split <;> omega
    split
    · exact MemInv.inside k.c _ b.inv b.bs b.cap rfl rfl rfl rfl (by mem_triv) (by mem_triv) (by mem_triv) (fun _ => ht) (by mem_triv)
    · exact MemInv.inside k.c _ b.inv b.bs b.cap rfl rfl rfl rfl (by mem_triv) (by mem_triv) (by mem_triv) (fun _ => ht) (by mem_triv)

theorem sStoreBlockHeader_mem (k : Call) (b : BlkMem k.c) (hs : k.c.stage = .storeBlockHeader) (hst : k.c.staged.length ≤ 4) : MemKept (sStoreBlockHeader k) := by
  unfold sStoreBlockHeader; dsimp only
  have hB : LZ4V.Gen.BHSize = 4 := rfl
  rw [hB]
  split
  · rename_i hlt
    exact MemInv.inside k.c _ b.inv b.bs b.cap rfl rfl rfl (by dsimp only; rw [hs]; rfl) (fun h => by simp [hs] at h) (fun _ => by dsimp only; omega) (fun h => by simp [hs] at h)
      (fun h => by simp [hs] at h) (fun h => by simp [hs] at h)
  · exact decodeBlockHeader_mem _ _ ⟨MemInv.inside k.c _ b.inv b.bs b.cap rfl rfl rfl (by dsimp only; rw [hs]; rfl) (fun h => by simp [hs] at h)
        (fun _ => by dsimp only; rw [List.length_append, List.length_take]; omega) (fun h => by simp [hs] at h) (fun h => by simp [hs] at h) (fun h => by simp [hs] at h), b.bs, b.cap⟩

theorem sGetBlockHeader_mem (k : Call) (b : BlkMem k.c) : MemKept (sGetBlockHeader k) := by
  unfold sGetBlockHeader
  split
  · exact decodeBlockHeader_mem _ _ b
  · exact sStoreBlockHeader_mem _ ⟨MemInv.inside k.c _ b.inv b.bs b.cap rfl rfl rfl rfl (by mem_triv) (fun _ => by simp) (by mem_triv) (by mem_triv) (by mem_triv), b.bs, b.cap⟩ rfl (by simp)

theorem sCopyDirect_mem (k : Call) (b : BlkMem k.c) (hs : k.c.stage = .copyDirect) : MemKept (sCopyDirect k) := by
  unfold sCopyDirect; dsimp only
  split
  · split
    · exact MemInv.inside k.c _ b.inv b.bs b.cap rfl rfl rfl rfl (fun _ => by simp) (by mem_triv) (by mem_triv) (by mem_triv) (by mem_triv)
    · exact MemInv.inside k.c _ b.inv b.bs b.cap rfl rfl rfl rfl (by mem_triv) (by mem_triv) (by mem_triv) (by mem_triv) (by mem_triv)
  · exact MemInv.inside k.c _ b.inv b.bs b.cap rfl rfl rfl (by dsimp only; rw [hs]; rfl) (fun h => by simp [hs] at h) (fun h => by simp [hs] at h) (fun h => by simp [hs] at h)
      (fun h => by simp [hs] at h) (fun h => by simp [hs] at h)

theorem checkBlockCrc_mem (E : Env) (k : Call) (sel : Bytes) (b : BlkMem k.c) : MemKept (checkBlockCrc E k sel) := by
  unfold checkBlockCrc
  split
  · exact b.inv.alloc
  · exact MemInv.inside k.c _ b.inv b.bs b.cap rfl rfl rfl rfl (by mem_triv) (by mem_triv) (by mem_triv) (by mem_triv) (by mem_triv)

theorem sGetBlockChecksum_mem (E : Env) (k : Call) (b : BlkMem k.c) (hs : k.c.stage = .getBlockChecksum) (hst : k.c.staged.length ≤ 4) : MemKept (sGetBlockChecksum E k) := by
  unfold sGetBlockChecksum
  split
  · exact checkBlockCrc_mem E _ _ b
  · dsimp only
    have hm : MemInv { k.c with staged := k.c.staged ++ List.take (min (4 - k.c.staged.length) k.src.length) k.src } :=
      MemInv.inside k.c _ b.inv b.bs b.cap rfl rfl rfl (by dsimp only; rw [hs]; rfl) (fun _ => by dsimp only; rw [List.length_append, List.length_take]; omega)
        (fun h => by simp [hs] at h) (fun h => by simp [hs] at h) (fun h => by simp [hs] at h) (fun h => by simp [hs] at h)
    split
    · exact hm
    · exact checkBlockCrc_mem E _ _ ⟨hm, b.bs, b.cap⟩

theorem sFlushOut_mem (k : Call) (b : BlkMem k.c) (hs : k.c.stage = .flushOut) : MemKept (sFlushOut k) := by
  unfold sFlushOut; dsimp only
  split
  · exact MemInv.inside k.c _ b.inv b.bs b.cap rfl rfl rfl rfl (by mem_triv) (by mem_triv) (by mem_triv) (by mem_triv) (by mem_triv)
  · exact MemInv.inside k.c _ b.inv b.bs b.cap rfl rfl rfl (by dsimp only; rw [hs]; rfl) (fun h => by simp [hs] at h) (fun h => by simp [hs] at h) (fun h => by simp [hs] at h)
      (fun h => by simp [hs] at h) (fun h => by simp [hs] at h)

theorem decodeCBlock_mem (E : Env) (k : Call) (sel : Bytes) (b : BlkMem k.c) : MemKept (decodeCBlock E k sel) := by
  unfold decodeCBlock; dsimp only
  split; · exact b.inv.alloc
  have h1 : ∀ c1 : Ctx, c1 = (if k.c.blockChecksum = true then { k.c with tmpInTarget := k.c.tmpInTarget - 4 } else k.c) →
      c1.maxBufferSize = k.c.maxBufferSize ∧ c1.tmpInCap = k.c.tmpInCap ∧ c1.maxBlockSize = k.c.maxBlockSize := by
    intro c1 h; subst h; split <;> exact ⟨rfl, rfl, rfl⟩
  generalize hc1 : (if k.c.blockChecksum = true then { k.c with tmpInTarget := k.c.tmpInTarget - 4 } else k.c) = c1
  obtain ⟨e1, e2, e3⟩ := h1 c1 hc1.symm
  cases E.dec (history c1) (List.take c1.tmpInTarget sel) c1.maxBlockSize with
  | none => show AllocOK c1; unfold AllocOK; rw [e1, e2]; exact b.inv.alloc
  | some d =>
    dsimp only
    by_cases hr : k.room ≥ c1.maxBlockSize
    · rw [if_pos hr]
      exact MemInv.inside k.c _ b.inv b.bs b.cap e1 e2 e3 rfl (by mem_triv) (by mem_triv) (by mem_triv) (by mem_triv) (by mem_triv)
    · rw [if_neg hr]
      refine sFlushOut_mem _ ⟨MemInv.inside k.c _ b.inv b.bs b.cap e1 e2 e3 rfl (by mem_triv) (by mem_triv) (by mem_triv) (by mem_triv) (by mem_triv), ?_, ?_⟩ rfl
      · show isBS c1.maxBlockSize; rw [e3]; exact b.bs
      · show c1.maxBlockSize + 4 ≤ c1.tmpInCap; rw [e2, e3]; exact b.cap

theorem sStoreCBlock_mem (E : Env) (k : Call) (b : BlkMem k.c) (hs : k.c.stage = .storeCBlock) (ht : k.c.tmpInTarget ≤ k.c.maxBlockSize + 4)
    (hst : k.c.staged.length ≤ k.c.tmpInTarget) : MemKept (sStoreCBlock E k) := by
  unfold sStoreCBlock; dsimp only
  have hm : MemInv { k.c with staged := k.c.staged ++ List.take (min (k.c.tmpInTarget - k.c.staged.length) k.src.length) k.src } :=
    MemInv.inside k.c _ b.inv b.bs b.cap rfl rfl rfl (by dsimp only; rw [hs]; rfl) (fun h => by simp [hs] at h) (fun h => by simp [hs] at h) (fun h => by simp [hs] at h)
      (fun _ => ht) (fun _ => by dsimp only; rw [List.length_append, List.length_take]; omega)
  split
  · exact hm
  · exact decodeCBlock_mem E _ _ ⟨hm, b.bs, b.cap⟩

theorem sGetCBlock_mem (E : Env) (k : Call) (b : BlkMem k.c) (ht : k.c.tmpInTarget ≤ k.c.maxBlockSize + 4) : MemKept (sGetCBlock E k) := by
  unfold sGetCBlock
  split
  · exact MemInv.inside k.c _ b.inv b.bs b.cap rfl rfl rfl rfl (by mem_triv) (by mem_triv) (by mem_triv) (fun _ => ht) (fun _ => by simp)
  · exact decodeCBlock_mem E _ _ b

theorem checkSuffix_mem (E : Env) (k : Call) (sel : Bytes) (h : MemInv k.c) : MemKept (checkSuffix E k sel) := by
  unfold checkSuffix
  split
  · exact h.alloc
  · exact memInv_reset _ h

theorem sStoreSuffix_mem (E : Env) (k : Call) (b : BlkMem k.c) (hs : k.c.stage = .storeSuffix) (hst : k.c.staged.length ≤ 4) : MemKept (sStoreSuffix E k) := by
  unfold sStoreSuffix; dsimp only
  have hm : MemInv { k.c with staged := k.c.staged ++ List.take (min (4 - k.c.staged.length) k.src.length) k.src } :=
    MemInv.inside k.c _ b.inv b.bs b.cap rfl rfl rfl (by dsimp only; rw [hs]; rfl) (fun h => by simp [hs] at h) (fun h => by simp [hs] at h)
      (fun _ => by dsimp only; rw [List.length_append, List.length_take]; omega) (fun h => by simp [hs] at h) (fun h => by simp [hs] at h)
  split
  · exact hm
  · exact checkSuffix_mem E _ _ hm

theorem sGetSuffix_mem (E : Env) (k : Call) (b : BlkMem k.c) : MemKept (sGetSuffix E k) := by
  unfold sGetSuffix
  split; · exact b.inv.alloc
  split; · exact memInv_reset _ b.inv
  split
  · exact sStoreSuffix_mem E _ ⟨MemInv.inside k.c _ b.inv b.bs b.cap rfl rfl rfl rfl (by mem_triv) (by mem_triv) (fun _ => by simp) (by mem_triv) (by mem_triv), b.bs, b.cap⟩ rfl (by simp)
  · exact checkSuffix_mem E _ _ b.inv

theorem fhs_le (src : Bytes) : fhs src ≤ 19 := by unfold fhs; split <;> split <;> omega

theorem sInit_mem (k : Call) (h : MemInv k.c) (hs : k.c.stage = .init) : MemKept (sInit k) := by
  unfold sInit; dsimp only
  have hbs := h.blk (Or.inl hs)
  generalize hc1 : (if k.c.contentChecksum = true then { k.c with hashed := [] } else k.c) = c1
  have f1 : c1.maxBufferSize = k.c.maxBufferSize ∧ c1.tmpInCap = k.c.tmpInCap ∧ c1.maxBlockSize = k.c.maxBlockSize ∧ c1.linked = k.c.linked := by
    subst hc1; split <;> exact ⟨rfl, rfl, rfl, rfl⟩
  obtain ⟨a1, a2, a3, a4⟩ := f1
  generalize hc2 : (if c1.maxBlockSize + (if c1.linked = true then 131072 else 0) > c1.maxBufferSize then
      { c1 with tmpInCap := c1.maxBlockSize + LZ4V.Gen.BFSize, maxBufferSize := c1.maxBlockSize + (if c1.linked = true then 131072 else 0) } else c1) = c2
  have f2 : c2.maxBlockSize = k.c.maxBlockSize ∧ AllocOK c2 ∧ c2.maxBlockSize + 4 ≤ c2.tmpInCap := by
    subst hc2
    have hB : LZ4V.Gen.BFSize = 4 := rfl
    by_cases hb : c1.maxBlockSize + (if c1.linked = true then 131072 else 0) > c1.maxBufferSize
    · rw [if_pos hb]
      refine ⟨a3, Or.inr ⟨c1.maxBlockSize, by rw [a3]; exact hbs, ?_, by dsimp only; rw [hB]⟩, by dsimp only; rw [hB]; omega⟩
      dsimp only
      split
      · right; rfl
      · left; omega
    · rw [if_neg hb]
      refine ⟨a3, by unfold AllocOK; rw [a1, a2]; exact h.alloc, ?_⟩
      have ha := h.alloc
      rw [← a1, ← a2] at ha
      rw [a3]
      rw [a3] at hb
      unfold isBS at hbs
      rcases ha with ha | ⟨mb, hmb, hsz, hcap⟩
      · omega
      · unfold isBS at hmb
        rw [hcap]
        split at hb <;> rcases hsz with hsz | hsz <;> rcases hmb with hmb | hmb | hmb | hmb <;> rcases hbs with hbs | hbs | hbs | hbs <;> omega
  obtain ⟨b1, b2, b3⟩ := f2
  have hm : MemInv { c2 with staged := [], tmpInTarget := 0, tmpOut := [], tmpOutStart := 0, content := [], stage := Stage.getBlockHeader } := by
    refine ⟨b2, fun _ => by dsimp only; rw [b1]; exact hbs, fun _ => b3, ?_, ?_, ?_, ?_, ?_, ?_, ?_⟩ <;> mem_triv
  exact sGetBlockHeader_mem _ ⟨hm, by dsimp only; rw [b1]; exact hbs, b3⟩

theorem decodeSFrameSize_mem (k : Call) (sel : Bytes) (h : AllocOK k.c) : MemKept (decodeSFrameSize k sel) := by
  unfold decodeSFrameSize
  exact MemInv.outside _ h (Or.inr (Or.inr (Or.inr (Or.inr rfl)))) (by mem_triv) (by mem_triv)

theorem sStoreSFrameSize_mem (k : Call) (h : AllocOK k.c) (hs : k.c.stage = .storeSFrameSize) (hst : k.c.staged.length ≤ 8 ∧ k.c.tmpInTarget ≤ 8) : MemKept (sStoreSFrameSize k) := by
  unfold sStoreSFrameSize; dsimp only
  split
  · exact MemInv.outside _ h (Or.inr (Or.inr (Or.inr (Or.inl (by dsimp only; exact hs))))) (fun hh => by simp [hs] at hh)
      (fun _ => ⟨by dsimp only; rw [List.length_append, List.length_take]; omega, hst.2⟩)
  · exact decodeSFrameSize_mem _ _ h

theorem sGetSFrameSize_mem (k : Call) (h : AllocOK k.c) : MemKept (sGetSFrameSize k) := by
  unfold sGetSFrameSize
  split
  · exact decodeSFrameSize_mem _ _ h
  · exact sStoreSFrameSize_mem _ h rfl ⟨by simp, by simp⟩

theorem sSkipSkippable_mem (k : Call) (h : AllocOK k.c) (hs : k.c.stage = .skipSkippable) : MemKept (sSkipSkippable k) := by
  unfold sSkipSkippable; dsimp only
  split
  · exact MemInv.outside _ h (Or.inr (Or.inr (Or.inr (Or.inr (by dsimp only; exact hs))))) (fun hh => by simp [hs] at hh) (fun hh => by simp [hs] at hh)
  · exact MemInv.outside _ h (Or.inl rfl) (by mem_triv) (by mem_triv)

/-- `LZ4F_decodeHeader`: the context it leaves (called from the header buffer only with 7 bytes or with exactly the announced header size) -/
theorem decodeHeader_mem (E : Env) (c : Ctx) (src : Bytes) (fromHeader : Bool) (h : AllocOK c)
    (hfh : fromHeader = true → src.length = 7 ∨ (isSkippableMagic (le (src.take 4)) = false ∧ src.length = fhs src))
    (c' : Ctx) (n : Nat) (hres : decodeHeader E c src fromHeader = .ok (c', n)) : MemInv c' := by
  unfold decodeHeader at hres
  split at hres; · cases hres
  dsimp only at hres
  split at hres
  · rename_i hskip
    split at hres
    · rename_i hf
      injection hres with hres; injection hres with h1 h2; subst h1
      have hl : src.length ≤ 8 := by
        rcases hfh hf with hh | ⟨hh, _⟩
        · omega
        · rw [hskip] at hh; cases hh
      exact MemInv.outside _ h (Or.inr (Or.inr (Or.inr (Or.inl rfl)))) (by mem_triv) (fun _ => ⟨hl, by simp⟩)
    · injection hres with hres; injection hres with h1 h2; subst h1
      exact MemInv.outside _ h (Or.inr (Or.inr (Or.inl rfl))) (by mem_triv) (by mem_triv)
  · cases hd : FrameD.decodeHeader E.hash src with
    | error e => rw [hd] at hres; cases hres
    | ok r =>
      rw [hd] at hres
      have hshape := FrameD.decodeHeader_shape E src r hd
      cases r with
      | needMore target =>
        dsimp only at hshape hres
        injection hres with hres; injection hres with h1 h2; subst h1
        have := fhs_le src
        exact MemInv.outside _ h (Or.inr (Or.inl rfl)) (fun _ => ⟨by dsimp only; omega, by dsimp only; omega⟩) (by mem_triv)
      | done hdr size =>
        dsimp only at hres
        injection hres with hres; injection hres with h1 h2; subst h1
        have hb := done_maxBlock E src hdr size hd
        refine ⟨h, fun _ => hb, ?_, ?_, ?_, ?_, ?_, ?_, ?_, ?_⟩ <;> mem_triv

theorem sStoreFrameHeader_mem (E : Env) (k : Call) (h : AllocOK k.c) (hs : k.c.stage = .storeFrameHeader)
    (hst : k.c.staged.length ≤ k.c.tmpInTarget ∧ 7 ≤ k.c.tmpInTarget ∧
      (k.c.tmpInTarget = 7 ∨ (7 ≤ k.c.staged.length ∧ isSkippableMagic (le (k.c.staged.take 4)) = false ∧ k.c.tmpInTarget = fhs k.c.staged))) :
    MemKept (sStoreFrameHeader E k) := by
  unfold sStoreFrameHeader; dsimp only
  obtain ⟨hle, h7, hdis⟩ := hst
  generalize hm : min (k.c.tmpInTarget - k.c.staged.length) k.src.length = n
  have hlen : (k.c.staged ++ List.take n k.src).length = k.c.staged.length + n := by rw [List.length_append, List.length_take]; omega
  have h19 : k.c.tmpInTarget ≤ 19 := by
    rcases hdis with hh | ⟨_, _, hh⟩
    · omega
    · rw [hh]; exact fhs_le _
  have hdis' : k.c.tmpInTarget = 7 ∨ (7 ≤ (k.c.staged ++ List.take n k.src).length ∧ isSkippableMagic (le ((k.c.staged ++ List.take n k.src).take 4)) = false ∧
      k.c.tmpInTarget = fhs (k.c.staged ++ List.take n k.src)) := by
    rcases hdis with hh | ⟨h1, h2, h3⟩
    · exact Or.inl hh
    · exact Or.inr ⟨by omega, by rw [List.take_append_of_le_length (by omega)]; exact h2, by rw [fhs_append _ _ (by omega)]; exact h3⟩
  split
  · exact MemInv.outside _ h (Or.inr (Or.inl (by dsimp only; exact hs))) (fun _ => ⟨by dsimp only; omega, h19⟩) (fun hh => by simp [hs] at hh)
  · rename_i hge
    cases hres : decodeHeader E { k.c with staged := k.c.staged ++ List.take n k.src } (k.c.staged ++ List.take n k.src) true with
    | error e => exact h
    | ok r =>
      obtain ⟨c', m⟩ := r
      dsimp only
      have hfh : true = true → (k.c.staged ++ List.take n k.src).length = 7 ∨ (isSkippableMagic (le ((k.c.staged ++ List.take n k.src).take 4)) = false ∧
          (k.c.staged ++ List.take n k.src).length = fhs (k.c.staged ++ List.take n k.src)) := by
        intro _
        rcases hdis' with hh | ⟨_, h2, h3⟩
        · left; omega
        · right; exact ⟨h2, by omega⟩
      exact decodeHeader_mem E { k.c with staged := k.c.staged ++ List.take n k.src } (k.c.staged ++ List.take n k.src) true h hfh c' m hres

theorem sGetFrameHeader_mem (E : Env) (k : Call) (h : AllocOK k.c) (hs : k.c.stage = .getFrameHeader) : MemKept (sGetFrameHeader E k) := by
  unfold sGetFrameHeader
  split
  · cases hres : decodeHeader E k.c k.src false with
    | error e => exact h
    | ok r =>
      obtain ⟨c', m⟩ := r
      dsimp only
      exact decodeHeader_mem E _ _ false h (fun hh => by cases hh) c' m hres
  · split
    · exact MemInv.outside _ h (Or.inl (by dsimp only; exact hs)) (fun hh => by simp [hs] at hh) (fun hh => by simp [hs] at hh)
    · exact sStoreFrameHeader_mem E _ h rfl ⟨by simp, by simp [show LZ4V.Gen.minFHSize = 7 from rfl], Or.inl rfl⟩

/-- **one execution of the `switch` keeps the memory invariant** (on contexts that satisfy the parse invariant `Inv`, i.e. reachable ones) -/
theorem step_mem (E : Env) (k : Call) (hm : MemInv k.c) (hi : Inv k.c) : MemKept (step E k) := by
  unfold step
  cases hs : k.c.stage <;> dsimp only
  · exact sGetFrameHeader_mem E k hm.alloc hs
  · exact sStoreFrameHeader_mem E k hm.alloc hs (hi.stFH hs)
  · exact sInit_mem k hm hs
  · exact sGetBlockHeader_mem k (hm.blkMem (by rw [hs]; rfl))
  · exact sStoreBlockHeader_mem k (hm.blkMem (by rw [hs]; rfl)) hs (hm.sBH hs)
  · exact sCopyDirect_mem k (hm.blkMem (by rw [hs]; rfl)) hs
  · exact sGetBlockChecksum_mem E k (hm.blkMem (by rw [hs]; rfl)) hs (hm.sBC hs)
  · exact sGetCBlock_mem E k (hm.blkMem (by rw [hs]; rfl)) (hm.tCB (Or.inl hs))
  · exact sStoreCBlock_mem E k (hm.blkMem (by rw [hs]; rfl)) hs (hm.tCB (Or.inr hs)) (hm.sCB hs)
  · exact sFlushOut_mem k (hm.blkMem (by rw [hs]; rfl)) hs
  · exact sGetSuffix_mem E k (hm.blkMem (by rw [hs]; rfl))
  · exact sStoreSuffix_mem E k (hm.blkMem (by rw [hs]; rfl)) hs (hm.sSF hs)
  · exact sGetSFrameSize_mem k hm.alloc
  · exact sStoreSFrameSize_mem k hm.alloc hs (hm.sSS hs)
  · exact sSkipSkippable_mem k hm.alloc hs

theorem loop_mem (E : Env) (hE : DecBounded E) : ∀ (fuel : Nat) (k : Call) (dl : Bytes), MemInv k.c → Inv k.c → Out k.c dl →
    match (loop E fuel k).2 with
    | .hint _ => MemInv (loop E fuel k).1.c
    | _ => True := by
  intro fuel
  induction fuel with
  | zero => intro k dl _ _ _; exact True.intro
  | succ fuel ih =>
    intro k dl hm hi ho
    have hstep := step_ok E hE k dl hi ho
    have hmem := step_mem E k hm hi
    unfold loop
    cases hs : step E k with
    | next k1 =>
      rw [hs] at hstep hmem
      dsimp only
      obtain ⟨d, o, b, _, _, _, _, h4, h5, _⟩ := hstep
      exact ih k1 (dl ++ o) hmem h4 h5
    | stop k1 h =>
      rw [hs] at hmem
      exact hmem
    | fail c e => exact True.intro

theorem decompress_mem (E : Env) (hE : DecBounded E) (c : Ctx) (src : Bytes) (cap : Nat) (dl : Bytes) (hm : MemInv c) (hi : Inv c) (ho : Out c dl) :
    match (decompress E c src cap false).ret with
    | .hint _ => MemInv (decompress E c src cap false).c
    | _ => True := by
  unfold decompress
  dsimp only
  rw [skip_false]
  have hl := loop_mem E hE (fuelFor src) { c := c, src := src, room := cap, out := [] } dl hm hi ho
  revert hl
  generalize loop E (fuelFor src) _ = res
  intro hl
  obtain ⟨k', ret⟩ := res
  cases ret with
  | hint h => exact hl
  | error e => exact True.intro
  | stuck => exact True.intro

/-- **the memory invariant holds in every context a session reaches between two calls** -/
theorem session_mem (E : Env) (hE : DecBounded E) (P0 : Nat → Except Bad (Bytes × Bytes)) :
    ∀ (sched : List (Nat × Nat)) (c : Ctx) (rest out : Bytes), SessInv E P0 c rest out → MemInv c →
    match session E c rest sched out with
    | .pending c' _ _ => MemInv c'
    | .complete c' _ _ => MemInv c'
    | _ => True := by
  intro sched
  induction sched with
  | nil => intro c rest out _ hm; exact hm
  | cons ac sched ih =>
    intro c rest out hsi hm
    obtain ⟨hi, ho, nb0, hrel⟩ := hsi
    obtain ⟨avail, cap⟩ := ac
    have hcall := decompress_ok E hE c (rest.take avail) cap out hi ho
    have hmem := decompress_mem E hE c (rest.take avail) cap out hm hi ho
    have hsplit : rest = rest.take avail ++ rest.drop avail := (List.take_append_drop _ _).symm
    unfold session
    cases hret : (decompress E c (rest.take avail) cap false).ret with
    | hint h =>
      rw [hret] at hcall hmem
      dsimp only at hcall hmem
      obtain ⟨hc, _, nb, hcases⟩ := hcall
      have hdropg : ∀ n, n ≤ (rest.take avail).length → rest.drop n = (rest.take avail).drop n ++ rest.drop avail := by
        intro n hn
        have := List.drop_append_of_le_length (l₂ := rest.drop avail) hn
        rw [List.take_append_drop] at this
        exact this
      have hdrop := hdropg _ hc
      cases h with
      | zero => exact hmem
      | succ h' =>
        rcases hcases with ⟨e0, _⟩ | ⟨e0, e1, e2, e3⟩
        · cases e0
        · apply ih _ _ _ _ hmem
          refine ⟨e1, e2, nb + nb0, ?_⟩
          intro f
          have a := hrel (f + nb)
          have b := e3 f (rest.drop avail)
          rw [← hsplit] at b
          rw [hdrop, ← Nat.add_assoc]
          exact a.trans b
    | error e => exact True.intro
    | stuck => exact True.intro

end LZ4V.Model.FrameDS
