import LZ4V.Proofs.FastDSProof
import LZ4V.Proofs.FastCap
/-!
# The destSize model never exceeds its target

`op` is the serialised length so far; after every emitted sequence at least `1 + LASTLITERALS` bytes of the budget remain
(the C code's `assert(!(… op + 1 + LASTLITERALS > olimit))`); the last run is adapted to what is left.
-/
namespace LZ4V.Model.FastDS
open LZ4V.Model.Fast
open LZ4V.Spec.Block

theorem extLen_red (K : Nat) : extLen (15 - 1 + K * 255) = K := by
  unfold extLen
  by_cases hK : K = 0
  · subst hK; decide
  · have : 15 - 1 + K * 255 ≥ 15 := by omega
    rw [if_pos this]
    omega

theorem emitMatchD_op (P : Params) (cap : Nat) (src : Array UInt8) (st : StD) (ip m op token a ll : Nat) (s : PSeq) (st' : StD)
    (h : emitMatchD P cap src st ip m op token a ll = .seq s st') : st'.op = op + 2 + extLen (s.ml - 4) ∧ s.ll = ll ∧ st'.op + 6 ≤ cap := by
  have c1 : LZ4V.Gen.MFLIMIT = 12 := rfl
  have c2 : LZ4V.Gen.LASTLITERALS = 5 := rfl
  have c3 : LZ4V.Gen.MINMATCH = 4 := rfl
  unfold emitMatchD at h
  simp only [c1, c2, c3] at h
  by_cases hg : op + 2 + 1 + 12 - 4 > cap
  · rw [if_pos hg] at h; cases h
  rw [if_neg hg] at h
  generalize count src (src.size - 5) src.size (ip + 4) (m + 4) = mc0 at h
  -- the (possibly reduced) match code leaves 6 bytes
  have hroom : op + 2 + extLen (redMc cap (op + 2) mc0) + 6 ≤ cap := by
    unfold redMc
    rw [c2]
    by_cases hr : op + 2 + (1 + 5) + (mc0 + 240) / 255 > cap
    · rw [if_pos hr, extLen_red]; omega
    · rw [if_neg hr]
      unfold extLen
      split <;> omega
  generalize redMc cap (op + 2) mc0 = mc at h hroom
  split at h
  · injection h with h1 h2
    subst h1; subst h2
    exact ⟨by dsimp only; rw [Nat.add_sub_cancel], rfl, by dsimp only; omega⟩
  · split at h
    · injection h with h1 h2
      subst h1; subst h2
      exact ⟨by dsimp only; rw [Nat.add_sub_cancel], rfl, by dsimp only; omega⟩
    · injection h with h1 h2
      subst h1; subst h2
      exact ⟨by dsimp only; rw [Nat.add_sub_cancel], rfl, by dsimp only; omega⟩

theorem stepD_op_seq (P : Params) (cap : Nat) (src : Array UInt8) (st : StD) (s : PSeq) (st' : StD) (h : stepD P cap src st = .seq s st') :
    st'.op = st.op + cost s ∧ st'.op + 6 ≤ cap := by
  unfold stepD at h
  dsimp only at h
  split at h
  · cases h
  · cases hp : st.pending with
    | some m =>
      rw [hp] at h
      dsimp only at h
      obtain ⟨e1, e2, e3⟩ := emitMatchD_op P cap src st st.ip m (st.op + 1) st.op st.ip 0 s st' h
      have e0 : extLen 0 = 0 := by decide
      refine ⟨?_, e3⟩
      unfold cost
      rw [e1, e2, e0]
      omega
    | none =>
      rw [hp] at h
      dsimp only at h
      cases hs : search P src (src.size - LZ4V.Gen.MFLIMIT + 1) (src.size + 1) st.ip 1 (P.accel <<< LZ4V.Gen.LZ4_skipTrigger) st.tbl with
      | none => rw [hs] at h; cases h
      | some r =>
        obtain ⟨ip, m, tbl⟩ := r
        rw [hs] at h
        dsimp only at h
        split at h
        · cases h
        · obtain ⟨e1, e2, e3⟩ := emitMatchD_op P cap src _ _ _ _ _ _ _ s st' h
          refine ⟨?_, e3⟩
          unfold cost
          rw [e1, e2]
          omega

theorem stepD_op_last (P : Params) (cap : Nat) (src : Array UInt8) (st st' : StD) (h : stepD P cap src st = .last st') : st'.op = st.op := by
  unfold stepD at h
  dsimp only at h
  split at h
  · injection h with h; rw [← h]
  · cases hp : st.pending with
    | some m =>
      rw [hp] at h
      dsimp only at h
      exact (emitMatchD_last P cap src st _ _ _ _ _ _ st' h).2
    | none =>
      rw [hp] at h
      dsimp only at h
      cases hs : search P src (src.size - LZ4V.Gen.MFLIMIT + 1) (src.size + 1) st.ip 1 (P.accel <<< LZ4V.Gen.LZ4_skipTrigger) st.tbl with
      | none => rw [hs] at h; injection h with h; rw [← h]
      | some r =>
        obtain ⟨ip, m, tbl⟩ := r
        rw [hs] at h
        dsimp only at h
        split at h
        · injection h with h; rw [← h]
        · exact (emitMatchD_last P cap src _ _ _ _ _ _ _ st' h).2

theorem runD_op (P : Params) (cap : Nat) (src : Array UInt8) : ∀ (fuel : Nat) (st : StD), st.op + 1 ≤ cap →
    (runD P cap src fuel st).2.op = st.op + ((runD P cap src fuel st).1.map cost).sum ∧ (runD P cap src fuel st).2.op + 1 ≤ cap := by
  intro fuel
  induction fuel with
  | zero => intro st h; simp only [runD]; exact ⟨by simp, h⟩
  | succ f ih =>
    intro st h
    unfold runD
    cases hs : stepD P cap src st with
    | last st1 =>
      dsimp only
      have := stepD_op_last P cap src st st1 hs
      exact ⟨by simp [this], by omega⟩
    | seq s st1 =>
      dsimp only
      obtain ⟨e1, e2⟩ := stepD_op_seq P cap src st s st1 hs
      obtain ⟨r1, r2⟩ := ih st1 (by omega)
      refine ⟨?_, r2⟩
      rw [r1, e1]
      simp only [List.map_cons, List.sum_cons]
      omega

/-- the last run, with its token and length bytes, fits what is left -/
theorem lastRunD_fits (cap op L : Nat) (h : op + 1 ≤ cap) : op + 1 + lastRunD cap op L + extLen (lastRunD cap op L) ≤ cap := by
  unfold lastRunD
  by_cases hc : op + L + 1 + (L + 255 - 15) / 255 > cap
  · rw [if_pos hc]
    dsimp only
    unfold extLen
    split <;> omega
  · rw [if_neg hc]
    unfold extLen
    split <;> omega

/-- **never beyond the target**: the block the destSize model returns is at most `target` bytes long -/
theorem compressDestSize_fits (src : Array UInt8) (acceleration : Int) (target : Nat) (consumed : Nat) (blk : List UInt8)
    (h : compressDestSize src acceleration target = some (consumed, blk)) : blk.length ≤ target := by
  unfold compressDestSize at h
  cases hc : compressDP (fastParams src acceleration 0 1) target src (fastTableSize src) true with
  | none => rw [hc] at h; cases h
  | some r =>
    obtain ⟨l, anchor, lr⟩ := r
    rw [hc] at h
    simp only [Option.some.injEq, Prod.mk.injEq] at h
    obtain ⟨rfl, rfl⟩ := h
    obtain ⟨p1, p2, _⟩ := compressDP_spec (fastParams src acceleration 0 1) target src (fastTableSize src) true
      (fastParams_byU16 src acceleration 0 1) (fastParams_accel src acceleration 0 1) l anchor lr hc
    have hlastlen : ((src.extract anchor (anchor + lr)).toList).length = lr := by
      simp [Array.toList_extract, List.extract, List.length_take, List.length_drop]
      omega
    rw [serialize_length, PV_cost src l 0 anchor p1, serLast_length, extLen_eq, hlastlen]
    -- the model's own accounting
    unfold compressDP at hc
    dsimp only at hc
    split at hc
    · cases hc
    · rename_i hcap1
      split at hc
      · cases hc
      · rename_i hcap
        split at hc
        · simp only [Option.some.injEq, Prod.mk.injEq] at hc
          obtain ⟨rfl, rfl, rfl⟩ := hc
          have := lastRunD_fits target 0 src.size (by omega)
          simp only [List.map_nil, List.sum_nil]
          omega
        · simp only [↓reduceIte, Option.some.injEq, Prod.mk.injEq] at hc
          rw [runDTR_eq] at hc
          simp only [List.reverse_nil, List.nil_append] at hc
          obtain ⟨rfl, rfl, rfl⟩ := hc
          obtain ⟨o1, o2⟩ := runD_op (fastParams src acceleration 0 1) target src (src.size + 1)
            { anchor := 0, ip := 1, tbl := (Array.replicate (fastTableSize src) 0).setIfInBounds ((fastParams src acceleration 0 1).hash 0) 0, op := 0 } (by dsimp only; omega)
          have := lastRunD_fits target _ (src.size - (runD (fastParams src acceleration 0 1) target src (src.size + 1)
            { anchor := 0, ip := 1, tbl := (Array.replicate (fastTableSize src) 0).setIfInBounds ((fastParams src acceleration 0 1).hash 0) 0, op := 0 }).2.anchor) o2
          dsimp only at o1
          omega

end LZ4V.Model.FastDS
