import LZ4V.Model.FastDS
import LZ4V.Proofs.FastMain
/-!
# The destSize (fillOutput) model: the block decodes to exactly the consumed prefix of the input

New with respect to `FastProof.lean`: a match may be *shortened* to fit the budget, which can move `ip` back below positions
already entered in the hash table; the C code then clears the hash slots of those positions.  The table invariant needs
"slot consistency" (`SC`: a non-zero entry sits in the slot of its own hash) to show that clearing those slots removes every
entry at or beyond the new `ip`.
-/
namespace LZ4V.Model.FastDS
open LZ4V.Model.Fast
open LZ4V.Spec.Block

/-- slot consistency: a non-zero entry is a position stored in the slot its hash designates -/
def SC (P : Params) (tbl : Array Nat) : Prop := ∀ i, tbl.getD i 0 ≠ 0 → P.hash (tbl.getD i 0) = i

theorem getD_set (tbl : Array Nat) (k v i : Nat) :
    (tbl.setIfInBounds k v).getD i 0 = if k = i then (if k < tbl.size then v else 0) else tbl.getD i 0 := by
  rw [Array.getD_eq_getD_getElem?, Array.getElem?_setIfInBounds, Array.getD_eq_getD_getElem?]
  by_cases hki : k = i
  · rw [if_pos hki, if_pos hki]
    by_cases hk : k < tbl.size
    · rw [if_pos hk, if_pos hk]; rfl
    · rw [if_neg hk, if_neg hk]; rfl
  · rw [if_neg hki, if_neg hki]

theorem SC.set {P : Params} {tbl : Array Nat} (h : SC P tbl) (p : Nat) : SC P (tbl.setIfInBounds (P.hash p) p) := by
  intro i hi
  rw [getD_set] at hi ⊢
  by_cases hki : P.hash p = i
  · rw [if_pos hki] at hi ⊢
    by_cases hk : P.hash p < tbl.size
    · rw [if_pos hk]; exact hki
    · rw [if_neg hk] at hi; exact absurd rfl hi
  · rw [if_neg hki] at hi ⊢
    exact h i hi

theorem SC.clear {P : Params} {tbl : Array Nat} (h : SC P tbl) (k : Nat) : SC P (tbl.setIfInBounds k 0) := by
  intro i hi
  rw [getD_set] at hi ⊢
  by_cases hki : k = i
  · rw [if_pos hki] at hi
    by_cases hk : k < tbl.size
    · rw [if_pos hk] at hi; exact absurd rfl hi
    · rw [if_neg hk] at hi; exact absurd rfl hi
  · rw [if_neg hki] at hi ⊢
    exact h i hi

theorem SC.replicate (P : Params) (k : Nat) : SC P (Array.replicate k 0) := by
  intro i hi
  exfalso
  apply hi
  rw [Array.getD_eq_getD_getElem?, Array.getElem?_replicate]
  split <;> rfl

/-- clearing the slots of positions `p .. p+k-1`: an entry that survives non-zero is an old entry whose slot was not hit -/
theorem clearRange_spec (P : Params) : ∀ (k : Nat) (tbl : Array Nat) (p i : Nat), (clearRange P k tbl p).getD i 0 ≠ 0 →
    (clearRange P k tbl p).getD i 0 = tbl.getD i 0 ∧ ∀ q, p ≤ q → q < p + k → P.hash q ≠ i := by
  intro k
  induction k with
  | zero => intro tbl p i _; exact ⟨rfl, fun q h1 h2 => absurd h2 (by omega)⟩
  | succ k ih =>
    intro tbl p i hne
    unfold clearRange at hne ⊢
    obtain ⟨e1, e2⟩ := ih (tbl.setIfInBounds (P.hash p) 0) (p + 1) i hne
    rw [e1] at hne
    rw [getD_set] at hne e1
    by_cases hki : P.hash p = i
    · rw [if_pos hki] at hne
      split at hne <;> exact absurd rfl hne
    · rw [if_neg hki] at e1
      refine ⟨e1, ?_⟩
      intro q h1 h2
      by_cases hq : q = p
      · rw [hq]; exact hki
      · exact e2 q (by omega) (by omega)

theorem clearRange_SC (P : Params) : ∀ (k : Nat) (tbl : Array Nat) (p : Nat), SC P tbl → SC P (clearRange P k tbl p) := by
  intro k
  induction k with
  | zero => intro tbl p h; exact h
  | succ k ih => intro tbl p h; unfold clearRange; exact ih _ _ (h.clear _)

theorem clearRange_TI (P : Params) : ∀ (k : Nat) (tbl : Array Nat) (p q : Nat), 0 < q → TI tbl q → TI (clearRange P k tbl p) q := by
  intro k
  induction k with
  | zero => intro tbl p q _ h; exact h
  | succ k ih => intro tbl p q hq h; unfold clearRange; exact ih _ _ _ hq (h.set _ _ hq)

/-- after clearing `[lo, hi]`, a table whose entries were all `≤ hi` has all entries `< lo` -/
theorem clearRange_below (P : Params) (tbl : Array Nat) (lo hi : Nat) (hlo : 0 < lo) (hsc : SC P tbl) (hti : TI tbl (hi + 1)) (hle : lo ≤ hi) :
    TI (clearRange P (hi + 1 - lo) tbl lo) lo := by
  intro i
  by_cases h0 : (clearRange P (hi + 1 - lo) tbl lo).getD i 0 = 0
  · rw [h0]; exact hlo
  · obtain ⟨e1, e2⟩ := clearRange_spec P _ tbl lo i h0
    rw [e1] at h0 ⊢
    -- the old entry v is non-zero, sits in slot hash v = i, and is ≤ hi; if it were ≥ lo its slot would have been cleared
    have hv := hti i
    have hs := hsc i h0
    by_cases hge : lo ≤ tbl.getD i 0
    · exact absurd hs (e2 _ hge (by omega))
    · omega

theorem search_SC (P : Params) (src : Array UInt8) (mfl1 : Nat) : ∀ (fuel fip step nb : Nat) (tbl : Array Nat) (ip m : Nat) (tbl' : Array Nat),
    search P src mfl1 fuel fip step nb tbl = some (ip, m, tbl') → SC P tbl → SC P tbl' := by
  intro fuel
  induction fuel with
  | zero => intro fip step nb tbl ip m tbl' h; simp [search] at h
  | succ f ih =>
    intro fip step nb tbl ip m tbl' h hsc
    unfold search at h
    dsimp only at h
    split at h
    · cases h
    · split at h
      · exact ih _ _ _ _ ip m tbl' h (hsc.set fip)
      · split at h
        · simp only [Option.some.injEq, Prod.mk.injEq] at h
          obtain ⟨_, _, h3⟩ := h
          subst h3
          exact hsc.set fip
        · exact ih _ _ _ _ ip m tbl' h (hsc.set fip)

/-! ## state invariant and one step -/

def InvD (P : Params) (src : Array UInt8) (st : StD) : Prop :=
  st.anchor ≤ st.ip ∧ st.anchor ≤ src.size ∧ SC P st.tbl ∧
  match st.pending with
  | none => TI st.tbl st.ip
  | some m => TI st.tbl (st.ip + 1) ∧ m < st.ip ∧ st.ip - m ≤ 65535 ∧ eq4 src m st.ip = true ∧ st.ip + 12 ≤ src.size ∧ st.anchor = st.ip

def EmittedD (P : Params) (src : Array UInt8) (a : Nat) (s : PSeq) (st' : StD) : Prop :=
  Seg src a s ∧ 4 ≤ s.ml ∧ s.off ≤ 65535 ∧ st'.anchor = a + s.ll + s.ml ∧ InvD P src st' ∧ st'.anchor + 5 ≤ src.size ∧ a + s.ll + 12 ≤ src.size

/-- the reduced match code is smaller than the counted one (when the reduction applies and the `_next_match` guard passed) -/
theorem redMc_le (cap op3 mc0 : Nat) (hg : op3 + 9 ≤ cap) : redMc cap op3 mc0 ≤ mc0 := by
  have c2 : LZ4V.Gen.LASTLITERALS = 5 := rfl
  unfold redMc
  rw [c2]
  split
  · rename_i h
    have : (mc0 + 240) / 255 ≥ cap - op3 - 1 - 5 + 1 := by omega
    have h2 : mc0 + 240 ≥ 255 * (cap - op3 - 1 - 5 + 1) := by
      have := Nat.div_mul_le_self (mc0 + 240) 255
      have h3 : 255 * (cap - op3 - 1 - 5 + 1) ≤ (mc0 + 240) / 255 * 255 := by
        rw [Nat.mul_comm]; exact Nat.mul_le_mul_right 255 (by omega)
      omega
    omega
  · exact Nat.le_refl _

theorem redTbl_spec (P : Params) (tbl : Array Nat) (filledIp cap op3 mc0 ip x : Nat) (hg : op3 + 9 ≤ cap)
    (hsc : SC P tbl) (hti : TI tbl (ip + x + 1)) (hf : x = 0 ∨ ip + x ≤ filledIp) (hx : x ≤ mc0) :
    SC P (redTbl P tbl filledIp cap op3 mc0 (ip + redMc cap op3 mc0 + 4)) ∧
    TI (redTbl P tbl filledIp cap op3 mc0 (ip + redMc cap op3 mc0 + 4)) (ip + redMc cap op3 mc0 + 4) := by
  have c2 : LZ4V.Gen.LASTLITERALS = 5 := rfl
  unfold redTbl
  by_cases hc : op3 + (1 + LZ4V.Gen.LASTLITERALS) + (mc0 + 240) / 255 > cap ∧ ip + redMc cap op3 mc0 + 4 ≤ filledIp
  · rw [if_pos hc]
    refine ⟨clearRange_SC P _ _ _ hsc, ?_⟩
    apply clearRange_below P tbl _ filledIp (by omega) hsc _ hc.2
    rcases hf with h0 | h0
    · exact hti.mono (by omega)
    · exact hti.mono (by omega)
  · rw [if_neg hc]
    refine ⟨hsc, ?_⟩
    by_cases hr : op3 + (1 + LZ4V.Gen.LASTLITERALS) + (mc0 + 240) / 255 > cap
    · have hnf : ¬ ip + redMc cap op3 mc0 + 4 ≤ filledIp := fun h => hc ⟨hr, h⟩
      rcases hf with h0 | h0
      · exact hti.mono (by omega)
      · exact hti.mono (by omega)
    · have : redMc cap op3 mc0 = mc0 := by unfold redMc; rw [if_neg hr]
      rw [this]
      exact hti.mono (by omega)

theorem emitMatchD_last (P : Params) (cap : Nat) (src : Array UInt8) (st : StD) (ip m op token a ll : Nat) (st' : StD)
    (h : emitMatchD P cap src st ip m op token a ll = .last st') : st'.anchor = st.anchor ∧ st'.op = token := by
  unfold emitMatchD at h
  dsimp only at h
  split at h
  · injection h with h; subst h; exact ⟨rfl, rfl⟩
  · split at h
    · cases h
    · split at h <;> cases h

theorem emitMatchD_seq (P : Params) (cap : Nat) (src : Array UInt8) (hb : P.byU16 = true → src.size < 65547) (st : StD) (ip m op token a ll : Nat)
    (s : PSeq) (st' : StD) (h : emitMatchD P cap src st ip m op token a ll = .seq s st')
    (hlit : a + ll = ip) (hm : m < ip) (hd : P.byU16 = false → ip - m ≤ 65535) (x : Nat)
    (he : ∀ k, k < 4 + x → byteAt src (ip + k) = byteAt src (m + k)) (hip : ip + x + 12 ≤ src.size) (hti : TI st.tbl (ip + x + 1))
    (hsc : SC P st.tbl) (hf : x = 0 ∨ ip + x ≤ st.filledIp) :
    EmittedD P src a s st' := by
  have c1 : LZ4V.Gen.MFLIMIT = 12 := rfl
  have c2 : LZ4V.Gen.LASTLITERALS = 5 := rfl
  have c3 : LZ4V.Gen.MINMATCH = 4 := rfl
  have c4 : LZ4V.Gen.LZ4_DISTANCE_MAX = 65535 := rfl
  unfold emitMatchD at h
  simp only [c1, c2, c3, c4] at h
  by_cases hg : op + 2 + 1 + 12 - 4 > cap
  · rw [if_pos hg] at h; cases h
  rw [if_neg hg] at h
  obtain ⟨cb, cl⟩ := count_spec src (src.size - 5) src.size (ip + 4) (m + 4)
  have hx : x ≤ count src (src.size - 5) src.size (ip + 4) (m + 4) := count_ge src (src.size - 5) x src.size (ip + 4) (m + 4) (by omega) (by omega) (by
    intro j hj
    have := he (4 + j) (by omega)
    have e1 : ip + (4 + j) = ip + 4 + j := by omega
    have e2 : m + (4 + j) = m + 4 + j := by omega
    rw [e1, e2] at this; exact this)
  generalize hmc0 : count src (src.size - 5) src.size (ip + 4) (m + 4) = mc0 at h cb cl hx
  have hle := redMc_le cap (op + 2) mc0 (by omega)
  obtain ⟨hsc0, hti0⟩ := redTbl_spec P st.tbl st.filledIp cap (op + 2) mc0 ip x (by omega) hsc hti hf hx
  generalize hmcdef : redMc cap (op + 2) mc0 = mc at h hle hsc0 hti0
  generalize htbldef : redTbl P st.tbl st.filledIp cap (op + 2) mc0 (ip + mc + 4) = tbl0 at h hsc0 hti0
  have hend : ip + mc + 4 + 5 ≤ src.size := by
    by_cases h0 : 0 < mc0
    · have := cl h0; omega
    · omega
  have hseg : Seg src a ⟨a, ll, ip - m, mc + 4⟩ := by
    refine ⟨rfl, by dsimp only; omega, by dsimp only; omega, by dsimp only; omega, ?_⟩
    intro k hk
    dsimp only at hk ⊢
    have e : a + ll + k - (ip - m) = m + k := by omega
    rw [e, hlit]
    by_cases hk4 : k < 4
    · exact he k (by omega)
    · have := cb (k - 4) (by omega)
      have e1 : ip + 4 + (k - 4) = ip + k := by omega
      have e2 : m + 4 + (k - 4) = m + k := by omega
      rw [e1, e2] at this
      exact this
  have hoff : ip - m ≤ 65535 := by
    cases hbb : P.byU16 with
    | false => exact hd hbb
    | true => have := hb hbb; omega
  by_cases hfin : ip + mc + 4 ≥ src.size - 12 + 1
  · rw [if_pos hfin] at h
    injection h with h1 h2
    subst h1; subst h2
    refine ⟨hseg, by dsimp only; omega, hoff, by dsimp only; omega, ?_, by dsimp only; omega, by dsimp only; omega⟩
    exact ⟨Nat.le_refl _, by dsimp only; omega, hsc0, hti0⟩
  · rw [if_neg hfin] at h
    have hti1 : TI (tbl0.setIfInBounds (P.hash (ip + mc + 4 - 2)) (ip + mc + 4 - 2)) (ip + mc + 4) := hti0.set _ _ (by omega)
    have hsc1 : SC P (tbl0.setIfInBounds (P.hash (ip + mc + 4 - 2)) (ip + mc + 4 - 2)) := hsc0.set _
    have hmi := hti1 (P.hash (ip + mc + 4))
    have hti2 : TI ((tbl0.setIfInBounds (P.hash (ip + mc + 4 - 2)) (ip + mc + 4 - 2)).setIfInBounds (P.hash (ip + mc + 4)) (ip + mc + 4)) (ip + mc + 4 + 1) :=
      (hti1.mono (by omega)).set _ _ (by omega)
    have hsc2 : SC P ((tbl0.setIfInBounds (P.hash (ip + mc + 4 - 2)) (ip + mc + 4 - 2)).setIfInBounds (P.hash (ip + mc + 4)) (ip + mc + 4)) := hsc1.set _
    generalize hmidef : (tbl0.setIfInBounds (P.hash (ip + mc + 4 - 2)) (ip + mc + 4 - 2)).getD (P.hash (ip + mc + 4)) 0 = mi at h hmi
    by_cases hnext : ((P.byU16 || decide (mi + 65535 ≥ ip + mc + 4)) && eq4 src mi (ip + mc + 4)) = true
    · rw [if_pos hnext] at h
      injection h with h1 h2
      subst h1; subst h2
      simp only [Bool.and_eq_true, Bool.or_eq_true, decide_eq_true_eq] at hnext
      refine ⟨hseg, by dsimp only; omega, hoff, by dsimp only; omega, ?_, by dsimp only; omega, by dsimp only; omega⟩
      refine ⟨Nat.le_refl _, by dsimp only; omega, hsc2, ?_⟩
      dsimp only
      refine ⟨hti2, hmi, ?_, hnext.2, by omega, rfl⟩
      rcases hnext.1 with hb1 | hb1
      · have := hb hb1; omega
      · omega
    · rw [if_neg hnext] at h
      injection h with h1 h2
      subst h1; subst h2
      refine ⟨hseg, by dsimp only; omega, hoff, by dsimp only; omega, ?_, by dsimp only; omega, by dsimp only; omega⟩
      exact ⟨by dsimp only; omega, by dsimp only; omega, hsc2, hti2⟩

end LZ4V.Model.FastDS
