import LZ4V.Model.FastDS
import LZ4V.Proofs.FastMain
/-!
# The destSize (fillOutput) model: the block decodes to exactly the consumed prefix of the input

New with respect to `FastProof.lean`: a match may be *shortened* to fit the budget, which can move `ip` back below positions
already entered in the hash table; the C code then clears the hash slots of those positions.  The table invariant needs
"slot consistency" (`SC`: a non-zero entry sits in the slot of its own hash) to show that clearing those slots removes every
entry at or beyond the new `ip`.
-/
namespace LZ4V.Model.FastDS
open LZ4V.Model.Fast
open LZ4V.Spec.Block

/-- slot consistency: a non-zero entry is a position stored in the slot its hash designates -/
def SC (P : Params) (tbl : Array Nat) : Prop := ∀ i, tbl.getD i 0 ≠ 0 → P.hash (tbl.getD i 0) = i

theorem getD_set (tbl : Array Nat) (k v i : Nat) :
    (tbl.setIfInBounds k v).getD i 0 = if k = i then (if k < tbl.size then v else 0) else tbl.getD i 0 := by
  rw [Array.getD_eq_getD_getElem?, Array.getElem?_setIfInBounds, Array.getD_eq_getD_getElem?]
  by_cases hki : k = i
  · rw [if_pos hki, if_pos hki]
    by_cases hk : k < tbl.size
    · rw [if_pos hk, if_pos hk]; rfl
    · rw [if_neg hk, if_neg hk]; rfl
  · rw [if_neg hki, if_neg hki]

theorem SC.set {P : Params} {tbl : Array Nat} (h : SC P tbl) (p : Nat) : SC P (tbl.setIfInBounds (P.hash p) p) := by
  intro i hi
  rw [getD_set] at hi ⊢
  by_cases hki : P.hash p = i
  · rw [if_pos hki] at hi ⊢
    by_cases hk : P.hash p < tbl.size
    · rw [if_pos hk]; exact hki
    · rw [if_neg hk] at hi; exact absurd rfl hi
  · rw [if_neg hki] at hi ⊢
    exact h i hi

theorem SC.clear {P : Params} {tbl : Array Nat} (h : SC P tbl) (k : Nat) : SC P (tbl.setIfInBounds k 0) := by
  intro i hi
  rw [getD_set] at hi ⊢
  by_cases hki : k = i
  · rw [if_pos hki] at hi
    by_cases hk : k < tbl.size
    · rw [if_pos hk] at hi; exact absurd rfl hi
    · rw [if_neg hk] at hi; exact absurd rfl hi
  · rw [if_neg hki] at hi ⊢
    exact h i hi

theorem SC.replicate (P : Params) (k : Nat) : SC P (Array.replicate k 0) := by
  intro i hi
  exfalso
  apply hi
  rw [Array.getD_eq_getD_getElem?, Array.getElem?_replicate]
  split <;> rfl

/-- clearing the slots of positions `p .. p+k-1`: an entry that survives non-zero is an old entry whose slot was not hit -/
theorem clearRange_spec (P : Params) : ∀ (k : Nat) (tbl : Array Nat) (p i : Nat), (clearRange P k tbl p).getD i 0 ≠ 0 →
    (clearRange P k tbl p).getD i 0 = tbl.getD i 0 ∧ ∀ q, p ≤ q → q < p + k → P.hash q ≠ i := by
  intro k
  induction k with
  | zero => intro tbl p i _; exact ⟨rfl, fun q h1 h2 => absurd h2 (by omega)⟩
  | succ k ih =>
    intro tbl p i hne
    unfold clearRange at hne ⊢
    obtain ⟨e1, e2⟩ := ih (tbl.setIfInBounds (P.hash p) 0) (p + 1) i hne
    rw [e1] at hne
    rw [getD_set] at hne e1
    by_cases hki : P.hash p = i
    · rw [if_pos hki] at hne
      split at hne <;> exact absurd rfl hne
    · rw [if_neg hki] at e1
      refine ⟨e1, ?_⟩
      intro q h1 h2
      by_cases hq : q = p
      · rw [hq]; exact hki
      · exact e2 q (by omega) (by omega)

theorem clearRange_SC (P : Params) : ∀ (k : Nat) (tbl : Array Nat) (p : Nat), SC P tbl → SC P (clearRange P k tbl p) := by
  intro k
  induction k with
  | zero => intro tbl p h; exact h
  | succ k ih => intro tbl p h; unfold clearRange; exact ih _ _ (h.clear _)

theorem clearRange_TI (P : Params) : ∀ (k : Nat) (tbl : Array Nat) (p q : Nat), 0 < q → TI tbl q → TI (clearRange P k tbl p) q := by
  intro k
  induction k with
  | zero => intro tbl p q _ h; exact h
  | succ k ih => intro tbl p q hq h; unfold clearRange; exact ih _ _ _ hq (h.set _ _ hq)

/-- after clearing `[lo, hi]`, a table whose entries were all `≤ hi` has all entries `< lo` -/
theorem clearRange_below (P : Params) (tbl : Array Nat) (lo hi : Nat) (hlo : 0 < lo) (hsc : SC P tbl) (hti : TI tbl (hi + 1)) (hle : lo ≤ hi) :
    TI (clearRange P (hi + 1 - lo) tbl lo) lo := by
  intro i
  by_cases h0 : (clearRange P (hi + 1 - lo) tbl lo).getD i 0 = 0
  · rw [h0]; exact hlo
  · obtain ⟨e1, e2⟩ := clearRange_spec P _ tbl lo i h0
    rw [e1] at h0 ⊢
    -- the old entry v is non-zero, sits in slot hash v = i, and is ≤ hi; if it were ≥ lo its slot would have been cleared
    have hv := hti i
    have hs := hsc i h0
    by_cases hge : lo ≤ tbl.getD i 0
    · exact absurd hs (e2 _ hge (by omega))
    · omega

theorem search_SC (P : Params) (src : Array UInt8) (mfl1 : Nat) : ∀ (fuel fip step nb : Nat) (tbl : Array Nat) (ip m : Nat) (tbl' : Array Nat),
    search P src mfl1 fuel fip step nb tbl = some (ip, m, tbl') → SC P tbl → SC P tbl' := by
  intro fuel
  induction fuel with
  | zero => intro fip step nb tbl ip m tbl' h; simp [search] at h
  | succ f ih =>
    intro fip step nb tbl ip m tbl' h hsc
    unfold search at h
    dsimp only at h
    split at h
    · cases h
    · split at h
      · exact ih _ _ _ _ ip m tbl' h (hsc.set fip)
      · split at h
        · simp only [Option.some.injEq, Prod.mk.injEq] at h
          obtain ⟨_, _, h3⟩ := h
          subst h3
          exact hsc.set fip
        · exact ih _ _ _ _ ip m tbl' h (hsc.set fip)

/-! ## state invariant and one step -/

def InvD (P : Params) (src : Array UInt8) (st : StD) : Prop :=
  st.anchor ≤ st.ip ∧ st.anchor ≤ src.size ∧ SC P st.tbl ∧
  match st.pending with
  | none => TI st.tbl st.ip
  | some m => TI st.tbl (st.ip + 1) ∧ m < st.ip ∧ st.ip - m ≤ 65535 ∧ eq4 src m st.ip = true ∧ st.ip + 12 ≤ src.size ∧ st.anchor = st.ip

def EmittedD (P : Params) (src : Array UInt8) (a : Nat) (s : PSeq) (st' : StD) : Prop :=
  Seg src a s ∧ 4 ≤ s.ml ∧ s.off ≤ 65535 ∧ st'.anchor = a + s.ll + s.ml ∧ InvD P src st' ∧ st'.anchor + 5 ≤ src.size ∧ a + s.ll + 12 ≤ src.size

/-- the reduced match code is smaller than the counted one (when the reduction applies and the `_next_match` guard passed) -/
theorem redMc_le (cap op3 mc0 : Nat) (hg : op3 + 9 ≤ cap) : redMc cap op3 mc0 ≤ mc0 := by
  have c2 : LZ4V.Gen.LASTLITERALS = 5 := rfl
  unfold redMc
  rw [c2]
  split
  · rename_i h
    have : (mc0 + 240) / 255 ≥ cap - op3 - 1 - 5 + 1 := by omega
    have h2 : mc0 + 240 ≥ 255 * (cap - op3 - 1 - 5 + 1) := by
      have := Nat.div_mul_le_self (mc0 + 240) 255
      have h3 : 255 * (cap - op3 - 1 - 5 + 1) ≤ (mc0 + 240) / 255 * 255 := by
        rw [Nat.mul_comm]; exact Nat.mul_le_mul_right 255 (by omega)
      omega
    omega
  · exact Nat.le_refl _

theorem redTbl_spec (P : Params) (tbl : Array Nat) (filledIp cap op3 mc0 ip x : Nat) (hg : op3 + 9 ≤ cap)
    (hsc : SC P tbl) (hti : TI tbl (ip + x + 1)) (hf : x = 0 ∨ ip + x ≤ filledIp) (hx : x ≤ mc0) :
    SC P (redTbl P tbl filledIp cap op3 mc0 (ip + redMc cap op3 mc0 + 4)) ∧
    TI (redTbl P tbl filledIp cap op3 mc0 (ip + redMc cap op3 mc0 + 4)) (ip + redMc cap op3 mc0 + 4) := by
  have c2 : LZ4V.Gen.LASTLITERALS = 5 := rfl
  unfold redTbl
  by_cases hc : op3 + (1 + LZ4V.Gen.LASTLITERALS) + (mc0 + 240) / 255 > cap ∧ ip + redMc cap op3 mc0 + 4 ≤ filledIp
  · rw [if_pos hc]
    refine ⟨clearRange_SC P _ _ _ hsc, ?_⟩
    apply clearRange_below P tbl _ filledIp (by omega) hsc _ hc.2
    rcases hf with h0 | h0
    · exact hti.mono (by omega)
    · exact hti.mono (by omega)
  · rw [if_neg hc]
    refine ⟨hsc, ?_⟩
    by_cases hr : op3 + (1 + LZ4V.Gen.LASTLITERALS) + (mc0 + 240) / 255 > cap
    · have hnf : ¬ ip + redMc cap op3 mc0 + 4 ≤ filledIp := fun h => hc ⟨hr, h⟩
      rcases hf with h0 | h0
      · exact hti.mono (by omega)
      · exact hti.mono (by omega)
    · have : redMc cap op3 mc0 = mc0 := by unfold redMc; rw [if_neg hr]
      rw [this]
      exact hti.mono (by omega)

theorem emitMatchD_last (P : Params) (cap : Nat) (src : Array UInt8) (st : StD) (ip m op token a ll : Nat) (st' : StD)
    (h : emitMatchD P cap src st ip m op token a ll = .last st') : st'.anchor = st.anchor ∧ st'.op = token := by
  unfold emitMatchD at h
  dsimp only at h
  split at h
  · injection h with h; subst h; exact ⟨rfl, rfl⟩
  · split at h
    · cases h
    · split at h <;> cases h

theorem emitMatchD_seq (P : Params) (cap : Nat) (src : Array UInt8) (hb : P.byU16 = true → src.size < 65547) (st : StD) (ip m op token a ll : Nat)
    (s : PSeq) (st' : StD) (h : emitMatchD P cap src st ip m op token a ll = .seq s st')
    (hlit : a + ll = ip) (hm : m < ip) (hd : P.byU16 = false → ip - m ≤ 65535) (x : Nat)
    (he : ∀ k, k < 4 + x → byteAt src (ip + k) = byteAt src (m + k)) (hip : ip + x + 12 ≤ src.size) (hti : TI st.tbl (ip + x + 1))
    (hsc : SC P st.tbl) (hf : x = 0 ∨ ip + x ≤ st.filledIp) :
    EmittedD P src a s st' := by
  have c1 : LZ4V.Gen.MFLIMIT = 12 := rfl
  have c2 : LZ4V.Gen.LASTLITERALS = 5 := rfl
  have c3 : LZ4V.Gen.MINMATCH = 4 := rfl
  have c4 : LZ4V.Gen.LZ4_DISTANCE_MAX = 65535 := rfl
  unfold emitMatchD at h
  simp only [c1, c2, c3, c4] at h
  by_cases hg : op + 2 + 1 + 12 - 4 > cap
  · rw [if_pos hg] at h; cases h
  rw [if_neg hg] at h
  obtain ⟨cb, cl⟩ := count_spec src (src.size - 5) src.size (ip + 4) (m + 4)
  have hx : x ≤ count src (src.size - 5) src.size (ip + 4) (m + 4) := count_ge src (src.size - 5) x src.size (ip + 4) (m + 4) (by omega) (by omega) (by
    intro j hj
    have := he (4 + j) (by omega)
    have e1 : ip + (4 + j) = ip + 4 + j := by omega
    have e2 : m + (4 + j) = m + 4 + j := by omega
    rw [e1, e2] at this; exact this)
  generalize hmc0 : count src (src.size - 5) src.size (ip + 4) (m + 4) = mc0 at h cb cl hx
  have hle := redMc_le cap (op + 2) mc0 (by omega)
  obtain ⟨hsc0, hti0⟩ := redTbl_spec P st.tbl st.filledIp cap (op + 2) mc0 ip x (by omega) hsc hti hf hx
  generalize hmcdef : redMc cap (op + 2) mc0 = mc at h hle hsc0 hti0
  generalize htbldef : redTbl P st.tbl st.filledIp cap (op + 2) mc0 (ip + mc + 4) = tbl0 at h hsc0 hti0
  have hend : ip + mc + 4 + 5 ≤ src.size := by
    by_cases h0 : 0 < mc0
    · have := cl h0; omega
    · omega
  have hseg : Seg src a ⟨a, ll, ip - m, mc + 4⟩ := by
    refine ⟨rfl, by dsimp only; omega, by dsimp only; omega, by dsimp only; omega, ?_⟩
    intro k hk
    dsimp only at hk ⊢
    have e : a + ll + k - (ip - m) = m + k := by omega
    rw [e, hlit]
    by_cases hk4 : k < 4
    · exact he k (by omega)
    · have := cb (k - 4) (by omega)
      have e1 : ip + 4 + (k - 4) = ip + k := by omega
      have e2 : m + 4 + (k - 4) = m + k := by omega
      rw [e1, e2] at this
      exact this
  have hoff : ip - m ≤ 65535 := by
    cases hbb : P.byU16 with
    | false => exact hd hbb
    | true => have := hb hbb; omega
  by_cases hfin : ip + mc + 4 ≥ src.size - 12 + 1
  · rw [if_pos hfin] at h
    injection h with h1 h2
    subst h1; subst h2
    refine ⟨hseg, by dsimp only; omega, hoff, by dsimp only; omega, ?_, by dsimp only; omega, by dsimp only; omega⟩
    exact ⟨Nat.le_refl _, by dsimp only; omega, hsc0, hti0⟩
  · rw [if_neg hfin] at h
    have hti1 : TI (tbl0.setIfInBounds (P.hash (ip + mc + 4 - 2)) (ip + mc + 4 - 2)) (ip + mc + 4) := hti0.set _ _ (by omega)
    have hsc1 : SC P (tbl0.setIfInBounds (P.hash (ip + mc + 4 - 2)) (ip + mc + 4 - 2)) := hsc0.set _
    have hmi := hti1 (P.hash (ip + mc + 4))
    have hti2 : TI ((tbl0.setIfInBounds (P.hash (ip + mc + 4 - 2)) (ip + mc + 4 - 2)).setIfInBounds (P.hash (ip + mc + 4)) (ip + mc + 4)) (ip + mc + 4 + 1) :=
      (hti1.mono (by omega)).set _ _ (by omega)
    have hsc2 : SC P ((tbl0.setIfInBounds (P.hash (ip + mc + 4 - 2)) (ip + mc + 4 - 2)).setIfInBounds (P.hash (ip + mc + 4)) (ip + mc + 4)) := hsc1.set _
    generalize hmidef : (tbl0.setIfInBounds (P.hash (ip + mc + 4 - 2)) (ip + mc + 4 - 2)).getD (P.hash (ip + mc + 4)) 0 = mi at h hmi
    by_cases hnext : ((P.byU16 || decide (mi + 65535 ≥ ip + mc + 4)) && eq4 src mi (ip + mc + 4)) = true
    · rw [if_pos hnext] at h
      injection h with h1 h2
      subst h1; subst h2
      simp only [Bool.and_eq_true, Bool.or_eq_true, decide_eq_true_eq] at hnext
      refine ⟨hseg, by dsimp only; omega, hoff, by dsimp only; omega, ?_, by dsimp only; omega, by dsimp only; omega⟩
      refine ⟨Nat.le_refl _, by dsimp only; omega, hsc2, ?_⟩
      dsimp only
      refine ⟨hti2, hmi, ?_, hnext.2, by omega, rfl⟩
      rcases hnext.1 with hb1 | hb1
      · have := hb hb1; omega
      · omega
    · rw [if_neg hnext] at h
      injection h with h1 h2
      subst h1; subst h2
      refine ⟨hseg, by dsimp only; omega, hoff, by dsimp only; omega, ?_, by dsimp only; omega, by dsimp only; omega⟩
      exact ⟨by dsimp only; omega, by dsimp only; omega, hsc2, hti2⟩

theorem stepD_last (P : Params) (cap : Nat) (src : Array UInt8) (st st' : StD) (h : stepD P cap src st = .last st') : st'.anchor = st.anchor := by
  unfold stepD at h
  dsimp only at h
  split at h
  · injection h with h; rw [← h]
  · cases hp : st.pending with
    | some m =>
      rw [hp] at h
      dsimp only at h
      exact (emitMatchD_last P cap src st _ _ _ _ _ _ st' h).1
    | none =>
      rw [hp] at h
      dsimp only at h
      cases hs : search P src (src.size - LZ4V.Gen.MFLIMIT + 1) (src.size + 1) st.ip 1 (P.accel <<< LZ4V.Gen.LZ4_skipTrigger) st.tbl with
      | none => rw [hs] at h; injection h with h; rw [← h]
      | some r =>
        obtain ⟨ip, m, tbl⟩ := r
        rw [hs] at h
        dsimp only at h
        split at h
        · injection h with h; rw [← h]
        · exact (emitMatchD_last P cap src _ _ _ _ _ _ _ st' h).1

theorem stepD_seq (P : Params) (cap : Nat) (src : Array UInt8) (hb : P.byU16 = true → src.size < 65547) (ha : 1 ≤ P.accel) (hn : 13 ≤ src.size)
    (st : StD) (s : PSeq) (st' : StD) (hi : InvD P src st) (h : stepD P cap src st = .seq s st') : EmittedD P src st.anchor s st' := by
  obtain ⟨i1, i2, isc, i3⟩ := hi
  unfold stepD at h
  dsimp only at h
  split at h
  · cases h
  · cases hp : st.pending with
    | some m =>
      rw [hp] at h i3
      dsimp only at h i3
      obtain ⟨p1, p2, p3, p4, p5, p6⟩ := i3
      rw [p6]
      exact emitMatchD_seq P cap src hb st st.ip m (st.op + 1) st.op st.ip 0 s st' h rfl p2 (fun _ => p3) 0 (eq4_spec src st.ip m (by
        unfold eq4 at p4 ⊢
        simp only [Bool.and_eq_true, beq_iff_eq] at p4 ⊢
        obtain ⟨⟨⟨q0, q1⟩, q2⟩, q3⟩ := p4
        exact ⟨⟨⟨q0.symm, q1.symm⟩, q2.symm⟩, q3.symm⟩)) (by omega) p1 isc (Or.inl rfl)
    | none =>
      rw [hp] at h i3
      dsimp only at h i3
      have c1 : LZ4V.Gen.MFLIMIT = 12 := rfl
      have c6 : LZ4V.Gen.LZ4_skipTrigger = 6 := rfl
      cases hs : search P src (src.size - LZ4V.Gen.MFLIMIT + 1) (src.size + 1) st.ip 1 (P.accel <<< LZ4V.Gen.LZ4_skipTrigger) st.tbl with
      | none => rw [hs] at h; cases h
      | some r =>
        obtain ⟨ip, m, tbl⟩ := r
        rw [hs] at h
        dsimp only at h
        have hnb : 64 ≤ P.accel <<< LZ4V.Gen.LZ4_skipTrigger := by
          rw [c6, Nat.shiftLeft_eq]
          have : (2 : Nat) ^ 6 = 64 := by decide
          rw [this]; omega
        obtain ⟨s1, s2, s3, s4, s5, s6⟩ := search_spec P src _ _ _ _ _ _ ip m tbl hs i3 (Nat.le_refl 1) hnb
        have ssc := search_SC P src _ _ _ _ _ _ ip m tbl hs isc
        rw [c1] at s2
        obtain ⟨d, d1, d2, d3, d4⟩ := catchUp_spec src st.anchor src.size ip m 4 (by omega) s3 (eq4_spec src ip m (by
          unfold eq4 at s5 ⊢
          simp only [Bool.and_eq_true, beq_iff_eq] at s5 ⊢
          obtain ⟨⟨⟨q0, q1⟩, q2⟩, q3⟩ := s5
          exact ⟨⟨⟨q0.symm, q1.symm⟩, q2.symm⟩, q3.symm⟩))
        generalize hc : catchUp src st.anchor src.size ip m = c at h d1 d2 d3 d4
        split at h
        · cases h
        · exact emitMatchD_seq P cap src hb _ c.1 c.2 _ _ st.anchor (c.1 - st.anchor) s st' h (by omega) (by omega)
            (fun hbb => by have := s4 hbb; omega) d d4 (by omega) (by
              have e : c.1 + d + 1 = ip + 1 := by omega
              rw [e]; exact s6) ssc (Or.inr (by dsimp only; omega))

theorem runD_spec (P : Params) (cap : Nat) (src : Array UInt8) (hb : P.byU16 = true → src.size < 65547) (ha : 1 ≤ P.accel) (hn : 13 ≤ src.size) :
    ∀ (fuel : Nat) (st : StD), InvD P src st →
    PV src st.anchor (runD P cap src fuel st).1 (runD P cap src fuel st).2.anchor ∧ (runD P cap src fuel st).2.anchor ≤ src.size ∧
    (∀ s ∈ (runD P cap src fuel st).1, 4 ≤ s.ml ∧ 1 ≤ s.off ∧ s.off ≤ 65535 ∧ s.lit + s.ll + 12 ≤ src.size) ∧
    ((runD P cap src fuel st).1 ≠ [] → (runD P cap src fuel st).2.anchor + 5 ≤ src.size) := by
  intro fuel
  induction fuel with
  | zero =>
    intro st hi
    simp only [runD]
    exact ⟨rfl, hi.2.1, (fun s hs => by cases hs), (fun h => absurd rfl h)⟩
  | succ f ih =>
    intro st hi
    unfold runD
    cases hs : stepD P cap src st with
    | last st1 =>
      dsimp only
      have := stepD_last P cap src st st1 hs
      exact ⟨by simp only [PV]; exact this.symm, by rw [this]; exact hi.2.1, (fun s hs => by cases hs), (fun h => absurd rfl h)⟩
    | seq s st1 =>
      dsimp only
      obtain ⟨e1, e2, e3, e4, e5, e6, e7⟩ := stepD_seq P cap src hb ha hn st s st1 hi hs
      obtain ⟨r1, r2, r3, r4⟩ := ih st1 e5
      refine ⟨⟨e1, by rw [← e4]; exact r1⟩, r2, ?_, ?_⟩
      · intro x hx
        rcases List.mem_cons.mp hx with rfl | hx'
        · exact ⟨e2, e1.2.1, e3, by rw [e1.1]; exact e7⟩
        · exact r3 x hx'
      · intro _
        by_cases hl1 : (runD P cap src f st1).1 = []
        · have : (runD P cap src f st1).2.anchor = st1.anchor := by
            have := r1
            rw [hl1] at this
            simp only [PV] at this
            exact this.symm
          omega
        · exact r4 hl1

theorem runDTR_eq (P : Params) (cap : Nat) (src : Array UInt8) : ∀ (fuel : Nat) (st : StD) (acc : List PSeq),
    runDTR P cap src fuel st acc = (acc.reverse ++ (runD P cap src fuel st).1, (runD P cap src fuel st).2) := by
  intro fuel
  induction fuel with
  | zero => intro st acc; simp [runDTR, runD]
  | succ f ih =>
    intro st acc
    unfold runDTR runD
    cases hs : stepD P cap src st with
    | last st1 => simp
    | seq s st1 =>
      dsimp only
      rw [ih st1 (s :: acc)]
      simp [List.reverse_cons, List.append_assoc]

theorem lastRunD_le (cap op L : Nat) : lastRunD cap op L ≤ L := by
  unfold lastRunD
  split
  · dsimp only; omega
  · exact Nat.le_refl _

/-- everything the destSize model returns: a valid tiling of `[0, anchor)` and a last run inside the input -/
theorem compressDP_spec (P : Params) (cap : Nat) (src : Array UInt8) (ts : Nat) (tr : Bool) (hb : P.byU16 = true → src.size < 65547) (ha : 1 ≤ P.accel)
    (l : List PSeq) (anchor lr : Nat) (h : compressDP P cap src ts tr = some (l, anchor, lr)) :
    PV src 0 l anchor ∧ anchor + lr ≤ src.size ∧ (∀ s ∈ l, 4 ≤ s.ml ∧ 1 ≤ s.off ∧ s.off ≤ 65535 ∧ s.lit + s.ll + 12 ≤ src.size) := by
  unfold compressDP at h
  dsimp only at h
  have c13 : LZ4V.Gen.LZ4_minLength = 13 := rfl
  split at h
  · cases h
  · split at h
    · cases h
    · split at h
      · simp only [Option.some.injEq, Prod.mk.injEq] at h
        obtain ⟨rfl, rfl, rfl⟩ := h
        exact ⟨rfl, by have := lastRunD_le cap 0 src.size; omega, (fun s hs => by cases hs)⟩
      · rename_i hmin
        rw [c13] at hmin
        have hinv : InvD P src { anchor := 0, ip := 1, tbl := (Array.replicate ts 0).setIfInBounds (P.hash 0) 0, op := 0 } :=
          ⟨by dsimp only; omega, by dsimp only; omega, (SC.replicate P ts).set 0, (TI.replicate ts).set _ _ (by omega)⟩
        obtain ⟨r1, r2, r3, _⟩ := runD_spec P cap src hb ha (by omega) (src.size + 1) _ hinv
        cases tr with
        | true =>
          simp only [↓reduceIte, Option.some.injEq, Prod.mk.injEq] at h
          rw [runDTR_eq] at h
          simp only [List.reverse_nil, List.nil_append] at h
          obtain ⟨rfl, rfl, rfl⟩ := h
          exact ⟨r1, Nat.le_trans (Nat.add_le_add_left (lastRunD_le _ _ _) _) (by omega), r3⟩
        | false =>
          simp only [Bool.false_eq_true, ↓reduceIte, Option.some.injEq, Prod.mk.injEq] at h
          obtain ⟨rfl, rfl, rfl⟩ := h
          exact ⟨r1, Nat.le_trans (Nat.add_le_add_left (lastRunD_le _ _ _) _) (by omega), r3⟩

/-! ## validity with respect to a prefix of the input -/

theorem PV_le (src : Array UInt8) : ∀ (l : List PSeq) (a a' : Nat), PV src a l a' → a ≤ a' := by
  intro l
  induction l with
  | nil => intro a a' h; simp only [PV] at h; omega
  | cons s rest ih => intro a a' h; have := ih _ _ h.2; omega

/-- `PV_valid` for the first `c` bytes of the input, when the tiling ends at or before `c` -/
theorem PV_valid_prefix (src : Array UInt8) (c : Nat) (hc : c ≤ src.size) : ∀ (l : List PSeq) (a a' : Nat), PV src a l a' → a' ≤ c →
    ValidParse ((src.toList.take c).take a) (l.map (toSeq src)) ((src.toList.take c).drop a') (src.toList.take c) := by
  have hlenL : (src.toList.take c).length = c := by rw [List.length_take, Array.length_toList]; omega
  have hget : ∀ i, i < c → (src.toList.take c)[i]? = some (byteAt src i) := by
    intro i hi
    rw [List.getElem?_take_of_lt hi, toList_getElem? src i (by omega)]
  intro l
  induction l with
  | nil =>
    intro a a' h _
    simp only [PV] at h
    subst h
    simp only [List.map_nil, ValidParse]
    exact (List.take_append_drop a _).symm
  | cons s rest ih =>
    intro a a' h ha'
    obtain ⟨⟨hl, ho1, ho2, hn, hb⟩, hrest⟩ := h
    have hle := PV_le src rest _ _ hrest
    simp only [List.map_cons, ValidParse]
    have hlits : (toSeq src s).lits = ((src.toList.take c).drop a).take s.ll := by
      rw [toSeq_lits, hl]
      apply List.ext_getElem?
      intro i
      by_cases hi : i < s.ll
      · rw [List.getElem?_take_of_lt hi, List.getElem?_take_of_lt hi, List.getElem?_drop, List.getElem?_drop,
            toList_getElem? src _ (by omega), hget _ (by omega)]
      · rw [List.getElem?_eq_none (by rw [List.length_take]; omega), List.getElem?_eq_none (by rw [List.length_take]; omega)]
    have hout : (src.toList.take c).take a ++ (toSeq src s).lits = (src.toList.take c).take (a + s.ll) := by
      rw [hlits, List.take_add]
    have hoff : (toSeq src s).off = s.off := rfl
    have hml : (toSeq src s).ml = s.ml := rfl
    refine ⟨((src.toList.take c).drop (a + s.ll)).take s.ml, ?_, ?_, ?_, ?_, ?_⟩
    · rw [List.length_take, List.length_drop, hml, hlenL]; omega
    · rw [hoff]; exact ho1
    · rw [hout, hoff, List.length_take, hlenL]; omega
    · intro k hk
      have hk' : k < s.ml := by
        rw [List.length_take, List.length_drop, hlenL] at hk; omega
      rw [hout, ← List.take_add, List.length_take, hlenL, hoff]
      have e1 : min (a + s.ll) c = a + s.ll := by omega
      rw [e1]
      have hL1 : (List.take (a + s.ll + s.ml) (List.take c src.toList))[a + s.ll + k]? = some (byteAt src (a + s.ll + k)) := by
        rw [List.getElem?_take_of_lt (by omega)]; exact hget _ (by omega)
      have hL2 : (List.take (a + s.ll + s.ml) (List.take c src.toList))[a + s.ll + k - s.off]? = some (byteAt src (a + s.ll + k - s.off)) := by
        rw [List.getElem?_take_of_lt (by omega)]; exact hget _ (by omega)
      rw [hL1, hL2, hb k hk']
    · rw [hout, ← List.take_add]
      exact ih _ _ hrest ha'

/-- **destSize is lossless on what it consumed**: the block `compressDestSize` returns decodes, by the specification decoder, to
    exactly the first `consumed` bytes of the input -/
theorem compressDestSize_prefix (src : Array UInt8) (acceleration : Int) (target : Nat) (consumed : Nat) (blk : List UInt8)
    (h : compressDestSize src acceleration target = some (consumed, blk)) :
    consumed ≤ src.size ∧ decode [] blk = some (src.toList.take consumed) := by
  unfold compressDestSize at h
  cases hc : compressDP (fastParams src acceleration 0 1) target src (fastTableSize src) true with
  | none => rw [hc] at h; cases h
  | some r =>
    obtain ⟨l, anchor, lr⟩ := r
    rw [hc] at h
    simp only [Option.some.injEq, Prod.mk.injEq] at h
    obtain ⟨rfl, rfl⟩ := h
    obtain ⟨p1, p2, p3⟩ := compressDP_spec (fastParams src acceleration 0 1) target src (fastTableSize src) true (fastParams_byU16 src acceleration 0 1) (fastParams_accel src acceleration 0 1) l anchor lr hc
    refine ⟨p2, ?_⟩
    have hv := PV_valid_prefix src (anchor + lr) p2 l 0 anchor p1 (by omega)
    simp only [List.take_zero] at hv
    have hlast : (src.extract anchor (anchor + lr)).toList = (src.toList.take (anchor + lr)).drop anchor := by
      simp only [Array.toList_extract, List.extract]
      apply List.ext_getElem?
      intro i
      by_cases hi : i < lr
      · rw [List.getElem?_take_of_lt (by omega), List.getElem?_drop, List.getElem?_drop, List.getElem?_take_of_lt (by omega)]
      · rw [List.getElem?_eq_none (by rw [List.length_take]; omega),
            List.getElem?_eq_none (by rw [List.length_drop, List.length_take, Array.length_toList]; omega)]
    rw [hlast]
    exact roundtrip [] _ _ _ (fun s hs => by
      obtain ⟨x, hx, rfl⟩ := List.mem_map.mp hs
      obtain ⟨q1, _, q3, _⟩ := p3 x hx
      exact ⟨q1, by show x.off < 65536; omega⟩) (by simpa using hv)

end LZ4V.Model.FastDS
