import LZ4V.Proofs.FastMain
/-!
# The fast compressor model and the destination capacity

`op` (the model's output position) is exactly the length of what has been serialised so far; the `limitedOutput` checks
therefore guarantee that a returned block fits the capacity; without a limit the model never returns 0.
-/
namespace LZ4V.Model.Fast
open LZ4V.Spec.Block

/-- bytes a sequence occupies: token, literal-length bytes, literals, offset, match-length bytes -/
def cost (s : PSeq) : Nat := 3 + s.ll + extLen s.ll + extLen (s.ml - 4)

theorem emitMatch_op (P : Params) (src : Array UInt8) (st : St) (ip m op a ll : Nat) (s : PSeq) (st' : St)
    (h : emitMatch P src st ip m op a ll = .seq s st') : st'.op = op + 2 + extLen (s.ml - 4) ∧ s.ll = ll := by
  have c3 : LZ4V.Gen.MINMATCH = 4 := rfl
  unfold emitMatch at h
  simp only [c3] at h
  split at h
  · cases h
  · split at h
    · injection h with h1 h2
      subst h1; subst h2
      exact ⟨by dsimp only; rw [Nat.add_sub_cancel], rfl⟩
    · split at h
      · injection h with h1 h2
        subst h1; subst h2
        exact ⟨by dsimp only; rw [Nat.add_sub_cancel], rfl⟩
      · injection h with h1 h2
        subst h1; subst h2
        exact ⟨by dsimp only; rw [Nat.add_sub_cancel], rfl⟩

theorem step_op (P : Params) (src : Array UInt8) (st : St) (s : PSeq) (st' : St) (h : step P src st = .seq s st') :
    st'.op = st.op + cost s := by
  unfold step at h
  dsimp only at h
  split at h
  · cases h
  · cases hp : st.pending with
    | some m =>
      rw [hp] at h
      dsimp only at h
      obtain ⟨e1, e2⟩ := emitMatch_op P src st st.ip m (st.op + 1) st.ip 0 s st' h
      have e0 : extLen 0 = 0 := by decide
      unfold cost
      rw [e1, e2, e0]
      omega
    | none =>
      rw [hp] at h
      dsimp only at h
      cases hs : search P src (src.size - LZ4V.Gen.MFLIMIT + 1) (src.size + 1) st.ip 1 (P.accel <<< LZ4V.Gen.LZ4_skipTrigger) st.tbl with
      | none => rw [hs] at h; cases h
      | some r =>
        obtain ⟨ip, m, tbl⟩ := r
        rw [hs] at h
        dsimp only at h
        split at h
        · cases h
        · obtain ⟨e1, e2⟩ := emitMatch_op P src _ _ _ _ _ _ s st' h
          unfold cost
          rw [e1, e2]
          omega

theorem run_op (P : Params) (src : Array UInt8) : ∀ (fuel : Nat) (st : St) (l : List PSeq) (stf : St),
    run P src fuel st = some (l, stf) → stf.op = st.op + (l.map cost).sum := by
  intro fuel
  induction fuel with
  | zero =>
    intro st l stf h
    simp only [run, Option.some.injEq, Prod.mk.injEq] at h
    obtain ⟨rfl, rfl⟩ := h
    simp
  | succ f ih =>
    intro st l stf h
    unfold run at h
    cases hs : step P src st with
    | fail => rw [hs] at h; cases h
    | last st1 =>
      rw [hs] at h
      simp only [Option.some.injEq, Prod.mk.injEq] at h
      obtain ⟨rfl, rfl⟩ := h
      rw [step_last P src st st1 hs]
      simp
    | seq s st1 =>
      rw [hs] at h
      dsimp only at h
      cases hr : run P src f st1 with
      | none => rw [hr] at h; cases h
      | some r =>
        obtain ⟨l1, stf1⟩ := r
        rw [hr] at h
        simp only [Option.some.injEq, Prod.mk.injEq] at h
        obtain ⟨rfl, rfl⟩ := h
        rw [ih st1 l1 stf1 hr, step_op P src st s st1 hs]
        simp only [List.map_cons, List.sum_cons]
        omega

theorem extLen_eq (v : Nat) : (ext v).length = extLen v := by
  rw [ext_length]; rfl

theorem serSeq_cost (src : Array UInt8) (s : PSeq) (h : s.lit + s.ll ≤ src.size) : (serSeq (toSeq src s)).length = cost s := by
  have hll : (toSeq src s).lits.length = s.ll := by
    rw [toSeq_lits, List.length_take, List.length_drop, Array.length_toList]; omega
  have hml : (toSeq src s).ml = s.ml := rfl
  rw [serSeq_length, hll, hml, extLen_eq, extLen_eq]
  unfold cost
  omega

theorem PV_cost (src : Array UInt8) : ∀ (l : List PSeq) (a a' : Nat), PV src a l a' →
    ((l.map (toSeq src)).map (fun s => (serSeq s).length)).sum = (l.map cost).sum := by
  intro l
  induction l with
  | nil => intro a a' _; rfl
  | cons s rest ih =>
    intro a a' h
    obtain ⟨⟨hl, _, _, hn, _⟩, hrest⟩ := h
    simp only [List.map_cons, List.sum_cons]
    rw [ih _ _ hrest, serSeq_cost src s (by omega)]

/-- **never beyond the capacity**: with `limitedOutput` every block the model returns fits `cap` -/
theorem compress_fits (P : Params) (src : Array UInt8) (ts : Nat) (hb : P.byU16 = true → src.size < 65547) (ha : 1 ≤ P.accel)
    (cap : Nat) (hl : P.limit = some cap) (blk : List UInt8) (h : compress P src ts = some blk) : blk.length ≤ cap := by
  unfold compress at h
  cases hc : compressP P src ts with
  | none => rw [hc] at h; cases h
  | some r =>
    obtain ⟨l, anchor⟩ := r
    rw [hc] at h
    simp only [Option.some.injEq] at h
    obtain ⟨p1, p2, _, _⟩ := compressP_spec P src ts hb ha l anchor hc
    subst h
    have hlastlen : ((src.extract anchor src.size).toList).length = src.size - anchor := by
      simp [Array.toList_extract, List.extract, List.length_take, List.length_drop]
    rw [serialize_length, PV_cost src l 0 anchor p1, serLast_length, extLen_eq, hlastlen]
    -- the model's own accounting
    unfold compressP at hc
    dsimp only at hc
    have c13 : LZ4V.Gen.LZ4_minLength = 13 := rfl
    have hover : ∀ need, over P need = false → need ≤ cap := by
      intro need hn
      unfold over at hn
      rw [hl] at hn
      simpa using hn
    split at hc
    · cases hc
    · split at hc
      · split at hc
        · cases hc
        · rename_i hov
          simp only [Option.some.injEq, Prod.mk.injEq] at hc
          obtain ⟨rfl, rfl⟩ := hc
          have := hover _ (by simpa using hov)
          simp only [List.map_nil, List.sum_nil, extLen]
          split <;> omega
      · cases hr : run P src (src.size + 1) { anchor := 0, ip := 1, tbl := (Array.replicate ts 0).setIfInBounds (P.hash 0) 0, op := 0 } with
        | none => rw [hr] at hc; cases hc
        | some r =>
          obtain ⟨l1, stf⟩ := r
          rw [hr] at hc
          dsimp only at hc
          split at hc
          · cases hc
          · rename_i hov
            simp only [Option.some.injEq, Prod.mk.injEq] at hc
            obtain ⟨rfl, rfl⟩ := hc
            have hop := run_op P src _ _ _ _ hr
            dsimp only at hop
            have := hover _ (by simpa using hov)
            rw [hop] at this
            simp only [extLen]
            split <;> omega

/-- without an output limit a step never gives up -/
theorem step_nofail (P : Params) (src : Array UInt8) (hl : P.limit = none) (st : St) : step P src st ≠ .fail := by
  have hov : ∀ x, over P x = false := by intro x; unfold over; rw [hl]
  intro h
  unfold step at h
  dsimp only at h
  split at h
  · cases h
  · cases hp : st.pending with
    | some m =>
      rw [hp] at h
      dsimp only at h
      unfold emitMatch at h
      dsimp only at h
      rw [hov] at h
      simp only [Bool.false_eq_true, ↓reduceIte] at h
      split at h
      · cases h
      · split at h <;> cases h
    | none =>
      rw [hp] at h
      dsimp only at h
      cases hs : search P src (src.size - LZ4V.Gen.MFLIMIT + 1) (src.size + 1) st.ip 1 (P.accel <<< LZ4V.Gen.LZ4_skipTrigger) st.tbl with
      | none => rw [hs] at h; cases h
      | some r =>
        obtain ⟨ip, m, tbl⟩ := r
        rw [hs] at h
        dsimp only at h
        rw [hov] at h
        simp only [Bool.false_eq_true, ↓reduceIte] at h
        unfold emitMatch at h
        dsimp only at h
        rw [hov] at h
        simp only [Bool.false_eq_true, ↓reduceIte] at h
        split at h
        · cases h
        · split at h <;> cases h

theorem run_nofail (P : Params) (src : Array UInt8) (hl : P.limit = none) : ∀ (fuel : Nat) (st : St), run P src fuel st ≠ none := by
  intro fuel
  induction fuel with
  | zero => intro st h; simp [run] at h
  | succ f ih =>
    intro st h
    unfold run at h
    cases hs : step P src st with
    | fail => exact step_nofail P src hl st hs
    | last st1 => rw [hs] at h; cases h
    | seq s st1 =>
      rw [hs] at h
      dsimp only at h
      cases hr : run P src f st1 with
      | none => exact ih st1 hr
      | some r => rw [hr] at h; cases h

theorem compressP_succeeds (P : Params) (src : Array UInt8) (ts : Nat) (hl : P.limit = none) (hn : src.size ≤ LZ4V.Gen.LZ4_MAX_INPUT_SIZE) :
    ∃ r, compressP P src ts = some r := by
  have hov : ∀ x, over P x = false := by intro x; unfold over; rw [hl]
  unfold compressP
  dsimp only
  rw [if_neg (by omega)]
  by_cases h13 : src.size < LZ4V.Gen.LZ4_minLength
  · rw [if_pos h13, hov]
    exact ⟨([], 0), by simp⟩
  · rw [if_neg h13]
    cases hr : run P src (src.size + 1) { anchor := 0, ip := 1, tbl := (Array.replicate ts 0).setIfInBounds (P.hash 0) 0, op := 0 } with
    | none => exact absurd hr (run_nofail P src hl _ _)
    | some r =>
      obtain ⟨l, stf⟩ := r
      dsimp only
      rw [hov]
      exact ⟨(l, stf.anchor), by simp⟩

/-- **success at the bound**: without an output limit (what the entry points select when `dstCapacity ≥ LZ4_compressBound`)
    the model returns a block for every input of legal size -/
theorem compress_succeeds (P : Params) (src : Array UInt8) (ts : Nat) (hl : P.limit = none) (hn : src.size ≤ LZ4V.Gen.LZ4_MAX_INPUT_SIZE) :
    ∃ blk, compress P src ts = some blk := by
  obtain ⟨r, hr⟩ := compressP_succeeds P src ts hl hn
  obtain ⟨l, a⟩ := r
  unfold compress
  rw [hr]
  exact ⟨_, rfl⟩

end LZ4V.Model.Fast
