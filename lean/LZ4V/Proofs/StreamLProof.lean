import LZ4V.Proofs.FrameLProof
/-!
# Streams: more fuel never changes an answer; concatenation; truncated LZ4 frames are never accepted
-/
namespace LZ4V.Spec.FrameL
open LZ4V.Spec.Frame (Bad Header blockSizeOf isSkippableMagic legacyMagic isKnownMagic)

theorem pAnyFrame_local (E : Env) (dict : Bytes) (F : Nat) : LocalG G (pAnyFrame E dict F) := by
  unfold pAnyFrame
  apply LocalG.bind (Local.takeN 4)
  intro m4
  apply LocalG.ite
  · exact (pFrameBody_local E dict F).toG
  · apply LocalG.ite
    · exact pLegacy_local E F []
    · apply LocalG.ite
      · exact (Local.bind pSkippable_local (fun _ => Local.pure _)).toG
      · exact (Local.fail _).toG

theorem Le.ite {c : Prop} [Decidable c] {p p' q q' : Parser α} (hp : Le p p') (hq : Le q q') : Le (if c then p else q) (if c then p' else q') := by
  split <;> assumption

theorem pAnyFrame_mono (E : Env) (dict : Bytes) (F d : Nat) : Le (pAnyFrame E dict F) (pAnyFrame E dict (F + d)) := by
  unfold pAnyFrame
  apply Le.bind
  intro m4
  apply Le.ite
  · exact pFrameBody_mono E dict F d
  · apply Le.ite
    · exact pLegacy_mono E [] F d
    · exact Le.refl _

theorem pStream_zero (E : Env) (dict : Bytes) (F : Nat) (s : Bytes) : pStream E dict F 0 s = .error (.truncated "fuel") := rfl

theorem pStream_succ (E : Env) (dict : Bytes) (F fuel : Nat) (s : Bytes) : pStream E dict F (fuel + 1) s =
    if s = [] then .ok [] else
    match pAnyFrame E dict F s with
    | .error e => .error e
    | .ok (c, rest) =>
      match pStream E dict F fuel rest with
      | .error e => .error e
      | .ok c' => .ok (c ++ c') := rfl

/-- inversion of one stream step -/
theorem pStream_step (E : Env) (dict : Bytes) (F fuel : Nat) (s : Bytes) (hs : s ≠ []) (c : Bytes)
    (h : pStream E dict F (fuel + 1) s = .ok c) :
    ∃ c1 rest c2, pAnyFrame E dict F s = .ok (c1, rest) ∧ pStream E dict F fuel rest = .ok c2 ∧ c = c1 ++ c2 := by
  rw [pStream_succ, if_neg hs] at h
  cases hf : pAnyFrame E dict F s with
  | error e => rw [hf] at h; cases h
  | ok v =>
    obtain ⟨c1, rest⟩ := v
    rw [hf] at h
    dsimp only at h
    cases hr : pStream E dict F fuel rest with
    | error e => rw [hr] at h; cases h
    | ok c2 =>
      rw [hr] at h
      dsimp only at h
      exact ⟨c1, rest, c2, rfl, hr, by cases h; rfl⟩

theorem pStream_build (E : Env) (dict : Bytes) (F fuel : Nat) (s : Bytes) (hs : s ≠ []) (c1 rest c2 : Bytes)
    (h1 : pAnyFrame E dict F s = .ok (c1, rest)) (h2 : pStream E dict F fuel rest = .ok c2) :
    pStream E dict F (fuel + 1) s = .ok (c1 ++ c2) := by
  rw [pStream_succ, if_neg hs, h1]
  dsimp only
  rw [h2]

theorem pStream_nil (E : Env) (dict : Bytes) (F fuel : Nat) : pStream E dict F (fuel + 1) [] = .ok [] := by
  rw [pStream_succ, if_pos rfl]

theorem pStream_fuel_mono1 (E : Env) (dict : Bytes) (F : Nat) : ∀ (fuel : Nat) (s c : Bytes),
    pStream E dict F fuel s = .ok c → pStream E dict F (fuel + 1) s = .ok c := by
  intro fuel
  induction fuel with
  | zero => intro s c h; rw [pStream_zero] at h; cases h
  | succ f ih =>
    intro s c h
    by_cases hs : s = []
    · subst hs
      rw [pStream_nil] at h ⊢
      exact h
    · obtain ⟨c1, rest, c2, h1, h2, h3⟩ := pStream_step E dict F f s hs c h
      rw [h3]
      exact pStream_build E dict F (f + 1) s hs c1 rest c2 h1 (ih rest c2 h2)

theorem pStream_fuel_mono (E : Env) (dict : Bytes) (F fuel : Nat) (s c : Bytes) (h : pStream E dict F fuel s = .ok c) :
    ∀ d, pStream E dict F (fuel + d) s = .ok c := by
  intro d
  induction d with
  | zero => exact h
  | succ k ih => exact pStream_fuel_mono1 E dict F (fuel + k) s c ih

theorem pStream_F_mono (E : Env) (dict : Bytes) (F d : Nat) : ∀ (fuel : Nat) (s c : Bytes),
    pStream E dict F fuel s = .ok c → pStream E dict (F + d) fuel s = .ok c := by
  intro fuel
  induction fuel with
  | zero => intro s c h; rw [pStream_zero] at h; cases h
  | succ f ih =>
    intro s c h
    by_cases hs : s = []
    · subst hs
      rw [pStream_nil] at h ⊢
      exact h
    · obtain ⟨c1, rest, c2, h1, h2, h3⟩ := pStream_step E dict F f s hs c h
      rw [h3]
      exact pStream_build E dict (F + d) f s hs c1 rest c2 ((pAnyFrame_mono E dict F d).elim s _ h1) (ih rest c2 h2)

/-! ## magic numbers -/

theorem known_gt_bound (m : Nat) (h : m = lz4Magic ∨ m = legacyMagic ∨ isSkippableMagic m = true) :
    m > legacyBound ∧ isKnownMagic m = true := by
  have hb : legacyBound = 8421520 := by decide
  rcases h with h | h | h
  · subst h; exact ⟨by rw [hb]; decide, by decide⟩
  · subst h; exact ⟨by rw [hb]; decide, by decide⟩
  · constructor
    · unfold isSkippableMagic at h
      have : m / 16 = 0x184D2A5 := by simpa using h
      rw [hb]; omega
    · unfold isKnownMagic; rw [h]; simp

/-- a stream that decodes is empty or starts with a known magic number -/
theorem stream_ok_G (E : Env) (dict : Bytes) (F fuel : Nat) (b cb : Bytes) (h : pStream E dict F fuel b = .ok cb) : G b := by
  cases fuel with
  | zero => rw [pStream_zero] at h; cases h
  | succ f =>
    by_cases hb : b = []
    · exact Or.inl hb
    · right
      obtain ⟨c1, rest, c2, h1, _, _⟩ := pStream_step E dict F f b hb cb h
      unfold pAnyFrame Parser.bind at h1
      cases ht : takeN 4 b with
      | error e => rw [ht] at h1; cases h1
      | ok v =>
        obtain ⟨m4, r⟩ := v
        rw [ht] at h1
        dsimp only at h1
        unfold FrameL.takeN at ht
        by_cases hl : b.length < 4
        · rw [if_pos hl] at ht; cases ht
        · rw [if_neg hl] at ht
          simp only [Except.ok.injEq, Prod.mk.injEq] at ht
          have hm : m4 = b.take 4 := ht.1.symm
          subst hm
          have hk : le (b.take 4) = lz4Magic ∨ le (b.take 4) = legacyMagic ∨ isSkippableMagic (le (b.take 4)) = true := by
            by_cases k1 : le (b.take 4) = lz4Magic
            · exact Or.inl k1
            · by_cases k2 : le (b.take 4) = legacyMagic
              · exact Or.inr (Or.inl k2)
              · by_cases k3 : isSkippableMagic (le (b.take 4)) = true
                · exact Or.inr (Or.inr k3)
                · have k3' : isSkippableMagic (le (b.take 4)) = false := by simpa using k3
                  simp only [k1, k2, k3', Bool.false_eq_true, ↓reduceIte] at h1
                  cases h1
          have := known_gt_bound _ hk
          exact ⟨by omega, this.1, this.2⟩

/-- **concatenation**: if `a` decodes to `ca` and `b` decodes to `cb`, then `a ++ b` decodes to `ca ++ cb` -/
theorem pStream_append (E : Env) (dict : Bytes) (F : Nat) (f2 : Nat) (b cb : Bytes) (hb : pStream E dict F f2 b = .ok cb) :
    ∀ (f1 : Nat) (a ca : Bytes), pStream E dict F f1 a = .ok ca → pStream E dict F (f1 + f2) (a ++ b) = .ok (ca ++ cb) := by
  intro f1
  induction f1 with
  | zero => intro a ca h; rw [pStream_zero] at h; cases h
  | succ f ih =>
    intro a ca h
    by_cases ha : a = []
    · subst ha
      rw [pStream_nil] at h
      cases h
      have := pStream_fuel_mono E dict F f2 b cb hb (f + 1)
      rw [List.nil_append, List.nil_append, Nat.add_comm (f + 1) f2]
      exact this
    · obtain ⟨c1, rest, c2, h1, h2, h3⟩ := pStream_step E dict F f a ha ca h
      have hloc := (pAnyFrame_local E dict F).elim a b c1 rest h1 (fun _ => stream_ok_G E dict F f2 b cb hb)
      have hab : a ++ b ≠ [] := fun h0 => ha (List.append_eq_nil_iff.mp h0).1
      have e : f + 1 + f2 = (f + f2) + 1 := by omega
      rw [e, h3, List.append_assoc]
      exact pStream_build E dict F (f + f2) (a ++ b) hab c1 (rest ++ b) (c2 ++ cb) hloc (ih rest c2 h2)

/-- "`s` decodes to `c`" : for some amount of fuel -/
def Decodes (E : Env) (dict : Bytes) (s c : Bytes) : Prop := ∃ F fuel, pStream E dict F fuel s = .ok c

theorem decodeStream_decodes (E : Env) (dict : Bytes) (s c : Bytes) (h : decodeStream E dict s = .ok c) : Decodes E dict s c :=
  ⟨_, _, h⟩

/-- the decoding of a stream is unique -/
theorem Decodes.unique {E : Env} {dict s c c' : Bytes} (h : Decodes E dict s c) (h' : Decodes E dict s c') : c = c' := by
  obtain ⟨F, f, h⟩ := h
  obtain ⟨F', f', h'⟩ := h'
  have a1 := pStream_fuel_mono E dict (F + F') f s c (pStream_F_mono E dict F F' f s c h) f'
  have a2 := pStream_fuel_mono E dict (F' + F) f' s c' (pStream_F_mono E dict F' F f' s c' h') f
  rw [Nat.add_comm F' F, Nat.add_comm f' f] at a2
  rw [a1] at a2
  cases a2
  rfl

theorem Decodes.append {E : Env} {dict a b ca cb : Bytes} (ha : Decodes E dict a ca) (hb : Decodes E dict b cb) :
    Decodes E dict (a ++ b) (ca ++ cb) := by
  obtain ⟨F, f, ha⟩ := ha
  obtain ⟨F', f', hb⟩ := hb
  have a1 := pStream_F_mono E dict F F' f a ca ha
  have b1 := pStream_F_mono E dict F' F f' b cb hb
  rw [Nat.add_comm F' F] at b1
  exact ⟨F + F', f + f', pStream_append E dict (F + F') f' b cb b1 f a ca a1⟩

/-! ## truncation -/

/-- **a truncated LZ4 frame is never accepted**: if `f` is a frame that parses and ends exactly at the end of `f`, no strict
    prefix of `f` parses, whatever the fuel -/
theorem truncated_frame_rejected (E : Env) (dict : Bytes) (F : Nat) (f t u c : Bytes) (hf : pFrame E dict F f = .ok (c, []))
    (hsplit : f = t ++ u) (hu : u ≠ []) (F' : Nat) (x : Bytes × Bytes) : pFrame E dict F' t ≠ .ok x := by
  intro ht
  obtain ⟨c', r'⟩ := x
  have h1 := (pFrame_mono E dict F F').elim f _ hf
  have h2 := (pFrame_mono E dict F' F).elim t _ ht
  rw [Nat.add_comm F' F] at h2
  have h3 := (pFrame_local E dict (F + F')).elim t u c' r' h2
  rw [← hsplit, h1] at h3
  simp only [Except.ok.injEq, Prod.mk.injEq] at h3
  have := h3.2
  have hu' : u = [] := (List.append_eq_nil_iff.mp this.symm).2
  exact hu hu'

theorem pFrame_to_any (E : Env) (dict : Bytes) (F : Nat) (s : Bytes) (x : Bytes × Bytes) (h : pFrame E dict F s = .ok x) :
    pAnyFrame E dict F s = .ok x := by
  unfold pFrame Parser.bind at h
  unfold pAnyFrame Parser.bind
  cases ht : takeN 4 s with
  | error e => rw [ht] at h; cases h
  | ok v =>
    obtain ⟨m4, r⟩ := v
    rw [ht] at h
    dsimp only at h ⊢
    by_cases hm : le m4 = lz4Magic
    · simp only [hm, ne_eq, not_true_eq_false, ↓reduceIte] at h ⊢
      exact h
    · simp only [hm, ne_eq, not_false_eq_true, ↓reduceIte, Parser.fail] at h
      cases h

/-- **trailing garbage is never accepted**: a complete LZ4 frame followed by anything that is not empty and does not start
    with a known magic number does not decode, whatever the fuel -/
theorem garbage_after_frame_rejected (E : Env) (dict : Bytes) (F : Nat) (f c g : Bytes) (hf : pFrame E dict F f = .ok (c, []))
    (hg : g ≠ []) (hbad : g.length < 4 ∨ isKnownMagic (le (g.take 4)) = false) (c' : Bytes) : ¬ Decodes E dict (f ++ g) c' := by
  rintro ⟨F', fuel, h⟩
  cases fuel with
  | zero => rw [pStream_zero] at h; cases h
  | succ k =>
    have hne : f ++ g ≠ [] := fun h0 => hg (List.append_eq_nil_iff.mp h0).2
    obtain ⟨c1, rest, c2, h1, h2, _⟩ := pStream_step E dict F' k (f ++ g) hne c' h
    have a1 := (pAnyFrame_mono E dict F' F).elim _ _ h1
    have f1 := (pFrame_mono E dict F F').elim _ _ hf
    have f2 := (pFrame_local E dict (F + F')).elim f g c [] f1
    have f3 := pFrame_to_any E dict (F + F') (f ++ g) _ f2
    rw [Nat.add_comm F' F, f3] at a1
    simp only [List.nil_append, Except.ok.injEq, Prod.mk.injEq] at a1
    rw [← a1.2] at h2
    rcases stream_ok_G E dict F' k g c2 h2 with h0 | ⟨h4, _, hk⟩
    · exact hg h0
    · rcases hbad with hb | hb
      · omega
      · rw [hb] at hk; cases hk

end LZ4V.Spec.FrameL
