import LZ4V.Model.FastS
import LZ4V.Proofs.FastRProof
/-!
# Contiguous streaming with `LZ4_compress_fast_continue`: every block of every session decodes against what precedes it

`JS S` : every table entry is an index `≤ currentOffset`, and the dictionary (`dictSize` bytes) is the tail of what was compressed so far and
is no longer than `currentOffset`.  One call runs the loop of `FastR` on the segment `dictionary ++ data`, started at `dictSize`, with
`Cfg.s = currentOffset - dictSize`: `FastR.runR_spec` says the sequences tile `[dictSize, end)` with byte-verified matches that start anywhere in
the segment, so (`PV_valid`, `roundtrip`) the block decodes to `data` against the dictionary, hence against any history that ends with it.
`LZ4_renormDictT` keeps `JS`.
-/
namespace LZ4V.Model.FastS
open LZ4V.Model.Fast LZ4V.Model.FastR
open LZ4V.Spec.Block

structure JS (S : SState) : Prop where
  tbl : ∀ i, S.tbl.getD i 0 ≤ S.currentOffset
  ds  : S.dictSize ≤ S.currentOffset
  mem : S.dictSize ≤ S.mem.size

/-- the dictionary of a state: the last `dictSize` bytes compressed -/
def dict (S : SState) : List UInt8 := (S.mem.extract (S.mem.size - S.dictSize) S.mem.size).toList

theorem init_tbl : ({} : SState).tbl = Array.replicate LZ4V.Gen.LZ4_HASH_SIZE_U32 0 := rfl

theorem init_tbl_le (i : Nat) : ({} : SState).tbl.getD i 0 ≤ ({} : SState).currentOffset := by
  rw [init_tbl, replicate_getD]; exact Nat.zero_le _

theorem JS_init : JS {} := JS.mk init_tbl_le (Nat.le_refl _) (Nat.zero_le _)

theorem map_getD (t : Array Nat) (f : Nat → Nat) (i : Nat) (h0 : f 0 = 0) : (t.map f).getD i 0 = f (t.getD i 0) := by
  rw [Array.getD_eq_getD_getElem?, Array.getD_eq_getD_getElem?, Array.getElem?_map]
  cases t[i]? with
  | none => simp [h0]
  | some v => simp

theorem renorm_JS (S : SState) (n : Nat) (hJ : JS S) : JS (renorm S n) := by
  unfold renorm
  have k64 : LZ4V.Gen.KB64 = 65536 := rfl
  by_cases h : S.currentOffset + n > 0x80000000
  · rw [if_pos h]
    refine ⟨?_, ?_, ?_⟩
    · intro i
      dsimp only
      rw [map_getD _ _ _ (by split <;> omega)]
      have := hJ.tbl i
      split <;> omega
    · dsimp only; split <;> omega
    · dsimp only
      have := hJ.mem
      split <;> omega
  · rw [if_neg h]; exact hJ

theorem renorm_mem (S : SState) (n : Nat) : (renorm S n).mem = S.mem := by
  unfold renorm; split <;> rfl

theorem renorm_dictSize_le (S : SState) (n : Nat) : (renorm S n).dictSize ≤ S.dictSize := by
  unfold renorm; split
  · dsimp only; split <;> omega
  · exact Nat.le_refl _

theorem extract_tail_toList (m : Array UInt8) (d : Nat) : (m.extract (m.size - d) m.size).toList = m.toList.drop (m.size - d) := by
  simp only [Array.toList_extract, List.extract]
  rw [List.take_of_length_le]
  rw [List.length_drop, Array.length_toList]
  omega

/-- the dictionary is a tail of the memory -/
theorem dict_tail (S : SState) : ∃ pre, S.mem.toList = pre ++ dict S :=
  ⟨S.mem.toList.take (S.mem.size - S.dictSize), by unfold dict; rw [extract_tail_toList]; exact (List.take_append_drop _ _).symm⟩

theorem clampAccel_pos (a : Int) : 1 ≤ clampAccel a := by
  unfold clampAccel
  have c1 : LZ4V.Gen.LZ4_ACCELERATION_DEFAULT = 1 := rfl
  have c2 : LZ4V.Gen.LZ4_ACCELERATION_MAX = 65537 := rfl
  split
  · omega
  · split
    · omega
    · omega

/-- the end-of-block restrictions, from the positional facts of `FastR.runR_spec` -/
theorem endConditions_of_PV (seg : Array UInt8) (l : List PSeq) (a a' : Nat) (hpv : PV seg a l a') (ha' : a' ≤ seg.size)
    (h4 : ∀ s ∈ l, 4 ≤ s.ml ∧ 1 ≤ s.off ∧ s.off ≤ 65535 ∧ s.lit + s.ll + 12 ≤ seg.size) (h5 : l ≠ [] → a' + 5 ≤ seg.size) :
    endConditions (l.map (toSeq seg)) (seg.toList.drop a') = true := by
  unfold endConditions
  cases hgl : (l.map (toSeq seg)).getLast? with
  | none => rfl
  | some s =>
    dsimp only
    rw [List.getLast?_map] at hgl
    cases hgl2 : l.getLast? with
    | none => rw [hgl2] at hgl; cases hgl
    | some x =>
      rw [hgl2] at hgl
      simp only [Option.map_some, Option.some.injEq] at hgl
      subst hgl
      have hne : l ≠ [] := by intro h0; subst h0; simp at hgl2
      have hxm : x ∈ l := List.mem_of_getLast? hgl2
      have hend := PV_last seg l a a' x hpv hgl2
      obtain ⟨_, _, _, q4⟩ := h4 x hxm
      have h5' := h5 hne
      have hml : (toSeq seg x).ml = x.ml := rfl
      rw [hml, List.length_drop, Array.length_toList]
      simp only [Bool.and_eq_true, decide_eq_true_eq]
      omega

/-- `blk` is the serialisation of a parse of `data` whose matches were byte-verified against `d ++ data` and reach at most 65535 bytes back -/
def Parsed (d blk data : List UInt8) : Prop :=
  ∃ seqs last, blk = serialize seqs last ∧ (∀ s ∈ seqs, 4 ≤ s.ml ∧ s.off < 65536) ∧ ValidParse d seqs last (d ++ data) ∧
    (∀ s ∈ seqs, 1 ≤ s.off) ∧ endConditions seqs last = true ∧ covered seqs last = data.length

theorem Parsed.lit (d l : List UInt8) : Parsed d (serialize [] l) l :=
  ⟨[], l, rfl, fun s hs => (List.not_mem_nil hs).elim, rfl, fun s hs => (List.not_mem_nil hs).elim, rfl, by simp [covered]⟩

theorem Parsed.decode {d blk data : List UInt8} (h : Parsed d blk data) : decode d blk = some data := by
  obtain ⟨seqs, last, rfl, hwf, hv, _⟩ := h
  exact roundtrip d seqs last data hwf hv

/-- format conformance of the block (doc/lz4_Block_format.md): offsets in 1..65535, match lengths ≥ 4, the end-of-block restrictions, and the
    sequences spell out exactly `data.length` bytes -/
theorem Parsed.conforms {d blk data : List UInt8} (h : Parsed d blk data) :
    ∃ seqs last, blk = serialize seqs last ∧ (∀ s ∈ seqs, 4 ≤ s.ml ∧ 1 ≤ s.off ∧ s.off ≤ 65535) ∧ endConditions seqs last = true ∧
      covered seqs last = data.length := by
  obtain ⟨seqs, last, e, hwf, _, h1, h2, h3⟩ := h
  exact ⟨seqs, last, e, fun s hs => ⟨(hwf s hs).1, h1 s hs, by have := (hwf s hs).2; omega⟩, h2, h3⟩

/-- the block is never longer than `n + n/255 + 2` (below `LZ4_compressBound n`) -/
theorem Parsed.size_le {d blk data : List UInt8} (h : Parsed d blk data) : blk.length ≤ data.length + data.length / 255 + 2 := by
  obtain ⟨seqs, last, rfl, hwf, _, _, _, h3⟩ := h
  have := serialize_length_le seqs last (fun s hs => (hwf s hs).1)
  rw [h3] at this
  exact this

theorem getElem?_pre (pre X : List UInt8) (j : Nat) : (pre ++ X)[pre.length + j]? = X[j]? := by
  rw [List.getElem?_append_right (Nat.le_add_right _ _)]; congr 1; omega

theorem ValidParse_drop (pre : List UInt8) : ∀ (seqs : List Seq) (out last inp : List UInt8),
    ValidParse (pre ++ out) seqs last (pre ++ inp) → (∀ s ∈ seqs, s.off ≤ out.length) → ValidParse out seqs last inp := by
  intro seqs
  induction seqs with
  | nil =>
    intro out last inp h _
    simp only [ValidParse] at h ⊢
    rw [List.append_assoc] at h
    exact List.append_cancel_left h
  | cons s rest ih =>
    intro out last inp h hoff
    simp only [ValidParse] at h ⊢
    obtain ⟨m, h1, h2, h3, h4, h5⟩ := h
    have ho := hoff s (List.mem_cons_self)
    refine ⟨m, h1, h2, by rw [List.length_append]; omega, ?_, ?_⟩
    · intro k hk
      have := h4 k hk
      have e : pre ++ out ++ s.lits ++ m = pre ++ (out ++ s.lits ++ m) := by simp only [List.append_assoc]
      have el : (pre ++ out ++ s.lits).length = pre.length + (out ++ s.lits).length := by simp only [List.length_append]; omega
      rw [e, el] at this
      have a1 : pre.length + (out ++ s.lits).length + k = pre.length + ((out ++ s.lits).length + k) := by omega
      have a2 : pre.length + ((out ++ s.lits).length + k) - s.off = pre.length + ((out ++ s.lits).length + k - s.off) := by
        rw [List.length_append]; omega
      rw [a1, a2, getElem?_pre pre (out ++ s.lits ++ m), getElem?_pre pre (out ++ s.lits ++ m)] at this
      exact this
    · have e : pre ++ out ++ s.lits ++ m = pre ++ (out ++ s.lits ++ m) := by simp only [List.append_assoc]
      rw [e] at h5
      exact ih _ _ _ h5 (fun x hx => by
        have := hoff x (List.mem_cons_of_mem _ hx)
        simp only [List.length_append]; omega)

/-- a decoder that kept only the last `≥ 65535` bytes of the history decodes the block all the same -/
theorem Parsed.window {pre w blk data : List UInt8} (h : Parsed (pre ++ w) blk data) (hw : 65535 ≤ w.length) : Parsed w blk data := by
  obtain ⟨seqs, last, e, hwf, hv, hx⟩ := h
  refine ⟨seqs, last, e, hwf, ?_, hx⟩
  rw [List.append_assoc] at hv
  exact ValidParse_drop pre seqs w last _ hv (fun s hs => by have := (hwf s hs).2; omega)

theorem ValidParse_more (pre : List UInt8) : ∀ (seqs : List Seq) (out last inp : List UInt8),
    ValidParse out seqs last inp → ValidParse (pre ++ out) seqs last (pre ++ inp) := by
  intro seqs
  induction seqs with
  | nil =>
    intro out last inp h
    simp only [ValidParse] at h ⊢
    rw [h, List.append_assoc]
  | cons s rest ih =>
    intro out last inp h
    simp only [ValidParse] at h ⊢
    obtain ⟨m, h1, h2, h3, h4, h5⟩ := h
    refine ⟨m, h1, h2, by rw [List.length_append] at h3 ⊢; rw [List.length_append]; omega, ?_, ?_⟩
    · intro k hk
      have := h4 k hk
      have e : pre ++ out ++ s.lits ++ m = pre ++ (out ++ s.lits ++ m) := by simp only [List.append_assoc]
      have el : (pre ++ out ++ s.lits).length = pre.length + (out ++ s.lits).length := by simp only [List.length_append]; omega
      rw [e, el]
      have a1 : pre.length + (out ++ s.lits).length + k = pre.length + ((out ++ s.lits).length + k) := by omega
      have a2 : pre.length + ((out ++ s.lits).length + k) - s.off = pre.length + ((out ++ s.lits).length + k - s.off) := by omega
      rw [a1, a2, getElem?_pre pre (out ++ s.lits ++ m), getElem?_pre pre (out ++ s.lits ++ m)]
      exact this
    · have e : pre ++ out ++ s.lits ++ m = pre ++ (out ++ s.lits ++ m) := by simp only [List.append_assoc]
      rw [e]
      exact ih _ _ _ h5

theorem Parsed.more {d blk data : List UInt8} (pre : List UInt8) (h : Parsed d blk data) : Parsed (pre ++ d) blk data := by
  obtain ⟨seqs, last, e, hwf, hv, hx⟩ := h
  refine ⟨seqs, last, e, hwf, ?_, hx⟩
  rw [List.append_assoc]
  exact ValidParse_more pre seqs d last _ hv

/-- the compressor's dictionary `d` and the decoder's window `w` are both tails of the history: whichever is longer, the block decodes against `w`
    provided `w` is the whole history or at least 65535 bytes -/
theorem Parsed.of_tails {d w p pre blk data : List UInt8} (h : Parsed d blk data) (hw : p ++ d = pre ++ w) (hlen : pre = [] ∨ 65535 ≤ w.length) :
    Parsed w blk data := by
  rcases List.append_eq_append_iff.mp hw with ⟨a', _, ha⟩ | ⟨c', _, hc'⟩
  · -- d = a' ++ w
    rw [ha] at h
    rcases hlen with hnil | hlen
    · subst hnil
      have : a' = [] := by
        have h1 := congrArg List.length hw
        have h2 := congrArg List.length ha
        simp only [List.length_append, List.length_nil] at h1 h2
        exact List.eq_nil_of_length_eq_zero (by omega)
      subst this
      simpa using h
    · exact h.window hlen
  · -- w = c' ++ d
    rw [hc']
    exact h.more c'

/-- **one call on a contiguous stream**: `JS` is kept, the memory grows by the data, and a returned block decodes to the data against the
    dictionary the call used -/
theorem call_spec (hashOf : Array UInt8 → Bool → Nat → Nat) (S0 : SState) (data : Array UInt8) (acceleration : Int) (cap : Nat) (hJ0 : JS S0) :
    JS (call hashOf S0 data acceleration cap).1 ∧ (call hashOf S0 data acceleration cap).1.mem = S0.mem ++ data ∧
    (∀ blk, (call hashOf S0 data acceleration cap).2 = some blk → Parsed (dict (renorm S0 data.size)) blk data.toList) := by
  have c13 : LZ4V.Gen.LZ4_minLength = 13 := rfl
  have hJ := renorm_JS S0 data.size hJ0
  have hmem := renorm_mem S0 data.size
  unfold call
  dsimp only
  generalize hS : renorm S0 data.size = S at hJ hmem
  by_cases h0 : data.size = 0
  · rw [if_pos h0]
    have hd : data = #[] := Array.eq_empty_of_size_eq_zero h0
    refine ⟨hJ, by dsimp only; rw [hmem, hd, Array.append_empty], ?_⟩
    intro blk h
    dsimp only at h
    split at h
    · cases h
    · simp only [Option.some.injEq] at h
      subst h
      rw [hd]
      have e : serialize [] ([] : List UInt8) = [0] := by decide
      rw [← e]
      exact Parsed.lit _ _
  rw [if_neg h0]
  have hJ2 : ∀ tbl : Array Nat, TI tbl (S.currentOffset + data.size + 1) →
      JS { S with currentOffset := S.currentOffset + data.size, dictSize := S.dictSize + data.size, mem := S.mem ++ data, tbl := tbl } := by
    intro tbl h
    refine ⟨fun i => by have := h i; dsimp only; omega, by dsimp only; have := hJ.ds; omega, by dsimp only; rw [Array.size_append]; have := hJ.mem; omega⟩
  have hlit : ∀ l : List UInt8, Parsed (dict S) (serialize [] l) l := fun l => Parsed.lit _ l
  by_cases hmax : data.size > LZ4V.Gen.LZ4_MAX_INPUT_SIZE
  · rw [if_pos hmax]
    exact ⟨hJ2 S.tbl (fun i => by have := hJ.tbl i; omega), by dsimp only; rw [hmem], fun blk h => by cases h⟩
  rw [if_neg hmax]
  by_cases hmin : data.size < LZ4V.Gen.LZ4_minLength
  · rw [if_pos hmin]
    refine ⟨hJ2 S.tbl (fun i => by have := hJ.tbl i; omega), by dsimp only; rw [hmem], ?_⟩
    intro blk h
    dsimp only at h
    split at h
    · cases h
    · simp only [Option.some.injEq] at h
      subst h
      exact hlit _
  rw [if_neg hmin]
  rw [c13] at hmin
  -- the segment and the configuration of this call
  generalize hD : S.mem.extract (S.mem.size - S.dictSize) S.mem.size = D
  have hDs : D.size = S.dictSize := by rw [← hD, Array.size_extract]; have := hJ.mem; omega
  have hdict : dict S = D.toList := by unfold dict; rw [hD]
  generalize hP : ({ hash := hashOf (D ++ data) false, byU16 := false, accel := clampAccel acceleration, limit := some cap } : Params) = P
  have hPb : P.byU16 = false := by rw [← hP]
  have hPa : 1 ≤ P.accel := by rw [← hP]; exact clampAccel_pos acceleration
  have hPh : hashOf (D ++ data) false = P.hash := by rw [← hP]
  rw [hPh]
  have hsz : (D ++ data).size = S.dictSize + data.size := by rw [Array.size_append, hDs]
  have ok : CfgOK { P := P, s := S.currentOffset - S.dictSize, small := decide (S.currentOffset - S.dictSize ≠ 0) } (D ++ data) := by
    refine ⟨?_, ?_, ?_, hPa⟩
    · intro h; dsimp only at h; rw [hPb] at h; cases h
    · intro h; dsimp only at h; rw [hPb] at h; cases h
    · intro h; dsimp only at h ⊢; simpa using h
  have hcur : S.currentOffset - S.dictSize + S.dictSize = S.currentOffset := by have := hJ.ds; omega
  have hst0 : store false S.currentOffset = S.currentOffset := rfl
  rw [hst0]
  have hinv : InvR { P := P, s := S.currentOffset - S.dictSize, small := decide (S.currentOffset - S.dictSize ≠ 0) } (D ++ data)
      { anchor := S.dictSize, ip := S.dictSize + 1, tbl := S.tbl.setIfInBounds (P.hash S.dictSize) S.currentOffset, op := 0 } := by
    refine ⟨by dsimp only; omega, by dsimp only; omega, ?_⟩
    dsimp only
    exact (show TI S.tbl (S.currentOffset - S.dictSize + (S.dictSize + 1)) from fun i => by have := hJ.tbl i; omega).set _ _ (by omega)
  obtain ⟨rt, rl⟩ := runR_spec _ (D ++ data) ok (by omega) ((D ++ data).size + 1) _ [] hinv (by dsimp only; omega) (by dsimp only; omega)
  dsimp only at rt rl
  generalize hrun : runR { P := P, s := S.currentOffset - S.dictSize, small := decide (S.currentOffset - S.dictSize ≠ 0) } (D ++ data) ((D ++ data).size + 1)
      { anchor := S.dictSize, ip := S.dictSize + 1, tbl := S.tbl.setIfInBounds (P.hash S.dictSize) S.currentOffset, op := 0 } [] = r at rt rl
  obtain ⟨ro, rtbl⟩ := r
  dsimp only at rt rl
  have rt' : TI rtbl (S.currentOffset + data.size + 1) := rt.mono (by rw [hsz]; omega)
  cases ro with
  | none =>
    exact ⟨hJ2 rtbl rt', by dsimp only; rw [hmem], fun blk h => by cases h⟩
  | some v =>
    obtain ⟨l, stf⟩ := v
    refine ⟨hJ2 rtbl rt', by dsimp only; rw [hmem], ?_⟩
    intro blk h
    dsimp only at h
    by_cases hov : over P (stf.op + ((D ++ data).size - stf.anchor) + 1 + ((D ++ data).size - stf.anchor + 255 - 15) / 255) = true
    · have h' : (none : Option (List UInt8)) = some blk := by
        have := h
        simp only [hov, ↓reduceIte] at this
        exact this
      cases h'
    · have h' : some (serialize (List.map (toSeq (D ++ data)) l) ((D ++ data).extract stf.anchor (D ++ data).size).toList) = some blk := by
        have := h
        simp only [hov, Bool.false_eq_true, ↓reduceIte] at this
        exact this
      simp only [Option.some.injEq] at h'
      subst h'
      obtain ⟨l', q1, q2, q3, q4, q5⟩ := rl l stf rfl
      simp only [List.reverse_nil, List.nil_append] at q1
      subst q1
      have hlast : ((D ++ data).extract stf.anchor (D ++ data).size).toList = (D ++ data).toList.drop stf.anchor := by
        simp only [Array.toList_extract, List.extract]
        rw [List.take_of_length_le]
        rw [List.length_drop, Array.length_toList]
        omega
      have hv := PV_valid (D ++ data) l S.dictSize stf.anchor q2 (by omega) q3
      have htake : (D ++ data).toList.take S.dictSize = D.toList := by
        rw [Array.toList_append, List.take_append_of_le_length (by rw [Array.length_toList]; omega), List.take_of_length_le (by rw [Array.length_toList]; omega)]
      rw [htake] at hv
      rw [hlast, hdict]
      refine ⟨_, _, rfl, (fun s hs => ?_), (by rw [← Array.toList_append]; exact hv), (fun s hs => ?_), ?_, ?_⟩
      · obtain ⟨x, hx, rfl⟩ := List.mem_map.mp hs
        obtain ⟨a1, _, a3, _⟩ := q4 x hx
        exact ⟨a1, by show x.off < 65536; omega⟩
      · obtain ⟨x, hx, rfl⟩ := List.mem_map.mp hs
        exact (q4 x hx).2.1
      · exact endConditions_of_PV (D ++ data) l S.dictSize stf.anchor q2 q3 q4 (by assumption)
      · have := PV_covered (D ++ data) l S.dictSize stf.anchor q2 q3
        rw [Array.length_toList]
        omega

/-- the data of the first `k` calls, concatenated -/
def prior (calls : List (Array UInt8 × Int × Nat)) (k : Nat) : List UInt8 := ((calls.take k).map (fun c => c.1.toList)).flatten

/-- the general form: the block is a verified parse against every window `w` of the preceding bytes that is the whole of them or at
    least 65535 bytes long -/
theorem session_parsed (hashOf : Array UInt8 → Bool → Nat → Nat) : ∀ (calls : List (Array UInt8 × Int × Nat)) (S : SState), JS S →
    ∀ k (hk : k < calls.length) blk, (session hashOf S calls)[k]? = some (some blk) →
    ∀ pre w, S.mem.toList ++ prior calls k = pre ++ w → (pre = [] ∨ 65535 ≤ w.length) → Parsed w blk (calls[k]).1.toList := by
  intro calls
  induction calls with
  | nil => intro S _ k hk; simp at hk
  | cons c rest ih =>
    intro S hJ k hk blk h pre w hw hlen
    obtain ⟨data, acc, cap⟩ := c
    obtain ⟨j1, j2, j3⟩ := call_spec hashOf S data acc cap hJ
    unfold session at h
    cases hc : call hashOf S data acc cap with
    | mk S' ob =>
      rw [hc] at h j1 j2 j3
      dsimp only at h j1 j2 j3
      cases ob with
      | none =>
        cases k with
        | zero => simp at h
        | succ k' => simp at h
      | some b0 =>
        dsimp only at h
        cases k with
        | zero =>
          simp only [List.getElem?_cons_zero, Option.some.injEq] at h
          subst h
          have hd := j3 b0 rfl
          obtain ⟨p2, hp2⟩ := dict_tail (renorm S data.size)
          rw [renorm_mem] at hp2
          simp only [prior, List.take_zero, List.map_nil, List.flatten_nil, List.append_nil] at hw
          simp only [List.getElem_cons_zero]
          rw [hp2] at hw
          -- two tails of the same list: one is a tail of the other
          rcases List.append_eq_append_iff.mp hw with ⟨a', _, ha⟩ | ⟨c', _, hc'⟩
          · -- dict = a' ++ w
            rw [ha] at hd
            rcases hlen with hnil | hlen
            · subst hnil
              have : a' = [] := by
                have := congrArg List.length hw
                simp only [List.length_append, List.length_nil] at this
                have h2 := congrArg List.length ha
                simp only [List.length_append] at h2
                exact List.eq_nil_of_length_eq_zero (by omega)
              subst this
              simpa using hd
            · exact hd.window hlen
          · -- w = c' ++ dict
            rw [hc']
            exact hd.more c'
        | succ k' =>
          simp only [List.getElem?_cons_succ] at h
          simp only [List.getElem_cons_succ]
          refine ih S' j1 k' (by simp only [List.length_cons] at hk; omega) blk h pre w ?_ hlen
          rw [j2, Array.toList_append, List.append_assoc, ← hw]
          simp [prior]

/-- **any contiguous session**: for every sequence of `LZ4_compress_fast_continue` calls on one stream whose inputs follow one another in memory
    (any sizes, capacities, accelerations, any hash function, any state satisfying `JS` to begin with — a reset stream does), every block that
    is returned decodes to the input of its own call against everything that was compressed before it -/
theorem session_spec (hashOf : Array UInt8 → Bool → Nat → Nat) (calls : List (Array UInt8 × Int × Nat)) (S : SState) (hJ : JS S)
    (k : Nat) (hk : k < calls.length) (blk : List UInt8) (h : (session hashOf S calls)[k]? = some (some blk)) :
    decode (S.mem.toList ++ prior calls k) blk = some (calls[k]).1.toList :=
  (session_parsed hashOf calls S hJ k hk blk h [] _ rfl (Or.inl rfl)).decode

/-- … and against any window of at least 65535 preceding bytes (a ring buffer, a decoder that slides its history) -/
theorem session_window_spec (hashOf : Array UInt8 → Bool → Nat → Nat) (calls : List (Array UInt8 × Int × Nat)) (S : SState) (hJ : JS S)
    (k : Nat) (hk : k < calls.length) (blk : List UInt8) (h : (session hashOf S calls)[k]? = some (some blk))
    (pre w : List UInt8) (hw : S.mem.toList ++ prior calls k = pre ++ w) (hlen : 65535 ≤ w.length) :
    decode w blk = some (calls[k]).1.toList :=
  (session_parsed hashOf calls S hJ k hk blk h pre w hw (Or.inr hlen)).decode

end LZ4V.Model.FastS
