import LZ4V.Proofs.BlockHub
import LZ4V.Gen.Consts
import LZ4V.Gen.Funcs
/-!
# Size arithmetic: serialised size of any parse vs. the regenerated `LZ4_compressBound`

`serialize_length_le` : for every parse, `|serialize| ≤ n + n/255 + 2` where `n` is the number of bytes the parse
covers.  With `Gen.LZ4_compressBound n = n + n/255 + 16` (regenerated from `LZ4_COMPRESSBOUND`) this is the statement that
the documented bound covers the *worst* parse any compressor could emit (C09), not just literal-only blocks.
-/
namespace LZ4V.Spec.Block

/-- number of bytes a parse decodes to -/
def covered (seqs : List Seq) (last : List UInt8) : Nat :=
  (seqs.map (fun s => s.lits.length + s.ml)).sum + last.length

theorem ext_length (v : Nat) : (ext v).length = if v ≥ 15 then (v - 15) / 255 + 1 else 0 := by
  unfold ext
  split
  · rw [encLen_length]
  · rfl

theorem serSeq_length (s : Seq) :
    (serSeq s).length = 3 + s.lits.length + (ext s.lits.length).length + (ext (s.ml - 4)).length := by
  unfold serSeq
  simp only [List.length_cons, List.length_append, List.length_nil]
  omega

theorem serLast_length (l : List UInt8) : (serLast l).length = 1 + l.length + (ext l.length).length := by
  unfold serLast
  simp only [List.length_cons, List.length_append]
  omega

/-- one sequence costs at most the bytes it covers plus one per 255 of them -/
theorem serSeq_cost (s : Seq) (h4 : 4 ≤ s.ml) :
    (serSeq s).length ≤ (s.lits.length + s.ml) + (s.lits.length + s.ml) / 255 := by
  rw [serSeq_length, ext_length, ext_length]
  split <;> split <;> omega

theorem serLast_cost (l : List UInt8) : (serLast l).length ≤ l.length + l.length / 255 + 2 := by
  rw [serLast_length, ext_length]
  split <;> omega

theorem serialize_length (seqs : List Seq) (last : List UInt8) :
    (serialize seqs last).length = ((seqs.map (fun s => (serSeq s).length)).sum) + (serLast last).length := by
  unfold serialize
  simp [List.length_append, List.length_flatten, List.map_map, Function.comp_def]

/-- sum of per-sequence costs -/
theorem seqs_cost (seqs : List Seq) (h4 : ∀ s ∈ seqs, 4 ≤ s.ml) :
    (seqs.map (fun s => (serSeq s).length)).sum ≤
      (seqs.map (fun s => s.lits.length + s.ml)).sum + (seqs.map (fun s => s.lits.length + s.ml)).sum / 255 := by
  induction seqs with
  | nil => simp
  | cons s rest ih =>
    have h1 := serSeq_cost s (h4 s (by simp))
    have h2 := ih (fun t ht => h4 t (by simp [ht]))
    simp only [List.map_cons, List.sum_cons]
    omega

/-- **the bound covers the worst parse**: any parse covering `n` bytes serialises to at most `n + n/255 + 2` bytes -/
theorem serialize_length_le (seqs : List Seq) (last : List UInt8) (h4 : ∀ s ∈ seqs, 4 ≤ s.ml) :
    (serialize seqs last).length ≤ covered seqs last + covered seqs last / 255 + 2 := by
  rw [serialize_length]
  have h1 := seqs_cost seqs h4
  have h2 := serLast_cost last
  unfold covered
  omega

end LZ4V.Spec.Block

namespace LZ4V.Arith
open LZ4V.Gen

/-- the regenerated `LZ4_compressBound` in closed form on its valid domain -/
theorem compressBound_eq (n : Nat) (h : n ≤ LZ4_MAX_INPUT_SIZE) :
    LZ4_compressBound (n : Int) = ((n + n / 255 + 16 : Nat) : Int) := by
  have hm : LZ4_MAX_INPUT_SIZE = 2113929216 := rfl
  unfold LZ4_compressBound
  have e1 : ((n : Int)) % 4294967296 = (n : Int) := Int.emod_eq_of_lt (by omega) (by omega)
  rw [e1]
  have hle : ¬ ((n : Int) > 2113929216) := by omega
  simp only [hle, decide_false, Bool.false_eq_true, if_false]
  have : Int.tdiv (n : Int) 255 = ((n / 255 : Nat) : Int) := by
    rw [Int.tdiv_eq_ediv_of_nonneg (by omega)]
    simp
  rw [this]
  omega

/-- sizes above `LZ4_MAX_INPUT_SIZE` and negative sizes give 0 -/
theorem compressBound_bad (i : Int) (hlo : -2147483648 ≤ i) (hhi : i ≤ 2147483647)
    (h : i < 0 ∨ i > (LZ4_MAX_INPUT_SIZE : Int)) : LZ4_compressBound i = 0 := by
  have hm : LZ4_MAX_INPUT_SIZE = 2113929216 := rfl
  unfold LZ4_compressBound
  have : i % 4294967296 > 2113929216 := by
    rcases h with h | h
    · have : i % 4294967296 = i + 4294967296 := by
        rw [← Int.add_emod_right i 4294967296]
        exact Int.emod_eq_of_lt (by omega) (by omega)
      omega
    · have : i % 4294967296 = i := Int.emod_eq_of_lt (by omega) (by omega)
      omega
  simp [this]

end LZ4V.Arith
