import LZ4V.Model.FrameD
import LZ4V.Proofs.FrameLProof
/-! # `LZ4F_decodeHeader` (model) accepts a header exactly when the specification does, with the same fields -/
namespace LZ4V.Model.FrameD
open LZ4V.Spec.FrameL
open LZ4V.Spec.Frame (Header blockSizeOf Bad)

/-- the C's shifts and masks on a byte are the specification's divisions and remainders -/
theorem bits : ∀ x, x < 256 →
    ((x >>> 6) &&& 3 = x / 64) ∧ ((x >>> 4) &&& 1 = x / 16 % 2) ∧ ((x >>> 5) &&& 1 = x / 32 % 2) ∧ ((x >>> 3) &&& 1 = x / 8 % 2) ∧
    ((x >>> 2) &&& 1 = x / 4 % 2) ∧ (x &&& 1 = x % 2) ∧ ((x >>> 1) &&& 1 = x / 2 % 2) ∧ ((x >>> 4) &&& 7 = x / 16 % 8) ∧
    ((x >>> 7) &&& 1 = x / 128) ∧ (x &&& 15 = x % 16) := by
  decide +kernel

theorem hc_bits (h : Nat) : (h >>> 8) &&& 255 = h / 256 % 256 := by
  rw [Nat.shiftRight_eq_div_pow]
  exact Nat.and_two_pow_sub_one_eq_mod (h / 2 ^ 8) 8

theorem byteAt_lt (src : Bytes) (i : Nat) : byteAt src i < 256 := by
  unfold byteAt
  exact UInt8.toNat_lt _

theorem takeN_drop (n i : Nat) (src : Bytes) (h : i + n ≤ src.length) :
    takeN n (src.drop i) = .ok ((src.drop i).take n, src.drop (i + n)) := by
  unfold LZ4V.Spec.FrameL.takeN
  rw [if_neg (by rw [List.length_drop]; omega), List.drop_drop]

theorem getD_take_drop (src : Bytes) (i n j : Nat) (h : j < n) : (((src.drop i).take n).getD j 0).toNat = byteAt src (i + j) := by
  unfold byteAt
  simp [List.getD_eq_getElem?_getD, List.getElem?_take, h, List.getElem?_drop]

/-- the header the specification builds from FLG, BD and the optional fields -/
def specHdr (flg bd : Nat) (ext : Bytes) : Header :=
  { blockIndep := (flg / 32) % 2 == 1, blockChecksum := (flg / 16) % 2 == 1,
    contentSize := if ((flg / 8) % 2 == 1) = true then some (le (ext.take 8)) else none,
    contentChecksum := (flg / 4) % 2 == 1,
    dictId := if (flg % 2 == 1) = true then some (le (ext.drop (if ((flg / 8) % 2 == 1) = true then 8 else 0))) else none,
    bsid := (bd / 16) % 8, maxBlock := blockSizeOf ((bd / 16) % 8),
    size := 4 + 2 + ((if ((flg / 8) % 2 == 1) = true then 8 else 0) + (if (flg % 2 == 1) = true then 4 else 0)) + 1 }

/-- evaluation of the specification parser on a header whose bytes are all present and whose fields are valid -/
theorem spec_eval (E : Env) (src : Bytes) (k : Nat)
    (hk : (if ((byteAt src 4 / 8) % 2 == 1) = true then 8 else 0) + (if (byteAt src 4 % 2 == 1) = true then 4 else 0) = k)
    (hlen : 7 + k ≤ src.length)
    (hmagic : le (src.take 4) = lz4Magic)
    (hv : byteAt src 4 / 64 = 1) (hr : byteAt src 4 / 2 % 2 = 0)
    (hb7 : byteAt src 5 / 128 = 0) (hb0 : byteAt src 5 % 16 = 0) (hbs : ¬ byteAt src 5 / 16 % 8 < 4)
    (hhc : E.hash ((src.drop 4).take (2 + k)) / 256 % 256 = byteAt src (6 + k)) :
    specHeader E src = .ok (specHdr (byteAt src 4) (byteAt src 5) ((src.drop 6).take k), src.drop (7 + k)) := by
  unfold specHeader Parser.bind
  have t4 := takeN_drop 4 0 src (by omega)
  rw [List.drop_zero] at t4
  rw [t4]
  simp only [hmagic, ne_eq, not_true_eq_false, ↓reduceIte]
  unfold pHeader Parser.bind
  have t2 := takeN_drop 2 4 src (by omega)
  rw [t2]
  have g0 := getD_take_drop src 4 2 0 (by omega)
  have g1 := getD_take_drop src 4 2 1 (by omega)
  simp only [g0, g1, Nat.add_zero, hv, hr, hb7, hb0, hbs, ne_eq, not_true_eq_false, or_self, ↓reduceIte, hk]
  have tk := takeN_drop k 6 src (by omega)
  rw [tk]
  have t1 := takeN_drop 1 (6 + k) src (by omega)
  simp only []
  rw [t1]
  have gh := getD_take_drop src (6 + k) 1 0 (by omega)
  have hcat : (src.drop 4).take 2 ++ (src.drop 6).take k = (src.drop 4).take (2 + k) := by
    rw [List.take_add, List.drop_drop]
  simp only [gh, Nat.add_zero, hcat, hhc, not_true_eq_false, ↓reduceIte, Parser.pure, specHdr]
  have e : 6 + k + 1 = 7 + k := by omega
  have e2 : 4 + 2 + k + 1 = 7 + k := by omega
  rw [e]
  simp only [Nat.reduceAdd, hk, e2]

theorem ite_mod2 {α : Type} (x : Nat) (a b : α) : (if x % 2 ≠ 0 then a else b) = (if (x % 2 == 1) = true then a else b) := by
  rcases Nat.mod_two_eq_zero_or_one x with h | h <;> simp [h]

theorem decodeHeader_sound (E : Env) (src : Bytes) (hdr : Header) (size : Nat)
    (h : decodeHeader E.hash src = .ok (.done hdr size)) : specHeader E src = .ok (hdr, src.drop size) := by
  have hF := byteAt_lt src 4
  have hB := byteAt_lt src 5
  obtain ⟨f1, f2, f3, f4, f5, f6, f7, _, _, _⟩ := bits (byteAt src 4) hF
  obtain ⟨_, _, _, _, _, _, _, b8, b9, b10⟩ := bits (byteAt src 5) hB
  have hmin : LZ4V.Gen.minFHSize = 7 := rfl
  have hmag : LZ4V.Gen.LZ4F_MAGICNUMBER = lz4Magic := rfl
  unfold decodeHeader at h
  simp only [f1, f2, f3, f4, f5, f6, f7, b8, b9, b10, hc_bits, hmin, hmag, ite_mod2] at h
  have hbsz : ∀ id, ¬ id < 4 → id < 8 → (LZ4V.Gen.LZ4F_getBlockSize (id : Nat)).toNat = blockSizeOf id := by
    intro id h4 h8
    have : id = 4 ∨ id = 5 ∨ id = 6 ∨ id = 7 := by omega
    rcases this with rfl | rfl | rfl | rfl <;> decide
  have hbs8 : byteAt src 5 / 16 % 8 < 8 := Nat.mod_lt _ (by decide)
  generalize hcs : (if (byteAt src 4 / 8 % 2 == 1) = true then 8 else 0) = cs at h
  generalize hdd : (if (byteAt src 4 % 2 == 1) = true then 4 else 0) = dd at h
  generalize hmb : (LZ4V.Gen.LZ4F_getBlockSize ↑(byteAt src 5 / 16 % 8)).toNat = mb at h
  by_cases c1 : List.length src < 7
  · rw [if_pos c1] at h; cases h
  rw [if_neg c1] at h
  by_cases c2 : le (List.take 4 src) ≠ lz4Magic
  · rw [if_pos c2] at h; cases h
  rw [if_neg c2] at h
  by_cases c3 : (byteAt src 4 / 2 % 2 == 1) = true
  · rw [if_pos c3] at h; cases h
  rw [if_neg c3] at h
  by_cases c4 : byteAt src 4 / 64 ≠ 1
  · rw [if_pos c4] at h; cases h
  rw [if_neg c4] at h
  by_cases c5 : List.length src < 7 + cs + dd
  · rw [if_pos c5] at h; cases h
  rw [if_neg c5] at h
  by_cases c6 : byteAt src 5 / 128 ≠ 0
  · rw [if_pos c6] at h; cases h
  rw [if_neg c6] at h
  by_cases c7 : byteAt src 5 / 16 % 8 < 4
  · rw [if_pos c7] at h; cases h
  rw [if_neg c7] at h
  by_cases c8 : byteAt src 5 % 16 ≠ 0
  · rw [if_pos c8] at h; cases h
  rw [if_neg c8] at h
  by_cases c9 : E.hash (List.take (7 + cs + dd - 5) (List.drop 4 src)) / 256 % 256 ≠ byteAt src (7 + cs + dd - 1)
  · rw [if_pos c9] at h; cases h
  rw [if_neg c9] at h
  injection h with h
  injection h with h1 h2
  subst h2
  have hr0 : byteAt src 4 / 2 % 2 = 0 := by
    rcases Nat.mod_two_eq_zero_or_one (byteAt src 4 / 2) with h0 | h0
    · exact h0
    · rw [h0] at c3; simp at c3
  have e1 : 7 + cs + dd - 5 = 2 + (cs + dd) := by omega
  have e2 : 7 + cs + dd - 1 = 6 + (cs + dd) := by omega
  rw [e1, e2] at c9
  have sp := spec_eval E src (cs + dd) (by rw [hcs, hdd]) (by omega) (by omega) (by omega) hr0 (by omega) (by omega) c7 (by omega)
  rw [sp]
  subst h1
  have hmb' : mb = blockSizeOf (byteAt src 5 / 16 % 8) := by rw [← hmb]; exact hbsz _ c7 hbs8
  subst hmb'
  unfold specHdr
  by_cases hb1 : (byteAt src 4 / 8 % 2 == 1) = true <;> by_cases hb2 : (byteAt src 4 % 2 == 1) = true <;>
  simp only [hb1, hb2, ↓reduceIte] at hcs hdd ⊢ <;> subst hcs <;> subst hdd <;>
  simp [List.take_take, List.drop_take, List.drop_drop]

/-- what acceptance by the specification parser means for the header bytes -/
theorem spec_facts (E : Env) (src : Bytes) (hdr : Header) (rest : Bytes) (h : specHeader E src = .ok (hdr, rest)) :
    7 + ((if ((byteAt src 4 / 8) % 2 == 1) = true then 8 else 0) + (if (byteAt src 4 % 2 == 1) = true then 4 else 0)) ≤ src.length ∧
    le (src.take 4) = lz4Magic ∧ byteAt src 4 / 64 = 1 ∧ byteAt src 4 / 2 % 2 = 0 ∧
    byteAt src 5 / 128 = 0 ∧ byteAt src 5 % 16 = 0 ∧ ¬ byteAt src 5 / 16 % 8 < 4 ∧
    E.hash ((src.drop 4).take (2 + ((if ((byteAt src 4 / 8) % 2 == 1) = true then 8 else 0) + (if (byteAt src 4 % 2 == 1) = true then 4 else 0)))) / 256 % 256
      = byteAt src (6 + ((if ((byteAt src 4 / 8) % 2 == 1) = true then 8 else 0) + (if (byteAt src 4 % 2 == 1) = true then 4 else 0))) := by
  unfold specHeader Parser.bind at h
  by_cases l4 : src.length < 4
  · unfold LZ4V.Spec.FrameL.takeN at h; rw [if_pos l4] at h; cases h
  have t4 := takeN_drop 4 0 src (by omega)
  simp only [Nat.zero_add, List.drop_zero] at t4
  rw [t4] at h
  have cm : le (src.take 4) = lz4Magic := by
    by_cases cm : le (src.take 4) = lz4Magic
    · exact cm
    · simp only [cm, ne_eq, not_false_eq_true, ↓reduceIte, Parser.fail] at h; cases h
  simp only [cm, ne_eq, not_true_eq_false, ↓reduceIte] at h
  unfold pHeader Parser.bind at h
  by_cases l6 : src.length < 6
  · have : takeN 2 (src.drop 4) = .error (.truncated "input") := by
      unfold LZ4V.Spec.FrameL.takeN; rw [if_pos (by rw [List.length_drop]; omega)]
    rw [this] at h; cases h
  have t2 := takeN_drop 2 4 src (by omega)
  rw [t2] at h
  have g0 := getD_take_drop src 4 2 0 (by omega)
  have g1 := getD_take_drop src 4 2 1 (by omega)
  simp only [g0, g1, Nat.add_zero, Nat.reduceAdd] at h
  have cv : byteAt src 4 / 64 = 1 := by
    by_cases cv : byteAt src 4 / 64 = 1
    · exact cv
    · simp only [cv, ne_eq, not_false_eq_true, ↓reduceIte, Parser.fail] at h; cases h
  have cr : byteAt src 4 / 2 % 2 = 0 := by
    by_cases cr : byteAt src 4 / 2 % 2 = 0
    · exact cr
    · simp only [cv, cr, ne_eq, not_true_eq_false, not_false_eq_true, ↓reduceIte, Parser.fail] at h; cases h
  have c7 : byteAt src 5 / 128 = 0 := by
    by_cases c7 : byteAt src 5 / 128 = 0
    · exact c7
    · simp only [cv, cr, c7, ne_eq, not_true_eq_false, not_false_eq_true, true_or, ↓reduceIte, Parser.fail] at h; cases h
  have c0 : byteAt src 5 % 16 = 0 := by
    by_cases c0 : byteAt src 5 % 16 = 0
    · exact c0
    · simp only [cv, cr, c7, c0, ne_eq, not_true_eq_false, not_false_eq_true, or_true, ↓reduceIte, Parser.fail] at h; cases h
  by_cases cb : byteAt src 5 / 16 % 8 < 4
  · simp only [cv, cr, c7, c0, cb, ne_eq, not_true_eq_false, or_self, ↓reduceIte, Parser.fail] at h; cases h
  simp only [cv, cr, c7, c0, cb, ne_eq, not_true_eq_false, or_self, ↓reduceIte] at h
  generalize hk : (if ((byteAt src 4 / 8) % 2 == 1) = true then 8 else 0) + (if (byteAt src 4 % 2 == 1) = true then 4 else 0) = k at h ⊢
  by_cases lk : src.length < 7 + k
  · by_cases lk2 : src.length < 6 + k
    · have : takeN k (src.drop 6) = .error (.truncated "input") := by
        unfold LZ4V.Spec.FrameL.takeN; rw [if_pos (by rw [List.length_drop]; omega)]
      rw [this] at h; cases h
    · have tk := takeN_drop k 6 src (by omega)
      rw [tk] at h
      have : takeN 1 (src.drop (6 + k)) = .error (.truncated "input") := by
        unfold LZ4V.Spec.FrameL.takeN; rw [if_pos (by rw [List.length_drop]; omega)]
      simp only [] at h
      rw [this] at h; cases h
  have tk := takeN_drop k 6 src (by omega)
  rw [tk] at h
  have t1 := takeN_drop 1 (6 + k) src (by omega)
  simp only [] at h
  rw [t1] at h
  have gh := getD_take_drop src (6 + k) 1 0 (by omega)
  have hcat : (src.drop 4).take 2 ++ (src.drop 6).take k = (src.drop 4).take (2 + k) := by
    rw [List.take_add, List.drop_drop]
  simp only [gh, Nat.add_zero, hcat] at h
  have chc : E.hash ((src.drop 4).take (2 + k)) / 256 % 256 = byteAt src (6 + k) := by
    by_cases chc : E.hash ((src.drop 4).take (2 + k)) / 256 % 256 = byteAt src (6 + k)
    · exact chc
    · simp only [chc, not_false_eq_true, ↓reduceIte, Parser.fail] at h; cases h
  exact ⟨by omega, cm, cv, cr, c7, c0, cb, chc⟩

theorem model_accepts (E : Env) (src : Bytes) (a b : Nat)
    (ha : (if ((byteAt src 4 / 8) % 2 == 1) = true then 8 else 0) = a) (hb : (if (byteAt src 4 % 2 == 1) = true then 4 else 0) = b)
    (hlen : 7 + (a + b) ≤ src.length)
    (hmagic : le (src.take 4) = lz4Magic)
    (hv : byteAt src 4 / 64 = 1) (hr : byteAt src 4 / 2 % 2 = 0)
    (hb7 : byteAt src 5 / 128 = 0) (hb0 : byteAt src 5 % 16 = 0) (hbs : ¬ byteAt src 5 / 16 % 8 < 4)
    (hhc : E.hash ((src.drop 4).take (2 + (a + b))) / 256 % 256 = byteAt src (6 + (a + b))) :
    ∃ hdr size, decodeHeader E.hash src = .ok (.done hdr size) ∧ size ≤ src.length := by
  have hF := byteAt_lt src 4
  have hB := byteAt_lt src 5
  obtain ⟨f1, f2, f3, f4, f5, f6, f7, _, _, _⟩ := bits (byteAt src 4) hF
  obtain ⟨_, _, _, _, _, _, _, b8, b9, b10⟩ := bits (byteAt src 5) hB
  have hmin : LZ4V.Gen.minFHSize = 7 := rfl
  have hmag : LZ4V.Gen.LZ4F_MAGICNUMBER = lz4Magic := rfl
  unfold decodeHeader
  simp only [f1, f2, f3, f4, f5, f6, f7, b8, b9, b10, hc_bits, hmin, hmag, ite_mod2, ha, hb]
  have l7 : ¬ src.length < 7 := by omega
  have lk : ¬ src.length < 7 + a + b := by omega
  have e1 : 7 + a + b - 5 = 2 + (a + b) := by omega
  have e2 : 7 + a + b - 1 = 6 + (a + b) := by omega
  rw [if_neg l7, if_neg (by rw [hmagic]; simp), if_neg (by rw [hr]; decide), if_neg (by rw [hv]; simp), if_neg lk,
      if_neg (by rw [hb7]; simp), if_neg hbs, if_neg (by rw [hb0]; simp), e1, e2, if_neg (by rw [hhc]; simp)]
  exact ⟨_, _, rfl, by omega⟩

/-- **completeness**: whatever header the specification accepts, `LZ4F_decodeHeader` accepts, with the same fields and size -/
theorem decodeHeader_complete (E : Env) (src : Bytes) (hdr : Header) (rest : Bytes) (h : specHeader E src = .ok (hdr, rest)) :
    decodeHeader E.hash src = .ok (.done hdr (src.length - rest.length)) := by
  obtain ⟨p1, p2, p3, p4, p5, p6, p7, p8⟩ := spec_facts E src hdr rest h
  obtain ⟨hdr', size', acc, hsz⟩ := model_accepts E src _ _ rfl rfl p1 p2 p3 p4 p5 p6 p7 p8
  have snd := decodeHeader_sound E src hdr' size' acc
  rw [h] at snd
  simp only [Except.ok.injEq, Prod.mk.injEq] at snd
  obtain ⟨rfl, rfl⟩ := snd
  rw [acc, List.length_drop]
  have : src.length - (src.length - size') = size' := by omega
  rw [this]

end LZ4V.Model.FrameD
