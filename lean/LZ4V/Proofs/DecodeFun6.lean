import LZ4V.Proofs.DecodeFun5
/-!
# What the decoder model computes, part 6: one iteration of the safe loop is one `pstep` of the specification
-/
namespace LZ4V.Model.Decode
open LZ4V.Model LZ4V.Gen LZ4V.Spec.Block

/-- the specification's step at a token, once the literal-length field has been read by the model -/
theorem pstep_rem (src : Bytes) (ip0 ip length : Nat) (h0 : ip0 < src.size) (hip : ip ≤ src.size)
    (hrf : readField (src[ip0].toNat / 16) (rem src (ip0 + 1)) = some (length, rem src ip)) :
    pstep (rem src ip0) =
      if length > src.size - ip then .fail
      else if ip + length = src.size then .fin ((rem src ip).take length)
      else if ip + length + 1 = src.size then .fail
      else match readField (src[ip0].toNat % 16) (rem src (ip + length + 2)) with
        | none => .fail
        | some (mlc, inp4) => .seq ⟨(rem src ip).take length, src[ip + length]!.toNat + 256 * src[ip + length + 1]!.toNat, mlc + 4⟩ inp4 := by
  rw [rem_cons src ip0 h0]
  simp only [pstep, hrf, rem_length]
  by_cases h1 : length > src.size - ip
  · rw [if_pos h1, if_pos h1]
  · rw [if_neg h1, if_neg h1, rem_drop]
    by_cases h2 : ip + length = src.size
    · rw [if_pos h2]
      have : rem src (ip + length) = [] := by
        apply List.eq_nil_of_length_eq_zero; rw [rem_length]; omega
      rw [this]
    · rw [if_neg h2]
      have hlt : ip + length < src.size := by omega
      rw [rem_cons src (ip + length) hlt]
      by_cases h3 : ip + length + 1 = src.size
      · rw [if_pos h3]
        have : rem src (ip + length + 1) = [] := by
          apply List.eq_nil_of_length_eq_zero; rw [rem_length]; omega
        rw [this]
      · rw [if_neg h3]
        have hlt2 : ip + length + 1 < src.size := by omega
        rw [rem_cons src (ip + length + 1) hlt2]
        dsimp only
        rw [getElem!_pos src (ip + length) hlt, getElem!_pos src (ip + length + 1) hlt2, show ip + length + 1 + 1 = ip + length + 2 from rfl]
        cases readField (src[ip0].toNat % 16) (rem src (ip + length + 2)) <;> rfl

/-- the nibble-15 field consumes `(v - 15) / 255 + 1` bytes -/
theorem readField_rest_length (nibble : Nat) (inp : List UInt8) (v : Nat) (rest : List UInt8) (h : readField nibble inp = some (v, rest))
    (hv : v ≥ 15) (hn : nibble ≤ 15) : rest.length + ((v - 15) / 255 + 1) = inp.length := by
  unfold readField at h
  by_cases h15 : nibble = 15
  · rw [if_pos h15] at h
    cases hd : decLen inp with
    | none => rw [hd] at h; cases h
    | some w =>
      obtain ⟨v', r'⟩ := w
      rw [hd] at h
      simp only [Option.some.injEq, Prod.mk.injEq] at h
      obtain ⟨h1, h2⟩ := decLen_suffix inp v' r' hd
      have : v - 15 = v' := by omega
      rw [this, ← h.2, h1, List.length_drop]
      omega
  · rw [if_neg h15] at h
    simp only [Option.some.injEq, Prod.mk.injEq] at h
    omega

/-- what an iteration that consumed a whole sequence leaves behind -/
def SeqPost (env : Env) (st : St) (out : List UInt8) (s' : St) : Prop :=
  ∃ sq, pstep (rem env.src st.ip) = .seq sq (rem env.src s'.ip) ∧ s'.op = st.op + sq.lits.length + sq.ml ∧
    (1 ≤ sq.off → sq.off ≤ (out ++ sq.lits).length ∧ ∃ out2, copyMatch (out ++ sq.lits) sq.off sq.ml = some out2 ∧ Rel env s'.buf s'.op out2)

/-- a whole step: a sequence consumed, or the final literals -/
def FullPost (env : Env) (st : St) (out : List UInt8) : Next → Prop
  | .done s' => ∃ l, pstep (rem env.src st.ip) = .fin l ∧ Rel env s'.buf s'.op (out ++ l)
  | .safe s' => SeqPost env st out s'
  | .fast s' => SeqPost env st out s'

/-- partial decoding stopped inside a step: the output is the previous output extended by part of the literals,
    or by the literals and part of the match -/
def StepPrefix (inp out outP : List UInt8) : Prop :=
  match pstep inp with
  | .fin l => ∃ j, j ≤ l.length ∧ outP = out ++ l.take j
  | .seq sq _ => (∃ j, j ≤ sq.lits.length ∧ outP = out ++ sq.lits.take j) ∨
                 (∃ mlen, mlen ≤ sq.ml ∧ copyMatch (out ++ sq.lits) sq.off mlen = some outP)
  | .fail => False

/-- partial decoding filled the output inside this step -/
def PartialStop (env : Env) (N : Nat) (st : St) (out : List UInt8) (next : Next) : Prop :=
  (nextSt next).op = N ∧
  (∃ outP, Rel env (nextSt next).buf (nextSt next).op outP ∧ StepPrefix (rem env.src st.ip) out outP) ∧
  (∀ s', (next = .safe s' ∨ next = .fast s') → ∃ sq, pstep (rem env.src st.ip) = .seq sq (rem env.src s'.ip))

/-- forward hypothesis of an iteration: the specification's step is valid here; for full decoding, with the room the
    end-of-block rules guarantee -/
def VIter (env : Env) (N op outLen : Nat) (inp : List UInt8) : Prop :=
  match pstep inp with
  | .fin l => env.partialD = true ∨ op + l.length ≤ N
  | .seq s rest => 1 ≤ s.off ∧ s.off ≤ outLen + s.lits.length ∧
      (env.partialD = true ∨ (op + s.lits.length + 12 ≤ N ∧ op + s.lits.length + s.ml + 5 ≤ N)) ∧ 6 ≤ rest.length
  | .fail => False

/-- what an iteration leaves behind.  Full decoding: a whole step of the specification.  Partial decoding, on a valid step:
    a whole step, or a stop with the output full. -/
def StepPost (env : Env) (N : Nat) (st : St) (out : List UInt8) (next : Next) : Prop :=
  (env.partialD = true → VIter env N st.op out.length (rem env.src st.ip)) →
    (FullPost env st out next ∨ (env.partialD = true ∧ PartialStop env N st out next))

theorem StepPost.of_full {env : Env} {N : Nat} {st : St} {out : List UInt8} {next : Next} (h : FullPost env st out next) :
    StepPost env N st out next := fun _ => Or.inl h

/-- the literals of the sequence at `ip` -/
def litsAt (src : Bytes) (ip length : Nat) : List UInt8 := (rem src ip).take length

theorem litsAt_length (src : Bytes) (ip length : Nat) (h : ip + length ≤ src.size) : (litsAt src ip length).length = length := by
  unfold litsAt; rw [List.length_take, rem_length]; omega

theorem litsAt_get (src : Bytes) (ip length i : Nat) (hi : i < length) : (litsAt src ip length)[i]? = src[ip + i]? :=
  rem_take_get src ip length i hi

/-- 16-bit little-endian offset at `p` -/
def off16 (src : Bytes) (p : Nat) : Nat := src[p]!.toNat + 256 * src[p + 1]!.toNat

theorem rd16_off16 {src : Bytes} {p v : Nat} (h : rd16 src p = .ok v) : v = off16 src p ∧ p + 1 < src.size := by
  obtain ⟨hi, hv⟩ := rd16_spec h
  refine ⟨?_, hi⟩
  unfold off16
  rw [getElem!_pos src p (by omega), getElem!_pos src (p + 1) hi]
  exact hv

theorem litsAt_take (src : Bytes) (ip length j : Nat) (hj : j ≤ length) : (litsAt src ip length).take j = litsAt src ip j := by
  unfold litsAt
  rw [List.take_take, Nat.min_eq_left hj]

/-- the model's literal copy: `Rel` for the output extended by the first `n` literals -/
theorem rel_lits (env : Env) (st : St) (ip n m : Nat) (out : List UInt8) (hrel : Rel env st.buf st.op out) (hL : env.low.toNat ≤ st.op)
    (b : Bytes) (hb : copyIn st.buf st.op env.src ip .srcRead m = .ok b) (hn : n ≤ m) (hin : ip + n ≤ env.src.size) :
    Rel env b (st.op + n) (out ++ litsAt env.src ip n) := by
  obtain ⟨c1, c2, c3, _⟩ := copyIn_spec _ _ _ _ _ _ _ hb
  have := hrel.lits (b := b) hL (fun j hj => c2 j (Or.inl hj)) (litsAt env.src ip n) (by
    intro i hi
    rw [litsAt_length env.src ip n hin] at hi
    rw [c3 i (by omega), litsAt_get env.src ip n i hi])
  rw [litsAt_length env.src ip n hin] at this
  exact this

/-- from the post-condition of the match to the post-condition of the iteration -/
theorem stepPost_of_match (env : Env) (N : Nat) (st : St) (ip length : Nat) (h0 : st.ip < env.src.size) (hip : ip ≤ env.src.size)
    (hrf : readField (env.src[st.ip].toNat / 16) (rem env.src (st.ip + 1)) = some (length, rem env.src ip))
    (hin : ip + length + 2 ≤ env.src.size) (out : List UInt8) (s1 : St) (ml ip' : Nat) (hs1 : s1.op = st.op + length)
    (hrf2 : readField (env.src[st.ip].toNat % 16) (rem env.src (ip + length + 2)) = some (ml - 4, rem env.src ip')) (h4 : 4 ≤ ml)
    (next : Next) (hmp : MatchPost env N s1 ip' (off16 env.src (ip + length)) ml (out ++ litsAt env.src ip length) next) :
    StepPost env N st out next := by
  have hp := pstep_rem env.src st.ip ip length h0 hip hrf
  rw [if_neg (by omega), if_neg (by omega), if_neg (by omega), hrf2] at hp
  dsimp only at hp
  rw [show ml - 4 + 4 = ml by omega] at hp
  have hll : (List.take length (rem env.src ip)).length = length := litsAt_length env.src ip length (by omega)
  obtain ⟨s', mlen, hm1, hcp, hcase⟩ := hmp
  rcases hcase with ⟨hml, hn⟩ | ⟨hP, hopN, hns⟩
  · apply StepPost.of_full
    subst hml
    have hsp : SeqPost env st out s' := by
      rw [← hcp.1] at hp
      refine ⟨_, hp, ?_, ?_⟩
      · dsimp only; rw [hll, hcp.2.1, hs1]
      · dsimp only; exact hcp.2.2
    rcases hn with hn | hn <;> (subst hn; exact hsp)
  · intro hv
    right
    refine ⟨hP, ?_⟩
    have hv' := hv hP
    unfold VIter at hv'
    rw [hp] at hv'
    dsimp only at hv'
    refine ⟨by rw [hns]; exact hopN, ?_, ?_⟩
    · obtain ⟨_, outP, hc, hr⟩ := hcp.2.2 hv'.1
      refine ⟨outP, by rw [hns]; exact hr, ?_⟩
      unfold StepPrefix
      rw [hp]
      dsimp only
      right
      exact ⟨mlen, hm1, hc⟩
    · intro s'' hs''
      have : s'' = s' := by
        rcases hs'' with h | h <;> (rw [h] at hns; simpa [nextSt] using hns)
      subst this
      rw [← hcp.1] at hp
      exact ⟨_, hp⟩

/-- from the forward hypothesis of the iteration to the forward hypothesis of the match -/
theorem vmatch_of_viter (env : Env) (N : Nat) (st : St) (ip length : Nat) (h0 : st.ip < env.src.size) (hip : ip ≤ env.src.size)
    (hrf : readField (env.src[st.ip].toNat / 16) (rem env.src (st.ip + 1)) = some (length, rem env.src ip))
    (hin : ip + length + 2 ≤ env.src.size) (out : List UInt8) (hv : VIter env N st.op out.length (rem env.src st.ip)) :
    ∃ v rest, readField (env.src[st.ip].toNat % 16) (rem env.src (ip + length + 2)) = some (v, rest) ∧
      (v ≥ 15 → ip + length + 2 + (v - 15) / 255 + 1 + 4 ≤ env.src.size) ∧
      1 ≤ off16 env.src (ip + length) ∧ off16 env.src (ip + length) ≤ (out ++ litsAt env.src ip length).length ∧
      (env.partialD = true ∨ (st.op + length + (v + 4) + 5 ≤ N ∧ st.op + length + 12 ≤ N)) ∧ 6 ≤ rest.length := by
  have hp := pstep_rem env.src st.ip ip length h0 hip hrf
  rw [if_neg (by omega), if_neg (by omega), if_neg (by omega)] at hp
  unfold VIter at hv
  rw [hp] at hv
  cases hr : readField (env.src[st.ip].toNat % 16) (rem env.src (ip + length + 2)) with
  | none => rw [hr] at hv; exact hv.elim
  | some w =>
    obtain ⟨v, rest⟩ := w
    rw [hr] at hv
    dsimp only at hv
    have hl : (List.take length (rem env.src ip)).length = length := litsAt_length env.src ip length (by omega)
    rw [hl] at hv
    obtain ⟨v1, v2, v3, v5⟩ := hv
    refine ⟨v, rest, rfl, ?_, v1, ?_, ?_, v5⟩
    · intro hv15
      have := readField_rest_length _ _ _ _ hr hv15 (by omega)
      rw [rem_length] at this
      omega
    · rw [List.length_append, litsAt_length env.src ip length (by omega)]
      exact v2
    · rcases v3 with v3 | v3
      · exact Or.inl v3
      · right; omega

/-- a step of the model that cannot end in a clean error, inside a `Sim` chain -/
theorem Sim.step {α β} {Q : β → Prop} {V : Prop} {x : Except Err α} {f : α → Except Err β}
    (hnb : ∀ ip, x ≠ .error (.bad ip)) (hf : ∀ a, x = .ok a → Sim Q V (f a)) : Sim Q V (x >>= f) :=
  Sim.bind (P := fun a => x = .ok a) (Sim.of_ok hnb (fun _ h => h)) (fun a h _ => hf a h)

/-- the literals are in place (state `s1`), the offset and the match follow (`_copy_match`): shared by `safe_literal_copy` and the shortcut -/
theorem lits_then_match (env : Env) (N : Nat) (hw : WF2 env N) (st : St) (ip length : Nat) (h0 : st.ip < env.src.size) (hip : ip ≤ env.src.size)
    (hrf : readField (env.src[st.ip].toNat / 16) (rem env.src (st.ip + 1)) = some (length, rem env.src ip))
    (hin : ip + length + 2 ≤ env.src.size) (hd0 : env.dst0 ≤ st.op) (hroom : st.op + length ≤ N) (out : List UInt8)
    (b : Bytes) (hbsz : b.size = N) (hrel' : Rel env b (st.op + length) (out ++ litsAt env.src ip length)) (offset : Nat)
    (hoff : offset = off16 env.src (ip + length)) :
    Sim (StepPost env N st out) (VIter env N st.op out.length (rem env.src st.ip))
      (copyMatchLbl env ⟨ip + length, st.op + length, b⟩ (ip + length + 2) offset (env.src[st.ip].toNat)) := by
  apply (copyMatchLbl_sim env N hw ⟨ip + length, st.op + length, b⟩ (ip + length + 2) offset (env.src[st.ip].toNat)
    hbsz (by dsimp only; omega) hroom _ hrel').mono
  · rintro next _ ⟨ml, ip', hrf2, h4, _, hmp⟩
    rw [hoff] at hmp
    exact stepPost_of_match env N st ip length h0 hip hrf hin out _ ml ip' rfl hrf2 h4 next hmp
  · intro hv
    obtain ⟨v, rest, v1, v2, v3, v4, v5, _⟩ := vmatch_of_viter env N st ip length h0 hip hrf hin out hv
    rw [hoff]
    refine ⟨v, rest, v1, fun h => by have := v2 h; omega, v3, v4, ?_⟩
    rcases v5 with v5 | v5
    · exact Or.inl v5
    · right; dsimp only; omega

/-- label `safe_literal_copy` -/
theorem safeLit_sim (env : Env) (N : Nat) (hw : WF2 env N) (st : St) (ip token length : Nat) (h0 : st.ip < env.src.size)
    (htok : token = env.src[st.ip].toNat) (hip : ip ≤ env.src.size)
    (hrf : readField (token / 16) (rem env.src (st.ip + 1)) = some (length, rem env.src ip))
    (hsz : st.buf.size = N) (hd0 : env.dst0 ≤ st.op) (hop : st.op ≤ N) (out : List UInt8) (hrel : Rel env st.buf st.op out) :
    Sim (StepPost env N st out) (VIter env N st.op out.length (rem env.src st.ip)) (safeLit env st ip token length) := by
  subst htok
  have hlow2 := hw.wf.low_le
  have hp := pstep_rem env.src st.ip ip length h0 hip hrf
  unfold safeLit
  have c12 : MFLIMIT = 12 := rfl
  have c5 : LASTLITERALS = 5 := rfl
  rw [c12, c5, hsz]
  dsimp only
  by_cases hlast : st.op + length + 12 > N ∨ ip + length + (2 + 1 + 5) > env.src.size
  · rw [if_pos hlast]
    unfold lastLitLen
    rw [hsz]
    by_cases hP : env.partialD = true
    · -- partial decoding
      rw [hP]
      simp only [if_true]
      generalize hL1 : (if ip + length > env.src.size then env.src.size - ip else length) = L1
      generalize hL2 : (if st.op + L1 > N then N - st.op else L1) = L2
      have hL2' : (if st.op + L1 > N then (Except.ok (N - st.op) : Except Err Nat) else Except.ok L1) = Except.ok L2 := by
        rw [← hL2]; split <;> rfl
      rw [hL2']
      apply Sim.step (x := copyIn st.buf st.op env.src ip .srcRead L2) (copyIn_nb _ _ _ _ _ _)
      intro b hb
      have hbsz : b.size = N := by rw [(copyIn_spec _ _ _ _ _ _ _ hb).1]; exact hsz
      by_cases hstop0 : ¬True ∨ st.op + L2 = N ∨ ip + L2 + 2 ≥ env.src.size
      · rw [if_pos hstop0]
        have hstop : st.op + L2 = N ∨ ip + L2 + 2 ≥ env.src.size := by
          rcases hstop0 with h | h
          · exact absurd trivial h
          · exact h
        apply Sim.pure
        intro hv
        have hv' := hv hP
        unfold VIter at hv'
        rw [hp] at hv'
        by_cases a : length > env.src.size - ip
        · rw [if_pos a] at hv'; exact hv'.elim
        · rw [if_neg a] at hv' hp
          have e1 : L1 = length := by rw [← hL1, if_neg (by omega)]
          subst e1
          have hL2le : L2 ≤ L1 ∧ st.op + L2 ≤ N ∧ (L2 < L1 → st.op + L2 = N) := by
            rw [← hL2]; split <;> omega
          have hrelP : Rel env b (st.op + L2) (out ++ litsAt env.src ip L2) :=
            rel_lits env st ip L2 L2 out hrel (by omega) b hb (Nat.le_refl _) (by omega)
          by_cases bb : ip + L1 = env.src.size
          · rw [if_pos bb] at hv' hp
            by_cases hfullc : L2 = L1
            · left
              subst hfullc
              exact ⟨_, hp, hrelP⟩
            · right
              refine ⟨hP, by dsimp only [nextSt]; omega, ⟨_, hrelP, ?_⟩, fun s' hs' => by rcases hs' with h | h <;> cases h⟩
              unfold StepPrefix
              rw [hp]
              exact ⟨L2, by rw [show List.take L1 (rem env.src ip) = litsAt env.src ip L1 from rfl, litsAt_length env.src ip L1 (by omega)]; omega, by rw [show List.take L1 (rem env.src ip) = litsAt env.src ip L1 from rfl, litsAt_take env.src ip L1 L2 (by omega)]⟩
          · rw [if_neg bb] at hv' hp
            by_cases c : ip + L1 + 1 = env.src.size
            · rw [if_pos c] at hv'; exact hv'.elim
            · rw [if_neg c] at hv' hp
              cases hr : readField (env.src[st.ip].toNat % 16) (rem env.src (ip + L1 + 2)) with
              | none => rw [hr] at hv'; exact hv'.elim
              | some w =>
                obtain ⟨mlc, inp4⟩ := w
                rw [hr] at hv' hp
                dsimp only at hv' hp
                have hsuf := readField_suffix _ _ _ _ hr
                rw [rem_length] at hsuf
                right
                refine ⟨hP, by dsimp only [nextSt]; omega, ⟨_, hrelP, ?_⟩, fun s' hs' => by rcases hs' with h | h <;> cases h⟩
                unfold StepPrefix
                rw [hp]
                dsimp only
                left
                exact ⟨L2, by rw [show List.take L1 (rem env.src ip) = litsAt env.src ip L1 from rfl, litsAt_length env.src ip L1 (by omega)]; omega, by rw [show List.take L1 (rem env.src ip) = litsAt env.src ip L1 from rfl, litsAt_take env.src ip L1 L2 (by omega)]⟩
      · rw [if_neg hstop0]
        have hstop : ¬ (st.op + L2 = N ∨ ip + L2 + 2 ≥ env.src.size) := fun h => hstop0 (Or.inr h)
        -- the output is not full and more input follows: `L2` is the whole literal run, the match comes next
        apply Sim.step (rd16_nb _ _)
        intro offset hoff
        obtain ⟨ho1, ho2⟩ := rd16_off16 hoff
        have hL2le : L2 ≤ L1 ∧ st.op + L2 ≤ N ∧ (L2 < L1 → st.op + L2 = N) := by
          rw [← hL2]; split <;> omega
        have e2 : L2 = L1 := by
          rcases Nat.lt_or_ge L2 L1 with h | h
          · exact absurd (Or.inl (hL2le.2.2 h)) hstop
          · omega
        subst e2
        have e1 : L2 = length := by
          by_cases hc : ip + length > env.src.size
          · rw [if_pos hc] at hL1; omega
          · rw [if_neg hc] at hL1; exact hL1.symm
        subst e1
        exact lits_then_match env N hw st ip L2 h0 hip hrf (by omega) hd0 hL2le.2.1 out b hbsz
          (rel_lits env st ip L2 L2 out hrel (by omega) b hb (Nat.le_refl _) (by omega)) offset ho1
    · -- full decoding
      have hPf : env.partialD = false := by cases h : env.partialD <;> simp_all
      rw [hPf]
      simp only [Bool.false_eq_true, if_false, not_false_eq_true, true_or, if_true]
      by_cases hbadc : ip + length ≠ env.src.size ∨ st.op + length > N
      · rw [if_pos hbadc]
        apply Sim.bad
        intro hv
        unfold VIter at hv
        rw [hp] at hv
        by_cases a : length > env.src.size - ip
        · rw [if_pos a] at hv; exact hv
        · rw [if_neg a] at hv
          by_cases b : ip + length = env.src.size
          · rw [if_pos b] at hv
            dsimp only at hv
            rw [show (List.take length (rem env.src ip)).length = length from litsAt_length env.src ip length (by omega)] at hv
            rcases hv with hv | hv
            · exact hP hv
            · omega
          · rw [if_neg b] at hv
            by_cases c : ip + length + 1 = env.src.size
            · rw [if_pos c] at hv; exact hv
            · rw [if_neg c] at hv
              cases hr : readField (env.src[st.ip].toNat % 16) (rem env.src (ip + length + 2)) with
              | none => rw [hr] at hv; exact hv
              | some w =>
                obtain ⟨mlc, inp4⟩ := w
                rw [hr] at hv
                dsimp only at hv
                rw [show (List.take length (rem env.src ip)).length = length from litsAt_length env.src ip length (by omega)] at hv
                have := readField_suffix _ _ _ _ hr
                rw [rem_length] at this
                rcases hv.2.2.1 with hv3 | hv3
                · exact hP hv3
                · omega
      · rw [if_neg hbadc]
        apply Sim.step (x := copyIn st.buf st.op env.src ip .srcRead length) (copyIn_nb _ _ _ _ _ _)
        intro b hb
        apply Sim.pure
        apply StepPost.of_full
        rw [if_neg (by omega), if_pos (by omega)] at hp
        exact ⟨_, hp, rel_lits env st ip length length out hrel (by omega) b hb (Nat.le_refl _) (by omega)⟩
  · rw [if_neg hlast]
    apply Sim.step (copyIn_nb _ _ _ _ _ _)
    intro b hb
    apply Sim.step (rd16_nb _ _)
    intro offset hoff
    obtain ⟨ho1, ho2⟩ := rd16_off16 hoff
    have hw8 := wild8len_le st.op (st.op + length)
    have hbsz : b.size = N := by rw [(copyIn_spec _ _ _ _ _ _ _ hb).1]; exact hsz
    exact lits_then_match env N hw st ip length h0 hip hrf (by omega) hd0 (by omega) out b hbsz
      (rel_lits env st ip length _ out hrel (by omega) b hb (by omega) (by omega)) offset ho1

theorem copy18_nb (buf : Bytes) (op m ip : Nat) : copy18 buf op m ≠ .error (.bad ip) := by
  unfold copy18
  intro h
  rcases bind_bad h with h | ⟨b1, _, h⟩
  · exact memcpyB_nb _ _ _ _ _ h
  · rcases bind_bad h with h | ⟨b2, _, h⟩
    · exact memcpyB_nb _ _ _ _ _ h
    · exact memcpyB_nb _ _ _ _ _ h

/-- a field whose nibble is below 15 is the nibble -/
theorem readField_small (nibble : Nat) (inp : List UInt8) (h : nibble ≠ 15) : readField nibble inp = some (nibble, inp) := by
  unfold readField; rw [if_neg h]

/-- the 18-byte shortcut match shared by the two loops: `b`, `op` = buffer and position after the literals, `out1` = output after the literals -/
theorem copy18_post (env : Env) (N : Nat) (hw : WF2 env N) (b : Bytes) (op offset mlc : Nat) (hsz : b.size = N) (hd0 : env.dst0 ≤ op)
    (out1 : List UInt8) (hrel : Rel env b op out1) (hoff8 : 8 ≤ offset) (hoff : offset ≤ 65535) (hml : mlc < 15) (hroom : op + 18 ≤ N)
    (hm : env.dict = .withPrefix64k ∨ (op : Int) - offset ≥ env.low) (hm0 : ¬ (op : Int) - offset < 0)
    (b2 : Bytes) (hc : copy18 b op ((op : Int) - offset).toNat = .ok b2) (ip0 ip' : Nat) :
    CopyPost env ⟨ip0, op, b⟩ ip' offset (mlc + 4) out1 ⟨ip', op + mlc + 4, b2⟩ := by
  have hlow2 := hw.wf.low_le
  have hlen := hrel.len
  refine ⟨rfl, by dsimp only; omega, fun ho => ?_⟩
  have e := copy18_ext b op _ offset b2 hc ho (by omega)
  have hmL : env.low.toNat + offset ≤ op := by
    rcases hm with hm | hm
    · have := hw.pfx hm; omega
    · omega
  have := ext_post env b b2 op offset (mlc + 4) out1 hrel (by omega) hmL ho (e.mono (by omega)) (by omega)
  dsimp only
  rw [show op + mlc + 4 = op + (mlc + 4) by omega]
  exact this

/-- the two-stage shortcut of the safe loop -/
theorem shortcut_sim (env : Env) (N : Nat) (hw : WF2 env N) (st : St) (token : Nat) (h0 : st.ip < env.src.size)
    (htok : token = env.src[st.ip].toNat) (hc1 : token / 16 ≠ 15) (hc2 : st.ip + 1 + 16 < env.src.size) (hc3 : st.op + 32 ≤ N)
    (hsz : st.buf.size = N) (hd0 : env.dst0 ≤ st.op) (out : List UInt8) (hrel : Rel env st.buf st.op out) :
    Sim (StepPost env N st out) (VIter env N st.op out.length (rem env.src st.ip)) (shortcut env st token) := by
  subst htok
  have hlow2 := hw.wf.low_le
  have hlt := env.src[st.ip].toNat_lt
  have hrf := readField_small _ (rem env.src (st.ip + 1)) hc1
  unfold shortcut
  dsimp only
  have c15 : ML_MASK = 15 := rfl
  have c4 : MINMATCH = 4 := rfl
  rw [c15, c4]
  apply Sim.step (copyIn_nb _ _ _ _ _ _)
  intro b hb
  apply Sim.step (rd16_nb _ _)
  intro offset hoff
  have hbsz : b.size = N := by rw [(copyIn_spec _ _ _ _ _ _ _ hb).1]; exact hsz
  obtain ⟨ho1, ho2⟩ := rd16_off16 hoff
  have ho3 := (rd16_good env.src _ ho2)
  rw [hoff] at ho3
  simp only [Good] at ho3
  have hrel' : Rel env b (st.op + env.src[st.ip].toNat / 16) (out ++ litsAt env.src (st.ip + 1) (env.src[st.ip].toNat / 16)) :=
    rel_lits env st (st.ip + 1) _ 16 out hrel (by omega) b hb (by omega) (by omega)
  by_cases hsc : env.src[st.ip].toNat % 16 ≠ 15 ∧ offset ≥ 8 ∧
      (env.dict = .withPrefix64k ∨ ((st.op + env.src[st.ip].toNat / 16 : Nat) : Int) - offset ≥ env.low)
  · rw [if_pos hsc]
    by_cases hm0 : ((st.op + env.src[st.ip].toNat / 16 : Nat) : Int) - offset < 0
    · rw [if_pos hm0]; exact Sim.fault
    · rw [if_neg hm0]
      apply Sim.step (copy18_nb _ _ _)
      intro b2 hb2
      apply Sim.pure
      have hcp := copy18_post env N hw b (st.op + env.src[st.ip].toNat / 16) offset (env.src[st.ip].toNat % 16) hbsz (by omega)
        _ hrel' hsc.2.1 ho3 (by omega) (by omega) hsc.2.2 hm0 b2 hb2 (st.ip + 1 + env.src[st.ip].toNat / 16)
        (st.ip + 1 + env.src[st.ip].toNat / 16 + 2)
      rw [ho1] at hcp
      exact stepPost_of_match env N st (st.ip + 1) (env.src[st.ip].toNat / 16) h0 (by omega) hrf (by omega) out
        ⟨st.ip + 1 + env.src[st.ip].toNat / 16, st.op + env.src[st.ip].toNat / 16, b⟩ (env.src[st.ip].toNat % 16 + 4) _ rfl
        (by rw [readField_small _ _ hsc.1]; simp) (by omega) _
        ⟨_, env.src[st.ip].toNat % 16 + 4, Nat.le_refl _, hcp, Or.inl ⟨rfl, Or.inl rfl⟩⟩
  · rw [if_neg hsc]
    exact lits_then_match env N hw st (st.ip + 1) _ h0 (by omega) hrf (by omega) hd0 (by omega) out b hbsz hrel' offset ho1

/-- a valid step has a literal-length field that fits the input -/
theorem viter_lit (env : Env) (N op n ip0 : Nat) (h0 : ip0 < env.src.size) (hv : VIter env N op n (rem env.src ip0)) :
    ∃ v rest, readField (env.src[ip0].toNat / 16) (rem env.src (ip0 + 1)) = some (v, rest) ∧ v ≤ rest.length := by
  unfold VIter at hv
  rw [rem_cons env.src ip0 h0] at hv
  simp only [pstep] at hv
  cases hr : readField (env.src[ip0].toNat / 16) (rem env.src (ip0 + 1)) with
  | none => rw [hr] at hv; exact hv.elim
  | some w =>
    obtain ⟨v, rest⟩ := w
    rw [hr] at hv
    dsimp only at hv
    by_cases hgt : v > rest.length
    · rw [if_pos hgt] at hv; exact hv.elim
    · exact ⟨v, rest, rfl, by omega⟩

/-- the literal-length field of a valid step is accepted by `read_variable_length` -/
theorem vlit_of_viter (env : Env) (N op n ip0 token : Nat) (h0 : ip0 < env.src.size) (htok : token = env.src[ip0].toNat)
    (hv : VIter env N op n (rem env.src ip0)) :
    ∃ v rest, readField (token / 16) (rem env.src (ip0 + 1)) = some (v, rest) ∧ (v ≥ 15 → ip0 + 1 + (v - 15) / 255 + 1 + 15 ≤ env.src.size) := by
  obtain ⟨v, rest, h1, h2⟩ := viter_lit env N op n ip0 h0 hv
  rw [← htok] at h1
  refine ⟨v, rest, h1, fun h15 => ?_⟩
  have := readField_rest_length _ _ _ _ h1 h15 (by have := env.src[ip0].toNat_lt; omega)
  rw [rem_length] at this
  omega

/-- **one iteration of the safe loop is one step of the specification** -/
theorem safeIter_sim (env : Env) (N : Nat) (hw : WF2 env N) (st : St)
    (hsz : st.buf.size = N) (hd0 : env.dst0 ≤ st.op) (hop : st.op ≤ N) (out : List UInt8) (hrel : Rel env st.buf st.op out) :
    Sim (StepPost env N st out) (VIter env N st.op out.length (rem env.src st.ip)) (safeIter env st) := by
  unfold safeIter
  apply Sim.step (rd8_nb _ _)
  intro token htok
  obtain ⟨h0, htok⟩ := rd8_spec htok
  have c15 : RUN_MASK = 15 := rfl
  have c16 : shortInMargin = 16 := rfl
  have c32 : shortOutMargin = 32 := rfl
  rw [c15, c16, c32, hsz]
  by_cases hsc : token / 16 ≠ 15 ∧ st.ip + 1 + 16 < env.src.size ∧ st.op + 32 ≤ N
  · rw [if_pos hsc]
    exact shortcut_sim env N hw st token h0 htok hsc.1 hsc.2.1 hsc.2.2 hsz hd0 out hrel
  · rw [if_neg hsc]
    apply Sim.bind ((litLen_sim env.src (st.ip + 1) token).mono (fun a _ h => h) (vlit_of_viter env N st.op out.length st.ip token h0 htok))
    intro r _ hr
    obtain ⟨hr1, hr2, hr3, _⟩ := hr
    exact safeLit_sim env N hw st r.2 token r.1 h0 htok (by omega) hr1 hsz hd0 hop out hrel

end LZ4V.Model.Decode
