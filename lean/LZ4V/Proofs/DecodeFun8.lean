import LZ4V.Proofs.DecodeFun7
/-!
# What the decoder model computes, part 8: the two loops against the specification decoder

* `loop_conv` : whenever the loops end normally, the specification decoder, started on the same remaining input with the data the
  decoder could see, produces exactly the bytes now in the buffer — unless the format-level walk over the sequences meets an offset
  of 0 (`HasZero`; the unchanged code accepts such a sequence: known finding F7a).
* `loop_fwd` : on an input whose remaining sequences are valid with the room the end-of-block rules guarantee (`VTail`), the loops
  never give up, and end with the specification's output.
-/
namespace LZ4V.Model.Decode
open LZ4V.Model LZ4V.Gen LZ4V.Spec.Block

def nextSt : Next → St
  | .fast s => s
  | .safe s => s
  | .done s => s

theorem nextIp_eq (n : Next) : nextIp n = (nextSt n).ip := by cases n <;> rfl

/-- the format-level walk over the sequences meets an offset of 0 -/
def HasZero : Nat → List UInt8 → Prop
  | 0, _ => False
  | f+1, inp => match pstep inp with
    | .seq s rest => s.off = 0 ∨ HasZero f rest
    | _ => False

/-- outcome of the converse direction from a loop state -/
def ConvPost (env : Env) (ip : Nat) (out : List UInt8) (stf : St) : Prop :=
  (∃ f outf, decodeAux f (rem env.src ip) out = some outf ∧ Rel env stf.buf stf.op outf) ∨ (∃ f, HasZero f (rem env.src ip))

/-- the iteration a loop state runs next -/
def iterOf (env : Env) : Next → Except Err Next
  | .fast s => fastIter env s
  | .safe s => safeIter env s
  | .done _ => .error .fuel

/-- what the safety theorems and the simulation say together about one iteration -/
theorem iter_facts (env : Env) (N : Nat) (hw : WF2 env N) (n : Next) (s : St) (hn : n = .safe s ∨ n = .fast s) (hinv : LoopInv env N n)
    (out : List UInt8) (hrel : Rel env s.buf s.op out) :
    Good (NextOK env N s.ip) (iterOf env n) ∧ Sim (StepPost env s out) (VIter N s.op out.length (rem env.src s.ip)) (iterOf env n) := by
  rcases hn with hn | hn <;> subst hn <;> simp only [LoopInv] at hinv <;> simp only [iterOf]
  · exact ⟨safeIter_good env N hw.wf s hinv.1 hinv.2.2.1 hinv.2.1 hinv.2.2.2, safeIter_sim env N hw s hinv.1 hinv.2.1 out hrel⟩
  · exact ⟨fastIter_good env N hw.wf s hinv.1 hinv.2.1 hinv.2.2.1 hinv.2.2.2, fastIter_sim env N hw s hinv.1 hinv.2.1 out hrel⟩

theorem loop_unfold (env : Env) (fuel : Nat) (n : Next) (s : St) (hn : n = .safe s ∨ n = .fast s) :
    loop env (fuel + 1) n =
      match iterOf env n with
      | .error e => .error e
      | .ok n' => loop env fuel n' := by
  rcases hn with hn | hn <;> subst hn <;> rfl

theorem loop_conv (env : Env) (N : Nat) (hw : WF2 env N) :
    ∀ (fuel : Nat) (n : Next) (s : St), (n = .safe s ∨ n = .fast s) → LoopInv env N n → ∀ out, Rel env s.buf s.op out →
      ∀ stf, loop env fuel n = .ok stf → ConvPost env s.ip out stf := by
  intro fuel
  induction fuel with
  | zero => intro n s hn _ out _ stf h; rcases hn with hn | hn <;> subst hn <;> simp [loop] at h
  | succ fuel ih =>
    intro n s hn hinv out hrel stf h
    rw [loop_unfold env fuel n s hn] at h
    obtain ⟨hg, hs⟩ := iter_facts env N hw n s hn hinv out hrel
    revert hg hs h
    generalize iterOf env n = r
    intro h hg hs
    match r, hg, hs, h with
    | .error e, _, _, h => cases h
    | .ok n', hg, hs, h =>
      simp only [Good] at hg
      simp only [Sim] at hs
      dsimp only at h
      have hinv' := hg.inv
      have step : ∀ s', (n' = .safe s' ∨ n' = .fast s') → SeqPost env s out s' → ConvPost env s.ip out stf := by
        intro s' hn' hsp
        obtain ⟨sq, hp, _, hpost⟩ := hsp
        by_cases hz : sq.off = 0
        · right
          refine ⟨1, ?_⟩
          simp only [HasZero, hp]
          exact Or.inl hz
        · obtain ⟨_, out2, hcm, hrel2⟩ := hpost (by omega)
          rcases ih n' s' hn' hinv' out2 hrel2 stf h with ⟨f, outf, hd, hr⟩ | ⟨f, hz⟩
          · left
            refine ⟨f + 1, outf, ?_, hr⟩
            rw [decodeAux_pstep, hp]
            dsimp only
            rw [hcm]
            exact hd
          · right
            refine ⟨f + 1, ?_⟩
            simp only [HasZero, hp]
            exact Or.inr hz
      cases n' with
      | done s' =>
        cases fuel with
        | zero => simp [loop] at h
        | succ fuel' =>
          simp only [loop, Except.ok.injEq] at h
          subst h
          simp only [StepPost] at hs
          obtain ⟨l, hp, hr⟩ := hs
          left
          refine ⟨1, out ++ l, ?_, hr⟩
          rw [decodeAux_pstep, hp]
      | safe s' => exact step s' (Or.inl rfl) hs
      | fast s' => exact step s' (Or.inr rfl) hs

/-- forward hypothesis of a whole run: every remaining step is valid (`VIter`) and the specification's copies succeed -/
def VTail (N : Nat) : Nat → Nat → List UInt8 → List UInt8 → Prop
  | 0, _, _, _ => False
  | f+1, op, inp, out => VIter N op out.length inp ∧
    match pstep inp with
    | .seq s rest => ∃ out2, copyMatch (out ++ s.lits) s.off s.ml = some out2 ∧ VTail N f (op + s.lits.length + s.ml) rest out2
    | _ => True

theorem loop_fwd (env : Env) (N : Nat) (hw : WF2 env N) :
    ∀ (fuel : Nat) (n : Next) (s : St), (n = .safe s ∨ n = .fast s) → LoopInv env N n → env.src.size - s.ip < fuel → ∀ out, Rel env s.buf s.op out →
      ∀ f, VTail N f s.op (rem env.src s.ip) out →
      ∃ stf outf, loop env fuel n = .ok stf ∧ decodeAux f (rem env.src s.ip) out = some outf ∧ Rel env stf.buf stf.op outf := by
  intro fuel
  induction fuel with
  | zero => intro n s _ _ hf; omega
  | succ fuel ih =>
    intro n s hn hinv hfu out hrel f hvt
    rw [loop_unfold env fuel n s hn]
    obtain ⟨hg, hs⟩ := iter_facts env N hw n s hn hinv out hrel
    have hsip : s.ip < env.src.size := by rcases hn with hn | hn <;> subst hn <;> simp only [LoopInv] at hinv <;> omega
    cases f with
    | zero => exact hvt.elim
    | succ f =>
    simp only [VTail] at hvt
    obtain ⟨hvi, hvt⟩ := hvt
    revert hg hs
    generalize iterOf env n = r
    intro hg hs
    match r, hg, hs with
    | .error (.bad _), _, hs => exact absurd hvi hs
    | .error (.fault _), hg, _ => simp [Good] at hg
    | .error .fuel, hg, _ => simp [Good] at hg
    | .ok n', hg, hs =>
      simp only [Good] at hg
      simp only [Sim] at hs
      dsimp only
      have hinv' := hg.inv
      have hprog := hg.progress
      have step : ∀ s', (n' = .safe s' ∨ n' = .fast s') → SeqPost env s out s' →
          ∃ stf outf, loop env fuel n' = .ok stf ∧ decodeAux (f + 1) (rem env.src s.ip) out = some outf ∧ Rel env stf.buf stf.op outf := by
        intro s' hn' hsp
        obtain ⟨sq, hp, hop, hpost⟩ := hsp
        unfold VIter at hvi
        rw [hp] at hvi hvt
        dsimp only at hvi hvt
        obtain ⟨out2, hcm, hvt'⟩ := hvt
        obtain ⟨_, out2', hcm', hrel2⟩ := hpost hvi.1
        rw [hcm] at hcm'
        simp only [Option.some.injEq] at hcm'
        subst hcm'
        have hip' : s.ip < s'.ip := by
          rcases hprog with ⟨sd, hd⟩ | hlt
          · rcases hn' with h | h <;> (rw [h] at hd; cases hd)
          · rcases hn' with h | h <;> (rw [h] at hlt; simpa [nextIp] using hlt)
        rw [← hop] at hvt'
        obtain ⟨stf, outf, h1, h2, h3⟩ := ih n' s' hn' hinv' (by omega) out2 hrel2 f hvt'
        refine ⟨stf, outf, h1, ?_, h3⟩
        rw [decodeAux_pstep, hp]
        dsimp only
        rw [hcm]
        exact h2
      cases n' with
      | done s' =>
        cases fuel with
        | zero => omega
        | succ fuel' =>
          simp only [StepPost] at hs
          obtain ⟨l, hp, hr⟩ := hs
          refine ⟨s', out ++ l, by simp [loop], ?_, hr⟩
          rw [decodeAux_pstep, hp]
      | safe s' => exact step s' (Or.inl rfl) hs
      | fast s' => exact step s' (Or.inr rfl) hs

end LZ4V.Model.Decode
