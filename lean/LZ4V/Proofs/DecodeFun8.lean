import LZ4V.Proofs.DecodeFun7
/-!
# What the decoder model computes, part 8: the two loops against the specification decoder

* `loop_conv` : whenever the loops end normally, the specification decoder, started on the same remaining input with the data the
  decoder could see, produces exactly the bytes now in the buffer — unless the format-level walk over the sequences meets an offset
  of 0 (`HasZero`; the unchanged code accepts such a sequence: known finding F7a).
* `loop_fwd` : on an input whose remaining sequences are valid with the room the end-of-block rules guarantee (`VTail`), the loops
  never give up, and end with the specification's output.
-/
namespace LZ4V.Model.Decode
open LZ4V.Model LZ4V.Gen LZ4V.Spec.Block

theorem nextIp_eq (n : Next) : nextIp n = (nextSt n).ip := by cases n <;> rfl

/-- the format-level walk over the sequences meets an offset of 0 -/
def HasZero : Nat → List UInt8 → Prop
  | 0, _ => False
  | f+1, inp => match pstep inp with
    | .seq s rest => s.off = 0 ∨ HasZero f rest
    | _ => False

/-- outcome of the converse direction from a loop state -/
def ConvPost (env : Env) (ip : Nat) (out : List UInt8) (stf : St) : Prop :=
  (∃ f outf, decodeAux f (rem env.src ip) out = some outf ∧ Rel env stf.buf stf.op outf) ∨ (∃ f, HasZero f (rem env.src ip))

/-- the iteration a loop state runs next -/
def iterOf (env : Env) : Next → Except Err Next
  | .fast s => fastIter env s
  | .safe s => safeIter env s
  | .done _ => .error .fuel

/-- what the safety theorems and the simulation say together about one iteration -/
theorem iter_facts (env : Env) (N : Nat) (hw : WF2 env N) (n : Next) (s : St) (hn : n = .safe s ∨ n = .fast s) (hinv : LoopInv env N n)
    (out : List UInt8) (hrel : Rel env s.buf s.op out) :
    Good (NextOK env N s.ip) (iterOf env n) ∧ Sim (StepPost env N s out) (VIter env N s.op out.length (rem env.src s.ip)) (iterOf env n) := by
  have c64 : FASTLOOP_SAFE_DISTANCE = 64 := rfl
  rcases hn with hn | hn <;> subst hn <;> simp only [LoopInv] at hinv <;> simp only [iterOf]
  · exact ⟨safeIter_good env N hw.wf s hinv.1 hinv.2.2.1 hinv.2.1 hinv.2.2.2, safeIter_sim env N hw s hinv.1 hinv.2.1 hinv.2.2.1 out hrel⟩
  · exact ⟨fastIter_good env N hw.wf s hinv.1 hinv.2.1 hinv.2.2.1 hinv.2.2.2, fastIter_sim env N hw s hinv.1 hinv.2.1 (by omega) out hrel⟩

theorem loop_unfold (env : Env) (fuel : Nat) (n : Next) (s : St) (hn : n = .safe s ∨ n = .fast s) :
    loop env (fuel + 1) n =
      match iterOf env n with
      | .error e => .error e
      | .ok n' => loop env fuel n' := by
  rcases hn with hn | hn <;> subst hn <;> rfl

theorem loop_conv (env : Env) (N : Nat) (hw : WF2 env N) (hnp : env.partialD = false) :
    ∀ (fuel : Nat) (n : Next) (s : St), (n = .safe s ∨ n = .fast s) → LoopInv env N n → ∀ out, Rel env s.buf s.op out →
      ∀ stf, loop env fuel n = .ok stf → ConvPost env s.ip out stf := by
  intro fuel
  induction fuel with
  | zero => intro n s hn _ out _ stf h; rcases hn with hn | hn <;> subst hn <;> simp [loop] at h
  | succ fuel ih =>
    intro n s hn hinv out hrel stf h
    rw [loop_unfold env fuel n s hn] at h
    obtain ⟨hg, hs⟩ := iter_facts env N hw n s hn hinv out hrel
    revert hg hs h
    generalize iterOf env n = r
    intro h hg hs
    match r, hg, hs, h with
    | .error e, _, _, h => cases h
    | .ok n', hg, hs, h =>
      simp only [Good] at hg
      simp only [Sim] at hs
      dsimp only at h
      have hinv' := hg.inv
      have hfull : FullPost env s out n' := by
        rcases hs (fun hp => by rw [hnp] at hp; cases hp) with hf | ⟨hp, _⟩
        · exact hf
        · rw [hnp] at hp; cases hp
      have step : ∀ s', (n' = .safe s' ∨ n' = .fast s') → SeqPost env s out s' → ConvPost env s.ip out stf := by
        intro s' hn' hsp
        obtain ⟨sq, hp, _, hpost⟩ := hsp
        by_cases hz : sq.off = 0
        · right
          refine ⟨1, ?_⟩
          simp only [HasZero, hp]
          exact Or.inl hz
        · obtain ⟨_, out2, hcm, hrel2⟩ := hpost (by omega)
          rcases ih n' s' hn' hinv' out2 hrel2 stf h with ⟨f, outf, hd, hr⟩ | ⟨f, hz⟩
          · left
            refine ⟨f + 1, outf, ?_, hr⟩
            rw [decodeAux_pstep, hp]
            dsimp only
            rw [hcm]
            exact hd
          · right
            refine ⟨f + 1, ?_⟩
            simp only [HasZero, hp]
            exact Or.inr hz
      cases n' with
      | done s' =>
        cases fuel with
        | zero => simp [loop] at h
        | succ fuel' =>
          simp only [loop, Except.ok.injEq] at h
          subst h
          simp only [FullPost] at hfull
          obtain ⟨l, hp, hr⟩ := hfull
          left
          refine ⟨1, out ++ l, ?_, hr⟩
          rw [decodeAux_pstep, hp]
      | safe s' => exact step s' (Or.inl rfl) hfull
      | fast s' => exact step s' (Or.inr rfl) hfull

/-! ## forward direction -/

theorem copyMatch_extends : ∀ (n : Nat) (out : List UInt8) (off : Nat) (r : List UInt8), copyMatch out off n = some r → out <+: r := by
  intro n
  induction n with
  | zero => intro out off r h; simp only [copyMatch, Option.some.injEq] at h; subst h; exact List.prefix_refl _
  | succ n ih =>
    intro out off r h
    simp only [copyMatch] at h
    split at h
    · split at h
      · exact List.IsPrefix.trans (List.prefix_append _ _) (ih _ _ _ h)
      · cases h
    · cases h

theorem copyMatch_split : ∀ (a b : Nat) (out : List UInt8) (off : Nat),
    copyMatch out off (a + b) = (copyMatch out off a).bind (fun r => copyMatch r off b) := by
  intro a
  induction a with
  | zero => intro b out off; simp [copyMatch]
  | succ a ih =>
    intro b out off
    rw [show a + 1 + b = (a + b) + 1 by omega]
    simp only [copyMatch]
    split
    · split
      · exact ih b _ off
      · rfl
    · rfl

theorem copyMatch_shorter (out : List UInt8) (off mlen ml : Nat) (outP out2 : List UInt8) (hle : mlen ≤ ml)
    (h1 : copyMatch out off mlen = some outP) (h2 : copyMatch out off ml = some out2) : outP <+: out2 := by
  have := copyMatch_split mlen (ml - mlen) out off
  rw [show mlen + (ml - mlen) = ml by omega, h2, h1] at this
  simp only [Option.bind_some] at this
  exact copyMatch_extends _ _ _ _ this.symm

theorem decodeAux_extends : ∀ (f : Nat) (inp out fin : List UInt8), decodeAux f inp out = some fin → out <+: fin := by
  intro f
  induction f with
  | zero => intro inp out fin h; simp [decodeAux] at h
  | succ f ih =>
    intro inp out fin h
    rw [decodeAux_pstep] at h
    cases hp : pstep inp with
    | fail => rw [hp] at h; cases h
    | fin l => rw [hp] at h; simp only [Option.some.injEq] at h; rw [← h]; exact List.prefix_append _ _
    | seq s rest =>
      rw [hp] at h
      dsimp only at h
      cases hc : copyMatch (out ++ s.lits) s.off s.ml with
      | none => rw [hc] at h; cases h
      | some out2 =>
        rw [hc] at h
        exact (List.prefix_append _ _).trans ((copyMatch_extends _ _ _ _ hc).trans (ih _ _ _ h))

/-- partial decoding, output already full: the next iteration of the safe loop stops without touching anything
    (it reads the token and its literal-length field, copies nothing, and leaves through `op == oend`) -/
theorem safeIter_stopped (env : Env) (N : Nat) (st : St) (hP : env.partialD = true) (hsz : st.buf.size = N) (hopN : st.op = N)
    (hip : st.ip < env.src.size)
    (hv : ∃ v rest, readField (env.src[st.ip].toNat / 16) (rem env.src (st.ip + 1)) = some (v, rest) ∧
                    (v ≥ 15 → st.ip + 1 + (v - 15) / 255 + 1 + 15 ≤ env.src.size)) :
    ∃ ip', safeIter env st = .ok (.done ⟨ip', st.op, st.buf⟩) := by
  have h8 : rd8 env.src st.ip = .ok (env.src[st.ip].toNat) := by unfold rd8; rw [dif_pos hip]
  have hg := litLen_good env.src (st.ip + 1) (env.src[st.ip].toNat) (by omega)
  have hs := litLen_sim env.src (st.ip + 1) (env.src[st.ip].toNat)
  have hlit : ∃ r, litLen env.src (st.ip + 1) (env.src[st.ip].toNat) = .ok r := by
    revert hg hs
    generalize litLen env.src (st.ip + 1) (env.src[st.ip].toNat) = x
    intro hg hs
    match x, hg, hs with
    | .ok r, _, _ => exact ⟨r, rfl⟩
    | .error (.bad _), _, hs => exact absurd hv hs
    | .error (.fault _), hg, _ => simp [Good] at hg
    | .error .fuel, hg, _ => simp [Good] at hg
  obtain ⟨r, hr⟩ := hlit
  have hll : lastLitLen env st r.2 r.1 = .ok 0 := by
    unfold lastLitLen
    rw [hP, hsz]
    simp only [if_true]
    generalize (if r.2 + r.1 > env.src.size then env.src.size - r.2 else r.1) = L1
    by_cases hc : st.op + L1 > N
    · rw [if_pos hc]; congr 1; omega
    · rw [if_neg hc]; congr 1; omega
  refine ⟨r.2 + 0, ?_⟩
  unfold safeIter
  rw [h8]
  simp only [bind, Except.bind]
  rw [if_neg (by rw [hsz]; unfold shortOutMargin; omega), hr]
  dsimp only
  unfold safeLit
  rw [if_pos (Or.inl (by rw [hsz]; unfold MFLIMIT; omega)), hll]
  simp only [bind, Except.bind, copyIn]
  rw [if_pos (Or.inr (Or.inl (by rw [hsz]; omega)))]
  rfl

/-- forward hypothesis of a whole run: every remaining step is valid (`VIter`) and the specification's copies succeed -/
def VTail (env : Env) (N : Nat) : Nat → Nat → List UInt8 → List UInt8 → Prop
  | 0, _, _, _ => False
  | f+1, op, inp, out => VIter env N op out.length inp ∧
    match pstep inp with
    | .seq s rest => ∃ out2, copyMatch (out ++ s.lits) s.off s.ml = some out2 ∧ VTail env N f (op + s.lits.length + s.ml) rest out2
    | _ => True

/-- the run ended with the specification's output `fin`, or — partial decoding — with a prefix of it and the destination full -/
def FwdPost (env : Env) (N : Nat) (stf : St) (fin : List UInt8) : Prop :=
  ∃ outP, Rel env stf.buf stf.op outP ∧ outP <+: fin ∧ (outP = fin ∨ (env.partialD = true ∧ stf.op = N))

theorem loop_fwd (env : Env) (N : Nat) (hw : WF2 env N) :
    ∀ (fuel : Nat) (n : Next) (s : St), (n = .safe s ∨ n = .fast s) → LoopInv env N n → env.src.size - s.ip < fuel → ∀ out, Rel env s.buf s.op out →
      ∀ f fin, VTail env N f s.op (rem env.src s.ip) out → decodeAux f (rem env.src s.ip) out = some fin →
      ∃ stf, loop env fuel n = .ok stf ∧ FwdPost env N stf fin := by
  intro fuel
  induction fuel with
  | zero => intro n s _ _ hf; omega
  | succ fuel ih =>
    intro n s hn hinv hfu out hrel f fin hvt hdec
    rw [loop_unfold env fuel n s hn]
    obtain ⟨hg, hs⟩ := iter_facts env N hw n s hn hinv out hrel
    have hsip : s.ip < env.src.size := by rcases hn with hn | hn <;> subst hn <;> simp only [LoopInv] at hinv <;> omega
    cases f with
    | zero => exact hvt.elim
    | succ f =>
    simp only [VTail] at hvt
    obtain ⟨hvi, hvt⟩ := hvt
    rw [decodeAux_pstep] at hdec
    revert hg hs
    generalize iterOf env n = r
    intro hg hs
    match r, hg, hs with
    | .error (.bad _), _, hs => exact absurd hvi hs
    | .error (.fault _), hg, _ => simp [Good] at hg
    | .error .fuel, hg, _ => simp [Good] at hg
    | .ok n', hg, hs =>
      simp only [Good] at hg
      simp only [Sim] at hs
      dsimp only
      have hinv' := hg.inv
      have hprog := hg.progress
      have hpost := hs (fun _ => hvi)
      have hdoneloop : ∀ s', n' = .done s' → loop env fuel n' = .ok s' := by
        intro s' hn'
        subst hn'
        cases fuel with
        | zero => omega
        | succ fuel' => simp [loop]
      rcases hpost with hfull | ⟨hP, hstop⟩
      · -- a whole step
        have step : ∀ s', (n' = .safe s' ∨ n' = .fast s') → SeqPost env s out s' → ∃ stf, loop env fuel n' = .ok stf ∧ FwdPost env N stf fin := by
          intro s' hn' hsp
          obtain ⟨sq, hp, hop, hpost⟩ := hsp
          unfold VIter at hvi
          rw [hp] at hvi hvt hdec
          dsimp only at hvi hvt hdec
          obtain ⟨out2, hcm, hvt'⟩ := hvt
          rw [hcm] at hdec
          dsimp only at hdec
          obtain ⟨_, out2', hcm', hrel2⟩ := hpost hvi.1
          rw [hcm] at hcm'
          simp only [Option.some.injEq] at hcm'
          subst hcm'
          have hip' : s.ip < s'.ip := by
            rcases hprog with ⟨sd, hd⟩ | hlt
            · rcases hn' with h | h <;> (rw [h] at hd; cases hd)
            · rcases hn' with h | h <;> (rw [h] at hlt; simpa [nextIp] using hlt)
          rw [← hop] at hvt'
          exact ih n' s' hn' hinv' (by omega) out2 hrel2 f fin hvt' hdec
        cases n' with
        | done s' =>
          simp only [FullPost] at hfull
          obtain ⟨l, hp, hr⟩ := hfull
          rw [hp] at hdec
          simp only [Option.some.injEq] at hdec
          exact ⟨s', hdoneloop s' rfl, out ++ l, hr, by rw [hdec]; exact List.prefix_refl _, Or.inl hdec⟩
        | safe s' => exact step s' (Or.inl rfl) hfull
        | fast s' => exact step s' (Or.inr rfl) hfull
      · -- partial decoding stopped inside this step
        obtain ⟨hopN, ⟨outP, hrelP, hpre⟩, hcont⟩ := hstop
        have hprefix : outP <+: fin := by
          unfold StepPrefix at hpre
          cases hp : pstep (rem env.src s.ip) with
          | fail => rw [hp] at hpre; exact hpre.elim
          | fin l =>
            rw [hp] at hpre hdec
            simp only [Option.some.injEq] at hdec
            obtain ⟨j, _, hj⟩ := hpre
            rw [hj, ← hdec]
            exact (List.prefix_append_right_inj out).mpr (List.take_prefix j l)
          | seq sq rest =>
            rw [hp] at hpre hdec hvt
            dsimp only at hpre hdec hvt
            obtain ⟨out2, hcm, _⟩ := hvt
            rw [hcm] at hdec
            dsimp only at hdec
            have h2 := (copyMatch_extends _ _ _ _ hcm).trans (decodeAux_extends _ _ _ _ hdec)
            rcases hpre with ⟨j, _, hj⟩ | ⟨mlen, hml, hc⟩
            · rw [hj]
              exact ((List.prefix_append_right_inj out).mpr (List.take_prefix j sq.lits)).trans h2
            · exact (copyMatch_shorter _ _ _ _ _ _ hml hc hcm).trans (decodeAux_extends _ _ _ _ hdec)
        cases n' with
        | done s' =>
          exact ⟨s', hdoneloop s' rfl, outP, hrelP, hprefix, Or.inr ⟨hP, hopN⟩⟩
        | fast s' =>
          exfalso
          simp only [LoopInv] at hinv'
          simp only [nextSt] at hopN
          have c64 : FASTLOOP_SAFE_DISTANCE = 64 := rfl
          omega
        | safe s' =>
          -- stopped inside an external-dictionary match: one more iteration leaves through `op == oend`
          simp only [nextSt] at hopN hrelP
          simp only [LoopInv] at hinv'
          obtain ⟨sq, hp⟩ := hcont s' (Or.inl rfl)
          rw [hp] at hvt
          dsimp only at hvt
          obtain ⟨out2, _, hvt'⟩ := hvt
          have hip' : s.ip < s'.ip := by
            rcases hprog with ⟨sd, hd⟩ | hlt
            · cases hd
            · simpa [nextIp] using hlt
          cases f with
          | zero => exact hvt'.elim
          | succ f' =>
            simp only [VTail] at hvt'
            obtain ⟨ip'', hstopped⟩ := safeIter_stopped env N s' hP hinv'.1 hopN hinv'.2.2.2
              (vlit_of_viter env N _ _ s'.ip _ hinv'.2.2.2 rfl hvt'.1)
            have hfuel2 : ∃ k, fuel = k + 2 := ⟨fuel - 2, by omega⟩
            obtain ⟨k, hk⟩ := hfuel2
            refine ⟨⟨ip'', s'.op, s'.buf⟩, ?_, outP, hrelP, hprefix, Or.inr ⟨hP, hopN⟩⟩
            rw [hk]
            simp only [loop, hstopped]

end LZ4V.Model.Decode
