import LZ4V.Model.FastR
import LZ4V.Proofs.FastMain
/-!
# A reused compression state stays correct: every block of every `_fastReset` history decodes, alone, to its input

`J S` : every table entry is an index `≤ currentOffset` (it dates from an earlier input or is zero).  One call with
`startIndex = s`: an accepted candidate index `e` satisfies `s ≤ e` (explicit `dictSmall` test, or `s = 0`) and `e < s + ip`
(table invariant), so it designates a position of the CURRENT input, where the four-byte comparison verifies it.  No
16-bit truncation happens under the guard of `LZ4_prepareTable`.  `J` is re-established after the call.
-/
namespace LZ4V.Model.FastR
open LZ4V.Model.Fast
open LZ4V.Spec.Block

/-- call-site facts about a configuration -/
structure CfgOK (C : Cfg) (src : Array UInt8) : Prop where
  hb   : C.P.byU16 = true → src.size < 65547
  h16  : C.P.byU16 = true → C.s + src.size < 65548
  hs0  : C.small = false → C.s = 0
  ha   : 1 ≤ C.P.accel

theorem store_eq (C : Cfg) (src : Array UInt8) (ok : CfgOK C src) (p : Nat) (hp : p + 12 ≤ src.size) : store C.P.byU16 (C.s + p) = C.s + p := by
  unfold store
  cases hbb : C.P.byU16 with
  | false => rfl
  | true =>
    have := ok.h16 hbb
    simp only [↓reduceIte]
    exact Nat.mod_eq_of_lt (by omega)

theorem searchR_spec (C : Cfg) (src : Array UInt8) (ok : CfgOK C src) (mfl1 : Nat) (hmfl : mfl1 + 11 ≤ src.size) :
    ∀ (fuel fip step nb : Nat) (tbl : Array Nat) (ip m : Nat) (tbl' : Array Nat),
    searchR C src mfl1 fuel fip step nb tbl = some (ip, m, tbl') → TI tbl (C.s + fip) → 1 ≤ step → 64 ≤ nb →
    fip ≤ ip ∧ ip < mfl1 ∧ m < ip ∧ (C.P.byU16 = false → ip - m ≤ 65535) ∧ eq4 src m ip = true ∧ TI tbl' (C.s + ip + 1) := by
  intro fuel
  induction fuel with
  | zero => intro fip step nb tbl ip m tbl' h; simp [searchR] at h
  | succ f ih =>
    intro fip step nb tbl ip m tbl' h hti hstep hnb
    unfold searchR at h
    dsimp only at h
    by_cases hend : fip + step > mfl1
    · rw [if_pos hend] at h; cases h
    · rw [if_neg hend] at h
      have hst : store C.P.byU16 (C.s + fip) = C.s + fip := store_eq C src ok fip (by omega)
      rw [hst] at h
      have hti' : TI (tbl.setIfInBounds (C.P.hash fip) (C.s + fip)) (C.s + (fip + step)) := (hti.mono (by omega)).set _ _ (by omega)
      have hrec : ∀ ip m tbl', searchR C src mfl1 f (fip + step) (nb >>> LZ4V.Gen.LZ4_skipTrigger) (nb + 1) (tbl.setIfInBounds (C.P.hash fip) (C.s + fip)) = some (ip, m, tbl') →
          fip ≤ ip ∧ ip < mfl1 ∧ m < ip ∧ (C.P.byU16 = false → ip - m ≤ 65535) ∧ eq4 src m ip = true ∧ TI tbl' (C.s + ip + 1) := by
        intro ip m tbl' hs
        obtain ⟨r1, r2⟩ := ih _ _ _ _ ip m tbl' hs hti' (shift6 nb hnb) (by omega)
        exact ⟨by omega, r2⟩
      by_cases hsm : (C.small && decide (tbl.getD (C.P.hash fip) 0 < C.s)) = true
      · rw [if_pos hsm] at h; exact hrec ip m tbl' h
      · rw [if_neg hsm] at h
        by_cases hfar : (!C.P.byU16 && decide (tbl.getD (C.P.hash fip) 0 + LZ4V.Gen.LZ4_DISTANCE_MAX < C.s + fip)) = true
        · rw [if_pos hfar] at h; exact hrec ip m tbl' h
        · rw [if_neg hfar] at h
          by_cases he : eq4 src (tbl.getD (C.P.hash fip) 0 - C.s) fip = true
          · rw [if_pos he] at h
            simp only [Option.some.injEq, Prod.mk.injEq] at h
            obtain ⟨h1, h2, h3⟩ := h
            subst h1; subst h2; subst h3
            have he_lt := hti (C.P.hash fip)
            -- the accepted index is not below startIndex
            have hge : C.s ≤ tbl.getD (C.P.hash fip) 0 := by
              cases hsmall : C.small with
              | false => have := ok.hs0 hsmall; omega
              | true =>
                rw [hsmall] at hsm
                simp only [Bool.true_and, decide_eq_true_eq] at hsm
                omega
            refine ⟨Nat.le_refl _, by omega, by omega, ?_, he, ?_⟩
            · intro hb
              have hd : LZ4V.Gen.LZ4_DISTANCE_MAX = 65535 := rfl
              rw [hb, hd] at hfar
              simp only [Bool.not_false, Bool.true_and, decide_eq_true_eq] at hfar
              omega
            · have : C.s + fip + 1 = C.s + (fip + 1) := by omega
              rw [this]
              exact (hti.mono (by omega)).set _ _ (by omega)
          · rw [if_neg he] at h; exact hrec ip m tbl' h

def InvR (C : Cfg) (src : Array UInt8) (st : St) : Prop :=
  st.anchor ≤ st.ip ∧ st.anchor ≤ src.size ∧
  match st.pending with
  | none => TI st.tbl (C.s + st.ip)
  | some m => TI st.tbl (C.s + st.ip + 1) ∧ m < st.ip ∧ st.ip - m ≤ 65535 ∧ eq4 src m st.ip = true ∧ st.ip + 12 ≤ src.size ∧ st.anchor = st.ip

def EmittedR (C : Cfg) (src : Array UInt8) (a : Nat) (s : PSeq) (st' : St) : Prop :=
  Seg src a s ∧ 4 ≤ s.ml ∧ s.off ≤ 65535 ∧ st'.anchor = a + s.ll + s.ml ∧ InvR C src st' ∧ st'.anchor + 5 ≤ src.size ∧ a + s.ll + 12 ≤ src.size

theorem emitMatchR_spec (C : Cfg) (src : Array UInt8) (ok : CfgOK C src) (st : St) (ip m op a ll : Nat)
    (s : PSeq) (st' : St) (h : emitMatchR C src st ip m op a ll = .seq s st')
    (hlit : a + ll = ip) (hm : m < ip) (hd : C.P.byU16 = false → ip - m ≤ 65535) (x : Nat)
    (he : ∀ k, k < 4 + x → byteAt src (ip + k) = byteAt src (m + k)) (hip : ip + x + 12 ≤ src.size) (hti : TI st.tbl (C.s + ip + x + 1)) :
    EmittedR C src a s st' := by
  have c1 : LZ4V.Gen.MFLIMIT = 12 := rfl
  have c2 : LZ4V.Gen.LASTLITERALS = 5 := rfl
  have c3 : LZ4V.Gen.MINMATCH = 4 := rfl
  have c4 : LZ4V.Gen.LZ4_DISTANCE_MAX = 65535 := rfl
  unfold emitMatchR at h
  simp only [c1, c2, c3, c4] at h
  obtain ⟨cb, cl⟩ := count_spec src (src.size - 5) src.size (ip + 4) (m + 4)
  have hx : x ≤ count src (src.size - 5) src.size (ip + 4) (m + 4) := count_ge src (src.size - 5) x src.size (ip + 4) (m + 4) (by omega) (by omega) (by
    intro j hj
    have := he (4 + j) (by omega)
    have e1 : ip + (4 + j) = ip + 4 + j := by omega
    have e2 : m + (4 + j) = m + 4 + j := by omega
    rw [e1, e2] at this; exact this)
  generalize hmc : count src (src.size - 5) src.size (ip + 4) (m + 4) = mc at h cb cl hx
  have hend : ip + mc + 4 + 5 ≤ src.size := by
    by_cases h0 : 0 < mc
    · have := cl h0; omega
    · omega
  have hseg : Seg src a ⟨a, ll, ip - m, mc + 4⟩ := by
    refine ⟨rfl, by dsimp only; omega, by dsimp only; omega, by dsimp only; omega, ?_⟩
    intro k hk
    dsimp only at hk ⊢
    have e : a + ll + k - (ip - m) = m + k := by omega
    rw [e, hlit]
    by_cases hk4 : k < 4
    · exact he k (by omega)
    · have := cb (k - 4) (by omega)
      have e1 : ip + 4 + (k - 4) = ip + k := by omega
      have e2 : m + 4 + (k - 4) = m + k := by omega
      rw [e1, e2] at this
      exact this
  have hoff : ip - m ≤ 65535 := by
    cases hbb : C.P.byU16 with
    | false => exact hd hbb
    | true => have := ok.hb hbb; omega
  by_cases hov : over C.P (op + 2 + (1 + 5) + (mc + 240) / 255) = true
  · rw [if_pos hov] at h; cases h
  · rw [if_neg hov] at h
    by_cases hfin : ip + mc + 4 ≥ src.size - 12 + 1
    · rw [if_pos hfin] at h
      injection h with h1 h2
      subst h1; subst h2
      refine ⟨hseg, by dsimp only; omega, hoff, by dsimp only; omega, ?_, by dsimp only; omega, by dsimp only; omega⟩
      exact ⟨Nat.le_refl _, by dsimp only; omega, hti.mono (by dsimp only; omega)⟩
    · rw [if_neg hfin] at h
      have hs1 : store C.P.byU16 (C.s + (ip + mc + 4 - 2)) = C.s + (ip + mc + 4 - 2) := store_eq C src ok _ (by omega)
      have hs2 : store C.P.byU16 (C.s + (ip + mc + 4)) = C.s + (ip + mc + 4) := store_eq C src ok _ (by omega)
      rw [hs1, hs2] at h
      have hti1 : TI (st.tbl.setIfInBounds (C.P.hash (ip + mc + 4 - 2)) (C.s + (ip + mc + 4 - 2))) (C.s + (ip + mc + 4)) :=
        (hti.mono (by omega)).set _ _ (by omega)
      have hmi := hti1 (C.P.hash (ip + mc + 4))
      have hti2 : TI ((st.tbl.setIfInBounds (C.P.hash (ip + mc + 4 - 2)) (C.s + (ip + mc + 4 - 2))).setIfInBounds (C.P.hash (ip + mc + 4)) (C.s + (ip + mc + 4))) (C.s + (ip + mc + 4) + 1) :=
        (hti1.mono (by omega)).set _ _ (by omega)
      generalize hmidef : (st.tbl.setIfInBounds (C.P.hash (ip + mc + 4 - 2)) (C.s + (ip + mc + 4 - 2))).getD (C.P.hash (ip + mc + 4)) 0 = mi at h hmi
      by_cases hnext : ((!C.small || decide (mi ≥ C.s)) && (C.P.byU16 || decide (mi + 65535 ≥ C.s + (ip + mc + 4))) && eq4 src (mi - C.s) (ip + mc + 4)) = true
      · rw [if_pos hnext] at h
        injection h with h1 h2
        subst h1; subst h2
        simp only [Bool.and_eq_true, Bool.or_eq_true, Bool.not_eq_true', decide_eq_true_eq] at hnext
        obtain ⟨⟨hn1, hn2⟩, hn3⟩ := hnext
        have hge : C.s ≤ mi := by
          rcases hn1 with h0 | h0
          · have := ok.hs0 h0; omega
          · exact h0
        refine ⟨hseg, by dsimp only; omega, hoff, by dsimp only; omega, ?_, by dsimp only; omega, by dsimp only; omega⟩
        refine ⟨Nat.le_refl _, by dsimp only; omega, ?_⟩
        dsimp only
        refine ⟨by have e : C.s + (ip + mc + 4) + 1 = C.s + (ip + mc + 4) + 1 := rfl; exact hti2, by omega, ?_, hn3, by omega, rfl⟩
        rcases hn2 with hb1 | hb1
        · have := ok.hb hb1; omega
        · omega
      · rw [if_neg hnext] at h
        injection h with h1 h2
        subst h1; subst h2
        refine ⟨hseg, by dsimp only; omega, hoff, by dsimp only; omega, ?_, by dsimp only; omega, by dsimp only; omega⟩
        refine ⟨by dsimp only; omega, by dsimp only; omega, ?_⟩
        dsimp only
        have e : C.s + (ip + mc + 4 + 1) = C.s + (ip + mc + 4) + 1 := by omega
        rw [e]; exact hti2

end LZ4V.Model.FastR
