import LZ4V.Model.FastR
import LZ4V.Proofs.FastMain
/-!
# A reused compression state stays correct: every block of every `_fastReset` history decodes, alone, to its input

`J S` : every table entry is an index `≤ currentOffset` (it dates from an earlier input or is zero).  One call with
`startIndex = s`: an accepted candidate index `e` satisfies `s ≤ e` (explicit `dictSmall` test, or `s = 0`) and `e < s + ip`
(table invariant), so it designates a position of the CURRENT input, where the four-byte comparison verifies it.  No
16-bit truncation happens under the guard of `LZ4_prepareTable`.  `J` is re-established after the call.
-/
namespace LZ4V.Model.FastR
open LZ4V.Model.Fast
open LZ4V.Spec.Block

/-- call-site facts about a configuration -/
structure CfgOK (C : Cfg) (src : Array UInt8) : Prop where
  hb   : C.P.byU16 = true → src.size < 65547
  h16  : C.P.byU16 = true → C.s + src.size < 65548
  hs0  : C.small = false → C.s = 0
  ha   : 1 ≤ C.P.accel

theorem store_eq (C : Cfg) (src : Array UInt8) (ok : CfgOK C src) (p : Nat) (hp : p + 12 ≤ src.size) : store C.P.byU16 (C.s + p) = C.s + p := by
  unfold store
  cases hbb : C.P.byU16 with
  | false => rfl
  | true =>
    have := ok.h16 hbb
    simp only [↓reduceIte]
    exact Nat.mod_eq_of_lt (by omega)

theorem searchR_spec (C : Cfg) (src : Array UInt8) (ok : CfgOK C src) (mfl1 : Nat) (hmfl : mfl1 + 11 ≤ src.size) :
    ∀ (fuel fip step nb : Nat) (tbl : Array Nat) (ip m : Nat) (tbl' : Array Nat),
    searchR C src mfl1 fuel fip step nb tbl = some (ip, m, tbl') → TI tbl (C.s + fip) → 1 ≤ step → 64 ≤ nb →
    fip ≤ ip ∧ ip < mfl1 ∧ m < ip ∧ (C.P.byU16 = false → ip - m ≤ 65535) ∧ eq4 src m ip = true ∧ TI tbl' (C.s + ip + 1) := by
  intro fuel
  induction fuel with
  | zero => intro fip step nb tbl ip m tbl' h; simp [searchR] at h
  | succ f ih =>
    intro fip step nb tbl ip m tbl' h hti hstep hnb
    unfold searchR at h
    dsimp only at h
    by_cases hend : fip + step > mfl1
    · rw [if_pos hend] at h; cases h
    · rw [if_neg hend] at h
      have hst : store C.P.byU16 (C.s + fip) = C.s + fip := store_eq C src ok fip (by omega)
      rw [hst] at h
      have hti' : TI (tbl.setIfInBounds (C.P.hash fip) (C.s + fip)) (C.s + (fip + step)) := (hti.mono (by omega)).set _ _ (by omega)
      have hrec : ∀ ip m tbl', searchR C src mfl1 f (fip + step) (nb >>> LZ4V.Gen.LZ4_skipTrigger) (nb + 1) (tbl.setIfInBounds (C.P.hash fip) (C.s + fip)) = some (ip, m, tbl') →
          fip ≤ ip ∧ ip < mfl1 ∧ m < ip ∧ (C.P.byU16 = false → ip - m ≤ 65535) ∧ eq4 src m ip = true ∧ TI tbl' (C.s + ip + 1) := by
        intro ip m tbl' hs
        obtain ⟨r1, r2⟩ := ih _ _ _ _ ip m tbl' hs hti' (shift6 nb hnb) (by omega)
        exact ⟨by omega, r2⟩
      by_cases hsm : (C.small && decide (tbl.getD (C.P.hash fip) 0 < C.s)) = true
      · rw [if_pos hsm] at h; exact hrec ip m tbl' h
      · rw [if_neg hsm] at h
        by_cases hfar : (!C.P.byU16 && decide (tbl.getD (C.P.hash fip) 0 + LZ4V.Gen.LZ4_DISTANCE_MAX < C.s + fip)) = true
        · rw [if_pos hfar] at h; exact hrec ip m tbl' h
        · rw [if_neg hfar] at h
          by_cases he : eq4 src (tbl.getD (C.P.hash fip) 0 - C.s) fip = true
          · rw [if_pos he] at h
            simp only [Option.some.injEq, Prod.mk.injEq] at h
            obtain ⟨h1, h2, h3⟩ := h
            subst h1; subst h2; subst h3
            have he_lt := hti (C.P.hash fip)
            -- the accepted index is not below startIndex
            have hge : C.s ≤ tbl.getD (C.P.hash fip) 0 := by
              cases hsmall : C.small with
              | false => have := ok.hs0 hsmall; omega
              | true =>
                rw [hsmall] at hsm
                simp only [Bool.true_and, decide_eq_true_eq] at hsm
                omega
            refine ⟨Nat.le_refl _, by omega, by omega, ?_, he, ?_⟩
            · intro hb
              have hd : LZ4V.Gen.LZ4_DISTANCE_MAX = 65535 := rfl
              rw [hb, hd] at hfar
              simp only [Bool.not_false, Bool.true_and, decide_eq_true_eq] at hfar
              omega
            · have : C.s + fip + 1 = C.s + (fip + 1) := by omega
              rw [this]
              exact (hti.mono (by omega)).set _ _ (by omega)
          · rw [if_neg he] at h; exact hrec ip m tbl' h

def InvR (C : Cfg) (src : Array UInt8) (st : St) : Prop :=
  st.anchor ≤ st.ip ∧ st.anchor ≤ src.size ∧
  match st.pending with
  | none => TI st.tbl (C.s + st.ip)
  | some m => TI st.tbl (C.s + st.ip + 1) ∧ m < st.ip ∧ st.ip - m ≤ 65535 ∧ eq4 src m st.ip = true ∧ st.ip + 12 ≤ src.size ∧ st.anchor = st.ip

def EmittedR (C : Cfg) (src : Array UInt8) (a : Nat) (s : PSeq) (st' : St) : Prop :=
  Seg src a s ∧ 4 ≤ s.ml ∧ s.off ≤ 65535 ∧ st'.anchor = a + s.ll + s.ml ∧ InvR C src st' ∧ st'.anchor + 5 ≤ src.size ∧ a + s.ll + 12 ≤ src.size

theorem emitMatchR_spec (C : Cfg) (src : Array UInt8) (ok : CfgOK C src) (st : St) (ip m op a ll : Nat)
    (s : PSeq) (st' : St) (h : emitMatchR C src st ip m op a ll = .seq s st')
    (hlit : a + ll = ip) (hm : m < ip) (hd : C.P.byU16 = false → ip - m ≤ 65535) (x : Nat)
    (he : ∀ k, k < 4 + x → byteAt src (ip + k) = byteAt src (m + k)) (hip : ip + x + 12 ≤ src.size) (hti : TI st.tbl (C.s + ip + x + 1)) :
    EmittedR C src a s st' := by
  have c1 : LZ4V.Gen.MFLIMIT = 12 := rfl
  have c2 : LZ4V.Gen.LASTLITERALS = 5 := rfl
  have c3 : LZ4V.Gen.MINMATCH = 4 := rfl
  have c4 : LZ4V.Gen.LZ4_DISTANCE_MAX = 65535 := rfl
  unfold emitMatchR at h
  simp only [c1, c2, c3, c4] at h
  obtain ⟨cb, cl⟩ := count_spec src (src.size - 5) src.size (ip + 4) (m + 4)
  have hx : x ≤ count src (src.size - 5) src.size (ip + 4) (m + 4) := count_ge src (src.size - 5) x src.size (ip + 4) (m + 4) (by omega) (by omega) (by
    intro j hj
    have := he (4 + j) (by omega)
    have e1 : ip + (4 + j) = ip + 4 + j := by omega
    have e2 : m + (4 + j) = m + 4 + j := by omega
    rw [e1, e2] at this; exact this)
  generalize hmc : count src (src.size - 5) src.size (ip + 4) (m + 4) = mc at h cb cl hx
  have hend : ip + mc + 4 + 5 ≤ src.size := by
    by_cases h0 : 0 < mc
    · have := cl h0; omega
    · omega
  have hseg : Seg src a ⟨a, ll, ip - m, mc + 4⟩ := by
    refine ⟨rfl, by dsimp only; omega, by dsimp only; omega, by dsimp only; omega, ?_⟩
    intro k hk
    dsimp only at hk ⊢
    have e : a + ll + k - (ip - m) = m + k := by omega
    rw [e, hlit]
    by_cases hk4 : k < 4
    · exact he k (by omega)
    · have := cb (k - 4) (by omega)
      have e1 : ip + 4 + (k - 4) = ip + k := by omega
      have e2 : m + 4 + (k - 4) = m + k := by omega
      rw [e1, e2] at this
      exact this
  have hoff : ip - m ≤ 65535 := by
    cases hbb : C.P.byU16 with
    | false => exact hd hbb
    | true => have := ok.hb hbb; omega
  by_cases hov : over C.P (op + 2 + (1 + 5) + (mc + 240) / 255) = true
  · rw [if_pos hov] at h; cases h
  · rw [if_neg hov] at h
    by_cases hfin : ip + mc + 4 ≥ src.size - 12 + 1
    · rw [if_pos hfin] at h
      injection h with h1 h2
      subst h1; subst h2
      refine ⟨hseg, by dsimp only; omega, hoff, by dsimp only; omega, ?_, by dsimp only; omega, by dsimp only; omega⟩
      exact ⟨Nat.le_refl _, by dsimp only; omega, hti.mono (by dsimp only; omega)⟩
    · rw [if_neg hfin] at h
      have hs1 : store C.P.byU16 (C.s + (ip + mc + 4 - 2)) = C.s + (ip + mc + 4 - 2) := store_eq C src ok _ (by omega)
      have hs2 : store C.P.byU16 (C.s + (ip + mc + 4)) = C.s + (ip + mc + 4) := store_eq C src ok _ (by omega)
      rw [hs1, hs2] at h
      have hti1 : TI (st.tbl.setIfInBounds (C.P.hash (ip + mc + 4 - 2)) (C.s + (ip + mc + 4 - 2))) (C.s + (ip + mc + 4)) :=
        (hti.mono (by omega)).set _ _ (by omega)
      have hmi := hti1 (C.P.hash (ip + mc + 4))
      have hti2 : TI ((st.tbl.setIfInBounds (C.P.hash (ip + mc + 4 - 2)) (C.s + (ip + mc + 4 - 2))).setIfInBounds (C.P.hash (ip + mc + 4)) (C.s + (ip + mc + 4))) (C.s + (ip + mc + 4) + 1) :=
        (hti1.mono (by omega)).set _ _ (by omega)
      generalize hmidef : (st.tbl.setIfInBounds (C.P.hash (ip + mc + 4 - 2)) (C.s + (ip + mc + 4 - 2))).getD (C.P.hash (ip + mc + 4)) 0 = mi at h hmi
      by_cases hnext : ((!C.small || decide (mi ≥ C.s)) && (C.P.byU16 || decide (mi + 65535 ≥ C.s + (ip + mc + 4))) && eq4 src (mi - C.s) (ip + mc + 4)) = true
      · rw [if_pos hnext] at h
        injection h with h1 h2
        subst h1; subst h2
        simp only [Bool.and_eq_true, Bool.or_eq_true, Bool.not_eq_true', decide_eq_true_eq] at hnext
        obtain ⟨⟨hn1, hn2⟩, hn3⟩ := hnext
        have hge : C.s ≤ mi := by
          rcases hn1 with h0 | h0
          · have := ok.hs0 h0; omega
          · exact h0
        refine ⟨hseg, by dsimp only; omega, hoff, by dsimp only; omega, ?_, by dsimp only; omega, by dsimp only; omega⟩
        refine ⟨Nat.le_refl _, by dsimp only; omega, ?_⟩
        dsimp only
        refine ⟨by have e : C.s + (ip + mc + 4) + 1 = C.s + (ip + mc + 4) + 1 := rfl; exact hti2, by omega, ?_, hn3, by omega, rfl⟩
        rcases hn2 with hb1 | hb1
        · have := ok.hb hb1; omega
        · omega
      · rw [if_neg hnext] at h
        injection h with h1 h2
        subst h1; subst h2
        refine ⟨hseg, by dsimp only; omega, hoff, by dsimp only; omega, ?_, by dsimp only; omega, by dsimp only; omega⟩
        refine ⟨by dsimp only; omega, by dsimp only; omega, ?_⟩
        dsimp only
        have e : C.s + (ip + mc + 4 + 1) = C.s + (ip + mc + 4) + 1 := by omega
        rw [e]; exact hti2

theorem searchTblR_TI (C : Cfg) (src : Array UInt8) (ok : CfgOK C src) (mfl1 : Nat) (hmfl : mfl1 + 11 ≤ src.size) :
    ∀ (fuel fip step nb : Nat) (tbl : Array Nat), TI tbl (C.s + src.size) → 1 ≤ step → 64 ≤ nb →
    TI (searchTblR C mfl1 fuel fip step nb tbl) (C.s + src.size) := by
  intro fuel
  induction fuel with
  | zero => intro fip step nb tbl h _ _; exact h
  | succ f ih =>
    intro fip step nb tbl h hstep hnb
    unfold searchTblR
    by_cases hend : fip + step > mfl1
    · rw [if_pos hend]; exact h
    · rw [if_neg hend]
      have hst : store C.P.byU16 (C.s + fip) = C.s + fip := store_eq C src ok fip (by omega)
      rw [hst]
      exact ih _ _ _ _ (h.set _ _ (by omega)) (shift6 nb hnb) (by omega)

/-- the last step changes nothing but the table (the positions the final search inserted) -/
theorem stepR_last (C : Cfg) (src : Array UInt8) (ok : CfgOK C src) (hn : 13 ≤ src.size) (st st' : St) (h : stepR C src st = .last st')
    (hti : TI st.tbl (C.s + src.size)) : st'.anchor = st.anchor ∧ TI st'.tbl (C.s + src.size) := by
  unfold stepR at h
  dsimp only at h
  by_cases hf : st.fin = true
  · rw [if_pos hf] at h; injection h with h; subst h; exact ⟨rfl, hti⟩
  · rw [if_neg hf] at h
    cases hp : st.pending with
    | some m =>
      rw [hp] at h
      dsimp only at h
      unfold emitMatchR at h
      dsimp only at h
      split at h
      · cases h
      · split at h
        · cases h
        · split at h <;> cases h
    | none =>
      rw [hp] at h
      dsimp only at h
      cases hs : searchR C src (src.size - LZ4V.Gen.MFLIMIT + 1) (src.size + 1) st.ip 1 (C.P.accel <<< LZ4V.Gen.LZ4_skipTrigger) st.tbl with
      | none =>
        rw [hs] at h; injection h with h; subst h
        have c1 : LZ4V.Gen.MFLIMIT = 12 := rfl
        have c6 : LZ4V.Gen.LZ4_skipTrigger = 6 := rfl
        have hnb : 64 ≤ C.P.accel <<< LZ4V.Gen.LZ4_skipTrigger := by
          rw [c6, Nat.shiftLeft_eq]
          have h64 : (2 : Nat) ^ 6 = 64 := by decide
          have hacc := ok.ha
          rw [h64]; omega
        exact ⟨rfl, searchTblR_TI C src ok _ (by rw [c1]; omega) _ _ _ _ _ hti (Nat.le_refl 1) hnb⟩
      | some r =>
        obtain ⟨ip, m, tbl⟩ := r
        rw [hs] at h
        dsimp only at h
        split at h
        · cases h
        · unfold emitMatchR at h
          dsimp only at h
          split at h
          · cases h
          · split at h
            · cases h
            · split at h <;> cases h

theorem stepR_seq (C : Cfg) (src : Array UInt8) (ok : CfgOK C src) (hn : 13 ≤ src.size)
    (st : St) (s : PSeq) (st' : St) (hi : InvR C src st) (h : stepR C src st = .seq s st') : EmittedR C src st.anchor s st' := by
  obtain ⟨i1, i2, i3⟩ := hi
  unfold stepR at h
  dsimp only at h
  by_cases hf : st.fin = true
  · rw [if_pos hf] at h; cases h
  · rw [if_neg hf] at h
    cases hp : st.pending with
    | some m =>
      rw [hp] at h i3
      dsimp only at h i3
      obtain ⟨p1, p2, p3, p4, p5, p6⟩ := i3
      rw [p6]
      exact emitMatchR_spec C src ok st st.ip m (st.op + 1) st.ip 0 s st' h rfl p2 (fun _ => p3) 0 (eq4_spec src st.ip m (by
        unfold eq4 at p4 ⊢
        simp only [Bool.and_eq_true, beq_iff_eq] at p4 ⊢
        obtain ⟨⟨⟨q0, q1⟩, q2⟩, q3⟩ := p4
        exact ⟨⟨⟨q0.symm, q1.symm⟩, q2.symm⟩, q3.symm⟩)) (by omega) p1
    | none =>
      rw [hp] at h i3
      dsimp only at h i3
      have c1 : LZ4V.Gen.MFLIMIT = 12 := rfl
      have c6 : LZ4V.Gen.LZ4_skipTrigger = 6 := rfl
      cases hs : searchR C src (src.size - LZ4V.Gen.MFLIMIT + 1) (src.size + 1) st.ip 1 (C.P.accel <<< LZ4V.Gen.LZ4_skipTrigger) st.tbl with
      | none => rw [hs] at h; cases h
      | some r =>
        obtain ⟨ip, m, tbl⟩ := r
        rw [hs] at h
        dsimp only at h
        have hnb : 64 ≤ C.P.accel <<< LZ4V.Gen.LZ4_skipTrigger := by
          rw [c6, Nat.shiftLeft_eq]
          have h64 : (2 : Nat) ^ 6 = 64 := by decide
          have hacc := ok.ha
          rw [h64]; omega
        obtain ⟨s1, s2, s3, s4, s5, s6⟩ := searchR_spec C src ok _ (by rw [c1]; omega) _ _ _ _ _ ip m tbl hs i3 (Nat.le_refl 1) hnb
        rw [c1] at s2
        obtain ⟨d, d1, d2, d3, d4⟩ := catchUpL_spec src st.anchor (C.low m) src.size ip m 4 (by omega) s3 (eq4_spec src ip m (by
          unfold eq4 at s5 ⊢
          simp only [Bool.and_eq_true, beq_iff_eq] at s5 ⊢
          obtain ⟨⟨⟨q0, q1⟩, q2⟩, q3⟩ := s5
          exact ⟨⟨⟨q0.symm, q1.symm⟩, q2.symm⟩, q3.symm⟩))
        generalize hc : catchUpL src st.anchor (C.low m) src.size ip m = c at h d1 d2 d3 d4
        split at h
        · cases h
        · exact emitMatchR_spec C src ok _ c.1 c.2 _ st.anchor (c.1 - st.anchor) s st' h (by omega) (by omega)
            (fun hbb => by have := s4 hbb; omega) d d4 (by omega) (by
              have e : C.s + c.1 + d + 1 = C.s + ip + 1 := by omega
              rw [e]; exact s6)

/-- every table a state can hold has all its entries below `s + n` -/
theorem InvR_tbl (C : Cfg) (src : Array UInt8) (st : St) (hi : InvR C src st) (hip : st.ip + 1 ≤ src.size ∨ st.pending = none ∧ st.ip ≤ src.size) :
    TI st.tbl (C.s + src.size) := by
  obtain ⟨_, _, i3⟩ := hi
  cases hp : st.pending with
  | none =>
    rw [hp] at i3
    dsimp only at i3
    rcases hip with h | h
    · exact i3.mono (by omega)
    · exact i3.mono (by omega)
  | some m =>
    rw [hp] at i3
    dsimp only at i3
    exact i3.1.mono (by omega)

theorem emitMatchR_ip (C : Cfg) (src : Array UInt8) (st : St) (ip m op a ll : Nat) (s : PSeq) (st' : St)
    (h : emitMatchR C src st ip m op a ll = .seq s st') : st'.ip ≤ st'.anchor + 1 := by
  unfold emitMatchR at h
  dsimp only at h
  split at h
  · cases h
  · split at h
    · injection h with _ h2; subst h2; dsimp only; omega
    · split at h
      · injection h with _ h2; subst h2; dsimp only; omega
      · injection h with _ h2; subst h2; dsimp only; omega

theorem stepR_ip (C : Cfg) (src : Array UInt8) (st : St) (s : PSeq) (st' : St) (h : stepR C src st = .seq s st') : st'.ip ≤ st'.anchor + 1 := by
  unfold stepR at h
  dsimp only at h
  split at h
  · cases h
  · cases hp : st.pending with
    | some m => rw [hp] at h; dsimp only at h; exact emitMatchR_ip C src _ _ _ _ _ _ s st' h
    | none =>
      rw [hp] at h
      dsimp only at h
      cases hs : searchR C src (src.size - LZ4V.Gen.MFLIMIT + 1) (src.size + 1) st.ip 1 (C.P.accel <<< LZ4V.Gen.LZ4_skipTrigger) st.tbl with
      | none => rw [hs] at h; cases h
      | some r =>
        obtain ⟨ip, m, tbl⟩ := r
        rw [hs] at h
        dsimp only at h
        split at h
        · cases h
        · exact emitMatchR_ip C src _ _ _ _ _ _ s st' h

/-- the loop: the returned table has all entries below `s + n` (also when the call gives up); a returned list tiles the input -/
theorem runR_spec (C : Cfg) (src : Array UInt8) (ok : CfgOK C src) (hn : 13 ≤ src.size) :
    ∀ (fuel : Nat) (st : St) (acc : List PSeq), InvR C src st → st.ip ≤ st.anchor + 1 → st.anchor + 2 ≤ src.size →
    TI (runR C src fuel st acc).2 (C.s + src.size) ∧
    (∀ l stf, (runR C src fuel st acc).1 = some (l, stf) → ∃ l', l = acc.reverse ++ l' ∧ PV src st.anchor l' stf.anchor ∧ stf.anchor ≤ src.size ∧
      (∀ s ∈ l', 4 ≤ s.ml ∧ 1 ≤ s.off ∧ s.off ≤ 65535 ∧ s.lit + s.ll + 12 ≤ src.size) ∧ (l' ≠ [] → stf.anchor + 5 ≤ src.size)) := by
  intro fuel
  induction fuel with
  | zero =>
    intro st acc hi h1 h2
    simp only [runR]
    refine ⟨InvR_tbl C src st hi (Or.inl (by omega)), ?_⟩
    intro l stf h
    simp only [Option.some.injEq, Prod.mk.injEq] at h
    obtain ⟨rfl, rfl⟩ := h
    exact ⟨[], by simp, rfl, hi.2.1, (fun s hs => by cases hs), (fun h => absurd rfl h)⟩
  | succ f ih =>
    intro st acc hi h1 h2
    unfold runR
    cases hs : stepR C src st with
    | fail =>
      dsimp only
      refine ⟨?_, fun l stf h => by cases h⟩
      have hti0 := InvR_tbl C src st hi (Or.inl (by omega))
      unfold failTbl
      cases hp : st.pending with
      | some m => exact hti0
      | none =>
        dsimp only
        cases hsr : searchR C src (src.size - LZ4V.Gen.MFLIMIT + 1) (src.size + 1) st.ip 1 (C.P.accel <<< LZ4V.Gen.LZ4_skipTrigger) st.tbl with
        | none => exact hti0
        | some r =>
          obtain ⟨ip, m, tbl⟩ := r
          dsimp only
          have c1 : LZ4V.Gen.MFLIMIT = 12 := rfl
          have c6 : LZ4V.Gen.LZ4_skipTrigger = 6 := rfl
          have hnb : 64 ≤ C.P.accel <<< LZ4V.Gen.LZ4_skipTrigger := by
            rw [c6, Nat.shiftLeft_eq]
            have h64 : (2 : Nat) ^ 6 = 64 := by decide
            have hacc := ok.ha
            rw [h64]; omega
          obtain ⟨_, _, i3⟩ := hi
          rw [hp] at i3
          dsimp only at i3
          obtain ⟨s1, s2, _, _, _, s6⟩ := searchR_spec C src ok _ (by rw [c1]; omega) _ _ _ _ _ ip m tbl hsr i3 (Nat.le_refl 1) hnb
          exact s6.mono (by rw [c1] at s2; omega)
    | last st1 =>
      dsimp only
      obtain ⟨la, lt⟩ := stepR_last C src ok hn st st1 hs (InvR_tbl C src st hi (Or.inl (by omega)))
      refine ⟨lt, ?_⟩
      intro l stf h
      simp only [Option.some.injEq, Prod.mk.injEq] at h
      obtain ⟨rfl, rfl⟩ := h
      exact ⟨[], by simp, la.symm, by rw [la]; exact hi.2.1, (fun s hs => by cases hs), (fun h => absurd rfl h)⟩
    | seq s st1 =>
      dsimp only
      obtain ⟨e1, e2, e3, e4, e5, e6, e7⟩ := stepR_seq C src ok hn st s st1 hi hs
      have hip := stepR_ip C src st s st1 hs
      obtain ⟨r1, r2⟩ := ih st1 (s :: acc) e5 hip (by omega)
      refine ⟨r1, ?_⟩
      intro l stf h
      obtain ⟨l', q1, q2, q3, q4, q5⟩ := r2 l stf h
      refine ⟨s :: l', by rw [q1]; simp [List.reverse_cons, List.append_assoc], ⟨e1, by rw [← e4]; exact q2⟩, q3, ?_, ?_⟩
      · intro x hx
        rcases List.mem_cons.mp hx with rfl | hx'
        · exact ⟨e2, e1.2.1, e3, by rw [e1.1]; exact e7⟩
        · exact q4 x hx'
      · intro _
        by_cases hl1 : l' = []
        · subst hl1
          have : stf.anchor = st1.anchor := by
            have := q2
            simp only [PV] at this
            exact this.symm
          omega
        · exact q5 hl1

/-! ## the state between calls -/

def J (S : RState) : Prop := (∀ i, S.tbl.getD i 0 ≤ S.currentOffset) ∧ (S.tableType = .cleared → S.currentOffset = 0)

theorem replicate_getD (k i : Nat) : (Array.replicate k (0 : Nat)).getD i 0 = 0 := by
  rw [Array.getD_eq_getD_getElem?, Array.getElem?_replicate]
  split <;> rfl

theorem prepareTable_spec (S : RState) (n : Nat) (byU16 : Bool) (hJ : J S) (hn16 : byU16 = true → n < 65547) (hn32 : byU16 = false → 4096 ≤ n) :
    J (prepareTable S n byU16) ∧ (byU16 = true → (prepareTable S n byU16).currentOffset + n < 65548) ∧
    (byU16 = false → (prepareTable S n byU16).currentOffset = 0) := by
  obtain ⟨j1, j2⟩ := hJ
  have k4 : LZ4V.Gen.KB4 = 4096 := rfl
  unfold prepareTable
  dsimp only
  by_cases hreset : S.tableType ≠ .cleared ∧ (S.tableType ≠ (if byU16 = true then TType.byU16 else TType.byU32) ∨ (byU16 = true ∧ S.currentOffset + n ≥ 0xFFFF) ∨ (byU16 = false ∧ S.currentOffset > LZ4V.Gen.GB1) ∨ n ≥ LZ4V.Gen.KB4)
  · rw [if_pos hreset]
    dsimp only
    rw [if_neg (by simp)]
    exact ⟨⟨fun i => by dsimp only; rw [replicate_getD]; omega, fun _ => rfl⟩, fun hb => by dsimp only; have := hn16 hb; omega, fun _ => rfl⟩
  · rw [if_neg hreset]
    by_cases hcl : S.tableType = .cleared
    · rw [if_pos hcl]
      have hco := j2 hcl
      dsimp only
      rw [if_neg (by rw [hco]; simp)]
      exact ⟨⟨fun i => by dsimp only; rw [replicate_getD]; omega, fun _ => hco⟩, fun hb => by dsimp only; have := hn16 hb; omega, fun _ => hco⟩
    · rw [if_neg hcl]
      -- kept: same type, small input, indexes still fit
      have hkeep : ¬ (S.tableType ≠ (if byU16 = true then TType.byU16 else TType.byU32) ∨ (byU16 = true ∧ S.currentOffset + n ≥ 0xFFFF) ∨ (byU16 = false ∧ S.currentOffset > LZ4V.Gen.GB1) ∨ n ≥ LZ4V.Gen.KB4) :=
        fun h => hreset ⟨hcl, h⟩
      have hn4 : ¬ n ≥ 4096 := fun h => hkeep (Or.inr (Or.inr (Or.inr (by rw [k4]; exact h))))
      cases hb : byU16 with
      | false => exact absurd (hn32 hb) hn4
      | true =>
        rw [if_neg (by simp)]
        have h16 : ¬ (S.currentOffset + n ≥ 0xFFFF) := fun h => hkeep (Or.inr (Or.inl ⟨hb, h⟩))
        exact ⟨⟨j1, fun h => absurd h hcl⟩, fun _ => by omega, fun h => by cases h⟩

theorem decode_literal_only (l : List UInt8) : decode [] (serialize [] l) = some l :=
  roundtrip [] [] l l (fun s hs => by cases hs) (by simp [ValidParse])

/-- **one call on a reused state**: whatever the state holds (`J`), a returned block decodes ALONE to the input, and `J` holds again -/
theorem call_spec (hashOf : Array UInt8 → Bool → Nat → Nat) (S : RState) (src : Array UInt8) (acceleration : Int) (cap bound : Nat) (hJ : J S) :
    J (call hashOf S src acceleration cap bound).1 ∧
    (∀ blk, (call hashOf S src acceleration cap bound).2 = some blk → decode [] blk = some src.toList) := by
  have c64 : LZ4V.Gen.LZ4_64Klimit = 65547 := rfl
  have c13 : LZ4V.Gen.LZ4_minLength = 13 := rfl
  have hn16 : decide (src.size < LZ4V.Gen.LZ4_64Klimit) = true → src.size < 65547 := by intro h; simpa [c64] using h
  have hn32 : decide (src.size < LZ4V.Gen.LZ4_64Klimit) = false → 4096 ≤ src.size := by intro h; simp [c64] at h; omega
  obtain ⟨pj, p16, p32⟩ := prepareTable_spec S src.size (decide (src.size < LZ4V.Gen.LZ4_64Klimit)) hJ hn16 hn32
  unfold call
  dsimp only
  generalize hS1 : prepareTable S src.size (decide (src.size < LZ4V.Gen.LZ4_64Klimit)) = S1 at pj p16 p32
  by_cases hmax : src.size > LZ4V.Gen.LZ4_MAX_INPUT_SIZE
  · rw [if_pos hmax]; exact ⟨pj, fun blk h => by cases h⟩
  rw [if_neg hmax]
  by_cases h0 : src.size = 0
  · rw [if_pos h0]
    refine ⟨pj, ?_⟩
    intro blk h
    dsimp only at h
    split at h
    · cases h
    · simp only [Option.some.injEq] at h
      subst h
      have : src.toList = [] := by
        apply List.eq_nil_of_length_eq_zero; rw [Array.length_toList]; exact h0
      rw [this]
      exact decode_literal_only []
  rw [if_neg h0]
  have hJ2 : ∀ tbl : Array Nat, TI tbl (S1.currentOffset + src.size) →
      J { S1 with currentOffset := S1.currentOffset + src.size, tableType := if decide (src.size < LZ4V.Gen.LZ4_64Klimit) = true then TType.byU16 else TType.byU32, tbl := tbl } := by
    intro tbl h
    refine ⟨fun i => by have := h i; dsimp only; omega, ?_⟩
    intro hc
    dsimp only at hc
    split at hc <;> cases hc
  by_cases hmin : src.size < LZ4V.Gen.LZ4_minLength
  · rw [if_pos hmin]
    refine ⟨?_, ?_⟩
    · have := hJ2 S1.tbl (fun i => by have := pj.1 i; omega)
      exact this
    · intro blk h
      dsimp only at h
      split at h
      · cases h
      · simp only [Option.some.injEq] at h
        subst h
        exact decode_literal_only _
  rw [if_neg hmin]
  rw [c13] at hmin
  -- the configuration of this call
  generalize hP : ({ fastParams src acceleration cap bound with hash := hashOf src (decide (src.size < LZ4V.Gen.LZ4_64Klimit)) } : Params) = P
  have hPb : P.byU16 = decide (src.size < LZ4V.Gen.LZ4_64Klimit) := by rw [← hP]; rfl
  have hPa : 1 ≤ P.accel := by rw [← hP]; exact fastParams_accel src acceleration cap bound
  have hPh : hashOf src (decide (src.size < LZ4V.Gen.LZ4_64Klimit)) = P.hash := by rw [← hP]
  rw [hPh]
  have ok : CfgOK { P := P, s := S1.currentOffset, small := decide (src.size < LZ4V.Gen.LZ4_64Klimit) && decide (S1.currentOffset ≠ 0) } src := by
    refine ⟨?_, ?_, ?_, hPa⟩
    · intro h; dsimp only at h; rw [hPb] at h; exact hn16 h
    · intro h; dsimp only at h ⊢; rw [hPb] at h; exact p16 h
    · intro h
      dsimp only at h ⊢
      cases hb : decide (src.size < LZ4V.Gen.LZ4_64Klimit) with
      | false => exact p32 hb
      | true =>
        rw [hb] at h
        simpa using h
  have hst0 : store (decide (src.size < LZ4V.Gen.LZ4_64Klimit)) S1.currentOffset = S1.currentOffset := by
    have := store_eq _ src ok 0 (by omega)
    dsimp only at this
    rw [hPb, Nat.add_zero] at this
    exact this
  rw [hst0]
  have hinv : InvR { P := P, s := S1.currentOffset, small := decide (src.size < LZ4V.Gen.LZ4_64Klimit) && decide (S1.currentOffset ≠ 0) } src
      { anchor := 0, ip := 1, tbl := S1.tbl.setIfInBounds (P.hash 0) S1.currentOffset, op := 0 } := by
    refine ⟨by dsimp only; omega, by dsimp only; omega, ?_⟩
    dsimp only
    exact (show TI S1.tbl (S1.currentOffset + 1) from fun i => by have := pj.1 i; omega).set _ _ (by omega)
  obtain ⟨rt, rl⟩ := runR_spec _ src ok (by omega) (src.size + 1) _ [] hinv (by dsimp only; omega) (by dsimp only; omega)
  dsimp only at rt rl
  generalize hrun : runR { P := P, s := S1.currentOffset, small := decide (src.size < LZ4V.Gen.LZ4_64Klimit) && decide (S1.currentOffset ≠ 0) } src (src.size + 1)
      { anchor := 0, ip := 1, tbl := S1.tbl.setIfInBounds (P.hash 0) S1.currentOffset, op := 0 } [] = r at rt rl
  obtain ⟨ro, rtbl⟩ := r
  dsimp only at rt rl
  cases ro with
  | none =>
    exact ⟨hJ2 rtbl rt, fun blk h => by cases h⟩
  | some v =>
    obtain ⟨l, stf⟩ := v
    refine ⟨hJ2 rtbl rt, ?_⟩
    intro blk h
    by_cases hov : over P (stf.op + (src.size - stf.anchor) + 1 + (src.size - stf.anchor + 255 - 15) / 255) = true
    · have h' : (none : Option (List UInt8)) = some blk := by
        have := h
        simp only [hov, ↓reduceIte] at this
        exact this
      cases h'
    · have h' : some (serialize (List.map (toSeq src) l) (src.extract stf.anchor src.size).toList) = some blk := by
        have := h
        simp only [hov, Bool.false_eq_true, ↓reduceIte] at this
        exact this
      simp only [Option.some.injEq] at h'
      subst h'
      obtain ⟨l', q1, q2, q3, q4, _⟩ := rl l stf rfl
      simp only [List.reverse_nil, List.nil_append] at q1
      subst q1
      have hlast : (src.extract stf.anchor src.size).toList = src.toList.drop stf.anchor := by
        simp only [Array.toList_extract, List.extract]
        rw [List.take_of_length_le]
        rw [List.length_drop, Array.length_toList]
        omega
      have hv := PV_valid src l 0 stf.anchor q2 (by omega) q3
      simp only [List.take_zero] at hv
      rw [hlast]
      exact roundtrip [] _ _ _ (fun s hs => by
        obtain ⟨x, hx, rfl⟩ := List.mem_map.mp hs
        obtain ⟨a1, _, a3, _⟩ := q4 x hx
        exact ⟨a1, by show x.off < 65536; omega⟩) (by simpa using hv)

/-- **any history of reuse**: for every sequence of `_fastReset` calls on one state (any inputs, sizes, capacities, accelerations, any
    hash function), every block that is returned decodes, with NO history, to the input of its own call -/
theorem history_spec (hashOf : Array UInt8 → Bool → Nat → Nat) : ∀ (calls : List (Array UInt8 × Int × Nat × Nat)) (S : RState), J S →
    ∀ k (hk : k < calls.length) blk, (history hashOf S calls)[k]? = some (some blk) → decode [] blk = some (calls[k]).1.toList := by
  intro calls
  induction calls with
  | nil => intro S _ k hk; simp at hk
  | cons c rest ih =>
    intro S hJ k hk blk h
    obtain ⟨src, acc, cap, bound⟩ := c
    obtain ⟨j1, j2⟩ := call_spec hashOf S src acc cap bound hJ
    unfold history at h
    cases k with
    | zero =>
      simp only [List.getElem?_cons_zero, Option.some.injEq] at h
      exact j2 blk h
    | succ k' =>
      simp only [List.getElem?_cons_succ] at h
      simp only [List.getElem_cons_succ]
      exact ih _ j1 k' (by simp only [List.length_cons] at hk; omega) blk h

theorem J_init : J {} := ⟨fun i => by simp [Array.getD], fun _ => rfl⟩

end LZ4V.Model.FastR
