import LZ4V.Model.Legacy
import LZ4V.Proofs.FrameFastProof
import LZ4V.Proofs.StreamLProof
import LZ4V.Properties.C20
import LZ4V.Proofs.FastCap
/-!
# The archive `lz4 -l` writes decodes, as a stream, to exactly the input
-/
namespace LZ4V.Model.Legacy
open LZ4V.Model
open LZ4V.Spec.FrameL
open LZ4V.Model.FrameFast (encLE encLE_length le_encLE_lt takeN_app)
open LZ4V.Spec.Frame (legacyMagic isKnownMagic isSkippableMagic)

structure EnvOK (E : Env) : Prop where
  dec : ∀ payload D, LZ4V.Spec.Block.decode [] payload = some D → D.length ≤ 8388608 → E.dec [] payload 8388608 = some D

/-- the specification's legacy loop on one well-formed block -/
theorem pLegacy_block (E : Env) (fuel : Nat) (acc w4 payload rest d : Bytes) (h4 : w4.length = 4) (hw : le w4 = payload.length)
    (hb : payload.length ≤ legacyBound) (hdec : E.dec [] payload 8388608 = some d) :
    pLegacy E (fuel + 1) acc (w4 ++ (payload ++ rest)) = pLegacy E fuel (acc ++ d) rest := by
  conv => lhs; unfold pLegacy
  have hne : w4 ++ (payload ++ rest) ≠ [] := by
    intro h0
    have := congrArg List.length h0
    simp only [List.length_append, List.length_nil] at this
    omega
  rw [if_neg hne]
  unfold Parser.bind
  have hpk : peekN 4 (w4 ++ (payload ++ rest)) = .ok (w4, w4 ++ (payload ++ rest)) := by
    unfold peekN
    rw [if_neg (by rw [List.length_append]; omega), List.take_left' h4]
  rw [hpk]
  have hcnd : ¬ le w4 > legacyBound := by omega
  simp only [hcnd, ↓reduceIte]
  rw [takeN_app w4 _ 4 h4]
  simp only []
  rw [hw, takeN_app payload rest _ rfl]
  simp only []
  rw [hdec]

theorem chunks_spec (maxW : Nat) (hm : 0 < maxW) : ∀ (fuel : Nat) (w : Bytes), w.length < fuel →
    ∀ c ∈ FrameC.chunks maxW fuel w, c ≠ [] ∧ c.length ≤ maxW := by
  intro fuel
  induction fuel with
  | zero => intro w h; omega
  | succ f ih =>
    intro w hf c hc
    unfold FrameC.chunks at hc
    by_cases hw : w = []
    · rw [if_pos hw] at hc; cases hc
    · rw [if_neg hw, if_pos hm] at hc
      rcases List.mem_cons.mp hc with rfl | hc'
      · have hlen : 0 < w.length := List.length_pos_iff.mpr hw
        refine ⟨?_, by rw [List.length_take]; omega⟩
        intro h0
        have := congrArg List.length h0
        rw [List.length_take] at this
        simp only [List.length_nil] at this
        omega
      · exact ih (w.drop maxW) (by rw [List.length_drop]; have := List.length_pos_iff.mpr hw; omega) c hc'

/-- all blocks: the legacy loop reads back every chunk and stops at the end of input -/
theorem blocks_parse (E : Env) (ok : EnvOK E) (level : Int) : ∀ (cs : List Bytes) (out acc : Bytes),
    (∀ c ∈ cs, c ≠ [] ∧ c.length ≤ 8388608) → blocks level cs = some out →
    pLegacy E (cs.length + 1) acc out = .ok (acc ++ cs.flatten, []) := by
  intro cs
  induction cs with
  | nil =>
    intro out acc _ h
    simp only [blocks, Option.some.injEq] at h
    subst h
    conv => lhs; unfold pLegacy
    simp
  | cons c t ih =>
    intro out acc hall h
    obtain ⟨hne, hlen⟩ := hall c List.mem_cons_self
    unfold blocks at h
    cases hb : block level c with
    | none => rw [hb] at h; cases h
    | some b =>
      cases hr : blocks level t with
      | none => rw [hb, hr] at h; cases h
      | some r =>
        rw [hb, hr] at h
        simp only [Option.some.injEq] at h
        subst h
        -- the block
        unfold block at hb
        cases hcf : Fast.compressFast c.toArray (accelOf level) (LZ4V.Gen.LZ4_compressBound c.length).toNat (LZ4V.Gen.LZ4_compressBound c.length).toNat with
        | none => rw [hcf] at hb; cases hb
        | some blk =>
          rw [hcf] at hb
          simp only [Option.map_some, Option.some.injEq] at hb
          subst hb
          have hdecode := Fast.compressFast_lossless c.toArray (accelOf level) _ _ blk hcf
          have hc : c.toArray.toList = c := by simp
          rw [hc] at hdecode
          have hsz : blk.length ≤ c.length + c.length / 255 + 2 := by
            have := hcf
            rw [Fast.compressFast_eq] at this
            have h2 := Fast.compress_size _ c.toArray _ (Fast.fastParams_byU16 _ _ _ _) (Fast.fastParams_accel _ _ _ _) blk this
            simpa using h2
          have hlb : legacyBound = 8421520 := by decide
          have p32 : (256 : Nat) ^ 4 = 4294967296 := by decide
          simp only [List.length_cons, List.flatten_cons, List.append_assoc]
          rw [pLegacy_block E (t.length + 1) acc (encLE 4 blk.length) blk r c (encLE_length 4 _) (le_encLE_lt 4 _ (by rw [p32]; omega))
            (by rw [hlb]; omega) (ok.dec blk c hdecode hlen)]
          rw [ih r (acc ++ c) (fun x hx => hall x (List.mem_cons_of_mem _ hx)) hr, List.append_assoc]

/-- **`lz4 -l` is lossless, as a stream**: the archive the model writes for ANY input decodes, by the stream specification (what
    `lz4 -d` must write), to exactly the input -/
theorem archive_decodes (E : Env) (ok : EnvOK E) (level : Int) (input a : Bytes) (h : archive level input = some a) :
    Decodes E [] a input := by
  unfold archive at h
  cases hb : blocks level (FrameC.chunks LZ4V.Gen.LEGACY_BLOCKSIZE (input.length + 1) input) with
  | none => rw [hb] at h; cases h
  | some out =>
    rw [hb] at h
    simp only [Option.map_some, Option.some.injEq] at h
    subst h
    have hbs : LZ4V.Gen.LEGACY_BLOCKSIZE = 8388608 := rfl
    rw [hbs] at hb
    have hall := chunks_spec 8388608 (by decide) (input.length + 1) input (by omega)
    have hflat := LZ4V.C20.chunks_flatten 8388608 (input.length + 1) input (by omega)
    have hp := blocks_parse E ok level _ out [] hall hb
    rw [List.nil_append, hflat] at hp
    -- one legacy frame, then the end of the stream
    have hany : pAnyFrame E [] ((FrameC.chunks 8388608 (input.length + 1) input).length + 1) (encLE 4 LZ4V.Gen.LEGACY_MAGICNUMBER ++ out) = .ok (input, []) := by
      unfold pAnyFrame Parser.bind
      rw [takeN_app (encLE 4 LZ4V.Gen.LEGACY_MAGICNUMBER) out 4 (encLE_length 4 _)]
      have hm1 : le (encLE 4 LZ4V.Gen.LEGACY_MAGICNUMBER) ≠ lz4Magic := by decide
      have hm2 : le (encLE 4 LZ4V.Gen.LEGACY_MAGICNUMBER) = legacyMagic := by decide
      simp only [hm1, hm2, ↓reduceIte]
      exact hp
    have hne : encLE 4 LZ4V.Gen.LEGACY_MAGICNUMBER ++ out ≠ [] := by
      intro h0
      have := congrArg List.length h0
      simp [encLE_length] at this
    have := pStream_build E [] ((FrameC.chunks 8388608 (input.length + 1) input).length + 1) 1 _ hne input [] [] hany (pStream_nil E [] _ 0)
    exact ⟨(FrameC.chunks 8388608 (input.length + 1) input).length + 1, 2, by simpa using this⟩

theorem block_succeeds (level : Int) (c : Bytes) (hc : c.length ≤ 8388608) : ∃ b, block level c = some b := by
  unfold block
  have hlim : (Fast.fastParams c.toArray (accelOf level) (LZ4V.Gen.LZ4_compressBound c.length).toNat (LZ4V.Gen.LZ4_compressBound c.length).toNat).limit = none := by
    simp [Fast.fastParams]
  have hmax : LZ4V.Gen.LZ4_MAX_INPUT_SIZE = 2113929216 := rfl
  obtain ⟨blk, hblk⟩ := Fast.compress_succeeds _ c.toArray (Fast.fastTableSize c.toArray) hlim (by rw [hmax]; simp; omega)
  rw [Fast.compressFast_eq, hblk]
  exact ⟨_, rfl⟩

theorem blocks_succeed (level : Int) : ∀ (cs : List Bytes), (∀ c ∈ cs, c.length ≤ 8388608) → ∃ out, blocks level cs = some out := by
  intro cs
  induction cs with
  | nil => intro _; exact ⟨[], rfl⟩
  | cons c t ih =>
    intro h
    obtain ⟨b, hb⟩ := block_succeeds level c (h c List.mem_cons_self)
    obtain ⟨r, hr⟩ := ih (fun x hx => h x (List.mem_cons_of_mem _ hx))
    exact ⟨b ++ r, by unfold blocks; rw [hb, hr]⟩

/-- `lz4 -l` produces an archive for every input -/
theorem archive_succeeds (level : Int) (input : Bytes) : ∃ a, archive level input = some a := by
  have hbs : LZ4V.Gen.LEGACY_BLOCKSIZE = 8388608 := rfl
  have hall := chunks_spec 8388608 (by decide) (input.length + 1) input (by omega)
  obtain ⟨out, ho⟩ := blocks_succeed level (FrameC.chunks 8388608 (input.length + 1) input) (fun c hc => (hall c hc).2)
  unfold archive
  rw [hbs, ho]
  exact ⟨_, rfl⟩

end LZ4V.Model.Legacy
