import LZ4V.Proofs.DecodeFun4
/-!
# What the decoder model computes, part 5: a whole match (`safe_match_copy`, `_copy_match`), in the buffer or in the external dictionary
-/
namespace LZ4V.Model.Decode
open LZ4V.Model LZ4V.Gen LZ4V.Spec.Block

/-- the call geometry of the safety proofs, plus: a 64 KB prefix really is in front of `dst` -/
structure WF2 (env : Env) (N : Nat) : Prop where
  wf  : WF env N
  pfx : env.dict = .withPrefix64k → env.low.toNat + 65535 ≤ env.dst0

def nextSt : Next → St
  | .fast s => s
  | .safe s => s
  | .done s => s

/-- what a copy of `mlen` match bytes leaves behind: `out` is the specification's output after the literals of this sequence -/
def CopyPost (env : Env) (st : St) (ip offset mlen : Nat) (out : List UInt8) (s' : St) : Prop :=
  s'.ip = ip ∧ s'.op = st.op + mlen ∧
  (1 ≤ offset → offset ≤ out.length ∧ ∃ out2, copyMatch out offset mlen = some out2 ∧ Rel env s'.buf s'.op out2)

/-- what a match leaves behind: the whole match and the loop goes on, or — partial decoding only — as much of it as fits,
    with the output then full -/
def MatchPost (env : Env) (N : Nat) (st : St) (ip offset length : Nat) (out : List UInt8) (next : Next) : Prop :=
  ∃ s' mlen, mlen ≤ length ∧ CopyPost env st ip offset mlen out s' ∧
    ((mlen = length ∧ (next = .safe s' ∨ next = .fast s')) ∨ (env.partialD = true ∧ s'.op = N ∧ nextSt next = s'))

theorem extDictMatch_ok (env : Env) (N : Nat) (hw : WF2 env N) (st : St) (ip back length offset : Nat)
    (hsz : st.buf.size = N) (hd0 : env.dst0 ≤ st.op) (hop : st.op ≤ N) (hne : env.dict = .usingExtDict)
    (out : List UInt8) (hrel : Rel env st.buf st.op out) (hback : (back : Int) = env.low + offset - st.op) (hbpos : 0 < back)
    (s' : St) (h : extDictMatch env st ip back length = .ok s') :
    ∃ mlen, mlen ≤ length ∧ (mlen < length → env.partialD = true ∧ st.op + mlen = N) ∧ CopyPost env st ip offset mlen out s' := by
  have hlow := hw.wf.low_nn (by rw [hne]; intro hc; cases hc)
  have hlow2 := hw.wf.low_le
  have hL : (env.low.toNat : Int) = env.low := Int.toNat_of_nonneg hlow
  have hlen := hrel.len
  have c5 : LASTLITERALS = 5 := rfl
  unfold extDictMatch at h
  rw [c5, hsz] at h
  dsimp only at h
  by_cases h1 : st.op + length + 5 > N ∧ ¬ env.partialD = true
  · rw [if_pos h1] at h; cases h
  · rw [if_neg h1] at h
    generalize hlg : (if st.op + length + 5 > N then min length (N - st.op) else length) = len at h
    have hl1 : len ≤ length ∧ st.op + len ≤ N ∧ (len < length → env.partialD = true ∧ st.op + len = N) := by
      rw [← hlg]
      by_cases hc : st.op + length + 5 > N
      · rw [if_pos hc]
        have hp : env.partialD = true := Classical.byContradiction (fun hn => h1 ⟨hc, hn⟩)
        refine ⟨Nat.min_le_left _ _, by omega, fun hlt => ⟨hp, by omega⟩⟩
      · rw [if_neg hc]; exact ⟨Nat.le_refl _, by omega, fun hlt => absurd hlt (Nat.lt_irrefl _)⟩
    refine ⟨len, hl1.1, hl1.2.2, ?_⟩
    by_cases h2 : back > env.ext.size
    · rw [if_pos h2] at h; cases h
    · rw [if_neg h2] at h
      by_cases h3 : len ≤ back
      · rw [if_pos h3] at h
        obtain ⟨b, hb, h⟩ := bind_ok h
        simp only [pure, Except.pure, Except.ok.injEq] at h
        subst h
        obtain ⟨c1, c2, c3, _⟩ := copyIn_spec _ _ _ _ _ _ _ hb
        refine ⟨rfl, rfl, fun ho => ⟨by omega, ?_⟩⟩
        obtain ⟨out2, ho1, ho2, _⟩ := hrel.copy (b := b) (by omega) (fun j hj => c2 j (Or.inl hj)) offset len ho (by omega) (by omega) (by
          intro i hi
          unfold vw
          rw [if_neg (by omega), if_pos (by omega)]
          rw [show env.low.toNat + (out.length + i - env.ext.size) = st.op + i by omega, c3 i hi]
          congr 1
          omega)
        exact ⟨out2, ho1, ho2⟩
      · rw [if_neg h3] at h
        obtain ⟨b1, hb1, h⟩ := bind_ok h
        rw [if_neg (by omega)] at h
        obtain ⟨b2, hb2, h⟩ := bind_ok h
        simp only [pure, Except.pure, Except.ok.injEq] at h
        subst h
        obtain ⟨c1, c2, c3, _⟩ := copyIn_spec _ _ _ _ _ _ _ hb1
        have hf : fwd b1 (st.op + back) env.low.toNat (len - back) = .ok b2 := by
          split at hb2
          · exact hb2
          · exact memcpyB_fwd hb2
        refine ⟨rfl, rfl, fun ho => ⟨by omega, ?_⟩⟩
        have e := (Ext.refl b1 (st.op + back) offset).fwd (len - back) (st.op + back) env.low.toNat b2 hf 1 ho (by omega) (by omega) (by omega) (by omega) (by omega)
        obtain ⟨out2, ho1, ho2, _⟩ := hrel.copy (b := b2) (by omega) (fun j hj => by rw [e.low j (by omega), c2 j (Or.inl hj)]) offset len ho (by omega)
          (by rw [e.size]; omega) (by
          intro i hi
          unfold vw
          rw [if_neg (by omega)]
          rw [show env.low.toNat + (out.length + i - env.ext.size) = st.op + i by omega]
          by_cases hib : i < back
          · rw [if_pos (by omega), e.low _ (by omega), c3 i hib]
            congr 1
            omega
          · rw [if_neg (by omega), e.per (st.op + i) (by omega) (by omega)]
            congr 1
            omega)
        exact ⟨out2, ho1, ho2⟩

theorem extDictMatch_bad (env : Env) (st : St) (ip back length ip' : Nat) (h : extDictMatch env st ip back length = .error (.bad ip')) :
    ¬ (env.partialD = true ∨ st.op + length + 5 ≤ st.buf.size) := by
  unfold extDictMatch at h
  have c5 : LASTLITERALS = 5 := rfl
  dsimp only at h
  split at h
  · rename_i hc; intro hv; rcases hv with hv | hv
    · exact hc.2 hv
    · omega
  · generalize (if st.op + length + LASTLITERALS > st.buf.size then min length (st.buf.size - st.op) else length) = len at h
    split at h
    · cases h
    · split at h
      · rcases bind_bad h with h | ⟨b, _, h⟩
        · exact absurd h (copyIn_nb _ _ _ _ _ _ _)
        · cases h
      · rcases bind_bad h with h | ⟨b, _, h⟩
        · exact absurd h (copyIn_nb _ _ _ _ _ _ _)
        · split at h
          · cases h
          · rcases bind_bad h with h | ⟨b2, _, h⟩
            · split at h
              · exact absurd h (fwd_nb _ _ _ _ _)
              · exact absurd h (memcpyB_nb _ _ _ _ _)
            · cases h

/-- an in-buffer LZ77 copy at the sequence's offset is the specification's `copyMatch` -/
theorem ext_post (env : Env) (buf b : Bytes) (op offset length : Nat) (out1 : List UInt8) (hrel : Rel env buf op out1)
    (hL : env.low.toNat ≤ op) (hmL : env.low.toNat + offset ≤ op) (ho : 1 ≤ offset) (e : Ext buf b op offset (op + length))
    (hsz : op + length ≤ buf.size) :
    offset ≤ out1.length ∧ ∃ out2, copyMatch out1 offset length = some out2 ∧ Rel env b (op + length) out2 := by
  have hlen := hrel.len
  refine ⟨by omega, ?_⟩
  obtain ⟨out2, ho1, ho2, _⟩ := hrel.copy (b := b) hL e.low offset length ho (by omega) (by rw [e.size]; omega)
    (vw_per_of_Per env b op offset length out1.length hL hlen hmL e.per)
  exact ⟨out2, ho1, ho2⟩

/-- label `safe_match_copy` -/
theorem safeMatch_sim (env : Env) (N : Nat) (hw : WF2 env N) (st : St) (ip offset length : Nat)
    (hsz : st.buf.size = N) (hd0 : env.dst0 ≤ st.op) (hop : st.op ≤ N) (out : List UInt8) (hrel : Rel env st.buf st.op out) :
    Sim (MatchPost env N st ip offset length out)
        (1 ≤ offset ∧ offset ≤ out.length ∧ (env.partialD = true ∨ st.op + length + 5 ≤ N))
        (safeMatch env st ip offset length) := by
  have hlow2 := hw.wf.low_le
  have hlen := hrel.len
  have hE := hw.wf.ext_sz
  unfold safeMatch
  have c12 : MATCH_SAFEGUARD_DISTANCE = 12 := rfl
  rw [c12, hsz]
  dsimp only
  by_cases chk : env.dictSize < 65536 ∧ (st.op : Int) - offset + env.dictSize < env.low
  · rw [if_pos chk]
    apply Sim.bad
    rintro ⟨_, h2, _⟩
    omega
  · rw [if_neg chk]
    by_cases hx : env.dict = .usingExtDict ∧ (st.op : Int) - offset < env.low
    · rw [if_pos hx]
      have hlow := hw.wf.low_nn (by rw [hx.1]; intro hc; cases hc)
      apply Sim.intro
      · intro next hn
        obtain ⟨s', hs', hn⟩ := bind_ok hn
        simp only [pure, Except.pure, Except.ok.injEq] at hn
        subst hn
        obtain ⟨mlen, hm1, hm2, hcp⟩ := extDictMatch_ok env N hw st ip _ length offset hsz hd0 hop hx.1 out hrel (by omega) (by omega) s' hs'
        refine ⟨s', mlen, hm1, hcp, ?_⟩
        by_cases hml : mlen < length
        · right; exact ⟨(hm2 hml).1, by rw [hcp.2.1]; exact (hm2 hml).2, rfl⟩
        · left; exact ⟨by omega, Or.inl rfl⟩
      · intro ip' hb
        rcases bind_bad hb with hb | ⟨s', _, hb⟩
        · have := extDictMatch_bad env st ip _ length ip' hb
          rintro ⟨_, _, h3⟩
          rw [hsz] at this
          exact this h3
        · cases hb
    · rw [if_neg hx]
      by_cases hm0 : (st.op : Int) - offset < 0
      · rw [if_pos hm0]; exact Sim.fault
      · rw [if_neg hm0]
        have hmL : env.low ≤ (st.op : Int) - offset := by
          by_cases hd : env.dict = .usingExtDict
          · have := not_and.mp hx hd; omega
          · have := hw.wf.nodict hd
            have := not_and.mp chk (by omega)
            omega
        by_cases hpart : env.partialD = true ∧ st.op + length + 12 > N
        · rw [if_pos hpart]
          apply Sim.intro
          · intro next hn
            obtain ⟨b, hb, hn⟩ := bind_ok hn
            have hf : fwd st.buf st.op ((st.op : Int) - offset).toNat (min length (N - st.op)) = .ok b := by
              split at hb
              · exact hb
              · exact memcpyB_fwd hb
            have hcp : CopyPost env st ip offset (min length (N - st.op)) out ⟨ip, st.op + min length (N - st.op), b⟩ := by
              refine ⟨rfl, rfl, fun ho => ?_⟩
              have e := (Ext.refl st.buf st.op offset).fwd _ st.op _ b hf 1 ho (by omega) (by omega) (by omega) (by omega) (by omega)
              exact ext_post env st.buf b st.op offset _ out hrel (by omega) (by omega) ho e (by omega)
            refine ⟨⟨ip, st.op + min length (N - st.op), b⟩, min length (N - st.op), Nat.min_le_left _ _, hcp, ?_⟩
            by_cases hfull : st.op + min length (N - st.op) = N
            · rw [if_pos hfull] at hn
              simp only [pure, Except.pure, Except.ok.injEq] at hn
              subst hn
              right; exact ⟨hpart.1, hfull, rfl⟩
            · rw [if_neg hfull] at hn
              simp only [pure, Except.pure, Except.ok.injEq] at hn
              subst hn
              left; exact ⟨by omega, Or.inl rfl⟩
          · intro ip' hb
            rcases bind_bad hb with hb | ⟨b, _, hb⟩
            · split at hb
              · exact absurd hb (fwd_nb _ _ _ _ _)
              · exact absurd hb (memcpyB_nb _ _ _ _ _)
            · split at hb <;> cases hb
        · rw [if_neg hpart]
          apply Sim.intro
          · intro next hn
            obtain ⟨b, hb, hn⟩ := bind_ok hn
            simp only [pure, Except.pure, Except.ok.injEq] at hn
            subst hn
            refine ⟨⟨ip, st.op + length, b⟩, length, Nat.le_refl _, ⟨rfl, rfl, fun ho => ?_⟩, Or.inl ⟨rfl, Or.inl rfl⟩⟩
            obtain ⟨e, hfit⟩ := safeMatchCopy_ok st.buf ip st.op _ offset length b hb ho (by omega)
            exact ext_post env st.buf b st.op offset length out hrel (by omega) (by omega) ho e (by omega)
          · intro ip' hb
            rcases bind_bad hb with hb | ⟨b, _, hb⟩
            · have := safeMatchCopy_bad _ _ _ _ _ _ _ hb
              rintro ⟨_, _, h3⟩
              rcases h3 with h3 | h3
              · have := not_and.mp hpart h3; omega
              · omega
            · cases hb

/-- label `_copy_match` : the match-length field, then the match -/
theorem copyMatchLbl_sim (env : Env) (N : Nat) (hw : WF2 env N) (st : St) (ip offset token : Nat)
    (hsz : st.buf.size = N) (hd0 : env.dst0 ≤ st.op) (hop : st.op ≤ N) (out : List UInt8) (hrel : Rel env st.buf st.op out) :
    Sim (fun next => ∃ ml ip', readField (token % 16) (rem env.src ip) = some (ml - 4, rem env.src ip') ∧ 4 ≤ ml ∧
                      ip ≤ ip' ∧ MatchPost env N st ip' offset ml out next)
        (∃ v rest, readField (token % 16) (rem env.src ip) = some (v, rest) ∧ (v ≥ 15 → ip + (v - 15) / 255 + 1 + 4 ≤ env.src.size) ∧
                   1 ≤ offset ∧ offset ≤ out.length ∧ (env.partialD = true ∨ st.op + (v + 4) + 5 ≤ N))
        (copyMatchLbl env st ip offset token) := by
  unfold copyMatchLbl
  apply Sim.bind ((matchLen_sim env.src ip token).mono (fun a _ h => h) (by rintro ⟨v, rest, h1, h2, _⟩; exact ⟨v, rest, h1, h2⟩))
  intro r _ hr
  obtain ⟨hr1, hr2, hr3, _⟩ := hr
  apply (safeMatch_sim env N hw st r.2 offset r.1 hsz hd0 hop out hrel).mono
  · intro next _ hmp
    exact ⟨r.1, r.2, hr1, hr2, by omega, hmp⟩
  · rintro ⟨v, rest, h1, _, h3, h4, h5⟩
    rw [hr1] at h1
    simp only [Option.some.injEq, Prod.mk.injEq] at h1
    refine ⟨h3, h4, ?_⟩
    rcases h5 with h5 | h5
    · exact Or.inl h5
    · right; omega

end LZ4V.Model.Decode
