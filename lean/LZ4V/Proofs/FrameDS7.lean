import LZ4V.Proofs.FrameDS6
/-!
# The dStage machine — part 7: progress

A call that was offered at least one byte and at least one byte of room, and that neither fails nor completes a frame, has consumed or produced
at least one byte: every way a `switch` execution can stop with a non-zero hint is either "all the input offered was taken", "the room is used up",
or comes after bytes were moved.
-/
namespace LZ4V.Model.FrameDS
open LZ4V.Spec.FrameL
open LZ4V.Spec.Frame (Bad Header isSkippableMagic)

/-- a step that stops asking for more (non-zero hint) although it had input and room has consumed or produced something -/
def StopProg (src : Bytes) (room outLen : Nat) : Step → Prop
  | .stop k' h => h ≠ 0 → src ≠ [] → room > 0 → k'.src.length < src.length ∨ k'.out.length > outLen
  | _ => True

theorem lt_of_take_all {src : Bytes} {a n : Nat} (hn : n = min a src.length) (hlt : n < a) (hne : src ≠ []) : (src.drop n).length < src.length := by
  have : src.length > 0 := List.length_pos_iff.mpr hne
  rw [List.length_drop]; omega

/-- the tail of a step (after the bytes it needed were taken): it consumes nothing more, and stops with a non-zero hint only for lack of input or room, or after producing -/
def TailProg (k : Call) : Step → Prop
  | .stop k' h => k'.src = k.src ∧ (h ≠ 0 → k.room > 0 → k.src ≠ [] → k'.out.length > k.out.length)
  | _ => True

theorem decodeBlockHeader_tail (k : Call) (sel : Bytes) : TailProg k (decodeBlockHeader k sel) := by
  unfold decodeBlockHeader; dsimp only
  split; · exact True.intro
  split; · exact True.intro
  split; · exact True.intro
  split
  · rename_i hc
    refine ⟨rfl, ?_⟩
    intro _ hr hs
    have : k.src.length > 0 := List.length_pos_iff.mpr hs
    omega
  · exact True.intro

theorem checkBlockCrc_tail (E : Env) (k : Call) (sel : Bytes) : TailProg k (checkBlockCrc E k sel) := by
  unfold checkBlockCrc; split <;> exact True.intro

theorem sFlushOut_tail (k : Call) (hst : k.c.tmpOutStart ≤ k.c.tmpOut.length) : TailProg k (sFlushOut k) := by
  unfold sFlushOut; dsimp only
  split
  · exact True.intro
  · rename_i hne
    refine ⟨rfl, ?_⟩
    intro _ hr _
    show (k.out ++ _).length > _
    rw [List.length_append, List.length_take, List.length_drop]
    omega

theorem decodeCBlock_tail (E : Env) (k : Call) (sel : Bytes) : TailProg k (decodeCBlock E k sel) := by
  unfold decodeCBlock; dsimp only
  split; · exact True.intro
  generalize (if k.c.blockChecksum = true then { k.c with tmpInTarget := k.c.tmpInTarget - 4 } else k.c) = c1
  cases E.dec (history c1) (List.take c1.tmpInTarget sel) c1.maxBlockSize with
  | none => exact True.intro
  | some d =>
    dsimp only
    by_cases hr : k.room ≥ c1.maxBlockSize
    · rw [if_pos hr]; exact True.intro
    · rw [if_neg hr]
      exact sFlushOut_tail _ (Nat.zero_le _)

theorem checkSuffix_tail (E : Env) (k : Call) (sel : Bytes) : TailProg k (checkSuffix E k sel) := by
  unfold checkSuffix
  split
  · exact True.intro
  · exact ⟨rfl, fun h => absurd rfl h⟩

theorem decodeSFrameSize_tail (k : Call) (sel : Bytes) : TailProg k (decodeSFrameSize k sel) := by
  unfold decodeSFrameSize; exact True.intro

/-- a staging step: `n = min need |src|` bytes are taken; if that is not enough it stops, else the tail runs on the rest -/
theorem StopProg.ofTail {src : Bytes} {room : Nat} {out : Bytes} {n : Nat} {c1 : Ctx} {st : Step} (hn : n ≤ src.length)
    (h : TailProg { c := c1, src := src.drop n, room := room, out := out } st) : StopProg src room out.length st := by
  cases st with
  | next _ => exact True.intro
  | fail _ _ => exact True.intro
  | stop k' hh =>
    obtain ⟨e1, e2⟩ := h
    dsimp only at e1 e2
    intro h0 hne hr
    have hpos : src.length > 0 := List.length_pos_iff.mpr hne
    by_cases hz : n = 0
    · subst hz
      rw [List.drop_zero] at e2
      right; exact e2 h0 hr hne
    · left; rw [e1, List.length_drop]; omega

/-- the part of a staging step that stops for lack of input: everything offered was taken -/
theorem stop_short {src : Bytes} {have_ need : Nat} (hlt : have_ + min (need - have_) src.length < need) (hne : src ≠ []) :
    (src.drop (min (need - have_) src.length)).length < src.length := by
  have : src.length > 0 := List.length_pos_iff.mpr hne
  rw [List.length_drop]; omega

theorem sStoreBlockHeader_prog (k : Call) : StopProg k.src k.room k.out.length (sStoreBlockHeader k) := by
  unfold sStoreBlockHeader; dsimp only
  have hB : LZ4V.Gen.BHSize = 4 := rfl
  rw [hB]
  split
  · rename_i hlt
    intro _ hne _
    left
    rw [List.length_append, List.length_take] at hlt
    exact stop_short (by omega) hne
  · exact StopProg.ofTail (Nat.min_le_right _ _) (decodeBlockHeader_tail _ _)

theorem sGetBlockHeader_prog (k : Call) : StopProg k.src k.room k.out.length (sGetBlockHeader k) := by
  unfold sGetBlockHeader
  have hB : LZ4V.Gen.BHSize = 4 := rfl
  rw [hB]
  split
  · rename_i h4
    exact StopProg.ofTail (by omega) (decodeBlockHeader_tail _ _)
  · exact sStoreBlockHeader_prog { k with c := { k.c with staged := [], stage := .storeBlockHeader } }

theorem sInit_prog (k : Call) : StopProg k.src k.room k.out.length (sInit k) := by
  unfold sInit; dsimp only
  exact sGetBlockHeader_prog _

theorem sCopyDirect_prog (k : Call) : StopProg k.src k.room k.out.length (sCopyDirect k) := by
  unfold sCopyDirect; dsimp only
  split
  · split <;> exact True.intro
  · rename_i hne
    intro _ hs hr
    have : k.src.length > 0 := List.length_pos_iff.mpr hs
    left
    show (List.drop _ k.src).length < _
    rw [List.length_drop]
    omega

theorem sGetBlockChecksum_prog (E : Env) (k : Call) : StopProg k.src k.room k.out.length (sGetBlockChecksum E k) := by
  unfold sGetBlockChecksum
  split
  · rename_i hc
    exact StopProg.ofTail (by omega) (checkBlockCrc_tail E _ _)
  · dsimp only
    split
    · rename_i hcond hlt
      intro _ hne _
      left
      rw [List.length_append, List.length_take] at hlt
      exact stop_short (by omega) hne
    · exact StopProg.ofTail (Nat.min_le_right _ _) (checkBlockCrc_tail E _ _)

theorem sFlushOut_prog (k : Call) (hst : k.c.tmpOutStart ≤ k.c.tmpOut.length) : StopProg k.src k.room k.out.length (sFlushOut k) := by
  have := sFlushOut_tail k hst
  have h2 : StopProg k.src k.room k.out.length (sFlushOut k) := by
    refine StopProg.ofTail (n := 0) (c1 := k.c) (Nat.zero_le _) ?_
    rw [List.drop_zero]
    exact this
  exact h2

theorem sStoreCBlock_prog (E : Env) (k : Call) : StopProg k.src k.room k.out.length (sStoreCBlock E k) := by
  unfold sStoreCBlock; dsimp only
  split
  · rename_i hlt
    intro _ hne _
    left
    rw [List.length_append, List.length_take] at hlt
    exact stop_short (by omega) hne
  · exact StopProg.ofTail (Nat.min_le_right _ _) (decodeCBlock_tail E _ _)

theorem sGetCBlock_prog (E : Env) (k : Call) : StopProg k.src k.room k.out.length (sGetCBlock E k) := by
  unfold sGetCBlock
  split
  · exact True.intro
  · rename_i hge
    exact StopProg.ofTail (by omega) (decodeCBlock_tail E _ _)

theorem sStoreSuffix_prog (E : Env) (k : Call) : StopProg k.src k.room k.out.length (sStoreSuffix E k) := by
  unfold sStoreSuffix; dsimp only
  split
  · rename_i hlt
    intro _ hne _
    left
    rw [List.length_append, List.length_take] at hlt
    exact stop_short (by omega) hne
  · exact StopProg.ofTail (Nat.min_le_right _ _) (checkSuffix_tail E _ _)

theorem sGetSuffix_prog (E : Env) (k : Call) : StopProg k.src k.room k.out.length (sGetSuffix E k) := by
  unfold sGetSuffix
  split; · exact True.intro
  split; · intro h; exact absurd rfl h
  split
  · exact sStoreSuffix_prog E { k with c := { k.c with staged := [], stage := .storeSuffix } }
  · rename_i h4
    exact StopProg.ofTail (by omega) (checkSuffix_tail E _ _)

theorem sStoreSFrameSize_prog (k : Call) : StopProg k.src k.room k.out.length (sStoreSFrameSize k) := by
  unfold sStoreSFrameSize; dsimp only
  split
  · rename_i hlt
    intro _ hne _
    left
    rw [List.length_append, List.length_take] at hlt
    exact stop_short (by omega) hne
  · exact StopProg.ofTail (Nat.min_le_right _ _) (decodeSFrameSize_tail _ _)

theorem sGetSFrameSize_prog (k : Call) : StopProg k.src k.room k.out.length (sGetSFrameSize k) := by
  unfold sGetSFrameSize
  split
  · exact StopProg.ofTail (by omega) (decodeSFrameSize_tail _ _)
  · exact sStoreSFrameSize_prog { k with c := { k.c with staged := List.replicate 4 0, tmpInTarget := 8, stage := .storeSFrameSize } }

theorem sSkipSkippable_prog (k : Call) : StopProg k.src k.room k.out.length (sSkipSkippable k) := by
  unfold sSkipSkippable; dsimp only
  split
  · rename_i hne
    intro _ hs _
    have : k.src.length > 0 := List.length_pos_iff.mpr hs
    left
    show (List.drop _ k.src).length < _
    rw [List.length_drop]
    omega
  · intro h; exact absurd rfl h

theorem sStoreFrameHeader_prog (E : Env) (k : Call) : StopProg k.src k.room k.out.length (sStoreFrameHeader E k) := by
  unfold sStoreFrameHeader; dsimp only
  split
  · rename_i hlt
    intro _ hne _
    left
    rw [List.length_append, List.length_take] at hlt
    exact stop_short (by omega) hne
  · split <;> exact True.intro

theorem sGetFrameHeader_prog (E : Env) (k : Call) : StopProg k.src k.room k.out.length (sGetFrameHeader E k) := by
  unfold sGetFrameHeader
  split
  · split <;> exact True.intro
  · split
    · rename_i h0
      intro _ hne _
      have : k.src.length > 0 := List.length_pos_iff.mpr hne
      omega
    · exact sStoreFrameHeader_prog E { k with c := { k.c with staged := [], tmpInTarget := LZ4V.Gen.minFHSize, stage := .storeFrameHeader } }

/-- **a `switch` execution that stops with a non-zero hint although input and room were available has consumed or produced something** -/
theorem step_prog (E : Env) (k : Call) (hi : Inv k.c) : StopProg k.src k.room k.out.length (step E k) := by
  unfold step
  cases hs : k.c.stage <;> dsimp only
  · exact sGetFrameHeader_prog E k
  · exact sStoreFrameHeader_prog E k
  · exact sInit_prog k
  · exact sGetBlockHeader_prog k
  · exact sStoreBlockHeader_prog k
  · exact sCopyDirect_prog k
  · exact sGetBlockChecksum_prog E k
  · exact sGetCBlock_prog E k
  · exact sStoreCBlock_prog E k
  · exact sFlushOut_prog k (hi.flush hs).1
  · exact sGetSuffix_prog E k
  · exact sStoreSuffix_prog E k
  · exact sGetSFrameSize_prog k
  · exact sStoreSFrameSize_prog k
  · exact sSkipSkippable_prog k

theorem loop_prog (E : Env) (hE : DecBounded E) : ∀ (fuel : Nat) (k : Call) (dl : Bytes), Inv k.c → Out k.c dl → k.src ≠ [] → k.room > 0 →
    ∀ h, (loop E fuel k).2 = .hint h → h ≠ 0 → (loop E fuel k).1.src.length < k.src.length ∨ (loop E fuel k).1.out.length > k.out.length := by
  intro fuel
  induction fuel with
  | zero => intro k dl _ _ _ _ h hr _; unfold loop at hr; cases hr
  | succ fuel ih =>
    intro k dl hi ho hs hroom h hr h0
    have hstep := step_ok E hE k dl hi ho
    have hprog := step_prog E k hi
    unfold loop at hr ⊢
    cases hst : step E k with
    | next k1 =>
      rw [hst] at hstep hr
      dsimp only at hr ⊢
      obtain ⟨d, o, b, _, h1, h2, h3, h4, h5, _⟩ := hstep
      have hrest := loop_ok E hE fuel k1 (dl ++ o) h4 h5
      rw [hr] at hrest
      obtain ⟨d2, o2, nb, g1, g2, _, _⟩ := hrest
      by_cases hd : d = [] ∧ o = []
      · obtain ⟨hd1, hd2⟩ := hd
        subst hd1; subst hd2
        have e1 : k1.src = k.src := by rw [h1]; rfl
        have e2 : k1.out = k.out := by rw [h2]; simp
        have e3 : k1.room = k.room := by simpa using h3
        have := ih k1 (dl ++ []) h4 h5 (by rw [e1]; exact hs) (by rw [e3]; exact hroom) h hr h0
        rw [e1, e2] at this
        exact this
      · have hpos : d.length + o.length > 0 := by
          by_cases hdd : d = []
          · have : o ≠ [] := fun ho' => hd ⟨hdd, ho'⟩
            have := List.length_pos_iff.mpr this; omega
          · have := List.length_pos_iff.mpr hdd; omega
        have l1 : k.src.length = d.length + d2.length + (loop E fuel k1).1.src.length := by rw [h1, g1]; simp [List.length_append]; omega
        have l2 : (loop E fuel k1).1.out.length = k.out.length + o.length + o2.length := by rw [g2, h2]; simp [List.length_append]; omega
        omega
    | stop k1 hh =>
      rw [hst] at hprog hr
      dsimp only at hr ⊢
      injection hr with hr
      subst hr
      exact hprog h0 hs hroom
    | fail c e => rw [hst] at hr; cases hr

/-- **progress**: a call of `LZ4F_decompress` (no `skipChecksums`) that was offered at least one byte of input and at least one byte of output room, on a
    reachable context, and returns a non-zero hint (neither an error nor "frame complete") has consumed at least one byte or produced at least one byte -/
theorem decompress_prog (E : Env) (hE : DecBounded E) (c : Ctx) (src : Bytes) (cap : Nat) (dl : Bytes) (hi : Inv c) (ho : Out c dl) (hs : src ≠ []) (hc : cap > 0)
    (h : Nat) (hr : (decompress E c src cap false).ret = .hint h) (h0 : h ≠ 0) :
    (decompress E c src cap false).consumed > 0 ∨ (decompress E c src cap false).out ≠ [] := by
  unfold decompress at hr ⊢
  dsimp only at hr ⊢
  rw [skip_false] at hr ⊢
  have hl := loop_prog E hE (fuelFor src) { c := c, src := src, room := cap, out := [] } dl hi ho hs hc
  revert hl hr
  generalize loop E (fuelFor src) _ = res
  intro hr hl
  obtain ⟨k', ret⟩ := res
  cases ret with
  | hint hh =>
    dsimp only at hr ⊢
    injection hr with hr
    subst hr
    rcases hl hh rfl h0 with g | g
    · left; dsimp only at g; omega
    · right; dsimp only at g; intro hn; rw [hn] at g; simp at g
  | error e => cases hr
  | stuck => cases hr

end LZ4V.Model.FrameDS
