import LZ4V.Model.Sparse
/-!
# The sparse writer produces exactly the bytes a plain writer produces

Logical content of a state `(storedSkips, file)` = file content, then the pending hole and the stored skips as zeros.
Every `LZ4IO_fwriteSparse` call appends its buffer to the logical content (no `unsigned` overflow for buffers ≤ 1 GB);
`LZ4IO_fwriteSparseEnd` turns the logical content into the real content.
-/
namespace LZ4V.Model.Sparse

theorem zeros_add (a b : Nat) : zeros (a + b) = zeros a ++ zeros b := by
  simp [zeros, List.replicate_append_replicate]

theorem zeros_length (a : Nat) : (zeros a).length = a := by simp [zeros]

/-- logical content -/
def L (st : Nat × SFile) : List UInt8 := st.2.content ++ zeros (st.2.hole + st.1)

theorem all_zero_eq : ∀ l : List UInt8, l.all (· == 0) = true → l = zeros l.length := by
  intro l
  induction l with
  | nil => intro _; rfl
  | cons x t ih =>
    intro h
    simp only [List.all_cons, Bool.and_eq_true, beq_iff_eq] at h
    have := ih h.2
    simp only [List.length_cons, zeros, List.replicate_succ] at this ⊢
    rw [h.1, ← this]

theorem lzw_le : ∀ (n : Nat) (p : List UInt8), lzw n p ≤ n := by
  intro n
  induction n with
  | zero => intro p; simp [lzw]
  | succ k ih =>
    intro p
    unfold lzw
    split
    · have := ih (p.drop 8); omega
    · omega

theorem lzw_take : ∀ (n : Nat) (p : List UInt8), n * 8 ≤ p.length → p.take (lzw n p * 8) = zeros (lzw n p * 8) := by
  intro n
  induction n with
  | zero => intro p _; simp [lzw, zeros]
  | succ k ih =>
    intro p hp
    unfold lzw
    split
    · rename_i hz
      have h8 : (p.take 8).length = 8 := by rw [List.length_take]; omega
      have hz8 : p.take 8 = zeros 8 := by
        have := all_zero_eq _ hz
        rw [h8] at this
        exact this
      have ihd := ih (p.drop 8) (by rw [List.length_drop]; omega)
      have e : (1 + lzw k (p.drop 8)) * 8 = 8 + lzw k (p.drop 8) * 8 := by omega
      rw [e, List.take_add, hz8, ihd, ← zeros_add]
    · simp [zeros]

theorem lzb_le : ∀ l : List UInt8, lzb l ≤ l.length := by
  intro l
  induction l with
  | nil => simp [lzb]
  | cons x t ih =>
    unfold lzb
    split
    · simp only [List.length_cons]; omega
    · omega

theorem lzb_take : ∀ l : List UInt8, l.take (lzb l) = zeros (lzb l) := by
  intro l
  induction l with
  | nil => simp [lzb, zeros]
  | cons x t ih =>
    unfold lzb
    split
    · rename_i hx
      have hx0 : x = 0 := by simpa using hx
      have e : 1 + lzb t = lzb t + 1 := by omega
      rw [e, List.take_succ_cons, ih, hx0]
      simp [zeros, List.replicate_succ]
    · simp [zeros]

theorem L_write (f : SFile) (s : Nat) (b : List UInt8) (hb : b ≠ []) :
    L (0, (f.seek s).write b) = f.content ++ zeros (f.hole + s) ++ b := by
  unfold L SFile.write SFile.seek
  rw [if_neg hb]
  simp [zeros]

theorem segLoop_spec : ∀ (fuel : Nat) (p : List UInt8) (remT skips : Nat) (f : SFile), remT < fuel → p.length = remT * 8 →
    skips + p.length < 4294967296 → (0 < f.hole → 0 < skips) →
    L (segLoop fuel p remT skips f) = L (skips, f) ++ p ∧ (0 < (segLoop fuel p remT skips f).2.hole → 0 < (segLoop fuel p remT skips f).1) ∧
    (segLoop fuel p remT skips f).1 ≤ skips + p.length := by
  intro fuel
  induction fuel with
  | zero => intro p remT skips f h; omega
  | succ k ih =>
    intro p remT skips f hf hlen hov hh
    unfold segLoop
    by_cases hr : remT = 0
    · rw [if_pos hr]
      have : p = [] := List.eq_nil_of_length_eq_zero (by omega)
      subst this
      exact ⟨by simp, hh, by simp⟩
    · rw [if_neg hr]
      dsimp only
      have hseg1 : 0 < min segWords remT := by unfold segWords; omega
      have hseg2 : min segWords remT ≤ remT := Nat.min_le_right _ _
      generalize hsegdef : min segWords remT = seg at hseg1 hseg2
      have hnb := lzw_le seg p
      have htake := lzw_take seg p (by omega)
      generalize hnbdef : lzw seg p = nb0 at hnb htake
      have hmod : (skips + nb0 * 8) % 4294967296 = skips + nb0 * 8 := Nat.mod_eq_of_lt (by omega)
      rw [hmod]
      have hdl : (p.drop (seg * 8)).length = (remT - seg) * 8 := by rw [List.length_drop]; omega
      have hsplit : p = p.take (seg * 8) ++ p.drop (seg * 8) := (List.take_append_drop _ _).symm
      by_cases hne : nb0 ≠ seg
      · rw [if_pos hne]
        have hw : (p.drop (nb0 * 8)).take ((seg - nb0) * 8) ≠ [] := by
          intro h0
          have := congrArg List.length h0
          rw [List.length_take, List.length_drop] at this
          simp only [List.length_nil] at this
          omega
        have hfh : ((f.seek (skips + nb0 * 8)).write ((p.drop (nb0 * 8)).take ((seg - nb0) * 8))).hole = 0 := by
          unfold SFile.write; rw [if_neg hw]
        obtain ⟨i1, i2, i3⟩ := ih (p.drop (seg * 8)) (remT - seg) 0 _ (by omega) hdl (by omega) (by rw [hfh]; omega)
        refine ⟨?_, i2, by omega⟩
        rw [i1, L_write _ _ _ hw]
        have e1 : f.hole + (skips + nb0 * 8) = (f.hole + skips) + nb0 * 8 := by omega
        have e2 : seg * 8 = nb0 * 8 + (seg - nb0) * 8 := by omega
        have hts : p.take (seg * 8) = zeros (nb0 * 8) ++ (p.drop (nb0 * 8)).take ((seg - nb0) * 8) := by
          rw [e2, List.take_add, htake]
        conv => rhs; rw [hsplit, hts]
        rw [e1, zeros_add]
        unfold L
        simp only [List.append_assoc]
      · rw [if_neg hne]
        have hnbs : nb0 = seg := by omega
        obtain ⟨i1, i2, i3⟩ := ih (p.drop (seg * 8)) (remT - seg) (skips + nb0 * 8) f (by omega) hdl (by omega) (by intro h; have := hh h; omega)
        refine ⟨?_, i2, by omega⟩
        rw [i1]
        conv => rhs; rw [hsplit, ← hnbs, htake]
        unfold L
        dsimp only
        have e1 : f.hole + (skips + nb0 * 8) = (f.hole + skips) + nb0 * 8 := by omega
        rw [e1, zeros_add, hnbs]
        simp only [List.append_assoc]

/-- state invariant between calls -/
def Inv (st : Nat × SFile) : Prop := (0 < st.2.hole → 0 < st.1) ∧ st.1 ≤ 2 * GB

theorem fwriteSparse_spec (st : Nat × SFile) (buf : List UInt8) (hi : Inv st) (hb : buf.length ≤ GB) :
    Inv (fwriteSparse st buf) ∧ L (fwriteSparse st buf) = L st ++ buf := by
  obtain ⟨hh, hs⟩ := hi
  unfold fwriteSparse
  -- the 1 GB guard
  have hg : ∃ st1 : Nat × SFile, (if st.1 > GB then (st.1 - GB, st.2.seek GB) else st) = st1 ∧ L st1 = L st ∧ st1.1 ≤ GB ∧ (0 < st1.2.hole → 0 < st1.1) := by
    by_cases h : st.1 > GB
    · refine ⟨_, rfl, ?_, ?_, ?_⟩
      · rw [if_pos h]
        unfold L SFile.seek
        dsimp only
        have : st.2.hole + GB + (st.1 - GB) = st.2.hole + st.1 := by omega
        rw [this]
      · rw [if_pos h]; dsimp only; omega
      · rw [if_pos h]; dsimp only; intro _; omega
    · refine ⟨_, rfl, ?_, ?_, ?_⟩
      · rw [if_neg h]
      · rw [if_neg h]; omega
      · rw [if_neg h]; exact hh
  obtain ⟨st1, e1, l1, b1, h1⟩ := hg
  rw [e1]
  dsimp only
  have hGB : GB = 1073741824 := rfl
  have hlenT : (buf.take (8 * (buf.length / 8))).length = buf.length / 8 * 8 := by rw [List.length_take]; omega
  obtain ⟨s1, s2, s3⟩ := segLoop_spec (buf.length / 8 + 1) (buf.take (8 * (buf.length / 8))) (buf.length / 8) st1.1 st1.2 (by omega) hlenT (by omega) h1
  generalize segLoop (buf.length / 8 + 1) (buf.take (8 * (buf.length / 8))) (buf.length / 8) st1.1 st1.2 = st2 at s1 s2 s3
  have hbuf : buf = buf.take (8 * (buf.length / 8)) ++ buf.drop (8 * (buf.length / 8)) := (List.take_append_drop _ _).symm
  have hl2 : L st2 = L st ++ buf.take (8 * (buf.length / 8)) := by rw [s1, ← l1]
  generalize hrest : buf.drop (8 * (buf.length / 8)) = rest at hbuf
  have hrl : rest.length = buf.length % 8 := by rw [← hrest, List.length_drop]; omega
  by_cases hre : rest ≠ []
  · rw [if_pos hre]
    have hz := lzb_le rest
    have hzt := lzb_take rest
    generalize lzb rest = z at hz hzt
    have hmod : (st2.1 + z) % 4294967296 = st2.1 + z := Nat.mod_eq_of_lt (by omega)
    rw [hmod]
    by_cases hzl : z ≠ rest.length
    · rw [if_pos hzl]
      have hw : rest.drop z ≠ [] := by
        intro h0
        have := congrArg List.length h0
        rw [List.length_drop] at this
        simp only [List.length_nil] at this
        omega
      refine ⟨⟨?_, by dsimp only; omega⟩, ?_⟩
      · unfold SFile.write; rw [if_neg hw]; dsimp only; omega
      · rw [L_write _ _ _ hw]
        have e : st2.2.hole + (st2.1 + z) = (st2.2.hole + st2.1) + z := by omega
        rw [e, zeros_add, ← hzt]
        conv => rhs; rw [hbuf, ← List.take_append_drop z rest]
        have : st2.2.content ++ zeros (st2.2.hole + st2.1) = L st2 := rfl
        rw [List.append_assoc, List.append_assoc, ← List.append_assoc st2.2.content, this, hl2]
        simp only [List.append_assoc]
    · rw [if_neg hzl]
      have hzeq : z = rest.length := by omega
      refine ⟨⟨?_, by dsimp only; omega⟩, ?_⟩
      · dsimp only; intro h; have := s2 h; omega
      · unfold L
        dsimp only
        have e : st2.2.hole + (st2.1 + z) = (st2.2.hole + st2.1) + z := by omega
        have hrz : rest = zeros z := by rw [← hzt, hzeq, List.take_length]
        rw [e, zeros_add, ← hrz]
        have : st2.2.content ++ zeros (st2.2.hole + st2.1) = L st2 := rfl
        rw [← List.append_assoc, this, hl2]
        conv => rhs; rw [hbuf]
        unfold L
        simp only [List.append_assoc]
  · rw [if_neg hre]
    have : rest = [] := by
      by_cases h : rest = []
      · exact h
      · exact absurd h hre
    refine ⟨⟨s2, by omega⟩, ?_⟩
    rw [hl2]
    conv => rhs; rw [hbuf, this]
    simp

theorem foldl_spec : ∀ (bufs : List (List UInt8)) (st : Nat × SFile), Inv st → (∀ b ∈ bufs, b.length ≤ GB) →
    Inv (bufs.foldl fwriteSparse st) ∧ L (bufs.foldl fwriteSparse st) = L st ++ bufs.flatten := by
  intro bufs
  induction bufs with
  | nil => intro st hi _; exact ⟨hi, by simp⟩
  | cons b t ih =>
    intro st hi hb
    obtain ⟨i1, l1⟩ := fwriteSparse_spec st b hi (hb b List.mem_cons_self)
    obtain ⟨i2, l2⟩ := ih _ i1 (fun x hx => hb x (List.mem_cons_of_mem _ hx))
    simp only [List.foldl_cons, List.flatten_cons]
    exact ⟨i2, by rw [l2, l1, List.append_assoc]⟩

theorem sparseEnd_spec (st : Nat × SFile) (hi : Inv st) : (sparseEnd st).content = L st ∧ (sparseEnd st).hole = 0 := by
  unfold sparseEnd
  by_cases h : st.1 > 0
  · rw [if_pos h]
    unfold SFile.write SFile.seek L
    rw [if_neg (by simp)]
    dsimp only
    refine ⟨?_, rfl⟩
    have e : st.2.hole + st.1 = (st.2.hole + (st.1 - 1)) + 1 := by omega
    have z1 : zeros 1 = [0] := rfl
    rw [e, zeros_add (st.2.hole + (st.1 - 1)) 1, z1]
    simp only [List.append_assoc]
  · rw [if_neg h]
    have h0 : st.2.hole = 0 := by
      by_cases hh : 0 < st.2.hole
      · have := hi.1 hh; omega
      · omega
    have h1 : st.1 = 0 := by omega
    unfold L
    rw [h0, h1]
    simp [zeros]

theorem plain_spec : ∀ (bufs : List (List UInt8)) (f : SFile), f.hole = 0 →
    (bufs.foldl (fun f b => f.write b) f).content = f.content ++ bufs.flatten ∧ (bufs.foldl (fun f b => f.write b) f).hole = 0 := by
  intro bufs
  induction bufs with
  | nil => intro f h; exact ⟨by simp, h⟩
  | cons b t ih =>
    intro f h
    simp only [List.foldl_cons, List.flatten_cons]
    by_cases hb : b = []
    · have : f.write b = f := by unfold SFile.write; rw [if_pos hb]
      rw [this, hb]
      simpa using ih f h
    · have hw : (f.write b).content = f.content ++ b ∧ (f.write b).hole = 0 := by
        unfold SFile.write; rw [if_neg hb, h]; simp [zeros]
      obtain ⟨i1, i2⟩ := ih (f.write b) hw.2
      exact ⟨by rw [i1, hw.1, List.append_assoc], i2⟩

end LZ4V.Model.Sparse
