import LZ4V.Proofs.FastXProof
import LZ4V.Proofs.FastCap
/-!
# Streaming calls of the fast compressor and the destination capacity

`op` of the loop `FastR.runR` is exactly the length of what has been serialised so far, so the `limitedOutput` checks of the model guarantee that a block
returned by `LZ4_compress_fast_continue` (model `FastX`) fits the capacity it was given — in every mode, for every history.
-/
namespace LZ4V.Model.FastR
open LZ4V.Model.Fast
open LZ4V.Spec.Block

theorem emitMatchR_op (C : Cfg) (src : Array UInt8) (st : St) (ip m op a ll : Nat) (s : PSeq) (st' : St)
    (h : emitMatchR C src st ip m op a ll = .seq s st') : st'.op = op + 2 + extLen (s.ml - 4) ∧ s.ll = ll := by
  have c3 : LZ4V.Gen.MINMATCH = 4 := rfl
  unfold emitMatchR at h
  simp only [c3] at h
  split at h
  · cases h
  · split at h
    · injection h with h1 h2
      subst h1; subst h2
      exact ⟨by dsimp only; rw [Nat.add_sub_cancel], rfl⟩
    · split at h
      · injection h with h1 h2
        subst h1; subst h2
        exact ⟨by dsimp only; rw [Nat.add_sub_cancel], rfl⟩
      · injection h with h1 h2
        subst h1; subst h2
        exact ⟨by dsimp only; rw [Nat.add_sub_cancel], rfl⟩

theorem stepR_op (C : Cfg) (src : Array UInt8) (st : St) (s : PSeq) (st' : St) (h : stepR C src st = .seq s st') :
    st'.op = st.op + cost s := by
  unfold stepR at h
  dsimp only at h
  split at h
  · cases h
  · cases hp : st.pending with
    | some m =>
      rw [hp] at h
      dsimp only at h
      obtain ⟨e1, e2⟩ := emitMatchR_op C src st st.ip m (st.op + 1) st.ip 0 s st' h
      have e0 : extLen 0 = 0 := by decide
      unfold cost
      rw [e1, e2, e0]
      omega
    | none =>
      rw [hp] at h
      dsimp only at h
      cases hs : searchR C src (src.size - LZ4V.Gen.MFLIMIT + 1) (src.size + 1) st.ip 1 (C.P.accel <<< LZ4V.Gen.LZ4_skipTrigger) st.tbl with
      | none => rw [hs] at h; cases h
      | some r =>
        obtain ⟨ip, m, tbl⟩ := r
        rw [hs] at h
        dsimp only at h
        split at h
        · cases h
        · obtain ⟨e1, e2⟩ := emitMatchR_op C src _ _ _ _ _ _ s st' h
          unfold cost
          rw [e1, e2]
          omega

theorem stepR_last_op (C : Cfg) (src : Array UInt8) (st st' : St) (h : stepR C src st = .last st') : st'.op = st.op := by
  unfold stepR at h
  dsimp only at h
  by_cases hf : st.fin = true
  · rw [if_pos hf] at h; injection h with h; subst h; rfl
  · rw [if_neg hf] at h
    cases hp : st.pending with
    | some m =>
      rw [hp] at h
      dsimp only at h
      unfold emitMatchR at h
      dsimp only at h
      split at h
      · cases h
      · split at h
        · cases h
        · split at h <;> cases h
    | none =>
      rw [hp] at h
      dsimp only at h
      cases hs : searchR C src (src.size - LZ4V.Gen.MFLIMIT + 1) (src.size + 1) st.ip 1 (C.P.accel <<< LZ4V.Gen.LZ4_skipTrigger) st.tbl with
      | none => rw [hs] at h; injection h with h; subst h; rfl
      | some r =>
        obtain ⟨ip, m, tbl⟩ := r
        rw [hs] at h
        dsimp only at h
        split at h
        · cases h
        · unfold emitMatchR at h
          dsimp only at h
          split at h
          · cases h
          · split at h
            · cases h
            · split at h <;> cases h

theorem runR_op (C : Cfg) (src : Array UInt8) : ∀ (fuel : Nat) (st : St) (acc l : List PSeq) (stf : St),
    (runR C src fuel st acc).1 = some (l, stf) → stf.op + (acc.map cost).sum = st.op + (l.map cost).sum := by
  intro fuel
  induction fuel with
  | zero =>
    intro st acc l stf h
    simp only [runR, Option.some.injEq, Prod.mk.injEq] at h
    obtain ⟨rfl, rfl⟩ := h
    simp [List.sum_reverse]
  | succ f ih =>
    intro st acc l stf h
    unfold runR at h
    cases hs : stepR C src st with
    | fail => rw [hs] at h; cases h
    | last st1 =>
      rw [hs] at h
      simp only [Option.some.injEq, Prod.mk.injEq] at h
      obtain ⟨rfl, rfl⟩ := h
      rw [stepR_last_op C src st st1 hs]
      simp [List.sum_reverse]
    | seq s st1 =>
      rw [hs] at h
      dsimp only at h
      have := ih st1 (s :: acc) l stf h
      rw [stepR_op C src st s st1 hs] at this
      simp only [List.map_cons, List.sum_cons] at this
      omega

end LZ4V.Model.FastR

namespace LZ4V.Model.FastX
open LZ4V.Model.Fast LZ4V.Model.FastR
open LZ4V.Spec.Block

/-- **never beyond the capacity**: a block returned by the compression core fits `cap`, in prefix and in external-dictionary mode -/
theorem core_fits (hashOf : Array UInt8 → Bool → Nat → Nat) (S : XState) (contig : Bool) (addr : Nat) (data : Array UInt8) (acceleration : Int) (cap : Nat)
    (hJ : JX S) (blk : List UInt8) (h : (core hashOf S contig addr data acceleration cap).2 = some blk) : blk.length ≤ cap := by
  have c13 : LZ4V.Gen.LZ4_minLength = 13 := rfl
  unfold core at h
  dsimp only at h
  by_cases h0 : data.size = 0
  · rw [if_pos h0] at h
    dsimp only at h
    split at h
    · cases h
    · simp only [Option.some.injEq] at h; subst h; simp only [List.length_singleton]; omega
  rw [if_neg h0] at h
  by_cases hmax : data.size > LZ4V.Gen.LZ4_MAX_INPUT_SIZE
  · rw [if_pos hmax] at h; cases h
  rw [if_neg hmax] at h
  have hover : ∀ (P : Params) need, P.limit = some cap → over P need = false → need ≤ cap := by
    intro P need hl hn
    unfold over at hn
    rw [hl] at hn
    simpa using hn
  by_cases hmin : data.size < LZ4V.Gen.LZ4_minLength
  · rw [if_pos hmin] at h
    dsimp only at h
    split at h
    · cases h
    · rename_i hov
      simp only [Option.some.injEq] at h
      subst h
      have := hover _ _ rfl (by simpa using hov)
      rw [serialize_length, serLast_length, extLen_eq, Array.length_toList]
      simp only [List.map_nil, List.sum_nil, extLen]
      split <;> omega
  rw [if_neg hmin] at h
  rw [c13] at hmin
  generalize hsplit : (if contig = true then 0 else S.dict.size) = split at h
  generalize hP : ({ hash := hashOf (S.dict ++ data) false, byU16 := false, accel := clampAccel acceleration, limit := some cap } : Params) = P at h
  have hPl : P.limit = some cap := by rw [← hP]
  have hPb : P.byU16 = false := by rw [← hP]
  have hPa : 1 ≤ P.accel := by rw [← hP]; exact clampAccel_pos acceleration
  have hsz : (S.dict ++ data).size = S.dict.size + data.size := Array.size_append
  have ok : CfgOK { P := P, s := S.currentOffset - S.dict.size, small := decide (S.currentOffset - S.dict.size ≠ 0), split := split } (S.dict ++ data) := by
    refine ⟨?_, ?_, ?_, hPa⟩
    · intro h; dsimp only at h; rw [hPb] at h; cases h
    · intro h; dsimp only at h; rw [hPb] at h; cases h
    · intro h; dsimp only at h ⊢; simpa using h
  have hPh : hashOf (S.dict ++ data) false = P.hash := by rw [← hP]
  have hst0 : store false S.currentOffset = S.currentOffset := rfl
  rw [hPh, hst0] at h
  have hinv : InvR { P := P, s := S.currentOffset - S.dict.size, small := decide (S.currentOffset - S.dict.size ≠ 0), split := split } (S.dict ++ data)
      { anchor := S.dict.size, ip := S.dict.size + 1, tbl := S.tbl.setIfInBounds (P.hash S.dict.size) S.currentOffset, op := 0 } := by
    refine ⟨by dsimp only; omega, by dsimp only; omega, ?_⟩
    dsimp only
    have hds := hJ.ds
    exact (show TI S.tbl (S.currentOffset - S.dict.size + (S.dict.size + 1)) from fun i => by have := hJ.tbl i; omega).set _ _ (by omega)
  obtain ⟨_, rl⟩ := runR_spec _ (S.dict ++ data) ok (by omega) ((S.dict ++ data).size + 1) _ [] hinv (by dsimp only; omega) (by dsimp only; omega)
  have hop := runR_op { P := P, s := S.currentOffset - S.dict.size, small := decide (S.currentOffset - S.dict.size ≠ 0), split := split } (S.dict ++ data) ((S.dict ++ data).size + 1)
      { anchor := S.dict.size, ip := S.dict.size + 1, tbl := S.tbl.setIfInBounds (P.hash S.dict.size) S.currentOffset, op := 0 } []
  dsimp only at rl hop
  generalize hrun : runR { P := P, s := S.currentOffset - S.dict.size, small := decide (S.currentOffset - S.dict.size ≠ 0), split := split } (S.dict ++ data) ((S.dict ++ data).size + 1)
      { anchor := S.dict.size, ip := S.dict.size + 1, tbl := S.tbl.setIfInBounds (P.hash S.dict.size) S.currentOffset, op := 0 } [] = r at h rl hop
  obtain ⟨ro, rtbl⟩ := r
  dsimp only at h rl hop
  cases ro with
  | none => cases h
  | some v =>
    obtain ⟨l, stf⟩ := v
    dsimp only at h
    split at h
    · cases h
    · rename_i hov
      simp only [Option.some.injEq] at h
      subst h
      obtain ⟨l', q1, q2, q3, _, _⟩ := rl l stf rfl
      simp only [List.reverse_nil, List.nil_append] at q1
      subst q1
      have hop' := hop l stf rfl
      simp only [List.map_nil, List.sum_nil, Nat.add_zero, Nat.zero_add] at hop'
      have hlastlen : (((S.dict ++ data).extract stf.anchor (S.dict ++ data).size).toList).length = (S.dict ++ data).size - stf.anchor := by
        rw [Array.length_toList, Array.size_extract]; omega
      have := hover P _ hPl (by simpa using hov)
      rw [serialize_length, PV_cost (S.dict ++ data) l S.dict.size stf.anchor q2, serLast_length, extLen_eq, hlastlen]
      rw [hop'] at this
      simp only [extLen]
      split <;> omega

/-- `LZ4_compress_fast_continue` never returns more than `cap` bytes, whatever the state (own dictionary, attached dictionary stream, any placement) -/
theorem compress_fits (hashOf : Array UInt8 → Bool → Nat → Nat) (S : XState) (addr : Nat) (data : Array UInt8) (acceleration : Int) (cap : Nat) (hJ : JX S)
    (hD : ∀ D, S.dctx = some D → DOK D ∧ S.dict.size = 0) (blk : List UInt8) (h : (compress hashOf S addr data acceleration cap).2 = some blk) :
    blk.length ≤ cap := by
  obtain ⟨a1, _⟩ := adjust_spec S addr data.size hJ
  have ad := adjust_dctx S addr data.size
  unfold compress at h
  dsimp only at h
  cases hdc : S.dctx with
  | none =>
    rw [ad, hdc] at h
    have hm : (if (adjust S addr data.size).2 = true then (none : Option DCtx) else none) = none := by split <;> rfl
    rw [hm] at h
    exact core_fits hashOf _ _ addr data acceleration cap a1 blk h
  | some D =>
    obtain ⟨dok, hs0⟩ := hD D hdc
    obtain ⟨g1, _⟩ := adjust_attached S addr data.size D hdc hs0
    rw [ad, hdc, g1] at h
    simp only [Bool.false_eq_true, ↓reduceIte] at h
    by_cases h0 : data.size = 0
    · rw [if_pos h0] at h
      exact core_fits hashOf _ _ addr data acceleration cap a1 blk h
    rw [if_neg h0] at h
    by_cases hbig : data.size > LZ4V.Gen.KB4
    · rw [if_pos hbig] at h
      exact core_fits hashOf _ _ addr data acceleration cap (⟨dok.tbl, dok.ds⟩ : JX { tbl := D.tbl, currentOffset := D.currentOffset, dict := D.dict, dictAddr := D.dictAddr, used := true, dctx := none }) blk h
    rw [if_neg hbig] at h
    by_cases hwrap : (adjust S addr data.size).1.currentOffset < D.currentOffset
    · rw [if_pos hwrap] at h; cases h
    rw [if_neg hwrap] at h
    dsimp only at h
    generalize hT : (adjust S addr data.size).1 = T at a1 hwrap h
    have jm : JX { tbl := mergedTbl T.tbl D.tbl T.currentOffset (T.currentOffset - D.currentOffset), currentOffset := T.currentOffset, dict := D.dict,
                   dictAddr := D.dictAddr, used := T.used, dctx := some D } := by
      refine ⟨mergedTbl_le _ _ _ _ _ a1.tbl (fun i => ?_), ?_⟩
      · have := dok.tbl i; dsimp only; omega
      · have := dok.ds; dsimp only; omega
    exact core_fits hashOf _ _ addr data acceleration cap jm blk h

/-- **for every life of a stream**: every block fits the capacity its call was given -/
theorem run_fits (hashOf : Array UInt8 → Bool → Nat → Nat) : ∀ (ops : List Op) (S : XState) (H : List UInt8), Inv S H →
    ∀ (k addr : Nat) (data : Array UInt8) (acc : Int) (cap : Nat) (blk : List UInt8), ops[k]? = some (Op.compress addr data acc cap) →
      (run hashOf S ops)[k]? = some (Out.block (some blk)) → blk.length ≤ cap := by
  intro ops
  induction ops with
  | nil => intro S H _ k addr data acc cap blk h; simp at h
  | cons op rest ih =>
    intro S H hI k addr data acc cap blk hop hrun
    have s2 := step_spec hashOf S H op hI
    cases k with
    | zero =>
      simp only [List.getElem?_cons_zero, Option.some.injEq] at hop
      subst hop
      have hb : (compress hashOf S addr data acc cap).2 = some blk := by
        unfold run at hrun
        simp only [step] at hrun
        cases hc : (compress hashOf S addr data acc cap).2 with
        | none => rw [hc] at hrun; simp at hrun
        | some b =>
          rw [hc] at hrun
          simp only [List.getElem?_cons_zero, Option.some.injEq, Out.block.injEq] at hrun
          rw [hrun]
      exact compress_fits hashOf S addr data acc cap hI.jx (fun D h => ⟨(hI.dctx D h).1, (hI.dctx D h).2.1⟩) blk hb
    | succ k' =>
      simp only [List.getElem?_cons_succ] at hop
      unfold run at hrun
      cases hst : step hashOf S op with
      | mk S' o =>
        rw [hst] at hrun s2
        dsimp only at s2
        cases o with
        | block b =>
          cases b with
          | none => simp at hrun
          | some b0 =>
            simp only [List.getElem?_cons_succ] at hrun
            exact ih S' (hist H op) (s2 (by simp)) k' addr data acc cap blk hop hrun
        | size n =>
          simp only [List.getElem?_cons_succ] at hrun
          exact ih S' (hist H op) (s2 (by simp)) k' addr data acc cap blk hop hrun
        | unit =>
          simp only [List.getElem?_cons_succ] at hrun
          exact ih S' (hist H op) (s2 (by simp)) k' addr data acc cap blk hop hrun

end LZ4V.Model.FastX
