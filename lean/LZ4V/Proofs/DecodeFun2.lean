import LZ4V.Proofs.DecodeFun1
import LZ4V.Proofs.BlockStep
/-!
# What the decoder model computes, part 2: the simulation relation and the length fields

* `Sim P V x` : the outcome `x` of a piece of the model, read in both directions at once — if it succeeds the result satisfies `P`
  (used for "success ⇒ the output is what the specification defines"), and it ends in a clean error only if `V` fails
  (used for "a valid block is never rejected"); faults and fuel are excluded separately by the safety theorems.
* `vw`, `Rel` : the specification's running output `out` (history ++ decoded so far) is what the decoder can see:
  the external dictionary followed by `buf[lowPrefix, op)`.
-/
namespace LZ4V.Model

def Sim {α} (P : α → Prop) (V : Prop) : Except Err α → Prop
  | .ok a => P a
  | .error (.bad _) => ¬ V
  | .error _ => True

theorem Sim.bind {α β} {P : α → Prop} {Q : β → Prop} {V : Prop} {x : Except Err α} {f : α → Except Err β}
    (hx : Sim P V x) (hf : ∀ a, x = .ok a → P a → Sim Q V (f a)) : Sim Q V (x >>= f) := by
  match x, hx, hf with
  | .ok a, hx, hf => exact hf a rfl hx
  | .error (.bad _), hx, _ => exact hx
  | .error (.fault f), _, _ => trivial
  | .error .fuel, _, _ => trivial

theorem Sim.mono {α} {P Q : α → Prop} {V W : Prop} {x : Except Err α} (hx : Sim P V x) (h : ∀ a, x = .ok a → P a → Q a) (hv : W → V) : Sim Q W x := by
  match x, hx, h with
  | .ok a, hx, h => exact h a rfl hx
  | .error (.bad _), hx, _ => exact fun w => hx (hv w)
  | .error (.fault f), _, _ => trivial
  | .error .fuel, _, _ => trivial

/-- a step that cannot end in a clean error -/
theorem Sim.of_ok {α} {P : α → Prop} {V : Prop} {x : Except Err α} (hnb : ∀ ip, x ≠ .error (.bad ip)) (h : ∀ a, x = .ok a → P a) : Sim P V x := by
  match x, hnb, h with
  | .ok a, _, h => exact h a rfl
  | .error (.bad ip), hnb, _ => exact absurd rfl (hnb ip)
  | .error (.fault f), _, _ => trivial
  | .error .fuel, _, _ => trivial

theorem Sim.ok {α} {P : α → Prop} {V : Prop} {a : α} (h : P a) : Sim P V (Except.ok a : Except Err α) := h
theorem Sim.pure {α} {P : α → Prop} {V : Prop} {a : α} (h : P a) : Sim P V (Pure.pure a : Except Err α) := h
theorem Sim.bad {α} {P : α → Prop} {V : Prop} {ip : Nat} (h : ¬ V) : Sim P V (Except.error (Err.bad ip) : Except Err α) := h
theorem Sim.fault {α} {P : α → Prop} {V : Prop} {f : Fault} : Sim P V (Except.error (Err.fault f) : Except Err α) := trivial

/-! ## the primitives never end in a clean error -/

theorem copyIn_nb (src : Bytes) (rf : Fault) : ∀ (n : Nat) (dst : Bytes) (d s ip : Nat), copyIn dst d src s rf n ≠ .error (.bad ip) := by
  intro n
  induction n with
  | zero => intro dst d s ip h; cases h
  | succ n ih =>
    intro dst d s ip h
    unfold copyIn at h
    split at h
    · split at h
      · exact ih _ _ _ _ h
      · cases h
    · cases h

theorem fwd_nb : ∀ (n : Nat) (a : Bytes) (d s ip : Nat), fwd a d s n ≠ .error (.bad ip) := by
  intro n
  induction n with
  | zero => intro a d s ip h; cases h
  | succ n ih =>
    intro a d s ip h
    unfold fwd at h
    split at h
    · split at h
      · exact ih _ _ _ _ h
      · cases h
    · cases h

theorem memcpyB_nb (a : Bytes) (d s n ip : Nat) : memcpyB a d s n ≠ .error (.bad ip) := by
  unfold memcpyB
  split
  · intro h; cases h
  · split
    · intro h; cases h
    · exact fwd_nb _ _ _ _ _

theorem wildCopy8B_nb (a : Bytes) (d s e ip : Nat) : wildCopy8B a d s e ≠ .error (.bad ip) := by
  unfold wildCopy8B
  split
  · intro h; cases h
  · exact fwd_nb _ _ _ _ _

theorem wildCopy32B_nb (a : Bytes) (d s e ip : Nat) : wildCopy32B a d s e ≠ .error (.bad ip) := by
  unfold wildCopy32B
  split
  · intro h; cases h
  · exact fwd_nb _ _ _ _ _

theorem zero4_nb (a : Bytes) (d ip : Nat) : zero4 a d ≠ .error (.bad ip) := by
  unfold zero4; split <;> (intro h; cases h)

theorem rd8_nb (src : Bytes) (i ip : Nat) : rd8 src i ≠ .error (.bad ip) := by
  unfold rd8; split <;> (intro h; cases h)

theorem rd16_nb (src : Bytes) (i ip : Nat) : rd16 src i ≠ .error (.bad ip) := by
  unfold rd16; split <;> (intro h; cases h)

theorem rd8_spec {src : Bytes} {i v : Nat} (h : rd8 src i = .ok v) : ∃ hi : i < src.size, v = src[i].toNat := by
  unfold rd8 at h
  split at h
  · rename_i hi; simp only [Except.ok.injEq] at h; exact ⟨hi, h.symm⟩
  · cases h

theorem rd16_spec {src : Bytes} {i v : Nat} (h : rd16 src i = .ok v) : ∃ hi : i + 1 < src.size, v = src[i].toNat + 256 * src[i+1].toNat := by
  unfold rd16 at h
  split at h
  · rename_i hi; simp only [Except.ok.injEq] at h; exact ⟨hi, h.symm⟩
  · cases h

/-- the input that remains at position `ip` -/
def rem (src : Bytes) (ip : Nat) : List UInt8 := src.toList.drop ip

theorem rem_cons (src : Bytes) (ip : Nat) (h : ip < src.size) : rem src ip = src[ip] :: rem src (ip + 1) := by
  unfold rem
  rw [List.drop_eq_getElem_cons (by simpa using h)]
  simp

theorem rem_length (src : Bytes) (ip : Nat) : (rem src ip).length = src.size - ip := by
  unfold rem; simp

theorem rem_drop (src : Bytes) (ip n : Nat) : (rem src ip).drop n = rem src (ip + n) := by
  unfold rem; rw [List.drop_drop]

theorem rem_take_get (src : Bytes) (ip n i : Nat) (hi : i < n) : ((rem src ip).take n)[i]? = src[ip + i]? := by
  unfold rem
  rw [List.getElem?_take_of_lt hi, List.getElem?_drop]
  simp

end LZ4V.Model

namespace LZ4V.Model.Decode
open LZ4V.Model LZ4V.Gen LZ4V.Spec.Block

/-! ## the data the decoder can reference, as the specification sees it -/

/-- byte `k` of "external dictionary ++ buf[lowPrefix ..]" -/
def vw (env : Env) (b : Bytes) (k : Nat) : Option UInt8 :=
  if k < env.ext.size then env.ext[k]? else b[env.low.toNat + (k - env.ext.size)]?

/-- `out` (the specification's history ++ output so far) is the external dictionary followed by `buf[lowPrefix, op)` -/
structure Rel (env : Env) (b : Bytes) (op : Nat) (out : List UInt8) : Prop where
  len : out.length = env.ext.size + (op - env.low.toNat)
  get : ∀ k, k < out.length → out[k]? = vw env b k

theorem vw_congr (env : Env) (a b : Bytes) (op k : Nat) (hlow : ∀ j, j < op → b[j]? = a[j]?)
    (hk : k < env.ext.size + (op - env.low.toNat)) : vw env b k = vw env a k := by
  unfold vw
  split
  · rfl
  · exact hlow _ (by omega)

/-- literals: `n` bytes of input appended at `op` -/
theorem Rel.lits {env : Env} {a b : Bytes} {op : Nat} {out : List UInt8} (h : Rel env a op out) (hL : env.low.toNat ≤ op)
    (hlow : ∀ j, j < op → b[j]? = a[j]?) (lits : List UInt8) (hl : ∀ i, i < lits.length → b[op + i]? = lits[i]?) :
    Rel env b (op + lits.length) (out ++ lits) := by
  refine ⟨by rw [List.length_append, h.len]; omega, ?_⟩
  intro k hk
  rw [List.length_append] at hk
  by_cases hko : k < out.length
  · rw [List.getElem?_append_left hko, h.get k hko, vw_congr env a b op k hlow (by rw [← h.len]; exact hko)]
  · rw [List.getElem?_append_right (by omega)]
    have hlen := h.len
    unfold vw
    rw [if_neg (by omega), ← hl _ (by omega)]
    congr 1
    omega

/-- a match: the `n` bytes laid down at `op` continue the visible data with period `off` -/
theorem Rel.copy {env : Env} {a b : Bytes} {op : Nat} {out : List UInt8} (h : Rel env a op out) (hL : env.low.toNat ≤ op)
    (hlow : ∀ j, j < op → b[j]? = a[j]?) (off n : Nat) (h1 : 1 ≤ off) (h2 : off ≤ out.length) (hsz : op + n ≤ b.size)
    (hper : ∀ i, i < n → vw env b (out.length + i) = vw env b (out.length + i - off)) :
    ∃ out2, copyMatch out off n = some out2 ∧ Rel env b (op + n) out2 ∧ out2.length = out.length + n := by
  let m : List UInt8 := (b.extract op (op + n)).toList
  have hmlen : m.length = n := by simp [m]; omega
  have hmget : ∀ i, i < n → m[i]? = b[op + i]? := by
    intro i hi
    simp only [m, Array.getElem?_toList]
    rw [Array.getElem?_extract]
    rw [if_pos (by omega)]
  have hrel : Rel env b (op + n) (out ++ m) := by
    have := h.lits hL hlow m (by intro i hi; rw [hmget i (by omega)])
    rwa [hmlen] at this
  refine ⟨out ++ m, ?_, hrel, by rw [List.length_append, hmlen]⟩
  rw [← hmlen]
  apply copyMatch_of_periodic m out off h1 h2
  intro k hk
  rw [hmlen] at hk
  have e1 := hrel.get (out.length + k) (by rw [List.length_append, hmlen]; omega)
  have e2 := hrel.get (out.length + k - off) (by rw [List.length_append, hmlen]; omega)
  rw [e1, e2]
  exact hper k hk

/-- in-buffer matches: buffer periodicity is periodicity of the visible data -/
theorem vw_per_of_Per (env : Env) (b : Bytes) (op off n outLen : Nat) (hL : env.low.toNat ≤ op)
    (hlen : outLen = env.ext.size + (op - env.low.toNat)) (hm : env.low.toNat + off ≤ op) (hper : Per b off op (op + n)) :
    ∀ i, i < n → vw env b (outLen + i) = vw env b (outLen + i - off) := by
  intro i hi
  unfold vw
  rw [if_neg (by omega), if_neg (by omega)]
  have := hper (op + i) (by omega) (by omega)
  rw [show env.low.toNat + (outLen + i - env.ext.size) = op + i by omega,
      show env.low.toNat + (outLen + i - off - env.ext.size) = op + i - off by omega]
  exact this

end LZ4V.Model.Decode
