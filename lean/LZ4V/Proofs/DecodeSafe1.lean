import LZ4V.Model.Decode
import LZ4V.Proofs.MemLemmas
/-!
# Memory safety of the decoder model, part 1: length fields, table facts, small copies
-/
namespace LZ4V.Model.Decode
open LZ4V.Model LZ4V.Gen

/-! ## facts about the regenerated constants (proofs break if the source changes them incompatibly) -/
theorem c_RUN_MASK : RUN_MASK = 15 := rfl
theorem c_ML_MASK : ML_MASK = 15 := rfl
theorem c_MINMATCH : MINMATCH = 4 := rfl
theorem c_LASTLITERALS : LASTLITERALS = 5 := rfl
theorem c_MFLIMIT : MFLIMIT = 12 := rfl
theorem c_WILDCOPYLENGTH : WILDCOPYLENGTH = 8 := rfl
theorem c_MSD : MATCH_SAFEGUARD_DISTANCE = 12 := rfl
theorem c_FSD : FASTLOOP_SAFE_DISTANCE = 64 := rfl

/-- `inc32table[offset] ≤ offset` : the 4-byte `memcpy(op+4, match+inc, 4)` never overlaps its destination -/
theorem inc_le (offset : Nat) (h : offset < 8) : (inc32table.getD offset 0).toNat ≤ offset := by
  have : offset = 0 ∨ offset = 1 ∨ offset = 2 ∨ offset = 3 ∨ offset = 4 ∨ offset = 5 ∨ offset = 6 ∨ offset = 7 := by omega
  rcases this with rfl | rfl | rfl | rfl | rfl | rfl | rfl | rfl <;> decide

/-- after the first 8 bytes the copy distance is at least 8 (so 8-byte `memcpy`s are legal) and at most `offset + 8` -/
theorem smallDist_bounds (offset : Nat) (h : offset < 8) : 8 ≤ smallDist offset ∧ smallDist offset ≤ offset + 8 := by
  have : offset = 0 ∨ offset = 1 ∨ offset = 2 ∨ offset = 3 ∨ offset = 4 ∨ offset = 5 ∨ offset = 6 ∨ offset = 7 := by omega
  rcases this with rfl | rfl | rfl | rfl | rfl | rfl | rfl | rfl <;> decide

/-! ## read_variable_length -/

def RvlGood (ip : Nat) (ilimit : Int) (r : Except Err (Nat × Nat)) : Prop :=
  match r with
  | .ok (_, ip') => ip < ip' ∧ (ip' : Int) ≤ ilimit
  | .error (.bad _) => True
  | .error _ => False

theorem readVarLen_good (src : Bytes) (ilimit : Int) (hlim : ilimit < src.size) :
    ∀ (fuel ip : Nat) (initial : Bool), src.size - ip < fuel → (initial = true ∨ ip < src.size) →
      RvlGood ip ilimit (readVarLen src ip ilimit initial fuel) := by
  intro fuel
  induction fuel with
  | zero => intro ip initial hf; omega
  | succ fuel ih =>
    intro ip initial hf hin
    unfold readVarLen
    split
    · simp [RvlGood]
    · rename_i hnot
      have hip : ip < src.size := by
        rcases hin with h | h
        · subst h
          simp at hnot
          omega
        · exact h
      simp only [hip, dite_true]
      split
      · simp [RvlGood]
      · rename_i hle
        split
        · simp only [RvlGood]; omega
        · have := ih (ip+1) false (by omega) (Or.inr (by omega))
          revert this
          generalize readVarLen src (ip+1) ilimit false fuel = r
          intro hr
          match r, hr with
          | .ok (l, ip''), hr => simp only [RvlGood] at hr ⊢; omega
          | .error (.bad _), _ => simp [RvlGood]
          | .error (.fault f), hr => simp [RvlGood] at hr
          | .error .fuel, hr => simp [RvlGood] at hr

theorem litLen_good (src : Bytes) (ip token : Nat) (hip : ip ≤ src.size) :
    Good (fun r => ip ≤ r.2 ∧ r.2 ≤ src.size ∧ (token / 16 ≠ RUN_MASK → r = (token / 16, ip)) ∧
                   (token / 16 = RUN_MASK → r.2 + RUN_MASK ≤ src.size ∧ RUN_MASK ≤ r.1))
      (litLen src ip token) := by
  unfold litLen
  split
  · rename_i ht
    have := readVarLen_good src ((src.size : Int) - RUN_MASK) (by simp [c_RUN_MASK]; omega) (src.size + 1) ip true (by omega) (Or.inl rfl)
    revert this
    generalize readVarLen src ip _ true _ = r
    intro hr
    match r, hr with
    | .ok (l, ip'), hr =>
      simp only [RvlGood] at hr; simp only [Good]
      refine ⟨by omega, by omega, fun h => absurd ht h, fun _ => ⟨by omega, by omega⟩⟩
    | .error (.bad _), _ => simp [Good]
    | .error (.fault f), hr => simp [RvlGood] at hr
    | .error .fuel, hr => simp [RvlGood] at hr
  · rename_i h
    simp only [Good]
    exact ⟨Nat.le_refl _, hip, fun _ => trivial, fun h' => absurd h' h⟩

theorem matchLen_good (src : Bytes) (ip token : Nat) (hip : ip < src.size) :
    Good (fun r => ip ≤ r.2 ∧ r.2 < src.size ∧ MINMATCH ≤ r.1 ∧ (token % 16 ≠ ML_MASK → r = (token % 16 + MINMATCH, ip)))
      (matchLen src ip token) := by
  unfold matchLen
  split
  · rename_i ht
    have := readVarLen_good src ((src.size : Int) - LASTLITERALS + 1) (by simp [c_LASTLITERALS]; omega) (src.size + 1) ip false (by omega) (Or.inr hip)
    revert this
    generalize readVarLen src ip _ false _ = r
    intro hr
    match r, hr with
    | .ok (l, ip'), hr =>
      simp only [RvlGood] at hr; simp only [Good]
      have := c_LASTLITERALS
      refine ⟨by omega, by omega, by omega, fun h => absurd ht h⟩
    | .error (.bad _), _ => simp [Good]
    | .error (.fault f), hr => simp [RvlGood] at hr
    | .error .fuel, hr => simp [RvlGood] at hr
  · simp only [Good]
    exact ⟨Nat.le_refl _, hip, by omega, fun _ => trivial⟩

/-! ## small copies -/

theorem copy18_good (buf : Bytes) (op m : Nat) (hm : m + 8 ≤ op) (hop : op + 18 ≤ buf.size) :
    Good (fun b => b.size = buf.size) (copy18 buf op m) := by
  unfold copy18
  apply Good.bind (memcpyB_good buf op m 8 (by omega) (by omega) (Or.inl (by omega)))
  intro b1 h1
  apply Good.bind (memcpyB_good b1 (op+8) (m+8) 8 (by omega) (by omega) (Or.inl (by omega)))
  intro b2 h2
  exact (memcpyB_good b2 (op+16) (m+16) 2 (by omega) (by omega) (Or.inl (by omega))).mono (by intro b hb; omega)

theorem smallOffsetHead_good (buf : Bytes) (op m offset : Nat) (ho : offset < 8) (hm : m + offset = op) (hop : op + 8 ≤ buf.size) :
    Good (fun b => b.size = buf.size) (smallOffsetHead buf op m offset) := by
  unfold smallOffsetHead
  have hinc := inc_le offset ho
  apply Good.bind (zero4_good buf op (by omega))
  intro b1 h1
  apply Good.bind (fwd_good_below b1 op m 4 (by omega) (by omega))
  intro b2 h2
  exact (memcpyB_good b2 (op+4) (m + (inc32table.getD offset 0).toNat) 4 (by omega) (by omega) (Or.inl (by omega))).mono (by intro b hb; omega)

end LZ4V.Model.Decode
