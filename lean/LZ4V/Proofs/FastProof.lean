import LZ4V.Model.Fast
import LZ4V.Proofs.BlockHub
/-!
# The fast compressor model emits a valid parse of its input, for every hash function

`PV` : positional validity of a list of emitted sequences (literals where they should be, every match byte-verified against
an earlier position at a legal distance).  `step` preserves the invariant `Inv` (table entries lie strictly before the next
lookup position; a pending match is verified) and every sequence it emits is valid; `run` therefore produces a `PV` list,
which is a `Spec.Block.ValidParse`, hence (BlockHub.roundtrip) the specification decoder maps the block back to the input.
-/
namespace LZ4V.Model.Fast
open LZ4V.Spec.Block

/-! ## bytes -/

theorem toList_getElem? (src : Array UInt8) (i : Nat) (h : i < src.size) : src.toList[i]? = some (byteAt src i) := by
  unfold byteAt
  rw [Array.getElem?_toList, Array.getD_eq_getD_getElem?]
  have : src[i]? = some src[i] := Array.getElem?_eq_getElem h
  rw [this]; rfl

def Seg (src : Array UInt8) (a : Nat) (s : PSeq) : Prop :=
  s.lit = a ∧ 1 ≤ s.off ∧ s.off ≤ a + s.ll ∧ a + s.ll + s.ml ≤ src.size ∧
  (∀ k, k < s.ml → byteAt src (a + s.ll + k) = byteAt src (a + s.ll + k - s.off))

/-- positional validity: the sequences tile `[a, a')` -/
def PV (src : Array UInt8) : Nat → List PSeq → Nat → Prop
  | a, [], a' => a = a'
  | a, s :: rest, a' => Seg src a s ∧ PV src (a + s.ll + s.ml) rest a'

theorem toSeq_lits (src : Array UInt8) (s : PSeq) : (toSeq src s).lits = (src.toList.drop s.lit).take s.ll := by
  unfold toSeq
  simp only [Array.toList_extract, List.extract]
  congr 1
  omega

theorem PV_valid (src : Array UInt8) : ∀ (l : List PSeq) (a a' : Nat), PV src a l a' → a ≤ src.size → a' ≤ src.size →
    ValidParse (src.toList.take a) (l.map (toSeq src)) (src.toList.drop a') src.toList := by
  intro l
  induction l with
  | nil =>
    intro a a' h _ _
    simp only [PV] at h
    subst h
    simp only [List.map_nil, ValidParse]
    exact (List.take_append_drop a src.toList).symm
  | cons s rest ih =>
    intro a a' h ha ha'
    obtain ⟨⟨hl, ho1, ho2, hn, hb⟩, hrest⟩ := h
    simp only [List.map_cons, ValidParse]
    have hlen : src.toList.length = src.size := Array.length_toList
    have hout : src.toList.take a ++ (toSeq src s).lits = src.toList.take (a + s.ll) := by
      rw [toSeq_lits, hl, List.take_add]
    have hoff : (toSeq src s).off = s.off := rfl
    have hml : (toSeq src s).ml = s.ml := rfl
    refine ⟨(src.toList.drop (a + s.ll)).take s.ml, ?_, ?_, ?_, ?_, ?_⟩
    · rw [List.length_take, List.length_drop, hml, hlen]; omega
    · rw [hoff]; exact ho1
    · rw [hout, hoff, List.length_take, hlen]; omega
    · intro k hk
      have hk' : k < s.ml := by
        rw [List.length_take, List.length_drop, hlen] at hk; omega
      rw [hout, ← List.take_add, List.length_take, hlen, hoff]
      have e1 : min (a + s.ll) src.size = a + s.ll := by omega
      rw [e1, List.getElem?_take_of_lt (by omega), List.getElem?_take_of_lt (by omega),
          toList_getElem? src _ (by omega), toList_getElem? src _ (by omega), hb k hk']
    · rw [hout, ← List.take_add]
      exact ih _ _ hrest (by omega) ha'

/-! ## the hash table: every entry is a position strictly before the next lookup -/

def TI (tbl : Array Nat) (p : Nat) : Prop := ∀ i, tbl.getD i 0 < p

theorem TI.mono {tbl : Array Nat} {p q : Nat} (h : TI tbl p) (hpq : p ≤ q) : TI tbl q := fun i => Nat.lt_of_lt_of_le (h i) hpq

theorem TI.set {tbl : Array Nat} {p : Nat} (h : TI tbl p) (k v : Nat) (hv : v < p) : TI (tbl.setIfInBounds k v) p := by
  intro i
  rw [Array.getD_eq_getD_getElem?, Array.getElem?_setIfInBounds]
  have hi := h i
  rw [Array.getD_eq_getD_getElem?] at hi
  by_cases hki : k = i
  · rw [if_pos hki]
    by_cases hk : k < tbl.size
    · rw [if_pos hk]; exact hv
    · rw [if_neg hk]; simp only [Option.getD_none]; omega
  · rw [if_neg hki]; exact hi

theorem TI.replicate (k : Nat) : TI (Array.replicate k 0) 1 := by
  intro i
  rw [Array.getD_eq_getD_getElem?, Array.getElem?_replicate]
  split <;> simp

/-! ## byte equality -/

theorem eq4_spec (src : Array UInt8) (i j : Nat) (h : eq4 src i j = true) : ∀ k, k < 4 → byteAt src (i + k) = byteAt src (j + k) := by
  unfold eq4 at h
  simp only [Bool.and_eq_true, beq_iff_eq] at h
  obtain ⟨⟨⟨h0, h1⟩, h2⟩, h3⟩ := h
  intro k hk
  have : k = 0 ∨ k = 1 ∨ k = 2 ∨ k = 3 := by omega
  rcases this with rfl | rfl | rfl | rfl
  · exact h0
  · exact h1
  · exact h2
  · exact h3

theorem count_spec (src : Array UInt8) (limit : Nat) : ∀ (fuel a m : Nat),
    (∀ j, j < count src limit fuel a m → byteAt src (a + j) = byteAt src (m + j)) ∧
    (0 < count src limit fuel a m → a + count src limit fuel a m ≤ limit) := by
  intro fuel
  induction fuel with
  | zero => intro a m; simp [count]
  | succ f ih =>
    intro a m
    unfold count
    by_cases hc : a < limit ∧ byteAt src a = byteAt src m
    · rw [if_pos hc]
      obtain ⟨i1, i2⟩ := ih (a + 1) (m + 1)
      constructor
      · intro j hj
        cases j with
        | zero => exact hc.2
        | succ j' =>
          have := i1 j' (by omega)
          have e1 : a + (j' + 1) = a + 1 + j' := by omega
          have e2 : m + (j' + 1) = m + 1 + j' := by omega
          rw [e1, e2]; exact this
      · intro _
        by_cases h0 : 0 < count src limit f (a + 1) (m + 1)
        · have := i2 h0; omega
        · have : count src limit f (a + 1) (m + 1) = 0 := by omega
          rw [this]; omega
    · rw [if_neg hc]
      exact ⟨fun j hj => absurd hj (by omega), fun h => absurd h (by omega)⟩

theorem count_ge (src : Array UInt8) (limit : Nat) : ∀ (d fuel a m : Nat), d ≤ fuel → a + d ≤ limit →
    (∀ j, j < d → byteAt src (a + j) = byteAt src (m + j)) → d ≤ count src limit fuel a m := by
  intro d
  induction d with
  | zero => intro fuel a m _ _ _; omega
  | succ d' ih =>
    intro fuel a m hf hl he
    cases fuel with
    | zero => omega
    | succ f =>
      unfold count
      have h0 := he 0 (by omega)
      simp only [Nat.add_zero] at h0
      rw [if_pos ⟨by omega, h0⟩]
      have := ih f (a + 1) (m + 1) (by omega) (by omega) (by
        intro j hj
        have := he (j + 1) (by omega)
        have e1 : a + (j + 1) = a + 1 + j := by omega
        have e2 : m + (j + 1) = m + 1 + j := by omega
        rw [e1, e2] at this; exact this)
      omega

/-- catch-up: moves both positions back by the same amount `d`, keeps `anchor ≤ ip'`, extends the verified region -/
theorem catchUp_spec (src : Array UInt8) (anchor : Nat) : ∀ (fuel ip m len : Nat), anchor ≤ ip → m < ip →
    (∀ j, j < len → byteAt src (ip + j) = byteAt src (m + j)) →
    ∃ d, (catchUp src anchor fuel ip m).1 + d = ip ∧ (catchUp src anchor fuel ip m).2 + d = m ∧ anchor ≤ (catchUp src anchor fuel ip m).1 ∧
      (∀ j, j < len + d → byteAt src ((catchUp src anchor fuel ip m).1 + j) = byteAt src ((catchUp src anchor fuel ip m).2 + j)) := by
  intro fuel
  induction fuel with
  | zero => intro ip m len ha hm he; exact ⟨0, rfl, rfl, ha, by simpa [catchUp] using he⟩
  | succ f ih =>
    intro ip m len ha hm he
    unfold catchUp
    by_cases hc : ip > anchor ∧ m > 0 ∧ byteAt src (ip - 1) = byteAt src (m - 1)
    · rw [if_pos hc]
      have he' : ∀ j, j < len + 1 → byteAt src (ip - 1 + j) = byteAt src (m - 1 + j) := by
        intro j hj
        cases j with
        | zero => exact hc.2.2
        | succ j' =>
          have := he j' (by omega)
          have e1 : ip - 1 + (j' + 1) = ip + j' := by omega
          have e2 : m - 1 + (j' + 1) = m + j' := by omega
          rw [e1, e2]; exact this
      obtain ⟨d, d1, d2, d3, d4⟩ := ih (ip - 1) (m - 1) (len + 1) (by omega) (by omega) he'
      refine ⟨d + 1, by omega, by omega, d3, ?_⟩
      intro j hj
      exact d4 j (by omega)
    · rw [if_neg hc]
      exact ⟨0, rfl, rfl, ha, by simpa using he⟩

theorem catchUpL_spec (src : Array UInt8) (anchor low : Nat) : ∀ (fuel ip m len : Nat), anchor ≤ ip → m < ip →
    (∀ j, j < len → byteAt src (ip + j) = byteAt src (m + j)) →
    ∃ d, (catchUpL src anchor low fuel ip m).1 + d = ip ∧ (catchUpL src anchor low fuel ip m).2 + d = m ∧ anchor ≤ (catchUpL src anchor low fuel ip m).1 ∧
      (∀ j, j < len + d → byteAt src ((catchUpL src anchor low fuel ip m).1 + j) = byteAt src ((catchUpL src anchor low fuel ip m).2 + j)) := by
  intro fuel
  induction fuel with
  | zero => intro ip m len ha hm he; exact ⟨0, rfl, rfl, ha, by simpa [catchUpL] using he⟩
  | succ f ih =>
    intro ip m len ha hm he
    unfold catchUpL
    by_cases hc : ip > anchor ∧ m > low ∧ byteAt src (ip - 1) = byteAt src (m - 1)
    · rw [if_pos hc]
      have he' : ∀ j, j < len + 1 → byteAt src (ip - 1 + j) = byteAt src (m - 1 + j) := by
        intro j hj
        cases j with
        | zero => exact hc.2.2
        | succ j' =>
          have := he j' (by omega)
          have e1 : ip - 1 + (j' + 1) = ip + j' := by omega
          have e2 : m - 1 + (j' + 1) = m + j' := by omega
          rw [e1, e2]; exact this
      obtain ⟨d, d1, d2, d3, d4⟩ := ih (ip - 1) (m - 1) (len + 1) (by omega) (by omega) he'
      refine ⟨d + 1, by omega, by omega, d3, ?_⟩
      intro j hj
      exact d4 j (by omega)
    · rw [if_neg hc]
      exact ⟨0, rfl, rfl, ha, by simpa using he⟩

/-! ## the search loop -/

theorem shift6 (nb : Nat) (h : 64 ≤ nb) : 1 ≤ nb >>> LZ4V.Gen.LZ4_skipTrigger := by
  have : LZ4V.Gen.LZ4_skipTrigger = 6 := rfl
  rw [this, Nat.shiftRight_eq_div_pow]
  have : (2 : Nat) ^ 6 = 64 := by decide
  rw [this]
  omega

theorem search_spec (P : Params) (src : Array UInt8) (mfl1 : Nat) : ∀ (fuel fip step nb : Nat) (tbl : Array Nat) (ip m : Nat) (tbl' : Array Nat),
    search P src mfl1 fuel fip step nb tbl = some (ip, m, tbl') → TI tbl fip → 1 ≤ step → 64 ≤ nb →
    fip ≤ ip ∧ ip < mfl1 ∧ m < ip ∧ (P.byU16 = false → ip - m ≤ 65535) ∧ eq4 src m ip = true ∧ TI tbl' (ip + 1) := by
  intro fuel
  induction fuel with
  | zero => intro fip step nb tbl ip m tbl' h; simp [search] at h
  | succ f ih =>
    intro fip step nb tbl ip m tbl' h hti hstep hnb
    unfold search at h
    dsimp only at h
    by_cases hend : fip + step > mfl1
    · rw [if_pos hend] at h; cases h
    · rw [if_neg hend] at h
      have hti' : TI (tbl.setIfInBounds (P.hash fip) fip) (fip + step) := (hti.mono (by omega)).set _ _ (by omega)
      have hrec : ∀ ip m tbl', search P src mfl1 f (fip + step) (nb >>> LZ4V.Gen.LZ4_skipTrigger) (nb + 1) (tbl.setIfInBounds (P.hash fip) fip) = some (ip, m, tbl') →
          fip ≤ ip ∧ ip < mfl1 ∧ m < ip ∧ (P.byU16 = false → ip - m ≤ 65535) ∧ eq4 src m ip = true ∧ TI tbl' (ip + 1) := by
        intro ip m tbl' hs
        obtain ⟨r1, r2⟩ := ih _ _ _ _ ip m tbl' hs hti' (shift6 nb hnb) (by omega)
        exact ⟨by omega, r2⟩
      by_cases hfar : (!P.byU16 && decide (tbl.getD (P.hash fip) 0 + LZ4V.Gen.LZ4_DISTANCE_MAX < fip)) = true
      · rw [if_pos hfar] at h
        exact hrec ip m tbl' h
      · rw [if_neg hfar] at h
        by_cases he : eq4 src (tbl.getD (P.hash fip) 0) fip = true
        · rw [if_pos he] at h
          simp only [Option.some.injEq, Prod.mk.injEq] at h
          obtain ⟨h1, h2, h3⟩ := h
          subst h1; subst h2; subst h3
          refine ⟨Nat.le_refl _, by omega, hti _, ?_, he, (hti.mono (by omega)).set _ _ (by omega)⟩
          intro hb
          have hd : LZ4V.Gen.LZ4_DISTANCE_MAX = 65535 := rfl
          rw [hb, hd] at hfar
          simp only [Bool.not_false, Bool.true_and, decide_eq_true_eq] at hfar
          omega
        · rw [if_neg he] at h
          exact hrec ip m tbl' h

/-! ## the state invariant and one step -/

def Inv (src : Array UInt8) (st : St) : Prop :=
  st.anchor ≤ st.ip ∧ st.anchor ≤ src.size ∧
  match st.pending with
  | none => TI st.tbl st.ip
  | some m => TI st.tbl (st.ip + 1) ∧ m < st.ip ∧ st.ip - m ≤ 65535 ∧ eq4 src m st.ip = true ∧ st.ip + 12 ≤ src.size ∧ st.anchor = st.ip

/-- what an emitted sequence and the state after it satisfy -/
def Emitted (src : Array UInt8) (a : Nat) (s : PSeq) (st' : St) : Prop :=
  Seg src a s ∧ 4 ≤ s.ml ∧ s.off ≤ 65535 ∧ st'.anchor = a + s.ll + s.ml ∧ Inv src st' ∧ st'.anchor + 5 ≤ src.size ∧ a + s.ll + 12 ≤ src.size

theorem emitMatch_spec (P : Params) (src : Array UInt8) (hb : P.byU16 = true → src.size < 65547) (st : St) (ip m op a ll : Nat)
    (s : PSeq) (st' : St) (h : emitMatch P src st ip m op a ll = .seq s st')
    (hlit : a + ll = ip) (hm : m < ip) (hd : P.byU16 = false → ip - m ≤ 65535) (x : Nat)
    (he : ∀ k, k < 4 + x → byteAt src (ip + k) = byteAt src (m + k)) (hip : ip + x + 12 ≤ src.size) (hti : TI st.tbl (ip + x + 1)) :
    Emitted src a s st' := by
  have c1 : LZ4V.Gen.MFLIMIT = 12 := rfl
  have c2 : LZ4V.Gen.LASTLITERALS = 5 := rfl
  have c3 : LZ4V.Gen.MINMATCH = 4 := rfl
  have c4 : LZ4V.Gen.LZ4_DISTANCE_MAX = 65535 := rfl
  unfold emitMatch at h
  simp only [c1, c2, c3, c4] at h
  obtain ⟨cb, cl⟩ := count_spec src (src.size - 5) src.size (ip + 4) (m + 4)
  have hx : x ≤ count src (src.size - 5) src.size (ip + 4) (m + 4) := count_ge src (src.size - 5) x src.size (ip + 4) (m + 4) (by omega) (by omega) (by
    intro j hj
    have := he (4 + j) (by omega)
    have e1 : ip + (4 + j) = ip + 4 + j := by omega
    have e2 : m + (4 + j) = m + 4 + j := by omega
    rw [e1, e2] at this; exact this)
  generalize hmc : count src (src.size - 5) src.size (ip + 4) (m + 4) = mc at h cb cl hx
  have hend : ip + mc + 4 + 5 ≤ src.size := by
    by_cases h0 : 0 < mc
    · have := cl h0; omega
    · omega
  -- the sequence
  have hseg : Seg src a ⟨a, ll, ip - m, mc + 4⟩ := by
    refine ⟨rfl, by dsimp only; omega, by dsimp only; omega, by dsimp only; omega, ?_⟩
    intro k hk
    dsimp only at hk ⊢
    have e : a + ll + k - (ip - m) = m + k := by omega
    rw [e, hlit]
    by_cases hk4 : k < 4
    · exact he k (by omega)
    · have := cb (k - 4) (by omega)
      have e1 : ip + 4 + (k - 4) = ip + k := by omega
      have e2 : m + 4 + (k - 4) = m + k := by omega
      rw [e1, e2] at this
      exact this
  have hoff : ip - m ≤ 65535 := by
    cases hbb : P.byU16 with
    | false => exact hd hbb
    | true => have := hb hbb; omega
  by_cases hov : over P (op + 2 + (1 + 5) + (mc + 240) / 255) = true
  · rw [if_pos hov] at h; cases h
  · rw [if_neg hov] at h
    by_cases hfin : ip + mc + 4 ≥ src.size - 12 + 1
    · rw [if_pos hfin] at h
      injection h with h1 h2
      subst h1; subst h2
      refine ⟨hseg, by dsimp only; omega, hoff, by dsimp only; omega, ?_, by dsimp only; omega, by dsimp only; omega⟩
      exact ⟨Nat.le_refl _, by dsimp only; omega, hti.mono (by dsimp only; omega)⟩
    · rw [if_neg hfin] at h
      have hti1 : TI (st.tbl.setIfInBounds (P.hash (ip + mc + 4 - 2)) (ip + mc + 4 - 2)) (ip + mc + 4) :=
        (hti.mono (by omega)).set _ _ (by omega)
      have hmi := hti1 (P.hash (ip + mc + 4))
      have hti2 : TI ((st.tbl.setIfInBounds (P.hash (ip + mc + 4 - 2)) (ip + mc + 4 - 2)).setIfInBounds (P.hash (ip + mc + 4)) (ip + mc + 4)) (ip + mc + 4 + 1) :=
        (hti1.mono (by omega)).set _ _ (by omega)
      generalize hmidef : (st.tbl.setIfInBounds (P.hash (ip + mc + 4 - 2)) (ip + mc + 4 - 2)).getD (P.hash (ip + mc + 4)) 0 = mi at h hmi
      by_cases hnext : ((P.byU16 || decide (mi + 65535 ≥ ip + mc + 4)) && eq4 src mi (ip + mc + 4)) = true
      · rw [if_pos hnext] at h
        injection h with h1 h2
        subst h1; subst h2
        simp only [Bool.and_eq_true, Bool.or_eq_true, decide_eq_true_eq] at hnext
        refine ⟨hseg, by dsimp only; omega, hoff, by dsimp only; omega, ?_, by dsimp only; omega, by dsimp only; omega⟩
        refine ⟨Nat.le_refl _, by dsimp only; omega, ?_⟩
        dsimp only
        refine ⟨hti2, hmi, ?_, hnext.2, by omega, rfl⟩
        rcases hnext.1 with hb1 | hb1
        · have := hb hb1; omega
        · omega
      · rw [if_neg hnext] at h
        injection h with h1 h2
        subst h1; subst h2
        refine ⟨hseg, by dsimp only; omega, hoff, by dsimp only; omega, ?_, by dsimp only; omega, by dsimp only; omega⟩
        exact ⟨by dsimp only; omega, by dsimp only; omega, hti2⟩

theorem step_last (P : Params) (src : Array UInt8) (st st' : St) (h : step P src st = .last st') : st' = st := by
  unfold step at h
  dsimp only at h
  by_cases hf : st.fin = true
  · rw [if_pos hf] at h; injection h with h; exact h.symm
  · rw [if_neg hf] at h
    cases hp : st.pending with
    | some m =>
      rw [hp] at h
      dsimp only at h
      unfold emitMatch at h
      dsimp only at h
      split at h
      · cases h
      · split at h
        · cases h
        · split at h <;> cases h
    | none =>
      rw [hp] at h
      dsimp only at h
      cases hs : search P src (src.size - LZ4V.Gen.MFLIMIT + 1) (src.size + 1) st.ip 1 (P.accel <<< LZ4V.Gen.LZ4_skipTrigger) st.tbl with
      | none => rw [hs] at h; injection h with h; exact h.symm
      | some r =>
        obtain ⟨ip, m, tbl⟩ := r
        rw [hs] at h
        dsimp only at h
        split at h
        · cases h
        · unfold emitMatch at h
          dsimp only at h
          split at h
          · cases h
          · split at h
            · cases h
            · split at h <;> cases h

theorem step_seq (P : Params) (src : Array UInt8) (hb : P.byU16 = true → src.size < 65547) (ha : 1 ≤ P.accel) (hn : 13 ≤ src.size)
    (st : St) (s : PSeq) (st' : St) (hi : Inv src st) (h : step P src st = .seq s st') : Emitted src st.anchor s st' := by
  obtain ⟨i1, i2, i3⟩ := hi
  unfold step at h
  dsimp only at h
  by_cases hf : st.fin = true
  · rw [if_pos hf] at h; cases h
  · rw [if_neg hf] at h
    cases hp : st.pending with
    | some m =>
      rw [hp] at h i3
      dsimp only at h i3
      obtain ⟨p1, p2, p3, p4, p5, p6⟩ := i3
      rw [p6]
      exact emitMatch_spec P src hb st st.ip m (st.op + 1) st.ip 0 s st' h rfl p2 (fun _ => p3) 0 (eq4_spec src st.ip m (by
        unfold eq4 at p4 ⊢
        simp only [Bool.and_eq_true, beq_iff_eq] at p4 ⊢
        obtain ⟨⟨⟨q0, q1⟩, q2⟩, q3⟩ := p4
        exact ⟨⟨⟨q0.symm, q1.symm⟩, q2.symm⟩, q3.symm⟩)) (by omega) p1
    | none =>
      rw [hp] at h i3
      dsimp only at h i3
      have c1 : LZ4V.Gen.MFLIMIT = 12 := rfl
      have c6 : LZ4V.Gen.LZ4_skipTrigger = 6 := rfl
      cases hs : search P src (src.size - LZ4V.Gen.MFLIMIT + 1) (src.size + 1) st.ip 1 (P.accel <<< LZ4V.Gen.LZ4_skipTrigger) st.tbl with
      | none => rw [hs] at h; cases h
      | some r =>
        obtain ⟨ip, m, tbl⟩ := r
        rw [hs] at h
        dsimp only at h
        have hnb : 64 ≤ P.accel <<< LZ4V.Gen.LZ4_skipTrigger := by
          rw [c6, Nat.shiftLeft_eq]
          have : (2 : Nat) ^ 6 = 64 := by decide
          rw [this]; omega
        obtain ⟨s1, s2, s3, s4, s5, s6⟩ := search_spec P src _ _ _ _ _ _ ip m tbl hs i3 (Nat.le_refl 1) hnb
        rw [c1] at s2
        obtain ⟨d, d1, d2, d3, d4⟩ := catchUp_spec src st.anchor src.size ip m 4 (by omega) s3 (eq4_spec src ip m (by
          unfold eq4 at s5 ⊢
          simp only [Bool.and_eq_true, beq_iff_eq] at s5 ⊢
          obtain ⟨⟨⟨q0, q1⟩, q2⟩, q3⟩ := s5
          exact ⟨⟨⟨q0.symm, q1.symm⟩, q2.symm⟩, q3.symm⟩))
        generalize hc : catchUp src st.anchor src.size ip m = c at h d1 d2 d3 d4
        split at h
        · cases h
        · have := emitMatch_spec P src hb { st with tbl := tbl } c.1 c.2 _ st.anchor (c.1 - st.anchor) s st' h (by omega) (by omega)
            (fun hbb => by have := s4 hbb; omega) d d4 (by omega) (by
              have e : c.1 + d + 1 = ip + 1 := by omega
              rw [e]; exact s6)
          exact this

/-- the list `run` returns is positionally valid from the current anchor to the final one -/
theorem run_spec (P : Params) (src : Array UInt8) (hb : P.byU16 = true → src.size < 65547) (ha : 1 ≤ P.accel) (hn : 13 ≤ src.size) :
    ∀ (fuel : Nat) (st : St) (l : List PSeq) (stf : St), Inv src st → run P src fuel st = some (l, stf) →
    PV src st.anchor l stf.anchor ∧ stf.anchor ≤ src.size ∧ (∀ s ∈ l, 4 ≤ s.ml ∧ 1 ≤ s.off ∧ s.off ≤ 65535 ∧ s.lit + s.ll + 12 ≤ src.size) ∧ (l ≠ [] → stf.anchor + 5 ≤ src.size) := by
  intro fuel
  induction fuel with
  | zero =>
    intro st l stf hi h
    simp only [run, Option.some.injEq, Prod.mk.injEq] at h
    obtain ⟨rfl, rfl⟩ := h
    exact ⟨rfl, hi.2.1, (fun s hs => by cases hs), (fun h => absurd rfl h)⟩
  | succ f ih =>
    intro st l stf hi h
    unfold run at h
    cases hs : step P src st with
    | fail => rw [hs] at h; cases h
    | last st1 =>
      rw [hs] at h
      simp only [Option.some.injEq, Prod.mk.injEq] at h
      obtain ⟨rfl, rfl⟩ := h
      have := step_last P src st st1 hs
      subst this
      exact ⟨rfl, hi.2.1, (fun s hs => by cases hs), (fun h => absurd rfl h)⟩
    | seq s st1 =>
      rw [hs] at h
      dsimp only at h
      obtain ⟨e1, e2, e3, e4, e5, e6, e7⟩ := step_seq P src hb ha hn st s st1 hi hs
      cases hr : run P src f st1 with
      | none => rw [hr] at h; cases h
      | some r =>
        obtain ⟨l1, stf1⟩ := r
        rw [hr] at h
        simp only [Option.some.injEq, Prod.mk.injEq] at h
        obtain ⟨rfl, rfl⟩ := h
        obtain ⟨r1, r2, r3, r4⟩ := ih st1 l1 stf1 e5 hr
        refine ⟨⟨e1, by rw [← e4]; exact r1⟩, r2, ?_, ?_⟩
        · intro x hx
          rcases List.mem_cons.mp hx with rfl | hx'
          · exact ⟨e2, e1.2.1, e3, by rw [e1.1]; exact e7⟩
          · exact r3 x hx'
        · intro _
          by_cases hl1 : l1 = []
          · subst hl1
            -- no further sequence: the final anchor is the one after this sequence
            have : stf1.anchor = st1.anchor := by
              have := r1
              simp only [PV] at this
              exact this.symm
            omega
          · exact r4 hl1

/-! ## the executable loop is the proved loop -/

theorem runTR_eq (P : Params) (src : Array UInt8) : ∀ (fuel : Nat) (st : St) (acc : List PSeq),
    runTR P src fuel st acc = (run P src fuel st).map (fun r => (acc.reverse ++ r.1, r.2)) := by
  intro fuel
  induction fuel with
  | zero => intro st acc; simp [runTR, run]
  | succ f ih =>
    intro st acc
    unfold runTR run
    cases hs : step P src st with
    | fail => rfl
    | last st1 => simp
    | seq s st1 =>
      dsimp only
      rw [ih st1 (s :: acc)]
      cases hr : run P src f st1 with
      | none => rfl
      | some r => simp [List.reverse_cons, List.append_assoc]

theorem compressPTR_eq (P : Params) (src : Array UInt8) (ts : Nat) : compressPTR P src ts = compressP P src ts := by
  unfold compressPTR compressP
  dsimp only
  split
  · rfl
  · split
    · rfl
    · rw [runTR_eq]
      cases hr : run P src (src.size + 1) { anchor := 0, ip := 1, tbl := (Array.replicate ts 0).setIfInBounds (P.hash 0) 0, op := 0 } with
      | none => rfl
      | some r => simp

/-! ## the whole compressor -/

theorem compressP_spec (P : Params) (src : Array UInt8) (ts : Nat) (hb : P.byU16 = true → src.size < 65547) (ha : 1 ≤ P.accel)
    (l : List PSeq) (anchor : Nat) (h : compressP P src ts = some (l, anchor)) :
    PV src 0 l anchor ∧ anchor ≤ src.size ∧ (∀ s ∈ l, 4 ≤ s.ml ∧ 1 ≤ s.off ∧ s.off ≤ 65535 ∧ s.lit + s.ll + 12 ≤ src.size) ∧
    (l ≠ [] → anchor + 5 ≤ src.size) := by
  unfold compressP at h
  dsimp only at h
  have c13 : LZ4V.Gen.LZ4_minLength = 13 := rfl
  split at h
  · cases h
  · split at h
    · split at h
      · cases h
      · simp only [Option.some.injEq, Prod.mk.injEq] at h
        obtain ⟨rfl, rfl⟩ := h
        exact ⟨rfl, by omega, (fun s hs => by cases hs), (fun h => absurd rfl h)⟩
    · rename_i hmin
      rw [c13] at hmin
      cases hr : run P src (src.size + 1) { anchor := 0, ip := 1, tbl := (Array.replicate ts 0).setIfInBounds (P.hash 0) 0, op := 0 } with
      | none => rw [hr] at h; cases h
      | some r =>
        obtain ⟨l1, stf⟩ := r
        rw [hr] at h
        dsimp only at h
        split at h
        · cases h
        · simp only [Option.some.injEq, Prod.mk.injEq] at h
          obtain ⟨rfl, rfl⟩ := h
          have hinv : Inv src { anchor := 0, ip := 1, tbl := (Array.replicate ts 0).setIfInBounds (P.hash 0) 0, op := 0 } :=
            ⟨by dsimp only; omega, by dsimp only; omega, (TI.replicate ts).set _ _ (by omega)⟩
          exact run_spec P src hb ha (by omega) _ _ _ _ hinv hr

/-- the final anchor of a non-empty valid list is the end of its last sequence -/
theorem PV_last (src : Array UInt8) : ∀ (l : List PSeq) (a a' : Nat) (s : PSeq), PV src a l a' → l.getLast? = some s → s.lit + s.ll + s.ml = a' := by
  intro l
  induction l with
  | nil => intro a a' s _ h; simp at h
  | cons x rest ih =>
    intro a a' s h hl
    obtain ⟨hseg, hrest⟩ := h
    cases rest with
    | nil =>
      simp only [List.getLast?_singleton, Option.some.injEq] at hl
      subst hl
      simp only [PV] at hrest
      rw [hseg.1]; exact hrest
    | cons y t =>
      rw [List.getLast?_cons_cons] at hl
      exact ih _ _ s hrest hl

end LZ4V.Model.Fast
