import LZ4V.Model.FrameLinked
import LZ4V.Proofs.FastXProof
import LZ4V.Proofs.FrameFastE2E
/-!
# A linked-blocks frame of the fast levels parses, by the stream specification, to exactly the input — for EVERY schedule of block placements and
dictionary saves (end to end)

Each compressed block is a byte-verified parse against a tail of the content so far (`FastX.compress_spec`, invariant `FastX.Inv` with the content as the
declared history), hence (`Parsed.of_tails`) against the specification's 64 KB window; a block that does not shrink is stored raw and the stream goes on.
-/
namespace LZ4V.Model.FrameLinked
open LZ4V.Model LZ4V.Model.FrameFast
open LZ4V.Spec.FrameL
open LZ4V.Spec.Frame (Header blockSizeOf Bad)

/-- the header record the specification reads back from `descriptorL p` -/
def hdrOfL (p : Prefs) : Header := { hdrOf p with blockIndep := false }

theorem headerL_parses (E : Env) (p : Prefs) (hb : 4 ≤ p.bsid ∧ p.bsid ≤ 7) (hcs : p.contentSize < 256 ^ 8) (hd : p.dictID < 256 ^ 4) (rest : Bytes) :
    pHeader E (descriptorL p ++ [UInt8.ofNat ((E.hash (descriptorL p) / 256) % 256)] ++ rest) = .ok (hdrOfL p, rest) := by
  have ha := b2n_le p.blockChecksum
  have hbb := b2n_le (decide (p.contentSize > 0))
  have hc := b2n_le p.contentChecksum
  have hdd := b2n_le (decide (p.dictID > 0))
  generalize hA : b2n p.blockChecksum = A at ha
  generalize hB : b2n (decide (p.contentSize > 0)) = B at hbb
  generalize hC : b2n p.contentChecksum = C at hc
  generalize hD : b2n (decide (p.dictID > 0)) = D at hdd
  have h28 : (2 : Nat) ^ 8 = 256 := by decide
  have hflg : (UInt8.ofNat (64 + 16 * A + 8 * B + 4 * C + D)).toNat = 64 + 16 * A + 8 * B + 4 * C + D := by
    rw [UInt8.toNat_ofNat', h28]; exact Nat.mod_eq_of_lt (by omega)
  have hbd : (UInt8.ofNat (p.bsid * 16)).toNat = p.bsid * 16 := by
    rw [UInt8.toNat_ofNat', h28]; exact Nat.mod_eq_of_lt (by omega)
  have hext : descriptorL p = [UInt8.ofNat (64 + 16 * A + 8 * B + 4 * C + D), UInt8.ofNat (p.bsid * 16)] ++
      ((if p.contentSize > 0 then encLE 8 p.contentSize else []) ++ (if p.dictID > 0 then encLE 4 p.dictID else [])) := by
    unfold descriptorL
    rw [hA, hB, hC, hD, List.append_assoc]
  generalize hextdef : (if p.contentSize > 0 then encLE 8 p.contentSize else []) ++ (if p.dictID > 0 then encLE 4 p.dictID else []) = ext at hext
  have hextlen : ext.length = (if p.contentSize > 0 then 8 else 0) + (if p.dictID > 0 then 4 else 0) := by
    rw [← hextdef, List.length_append]
    split <;> split <;> simp [encLE_length]
  have hBcs : (B == 1) = decide (p.contentSize > 0) := by rw [← hB]; exact b2n_decide_eq _
  have hDd : (D == 1) = decide (p.dictID > 0) := by rw [← hD]; exact b2n_decide_eq _
  have hAb : (A == 1) = p.blockChecksum := by rw [← hA]; cases p.blockChecksum <;> rfl
  have hCc : (C == 1) = p.contentChecksum := by rw [← hC]; cases p.contentChecksum <;> rfl
  unfold pHeader Parser.bind
  rw [hext]
  generalize hhcdef : UInt8.ofNat ((E.hash ([UInt8.ofNat (64 + 16 * A + 8 * B + 4 * C + D), UInt8.ofNat (p.bsid * 16)] ++ ext) / 256) % 256) = hcb
  have hhc : hcb.toNat = (E.hash ([UInt8.ofNat (64 + 16 * A + 8 * B + 4 * C + D), UInt8.ofNat (p.bsid * 16)] ++ ext) / 256) % 256 := by
    rw [← hhcdef, UInt8.toNat_ofNat', h28]; exact Nat.mod_eq_of_lt (Nat.mod_lt _ (by decide))
  simp only [List.append_assoc]
  have t2 : takeN 2 ([UInt8.ofNat (64 + 16 * A + 8 * B + 4 * C + D), UInt8.ofNat (p.bsid * 16)] ++ (ext ++ ([hcb] ++ rest)))
      = .ok ([UInt8.ofNat (64 + 16 * A + 8 * B + 4 * C + D), UInt8.ofNat (p.bsid * 16)], ext ++ ([hcb] ++ rest)) :=
    takeN_app [UInt8.ofNat (64 + 16 * A + 8 * B + 4 * C + D), UInt8.ofNat (p.bsid * 16)] _ 2 rfl
  rw [t2]
  simp only [List.getD_cons_zero, List.getD_cons_succ, hflg, hbd]
  have f1 : (64 + 16 * A + 8 * B + 4 * C + D) / 64 = 1 := by omega
  have f2 : (64 + 16 * A + 8 * B + 4 * C + D) / 2 % 2 = 0 := by omega
  have f3 : p.bsid * 16 / 128 = 0 := by omega
  have f4 : p.bsid * 16 % 16 = 0 := by omega
  have f5 : p.bsid * 16 / 16 % 8 = p.bsid := by omega
  have f6 : (64 + 16 * A + 8 * B + 4 * C + D) / 8 % 2 = B := by omega
  have f7 : (64 + 16 * A + 8 * B + 4 * C + D) % 2 = D := by omega
  have f8 : (64 + 16 * A + 8 * B + 4 * C + D) / 32 % 2 = 0 := by omega
  have f9 : (64 + 16 * A + 8 * B + 4 * C + D) / 16 % 2 = A := by omega
  have f10 : (64 + 16 * A + 8 * B + 4 * C + D) / 4 % 2 = C := by omega
  have hb4 : ¬ p.bsid < 4 := by omega
  simp only [f1, f2, f3, f4, f5, f6, f7, f8, f9, f10, hb4, ne_eq, not_true_eq_false, or_self, ↓reduceIte, hBcs, hDd, hAb, hCc, decide_eq_true_eq]
  have tk : takeN ((if p.contentSize > 0 then 8 else 0) + (if p.dictID > 0 then 4 else 0)) (ext ++ ([hcb] ++ rest)) = .ok (ext, [hcb] ++ rest) :=
    takeN_app _ _ _ hextlen
  rw [tk]
  simp only []
  have t1 : takeN 1 ([hcb] ++ rest) = .ok ([hcb], rest) := takeN_app [hcb] _ 1 rfl
  rw [t1]
  simp only [List.getD_cons_zero, hhc, not_true_eq_false, ↓reduceIte, Parser.pure, hdrOfL, hdrOf]
  have hcsf : (if p.contentSize > 0 then some (le (ext.take 8)) else none) = (if p.contentSize > 0 then some p.contentSize else none) := by
    by_cases h : p.contentSize > 0
    · rw [if_pos h, if_pos h]
      rw [← hextdef, if_pos h, List.take_left' (encLE_length 8 _), le_encLE_lt 8 _ hcs]
    · rw [if_neg h, if_neg h]
  have hdf : (if p.dictID > 0 then some (le (ext.drop (if p.contentSize > 0 then 8 else 0))) else none) = (if p.dictID > 0 then some p.dictID else none) := by
    by_cases h : p.dictID > 0
    · rw [if_pos h, if_pos h]
      rw [← hextdef, if_pos h]
      by_cases h2 : p.contentSize > 0
      · rw [if_pos h2, if_pos h2, List.drop_left' (encLE_length 8 _), le_encLE_lt 4 _ hd]
      · rw [if_neg h2, if_neg h2, List.nil_append, List.drop_zero, le_encLE_lt 4 _ hd]
    · rw [if_neg h, if_neg h]
  rw [hcsf, hdf]
  rfl

/-- what the theorems need from the checksum function and the block decoder: it agrees with the block specification for EVERY history -/
structure EnvOKL (E : Env) : Prop where
  h32 : ∀ l, E.hash l < 4294967296
  dec : ∀ hist payload cap D, LZ4V.Spec.Block.decode hist payload = some D → D.length ≤ cap → E.dec hist payload cap = some D

theorem specEnv_okL (hash : Bytes → Nat) (h32 : ∀ l, hash l < 4294967296) : EnvOKL (specEnv hash) :=
  ⟨h32, fun hist payload cap D hd hl => by simp [specEnv, hd, hl]⟩

/-- the specification's window on the content so far is the whole of it or 65536 bytes of its tail -/
theorem window_tail (acc : Bytes) : ∃ pre, acc = pre ++ window [] acc ∧ (pre = [] ∨ 65535 ≤ (window [] acc).length) := by
  refine ⟨acc.take (acc.length - 65536), ?_, ?_⟩
  · unfold window; simp only [List.nil_append]; exact (List.take_append_drop _ _).symm
  · unfold window
    simp only [List.nil_append, List.length_drop]
    by_cases h : acc.length ≤ 65536
    · left; rw [Nat.sub_eq_zero_of_le h]; rfl
    · right; omega

/-- one block: the specification reads back, from the bytes `LZ4F_makeBlock` wrote around `LZ4_compress_fast_continue`, exactly the block's content -/
theorem block_parses_core (E : Env) (ok : EnvOKL E) (hashOf : Array UInt8 → Bool → Nat → Nat) (p : Prefs) (hb : 4 ≤ p.bsid ∧ p.bsid ≤ 7)
    (hdr : Header) (hbcf : hdr.blockChecksum = p.blockChecksum) (hmb : hdr.maxBlock = blockSizeOf p.bsid) (dict H : Bytes)
    (S : FastX.XState) (acc : Bytes) (hwin : (if hdr.blockIndep = true then window dict [] else window dict acc) = window [] H)
    (hI : FastX.Inv S H) (addr : Nat) (data : Array UInt8) (hne : 1 ≤ data.size)
    (hlen : data.size ≤ blockSizeOf p.bsid) (fuel : Nat) (rest : Bytes) :
    pBlocks E hdr dict (fuel + 1) acc (blockBytes E p (FastX.compress hashOf S addr data (accelOf p) (data.size - 1)).2 data.toList ++ rest) =
      pBlocks E hdr dict fuel (acc ++ data.toList) rest := by
  have hbs := blockSizeOf_le p.bsid hb
  have hdl : data.toList.length = data.size := Array.length_toList
  have hn0 : 0 < data.toList.length := by omega
  have cflag : LZ4V.Gen.LZ4F_BLOCKUNCOMPRESSED_FLAG = 2147483648 := rfl
  have p32 : (256 : Nat) ^ 4 = 4294967296 := by decide
  obtain ⟨_, _, c3⟩ := FastX.compress_spec hashOf S addr data (accelOf p) (data.size - 1) hI.jx (fun D h => ⟨(hI.dctx D h).1, (hI.dctx D h).2.1⟩)
  unfold blockBytes
  dsimp only
  generalize hr : (FastX.compress hashOf S addr data (accelOf p) (data.size - 1)).2 = r2 at c3
  have hlen' : data.toList.length ≤ blockSizeOf p.bsid := by rw [hdl]; exact hlen
  generalize data.toList = content at c3 hn0 hlen' ⊢
  have hkey : 0 < (payloadOf r2 content).length ∧ (payloadOf r2 content).length ≤ blockSizeOf p.bsid ∧
      (rawOf r2 content.length = true → payloadOf r2 content = content) ∧
      (rawOf r2 content.length = false → E.dec (window [] H) (payloadOf r2 content) (blockSizeOf p.bsid) = some content) := by
    cases r2 with
    | none => exact ⟨hn0, hlen', (fun _ => rfl), (fun h => by simp [rawOf] at h)⟩
    | some blk =>
      obtain ⟨d, hsrc, hp, _⟩ := c3 blk rfl
      -- the block decodes against the specification's window
      have hdw : LZ4V.Spec.Block.decode (window [] H) blk = some content := by
        have hdH : FastX.IsTail d H := by
          rcases hsrc with h | ⟨D, hDc, h⟩
          · exact h.trans hI.tail
          · exact h.trans (hI.dctx D hDc).2.2
        obtain ⟨p1, hp1⟩ := hdH
        obtain ⟨pre, hw1, hw2⟩ := window_tail H
        exact (hp.of_tails (p := p1) (pre := pre) (by rw [← hp1]; exact hw1) hw2).decode
      by_cases hge : blk.length ≥ content.length
      · refine ⟨?_, ?_, ?_, ?_⟩
        · simp only [payloadOf, hge, ↓reduceIte]; exact hn0
        · simp only [payloadOf, hge, ↓reduceIte]; exact hlen'
        · intro _; simp only [payloadOf, hge, ↓reduceIte]
        · intro h; simp [rawOf, hge] at h
      · refine ⟨?_, ?_, ?_, ?_⟩
        · simp only [payloadOf, hge, ↓reduceIte]
          cases blk with
          | nil =>
            exfalso
            have : LZ4V.Spec.Block.decode (window [] H) ([] : Bytes) = none := by simp [LZ4V.Spec.Block.decode, LZ4V.Spec.Block.decodeAux]
            rw [this] at hdw; cases hdw
          | cons x t => simp
        · simp only [payloadOf, hge, ↓reduceIte]; omega
        · intro h; simp [rawOf, hge] at h
        · intro _; simp only [payloadOf, hge, ↓reduceIte]; exact ok.dec _ blk _ _ hdw (by exact hlen')
  obtain ⟨hp0, hpl, hraw, hcomp⟩ := hkey
  generalize payloadOf r2 content = payload at hp0 hpl hraw hcomp
  generalize rawOf r2 content.length = raw at hraw hcomp
  generalize hw : payload.length + (if raw = true then LZ4V.Gen.LZ4F_BLOCKUNCOMPRESSED_FLAG else 0) = w
  have hwlt : w < 256 ^ 4 := by rw [← hw, cflag, p32]; split <;> omega
  have hwle : le (encLE 4 w) = w := le_encLE_lt 4 w hwlt
  have hw0 : w ≠ 0 := by rw [← hw]; omega
  have hwmod : w % 0x80000000 = payload.length := by
    rw [← hw, cflag]; split <;> omega
  have hcrclen : (if p.blockChecksum = true then encLE 4 (E.hash payload) else []).length = (if hdr.blockChecksum = true then 4 else 0) := by
    rw [hbcf]
    split <;> simp [encLE_length]
  have hcrcok : ¬ (hdr.blockChecksum = true ∧ E.hash payload ≠ le (if p.blockChecksum = true then encLE 4 (E.hash payload) else [])) := by
    rw [hbcf]
    intro ⟨h1, h2⟩
    rw [if_pos h1, le_encLE_lt 4 _ (by rw [p32]; exact ok.h32 _)] at h2
    exact h2 rfl
  simp only [List.append_assoc]
  cases hrw : raw with
  | true =>
    have hge : le (encLE 4 w) ≥ 0x80000000 := by rw [hwle, ← hw, hrw, cflag]; simp
    rw [pBlocks_raw E hdr dict fuel acc (encLE 4 w) payload _ rest (encLE_length 4 w) (by rw [hwle]; exact hw0) (by rw [hwle]; exact hwmod)
      (by rw [hmb]; exact hpl) hcrclen hcrcok hge, hraw hrw]
  | false =>
    have hlt : ¬ le (encLE 4 w) ≥ 0x80000000 := by rw [hwle, ← hw, hrw, cflag]; simp; omega
    rw [pBlocks_comp E hdr dict fuel acc (encLE 4 w) payload _ rest content (encLE_length 4 w) (by rw [hwle]; exact hw0) (by rw [hwle]; exact hwmod)
      (by rw [hmb]; exact hpl) hcrclen hcrcok hlt (by rw [hwin, hmb]; exact hcomp hrw)]

/-- one block of a linked-blocks frame without dictionary -/
theorem block_parses (E : Env) (ok : EnvOKL E) (hashOf : Array UInt8 → Bool → Nat → Nat) (p : Prefs) (hb : 4 ≤ p.bsid ∧ p.bsid ≤ 7)
    (S : FastX.XState) (acc : Bytes) (hI : FastX.Inv S acc) (hnd : S.dctx = none) (addr : Nat) (data : Array UInt8) (hne : 1 ≤ data.size)
    (hlen : data.size ≤ blockSizeOf p.bsid) (fuel : Nat) (rest : Bytes) :
    pBlocks E (hdrOfL p) [] (fuel + 1) acc (blockBytes E p (FastX.compress hashOf S addr data (accelOf p) (data.size - 1)).2 data.toList ++ rest) =
      pBlocks E (hdrOfL p) [] fuel (acc ++ data.toList) rest :=
  block_parses_core E ok hashOf p hb (hdrOfL p) rfl rfl [] acc S acc (by simp [hdrOfL, window]) hI addr data hne hlen fuel rest

/-- whatever a compression returns (a block, or 0 because it does not fit), the stream's dictionary afterwards is a tail of dictionary ++ data -/
theorem core_tail_any (hashOf : Array UInt8 → Bool → Nat → Nat) (S : FastX.XState) (contig : Bool) (addr : Nat) (data : Array UInt8) (acceleration : Int) (cap : Nat)
    (hmax : data.size ≤ LZ4V.Gen.LZ4_MAX_INPUT_SIZE) :
    FastX.IsTail (FastX.core hashOf S contig addr data acceleration cap).1.dict.toList (S.dict.toList ++ data.toList) := by
  have hdT : FastX.IsTail (if contig = true then S.dict ++ data else data).toList (S.dict.toList ++ data.toList) := by
    cases contig with
    | true => rw [if_pos rfl, Array.toList_append]; exact FastX.IsTail.refl _
    | false => exact FastX.IsTail.right _ _
  unfold FastX.core
  dsimp only
  by_cases h0 : data.size = 0
  · rw [if_pos h0]
    have hd : data.toList = [] := FastX.size_zero_nil data h0
    rw [hd, List.append_nil]
    cases contig with
    | true => exact FastX.IsTail.refl _
    | false => exact FastX.IsTail.nil _
  rw [if_neg h0, if_neg (by omega)]
  by_cases hmin : data.size < LZ4V.Gen.LZ4_minLength
  · rw [if_pos hmin]; exact hdT
  rw [if_neg hmin]
  generalize FastR.runR _ _ _ _ _ = r
  obtain ⟨ro, rtbl⟩ := r
  cases ro with
  | none => exact hdT
  | some v => obtain ⟨l, st⟩ := v; exact hdT

/-- a stream without an attached dictionary keeps the invariant through ANY compression of a block of legal size, successful or not -/
theorem compress_inv_any (hashOf : Array UInt8 → Bool → Nat → Nat) (S : FastX.XState) (acc : Bytes) (hI : FastX.Inv S acc) (hnd : S.dctx = none)
    (addr : Nat) (data : Array UInt8) (acceleration : Int) (cap : Nat) (hmax : data.size ≤ LZ4V.Gen.LZ4_MAX_INPUT_SIZE) :
    FastX.Inv (FastX.compress hashOf S addr data acceleration cap).1 (acc ++ data.toList) ∧ (FastX.compress hashOf S addr data acceleration cap).1.dctx = none := by
  obtain ⟨c1, _, _⟩ := FastX.compress_spec hashOf S addr data acceleration cap hI.jx (fun D h => by rw [hnd] at h; cases h)
  obtain ⟨_, a2⟩ := FastX.adjust_spec S addr data.size hI.jx
  have ad := FastX.adjust_dctx S addr data.size
  have hshape : FastX.compress hashOf S addr data acceleration cap = FastX.core hashOf (FastX.adjust S addr data.size).1 (FastX.adjust S addr data.size).2 addr data acceleration cap := by
    unfold FastX.compress
    dsimp only
    rw [ad, hnd]
    have hm : (if (FastX.adjust S addr data.size).2 = true then (none : Option FastX.DCtx) else none) = none := by split <;> rfl
    rw [hm]
  have hdn : (FastX.compress hashOf S addr data acceleration cap).1.dctx = none := by
    rw [hshape, (FastX.core_frame hashOf _ _ addr data acceleration cap).1, ad, hnd]
  refine ⟨⟨c1, ?_, ?_⟩, hdn⟩
  · rw [hshape]
    exact (core_tail_any hashOf _ _ addr data acceleration cap hmax).trans ((a2.trans hI.tail).append _)
  · intro D h; rw [hdn] at h; cases h

theorem saveDict_inv (S : FastX.XState) (acc : Bytes) (hI : FastX.Inv S acc) (hnd : S.dctx = none) (addr k : Nat) :
    FastX.Inv (FastX.saveDict S addr k).1 acc ∧ (FastX.saveDict S addr k).1.dctx = none := by
  obtain ⟨s1, s2⟩ := FastX.saveDict_spec S addr k hI.jx
  obtain ⟨f1, _⟩ := FastX.saveDict_frame S addr k
  exact ⟨⟨s1, s2.trans hI.tail, fun D h => by rw [f1, hnd] at h; cases h⟩, by rw [f1, hnd]⟩

def nblocks : List LOp → Nat
  | [] => 0
  | .save _ _ :: rest => nblocks rest
  | .attach _ _ :: rest => nblocks rest
  | .load _ _ :: rest => nblocks rest
  | .block _ _ :: rest => nblocks rest + 1

/-- the blocks of a schedule: every one of them between 1 byte and the block size of the frame; no dictionary event (frames with a dictionary: `LegalD` below) -/
def LegalSizes (p : Prefs) : List LOp → Prop
  | [] => True
  | .save _ _ :: rest => LegalSizes p rest
  | .attach _ _ :: _ => False
  | .load _ _ :: _ => False
  | .block _ data :: rest => (1 ≤ data.size ∧ data.size ≤ blockSizeOf p.bsid) ∧ LegalSizes p rest

/-- all blocks, then the end mark -/
theorem blocksOf_parses (E : Env) (ok : EnvOKL E) (hashOf : Array UInt8 → Bool → Nat → Nat) (p : Prefs) (hb : 4 ≤ p.bsid ∧ p.bsid ≤ 7) :
    ∀ (ops : List LOp) (S : FastX.XState) (acc : Bytes), FastX.Inv S acc → S.dctx = none → LegalSizes p ops → ∀ (rest : Bytes),
    pBlocks E (hdrOfL p) [] (nblocks ops + 1) acc (blocksOf E hashOf p S ops ++ (encLE 4 0 ++ rest)) = .ok (acc ++ contentOf ops, rest) := by
  intro ops
  induction ops with
  | nil =>
    intro S acc _ _ _ rest
    simp only [blocksOf, nblocks, contentOf, List.nil_append, List.append_nil]
    conv => lhs; unfold pBlocks
    unfold Parser.bind
    rw [takeN_app (encLE 4 0) rest 4 (encLE_length 4 0)]
    have : le (encLE 4 0) = 0 := by decide
    simp only [this, ↓reduceIte, Parser.pure]
  | cons op t ih =>
    intro S acc hI hnd hleg rest
    cases op with
    | save addr k =>
      obtain ⟨i1, i2⟩ := saveDict_inv S acc hI hnd addr k
      simp only [blocksOf, nblocks, contentOf]
      exact ih _ acc i1 i2 hleg rest
    | attach addr d => exact False.elim hleg
    | load addr d => exact False.elim hleg
    | block addr data =>
      obtain ⟨⟨h1, h2⟩, hrest⟩ := hleg
      have hbs := blockSizeOf_le p.bsid hb
      have hmax : data.size ≤ LZ4V.Gen.LZ4_MAX_INPUT_SIZE := by
        have : LZ4V.Gen.LZ4_MAX_INPUT_SIZE = 0x7E000000 := rfl
        omega
      obtain ⟨i1, i2⟩ := compress_inv_any hashOf S acc hI hnd addr data (accelOf p) (data.size - 1) hmax
      have hpb := block_parses E ok hashOf p hb S acc hI hnd addr data h1 h2 (nblocks t + 1)
        (blocksOf E hashOf p (FastX.compress hashOf S addr data (accelOf p) (data.size - 1)).1 t ++ (encLE 4 0 ++ rest))
      simp only [blocksOf, nblocks, contentOf, List.append_assoc]
      rw [hpb, ih _ _ i1 i2 hrest rest, List.append_assoc]

/-- **end to end, linked blocks**: the frame the model produces for a schedule is, for the stream specification, one complete LZ4 frame whose
    content is exactly the concatenation of the blocks of the schedule, with nothing left over — wherever the blocks lie, whenever the history is saved -/
theorem frameFrom_parses (E : Env) (ok : EnvOKL E) (hashOf : Array UInt8 → Bool → Nat → Nat) (p : Prefs) (hb : 4 ≤ p.bsid ∧ p.bsid ≤ 7)
    (hcs64 : p.contentSize < 256 ^ 8) (hd32 : p.dictID < 256 ^ 4) (S0 : FastX.XState) (hI0 : FastX.Inv S0 []) (hnd0 : S0.dctx = none) (ops : List LOp)
    (hleg : LegalSizes p ops) (hcs : p.contentSize = 0 ∨ p.contentSize = (contentOf ops).length) :
    pFrame E [] (nblocks ops + 1) (frameFrom E hashOf p S0 ops) = .ok (contentOf ops, []) := by
  have p32 : (256 : Nat) ^ 4 = 4294967296 := by decide
  unfold frameFrom headerL pFrame Parser.bind
  simp only [List.append_assoc]
  rw [takeN_app (encLE 4 LZ4V.Gen.LZ4F_MAGICNUMBER) _ 4 (encLE_length 4 _)]
  have hm : le (encLE 4 LZ4V.Gen.LZ4F_MAGICNUMBER) = lz4Magic := by decide
  simp only [hm, ne_eq, not_true_eq_false, ↓reduceIte]
  unfold pFrameBody Parser.bind
  have hh := headerL_parses E p hb hcs64 hd32 (blocksOf E hashOf p S0 ops ++ (encLE 4 0 ++ (if p.contentChecksum = true then encLE 4 (E.hash (contentOf ops)) else [])))
  simp only [List.append_assoc] at hh
  rw [hh]
  simp only []
  have hbk := blocksOf_parses E ok hashOf p hb ops S0 [] hI0 hnd0 hleg (if p.contentChecksum = true then encLE 4 (E.hash (contentOf ops)) else [])
  rw [List.nil_append] at hbk
  rw [hbk]
  simp only []
  have hcc : (hdrOfL p).contentChecksum = p.contentChecksum := rfl
  have hcrclen : (if p.contentChecksum = true then encLE 4 (E.hash (contentOf ops)) else []).length = (if (hdrOfL p).contentChecksum = true then 4 else 0) := by
    rw [hcc]; split <;> simp [encLE_length]
  have := takeN_app (if p.contentChecksum = true then encLE 4 (E.hash (contentOf ops)) else []) [] _ hcrclen
  rw [List.append_nil] at this
  rw [this]
  simp only []
  have hc1 : ¬ ((hdrOfL p).contentChecksum = true ∧ E.hash (contentOf ops) ≠ le (if p.contentChecksum = true then encLE 4 (E.hash (contentOf ops)) else [])) := by
    rw [hcc]
    intro ⟨h1, h2⟩
    rw [if_pos h1, le_encLE_lt 4 _ (by rw [p32]; exact ok.h32 _)] at h2
    exact h2 rfl
  have hc2 : ¬ ((hdrOfL p).contentSize.isSome = true ∧ (hdrOfL p).contentSize ≠ some (contentOf ops).length) := by
    show ¬ ((if p.contentSize > 0 then some p.contentSize else none).isSome = true ∧ (if p.contentSize > 0 then some p.contentSize else none) ≠ some (contentOf ops).length)
    rcases hcs with h0 | h0
    · rw [if_neg (by omega)]; simp
    · by_cases hz : p.contentSize > 0
      · rw [if_pos hz, h0]; simp
      · rw [if_neg hz]; simp
  simp only [hc1, hc2, ↓reduceIte, Parser.pure]

/-- on a context that starts fresh -/
theorem frameL_parses (E : Env) (ok : EnvOKL E) (hashOf : Array UInt8 → Bool → Nat → Nat) (p : Prefs) (hb : 4 ≤ p.bsid ∧ p.bsid ≤ 7)
    (hcs64 : p.contentSize < 256 ^ 8) (hd32 : p.dictID < 256 ^ 4) (ops : List LOp)
    (hleg : LegalSizes p ops) (hcs : p.contentSize = 0 ∨ p.contentSize = (contentOf ops).length) :
    pFrame E [] (nblocks ops + 1) (frame E hashOf p ops) = .ok (contentOf ops, []) :=
  frameFrom_parses E ok hashOf p hb hcs64 hd32 {} FastX.Inv_init rfl ops hleg hcs

/-! ## frames with a dictionary: a CDict (prepared stream attached) or a raw dictionary (loaded), linked or independent blocks -/

theorem Inv_weaken {S : FastX.XState} {H H' : Bytes} (hI : FastX.Inv S H) (hT : FastX.IsTail H H') : FastX.Inv S H' :=
  ⟨hI.jx, hI.tail.trans hT, fun D h => ⟨(hI.dctx D h).1, (hI.dctx D h).2.1, (hI.dctx D h).2.2.trans hT⟩⟩

/-- `LZ4_resetStream_fast` + attach of a stream prepared by `LZ4_loadDict(Slow)`: from ANY state satisfying `JX` -/
theorem attach_inv (hashOf : Array UInt8 → Bool → Nat → Nat) (S : FastX.XState) (hJ : FastX.JX S) (addr : Nat) (d : Array UInt8) (slow : Bool) :
    FastX.Inv (FastX.step hashOf S (.attach addr d slow)).1 d.toList := by
  have h := FastX.step_spec hashOf S [] (.attach addr d slow)
  -- the attach case of `step_spec` only uses `JX` of the state before: rebuild an invariant with the empty history of a reset state
  obtain ⟨r1, r2⟩ := FastX.reset_spec S hJ
  obtain ⟨l1, l2⟩ := FastX.loadDict_spec hashOf addr d slow
  have k64 : LZ4V.Gen.KB64 = 65536 := rfl
  refine ⟨⟨?_, ?_⟩, ?_, ?_⟩
  · intro i
    have := r1.tbl i
    show (FastX.reset S).tbl.getD i 0 ≤ (if (FastX.reset S).currentOffset = 0 then LZ4V.Gen.KB64 else (FastX.reset S).currentOffset)
    split <;> omega
  · show (FastX.reset S).dict.size ≤ _
    rw [r2]; exact Nat.zero_le _
  · show FastX.IsTail (FastX.reset S).dict.toList d.toList
    rw [r2]; exact FastX.IsTail.nil _
  · intro D hD
    have hstep : (FastX.step hashOf S (.attach addr d slow)).1.dctx =
        (if (FastX.loadDict hashOf addr d slow).1.dict.size = 0 then none
         else some { tbl := (FastX.loadDict hashOf addr d slow).1.tbl, currentOffset := (FastX.loadDict hashOf addr d slow).1.currentOffset,
                     dict := (FastX.loadDict hashOf addr d slow).1.dict, dictAddr := (FastX.loadDict hashOf addr d slow).1.dictAddr }) := rfl
    rw [hstep] at hD
    split at hD
    · cases hD
    · simp only [Option.some.injEq] at hD
      subst hD
      refine ⟨⟨l1.tbl, l1.ds⟩, ?_, l2⟩
      show (FastX.reset S).dict.size = 0
      rw [r2]; rfl

theorem load_inv (hashOf : Array UInt8 → Bool → Nat → Nat) (addr : Nat) (d : Array UInt8) (slow : Bool) :
    FastX.Inv (FastX.loadDict hashOf addr d slow).1 d.toList := by
  obtain ⟨l1, l2⟩ := FastX.loadDict_spec hashOf addr d slow
  refine ⟨l1, l2, ?_⟩
  intro D h
  have : (FastX.loadDict hashOf addr d slow).1.dctx = none := by unfold FastX.loadDict; dsimp only; split <;> rfl
  rw [this] at h; cases h

/-- ANY compression of a non-empty block of legal size keeps the invariant — with or without an attached dictionary stream, whether it returns a block or 0
    — and leaves nothing attached -/
theorem compress_inv_anyD (hashOf : Array UInt8 → Bool → Nat → Nat) (S : FastX.XState) (H : Bytes) (hI : FastX.Inv S H)
    (addr : Nat) (data : Array UInt8) (acceleration : Int) (cap : Nat) (hne : 1 ≤ data.size) (hmax : data.size ≤ LZ4V.Gen.LZ4_MAX_INPUT_SIZE) :
    FastX.Inv (FastX.compress hashOf S addr data acceleration cap).1 (H ++ data.toList) ∧ (FastX.compress hashOf S addr data acceleration cap).1.dctx = none := by
  cases hdc : S.dctx with
  | none => exact compress_inv_any hashOf S H hI hdc addr data acceleration cap hmax
  | some D =>
    obtain ⟨dok, hs0, hDT⟩ := hI.dctx D hdc
    obtain ⟨c1, c2, _⟩ := FastX.compress_spec hashOf S addr data acceleration cap hI.jx (fun D' h => ⟨(hI.dctx D' h).1, (hI.dctx D' h).2.1⟩)
    have hdn : (FastX.compress hashOf S addr data acceleration cap).1.dctx = none := by
      cases hq : (FastX.compress hashOf S addr data acceleration cap).1.dctx with
      | none => rfl
      | some D' => have := (c2 D' hq).2.1; omega
    refine ⟨⟨c1, ?_, fun D' h => by rw [hdn] at h; cases h⟩, hdn⟩
    -- the dictionary afterwards: a tail of (attached dictionary ++ data), whichever path was taken
    obtain ⟨a1, _⟩ := FastX.adjust_spec S addr data.size hI.jx
    have ad := FastX.adjust_dctx S addr data.size
    obtain ⟨g1, g2⟩ := FastX.adjust_attached S addr data.size D hdc hs0
    have htail : FastX.IsTail (FastX.compress hashOf S addr data acceleration cap).1.dict.toList (D.dict.toList ++ data.toList) := by
      unfold FastX.compress
      dsimp only
      rw [ad, hdc, g1]
      simp only [Bool.false_eq_true, ↓reduceIte]
      rw [if_neg (by omega)]
      by_cases hbig : data.size > LZ4V.Gen.KB4
      · rw [if_pos hbig]
        exact core_tail_any hashOf _ false addr data acceleration cap hmax
      · rw [if_neg hbig]
        by_cases hwrap : (FastX.adjust S addr data.size).1.currentOffset < D.currentOffset
        · rw [if_pos hwrap]
          show FastX.IsTail (FastX.adjust S addr data.size).1.dict.toList _
          rw [FastX.size_zero_nil _ g2]; exact FastX.IsTail.nil _
        · rw [if_neg hwrap]
          exact core_tail_any hashOf _ false addr data acceleration cap hmax
    exact htail.trans (hDT.append _)

/-- a schedule of blocks and history saves only, block sizes legal (what follows the dictionary event of a linked-blocks frame) -/
theorem blocksOf_parsesD (E : Env) (ok : EnvOKL E) (hashOf : Array UInt8 → Bool → Nat → Nat) (p : Prefs) (hb : 4 ≤ p.bsid ∧ p.bsid ≤ 7) (dict : Bytes) :
    ∀ (ops : List LOp) (S : FastX.XState) (acc : Bytes), FastX.Inv S (dict ++ acc) → LegalSizes p ops → ∀ (rest : Bytes),
    pBlocks E (hdrOfL p) dict (nblocks ops + 1) acc (blocksOf E hashOf p S ops ++ (encLE 4 0 ++ rest)) = .ok (acc ++ contentOf ops, rest) := by
  intro ops
  induction ops with
  | nil =>
    intro S acc _ _ rest
    simp only [blocksOf, nblocks, contentOf, List.nil_append, List.append_nil]
    conv => lhs; unfold pBlocks
    unfold Parser.bind
    rw [takeN_app (encLE 4 0) rest 4 (encLE_length 4 0)]
    have : le (encLE 4 0) = 0 := by decide
    simp only [this, ↓reduceIte, Parser.pure]
  | cons op t ih =>
    intro S acc hI hleg rest
    cases op with
    | save addr k =>
      obtain ⟨s1, s2⟩ := FastX.saveDict_spec S addr k hI.jx
      obtain ⟨f1, f2⟩ := FastX.saveDict_frame S addr k
      have hI' : FastX.Inv (FastX.saveDict S addr k).1 (dict ++ acc) :=
        ⟨s1, s2.trans hI.tail, fun D h => by
          have h' : S.dctx = some D := by rw [← f1]; exact h
          have := (hI.dctx D h').2.1
          exact ⟨(hI.dctx D h').1, by omega, (hI.dctx D h').2.2⟩⟩
      simp only [blocksOf, nblocks, contentOf]
      exact ih _ acc hI' hleg rest
    | attach addr d => exact False.elim hleg
    | load addr d => exact False.elim hleg
    | block addr data =>
      obtain ⟨⟨h1, h2⟩, hrest⟩ := hleg
      have hbs := blockSizeOf_le p.bsid hb
      have hmax : data.size ≤ LZ4V.Gen.LZ4_MAX_INPUT_SIZE := by
        have : LZ4V.Gen.LZ4_MAX_INPUT_SIZE = 0x7E000000 := rfl
        omega
      obtain ⟨i1, _⟩ := compress_inv_anyD hashOf S (dict ++ acc) hI addr data (accelOf p) (data.size - 1) h1 hmax
      have hwin : (if (hdrOfL p).blockIndep = true then window dict [] else window dict acc) = window [] (dict ++ acc) := by
        simp [hdrOfL, window]
      have hpb := block_parses_core E ok hashOf p hb (hdrOfL p) rfl rfl dict (dict ++ acc) S acc hwin hI addr data h1 h2 (nblocks t + 1)
        (blocksOf E hashOf p (FastX.compress hashOf S addr data (accelOf p) (data.size - 1)).1 t ++ (encLE 4 0 ++ rest))
      simp only [blocksOf, nblocks, contentOf, List.append_assoc]
      rw [List.append_assoc] at i1
      rw [hpb, ih _ _ i1 hrest rest, List.append_assoc]

/-- a linked-blocks frame produced from a stream state whose history is a tail of the dictionary the decoder is given -/
theorem frameFromD_parses (E : Env) (ok : EnvOKL E) (hashOf : Array UInt8 → Bool → Nat → Nat) (p : Prefs) (hb : 4 ≤ p.bsid ∧ p.bsid ≤ 7)
    (hcs64 : p.contentSize < 256 ^ 8) (hd32 : p.dictID < 256 ^ 4) (dict : Bytes) (S0 : FastX.XState) (hI0 : FastX.Inv S0 dict) (ops : List LOp)
    (hleg : LegalSizes p ops) (hcs : p.contentSize = 0 ∨ p.contentSize = (contentOf ops).length) :
    pFrame E dict (nblocks ops + 1) (frameFrom E hashOf p S0 ops) = .ok (contentOf ops, []) := by
  have p32 : (256 : Nat) ^ 4 = 4294967296 := by decide
  unfold frameFrom headerL pFrame Parser.bind
  simp only [List.append_assoc]
  rw [takeN_app (encLE 4 LZ4V.Gen.LZ4F_MAGICNUMBER) _ 4 (encLE_length 4 _)]
  have hm : le (encLE 4 LZ4V.Gen.LZ4F_MAGICNUMBER) = lz4Magic := by decide
  simp only [hm, ne_eq, not_true_eq_false, ↓reduceIte]
  unfold pFrameBody Parser.bind
  have hh := headerL_parses E p hb hcs64 hd32 (blocksOf E hashOf p S0 ops ++ (encLE 4 0 ++ (if p.contentChecksum = true then encLE 4 (E.hash (contentOf ops)) else [])))
  simp only [List.append_assoc] at hh
  rw [hh]
  simp only []
  have hbk := blocksOf_parsesD E ok hashOf p hb dict ops S0 [] (by rw [List.append_nil]; exact hI0) hleg (if p.contentChecksum = true then encLE 4 (E.hash (contentOf ops)) else [])
  rw [List.nil_append] at hbk
  rw [hbk]
  simp only []
  have hcc : (hdrOfL p).contentChecksum = p.contentChecksum := rfl
  have hcrclen : (if p.contentChecksum = true then encLE 4 (E.hash (contentOf ops)) else []).length = (if (hdrOfL p).contentChecksum = true then 4 else 0) := by
    rw [hcc]; split <;> simp [encLE_length]
  have := takeN_app (if p.contentChecksum = true then encLE 4 (E.hash (contentOf ops)) else []) [] _ hcrclen
  rw [List.append_nil] at this
  rw [this]
  simp only []
  have hc1 : ¬ ((hdrOfL p).contentChecksum = true ∧ E.hash (contentOf ops) ≠ le (if p.contentChecksum = true then encLE 4 (E.hash (contentOf ops)) else [])) := by
    rw [hcc]
    intro ⟨h1, h2⟩
    rw [if_pos h1, le_encLE_lt 4 _ (by rw [p32]; exact ok.h32 _)] at h2
    exact h2 rfl
  have hc2 : ¬ ((hdrOfL p).contentSize.isSome = true ∧ (hdrOfL p).contentSize ≠ some (contentOf ops).length) := by
    show ¬ ((if p.contentSize > 0 then some p.contentSize else none).isSome = true ∧ (if p.contentSize > 0 then some p.contentSize else none) ≠ some (contentOf ops).length)
    rcases hcs with h0 | h0
    · rw [if_neg (by omega)]; simp
    · by_cases hz : p.contentSize > 0
      · rw [if_pos hz, h0]; simp
      · rw [if_neg hz]; simp
  simp only [hc1, hc2, ↓reduceIte, Parser.pure]


/-- **linked blocks with a dictionary** (`LZ4F_compressBegin_usingCDict`: the prepared stream is attached after the reset; `LZ4F_compressBegin_usingDict`: the
    raw dictionary is loaded): for ANY state of the context's LZ4 stream before (`JX`), any dictionary event `dop` whose bytes `d` are a tail of the
    dictionary `dict` the decoder is given (a CDict keeps the last 64 KB), ANY schedule of blocks and history saves after it: the frame is one complete
    frame of the specification decoded WITH `dict`, holding exactly the blocks -/
theorem frame_with_dictionary_parses (E : Env) (ok : EnvOKL E) (hashOf : Array UInt8 → Bool → Nat → Nat) (p : Prefs) (hb : 4 ≤ p.bsid ∧ p.bsid ≤ 7)
    (hcs64 : p.contentSize < 256 ^ 8) (hd32 : p.dictID < 256 ^ 4) (dict : Bytes) (S0 : FastX.XState) (hJ0 : FastX.JX S0) (addr : Nat) (d : Array UInt8)
    (hT : FastX.IsTail d.toList dict) (attached : Bool) (ops : List LOp) (hleg : LegalSizes p ops)
    (hcs : p.contentSize = 0 ∨ p.contentSize = (contentOf ops).length) :
    pFrame E dict (nblocks ops + 1) (frameFrom E hashOf p S0 ((if attached then LOp.attach addr d else LOp.load addr d) :: ops)) = .ok (contentOf ops, []) := by
  cases attached with
  | true =>
    have hI1 := Inv_weaken (attach_inv hashOf S0 hJ0 addr d true) hT
    have := frameFromD_parses E ok hashOf p hb hcs64 hd32 dict _ hI1 ops hleg hcs
    simpa [frameFrom, blocksOf, contentOf] using this
  | false =>
    have hI1 := Inv_weaken (load_inv hashOf addr d false) hT
    have := frameFromD_parses E ok hashOf p hb hcs64 hd32 dict _ hI1 ops hleg hcs
    simpa [frameFrom, blocksOf, contentOf] using this

/-! ### independent blocks with a CDict: the prepared stream is attached again before EVERY block -/

/-- the schedule of such a frame: (address and bytes of the CDict's dictionary, address and bytes of the block), one pair per block -/
def expandI : List (Nat × Array UInt8 × Nat × Array UInt8) → List LOp
  | [] => []
  | q :: t => .attach q.1 q.2.1 :: .block q.2.2.1 q.2.2.2 :: expandI t

def LegalI (p : Prefs) (dict : Bytes) (ps : List (Nat × Array UInt8 × Nat × Array UInt8)) : Prop :=
  ∀ q ∈ ps, FastX.IsTail q.2.1.toList dict ∧ 1 ≤ q.2.2.2.size ∧ q.2.2.2.size ≤ blockSizeOf p.bsid

theorem blocksOfI_parses (E : Env) (ok : EnvOKL E) (hashOf : Array UInt8 → Bool → Nat → Nat) (p : Prefs) (hb : 4 ≤ p.bsid ∧ p.bsid ≤ 7) (dict : Bytes) :
    ∀ (ps : List (Nat × Array UInt8 × Nat × Array UInt8)) (S : FastX.XState) (acc : Bytes), FastX.JX S → LegalI p dict ps → ∀ (rest : Bytes),
    pBlocks E (hdrOf p) dict (ps.length + 1) acc (blocksOf E hashOf p S (expandI ps) ++ (encLE 4 0 ++ rest)) = .ok (acc ++ contentOf (expandI ps), rest) := by
  intro ps
  induction ps with
  | nil =>
    intro S acc _ _ rest
    simp only [expandI, blocksOf, contentOf, List.length_nil, List.nil_append, List.append_nil]
    conv => lhs; unfold pBlocks
    unfold Parser.bind
    rw [takeN_app (encLE 4 0) rest 4 (encLE_length 4 0)]
    have : le (encLE 4 0) = 0 := by decide
    simp only [this, ↓reduceIte, Parser.pure]
  | cons q t ih =>
    intro S acc hJ hleg rest
    obtain ⟨daddr, d, addr, data⟩ := q
    obtain ⟨hT, h1, h2⟩ := hleg _ List.mem_cons_self
    dsimp only at hT h1 h2
    have hbs := blockSizeOf_le p.bsid hb
    have hmax : data.size ≤ LZ4V.Gen.LZ4_MAX_INPUT_SIZE := by
      have : LZ4V.Gen.LZ4_MAX_INPUT_SIZE = 0x7E000000 := rfl
      omega
    -- the state after the reset + attach, whatever came before
    have hI1 := Inv_weaken (attach_inv hashOf S hJ daddr d true) hT
    generalize hS1 : (FastX.step hashOf S (.attach daddr d true)).1 = S1 at hI1
    obtain ⟨i1, _⟩ := compress_inv_anyD hashOf S1 dict hI1 addr data (accelOf p) (data.size - 1) h1 hmax
    have hwin : (if (hdrOf p).blockIndep = true then window dict [] else window dict acc) = window [] dict := by
      simp [hdrOf, window]
    have hpb := block_parses_core E ok hashOf p hb (hdrOf p) rfl rfl dict dict S1 acc hwin hI1 addr data h1 h2 (t.length + 1)
      (blocksOf E hashOf p (FastX.compress hashOf S1 addr data (accelOf p) (data.size - 1)).1 (expandI t) ++ (encLE 4 0 ++ rest))
    simp only [expandI, blocksOf, contentOf, List.length_cons, List.append_assoc, hS1]
    rw [hpb, ih _ _ i1.jx (fun x hx => hleg x (List.mem_cons_of_mem _ hx)) rest, List.append_assoc]

/-- **independent blocks with a CDict**: whatever the state of the context's LZ4 stream before, wherever the blocks lie, every block being compressed right
    after the CDict's stream was attached: the frame is one complete frame of the specification decoded WITH the dictionary, each block against the last
    64 KB of the dictionary alone -/
theorem frameI_with_cdict_parses (E : Env) (ok : EnvOKL E) (hashOf : Array UInt8 → Bool → Nat → Nat) (p : Prefs) (hb : 4 ≤ p.bsid ∧ p.bsid ≤ 7)
    (hcs64 : p.contentSize < 256 ^ 8) (hd32 : p.dictID < 256 ^ 4) (dict : Bytes) (S0 : FastX.XState) (hJ0 : FastX.JX S0)
    (ps : List (Nat × Array UInt8 × Nat × Array UInt8)) (hleg : LegalI p dict ps)
    (hcs : p.contentSize = 0 ∨ p.contentSize = (contentOf (expandI ps)).length) :
    pFrame E dict (ps.length + 1) (frameFromI E hashOf p S0 (expandI ps)) = .ok (contentOf (expandI ps), []) := by
  have p32 : (256 : Nat) ^ 4 = 4294967296 := by decide
  unfold frameFromI header pFrame Parser.bind
  simp only [List.append_assoc]
  rw [takeN_app (encLE 4 LZ4V.Gen.LZ4F_MAGICNUMBER) _ 4 (encLE_length 4 _)]
  have hm : le (encLE 4 LZ4V.Gen.LZ4F_MAGICNUMBER) = lz4Magic := by decide
  simp only [hm, ne_eq, not_true_eq_false, ↓reduceIte]
  unfold pFrameBody Parser.bind
  have hh := header_parses E p hb hcs64 hd32 (blocksOf E hashOf p S0 (expandI ps) ++ (encLE 4 0 ++ (if p.contentChecksum = true then encLE 4 (E.hash (contentOf (expandI ps))) else [])))
  simp only [List.append_assoc] at hh
  rw [hh]
  simp only []
  have hbk := blocksOfI_parses E ok hashOf p hb dict ps S0 [] hJ0 hleg (if p.contentChecksum = true then encLE 4 (E.hash (contentOf (expandI ps))) else [])
  rw [List.nil_append] at hbk
  rw [hbk]
  simp only []
  have hcc : (hdrOf p).contentChecksum = p.contentChecksum := rfl
  have hcrclen : (if p.contentChecksum = true then encLE 4 (E.hash (contentOf (expandI ps))) else []).length = (if (hdrOf p).contentChecksum = true then 4 else 0) := by
    rw [hcc]; split <;> simp [encLE_length]
  have := takeN_app (if p.contentChecksum = true then encLE 4 (E.hash (contentOf (expandI ps))) else []) [] _ hcrclen
  rw [List.append_nil] at this
  rw [this]
  simp only []
  have hc1 : ¬ ((hdrOf p).contentChecksum = true ∧ E.hash (contentOf (expandI ps)) ≠ le (if p.contentChecksum = true then encLE 4 (E.hash (contentOf (expandI ps))) else [])) := by
    rw [hcc]
    intro ⟨h1, h2⟩
    rw [if_pos h1, le_encLE_lt 4 _ (by rw [p32]; exact ok.h32 _)] at h2
    exact h2 rfl
  have hc2 : ¬ ((hdrOf p).contentSize.isSome = true ∧ (hdrOf p).contentSize ≠ some (contentOf (expandI ps)).length) := by
    show ¬ ((if p.contentSize > 0 then some p.contentSize else none).isSome = true ∧ (if p.contentSize > 0 then some p.contentSize else none) ≠ some (contentOf (expandI ps)).length)
    rcases hcs with h0 | h0
    · rw [if_neg (by omega)]; simp
    · by_cases hz : p.contentSize > 0
      · rw [if_pos hz, h0]; simp
      · rw [if_neg hz]; simp
  simp only [hc1, hc2, ↓reduceIte, Parser.pure]

end LZ4V.Model.FrameLinked
