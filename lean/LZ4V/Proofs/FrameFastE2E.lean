import LZ4V.Proofs.FrameFastProof
import LZ4V.Properties.C07
import LZ4V.Proofs.StreamLProof
/-!
# End to end: call history → frame bytes → specification parse = the bytes that were fed
-/
namespace LZ4V.Model.FrameFast
open LZ4V.Model
open LZ4V.Spec.FrameL
open LZ4V.Spec.Frame (blockSizeOf)

theorem run_begin (bs : Nat) (af : Bool) (rest : List FrameC.Op) :
    FrameC.run {} (FrameC.Op.begin bs af :: rest) = FrameC.run (LZ4V.C03.afterBegin bs af) rest := by
  conv => lhs; unfold FrameC.run
  simp only [FrameC.step]
  cases h : FrameC.run { stage := 1, blockSize := bs, autoFlush := af, uncompressedMode := false, buffered := [], totalIn := 0 } rest with
  | error e =>
    have : FrameC.run (LZ4V.C03.afterBegin bs af) rest = .error e := h
    rw [this]
  | ok v =>
    obtain ⟨c2, bl⟩ := v
    have : FrameC.run (LZ4V.C03.afterBegin bs af) rest = .ok (c2, bl) := h
    rw [this]
    simp

/-- **the frame produced for ANY call history decodes to exactly what was fed**: `LZ4F_compressBegin`, any sequence of
    `LZ4F_compressUpdate` (any sizes) and `LZ4F_flush`, `LZ4F_compressEnd`, on a fresh context, fast level, independent blocks, any
    block size id, checksums, autoFlush, declared content size (absent or the true one), any checksum function with 32-bit values and any
    block decoder that implements the block specification: the resulting bytes are ONE complete frame for the stream specification, its
    content is the concatenation of the fed buffers, and nothing is left over -/
theorem frameOfOps_parses (E : Env) (ok : EnvOK E) (hashOf : Array UInt8 → Bool → Nat → Nat) (p : Prefs) (hb : 4 ≤ p.bsid ∧ p.bsid ≤ 7)
    (hcs64 : p.contentSize < 256 ^ 8) (hd32 : p.dictID < 256 ^ 4) (ops : List FrameC.Op)
    (hops : ∀ op ∈ ops, ∀ b a, op ≠ .begin b a) (f : Bytes) (h : frameOfOps E hashOf p ops = some f)
    (hcs : p.contentSize = 0 ∨ p.contentSize = (FrameC.fed ops).length) :
    ∃ F, pFrame E [] F f = .ok (FrameC.fed ops, []) := by
  unfold frameOfOps at h
  rw [List.cons_append, run_begin] at h
  cases hr : FrameC.run (LZ4V.C03.afterBegin (blockSizeOf p.bsid) p.autoFlush) (ops ++ [FrameC.Op.finish]) with
  | error e => rw [hr] at h; cases h
  | ok v =>
    obtain ⟨c', blocks⟩ := v
    rw [hr] at h
    simp only [Option.some.injEq] at h
    subst h
    have hbs := (blockSizeOf_le p.bsid hb).1
    obtain ⟨h1, _, _⟩ := LZ4V.C03.finished_frame_holds_input (blockSizeOf p.bsid) p.autoFlush hbs ops c' blocks hops hr
    have hops' : ∀ op ∈ ops ++ [FrameC.Op.finish], ∀ b a, op ≠ .begin b a := by
      intro op hop b a
      rcases List.mem_append.mp hop with h0 | h0
      · exact hops op h0 b a
      · simp only [List.mem_singleton] at h0; subst h0; intro hc; cases hc
    have hall := LZ4V.C07.block_sizes_conform (blockSizeOf p.bsid) p.autoFlush hbs (ops ++ [FrameC.Op.finish]) c' blocks hops' hr
    refine ⟨blocks.length + 1, ?_⟩
    rw [← h1]
    exact frame_parses E ok hashOf p hb hcs64 hd32 blocks (fun b hbm => ⟨List.length_pos_iff.mp (hall b hbm).1, (hall b hbm).2⟩) (by rw [h1]; exact hcs)

/-- the same on a compression context with a past: the LZ4 state the earlier frames left is ANY state satisfying `FastR.J` -/
theorem frameOfOpsFrom_parses (E : Env) (ok : EnvOK E) (hashOf : Array UInt8 → Bool → Nat → Nat) (p : Prefs) (hb : 4 ≤ p.bsid ∧ p.bsid ≤ 7)
    (hcs64 : p.contentSize < 256 ^ 8) (hd32 : p.dictID < 256 ^ 4) (S0 : FastR.RState) (hJ0 : FastR.J S0) (ops : List FrameC.Op)
    (hops : ∀ op ∈ ops, ∀ b a, op ≠ .begin b a) (f : Bytes) (h : frameOfOpsFrom E hashOf p S0 ops = some f)
    (hcs : p.contentSize = 0 ∨ p.contentSize = (FrameC.fed ops).length) :
    ∃ F, pFrame E [] F f = .ok (FrameC.fed ops, []) := by
  unfold frameOfOpsFrom at h
  rw [List.cons_append, run_begin] at h
  cases hr : FrameC.run (LZ4V.C03.afterBegin (blockSizeOf p.bsid) p.autoFlush) (ops ++ [FrameC.Op.finish]) with
  | error e => rw [hr] at h; cases h
  | ok v =>
    obtain ⟨c', blocks⟩ := v
    rw [hr] at h
    simp only [Option.some.injEq] at h
    subst h
    have hbs := (blockSizeOf_le p.bsid hb).1
    obtain ⟨h1, _, _⟩ := LZ4V.C03.finished_frame_holds_input (blockSizeOf p.bsid) p.autoFlush hbs ops c' blocks hops hr
    have hops' : ∀ op ∈ ops ++ [FrameC.Op.finish], ∀ b a, op ≠ .begin b a := by
      intro op hop b a
      rcases List.mem_append.mp hop with h0 | h0
      · exact hops op h0 b a
      · simp only [List.mem_singleton] at h0; subst h0; intro hc; cases hc
    have hall := LZ4V.C07.block_sizes_conform (blockSizeOf p.bsid) p.autoFlush hbs (ops ++ [FrameC.Op.finish]) c' blocks hops' hr
    refine ⟨blocks.length + 1, ?_⟩
    rw [← h1]
    exact frameFrom_parses E ok hashOf p hb hcs64 hd32 S0 hJ0 blocks (fun b hbm => ⟨List.length_pos_iff.mp (hall b hbm).1, (hall b hbm).2⟩) (by rw [h1]; exact hcs)

/-- … hence, as a STREAM (what `lz4 -d` consumes), it decodes to what was fed -/
theorem frameOfOps_stream (E : Env) (ok : EnvOK E) (hashOf : Array UInt8 → Bool → Nat → Nat) (p : Prefs) (hb : 4 ≤ p.bsid ∧ p.bsid ≤ 7)
    (hcs64 : p.contentSize < 256 ^ 8) (hd32 : p.dictID < 256 ^ 4) (ops : List FrameC.Op)
    (hops : ∀ op ∈ ops, ∀ b a, op ≠ .begin b a) (f : Bytes) (h : frameOfOps E hashOf p ops = some f)
    (hcs : p.contentSize = 0 ∨ p.contentSize = (FrameC.fed ops).length) :
    Decodes E [] f (FrameC.fed ops) := by
  obtain ⟨F, hF⟩ := frameOfOps_parses E ok hashOf p hb hcs64 hd32 ops hops f h hcs
  have hany := pFrame_to_any E [] F f _ hF
  have hne : f ≠ [] := by
    intro h0
    subst h0
    unfold pFrame Parser.bind takeN at hF
    simp at hF
  refine ⟨F, 2, ?_⟩
  have := pStream_build E [] F 1 f hne (FrameC.fed ops) [] [] hany (pStream_nil E [] F 0)
  simpa using this

/-- an environment that satisfies `EnvOK`: any 32-bit checksum function, the block specification decoder -/
def specEnv (hash : Bytes → Nat) : Env :=
  { hash := hash, dec := fun hist payload cap => (LZ4V.Spec.Block.decode hist payload).bind (fun d => if d.length ≤ cap then some d else none) }

theorem specEnv_ok (hash : Bytes → Nat) (h32 : ∀ l, hash l < 4294967296) : EnvOK (specEnv hash) :=
  ⟨h32, fun payload cap D hd hl => by simp [specEnv, hd, hl]⟩

end LZ4V.Model.FrameFast
