import LZ4V.Model.FrameDS
import LZ4V.Proofs.FrameDProof
import LZ4V.Proofs.StreamLProof
/-!
# The dStage machine computes the frame specification, whatever the chunking — part 1: the specification side

`pDFrame` is what ONE frame handed to `LZ4F_decompress` must decode to: an LZ4 frame (`Spec/FrameL.lean`'s header and block parsers; the declared
content size is checked when it is non-zero, which is all the C tracks and all property C08 asks) or a skippable frame (empty content).
`K f c` is the parser that remains to be run when the machine is in context `c` (the bytes in `stg c` have been taken from the input but
not parsed yet).  The run invariant of part 3 is `pDFrame (consumed ++ t) ≃ K c (stg c ++ t)` for EVERY continuation `t` of the input:
where a call boundary falls is invisible in it, which is why the verdict and the output cannot depend on the chunking.
-/
namespace LZ4V.Model.FrameDS
open LZ4V.Spec.FrameL
open LZ4V.Spec.Frame (Bad Header isSkippableMagic)

/-- the frame header size announced by the FLG byte -/
def fhs (src : Bytes) : Nat :=
  7 + (if (FrameD.byteAt src 4 / 8 % 2 == 1) = true then 8 else 0) + (if (FrameD.byteAt src 4 % 2 == 1) = true then 4 else 0)

/-- same acceptance, same result (the error values may differ: the C and the specification order some checks differently) -/
def okEq {α : Type} (a b : Except Bad α) : Prop := ∀ x, a = .ok x ↔ b = .ok x

theorem okEq.rfl' {α : Type} (a : Except Bad α) : okEq a a := fun _ => Iff.rfl
theorem okEq.of_eq {α : Type} {a b : Except Bad α} (h : a = b) : okEq a b := by subst h; exact okEq.rfl' a
theorem okEq.trans {α : Type} {a b c : Except Bad α} (h1 : okEq a b) (h2 : okEq b c) : okEq a c := fun x => (h1 x).trans (h2 x)
theorem okEq.symm {α : Type} {a b : Except Bad α} (h : okEq a b) : okEq b a := fun x => (h x).symm
theorem okEq.errors {α : Type} {a b : Except Bad α} (ha : ∀ x, a ≠ .ok x) (hb : ∀ x, b ≠ .ok x) : okEq a b :=
  fun x => ⟨fun h => absurd h (ha x), fun h => absurd h (hb x)⟩

/-- end of frame: the declared size (0: nothing to check), then the content checksum -/
def pSuffixZ (E : Env) (cc : Bool) (cs : Nat) (content : Bytes) : Parser Bytes :=
  if cs ≠ 0 ∧ cs ≠ content.length then Parser.fail .contentSize else
  (takeN (if cc then 4 else 0)).bind fun crc =>
  if cc ∧ E.hash content ≠ le crc then Parser.fail .contentChecksum else Parser.pure content

def pBodyRest (E : Env) (dict : Bytes) (f : Nat) (hdr : Header) : Parser Bytes :=
  (pBlocks E hdr dict f []).bind fun content => pSuffixZ E hdr.contentChecksum (hdr.contentSize.getD 0) content

/-- an LZ4 frame after its magic number, the declared content size being checked when it is not zero -/
def pFrameBodyZ (E : Env) (dict : Bytes) (f : Nat) : Parser Bytes := (pHeader E).bind (pBodyRest E dict f)

/-- one frame as `LZ4F_decompress` understands it: skippable (no content) or LZ4 -/
def pDFrame (E : Env) (dict : Bytes) (f : Nat) : Parser Bytes :=
  (takeN 4).bind fun m4 =>
  if isSkippableMagic (le m4) then pSkippable.bind fun _ => Parser.pure []
  else if le m4 ≠ lz4Magic then Parser.fail .magic
  else pFrameBodyZ E dict f

/-- the header fields the block loop looks at, read back from the context -/
def hdrOf (c : Ctx) : Header :=
  { blockIndep := !c.linked, blockChecksum := c.blockChecksum, contentSize := none, contentChecksum := c.contentChecksum, dictId := none,
    bsid := 0, maxBlock := c.maxBlockSize, size := 0 }

/-- remaining blocks, then the end of the frame -/
def KB (E : Env) (f : Nat) (c : Ctx) (content : Bytes) : Parser Bytes :=
  (pBlocks E (hdrOf c) c.dict f content).bind (pSuffixZ E c.contentChecksum c.contentSize)

/-- inside an uncompressed block: `tmpInTarget` bytes of it are still to come -/
def KRaw (E : Env) (f : Nat) (c : Ctx) : Parser Bytes :=
  (takeN c.tmpInTarget).bind fun rest =>
  (takeN (if c.blockChecksum then 4 else 0)).bind fun crc =>
  if c.blockChecksum ∧ E.hash (c.blockHashed ++ rest) ≠ le crc then Parser.fail .blockChecksum else KB E f c (c.content ++ rest)

/-- after an uncompressed block, in front of its checksum -/
def KCrc (E : Env) (f : Nat) (c : Ctx) : Parser Bytes :=
  (takeN 4).bind fun crc => if E.hash c.blockHashed ≠ le crc then Parser.fail .blockChecksum else KB E f c c.content

/-- a compressed block once its `tmpInTarget` bytes `sel` (payload and, if any, checksum) have been taken -/
def KCsel (E : Env) (f : Nat) (c : Ctx) (sel : Bytes) : Parser Bytes :=
  let n := if c.blockChecksum then c.tmpInTarget - 4 else c.tmpInTarget
  if c.blockChecksum ∧ E.hash (sel.take n) ≠ le (sel.drop n) then Parser.fail .blockChecksum else
  match E.dec (history c) (sel.take n) c.maxBlockSize with
  | some d => KB E f c (c.content ++ d)
  | none => Parser.fail (.blockDecode "")

/-- in front of a compressed block -/
def KC (E : Env) (f : Nat) (c : Ctx) : Parser Bytes := (takeN c.tmpInTarget).bind (KCsel E f c)

def KSufCrc (E : Env) (c : Ctx) : Parser Bytes :=
  (takeN 4).bind fun crc => if E.hash c.hashed ≠ le crc then Parser.fail .contentChecksum else Parser.pure c.content

/-- the parser that remains to be run -/
def K (E : Env) (f : Nat) (c : Ctx) : Parser Bytes :=
  match c.stage with
  | .getFrameHeader => pDFrame E c.dict f
  | .storeFrameHeader => pDFrame E c.dict f
  | .init => KB E f c []
  | .getBlockHeader => KB E f c c.content
  | .storeBlockHeader => KB E f c c.content
  | .flushOut => KB E f c c.content
  | .copyDirect => KRaw E f c
  | .getBlockChecksum => KCrc E f c
  | .getCBlock => KC E f c
  | .storeCBlock => KC E f c
  | .getSuffix => pSuffixZ E c.contentChecksum c.contentSize c.content
  | .storeSuffix => KSufCrc E c
  | .getSFrameSize => pSkippable.bind fun _ => Parser.pure []
  | .storeSFrameSize => pSkippable.bind fun _ => Parser.pure []
  | .skipSkippable => (takeN c.tmpInTarget).bind fun _ => Parser.pure []

/-- bytes taken from the input that `K` has still to see -/
def stg (c : Ctx) : Bytes :=
  match c.stage with
  | .storeFrameHeader => c.staged
  | .storeBlockHeader => c.staged
  | .getBlockChecksum => c.staged
  | .storeCBlock => c.staged
  | .storeSuffix => c.staged
  | .storeSFrameSize => c.staged.drop 4
  | _ => []

/-- decoded bytes not yet handed to the caller -/
def pending (c : Ctx) : Bytes :=
  match c.stage with
  | .flushOut => c.tmpOut.drop c.tmpOutStart
  | _ => []

def inBlocks (s : Stage) : Bool :=
  match s with
  | .getBlockHeader | .storeBlockHeader | .copyDirect | .getBlockChecksum | .getCBlock | .storeCBlock | .flushOut | .getSuffix | .storeSuffix => true
  | _ => false

/-- what the parse equation needs to know about a context (every reachable context of a session without `skipChecksums` satisfies it) -/
structure Inv (c : Ctx) : Prop where
  noskip : c.skipChecksum = false
  rem0 : (c.stage = .getFrameHeader ∨ c.stage = .storeFrameHeader ∨ c.stage = .getSFrameSize ∨ c.stage = .storeSFrameSize ∨ c.stage = .skipSkippable) → c.frameRemaining = 0
  remI : c.stage = .init → c.frameRemaining = (c.contentSize : Int)
  remB : inBlocks c.stage = true → c.frameRemaining = (if c.contentSize ≠ 0 then (c.contentSize : Int) - c.content.length else 0)
  hashB : inBlocks c.stage = true → c.contentChecksum = true → c.hashed = c.content
  stFH : c.stage = .storeFrameHeader → c.staged.length ≤ c.tmpInTarget ∧ 7 ≤ c.tmpInTarget ∧
    (c.tmpInTarget = 7 ∨ (7 ≤ c.staged.length ∧ isSkippableMagic (le (c.staged.take 4)) = false ∧ c.tmpInTarget = fhs c.staged))
  stBH : c.stage = .storeBlockHeader → c.staged.length ≤ 4
  stBC : c.stage = .getBlockChecksum → c.staged.length ≤ 4 ∧ c.blockChecksum = true
  stCB : c.stage = .storeCBlock → c.staged.length ≤ c.tmpInTarget
  tgCB : (c.stage = .getCBlock ∨ c.stage = .storeCBlock) → c.blockChecksum = true → 4 ≤ c.tmpInTarget
  stSF : c.stage = .storeSuffix → c.staged.length ≤ 4 ∧ c.contentChecksum = true ∧ c.frameRemaining = 0
  stSS : c.stage = .storeSFrameSize → 4 ≤ c.staged.length ∧ c.staged.length ≤ 8 ∧ c.tmpInTarget = 8
  flush : c.stage = .flushOut → c.tmpOutStart ≤ c.tmpOut.length ∧ ∃ pre, c.content = pre ++ c.tmpOut

/-- `delivered` = everything handed to the caller since the frame began -/
def Out (c : Ctx) (delivered : Bytes) : Prop :=
  if inBlocks c.stage then delivered ++ pending c = c.content else delivered = []

end LZ4V.Model.FrameDS
