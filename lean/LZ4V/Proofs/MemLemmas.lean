import LZ4V.Model.Mem
/-!
# `Good` : Hoare-style composition for `Except Err`, and safety lemmas for the memory primitives
-/
namespace LZ4V.Model

/-- "good" outcomes: anything but a memory fault or running out of fuel -/
def Good {α} (P : α → Prop) : Except Err α → Prop
  | .ok a => P a
  | .error (.bad _) => True
  | .error _ => False

theorem Good.bind {α β} {P : α → Prop} {Q : β → Prop} {x : Except Err α} {f : α → Except Err β}
    (hx : Good P x) (hf : ∀ a, P a → Good Q (f a)) : Good Q (x >>= f) := by
  match x, hx with
  | .ok a, hx => exact hf a hx
  | .error (.bad _), _ => show Good Q (Except.error _); simp [Good]
  | .error (.fault f), hx => simp [Good] at hx
  | .error .fuel, hx => simp [Good] at hx

theorem Good.mono {α} {P Q : α → Prop} {x : Except Err α} (hx : Good P x) (h : ∀ a, P a → Q a) : Good Q x := by
  match x, hx with
  | .ok a, hx => exact h a hx
  | .error (.bad _), _ => simp [Good]
  | .error (.fault f), hx => simp [Good] at hx
  | .error .fuel, hx => simp [Good] at hx

theorem Good.ok {α} {P : α → Prop} {a : α} (h : P a) : Good P (Except.ok a : Except Err α) := h
theorem Good.pure {α} {P : α → Prop} {a : α} (h : P a) : Good P (Pure.pure a : Except Err α) := h
theorem Good.bad {α} {P : α → Prop} {ip : Nat} : Good P (Except.error (Err.bad ip) : Except Err α) := trivial

/-! ## copies -/

theorem copyIn_good (dst : Bytes) (d : Nat) (src : Bytes) (s : Nat) (rf : Fault) (n : Nat)
    (hd : d + n ≤ dst.size) (hs : s + n ≤ src.size) :
    Good (fun b => b.size = dst.size) (copyIn dst d src s rf n) := by
  induction n generalizing dst d s with
  | zero => exact Good.ok rfl
  | succ n ih =>
    have h1 : s < src.size := by omega
    have h2 : d < dst.size := by omega
    simp only [copyIn, h1, h2, dite_true]
    exact (ih (dst.set d src[s]) (d+1) (s+1) (by simp; omega) (by omega)).mono (by intro b hb; simpa using hb)

theorem fwd_good (a : Bytes) (d s n : Nat) (hd : d + n ≤ a.size) (hs : s + n ≤ a.size) :
    Good (fun b => b.size = a.size) (fwd a d s n) := by
  induction n generalizing a d s with
  | zero => exact Good.ok rfl
  | succ n ih =>
    have h1 : s < a.size := by omega
    have h2 : d < a.size := by omega
    simp only [fwd, h1, h2, dite_true]
    exact (ih (a.set d a[s]) (d+1) (s+1) (by simp; omega) (by simp; omega)).mono (by intro b hb; simpa using hb)

/-- a forward copy whose source lies below its destination only needs the destination range in bounds -/
theorem fwd_good_below (a : Bytes) (d s n : Nat) (hd : d + n ≤ a.size) (hs : s ≤ d) :
    Good (fun b => b.size = a.size) (fwd a d s n) := fwd_good a d s n hd (by omega)

theorem memcpyB_good (a : Bytes) (d s n : Nat) (hd : d + n ≤ a.size) (hs : s + n ≤ a.size)
    (hno : s + n ≤ d ∨ d + n ≤ s) : Good (fun b => b.size = a.size) (memcpyB a d s n) := by
  unfold memcpyB
  by_cases h0 : n = 0
  · rw [if_pos h0]; exact Good.ok rfl
  · rw [if_neg h0, if_neg (by omega)]
    exact fwd_good a d s n hd hs

theorem zero4_good (a : Bytes) (d : Nat) (hd : d + 4 ≤ a.size) : Good (fun b => b.size = a.size) (zero4 a d) := by
  unfold zero4
  rw [if_pos hd]
  exact Good.ok (by simp)

theorem wild8len_le (d e : Nat) : wild8len d e ≤ (e - d) + 8 ∧ 8 ≤ wild8len d e ∧ e - d ≤ wild8len d e ∧ (d < e → wild8len d e ≤ e - d + 7) := by
  unfold wild8len; split <;> omega

theorem wild32len_le (d e : Nat) : wild32len d e ≤ (e - d) + 32 ∧ 32 ≤ wild32len d e ∧ e - d ≤ wild32len d e ∧ (d < e → wild32len d e ≤ e - d + 31) := by
  unfold wild32len; split <;> omega

theorem wildCopy8B_good (a : Bytes) (d s e : Nat) (hs : s + 8 ≤ d) (hd : d + wild8len d e ≤ a.size) :
    Good (fun b => b.size = a.size) (wildCopy8B a d s e) := by
  unfold wildCopy8B
  rw [if_neg (by omega)]
  exact fwd_good_below a d s _ hd (by omega)

theorem wildCopy32B_good (a : Bytes) (d s e : Nat) (hs : s + 16 ≤ d) (hd : d + wild32len d e ≤ a.size) :
    Good (fun b => b.size = a.size) (wildCopy32B a d s e) := by
  unfold wildCopy32B
  rw [if_neg (by omega)]
  exact fwd_good_below a d s _ hd (by omega)

theorem rd8_good (src : Bytes) (i : Nat) (h : i < src.size) : Good (fun v => v < 256) (rd8 src i) := by
  unfold rd8
  rw [dif_pos h]
  exact Good.ok (UInt8.toNat_lt _)

theorem rd16_good (src : Bytes) (i : Nat) (h : i + 1 < src.size) : Good (fun v => v ≤ 65535) (rd16 src i) := by
  unfold rd16
  rw [dif_pos h]
  have h1 := UInt8.toNat_lt src[i]
  have h2 := UInt8.toNat_lt src[i+1]
  exact Good.ok (by omega)

end LZ4V.Model
