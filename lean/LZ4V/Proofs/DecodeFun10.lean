import LZ4V.Proofs.DecodeFun9
/-!
# What the decoder model computes, part 10: `LZ4_decompress_generic` as a whole against the specification decoder
-/
namespace LZ4V.Model.Decode
open LZ4V.Model LZ4V.Gen LZ4V.Spec.Block

/-- the history the decoder can see when it starts: external dictionary, then the prefix `buf[lowPrefix, dst)` -/
def histOf (env : Env) (buf : Bytes) : List UInt8 := env.ext.toList ++ (buf.extract env.low.toNat env.dst0).toList

theorem histOf_length (env : Env) (buf : Bytes) (hd : env.dst0 ≤ buf.size) : (histOf env buf).length = env.ext.size + (env.dst0 - env.low.toNat) := by
  unfold histOf
  simp only [List.length_append, Array.length_toList, Array.size_extract]
  omega

theorem rel_start (env : Env) (buf : Bytes) (hd : env.dst0 ≤ buf.size) : Rel env buf env.dst0 (histOf env buf) := by
  refine ⟨histOf_length env buf hd, ?_⟩
  intro k hk
  rw [histOf_length env buf hd] at hk
  unfold histOf vw
  by_cases hkE : k < env.ext.size
  · rw [if_pos hkE, List.getElem?_append_left (by simpa using hkE)]
    simp
  · rw [if_neg hkE, List.getElem?_append_right (by simp; omega)]
    simp only [Array.length_toList, Array.getElem?_toList]
    rw [Array.getElem?_extract, if_pos (by omega)]

/-- the decoded bytes, read back from the buffer -/
theorem rel_drop (env : Env) (b : Bytes) (op : Nat) (outf : List UInt8) (h : Rel env b op outf) (hL : env.low.toNat ≤ env.dst0)
    (hd : env.dst0 ≤ op) (hop : op ≤ b.size) : outf.drop (env.ext.size + (env.dst0 - env.low.toNat)) = (b.extract env.dst0 op).toList := by
  apply List.ext_getElem?
  intro i
  rw [List.getElem?_drop]
  have hlen := h.len
  by_cases hi : i < op - env.dst0
  · rw [h.get _ (by omega)]
    unfold vw
    rw [if_neg (by omega)]
    simp only [Array.getElem?_toList]
    rw [Array.getElem?_extract, if_pos (by omega)]
    congr 1
    omega
  · rw [List.getElem?_eq_none (by omega), List.getElem?_eq_none (by simp; omega)]

/-- a successful specification decode does not depend on the fuel, once there is more fuel than input -/
theorem decodeAux_enough : ∀ (f : Nat) (inp out r : List UInt8), decodeAux f inp out = some r → ∀ g, inp.length < g → decodeAux g inp out = some r := by
  intro f
  induction f with
  | zero => intro inp out r h; simp [decodeAux] at h
  | succ f ih =>
    intro inp out r h g hg
    cases g with
    | zero => omega
    | succ g =>
      rw [decodeAux_pstep] at h ⊢
      cases hp : pstep inp with
      | fail => rw [hp] at h; cases h
      | fin l => rw [hp] at h; exact h
      | seq s rest =>
        rw [hp] at h
        dsimp only at h ⊢
        cases hc : copyMatch (out ++ s.lits) s.off s.ml with
        | none => rw [hc] at h; cases h
        | some out2 =>
          rw [hc] at h
          dsimp only at h ⊢
          have := pstep_seq_shorter inp s rest hp
          exact ih rest out2 r h g (by omega)

theorem rem_zero (src : Bytes) : rem src 0 = src.toList := by unfold rem; simp

theorem first_inv (env : Env) (buf : Bytes) (hw : WF env buf.size) (hcap : ¬ buf.size - env.dst0 = 0) (hsrc : ¬ env.src.size = 0) :
    let first : Next := if env.fastLoop ∧ ¬ (buf.size - env.dst0 < FASTLOOP_SAFE_DISTANCE) then Next.fast ⟨0, env.dst0, buf⟩ else Next.safe ⟨0, env.dst0, buf⟩
    (first = .safe ⟨0, env.dst0, buf⟩ ∨ first = .fast ⟨0, env.dst0, buf⟩) ∧ LoopInv env buf.size first := by
  have h64 := c_FSD
  have hd := hw.dst0_le
  dsimp only
  split
  · exact ⟨Or.inr rfl, by simp only [LoopInv, true_and]; omega⟩
  · exact ⟨Or.inl rfl, by simp only [LoopInv, true_and]; omega⟩

/-- **converse**: if `LZ4_decompress_generic` (full decoding) returns `n ≥ 0`, the specification decoder, given the history the decoder
    could see, decodes the same input to exactly the `n` bytes now at `dst` — unless the walk over the sequences meets an offset 0 -/
theorem generic_conv (env : Env) (buf : Bytes) (hw : WF2 env buf.size) (hnp : env.partialD = false) (r : Result) (h : generic env buf = .ok r) (hret : 0 ≤ r.ret) :
    decode (histOf env buf) env.src.toList = some ((r.buf.extract env.dst0 (env.dst0 + r.ret.toNat)).toList) ∨
    (∃ f, HasZero f env.src.toList) := by
  have hd := hw.wf.dst0_le
  have hL := hw.wf.low_le
  unfold generic at h
  dsimp only at h
  by_cases hcap : buf.size - env.dst0 = 0
  · rw [if_pos hcap, hnp] at h
    simp only [Bool.false_eq_true, if_false] at h
    by_cases h1 : env.src.size = 1 ∧ env.src[0]! = 0
    · rw [if_pos h1] at h
      simp only [Except.ok.injEq] at h
      subst h
      left
      have hsrc : env.src.toList = [0] := by
        obtain ⟨h1a, h1b⟩ := h1
        rcases hs : env.src with ⟨l⟩
        rw [hs] at h1a h1b
        cases l with
        | nil => simp at h1a
        | cons a t =>
          cases t with
          | nil => simp at h1b; subst h1b; rfl
          | cons a' t' => simp at h1a
      rw [hsrc]
      unfold decode
      have : decodeAux ([0] : List UInt8).length.succ [0] (histOf env buf) = some (histOf env buf ++ []) := by
        rw [decodeAux_pstep]; rfl
      simp only [List.length_cons, List.length_nil, Nat.zero_add, Nat.succ_eq_add_one] at this ⊢
      rw [this]
      simp
    · rw [if_neg h1] at h
      simp only [Except.ok.injEq] at h
      subst h
      simp at hret
  · rw [if_neg hcap] at h
    by_cases hsrc : env.src.size = 0
    · rw [if_pos hsrc] at h
      simp only [Except.ok.injEq] at h
      subst h
      simp at hret
    · rw [if_neg hsrc] at h
      obtain ⟨hfirst, hinv⟩ := first_inv env buf hw.wf hcap hsrc
      have hgood := loop_good env buf.size hw.wf (env.src.size + 2) _ hinv (Or.inr (by
        rcases hfirst with hf | hf <;> rw [hf] <;> simp only [nextIp] <;> omega)) (by omega)
      cases hl : loop env (env.src.size + 2)
          (if env.fastLoop ∧ ¬ (buf.size - env.dst0 < FASTLOOP_SAFE_DISTANCE) then Next.fast ⟨0, env.dst0, buf⟩ else Next.safe ⟨0, env.dst0, buf⟩) with
      | error e =>
        rw [hl] at h
        cases e with
        | bad ip => simp only [Except.ok.injEq] at h; subst h; dsimp only at hret; omega
        | fault f => cases h
        | fuel => cases h
      | ok stf =>
        rw [hl] at h hgood
        simp only [Except.ok.injEq] at h
        subst h
        simp only [Good] at hgood
        dsimp only at hret ⊢
        have hconv := loop_conv env buf.size hw hnp (env.src.size + 2) _ ⟨0, env.dst0, buf⟩ hfirst hinv _ (rel_start env buf hd) stf hl
        rcases hconv with ⟨f, outf, hdec, hrel⟩ | hz
        · left
          dsimp only at hdec
          rw [rem_zero] at hdec
          have hdec' := decodeAux_enough f _ _ _ hdec (env.src.toList.length + 1) (by omega)
          unfold decode
          rw [hdec']
          simp only [Option.map_some, Option.some.injEq]
          rw [histOf_length env buf hd, rel_drop env stf.buf stf.op outf hrel (by omega) hgood.2.1 (by omega)]
          congr 2
          omega
        · right
          dsimp only at hz
          rw [rem_zero] at hz
          exact hz

/-- **forward**: on an input that meets the forward hypothesis (`VTail`: what a format-valid block guarantees, `vtail_of_valid`),
    `LZ4_decompress_generic` returns the exact decoded size and leaves exactly the specified bytes at `dst`; in partial mode it may
    instead stop with the destination full, holding exactly the prefix of the content that fits -/
theorem generic_fwd (env : Env) (buf : Bytes) (hw : WF2 env buf.size) (hcap : env.dst0 < buf.size) (f : Nat) (fin : List UInt8)
    (hv : VTail env buf.size f env.dst0 env.src.toList (histOf env buf)) (hdec : decodeAux f env.src.toList (histOf env buf) = some fin) :
    ∃ r, generic env buf = .ok r ∧ 0 ≤ r.ret ∧ r.buf.size = buf.size ∧ env.dst0 + r.ret.toNat ≤ buf.size ∧
      (r.buf.extract env.dst0 (env.dst0 + r.ret.toNat)).toList = (fin.drop (histOf env buf).length).take r.ret.toNat ∧
      (r.ret.toNat = fin.length - (histOf env buf).length ∨
        (env.partialD = true ∧ env.dst0 + r.ret.toNat = buf.size ∧ r.ret.toNat ≤ fin.length - (histOf env buf).length)) := by
  have hd := hw.wf.dst0_le
  have hL := hw.wf.low_le
  unfold generic
  dsimp only
  rw [if_neg (by omega)]
  by_cases hsrc : env.src.size = 0
  · exfalso
    cases f with
    | zero => exact hv
    | succ f =>
      simp only [VTail, VIter] at hv
      have : env.src.toList = [] := by apply List.eq_nil_of_length_eq_zero; simpa using hsrc
      rw [this] at hv
      simp only [pstep] at hv
      exact hv.1
  · rw [if_neg hsrc]
    obtain ⟨hfirst, hinv⟩ := first_inv env buf hw.wf (by omega) hsrc
    have hgood := loop_good env buf.size hw.wf (env.src.size + 2) _ hinv (Or.inr (by
      rcases hfirst with hf | hf <;> rw [hf] <;> simp only [nextIp] <;> omega)) (by omega)
    obtain ⟨stf, h1, outP, h3, hpre, hcase⟩ := loop_fwd env buf.size hw (env.src.size + 2) _ ⟨0, env.dst0, buf⟩ hfirst hinv (by dsimp only; omega) _
      (rel_start env buf hd) f fin (by dsimp only; rw [rem_zero]; exact hv) (by dsimp only; rw [rem_zero]; exact hdec)
    rw [h1] at hgood ⊢
    simp only [Good] at hgood
    have hhl := histOf_length env buf hd
    have hplen := h3.len
    have hdrop := rel_drop env stf.buf stf.op outP h3 (by omega) hgood.2.1 (by omega)
    have hpl : outP.length ≤ fin.length := hpre.length_le
    have hpt : outP = fin.take outP.length := (List.prefix_iff_eq_take.mp hpre)
    have hret : ((stf.op : Int) - env.dst0).toNat = stf.op - env.dst0 := by omega
    refine ⟨_, rfl, by dsimp only; omega, hgood.1, by dsimp only; omega, ?_, ?_⟩
    · dsimp only
      rw [hret, show env.dst0 + (stf.op - env.dst0) = stf.op by omega, ← hdrop, hhl, hpt, List.drop_take]
      congr 1
      omega
    · dsimp only
      rw [hret, hhl]
      rcases hcase with hc | ⟨hp, hn⟩
      · left; rw [← hc]; omega
      · right; exact ⟨hp, by omega, by omega⟩

/-! ## `LZ4_decompress_safe` -/

theorem extract_toList_take (a : Bytes) (n : Nat) : (a.extract 0 n).toList = a.toList.take n := by simp

theorem wf2_safe (fastLoop partialD : Bool) (src : Bytes) (N : Nat) : WF2 { src := src, fastLoop := fastLoop, partialD := partialD } N :=
  ⟨⟨Nat.zero_le _, Int.le_refl _, fun _ => Int.le_refl _, (fun h => by cases h), rfl, fun _ => rfl⟩, (fun h => by cases h)⟩

theorem histOf_safe (fastLoop partialD : Bool) (src buf : Bytes) : histOf { src := src, fastLoop := fastLoop, partialD := partialD } buf = [] := by
  unfold histOf; simp

/-- `LZ4_decompress_safe`, converse -/
theorem decompress_safe_conv (fastLoop : Bool) (src dstInit : Bytes) (r : Result) (h : decompress_safe fastLoop src dstInit = .ok r) (hret : 0 ≤ r.ret) :
    decode [] src.toList = some (r.buf.toList.take r.ret.toNat) ∨ (∃ f, HasZero f src.toList) := by
  unfold decompress_safe at h
  rcases generic_conv _ dstInit (wf2_safe fastLoop false src dstInit.size) rfl r h hret with hc | hz
  · left
    rw [histOf_safe] at hc
    dsimp only at hc
    rw [hc]
    simp only [Nat.zero_add, Option.some.injEq]
    exact extract_toList_take _ _
  · right; exact hz

/-- what a format-valid block provides: the specification's output `fin`, and the forward hypothesis -/
theorem valid_block_vtail (env : Env) (N : Nat) (hist blk D : List UInt8) (seqs : List Seq) (last : List UInt8) (op : Nat)
    (hdec : decode hist blk = some D) (hparse : parse blk = some (seqs, last)) (hend : endConditions seqs last = true)
    (hroom : env.partialD = true ∨ op + D.length ≤ N) :
    ∃ fin, decodeAux (blk.length + 1) blk hist = some fin ∧ fin.drop hist.length = D ∧ fin.length = hist.length + D.length ∧
      VTail env N (blk.length + 1) op blk hist := by
  unfold decode at hdec
  cases hda : decodeAux (blk.length + 1) blk hist with
  | none => rw [hda] at hdec; cases hdec
  | some fin =>
    rw [hda] at hdec
    simp only [Option.map_some, Option.some.injEq] at hdec
    have hexec : exec hist seqs last = some fin := by
      have := decodeAux_eq_parse_exec (blk.length + 1) blk hist
      unfold parse at hparse
      rw [hparse, hda] at this
      exact this.symm
    have hfl : fin.length = hist.length + D.length := by
      have := exec_length_ge seqs hist last fin hexec
      rw [← hdec, List.length_drop]; omega
    refine ⟨fin, rfl, hdec, hfl, ?_⟩
    refine vtail_of_valid env N (blk.length + 1) blk hist seqs last fin op hparse hexec (EC_of_endConditions seqs last hend) ?_
    rcases hroom with h | h
    · exact Or.inl h
    · right; omega

/-- `LZ4_decompress_safe`, forward -/
theorem decompress_safe_fwd (fastLoop : Bool) (blk : List UInt8) (dstInit : Bytes) (D : List UInt8) (seqs : List Seq) (last : List UInt8)
    (hdec : decode [] blk = some D) (hparse : parse blk = some (seqs, last)) (hend : endConditions seqs last = true)
    (hroom : D.length ≤ dstInit.size) (hcap : 0 < dstInit.size) :
    ∃ r, decompress_safe fastLoop blk.toArray dstInit = .ok r ∧ r.ret = D.length ∧ r.buf.size = dstInit.size ∧ r.buf.toList.take D.length = D := by
  obtain ⟨fin, hda, hdrop, hfl, hvt⟩ := valid_block_vtail { src := blk.toArray, fastLoop := fastLoop } dstInit.size [] blk D seqs last 0
    hdec hparse hend (Or.inr (by simpa using hroom))
  obtain ⟨r, h1, h2, h3, h4, h5, h6⟩ := generic_fwd { src := blk.toArray, fastLoop := fastLoop } dstInit (wf2_safe _ _ _ _) hcap (blk.length + 1) fin
    (by rw [histOf_safe]; simpa using hvt) (by rw [histOf_safe]; simpa using hda)
  rw [histOf_safe] at h5 h6
  simp only [List.length_nil, Nat.sub_zero, Nat.zero_add, List.drop_zero] at h5 h6 hdrop hfl
  subst hdrop
  have hlen : r.ret.toNat = fin.length := by
    rcases h6 with h6 | ⟨hp, _⟩
    · exact h6
    · cases hp
  refine ⟨r, h1, by omega, h3, ?_⟩
  rw [← hlen, ← extract_toList_take, h5, hlen, List.take_length]

/-- `LZ4_decompress_safe_partial`, forward (C16): for a format-valid block with content `D`, any target and any capacity that holds
    `min target |D|` bytes: the call returns `min target |D|` and the destination starts with exactly that prefix of `D` -/
theorem decompress_safe_partial_fwd (fastLoop : Bool) (blk : List UInt8) (dstInit : Bytes) (target : Nat) (D : List UInt8)
    (seqs : List Seq) (last : List UInt8) (hdec : decode [] blk = some D) (hparse : parse blk = some (seqs, last))
    (hend : endConditions seqs last = true) (hroom : min target D.length ≤ dstInit.size) :
    ∃ r, decompress_safe_partial fastLoop blk.toArray dstInit target = .ok r ∧ r.ret = (min target D.length : Nat) ∧
      r.buf.size = dstInit.size ∧ r.buf.toList.take (min target D.length) = D.take (min target D.length) := by
  unfold decompress_safe_partial
  dsimp only
  have hcsz : (dstInit.extract 0 (min target dstInit.size)).size = min target dstInit.size := by simp
  by_cases hc0 : min target dstInit.size = 0
  · -- nothing requested (or no room): the call returns 0 at once
    have hg : generic { src := blk.toArray, fastLoop := fastLoop, partialD := true } (dstInit.extract 0 (min target dstInit.size)) =
        .ok ⟨0, dstInit.extract 0 (min target dstInit.size)⟩ := by
      unfold generic
      dsimp only
      rw [if_pos (by rw [hcsz]; omega)]
      rfl
    rw [hg]
    have hm0 : min target D.length = 0 := by omega
    refine ⟨_, rfl, by dsimp only; omega, ?_, by rw [hm0]; simp⟩
    dsimp only
    simp only [Array.size_append, Array.size_extract]
    omega
  · obtain ⟨fin, hda, hdrop, hfl, hvt⟩ := valid_block_vtail { src := blk.toArray, fastLoop := fastLoop, partialD := true }
      (dstInit.extract 0 (min target dstInit.size)).size [] blk D seqs last 0 hdec hparse hend (Or.inl rfl)
    obtain ⟨r, h1, h2, h3, h4, h5, h6⟩ := generic_fwd { src := blk.toArray, fastLoop := fastLoop, partialD := true }
      (dstInit.extract 0 (min target dstInit.size)) (wf2_safe _ _ _ _) (by rw [hcsz]; dsimp only; omega) (blk.length + 1) fin
      (by rw [histOf_safe]; simpa using hvt) (by rw [histOf_safe]; simpa using hda)
    rw [histOf_safe] at h5 h6
    simp only [List.length_nil, Nat.sub_zero, Nat.zero_add, List.drop_zero] at h4 h5 h6 hdrop hfl
    subst hdrop
    rw [hcsz] at h3 h4 h6
    rw [h1]
    have hret : r.ret.toNat = min target fin.length := by
      rcases h6 with h6 | ⟨_, h6, h7⟩
      · omega
      · omega
    refine ⟨_, rfl, by dsimp only; omega, ?_, ?_⟩
    · dsimp only
      simp only [Array.size_append, Array.size_extract, h3]
      omega
    · dsimp only
      rw [← hret, Array.toList_append, List.take_append_of_le_length (by simp only [Array.length_toList]; omega),
        ← extract_toList_take, h5]

end LZ4V.Model.Decode
