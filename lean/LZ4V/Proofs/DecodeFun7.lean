import LZ4V.Proofs.DecodeFun6
/-!
# What the decoder model computes, part 7: one iteration of the fast loop is one `pstep` of the specification
-/
namespace LZ4V.Model.Decode
open LZ4V.Model LZ4V.Gen LZ4V.Spec.Block

/-- the match part of a fast-loop iteration -/
theorem fastMatch_sim (env : Env) (N : Nat) (hw : WF2 env N) (s : St) (token : Nat)
    (hsz : s.buf.size = N) (hd0 : env.dst0 ≤ s.op) (hop : s.op ≤ N) (out1 : List UInt8) (hrel : Rel env s.buf s.op out1) :
    Sim (fun next => ∃ ml ip', readField (token % 16) (rem env.src (s.ip + 2)) = some (ml - 4, rem env.src ip') ∧ 4 ≤ ml ∧
            MatchPost env N s ip' (off16 env.src s.ip) ml out1 next)
        (∃ v rest, readField (token % 16) (rem env.src (s.ip + 2)) = some (v, rest) ∧ (v ≥ 15 → s.ip + 2 + (v - 15) / 255 + 1 + 4 ≤ env.src.size) ∧
                   1 ≤ off16 env.src s.ip ∧ off16 env.src s.ip ≤ out1.length ∧ (env.partialD = true ∨ s.op + (v + 4) + 5 ≤ N))
        (fastMatch env s token) := by
  have hlow2 := hw.wf.low_le
  have hlen := hrel.len
  have hE := hw.wf.ext_sz
  unfold fastMatch
  have c64 : FASTLOOP_SAFE_DISTANCE = 64 := rfl
  have c15 : ML_MASK = 15 := rfl
  rw [c64, c15, hsz]
  apply Sim.step (rd16_nb _ _)
  intro offset hoff
  obtain ⟨ho1, ho2⟩ := rd16_off16 hoff
  have ho3 := (rd16_good env.src _ ho2)
  rw [hoff] at ho3
  simp only [Good] at ho3
  rw [← ho1]
  apply Sim.bind ((matchLen_sim env.src (s.ip + 2) token).mono (fun a _ h => h) (by rintro ⟨v, rest, h1, h2, _⟩; exact ⟨v, rest, h1, h2⟩))
  intro r _ hr
  obtain ⟨hr1, hr2, hr3, hr4, hr5, _⟩ := hr
  have hV : (∃ v rest, readField (token % 16) (rem env.src (s.ip + 2)) = some (v, rest) ∧ (v ≥ 15 → s.ip + 2 + (v - 15) / 255 + 1 + 4 ≤ env.src.size) ∧
                   1 ≤ offset ∧ offset ≤ out1.length ∧ (env.partialD = true ∨ s.op + (v + 4) + 5 ≤ N)) →
        1 ≤ offset ∧ offset ≤ out1.length ∧ (env.partialD = true ∨ s.op + r.1 + 5 ≤ N) := by
    rintro ⟨v, rest, h1, _, h3, h4, h5⟩
    rw [hr1] at h1
    simp only [Option.some.injEq, Prod.mk.injEq] at h1
    refine ⟨h3, h4, ?_⟩
    rcases h5 with h5 | h5
    · exact Or.inl h5
    · right; omega
  by_cases hnear : s.op + r.1 + 64 ≥ N
  · rw [if_pos hnear]
    apply (safeMatch_sim env N hw s r.2 offset r.1 hsz hd0 hop out1 hrel).mono
    · intro next _ hmp
      exact ⟨r.1, r.2, hr1, hr2, hmp⟩
    · exact hV
  · rw [if_neg hnear]
    by_cases hsc : token % 16 ≠ 15 ∧ (env.dict = .withPrefix64k ∨ (s.op : Int) - offset ≥ env.low) ∧ offset ≥ 8
    · rw [if_pos hsc]
      by_cases hm0 : (s.op : Int) - offset < 0
      · rw [if_pos hm0]; exact Sim.fault
      · rw [if_neg hm0]
        apply Sim.step (copy18_nb _ _ _)
        intro b2 hb2
        apply Sim.pure
        have hr1' := hr5 hsc.1
        have hcp := copy18_post env N hw s.buf s.op offset (token % 16) hsz hd0 out1 hrel hsc.2.2 ho3 (by omega) (by omega) hsc.2.1 hm0 b2 hb2 s.ip r.2
        have e1 : r.1 = token % 16 + 4 := by rw [hr1']
        refine ⟨r.1, r.2, hr1, hr2, ⟨r.2, s.op + r.1, b2⟩, r.1, Nat.le_refl _, ?_, Or.inl ⟨rfl, Or.inr rfl⟩⟩
        rw [e1, show s.op + (token % 16 + 4) = s.op + token % 16 + 4 by omega]
        exact hcp
    · rw [if_neg hsc]
      by_cases chk : env.dictSize < 65536 ∧ (s.op : Int) - offset + env.dictSize < env.low
      · rw [if_pos chk]
        apply Sim.bad
        intro hv
        have := hV hv
        omega
      · rw [if_neg chk]
        by_cases hx : env.dict = .usingExtDict ∧ (s.op : Int) - offset < env.low
        · rw [if_pos hx]
          have hlow := hw.wf.low_nn (by rw [hx.1]; intro hc; cases hc)
          apply Sim.intro
          · intro next hn
            obtain ⟨s', hs', hn⟩ := bind_ok hn
            simp only [pure, Except.pure, Except.ok.injEq] at hn
            subst hn
            obtain ⟨mlen, hm1, hm2, hcp⟩ := extDictMatch_ok env N hw s r.2 _ r.1 offset hsz hd0 hop hx.1 out1 hrel (by omega) (by omega) s' hs'
            refine ⟨r.1, r.2, hr1, hr2, s', mlen, hm1, hcp, ?_⟩
            by_cases hml : mlen < r.1
            · right; exact ⟨(hm2 hml).1, by rw [hcp.2.1]; exact (hm2 hml).2, rfl⟩
            · left; exact ⟨by omega, Or.inr rfl⟩
          · intro ip' hb
            rcases bind_bad hb with hb | ⟨s', _, hb⟩
            · have := extDictMatch_bad env s r.2 _ r.1 ip' hb
              exfalso
              apply this
              right; omega
            · cases hb
        · rw [if_neg hx]
          by_cases hm0 : (s.op : Int) - offset < 0
          · rw [if_pos hm0]; exact Sim.fault
          · rw [if_neg hm0]
            have hmL : env.low ≤ (s.op : Int) - offset := by
              by_cases hd : env.dict = .usingExtDict
              · have := not_and.mp hx hd; omega
              · have := hw.wf.nodict hd
                have := not_and.mp chk (by omega)
                omega
            apply Sim.step (fastMatchCopy_nb _ _ _ _ _)
            intro b2 hb2
            apply Sim.pure
            refine ⟨r.1, r.2, hr1, hr2, ⟨r.2, s.op + r.1, b2⟩, r.1, Nat.le_refl _, ⟨rfl, rfl, fun ho => ?_⟩, Or.inl ⟨rfl, Or.inr rfl⟩⟩
            have e := fastMatchCopy_ok s.buf s.op _ offset r.1 b2 hb2 ho (by omega)
            exact ext_post env s.buf b2 s.op offset r.1 out1 hrel (by omega) (by omega) ho e (by omega)

/-- the literals are in place, the match follows: from `fastMatch` to the iteration's post-condition -/
theorem fastMatch_step (env : Env) (N : Nat) (hw : WF2 env N) (st : St) (ip token length : Nat) (h0 : st.ip < env.src.size)
    (htok : token = env.src[st.ip].toNat) (hip : ip ≤ env.src.size)
    (hrf : readField (token / 16) (rem env.src (st.ip + 1)) = some (length, rem env.src ip)) (hin : ip + length + 2 ≤ env.src.size)
    (hsz : st.buf.size = N) (hd0 : env.dst0 ≤ st.op) (hroom : st.op + length ≤ N) (out : List UInt8) (hrel : Rel env st.buf st.op out)
    (b : Bytes) (n : Nat) (hn : length ≤ n) (hb : copyIn st.buf st.op env.src ip .srcRead n = .ok b) :
    Sim (StepPost env N st out) (VIter env N st.op out.length (rem env.src st.ip)) (fastMatch env ⟨ip + length, st.op + length, b⟩ token) := by
  subst htok
  have hlow2 := hw.wf.low_le
  have hbsz : b.size = N := by rw [(copyIn_spec _ _ _ _ _ _ _ hb).1]; exact hsz
  have hrel' : Rel env b (st.op + length) (out ++ litsAt env.src ip length) :=
    rel_lits env st ip length n out hrel (by omega) b hb hn (by omega)
  apply (fastMatch_sim env N hw ⟨ip + length, st.op + length, b⟩ (env.src[st.ip].toNat) hbsz (by dsimp only; omega) hroom _ hrel').mono
  · rintro next _ ⟨ml, ip', hrf2, h4, hmp⟩
    exact stepPost_of_match env N st ip length h0 hip hrf hin out _ ml ip' rfl hrf2 h4 next hmp
  · intro hv
    obtain ⟨v, rest, v1, v2, v3, v4, v5, _⟩ := vmatch_of_viter env N st ip length h0 hip hrf hin out hv
    refine ⟨v, rest, v1, fun h => by have := v2 h; dsimp only; omega, v3, v4, ?_⟩
    rcases v5 with v5 | v5
    · exact Or.inl v5
    · right; dsimp only; omega

/-- **one iteration of the fast loop is one step of the specification** -/
theorem fastIter_sim (env : Env) (N : Nat) (hw : WF2 env N) (st : St)
    (hsz : st.buf.size = N) (hd0 : env.dst0 ≤ st.op) (hop : st.op ≤ N) (out : List UInt8) (hrel : Rel env st.buf st.op out) :
    Sim (StepPost env N st out) (VIter env N st.op out.length (rem env.src st.ip)) (fastIter env st) := by
  unfold fastIter
  apply Sim.step (rd8_nb _ _)
  intro token htok
  obtain ⟨h0, htok⟩ := rd8_spec htok
  have hlt := env.src[st.ip].toNat_lt
  have c15 : RUN_MASK = 15 := rfl
  have c32 : fastLitMargin = 32 := rfl
  have c17 : fastShortLitIn = 17 := rfl
  rw [c15, c32, c17, hsz]
  by_cases h15 : token / 16 = 15
  · rw [if_pos h15]
    apply Sim.bind ((litLen_sim env.src (st.ip + 1) token).mono (fun a _ h => h) (vlit_of_viter env N st.op out.length st.ip token h0 htok))
    intro r _ hr
    obtain ⟨hr1, hr2, hr3, _⟩ := hr
    by_cases hs : st.op + r.1 + 32 > N ∨ r.2 + r.1 + 32 > env.src.size
    · rw [if_pos hs]
      exact safeLit_sim env N hw st r.2 token r.1 h0 htok (by omega) hr1 hsz hd0 hop out hrel
    · rw [if_neg hs]
      apply Sim.step (copyIn_nb _ _ _ _ _ _)
      intro b hb
      have hw32 := wild32len_le st.op (st.op + r.1)
      exact fastMatch_step env N hw st r.2 token r.1 h0 htok (by omega) hr1 (by omega) hsz hd0 (by omega) out hrel b _ (by omega) hb
  · rw [if_neg h15]
    have hrf := readField_small _ (rem env.src (st.ip + 1)) h15
    by_cases hs : st.ip + 1 + 17 ≤ env.src.size
    · rw [if_pos hs]
      apply Sim.step (copyIn_nb _ _ _ _ _ _)
      intro b hb
      have hroom : st.op + token / 16 ≤ N := by
        obtain ⟨c1, _, _, c4⟩ := copyIn_spec _ _ _ _ _ _ _ hb
        have := c4 (by omega)
        omega
      exact fastMatch_step env N hw st (st.ip + 1) token (token / 16) h0 htok (by omega) hrf (by omega) hsz hd0 hroom out hrel b 16 (by omega) hb
    · rw [if_neg hs]
      exact safeLit_sim env N hw st (st.ip + 1) token (token / 16) h0 htok (by omega) hrf hsz hd0 hop out hrel

end LZ4V.Model.Decode
