import LZ4V.Proofs.FastProof
import LZ4V.Proofs.Arith
/-!
# Main theorems about the fast compressor model: lossless, format-conformant, within the bound
-/
namespace LZ4V.Model.Fast
open LZ4V.Spec.Block

/-- everything the model guarantees about a block it emits -/
structure Good (src : Array UInt8) (blk : List UInt8) : Prop where
  parse : ∃ seqs last, blk = serialize seqs last ∧ ValidParse [] seqs last src.toList ∧
            (∀ s ∈ seqs, 4 ≤ s.ml ∧ 1 ≤ s.off ∧ s.off ≤ 65535) ∧ endConditions seqs last = true ∧ covered seqs last = src.size

theorem PV_covered (src : Array UInt8) : ∀ (l : List PSeq) (a a' : Nat), PV src a l a' → a' ≤ src.size →
    covered (l.map (toSeq src)) (src.toList.drop a') + a = src.size := by
  intro l
  induction l with
  | nil =>
    intro a a' h ha'
    simp only [PV] at h
    subst h
    simp [covered, List.length_drop]
    omega
  | cons s rest ih =>
    intro a a' h ha'
    obtain ⟨⟨hl, _, _, hn, _⟩, hrest⟩ := h
    have := ih _ _ hrest ha'
    have hll : (toSeq src s).lits.length = s.ll := by
      rw [toSeq_lits, List.length_take, List.length_drop, Array.length_toList]; omega
    have hml : (toSeq src s).ml = s.ml := rfl
    unfold covered at this ⊢
    simp only [List.map_cons, List.sum_cons, hll, hml]
    omega

theorem compress_good (P : Params) (src : Array UInt8) (ts : Nat) (hb : P.byU16 = true → src.size < 65547) (ha : 1 ≤ P.accel)
    (blk : List UInt8) (h : compress P src ts = some blk) : Good src blk := by
  unfold compress at h
  cases hc : compressP P src ts with
  | none => rw [hc] at h; cases h
  | some r =>
    obtain ⟨l, anchor⟩ := r
    rw [hc] at h
    simp only [Option.some.injEq] at h
    obtain ⟨p1, p2, p3, p4⟩ := compressP_spec P src ts hb ha l anchor hc
    have hlast : (src.extract anchor src.size).toList = src.toList.drop anchor := by
      simp only [Array.toList_extract, List.extract]
      rw [List.take_of_length_le]
      rw [List.length_drop, Array.length_toList]
      omega
    have hv := PV_valid src l 0 anchor p1 (by omega) p2
    simp only [List.take_zero] at hv
    refine ⟨l.map (toSeq src), src.toList.drop anchor, by rw [← h, hlast], hv, ?_, ?_, ?_⟩
    · intro s hs
      obtain ⟨x, hx, rfl⟩ := List.mem_map.mp hs
      obtain ⟨q1, q2, q3, _⟩ := p3 x hx
      exact ⟨q1, q2, q3⟩
    · unfold endConditions
      cases hgl : (l.map (toSeq src)).getLast? with
      | none => rfl
      | some s =>
        dsimp only
        rw [List.getLast?_map] at hgl
        cases hgl2 : l.getLast? with
        | none => rw [hgl2] at hgl; cases hgl
        | some x =>
          rw [hgl2] at hgl
          simp only [Option.map_some, Option.some.injEq] at hgl
          subst hgl
          have hne : l ≠ [] := by intro h0; subst h0; simp at hgl2
          have hxm : x ∈ l := List.mem_of_getLast? hgl2
          have hend := PV_last src l 0 anchor x p1 hgl2
          obtain ⟨_, _, _, q4⟩ := p3 x hxm
          have h5 := p4 hne
          have hml : (toSeq src x).ml = x.ml := rfl
          rw [hml, List.length_drop, Array.length_toList]
          simp only [Bool.and_eq_true, decide_eq_true_eq]
          omega
    · have := PV_covered src l 0 anchor p1 p2
      omega

/-- **lossless**: the specification decoder maps every block the model emits back to the input -/
theorem compress_lossless (P : Params) (src : Array UInt8) (ts : Nat) (hb : P.byU16 = true → src.size < 65547) (ha : 1 ≤ P.accel)
    (blk : List UInt8) (h : compress P src ts = some blk) : decode [] blk = some src.toList := by
  obtain ⟨seqs, last, rfl, hv, hw, _, _⟩ := (compress_good P src ts hb ha blk h).parse
  exact roundtrip [] seqs last src.toList (fun s hs => by obtain ⟨a, _, c⟩ := hw s hs; exact ⟨a, by omega⟩) (by simpa using hv)

/-- **within the bound**: no block the model emits is longer than `n + n/255 + 2` (< `LZ4_compressBound n`) -/
theorem compress_size (P : Params) (src : Array UInt8) (ts : Nat) (hb : P.byU16 = true → src.size < 65547) (ha : 1 ≤ P.accel)
    (blk : List UInt8) (h : compress P src ts = some blk) : blk.length ≤ src.size + src.size / 255 + 2 := by
  obtain ⟨seqs, last, rfl, _, hw, _, hc⟩ := (compress_good P src ts hb ha blk h).parse
  have := serialize_length_le seqs last (fun s hs => (hw s hs).1)
  rw [hc] at this
  exact this

/-- the executable instance (`compressFast`, what the judge runs against the real library) is an instance of `compress` -/
theorem compressFast_eq (src : Array UInt8) (acceleration : Int) (cap bound : Nat) :
    compressFast src acceleration cap bound = compress (fastParams src acceleration cap bound) src (fastTableSize src) := by
  unfold compressFast compress
  rw [compressPTR_eq]

theorem fastParams_byU16 (src : Array UInt8) (acceleration : Int) (cap bound : Nat) :
    (fastParams src acceleration cap bound).byU16 = true → src.size < 65547 := by
  intro h
  have c : LZ4V.Gen.LZ4_64Klimit = 65547 := rfl
  simpa [fastParams, c] using h

theorem fastParams_accel (src : Array UInt8) (acceleration : Int) (cap bound : Nat) : 1 ≤ (fastParams src acceleration cap bound).accel := by
  have c1 : LZ4V.Gen.LZ4_ACCELERATION_DEFAULT = 1 := rfl
  have c2 : LZ4V.Gen.LZ4_ACCELERATION_MAX = 65537 := rfl
  unfold fastParams
  dsimp only
  split
  · rw [c1]; decide
  · split
    · rw [c2]; decide
    · omega

/-- **what the judge runs is lossless**: every block `compressFast` returns decodes, by the specification decoder, to the input -/
theorem compressFast_lossless (src : Array UInt8) (acceleration : Int) (cap bound : Nat) (blk : List UInt8)
    (h : compressFast src acceleration cap bound = some blk) : decode [] blk = some src.toList := by
  rw [compressFast_eq] at h
  exact compress_lossless _ src _ (fastParams_byU16 src acceleration cap bound) (fastParams_accel src acceleration cap bound) blk h

theorem compressFast_good (src : Array UInt8) (acceleration : Int) (cap bound : Nat) (blk : List UInt8)
    (h : compressFast src acceleration cap bound = some blk) : Good src blk := by
  rw [compressFast_eq] at h
  exact compress_good _ src _ (fastParams_byU16 src acceleration cap bound) (fastParams_accel src acceleration cap bound) blk h

end LZ4V.Model.Fast
