import LZ4V.Proofs.FrameDS1
/-!
# The dStage machine computes the frame specification — part 2: one `switch` execution, block stages
-/
namespace LZ4V.Model.FrameDS
open LZ4V.Spec.FrameL
open LZ4V.Spec.Frame (Bad Header isSkippableMagic)

theorem takeN_bind_app {α : Type} (n : Nat) (a t : Bytes) (g : Bytes → Parser α) (h : a.length = n) :
    ((takeN n).bind g) (a ++ t) = g a t := by
  unfold Parser.bind takeN
  rw [if_neg (by rw [List.length_append]; omega)]
  simp only [List.take_left' h, List.drop_left' h]

theorem takeN_bind_zero {α : Type} (s : Bytes) (g : Bytes → Parser α) : ((takeN 0).bind g) s = g [] s := by
  have := takeN_bind_app 0 [] s g rfl
  simpa using this

theorem takeN_bind_app2 {α : Type} (n : Nat) (a b t : Bytes) (g : Bytes → Parser α) (h : a.length + b.length = n) :
    ((takeN n).bind g) (a ++ b ++ t) = g (a ++ b) t :=
  takeN_bind_app n (a ++ b) t g (by rw [List.length_append]; exact h)

/-- splitting a `takeN` -/
theorem takeN_split {α : Type} (m n : Nat) (g : Bytes → Parser α) (s : Bytes) :
    ((takeN (m + n)).bind g) s = ((takeN m).bind fun a => (takeN n).bind fun b => g (a ++ b)) s := by
  unfold Parser.bind takeN
  by_cases h1 : s.length < m
  · rw [if_pos (by omega), if_pos h1]
  · rw [if_neg h1]
    dsimp only
    by_cases h2 : s.length < m + n
    · rw [if_pos h2, if_pos (by rw [List.length_drop]; omega)]
    · rw [if_neg h2, if_neg (by rw [List.length_drop]; omega)]
      dsimp only
      rw [List.drop_drop, ← List.take_add]

theorem not_ok_of_error {α : Type} {a : Except Bad α} {e : Bad} (h : a = .error e) : ∀ x, a ≠ .ok x := by
  intro x hx; rw [h] at hx; cases hx

theorem Parser.bind_assoc' {α β γ : Type} (p : Parser α) (g : α → Parser β) (h : β → Parser γ) :
    (p.bind g).bind h = p.bind (fun x => (g x).bind h) := by
  funext s
  unfold Parser.bind
  cases p s with
  | error e => rfl
  | ok xr => rfl

theorem Parser.fail_bind {α β : Type} (e : Bad) (h : α → Parser β) : (Parser.fail e : Parser α).bind h = Parser.fail e := by
  funext s; rfl

theorem Parser.pure_bind {α β : Type} (x : α) (h : α → Parser β) : (Parser.pure x).bind h = h x := by
  funext s; rfl

theorem Parser.ite_bind {α β : Type} (c : Prop) [Decidable c] (p q : Parser α) (h : α → Parser β) :
    (if c then p else q).bind h = if c then p.bind h else q.bind h := by
  split <;> rfl

/-- split the input of a parser that starts with `takeN n` -/
theorem split_input (s : Bytes) (n : Nat) (h : n ≤ s.length) : ∃ a t, s = a ++ t ∧ a.length = n :=
  ⟨s.take n, s.drop n, (List.take_append_drop n s).symm, by rw [List.length_take]; omega⟩

theorem takeN_bind_short {α : Type} (n : Nat) (s : Bytes) (g : Bytes → Parser α) (h : s.length < n) : ∀ x, ((takeN n).bind g) s ≠ .ok x := by
  intro x
  unfold Parser.bind takeN
  rw [if_pos h]
  intro hx; cases hx


/-- What one `switch` execution (or the tail of one) must achieve when `P f` is the parser that remains to be run on the input not yet
    consumed (`k.src` and whatever follows it), `dl` having been delivered since the frame began:
    * `next` / `stop` with a non-zero hint: it consumed a prefix `d` of `k.src`, delivered `o`, and the parser that remains in the new
      context is `P` after `d` (one unit of block fuel may have been used);
    * `stop` with hint 0: `P` accepts exactly `d`, with the delivered bytes as content, and the context is ready for the next frame;
    * `fail`: `P` accepts no continuation of `k.src`. -/
def SubOK (E : Env) (P : Nat → Parser Bytes) (k : Call) (dl : Bytes) : Step → Prop
  | .next k' => ∃ d o b, b ≤ 1 ∧ k.src = d ++ k'.src ∧ k'.out = k.out ++ o ∧ k'.room + o.length = k.room ∧ Inv k'.c ∧ Out k'.c (dl ++ o) ∧
      ∀ f t, okEq (P (f + b) (d ++ t)) (K E f k'.c (stg k'.c ++ t))
  | .stop k' h => ∃ d o, k.src = d ++ k'.src ∧ k'.out = k.out ++ o ∧ k'.room + o.length = k.room ∧
      ((h = 0 ∧ k'.c.stage = .getFrameHeader ∧ Inv k'.c ∧ ∀ f t, okEq (P f (d ++ t)) (.ok (dl ++ o, t))) ∨
       (h ≠ 0 ∧ ∃ b, b ≤ 1 ∧ Inv k'.c ∧ Out k'.c (dl ++ o) ∧ ∀ f t, okEq (P (f + b) (d ++ t)) (K E f k'.c (stg k'.c ++ t))))
  | .fail _ _ => ∀ f t x, P f (k.src ++ t) ≠ .ok x

/-- one `switch` execution started in context `k.c` -/
def StepOK (E : Env) (k : Call) (dl : Bytes) (st : Step) : Prop := SubOK E (fun f s => K E f k.c (stg k.c ++ s)) k dl st

/-- the tail of a step, after `d0` has been consumed, seen from before -/
theorem SubOK.consume (E : Env) (P Q : Nat → Parser Bytes) (k k2 : Call) (dl : Bytes) (st : Step) (d0 : Bytes)
    (hP : ∀ f s, okEq (P f (d0 ++ s)) (Q f s)) (hs : k.src = d0 ++ k2.src) (ho : k.out = k2.out) (hr : k.room = k2.room)
    (h : SubOK E Q k2 dl st) : SubOK E P k dl st := by
  cases st with
  | next k' =>
    obtain ⟨d, o, b, hb, h1, h2, h3, h4, h5, h6⟩ := h
    refine ⟨d0 ++ d, o, b, hb, by rw [hs, h1, List.append_assoc], by rw [ho]; exact h2, by rw [hr]; exact h3, h4, h5, ?_⟩
    intro f t
    rw [List.append_assoc]
    exact (hP _ _).trans (h6 f t)
  | stop k' hh =>
    obtain ⟨d, o, h1, h2, h3, h4⟩ := h
    refine ⟨d0 ++ d, o, by rw [hs, h1, List.append_assoc], by rw [ho]; exact h2, by rw [hr]; exact h3, ?_⟩
    rcases h4 with ⟨e0, e1, e2, e3⟩ | ⟨e0, b, hb, e1, e2, e3⟩
    · left
      refine ⟨e0, e1, e2, ?_⟩
      intro f t
      rw [List.append_assoc]
      exact (hP _ _).trans (e3 f t)
    · right
      refine ⟨e0, b, hb, e1, e2, ?_⟩
      intro f t
      rw [List.append_assoc]
      exact (hP _ _).trans (e3 f t)
  | fail c e =>
    intro f t x hx
    rw [hs, List.append_assoc] at hx
    exact h f t x (((hP f _) x).mp hx)

theorem SubOK.congr (E : Env) (P Q : Nat → Parser Bytes) (k : Call) (dl : Bytes) (st : Step)
    (hP : ∀ f s, okEq (P f s) (Q f s)) (h : SubOK E Q k dl st) : SubOK E P k dl st :=
  SubOK.consume E P Q k k dl st [] (fun f s => by simpa using hP f s) (by simp) rfl rfl h

theorem pBlocks_succ (E : Env) (hdr : Header) (dict : Bytes) (f : Nat) (content : Bytes) :
    pBlocks E hdr dict (f+1) content =
    (takeN 4).bind fun w4 =>
    if le w4 = 0 then Parser.pure content else
    if le w4 % 0x80000000 > hdr.maxBlock then Parser.fail .blockTooLarge else
    (takeN (le w4 % 0x80000000)).bind fun payload =>
    (takeN (if hdr.blockChecksum then 4 else 0)).bind fun crc =>
    if hdr.blockChecksum ∧ E.hash payload ≠ le crc then Parser.fail .blockChecksum else
    if le w4 ≥ 0x80000000 then pBlocks E hdr dict f (content ++ payload)
    else
      match E.dec (if hdr.blockIndep then window dict [] else window dict content) payload hdr.maxBlock with
      | some d => pBlocks E hdr dict f (content ++ d)
      | none => Parser.fail (.blockDecode "") := rfl

/-- what the block stages keep true -/
structure IB (c : Ctx) : Prop where
  noskip : c.skipChecksum = false
  rem : c.frameRemaining = (if c.contentSize ≠ 0 then (c.contentSize : Int) - c.content.length else 0)
  hash : c.contentChecksum = true → c.hashed = c.content

theorem Inv.ib {c : Ctx} (h : Inv c) (hs : inBlocks c.stage = true) : IB c := ⟨h.noskip, h.remB hs, h.hashB hs⟩

theorem Inv.ofIB (c : Ctx) (ib : IB c) (hs : inBlocks c.stage = true)
    (stBH : c.stage = .storeBlockHeader → c.staged.length ≤ 4)
    (stBC : c.stage = .getBlockChecksum → c.staged.length ≤ 4 ∧ c.blockChecksum = true)
    (stCB : c.stage = .storeCBlock → c.staged.length ≤ c.tmpInTarget)
    (tgCB : (c.stage = .getCBlock ∨ c.stage = .storeCBlock) → c.blockChecksum = true → 4 ≤ c.tmpInTarget)
    (stSF : c.stage = .storeSuffix → c.staged.length ≤ 4 ∧ c.contentChecksum = true ∧ c.frameRemaining = 0)
    (flush : c.stage = .flushOut → c.tmpOutStart ≤ c.tmpOut.length ∧ ∃ pre, c.content = pre ++ c.tmpOut) : Inv c := by
  refine ⟨ib.noskip, ?_, ?_, fun _ => ib.rem, fun _ => ib.hash, ?_, stBH, stBC, stCB, tgCB, stSF, ?_, flush⟩
  · intro h; rcases h with h | h | h | h | h <;> (rw [h] at hs; cases hs)
  · intro h; rw [h] at hs; cases hs
  · intro h; rw [h] at hs; cases hs
  · intro h; rw [h] at hs; cases hs


theorem Parser.optmatch_bind {α β γ : Type} (o : Option γ) (p : γ → Parser α) (q : Parser α) (h : α → Parser β) :
    (match o with | some d => p d | none => q).bind h = match o with | some d => (p d).bind h | none => q.bind h := by
  cases o <;> rfl

theorem history_eq (c : Ctx) : (if (hdrOf c).blockIndep then window c.dict [] else window c.dict c.content) = history c := by
  unfold hdrOf history; cases c.linked <;> simp

def crcN (c : Ctx) : Nat := if c.blockChecksum then 4 else 0

/-- the specification inside an uncompressed block of `n` bytes -/
def specRaw (E : Env) (f : Nat) (c : Ctx) (n : Nat) : Parser Bytes :=
  (takeN n).bind fun payload => (takeN (crcN c)).bind fun crc =>
  if c.blockChecksum ∧ E.hash payload ≠ le crc then Parser.fail .blockChecksum else KB E f c (c.content ++ payload)

/-- the specification in front of a compressed block of `n` bytes -/
def specComp (E : Env) (f : Nat) (c : Ctx) (n : Nat) : Parser Bytes :=
  (takeN n).bind fun payload => (takeN (crcN c)).bind fun crc =>
  if c.blockChecksum ∧ E.hash payload ≠ le crc then Parser.fail .blockChecksum else
  match E.dec (history c) payload c.maxBlockSize with
  | some d => KB E f c (c.content ++ d)
  | none => Parser.fail (.blockDecode "")

theorem KB_succ (E : Env) (f : Nat) (c : Ctx) (sel t : Bytes) (h : sel.length = 4) :
    KB E (f+1) c c.content (sel ++ t) =
      (if le sel = 0 then pSuffixZ E c.contentChecksum c.contentSize c.content
       else if le sel % 0x80000000 > c.maxBlockSize then Parser.fail .blockTooLarge
       else if le sel ≥ 0x80000000 then specRaw E f c (le sel % 0x80000000) else specComp E f c (le sel % 0x80000000)) t := by
  unfold KB
  rw [pBlocks_succ, Parser.bind_assoc', takeN_bind_app 4 sel t _ h]
  have hh := history_eq c
  by_cases h0 : le sel = 0
  · simp only [h0, if_true, Parser.pure_bind]
  · simp only [h0, if_false]
    have hm : (hdrOf c).maxBlock = c.maxBlockSize := rfl
    have hb : (hdrOf c).blockChecksum = c.blockChecksum := rfl
    rw [hm]
    by_cases h1 : le sel % 0x80000000 > c.maxBlockSize
    · simp only [h1, if_true, Parser.fail_bind]
    · simp only [h1, if_false]
      by_cases h2 : le sel ≥ 0x80000000
      · simp only [h2, if_true, Parser.bind_assoc', Parser.ite_bind, Parser.fail_bind, hb]
        rfl
      · simp only [h2, if_false, Parser.bind_assoc', Parser.ite_bind, Parser.fail_bind, hb, hh, hm]
        unfold specComp KB crcN
        congr 1
        funext payload
        congr 1
        funext crc
        split
        · rfl
        · cases E.dec (history c) payload c.maxBlockSize <;> rfl


theorem split2 (s : Bytes) (n m : Nat) (h : n + m ≤ s.length) : ∃ a b t, s = a ++ b ++ t ∧ a.length = n ∧ b.length = m := by
  refine ⟨s.take n, (s.drop n).take m, (s.drop n).drop m, ?_, by rw [List.length_take]; omega, by rw [List.length_take, List.length_drop]; omega⟩
  rw [List.append_assoc, List.take_append_drop, List.take_append_drop]

theorem KC_specComp (E : Env) (f : Nat) (c : Ctx) (n : Nat) (s : Bytes) (ht : c.tmpInTarget = n + crcN c) :
    okEq (specComp E f c n s) (KC E f c s) := by
  by_cases hs : s.length < n + crcN c
  · apply okEq.errors
    · intro x
      unfold specComp Parser.bind takeN
      by_cases h1 : s.length < n
      · rw [if_pos h1]; intro hx; cases hx
      · rw [if_neg h1]
        dsimp only
        rw [if_pos (by rw [List.length_drop]; omega)]
        intro hx; cases hx
    · unfold KC
      exact takeN_bind_short _ _ _ (by omega)
  · obtain ⟨a, b, t, rfl, ha, hb⟩ := split2 s n (crcN c) (by omega)
    apply okEq.of_eq
    unfold specComp KC
    rw [List.append_assoc, takeN_bind_app n a (b ++ t) _ ha, takeN_bind_app (crcN c) b t _ hb, ← List.append_assoc,
        takeN_bind_app c.tmpInTarget (a ++ b) t _ (by rw [List.length_append]; omega)]
    unfold KCsel
    have hn : (if c.blockChecksum = true then c.tmpInTarget - 4 else c.tmpInTarget) = n := by
      unfold crcN at ht
      split <;> simp_all
    simp only [hn, List.take_left' ha, List.drop_left' ha]
    split
    · rfl
    · cases E.dec (history c) a c.maxBlockSize <;> rfl



end LZ4V.Model.FrameDS
