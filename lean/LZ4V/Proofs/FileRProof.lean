import LZ4V.Proofs.FrameDS7
import LZ4V.Model.FileR
/-!
# The read side of lz4file (`LZ4F_readOpen`, `LZ4F_read`) over the dStage machine: what is returned is what the frame holds

`RState`: a reading session is either in the middle of the frame — the session invariant of `Proofs/FrameDS4.lean` with `buf ++ file` as the input
not yet offered to the decoder — or finished.  `readOpen_ok`: `LZ4F_readOpen` (header read through `LZ4F_getFrameInfo`, the left-over bytes kept)
establishes it; `readLoop_ok`: every iteration of the `while (next < size)` loop of `LZ4F_read` keeps it; on a file that holds one valid frame no
read ever fails, and the bytes returned so far are always a prefix of the frame content (`K_prefix`: whatever the remaining parser accepts
extends the content decoded so far).
-/
namespace LZ4V.Model.FileR
open LZ4V.Spec.FrameL LZ4V.Model.FrameDS
open LZ4V.Spec.Frame (Bad Header isSkippableMagic)

theorem bind_ok {α β : Type} (p : Parser α) (g : α → Parser β) (s : Bytes) (y : β × Bytes) (h : (p.bind g) s = .ok y) :
    ∃ x r, p s = .ok (x, r) ∧ g x r = .ok y := by
  unfold Parser.bind at h
  cases hp : p s with
  | error e => rw [hp] at h; cases h
  | ok w => rw [hp] at h; exact ⟨w.1, w.2, rfl, h⟩

theorem pBlocks_prefix (E : Env) (hdr : Header) (dict : Bytes) : ∀ (f : Nat) (content s : Bytes) (x r : Bytes),
    pBlocks E hdr dict f content s = .ok (x, r) → content <+: x := by
  intro f
  induction f with
  | zero => intro content s x r h; unfold pBlocks at h; cases h
  | succ f ih =>
    intro content s x r h
    rw [pBlocks_succ] at h
    obtain ⟨w4, r1, _, h⟩ := bind_ok _ _ _ _ h
    by_cases h0 : le w4 = 0
    · rw [if_pos h0] at h
      unfold Parser.pure at h; injection h with h; injection h with ha _; subst ha; exact List.prefix_refl _
    rw [if_neg h0] at h
    by_cases h1 : le w4 % 0x80000000 > hdr.maxBlock
    · rw [if_pos h1] at h; cases h
    rw [if_neg h1] at h
    obtain ⟨payload, r2, _, h⟩ := bind_ok _ _ _ _ h
    obtain ⟨crc, r3, _, h⟩ := bind_ok _ _ _ _ h
    by_cases h2 : hdr.blockChecksum = true ∧ E.hash payload ≠ le crc
    · rw [if_pos h2] at h; cases h
    rw [if_neg h2] at h
    by_cases h3 : le w4 ≥ 0x80000000
    · rw [if_pos h3] at h
      exact (List.prefix_append _ _).trans (ih _ _ _ _ h)
    · rw [if_neg h3] at h
      cases hd : E.dec (if hdr.blockIndep = true then window dict [] else window dict content) payload hdr.maxBlock with
      | none => rw [hd] at h; cases h
      | some d => rw [hd] at h; exact (List.prefix_append _ _).trans (ih _ _ _ _ h)

theorem pSuffixZ_result (E : Env) (cc : Bool) (cs : Nat) (content s : Bytes) (x r : Bytes) (h : pSuffixZ E cc cs content s = .ok (x, r)) : x = content := by
  unfold pSuffixZ at h
  by_cases hc : cs ≠ 0 ∧ cs ≠ content.length
  · rw [if_pos hc] at h; cases h
  rw [if_neg hc] at h
  obtain ⟨crc, r1, _, h⟩ := bind_ok _ _ _ _ h
  by_cases h2 : cc = true ∧ E.hash content ≠ le crc
  · rw [if_pos h2] at h; cases h
  rw [if_neg h2] at h
  unfold Parser.pure at h; injection h with h; injection h with ha _; exact ha.symm

theorem KB_prefix (E : Env) (f : Nat) (c : Ctx) (content s x r : Bytes) (h : KB E f c content s = .ok (x, r)) : content <+: x := by
  unfold KB at h
  obtain ⟨ct, r1, h1, h⟩ := bind_ok _ _ _ _ h
  rw [pSuffixZ_result E _ _ _ _ _ _ h]
  exact pBlocks_prefix E _ _ f content s ct r1 h1

theorem KCsel_prefix (E : Env) (f : Nat) (c : Ctx) (sel s x r : Bytes) (h : KCsel E f c sel s = .ok (x, r)) : c.content <+: x := by
  unfold KCsel at h
  generalize (if c.blockChecksum = true then c.tmpInTarget - 4 else c.tmpInTarget) = n at h
  by_cases hc : c.blockChecksum = true ∧ E.hash (List.take n sel) ≠ le (List.drop n sel)
  · rw [if_pos hc] at h; cases h
  rw [if_neg hc] at h
  cases hd : E.dec (history c) (List.take n sel) c.maxBlockSize with
  | none => rw [hd] at h; cases h
  | some d => rw [hd] at h; exact (List.prefix_append _ _).trans (KB_prefix E f c _ _ _ _ h)

/-- in the block stages, whatever the remaining parser accepts has the content decoded so far as a prefix -/
theorem K_prefix (E : Env) (f : Nat) (c : Ctx) (s x r : Bytes) (hs : inBlocks c.stage = true) (h : K E f c s = .ok (x, r)) : c.content <+: x := by
  unfold K at h
  cases hst : c.stage <;> rw [hst] at h hs <;> dsimp only at h
  · cases hs
  · cases hs
  · cases hs
  · exact KB_prefix E f c _ _ _ _ h
  · exact KB_prefix E f c _ _ _ _ h
  · unfold KRaw at h
    obtain ⟨rest, r1, _, h⟩ := bind_ok _ _ _ _ h
    obtain ⟨crc, r2, _, h⟩ := bind_ok _ _ _ _ h
    by_cases h2 : c.blockChecksum = true ∧ E.hash (c.blockHashed ++ rest) ≠ le crc
    · rw [if_pos h2] at h; cases h
    rw [if_neg h2] at h
    exact (List.prefix_append _ _).trans (KB_prefix E f c _ _ _ _ h)
  · unfold KCrc at h
    obtain ⟨crc, r2, _, h⟩ := bind_ok _ _ _ _ h
    by_cases h2 : E.hash c.blockHashed ≠ le crc
    · rw [if_pos h2] at h; cases h
    rw [if_neg h2] at h
    exact KB_prefix E f c _ _ _ _ h
  · unfold KC at h
    obtain ⟨sel, r1, _, h⟩ := bind_ok _ _ _ _ h
    exact KCsel_prefix E f c _ _ _ _ h
  · unfold KC at h
    obtain ⟨sel, r1, _, h⟩ := bind_ok _ _ _ _ h
    exact KCsel_prefix E f c _ _ _ _ h
  · exact KB_prefix E f c _ _ _ _ h
  · rw [pSuffixZ_result E _ _ _ _ _ _ h]; exact List.prefix_refl _
  · unfold KSufCrc at h
    obtain ⟨crc, r2, _, h⟩ := bind_ok _ _ _ _ h
    by_cases h2 : E.hash c.hashed ≠ le crc
    · rw [if_pos h2] at h; cases h
    rw [if_neg h2] at h
    unfold Parser.pure at h; injection h with h; injection h with ha _; rw [← ha]; exact List.prefix_refl _
  · cases hs
  · cases hs
  · cases hs

/-- the file holds one valid frame with content `D` and nothing else (for every large enough block fuel) -/
def ValidFile (E : Env) (file D : Bytes) : Prop := ∃ F, ∀ f, F ≤ f → pDFrame E [] f file = .ok (D, [])

/-- state of a reading session: in the middle of the frame (the session invariant of the dStage machine, the unread input being `buf ++ file`),
    or finished (everything read and delivered) -/
inductive RState (E : Env) (file D : Bytes) (r : Reader) (delivered : Bytes) : Prop
  | mid (h : SessInv E (fun f => pDFrame E [] f file) r.c (r.buf ++ r.file) delivered) : RState E file D r delivered
  | done (hb : r.buf = []) (hf : r.file = []) (hd : delivered = D) : RState E file D r delivered

theorem mid_prefix (E : Env) (file D : Bytes) (hv : ValidFile E file D) (c : Ctx) (rest delivered : Bytes)
    (h : SessInv E (fun f => pDFrame E [] f file) c rest delivered) : delivered <+: D := by
  obtain ⟨hi, ho, nb, hrel⟩ := h
  obtain ⟨F, hF⟩ := hv
  have hk := (hrel F (D, [])).mp (hF (F + nb) (by omega))
  unfold Out at ho
  by_cases hb : inBlocks c.stage = true
  · rw [if_pos hb] at ho
    have := K_prefix E F c _ _ _ hb hk
    rw [← ho] at this
    exact (List.prefix_append _ _).trans this
  · rw [if_neg hb] at ho
    rw [ho]; exact List.nil_prefix

theorem RState.prefix {E : Env} {file D : Bytes} {r : Reader} {delivered : Bytes} (hv : ValidFile E file D) (h : RState E file D r delivered) : delivered <+: D := by
  cases h with
  | mid h => exact mid_prefix E file D hv _ _ _ h
  | done _ _ hd => rw [hd]; exact List.prefix_refl _

theorem readLoop_ok (E : Env) (hE : DecBounded E) (file D : Bytes) (hv : ValidFile E file D) : ∀ (fuel : Nat) (r : Reader) (size : Nat) (got delivered : Bytes),
    RState E file D r delivered →
    ∃ r' more, readLoop E fuel r size got = .ok (r', got ++ more) ∧ RState E file D r' (delivered ++ more) := by
  intro fuel
  induction fuel with
  | zero => intro r size got delivered hs; exact ⟨r, [], by simp [readLoop], by simpa using hs⟩
  | succ fuel ih =>
    intro r size got delivered hs
    unfold readLoop
    by_cases hfull : got.length ≥ size
    · rw [if_pos hfull]; exact ⟨r, [], by simp, by simpa using hs⟩
    rw [if_neg hfull]
    dsimp only
    cases hs with
    | done hb hf hd =>
      rw [hb, hf]
      simp only [List.length_nil, if_true]
      exact ⟨r, [], by simp, by simpa using RState.done hb hf hd⟩
    | mid hm =>
      -- the reader after the refill, with the same unread input
      have hr1 : (∃ r1 : Reader, (if r.buf.length = 0 then (if r.file.length = 0 then none else some { r with buf := r.file.take r.maxBuf, file := r.file.drop r.maxBuf }) else some r) = some r1 ∧
          r1.c = r.c ∧ r1.buf ++ r1.file = r.buf ++ r.file) ∨
          (if r.buf.length = 0 then (if r.file.length = 0 then none else some { r with buf := r.file.take r.maxBuf, file := r.file.drop r.maxBuf }) else some r) = none := by
        by_cases hb : r.buf.length = 0
        · rw [if_pos hb]
          by_cases hf : r.file.length = 0
          · rw [if_pos hf]; right; rfl
          · rw [if_neg hf]; left
            refine ⟨_, rfl, rfl, ?_⟩
            dsimp only
            rw [List.take_append_drop, List.eq_nil_of_length_eq_zero hb, List.nil_append]
        · rw [if_neg hb]; left; exact ⟨r, rfl, rfl, rfl⟩
      rcases hr1 with ⟨r1, he, hc1, hrest⟩ | hnone
      · rw [he]
        dsimp only
        obtain ⟨hi, ho, nb0, hrel⟩ := hm
        rw [← hrest] at hrel
        rw [← hc1] at hi ho hrel
        have hcall := decompress_ok E hE r1.c r1.buf (size - got.length) delivered hi ho
        have hterm := decompress_terminates E r1.c r1.buf (size - got.length) false
        obtain ⟨F, hF⟩ := hv
        cases hret : (decompress E r1.c r1.buf (size - got.length) false).ret with
        | stuck => exact absurd hret hterm
        | error e =>
          rw [hret] at hcall
          dsimp only at hcall
          obtain ⟨nb, hf⟩ := hcall
          exfalso
          have a := (hrel (F + nb) (D, [])).mp (hF _ (by omega))
          exact hf F r1.file _ a
        | hint h =>
          rw [hret] at hcall
          dsimp only at hcall ⊢
          obtain ⟨hc, _, nb, hcases⟩ := hcall
          have hnext : RState E file D { r1 with c := (decompress E r1.c r1.buf (size - got.length) false).c, buf := r1.buf.drop (decompress E r1.c r1.buf (size - got.length) false).consumed }
              (delivered ++ (decompress E r1.c r1.buf (size - got.length) false).out) := by
            rcases hcases with ⟨e0, e1, e2, e3⟩ | ⟨e0, e1, e2, e3⟩
            · have a := (hrel (F + nb) (D, [])).mp (hF _ (by omega))
              have b := (e3 F r1.file (D, [])).mp (by rw [Nat.add_comm F nb] at a; rw [Nat.add_comm]; exact a)
              injection b with b
              injection b with b1 b2
              have hnil := List.append_eq_nil_iff.mp b2
              exact RState.done hnil.1 hnil.2 b1
            · refine RState.mid ⟨e1, e2, nb + nb0, ?_⟩
              intro f
              have a := hrel (f + nb)
              have b := e3 f r1.file
              rw [← Nat.add_assoc]
              exact a.trans b
          obtain ⟨r', more, h1, h2⟩ := ih _ size (got ++ (decompress E r1.c r1.buf (size - got.length) false).out) _ hnext
          exact ⟨r', (decompress E r1.c r1.buf (size - got.length) false).out ++ more, by rw [h1, List.append_assoc], by rw [← List.append_assoc]; exact h2⟩
      · rw [hnone]
        exact ⟨r, [], by simp, by simpa using RState.mid hm⟩

theorem readAll_ok (E : Env) (hE : DecBounded E) (file D : Bytes) (hv : ValidFile E file D) : ∀ (sizes : List Nat) (r : Reader) (delivered : Bytes),
    RState E file D r delivered → ∃ res, readAll E r sizes = .ok res ∧ (delivered ++ res.flatten) <+: D := by
  intro sizes
  induction sizes with
  | nil => intro r delivered hs; exact ⟨[], rfl, by simpa using hs.prefix hv⟩
  | cons sz rest ih =>
    intro r delivered hs
    obtain ⟨r', more, h1, h2⟩ := readLoop_ok E hE file D hv (r.file.length + r.buf.length + sz + 2) r sz [] delivered hs
    obtain ⟨res, h3, h4⟩ := ih r' (delivered ++ more) h2
    refine ⟨more :: res, ?_, ?_⟩
    · unfold readAll read
      rw [h1, List.nil_append]
      dsimp only
      rw [h3]
    · simpa [List.append_assoc] using h4

theorem headerSize_ge (src : Bytes) (n : Nat) (h : headerSize src = .ok n) : 7 ≤ n := by
  unfold headerSize at h
  have hmin : LZ4V.Gen.minFHSize = 7 := rfl
  split at h; · cases h
  split at h; · injection h with h; omega
  split at h; · cases h
  injection h with h
  rw [hmin] at h
  omega

/-- `LZ4F_readOpen` leaves the reader in the middle of the frame, with everything after the header still to be parsed -/
theorem readOpen_ok (E : Env) (file D : Bytes) (r0 : Reader) (h : readOpen E file = .ok r0) : RState E file D r0 [] := by
  unfold readOpen at h
  dsimp only at h
  split at h; · cases h
  rename_i hlen
  generalize hhead : List.take LZ4V.Gen.LZ4F_HEADER_SIZE_MAX file = head at h hlen
  have hfile : file = head ++ file.drop head.length := by
    have : head.length = min LZ4V.Gen.LZ4F_HEADER_SIZE_MAX file.length := by rw [← hhead, List.length_take]
    rw [← hhead, List.length_take]
    have h19 : LZ4V.Gen.LZ4F_HEADER_SIZE_MAX = 19 := rfl
    by_cases hl : 19 ≤ file.length
    · rw [h19, Nat.min_eq_left hl, List.take_append_drop]
    · rw [h19, Nat.min_eq_right (by omega), List.take_of_length_le (by omega), List.drop_length, List.append_nil]
  -- what getFrameInfo did on the fresh context
  unfold getFrameInfo at h
  have s0 : (({} : Ctx).stage.toNat > Stage.storeFrameHeader.toNat) = False := by simp [Stage.toNat]
  have s1 : (({} : Ctx).stage.toNat = Stage.storeFrameHeader.toNat) = False := by simp [Stage.toNat]
  simp only [s0, s1, if_false] at h
  cases hhs : headerSize head with
  | error e => rw [hhs] at h; simp at h
  | ok hSize =>
    rw [hhs] at h
    dsimp only at h
    have h7 := headerSize_ge head hSize hhs
    by_cases hshort : head.length < hSize
    · rw [if_pos hshort] at h; simp at h
    rw [if_neg hshort] at h
    have hspec := decodeHeader_spec E {} (head.take hSize) false (by rw [List.length_take]; omega) rfl rfl (fun hh => by cases hh)
    cases hdh : decodeHeader E {} (head.take hSize) false with
    | error e => rw [hdh] at h; simp at h
    | ok cn =>
      obtain ⟨c', n⟩ := cn
      rw [hdh] at h hspec
      dsimp only at h hspec
      obtain ⟨hle, _, hinv, hout, hrel⟩ := hspec
      rw [List.length_take, Nat.min_eq_left (by omega)] at hle
      -- the reader that comes out
      split at h
      · rename_i m hm
        injection h with h
        subst h
        refine RState.mid ⟨hinv, hout, 0, ?_⟩
        intro f
        dsimp only
        have := hrel f (head.drop hSize ++ file.drop head.length)
        have e1 : List.take hSize head ++ (List.drop hSize head ++ List.drop head.length file) = file := by
          rw [← List.append_assoc, List.take_append_drop]; exact hfile.symm
        have e2 : List.drop n (List.take hSize head) ++ (List.drop hSize head ++ List.drop head.length file) = List.drop n head ++ List.drop head.length file := by
          rw [← List.append_assoc]
          congr 1
          have : head = List.take hSize head ++ List.drop hSize head := (List.take_append_drop _ _).symm
          conv => rhs; rw [this]
          rw [List.drop_append_of_le_length (by rw [List.length_take]; omega)]
        rw [e1, e2] at this
        exact this
      · cases h

end LZ4V.Model.FileR
