import LZ4V.Proofs.DecodeSafe2
/-!
# Memory safety of the decoder model, part 3: literal stages, both loops, `LZ4_decompress_generic`
-/
namespace LZ4V.Model.Decode
open LZ4V.Model LZ4V.Gen

theorem lastLitLen_good (env : Env) (st : St) (ip length N : Nat) (hsz : st.buf.size = N) (hop : st.op ≤ N) (hip : ip ≤ env.src.size) :
    Good (fun l => st.op + l ≤ N ∧ ip + l ≤ env.src.size) (lastLitLen env st ip length) := by
  unfold lastLitLen
  simp only []
  rw [hsz]
  split
  · split <;> split <;> (refine Good.ok ?_; omega)
  · split
    · exact Good.bad
    · refine Good.ok ?_; omega

theorem safeLit_good (env : Env) (N : Nat) (hw : WF env N) (st : St) (ip0 ip token length : Nat)
    (hsz : st.buf.size = N) (hop : st.op ≤ N) (hd0 : env.dst0 ≤ st.op) (hip0 : ip0 < ip) (hip : ip ≤ env.src.size) :
    Good (NextOK env N ip0) (safeLit env st ip token length) := by
  unfold safeLit
  have h5 := c_LASTLITERALS
  have h12 := c_MFLIMIT
  simp only []
  rw [hsz]
  by_cases hlast : st.op + length + MFLIMIT > N ∨ ip + length + (2 + 1 + LASTLITERALS) > env.src.size
  · rw [if_pos hlast]
    apply Good.bind (lastLitLen_good env st ip length N hsz hop hip)
    intro l hl
    apply Good.bind (copyIn_good st.buf st.op env.src ip .srcRead l (by omega) (by omega))
    intro b hb
    by_cases hdone : ¬ env.partialD ∨ st.op + l = N ∨ ip + l + 2 ≥ env.src.size
    · rw [if_pos hdone]
      refine Good.pure ?_
      simp only [NextOK]; omega
    · rw [if_neg hdone]
      have hpd : env.partialD = true := by
        by_cases h : env.partialD = true
        · exact h
        · exact absurd (Or.inl h) hdone
      apply Good.bind (rd16_good env.src (ip + l) (by omega))
      intro offset hoff
      exact copyMatchLbl_good env N hw ⟨ip + l, st.op + l, b⟩ ip0 (ip + l + 2) offset token (by simp; omega) (by simp; omega) (by simp; omega)
        (by omega) (by omega) hoff (Or.inr hpd)
  · rw [if_neg hlast]
    have hw8 := wild8len_le st.op (st.op + length)
    apply Good.bind (copyIn_good st.buf st.op env.src ip .srcRead (wild8len st.op (st.op + length)) (by omega) (by omega))
    intro b hb
    apply Good.bind (rd16_good env.src (ip + length) (by omega))
    intro offset hoff
    exact copyMatchLbl_good env N hw ⟨ip + length, st.op + length, b⟩ ip0 (ip + length + 2) offset token (by simp; omega) (by simp; omega) (by simp; omega)
      (by omega) (by omega) hoff (Or.inl (by simp; omega))

theorem shortcut_good (env : Env) (N : Nat) (hw : WF env N) (st : St) (token : Nat)
    (hsz : st.buf.size = N) (hd0 : env.dst0 ≤ st.op) (htok : token < 256) (hne : token / 16 ≠ RUN_MASK)
    (hin : st.ip + 1 + shortInMargin < env.src.size) (hout : st.op + shortOutMargin ≤ N) :
    Good (NextOK env N st.ip) (shortcut env st token) := by
  unfold shortcut
  have h15 := c_ML_MASK
  have h4 := c_MINMATCH
  have hsi : shortInMargin = 16 := rfl
  have hso : shortOutMargin = 32 := rfl
  have hrm := c_RUN_MASK
  have hll : token / 16 ≤ 14 := by omega
  simp only []
  apply Good.bind (copyIn_good st.buf st.op env.src (st.ip + 1) .srcRead 16 (by omega) (by omega))
  intro b hb
  apply Good.bind (rd16_good env.src (st.ip + 1 + token / 16) (by omega))
  intro offset hoff
  by_cases hs : token % 16 ≠ ML_MASK ∧ offset ≥ 8 ∧ (env.dict = .withPrefix64k ∨ ((st.op + token / 16 : Nat) : Int) - offset ≥ env.low)
  · rw [if_pos hs]
    have hm0 := match_nonneg env N hw (st.op + token / 16) offset (by omega) hoff hs.2.2
    rw [if_neg (by omega : ¬ ((st.op + token / 16 : Nat) : Int) - offset < 0)]
    have hmN : (((st.op + token / 16 : Nat) : Int) - offset).toNat + offset = st.op + token / 16 := by omega
    generalize (((st.op + token / 16 : Nat) : Int) - offset).toNat = mN at hmN
    apply Good.bind (copy18_good b (st.op + token / 16) mN (by omega) (by omega))
    intro b2 hb2
    refine Good.pure ?_
    simp only [NextOK]
    have : token % 16 < 15 := by omega
    omega
  · rw [if_neg hs]
    exact copyMatchLbl_good env N hw ⟨st.ip + 1 + token / 16, st.op + token / 16, b⟩ st.ip (st.ip + 1 + token / 16 + 2) offset token
      (by simp; omega) (by simp; omega) (by simp; omega) (by omega) (by omega) hoff (Or.inl (by simp; omega))

theorem safeIter_good (env : Env) (N : Nat) (hw : WF env N) (st : St)
    (hsz : st.buf.size = N) (hop : st.op ≤ N) (hd0 : env.dst0 ≤ st.op) (hip : st.ip < env.src.size) :
    Good (NextOK env N st.ip) (safeIter env st) := by
  unfold safeIter
  simp only []
  apply Good.bind (rd8_good env.src st.ip hip)
  intro token htok
  rw [hsz]
  split
  · rename_i h
    exact shortcut_good env N hw st token hsz hd0 htok h.1 h.2.1 h.2.2
  · apply Good.bind (litLen_good env.src (st.ip + 1) token (by omega))
    intro r hr
    exact safeLit_good env N hw st st.ip r.2 token r.1 hsz hop hd0 (by omega) hr.2.1

theorem fastMatchCopy_good (buf : Bytes) (op mN offset length N : Nat) (hsz : buf.size = N) (hm : mN + offset = op)
    (hlen : 4 ≤ length) (hroom : op + length + FASTLOOP_SAFE_DISTANCE ≤ N) :
    Good (fun b => b.size = N) (fastMatchCopy buf op mN offset length) := by
  unfold fastMatchCopy
  have h64 := c_FSD
  simp only []
  have hw8 := wild8len_le op (op + length)
  have hw8' := wild8len_le (op + 8) (op + length)
  have hw32 := wild32len_le op (op + length)
  by_cases h16 : offset < 16
  · rw [if_pos h16]
    by_cases h124 : offset = 1 ∨ offset = 2 ∨ offset = 4
    · rw [if_pos h124]
      exact (fwd_good_below buf op mN _ (by omega) (by omega)).mono (by intro b hb; omega)
    · rw [if_neg h124]
      by_cases h8 : offset < 8
      · rw [if_pos h8]
        have hd := smallDist_bounds offset h8
        rw [if_neg (by omega : ¬ op + 8 < smallDist offset)]
        apply Good.bind (smallOffsetHead_good buf op mN offset h8 hm (by omega))
        intro b hb
        exact (wildCopy8B_good b (op + 8) (op + 8 - smallDist offset) (op + length) (by omega) (by omega)).mono (by intro b2 hb2; omega)
      · rw [if_neg h8]
        apply Good.bind (memcpyB_good buf op mN 8 (by omega) (by omega) (Or.inl (by omega)))
        intro b hb
        exact (wildCopy8B_good b (op + 8) (mN + 8) (op + length) (by omega) (by omega)).mono (by intro b2 hb2; omega)
  · rw [if_neg h16]
    exact (wildCopy32B_good buf op mN (op + length) (by omega) (by omega)).mono (by intro b hb; omega)

theorem fastMatch_good (env : Env) (N : Nat) (hw : WF env N) (s : St) (ip0 token : Nat)
    (hsz : s.buf.size = N) (hd0 : env.dst0 ≤ s.op) (hroom : s.op + 32 ≤ N) (hip0 : ip0 < s.ip) (hip : s.ip + 3 ≤ env.src.size) :
    Good (NextOK env N ip0) (fastMatch env s token) := by
  unfold fastMatch
  have h64 := c_FSD
  have h4 := c_MINMATCH
  simp only []
  apply Good.bind (rd16_good env.src s.ip (by omega))
  intro offset hoff
  apply Good.bind (matchLen_good env.src (s.ip + 2) token (by omega))
  intro r hr
  rw [hsz]
  by_cases hnear : s.op + r.1 + FASTLOOP_SAFE_DISTANCE ≥ N
  · rw [if_pos hnear]
    exact safeMatch_good env N hw s ip0 r.2 offset r.1 hsz (by omega) hd0 (by omega) hr.2.1 hoff (by omega) (Or.inl (by omega))
  · rw [if_neg hnear]
    by_cases hs : token % 16 ≠ ML_MASK ∧ (env.dict = .withPrefix64k ∨ (s.op : Int) - offset ≥ env.low) ∧ offset ≥ 8
    · rw [if_pos hs]
      have hm0 := match_nonneg env N hw s.op offset hd0 hoff hs.2.1
      rw [if_neg (by omega : ¬ (s.op : Int) - offset < 0)]
      have hmN : ((s.op : Int) - offset).toNat + offset = s.op := by omega
      generalize ((s.op : Int) - offset).toNat = mN at hmN
      apply Good.bind (copy18_good s.buf s.op mN (by omega) (by omega))
      intro b2 hb2
      refine Good.pure ?_
      simp only [NextOK]; omega
    · rw [if_neg hs]
      by_cases h1 : env.dictSize < 65536 ∧ (s.op : Int) - offset + env.dictSize < env.low
      · rw [if_pos h1]; exact Good.bad
      · rw [if_neg h1]
        by_cases h2 : env.dict = .usingExtDict ∧ (s.op : Int) - offset < env.low
        · rw [if_pos h2]
          have hne : env.dict ≠ .withPrefix64k := by rw [h2.1]; decide
          have hlow := hw.low_le
          have hback : (env.low - ((s.op : Int) - offset)).toNat ≤ env.ext.size := by
            rw [hw.ext_sz]
            by_cases hc : env.dictSize < 65536
            · have : ¬ ((s.op : Int) - offset + env.dictSize < env.low) := fun h => h1 ⟨hc, h⟩
              omega
            · omega
          have h5 := c_LASTLITERALS
          apply Good.bind (extDictMatch_good env N hw s r.2 _ r.1 hsz (by omega) hd0 hne hback)
          intro s2 hs2
          refine Good.pure ?_
          simp only [NextOK]
          have := hs2.2.2.2.2.2 (by omega)
          refine ⟨hs2.1, by omega, by omega, by rw [hs2.2.2.2.2.1]; omega, by rw [hs2.2.2.2.2.1]; exact hr.2.1⟩
        · rw [if_neg h2]
          have hm0 : 0 ≤ (s.op : Int) - offset := by
            by_cases h64k : env.dict = .withPrefix64k
            · exact match_nonneg env N hw s.op offset hd0 hoff (Or.inl h64k)
            · have hl := hw.low_nn h64k
              by_cases hx : env.dict = .usingExtDict
              · have : ¬ ((s.op : Int) - offset < env.low) := fun h => h2 ⟨hx, h⟩
                omega
              · have hds := hw.nodict hx
                have : ¬ ((s.op : Int) - offset + env.dictSize < env.low) := fun h => h1 ⟨by omega, h⟩
                omega
          rw [if_neg (by omega : ¬ (s.op : Int) - offset < 0)]
          have hmN : ((s.op : Int) - offset).toNat + offset = s.op := by omega
          generalize ((s.op : Int) - offset).toNat = mN at hmN
          apply Good.bind (fastMatchCopy_good s.buf s.op mN offset r.1 N hsz hmN (by omega) (by omega))
          intro b2 hb2
          refine Good.pure ?_
          simp only [NextOK]; omega

theorem fastIter_good (env : Env) (N : Nat) (hw : WF env N) (st : St)
    (hsz : st.buf.size = N) (hd0 : env.dst0 ≤ st.op) (hroom : st.op + FASTLOOP_SAFE_DISTANCE ≤ N) (hip : st.ip < env.src.size) :
    Good (NextOK env N st.ip) (fastIter env st) := by
  unfold fastIter
  have h64 := c_FSD
  have h15 := c_RUN_MASK
  have hfl : fastLitMargin = 32 := rfl
  have hfs : fastShortLitIn = 17 := rfl
  simp only []
  apply Good.bind (rd8_good env.src st.ip hip)
  intro token htok
  rw [hsz]
  by_cases hlong : token / 16 = RUN_MASK
  · rw [if_pos hlong]
    apply Good.bind (litLen_good env.src (st.ip + 1) token (by omega))
    intro r hr
    by_cases hgo : st.op + r.1 + fastLitMargin > N ∨ r.2 + r.1 + fastLitMargin > env.src.size
    · rw [if_pos hgo]
      exact safeLit_good env N hw st st.ip r.2 token r.1 hsz (by omega) hd0 (by omega) hr.2.1
    · rw [if_neg hgo]
      have hw32 := wild32len_le st.op (st.op + r.1)
      have : 1 ≤ r.1 := by have := (hr.2.2.2 hlong).2; omega
      apply Good.bind (copyIn_good st.buf st.op env.src r.2 .srcRead (wild32len st.op (st.op + r.1)) (by omega) (by omega))
      intro b hb
      exact fastMatch_good env N hw ⟨r.2 + r.1, st.op + r.1, b⟩ st.ip token (by simp; omega) (by simp; omega) (by simp; omega) (by simp; omega) (by simp; omega)
  · rw [if_neg hlong]
    by_cases hshort : st.ip + 1 + fastShortLitIn ≤ env.src.size
    · rw [if_pos hshort]
      have hll : token / 16 ≤ 14 := by omega
      apply Good.bind (copyIn_good st.buf st.op env.src (st.ip + 1) .srcRead 16 (by omega) (by omega))
      intro b hb
      exact fastMatch_good env N hw ⟨st.ip + 1 + token / 16, st.op + token / 16, b⟩ st.ip token (by simp; omega) (by simp; omega) (by simp; omega) (by simp; omega) (by simp; omega)
    · rw [if_neg hshort]
      exact safeLit_good env N hw st st.ip (st.ip + 1) token (token / 16) hsz (by omega) hd0 (by omega) (by omega)

/-- invariant of the loop states -/
def LoopInv (env : Env) (N : Nat) : Next → Prop
  | .fast s => s.buf.size = N ∧ env.dst0 ≤ s.op ∧ s.op + FASTLOOP_SAFE_DISTANCE ≤ N ∧ s.ip < env.src.size
  | .safe s => s.buf.size = N ∧ env.dst0 ≤ s.op ∧ s.op ≤ N ∧ s.ip < env.src.size
  | .done s => s.buf.size = N ∧ env.dst0 ≤ s.op ∧ s.op ≤ N

def nextIp : Next → Nat
  | .fast s => s.ip
  | .safe s => s.ip
  | .done s => s.ip

theorem NextOK.inv {env : Env} {N ip0 : Nat} {n : Next} (h : NextOK env N ip0 n) : LoopInv env N n := by
  cases n <;> simp only [NextOK] at h <;> simp only [LoopInv] <;> omega

theorem NextOK.progress {env : Env} {N ip0 : Nat} {n : Next} (h : NextOK env N ip0 n) :
    (∃ s, n = .done s) ∨ ip0 < nextIp n := by
  cases n with
  | fast s => right; simp only [NextOK] at h; simp only [nextIp]; omega
  | safe s => right; simp only [NextOK] at h; simp only [nextIp]; omega
  | done s => left; exact ⟨s, rfl⟩

/-- **memory safety + termination of the two loops**: from any state satisfying the invariant, with fuel exceeding the
    remaining input, the run never faults and never runs out of fuel, and ends inside the buffer -/
theorem loop_good (env : Env) (N : Nat) (hw : WF env N) :
    ∀ (fuel : Nat) (n : Next), LoopInv env N n → ((∃ s, n = .done s) ∨ env.src.size - nextIp n < fuel) → 0 < fuel →
      Good (fun s => s.buf.size = N ∧ env.dst0 ≤ s.op ∧ s.op ≤ N) (loop env fuel n) := by
  intro fuel
  induction fuel with
  | zero => intro n _ _ h; omega
  | succ fuel ih =>
    intro n hinv hfuel _
    cases n with
    | done s =>
      unfold loop
      exact Good.ok hinv
    | fast s =>
      simp only [LoopInv] at hinv
      have hf : env.src.size - s.ip < fuel + 1 := by
        rcases hfuel with ⟨s', h⟩ | h
        · cases h
        · exact h
      unfold loop
      have hg := fastIter_good env N hw s hinv.1 hinv.2.1 hinv.2.2.1 hinv.2.2.2
      revert hg
      generalize fastIter env s = r
      intro hg
      match r, hg with
      | .ok n', hg =>
        simp only [Good] at hg
        have hp := hg.progress
        have hfuel' : (∃ s', n' = .done s') ∨ env.src.size - nextIp n' < fuel := by
          rcases hp with h | h
          · exact Or.inl h
          · right; omega
        by_cases hz : fuel = 0
        · subst hz
          rcases hfuel' with ⟨s', rfl⟩ | h
          · -- would need one more step to return: fuel accounting guarantees this never happens
            omega
          · omega
        · exact ih n' hg.inv hfuel' (by omega)
      | .error (.bad _), _ => exact Good.bad
      | .error (.fault f), hg => simp [Good] at hg
      | .error .fuel, hg => simp [Good] at hg
    | safe s =>
      simp only [LoopInv] at hinv
      have hf : env.src.size - s.ip < fuel + 1 := by
        rcases hfuel with ⟨s', h⟩ | h
        · cases h
        · exact h
      unfold loop
      have hg := safeIter_good env N hw s hinv.1 hinv.2.2.1 hinv.2.1 hinv.2.2.2
      revert hg
      generalize safeIter env s = r
      intro hg
      match r, hg with
      | .ok n', hg =>
        simp only [Good] at hg
        have hp := hg.progress
        have hfuel' : (∃ s', n' = .done s') ∨ env.src.size - nextIp n' < fuel := by
          rcases hp with h | h
          · exact Or.inl h
          · right; omega
        by_cases hz : fuel = 0
        · subst hz
          rcases hfuel' with ⟨s', rfl⟩ | h
          · omega
          · omega
        · exact ih n' hg.inv hfuel' (by omega)
      | .error (.bad _), _ => exact Good.bad
      | .error (.fault f), hg => simp [Good] at hg
      | .error .fuel, hg => simp [Good] at hg

end LZ4V.Model.Decode

