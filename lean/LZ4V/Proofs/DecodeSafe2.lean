import LZ4V.Proofs.DecodeSafe1
/-!
# Memory safety of the decoder model, part 2: match copies (`safe_match_copy`, `_copy_match`, external dictionary)
-/
namespace LZ4V.Model.Decode
open LZ4V.Model LZ4V.Gen

/-- well-formed call geometry: what the API wrappers establish (`N` = `oend` = size of the buffer) -/
structure WF (env : Env) (N : Nat) : Prop where
  dst0_le : env.dst0 ≤ N
  low_le  : env.low ≤ env.dst0
  low_nn  : env.dict ≠ .withPrefix64k → 0 ≤ env.low
  pfx64   : env.dict = .withPrefix64k → 65535 ≤ env.dst0        -- at least 64 KB - 1 real bytes in front of dst
  ext_sz  : env.ext.size = env.dictSize
  nodict  : env.dict ≠ .usingExtDict → env.dictSize = 0

/-- what every continuation of an iteration satisfies (`ip0` = where the iteration started) -/
def NextOK (env : Env) (N ip0 : Nat) : Next → Prop
  | .fast s => s.buf.size = N ∧ env.dst0 ≤ s.op ∧ s.op + FASTLOOP_SAFE_DISTANCE ≤ N ∧ ip0 < s.ip ∧ s.ip < env.src.size
  | .safe s => s.buf.size = N ∧ env.dst0 ≤ s.op ∧ s.op ≤ N ∧ ip0 < s.ip ∧ s.ip < env.src.size
  | .done s => s.buf.size = N ∧ env.dst0 ≤ s.op ∧ s.op ≤ N

theorem extDictMatch_good (env : Env) (N : Nat) (hw : WF env N) (st : St) (ip back length : Nat)
    (hsz : st.buf.size = N) (hop : st.op ≤ N) (hd0 : env.dst0 ≤ st.op) (hne : env.dict ≠ .withPrefix64k)
    (hback : back ≤ env.ext.size) :
    Good (fun s => s.buf.size = N ∧ st.op ≤ s.op ∧ s.op ≤ st.op + length ∧ s.op ≤ N ∧ s.ip = ip ∧
                   (st.op + length + LASTLITERALS ≤ N → s.op = st.op + length))
      (extDictMatch env st ip back length) := by
  unfold extDictMatch
  have h5 := c_LASTLITERALS
  have hlow := hw.low_nn hne
  have hlow2 := hw.low_le
  simp only []
  by_cases h1 : st.op + length + LASTLITERALS > st.buf.size ∧ ¬ env.partialD
  · rw [if_pos h1]; exact Good.bad
  · rw [if_neg h1]
    rw [if_neg (by omega : ¬ back > env.ext.size)]
    generalize hL : (if st.op + length + LASTLITERALS > st.buf.size then min length (st.buf.size - st.op) else length) = L
    have hL1 : L ≤ length ∧ st.op + L ≤ N ∧ (st.op + length + LASTLITERALS ≤ N → L = length) := by
      rw [← hL]; split <;> omega
    by_cases h2 : L ≤ back
    · rw [if_pos h2]
      apply Good.bind (copyIn_good st.buf st.op env.ext (env.ext.size - back) .extRead L (by omega) (by omega))
      intro b hb
      refine Good.pure ?_
      dsimp only
      exact ⟨by omega, by omega, by omega, by omega, rfl, fun h => by omega⟩
    · rw [if_neg h2]
      apply Good.bind (copyIn_good st.buf st.op env.ext (env.ext.size - back) .extRead back (by omega) (by omega))
      intro b hb
      rw [if_neg (by omega : ¬ env.low < 0)]
      have hlN : env.low.toNat ≤ st.op := by omega
      have hstep : Good (fun b' => b'.size = N)
          (if L - back > st.op + back - env.low.toNat then fwd b (st.op + back) env.low.toNat (L - back)
           else memcpyB b (st.op + back) env.low.toNat (L - back)) := by
        split
        · exact (fwd_good_below b _ _ _ (by omega) (by omega)).mono (by intro b' h'; omega)
        · exact (memcpyB_good b _ _ _ (by omega) (by omega) (Or.inl (by omega))).mono (by intro b' h'; omega)
      apply Good.bind hstep
      intro b2 hb2
      refine Good.pure ?_
      dsimp only
      exact ⟨hb2, by omega, by omega, by omega, rfl, fun h => by omega⟩

theorem safeMatchCopy_good (buf : Bytes) (ip op mN offset length : Nat) (N : Nat)
    (hsz : buf.size = N) (hm : mN + offset = op) (hlen : 4 ≤ length)
    (hroom : op + 12 ≤ N ∨ op + length + 12 ≤ N) :
    Good (fun b => b.size = N ∧ op + length ≤ N) (safeMatchCopy buf ip op mN offset length) := by
  unfold safeMatchCopy
  have h5 := c_LASTLITERALS
  have h8 := c_WILDCOPYLENGTH
  have h12 := c_MSD
  simp only []
  -- first 8 bytes
  have hhead : Good (fun b => b.size = N) (if offset < 8 then smallOffsetHead buf op mN offset else memcpyB buf op mN 8) := by
    split
    · rename_i ho
      exact (smallOffsetHead_good buf op mN offset ho hm (by omega)).mono (by intro b hb; omega)
    · exact (memcpyB_good buf op mN 8 (by omega) (by omega) (Or.inl (by omega))).mono (by intro b hb; omega)
  apply Good.bind hhead
  intro b hb
  generalize hm2 : (if offset < 8 then op + 8 - smallDist offset else mN + 8) = m2
  have hm2b : m2 + 8 ≤ op + 8 ∧ (offset < 8 → smallDist offset ≤ op + 8) := by
    rw [← hm2]
    split
    · rename_i ho
      have := smallDist_bounds offset ho
      exact ⟨by omega, fun _ => by omega⟩
    · exact ⟨by omega, fun h => by omega⟩
  by_cases hf : offset < 8 ∧ op + 8 < smallDist offset
  · have := hm2b.2 hf.1; omega
  · rw [if_neg hf]
    rw [hsz]
    by_cases hnear : op + length + MATCH_SAFEGUARD_DISTANCE > N
    · rw [if_pos hnear]
      by_cases hlast : op + length + LASTLITERALS > N
      · rw [if_pos hlast]; exact Good.bad
      · rw [if_neg hlast]
        by_cases hlt : op + 8 < N - (WILDCOPYLENGTH - 1)
        · rw [if_pos hlt]
          have hw := wild8len_le (op + 8) (N - (WILDCOPYLENGTH - 1))
          apply Good.bind (wildCopy8B_good b (op + 8) m2 (N - (WILDCOPYLENGTH - 1)) (by omega) (by omega))
          intro b2 hb2
          exact (fwd_good_below b2 _ _ _ (by omega) (by omega)).mono (by intro b3 hb3; omega)
        · rw [if_neg hlt]
          exact (fwd_good_below b _ _ _ (by omega) (by omega)).mono (by intro b3 hb3; omega)
    · rw [if_neg hnear]
      apply Good.bind (memcpyB_good b (op + 8) m2 8 (by omega) (by omega) (Or.inl (by omega)))
      intro b2 hb2
      by_cases h16 : length > 16
      · rw [if_pos h16]
        have hw := wild8len_le (op + 16) (op + length)
        exact (wildCopy8B_good b2 (op + 16) (m2 + 8) (op + length) (by omega) (by omega)).mono (by intro b3 hb3; omega)
      · rw [if_neg h16]
        exact Good.pure ⟨by omega, by omega⟩

/-- every in-buffer match index is non-negative: from the offset check (noDict / extDict) or from the 64 KB prefix -/
theorem match_nonneg (env : Env) (N : Nat) (hw : WF env N) (op offset : Nat) (hd0 : env.dst0 ≤ op) (hoff : offset ≤ 65535)
    (h : env.dict = .withPrefix64k ∨ (op : Int) - offset ≥ env.low) : 0 ≤ (op : Int) - offset := by
  by_cases h64 : env.dict = .withPrefix64k
  · have := hw.pfx64 h64; omega
  · have := hw.low_nn h64
    rcases h with h | h
    · exact absurd h h64
    · omega

theorem safeMatch_good (env : Env) (N : Nat) (hw : WF env N) (st : St) (ip0 ip offset length : Nat)
    (hsz : st.buf.size = N) (hop : st.op ≤ N) (hd0 : env.dst0 ≤ st.op) (hip0 : ip0 < ip) (hip : ip < env.src.size)
    (hoff : offset ≤ 65535) (hlen : 4 ≤ length) (hroom : st.op + 12 ≤ N ∨ env.partialD = true) :
    Good (NextOK env N ip0) (safeMatch env st ip offset length) := by
  unfold safeMatch
  have h12 := c_MSD
  simp only []
  by_cases h1 : env.dictSize < 65536 ∧ (st.op : Int) - offset + env.dictSize < env.low
  · rw [if_pos h1]; exact Good.bad
  · rw [if_neg h1]
    by_cases h2 : env.dict = .usingExtDict ∧ (st.op : Int) - offset < env.low
    · rw [if_pos h2]
      have hne : env.dict ≠ .withPrefix64k := by rw [h2.1]; decide
      have hlow := hw.low_le
      have hback : (env.low - ((st.op : Int) - offset)).toNat ≤ env.ext.size := by
        rw [hw.ext_sz]
        by_cases hc : env.dictSize < 65536
        · have : ¬ ((st.op : Int) - offset + env.dictSize < env.low) := fun h => h1 ⟨hc, h⟩
          omega
        · omega
      apply Good.bind (extDictMatch_good env N hw st ip _ length hsz hop hd0 hne hback)
      intro s hs
      refine Good.pure ?_
      simp only [NextOK]
      exact ⟨hs.1, by omega, hs.2.2.2.1, by rw [hs.2.2.2.2.1]; exact hip0, by rw [hs.2.2.2.2.1]; exact hip⟩
    · rw [if_neg h2]
      have hm0 : 0 ≤ (st.op : Int) - offset := by
        by_cases h64 : env.dict = .withPrefix64k
        · exact match_nonneg env N hw st.op offset hd0 hoff (Or.inl h64)
        · have hl := hw.low_nn h64
          by_cases hx : env.dict = .usingExtDict
          · have : ¬ ((st.op : Int) - offset < env.low) := fun h => h2 ⟨hx, h⟩
            omega
          · have hds := hw.nodict hx
            have : ¬ ((st.op : Int) - offset + env.dictSize < env.low) := fun h => h1 ⟨by omega, h⟩
            omega
      rw [if_neg (by omega : ¬ (st.op : Int) - offset < 0)]
      have hmN : ((st.op : Int) - offset).toNat + offset = st.op := by omega
      generalize ((st.op : Int) - offset).toNat = mN at hmN
      by_cases hp : env.partialD ∧ st.op + length + MATCH_SAFEGUARD_DISTANCE > st.buf.size
      · rw [if_pos hp]
        rw [hsz]
        have hcopy : Good (fun b => b.size = N)
            (if mN + min length (N - st.op) > st.op then fwd st.buf st.op mN (min length (N - st.op))
             else memcpyB st.buf st.op mN (min length (N - st.op))) := by
          split
          · exact (fwd_good_below st.buf _ _ _ (by omega) (by omega)).mono (by intro b hb; omega)
          · exact (memcpyB_good st.buf _ _ _ (by omega) (by omega) (Or.inl (by omega))).mono (by intro b hb; omega)
        apply Good.bind hcopy
        intro b hb
        split
        · refine Good.pure ?_
          simp only [NextOK]; omega
        · refine Good.pure ?_
          simp only [NextOK]; omega
      · rw [if_neg hp]
        have hroom2 : st.op + 12 ≤ N ∨ st.op + length + 12 ≤ N := by
          rcases hroom with h | h
          · exact Or.inl h
          · have : ¬ (st.op + length + MATCH_SAFEGUARD_DISTANCE > st.buf.size) := fun hh => hp ⟨h, hh⟩
            exact Or.inr (by omega)
        apply Good.bind (safeMatchCopy_good st.buf ip st.op mN offset length N hsz hmN hlen hroom2)
        intro b hb
        refine Good.pure ?_
        simp only [NextOK]; omega

theorem copyMatchLbl_good (env : Env) (N : Nat) (hw : WF env N) (st : St) (ip0 ip offset token : Nat)
    (hsz : st.buf.size = N) (hop : st.op ≤ N) (hd0 : env.dst0 ≤ st.op) (hip0 : ip0 < ip) (hip : ip < env.src.size)
    (hoff : offset ≤ 65535) (hroom : st.op + 12 ≤ N ∨ env.partialD = true) :
    Good (NextOK env N ip0) (copyMatchLbl env st ip offset token) := by
  unfold copyMatchLbl
  have h4 := c_MINMATCH
  apply Good.bind (matchLen_good env.src ip token hip)
  intro r hr
  exact safeMatch_good env N hw st ip0 r.2 offset r.1 hsz hop hd0 (by omega) hr.2.1 hoff (by omega) hroom

end LZ4V.Model.Decode
