import LZ4V.Model.CliFrame
import LZ4V.Proofs.FrameFastE2E
import LZ4V.Properties.C20
/-!
# The default-format archive of the `lz4` CLI decodes to its input (Model/CliFrame.lean)
-/
namespace LZ4V.Model.CliFrame
open LZ4V.Model LZ4V.Model.FrameFast LZ4V.Spec.FrameL LZ4V.Spec.Frame

/-- `LZ4F_optimalBSID` (the regenerated function) returns a legal block size id, for every requested id and source size -/
theorem optimalBSID_range (req : Nat) (hr : 4 ≤ req ∧ req ≤ 7) (n : Nat) :
    4 ≤ (LZ4V.Gen.LZ4F_optimalBSID req n).toNat ∧ (LZ4V.Gen.LZ4F_optimalBSID req n).toNat ≤ 7 := by
  obtain ⟨h4, h7⟩ := hr
  have : req = 4 ∨ req = 5 ∨ req = 6 ∨ req = 7 := by omega
  rcases this with rfl | rfl | rfl | rfl <;>
    by_cases h1 : (n : Int) ≤ 65536 <;> by_cases h2 : (n : Int) ≤ 262144 <;> by_cases h3 : (n : Int) ≤ 1048576 <;>
    simp [LZ4V.Gen.LZ4F_optimalBSID, LZ4V.Gen.LZ4F_optimalBSID.loop1, h1, h2, h3]

theorem fed_single (src : Bytes) : FrameC.fed [FrameC.Op.update src false] = src := by
  simp [FrameC.fed]

theorem fed_streamed (bs : Nat) (src : Bytes) : FrameC.fed (FrameC.writeOps bs [src]) = src := by
  rw [LZ4V.C20.fed_writeOps]; simp

theorem writeOps_no_begin (bs : Nat) (writes : List Bytes) : ∀ op ∈ FrameC.writeOps bs writes, ∀ b a, op ≠ FrameC.Op.begin b a := by
  intro op hop b a
  unfold FrameC.writeOps at hop
  obtain ⟨l, hl, hop⟩ := List.mem_flatten.mp hop
  obtain ⟨w, _, rfl⟩ := List.mem_map.mp hl
  obtain ⟨ch, _, rfl⟩ := List.mem_map.mp hop
  intro hc; cases hc

/-- the single-pass archive decodes, as a stream, to the input -/
theorem single_decodes (E : Env) (ok : EnvOK E) (hashOf : Array UInt8 → Bool → Nat → Nat) (o : Opts) (hr : 4 ≤ o.bsidReq ∧ o.bsidReq ≤ 7)
    (src : Bytes) (hn : src.length < 256 ^ 8) (f : Bytes) (h : single E hashOf o src = some f) : Decodes E [] f src := by
  have := frameOfOps_stream E ok hashOf (prefsSingle o src.length) (optimalBSID_range o.bsidReq hr src.length)
    (by unfold prefsSingle; dsimp only; split <;> omega) (by unfold prefsSingle; dsimp only; omega)
    [FrameC.Op.update src false] (by intro op hop b a; simp only [List.mem_singleton] at hop; subst hop; intro hc; cases hc) f h
    (by rw [fed_single]; unfold prefsSingle; dsimp only; split <;> simp)
  rwa [fed_single] at this

/-- the streamed archive (single-threaded build) decodes, as a stream, to the input -/
theorem streamed_decodes (E : Env) (ok : EnvOK E) (hashOf : Array UInt8 → Bool → Nat → Nat) (o : Opts) (hr : 4 ≤ o.bsidReq ∧ o.bsidReq ≤ 7)
    (src : Bytes) (hn : src.length < 256 ^ 8) (f : Bytes) (h : streamed E hashOf o src = some f) : Decodes E [] f src := by
  have := frameOfOps_stream E ok hashOf (prefsStream o src.length) hr
    (by unfold prefsStream; dsimp only; split <;> omega) (by unfold prefsStream; dsimp only; omega)
    (FrameC.writeOps (blockSizeOf o.bsidReq) [src]) (writeOps_no_begin _ _) f h
    (by rw [fed_streamed]; unfold prefsStream; dsimp only; split <;> simp)
  rwa [fed_streamed] at this

/-- **the archive `lz4 FILE` writes decodes to FILE** (default format, fast level, independent blocks; both builds) -/
theorem archive_decodes (E : Env) (ok : EnvOK E) (hashOf : Array UInt8 → Bool → Nat → Nat) (mt : Bool) (o : Opts)
    (hr : 4 ≤ o.bsidReq ∧ o.bsidReq ≤ 7) (src : Bytes) (hn : src.length < 256 ^ 8) (f : Bytes)
    (h : archive E hashOf mt o src = some f) : Decodes E [] f src := by
  unfold archive at h
  cases mt with
  | true =>
    simp only [if_true] at h
    by_cases hc : src.length < mtChunk
    · rw [if_pos hc] at h; exact single_decodes E ok hashOf o hr src hn f h
    · rw [if_neg hc] at h; cases h
  | false =>
    simp only [Bool.false_eq_true, if_false] at h
    by_cases hc : src.length < blockSizeOf o.bsidReq
    · rw [if_pos hc] at h; exact single_decodes E ok hashOf o hr src hn f h
    · rw [if_neg hc] at h; exact streamed_decodes E ok hashOf o hr src hn f h

/-- a history of updates and flushes on an open frame, then `finish`, never fails -/
theorem run_updates_ok : ∀ (ops : List FrameC.Op) (c : FrameC.Ctx), c.stage = 1 →
    (∀ op ∈ ops, (∃ s u, op = FrameC.Op.update s u) ∨ op = FrameC.Op.flush) →
    ∃ r, FrameC.run c (ops ++ [FrameC.Op.finish]) = .ok r := by
  intro ops
  induction ops with
  | nil =>
    intro c hc _
    simp only [List.nil_append, FrameC.run, FrameC.step]
    rw [if_neg (by omega)]
    exact ⟨_, rfl⟩
  | cons op rest ih =>
    intro c hc hall
    have hrest : ∀ op ∈ rest, (∃ s u, op = FrameC.Op.update s u) ∨ op = FrameC.Op.flush := fun o ho => hall o (List.mem_cons_of_mem _ ho)
    rcases hall op List.mem_cons_self with ⟨s, u, rfl⟩ | rfl
    · simp only [List.cons_append, FrameC.run, FrameC.step]
      rw [if_neg (by omega)]
      dsimp only
      have : (FrameC.updateCore (if c.uncompressedMode ≠ u then { c with buffered := [], uncompressedMode := u } else c) s).1.stage = 1 := by
        unfold FrameC.updateCore
        dsimp only
        split <;> simpa using hc
      obtain ⟨r, hr⟩ := ih _ this hrest
      rw [hr]
      exact ⟨_, rfl⟩
    · simp only [List.cons_append, FrameC.run, FrameC.step]
      rw [if_neg (by omega)]
      dsimp only
      obtain ⟨r, hr⟩ := ih { c with buffered := [] } hc hrest
      rw [hr]
      exact ⟨_, rfl⟩

theorem frameOfOps_succeeds (E : Env) (hashOf : Array UInt8 → Bool → Nat → Nat) (p : Prefs) (ops : List FrameC.Op)
    (hall : ∀ op ∈ ops, (∃ s u, op = FrameC.Op.update s u) ∨ op = FrameC.Op.flush) : (frameOfOps E hashOf p ops).isSome := by
  unfold frameOfOps
  rw [List.cons_append, run_begin]
  obtain ⟨r, hr⟩ := run_updates_ok ops (LZ4V.C03.afterBegin (blockSizeOf p.bsid) p.autoFlush) rfl hall
  rw [hr]
  rfl

/-- the model always produces an archive in the single-threaded build, and below 4 MiB in the multi-threaded one -/
theorem archive_succeeds (E : Env) (hashOf : Array UInt8 → Bool → Nat → Nat) (mt : Bool) (o : Opts) (src : Bytes)
    (h : mt = false ∨ src.length < mtChunk) : (archive E hashOf mt o src).isSome := by
  have h1 : (single E hashOf o src).isSome :=
    frameOfOps_succeeds E hashOf _ _ (by intro op hop; simp only [List.mem_singleton] at hop; exact Or.inl ⟨_, _, hop⟩)
  have h2 : (streamed E hashOf o src).isSome := by
    refine frameOfOps_succeeds E hashOf _ _ ?_
    intro op hop
    unfold FrameC.writeOps at hop
    obtain ⟨l, hl, hop⟩ := List.mem_flatten.mp hop
    obtain ⟨w, _, rfl⟩ := List.mem_map.mp hl
    obtain ⟨ch, _, rfl⟩ := List.mem_map.mp hop
    exact Or.inl ⟨_, _, rfl⟩
  unfold archive
  cases mt with
  | true =>
    rcases h with h | h
    · cases h
    · simp only [if_true, if_pos h]; exact h1
  | false =>
    simp only [Bool.false_eq_true, if_false]
    split
    · exact h1
    · exact h2

end LZ4V.Model.CliFrame
