import LZ4V.Proofs.DecodeFun8
/-!
# What the decoder model computes, part 9: a block that is valid under the format document satisfies the forward hypothesis

`vtail_of_valid` : if the specification decodes the block, its parse obeys the end-of-block rules (`endConditions`: the last 5 bytes
are literals, the last match starts at least 12 bytes before the end) and the destination has room for the content, then every step
has the room the decoder's parsing restrictions ask for (`VTail`).  This is the only place where the end-of-block rules are used.
-/
namespace LZ4V.Model.Decode
open LZ4V.Model LZ4V.Gen LZ4V.Spec.Block

theorem copyMatch_length : ∀ (n : Nat) (out : List UInt8) (off : Nat) (r : List UInt8), copyMatch out off n = some r → r.length = out.length + n := by
  intro n
  induction n with
  | zero => intro out off r h; simp only [copyMatch, Option.some.injEq] at h; subst h; rfl
  | succ n ih =>
    intro out off r h
    simp only [copyMatch] at h
    by_cases hc : 1 ≤ off ∧ off ≤ out.length
    · rw [if_pos hc] at h
      cases hg : out[out.length - off]? with
      | none => rw [hg] at h; cases h
      | some b =>
        rw [hg] at h
        have := ih _ _ _ h
        rw [this, List.length_append]
        simp only [List.length_cons, List.length_nil]
        omega
    · rw [if_neg hc] at h; cases h

theorem copyMatch_off : ∀ (n : Nat) (out : List UInt8) (off : Nat) (r : List UInt8), copyMatch out off (n + 1) = some r → 1 ≤ off ∧ off ≤ out.length := by
  intro n out off r h
  simp only [copyMatch] at h
  by_cases hc : 1 ≤ off ∧ off ≤ out.length
  · exact hc
  · rw [if_neg hc] at h; cases h

theorem pstep_seq_ml (inp : List UInt8) (s : Seq) (rest : List UInt8) (h : pstep inp = .seq s rest) : 4 ≤ s.ml := by
  cases inp with
  | nil => simp [pstep] at h
  | cons tok inp =>
    simp only [pstep] at h
    split at h
    · cases h
    · split at h
      · cases h
      · split at h
        · cases h
        · cases h
        · split at h
          · cases h
          · simp only [PStep.seq.injEq] at h
            rw [← h.1]
            dsimp only
            omega

theorem pstep_fin_length (inp : List UInt8) (l : List UInt8) (h : pstep inp = .fin l) : l.length + 1 ≤ inp.length := by
  cases inp with
  | nil => simp [pstep] at h
  | cons tok inp =>
    simp only [pstep] at h
    cases hrf : readField (tok.toNat / 16) inp with
    | none => rw [hrf] at h; cases h
    | some w =>
      obtain ⟨ll, inp1⟩ := w
      rw [hrf] at h
      dsimp only at h
      have hs := readField_suffix _ _ _ _ hrf
      by_cases hgt : ll > inp1.length
      · rw [if_pos hgt] at h; cases h
      · rw [if_neg hgt] at h
        split at h
        · simp only [PStep.fin.injEq] at h
          rw [← h, List.length_take, List.length_cons]
          omega
        · cases h
        · split at h <;> cases h

/-- the input of a parse is at least as long as a token plus its last literals -/
theorem parseAux_length : ∀ (f : Nat) (inp : List UInt8) (seqs : List Seq) (last : List UInt8), parseAux f inp = some (seqs, last) →
    last.length + 1 ≤ inp.length := by
  intro f
  induction f with
  | zero => intro inp seqs last h; simp [parseAux] at h
  | succ f ih =>
    intro inp seqs last h
    rw [parseAux_pstep] at h
    cases hp : pstep inp with
    | fail => rw [hp] at h; cases h
    | fin l =>
      rw [hp] at h
      simp only [Option.some.injEq, Prod.mk.injEq] at h
      rw [← h.2]
      exact pstep_fin_length inp l hp
    | seq s rest =>
      rw [hp] at h
      dsimp only at h
      cases hr : parseAux f rest with
      | none => rw [hr] at h; cases h
      | some w =>
        obtain ⟨seqs', last'⟩ := w
        rw [hr] at h
        simp only [Option.some.injEq, Prod.mk.injEq] at h
        have := ih rest seqs' last' hr
        have := pstep_seq_shorter inp s rest hp
        rw [← h.2]
        omega

/-- the end-of-block rules, in a form that survives dropping leading sequences -/
def EC (seqs : List Seq) (last : List UInt8) : Prop :=
  seqs ≠ [] → 5 ≤ last.length ∧ ∀ s, seqs.getLast? = some s → 12 ≤ s.ml + last.length

theorem EC_of_endConditions (seqs : List Seq) (last : List UInt8) (h : endConditions seqs last = true) : EC seqs last := by
  intro hne
  unfold endConditions at h
  cases hg : seqs.getLast? with
  | none => rw [List.getLast?_eq_none_iff] at hg; exact absurd hg hne
  | some s =>
    rw [hg] at h
    simp only [Bool.and_eq_true, decide_eq_true_eq] at h
    exact ⟨h.1, fun s' hs' => by cases hs'; exact h.2⟩

theorem EC_tail (s : Seq) (rest : List Seq) (last : List UInt8) (h : EC (s :: rest) last) : EC rest last := by
  intro hne
  obtain ⟨h1, h2⟩ := h (by simp)
  refine ⟨h1, fun s' hs' => h2 s' ?_⟩
  cases rest with
  | nil => exact absurd rfl hne
  | cons a t => rw [List.getLast?_cons_cons]; exact hs'

theorem exec_length_ge : ∀ (seqs : List Seq) (out last fin : List UInt8), exec out seqs last = some fin → out.length + last.length ≤ fin.length := by
  intro seqs
  induction seqs with
  | nil => intro out last fin h; simp only [exec, Option.some.injEq] at h; rw [← h, List.length_append]; omega
  | cons s rest ih =>
    intro out last fin h
    simp only [exec] at h
    cases hc : copyMatch (out ++ s.lits) s.off s.ml with
    | none => rw [hc] at h; cases h
    | some out2 =>
      rw [hc] at h
      have := ih out2 last fin h
      have := copyMatch_length _ _ _ _ hc
      rw [List.length_append] at this
      omega

/-- with the end-of-block rules, every match starts at least 12 and ends at least 5 bytes before the end of the content -/
theorem exec_room : ∀ (rest : List Seq) (s : Seq) (out last fin : List UInt8), exec out (s :: rest) last = some fin → EC (s :: rest) last →
    out.length + s.lits.length + 12 ≤ fin.length ∧ out.length + s.lits.length + s.ml + 5 ≤ fin.length := by
  intro rest
  induction rest with
  | nil =>
    intro s out last fin h hec
    simp only [exec] at h
    cases hc : copyMatch (out ++ s.lits) s.off s.ml with
    | none => rw [hc] at h; cases h
    | some out2 =>
      rw [hc] at h
      simp only [Option.some.injEq] at h
      have hl := copyMatch_length _ _ _ _ hc
      rw [List.length_append] at hl
      obtain ⟨h5, h12⟩ := hec (by simp)
      have := h12 s (by simp)
      rw [← h, List.length_append]
      omega
  | cons s' rest ih =>
    intro s out last fin h hec
    rw [exec] at h
    cases hc : copyMatch (out ++ s.lits) s.off s.ml with
    | none => rw [hc] at h; cases h
    | some out2 =>
      rw [hc] at h
      dsimp only at h
      have hl := copyMatch_length _ _ _ _ hc
      rw [List.length_append] at hl
      have := ih s' out2 last fin h (EC_tail s (s' :: rest) last hec)
      omega

/-- **a block that is valid under the format document meets the forward hypothesis**
    (room for the whole content is needed for full decoding only) -/
theorem vtail_of_valid (env : Env) (N : Nat) : ∀ (f : Nat) (inp out : List UInt8) (seqs : List Seq) (last fin : List UInt8) (op : Nat),
    parseAux f inp = some (seqs, last) → exec out seqs last = some fin → EC seqs last →
    (env.partialD = true ∨ op + fin.length ≤ N + out.length) → VTail env N f op inp out := by
  intro f
  induction f with
  | zero => intro inp out seqs last fin op h; simp [parseAux] at h
  | succ f ih =>
    intro inp out seqs last fin op hp he hec hroom
    rw [parseAux_pstep] at hp
    simp only [VTail, VIter]
    cases hps : pstep inp with
    | fail => rw [hps] at hp; cases hp
    | fin l =>
      rw [hps] at hp
      simp only [Option.some.injEq, Prod.mk.injEq] at hp
      obtain ⟨h1, h2⟩ := hp
      subst h1 h2
      simp only [exec, Option.some.injEq] at he
      rw [← he, List.length_append] at hroom
      refine ⟨?_, trivial⟩
      dsimp only
      rcases hroom with h | h
      · exact Or.inl h
      · right; omega
    | seq s rest =>
      rw [hps] at hp
      dsimp only at hp ⊢
      cases hr : parseAux f rest with
      | none => rw [hr] at hp; cases hp
      | some w =>
        obtain ⟨seqs', last'⟩ := w
        rw [hr] at hp
        simp only [Option.some.injEq, Prod.mk.injEq] at hp
        obtain ⟨h1, h2⟩ := hp
        subst h1 h2
        have hroomS := exec_room seqs' s out last' fin he hec
        rw [exec] at he
        cases hc : copyMatch (out ++ s.lits) s.off s.ml with
        | none => rw [hc] at he; cases he
        | some out2 =>
          rw [hc] at he
          dsimp only at he
          have hl := copyMatch_length _ _ _ _ hc
          rw [List.length_append] at hl
          have hml := pstep_seq_ml inp s rest hps
          have hoff := copyMatch_off (s.ml - 1) (out ++ s.lits) s.off out2 (by rw [show s.ml - 1 + 1 = s.ml by omega]; exact hc)
          rw [List.length_append] at hoff
          have hlast := (hec (by simp)).1
          have hrl := parseAux_length f rest seqs' last' hr
          refine ⟨⟨hoff.1, hoff.2, ?_, by omega⟩, out2, rfl, ?_⟩
          · rcases hroom with h | h
            · exact Or.inl h
            · right; omega
          · refine ih rest out2 seqs' last' fin _ hr he (EC_tail s seqs' last' hec) ?_
            rcases hroom with h | h
            · exact Or.inl h
            · right; omega

end LZ4V.Model.Decode
