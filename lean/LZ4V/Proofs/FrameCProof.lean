import LZ4V.Model.FrameC
/-!
# Invariants of the LZ4F compression buffering state machine
-/
namespace LZ4V.Model.FrameC

/-- closes the easy side goals of the invariant proofs -/
macro "easy" : tactic => `(tactic| first | rfl | trivial | omega | (intros; trivial) | (simp; omega; done))

/-- the split into full blocks loses nothing, every block is exactly `bs` long, the remainder is shorter than `bs` -/
theorem fullBlocks_spec (bs : Nat) (hbs : 0 < bs) : ∀ (fuel : Nat) (src : List UInt8), src.length < fuel →
    (fullBlocks bs fuel src).1.flatten ++ (fullBlocks bs fuel src).2 = src ∧
    (∀ b ∈ (fullBlocks bs fuel src).1, b.length = bs) ∧ (fullBlocks bs fuel src).2.length < bs := by
  intro fuel
  induction fuel with
  | zero => intro src h; omega
  | succ f ih =>
    intro src hf
    unfold fullBlocks
    by_cases hc : bs ≤ src.length ∧ 0 < bs
    · rw [if_pos hc]
      have hlen : (src.drop bs).length < f := by rw [List.length_drop]; omega
      obtain ⟨i1, i2, i3⟩ := ih (src.drop bs) hlen
      dsimp only
      refine ⟨?_, ?_, i3⟩
      · rw [List.flatten_cons, List.append_assoc, i1, List.take_append_drop]
      · intro b hb
        rw [List.mem_cons] at hb
        rcases hb with hb | hb
        · rw [hb, List.length_take]; omega
        · exact i2 b hb
    · rw [if_neg hc]
      refine ⟨by simp, ?_, ?_⟩
      · intro b hb; cases hb
      · dsimp only; omega

/-- one update: nothing is lost or duplicated, blocks are at most `blockSize` long and non-empty, less than a block stays buffered -/
theorem updateCore_spec (c : Ctx) (src : List UInt8) (hbs : 0 < c.blockSize) (hb : c.buffered.length < c.blockSize) :
    (updateCore c src).2.flatten ++ (updateCore c src).1.buffered = c.buffered ++ src ∧
    (∀ b ∈ (updateCore c src).2, 0 < b.length ∧ b.length ≤ c.blockSize) ∧
    (updateCore c src).1.buffered.length < c.blockSize ∧
    (updateCore c src).1.blockSize = c.blockSize ∧ (updateCore c src).1.stage = c.stage ∧
    (updateCore c src).1.autoFlush = c.autoFlush ∧
    (c.autoFlush = true → c.buffered = [] → (updateCore c src).1.buffered = []) := by
  unfold updateCore
  by_cases hne : c.buffered ≠ []
  · rw [if_pos hne]
    by_cases hshort : c.blockSize - c.buffered.length > src.length
    · -- everything goes into the buffer
      rw [if_pos hshort]
      dsimp only
      have hfb : fullBlocks c.blockSize (([] : List UInt8).length + 1) [] = ([], []) := by
        unfold fullBlocks; simp
      rw [hfb]
      simp only [ne_eq, not_true_eq_false, and_false, if_false, List.append_nil, List.flatten_nil, List.nil_append]
      refine ⟨trivial, ?_, ?_, trivial, trivial, trivial, fun _ h => absurd h hne⟩
      · intro b hb; cases hb
      · rw [List.length_append]; omega
    · rw [if_neg hshort]
      dsimp only
      obtain ⟨f1, f2, f3⟩ := fullBlocks_spec c.blockSize hbs ((src.drop (c.blockSize - c.buffered.length)).length + 1)
        (src.drop (c.blockSize - c.buffered.length)) (by omega)
      generalize fullBlocks c.blockSize ((src.drop (c.blockSize - c.buffered.length)).length + 1) (src.drop (c.blockSize - c.buffered.length)) = fb at f1 f2 f3
      have hfirst : (c.buffered ++ src.take (c.blockSize - c.buffered.length)).length = c.blockSize := by
        rw [List.length_append, List.length_take]; omega
      by_cases haf : c.autoFlush = true ∧ fb.2 ≠ []
      · rw [if_pos haf]
        dsimp only
        simp only [ne_eq, not_true_eq_false, if_false]
        refine ⟨?_, ?_, ?_, ?_, ?_, ?_, fun _ h => absurd h hne⟩ <;> try easy
        · simp only [List.flatten_append, List.flatten_cons, List.flatten_nil, List.append_nil, List.append_assoc]
          rw [f1, List.take_append_drop]
        · intro b hb
          simp only [List.mem_append, List.mem_cons, List.not_mem_nil, or_false] at hb
          rcases hb with (hb | hb) | hb
          · rw [hb, hfirst]; omega
          · rw [f2 b hb]; omega
          · rw [hb]
            have : 0 < fb.2.length := List.length_pos_iff.mpr haf.2
            omega
      · rw [if_neg haf]
        dsimp only
        refine ⟨?_, ?_, ?_, ?_, ?_, ?_, fun _ h => absurd h hne⟩ <;> try easy
        · by_cases hr : fb.2 ≠ []
          · rw [if_pos hr]
            simp only [List.append_nil, List.flatten_append, List.flatten_cons, List.flatten_nil, List.append_assoc]
            rw [f1, List.take_append_drop]
          · rw [if_neg hr]
            have hr' : fb.2 = [] := by simpa using hr
            rw [hr'] at f1
            simp only [List.append_nil] at f1 ⊢
            simp only [List.flatten_append, List.flatten_cons, List.flatten_nil, List.append_nil, List.append_assoc]
            rw [f1, List.take_append_drop]
        · intro b hb
          simp only [List.append_nil, List.mem_append, List.mem_cons, List.not_mem_nil, or_false] at hb
          rcases hb with hb | hb
          · rw [hb, hfirst]; omega
          · rw [f2 b hb]; omega
        · by_cases hr : fb.2 ≠ []
          · rw [if_pos hr]; exact f3
          · rw [if_neg hr]; simp; omega
  · rw [if_neg hne]
    have hb0 : c.buffered = [] := by simpa using hne
    dsimp only
    obtain ⟨f1, f2, f3⟩ := fullBlocks_spec c.blockSize hbs (src.length + 1) src (by omega)
    generalize fullBlocks c.blockSize (src.length + 1) src = fb at f1 f2 f3
    by_cases haf : c.autoFlush = true ∧ fb.2 ≠ []
    · rw [if_pos haf]
      dsimp only
      simp only [ne_eq, not_true_eq_false, if_false]
      refine ⟨?_, ?_, ?_, ?_, ?_, ?_, ?_⟩ <;> try easy
      · simp only [List.nil_append, List.flatten_append, List.flatten_cons, List.flatten_nil, List.append_nil, hb0]
        exact f1
      · intro b hb
        simp only [List.nil_append, List.mem_append, List.mem_cons, List.not_mem_nil, or_false] at hb
        rcases hb with hb | hb
        · rw [f2 b hb]; omega
        · rw [hb]
          have : 0 < fb.2.length := List.length_pos_iff.mpr haf.2
          omega
    · rw [if_neg haf]
      dsimp only
      refine ⟨?_, ?_, ?_, ?_, ?_, ?_, ?_⟩ <;> try easy
      · by_cases hr : fb.2 ≠ []
        · rw [if_pos hr]
          simp only [List.nil_append, List.append_nil, hb0]
          exact f1
        · rw [if_neg hr]
          have hr' : fb.2 = [] := by simpa using hr
          rw [hr'] at f1
          simp only [List.nil_append, List.append_nil, hb0] at f1 ⊢
          exact f1
      · intro b hb
        simp only [List.nil_append, List.append_nil] at hb
        rw [f2 b hb]; omega
      · by_cases hr : fb.2 ≠ []
        · rw [if_pos hr]; exact f3
        · rw [if_neg hr]; simp; omega
      · intro ha _
        by_cases hr : fb.2 ≠ []
        · exact absurd ⟨ha, hr⟩ haf
        · rw [if_neg hr]

/-- a context is *well-formed* when a frame is open with a positive block size and less than a block buffered -/
def WF (c : Ctx) : Prop := 0 < c.blockSize ∧ c.buffered.length < c.blockSize

theorem flushBlocks_spec (c : Ctx) (h : WF c) :
    (flushBlocks c).flatten = c.buffered ∧ ∀ b ∈ flushBlocks c, 0 < b.length ∧ b.length ≤ c.blockSize := by
  unfold flushBlocks
  by_cases hb : c.buffered = []
  · rw [if_pos hb, hb]; exact ⟨rfl, by intro b hb; cases hb⟩
  · rw [if_neg hb]
    refine ⟨by simp, ?_⟩
    intro b hm
    have : b = c.buffered := by simpa using hm
    subst this
    exact ⟨List.length_pos_iff.mpr hb, Nat.le_of_lt h.2⟩

/-- one call (other than `begin`): emitted blocks followed by what stays buffered are what was buffered followed by the new input -/
theorem step_spec (c c' : Ctx) (op : Op) (e : Emit) (h : WF c) (hop : ∀ bs af, op ≠ .begin bs af) (hs : step c op = .ok (c', e)) :
    e.blocks.flatten ++ c'.buffered = c.buffered ++ fed [op] ∧
    (∀ b ∈ e.blocks, 0 < b.length ∧ b.length ≤ c.blockSize) ∧ WF c' ∧ c'.blockSize = c.blockSize ∧
    (e.closed = true → c'.buffered = []) := by
  cases op with
  | begin bs af => exact absurd rfl (hop bs af)
  | update src unc =>
    simp only [step] at hs
    by_cases hst : c.stage ≠ 1
    · rw [if_pos hst] at hs; cases hs
    · rw [if_neg hst] at hs
      injection hs with hs
      injection hs with h1 h2
      subst h1; subst h2
      by_cases hsw : c.uncompressedMode ≠ unc
      · rw [if_pos hsw, if_pos hsw]
        simp only [fed, List.append_nil]
        have hwf1 : WF { c with buffered := [], uncompressedMode := unc } := ⟨h.1, by simp; exact h.1⟩
        obtain ⟨u1, u2, u3, u4, _, _, _⟩ := updateCore_spec { c with buffered := [], uncompressedMode := unc } src hwf1.1 hwf1.2
        obtain ⟨f1, f2⟩ := flushBlocks_spec c h
        refine ⟨?_, ?_, ⟨by rw [u4]; exact h.1, by rw [u4]; exact u3⟩, u4, (fun hc => by cases hc)⟩
        · rw [List.flatten_append, List.append_assoc, u1, f1]; simp
        · intro b hb
          rw [List.mem_append] at hb
          rcases hb with hb | hb
          · exact f2 b hb
          · exact u2 b hb
      · rw [if_neg hsw, if_neg hsw]
        simp only [fed, List.append_nil, List.nil_append]
        obtain ⟨u1, u2, u3, u4, _, _, _⟩ := updateCore_spec c src h.1 h.2
        exact ⟨u1, u2, ⟨by rw [u4]; exact h.1, by rw [u4]; exact u3⟩, u4, (fun hc => by cases hc)⟩
  | flush =>
    simp only [step] at hs
    obtain ⟨f1, f2⟩ := flushBlocks_spec c h
    by_cases hst : c.stage ≠ 1
    · rw [if_pos hst] at hs
      by_cases hb : c.buffered = []
      · rw [if_pos hb] at hs
        injection hs with hs; injection hs with h1 h2; subst h1; subst h2
        exact ⟨by simp [fed], (fun b hb => by cases hb), h, rfl, (fun hc => by cases hc)⟩
      · rw [if_neg hb] at hs; cases hs
    · rw [if_neg hst] at hs
      injection hs with hs; injection hs with h1 h2; subst h1; subst h2
      exact ⟨by simp [fed, f1], f2, ⟨h.1, by simp; exact h.1⟩, rfl, (fun hc => by cases hc)⟩
  | finish =>
    simp only [step] at hs
    obtain ⟨f1, f2⟩ := flushBlocks_spec c h
    by_cases hst : c.stage ≠ 1
    · rw [if_pos hst] at hs
      by_cases hb : c.buffered = []
      · rw [if_pos hb] at hs
        injection hs with hs; injection hs with h1 h2; subst h1; subst h2
        exact ⟨by simp [fed, hb], (fun b hb => by cases hb), ⟨h.1, h.2⟩, rfl, fun _ => hb⟩
      · rw [if_neg hb] at hs; cases hs
    · rw [if_neg hst] at hs
      injection hs with hs; injection hs with h1 h2; subst h1; subst h2
      exact ⟨by simp [fed, f1], f2, ⟨h.1, by simp; exact h.1⟩, rfl, fun _ => rfl⟩

/-- **blocks cover the input** for every call history without an intervening `begin`: the contents of all emitted blocks,
    in order, followed by what is still buffered, equal what was buffered at the start followed by everything fed -/
theorem run_cover (ops : List Op) : ∀ (c c' : Ctx) (blocks : List (List UInt8)), WF c →
    (∀ op ∈ ops, ∀ bs af, op ≠ .begin bs af) → run c ops = .ok (c', blocks) →
    blocks.flatten ++ c'.buffered = c.buffered ++ fed ops ∧ (∀ b ∈ blocks, 0 < b.length ∧ b.length ≤ c.blockSize) ∧ WF c' := by
  induction ops with
  | nil =>
    intro c c' blocks h _ hr
    simp only [run] at hr
    injection hr with hr; injection hr with h1 h2; subst h1; subst h2
    exact ⟨by simp [fed], (fun b hb => by cases hb), h⟩
  | cons op rest ih =>
    intro c c' blocks h hops hr
    simp only [run] at hr
    cases hs : step c op with
    | error e => rw [hs] at hr; cases hr
    | ok r =>
      obtain ⟨c1, e⟩ := r
      rw [hs] at hr
      dsimp only at hr
      cases hr2 : run c1 rest with
      | error e2 => rw [hr2] at hr; cases hr
      | ok r2 =>
        obtain ⟨c2, bs2⟩ := r2
        rw [hr2] at hr
        dsimp only at hr
        injection hr with hr; injection hr with h1 h2; subst h1; subst h2
        obtain ⟨s1, s2, s3, s4, _⟩ := step_spec c c1 op e h (hops op List.mem_cons_self) hs
        obtain ⟨i1, i2, i3⟩ := ih c1 c2 bs2 s3 (fun o ho => hops o (List.mem_cons_of_mem _ ho)) hr2
        refine ⟨?_, ?_, i3⟩
        · rw [List.flatten_append, List.append_assoc, i1, ← List.append_assoc, s1]
          have : fed (op :: rest) = fed [op] ++ fed rest := by
            cases op <;> simp [fed]
          rw [this, List.append_assoc]
        · intro b hb
          rw [List.mem_append] at hb
          rcases hb with hb | hb
          · exact s2 b hb
          · have := i2 b hb
            rw [s4] at this
            exact this

end LZ4V.Model.FrameC
