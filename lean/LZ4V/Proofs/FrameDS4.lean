import LZ4V.Proofs.FrameDS3
/-!
# The dStage machine computes the frame specification — part 4: the header stages, one step, one call, a whole session
-/
namespace LZ4V.Model.FrameD
open LZ4V.Spec.FrameL
open LZ4V.Spec.Frame (Header blockSizeOf Bad)

theorem byteAt_append (src t : Bytes) (i : Nat) (h : i < src.length) : byteAt (src ++ t) i = byteAt src i := by
  unfold byteAt
  simp [List.getD_eq_getElem?_getD, List.getElem?_append_left h]

/-- **no false rejection of a header**: when `LZ4F_decodeHeader` returns an error on (at least 7) bytes, the specification accepts no continuation of them -/
theorem decodeHeader_error_spec (E : Env) (src t : Bytes) (e : HErr) (h : decodeHeader E.hash src = .error e) (h7 : 7 ≤ src.length) :
    ∀ x, specHeader E (src ++ t) ≠ .ok x := by
  intro ⟨hdr, rest⟩ hs
  obtain ⟨p1, p2, p3, p4, p5, p6, p7, p8⟩ := spec_facts E (src ++ t) hdr rest hs
  have b4 : byteAt (src ++ t) 4 = byteAt src 4 := byteAt_append src t 4 (by omega)
  have b5 : byteAt (src ++ t) 5 = byteAt src 5 := byteAt_append src t 5 (by omega)
  have t4 : (src ++ t).take 4 = src.take 4 := List.take_append_of_le_length (by omega)
  rw [b4] at p1 p3 p4 p8
  rw [b5] at p5 p6 p7
  rw [t4] at p2
  have hF := byteAt_lt src 4
  have hB := byteAt_lt src 5
  obtain ⟨f1, f2, f3, f4, f5, f6, f7, _, _, _⟩ := bits (byteAt src 4) hF
  obtain ⟨_, _, _, _, _, _, _, b8, b9, b10⟩ := bits (byteAt src 5) hB
  have hmin : LZ4V.Gen.minFHSize = 7 := rfl
  have hmag : LZ4V.Gen.LZ4F_MAGICNUMBER = lz4Magic := rfl
  unfold decodeHeader at h
  simp only [f1, f2, f3, f4, f5, f6, f7, b8, b9, b10, hc_bits, hmin, hmag, ite_mod2] at h
  generalize hcs : (if (byteAt src 4 / 8 % 2 == 1) = true then 8 else 0) = cs at h p1 p8
  generalize hdd : (if (byteAt src 4 % 2 == 1) = true then 4 else 0) = dd at h p1 p8
  by_cases c1 : List.length src < 7
  · omega
  rw [if_neg c1] at h
  by_cases c2 : le (List.take 4 src) ≠ lz4Magic
  · exact c2 p2
  rw [if_neg c2] at h
  by_cases c3 : (byteAt src 4 / 2 % 2 == 1) = true
  · rw [p4] at c3; simp at c3
  rw [if_neg c3] at h
  by_cases c4 : byteAt src 4 / 64 ≠ 1
  · exact c4 p3
  rw [if_neg c4] at h
  by_cases c5 : List.length src < 7 + cs + dd
  · rw [if_pos c5] at h; cases h
  rw [if_neg c5] at h
  by_cases c6 : byteAt src 5 / 128 ≠ 0
  · exact c6 p5
  rw [if_neg c6] at h
  by_cases c7 : byteAt src 5 / 16 % 8 < 4
  · exact p7 c7
  rw [if_neg c7] at h
  by_cases c8 : byteAt src 5 % 16 ≠ 0
  · exact c8 p6
  rw [if_neg c8] at h
  by_cases c9 : E.hash (List.take (7 + cs + dd - 5) (List.drop 4 src)) / 256 % 256 ≠ byteAt src (7 + cs + dd - 1)
  · apply c9
    have e1 : 7 + cs + dd - 5 = 2 + (cs + dd) := by omega
    have e2 : 7 + cs + dd - 1 = 6 + (cs + dd) := by omega
    rw [e1, e2]
    have d4 : List.take (2 + (cs + dd)) (List.drop 4 (src ++ t)) = List.take (2 + (cs + dd)) (List.drop 4 src) := by
      rw [List.drop_append_of_le_length (by omega), List.take_append_of_le_length (by rw [List.length_drop]; omega)]
    rw [d4, byteAt_append src t _ (by omega)] at p8
    exact p8
  rw [if_neg c9] at h
  cases h

theorem decodeHeader_shape (E : Env) (src : Bytes) (r : HRes) (h : decodeHeader E.hash src = .ok r) :
    match r with
    | .needMore target => src.length < target ∧ 7 ≤ target ∧ target = LZ4V.Model.FrameDS.fhs src
    | .done _ size => size ≤ src.length ∧ 7 ≤ size ∧ size = LZ4V.Model.FrameDS.fhs src := by
  have hF := byteAt_lt src 4
  have hB := byteAt_lt src 5
  obtain ⟨f1, f2, f3, f4, f5, f6, f7, _, _, _⟩ := bits (byteAt src 4) hF
  obtain ⟨_, _, _, _, _, _, _, b8, b9, b10⟩ := bits (byteAt src 5) hB
  have hmin : LZ4V.Gen.minFHSize = 7 := rfl
  have hmag : LZ4V.Gen.LZ4F_MAGICNUMBER = lz4Magic := rfl
  unfold decodeHeader at h
  simp only [f1, f2, f3, f4, f5, f6, f7, b8, b9, b10, hc_bits, hmin, hmag, ite_mod2] at h
  generalize hcs : (if (byteAt src 4 / 8 % 2 == 1) = true then 8 else 0) = cs at h
  generalize hdd : (if (byteAt src 4 % 2 == 1) = true then 4 else 0) = dd at h
  generalize hmb : (LZ4V.Gen.LZ4F_getBlockSize ↑(byteAt src 5 / 16 % 8)).toNat = mb at h
  by_cases c1 : List.length src < 7
  · rw [if_pos c1] at h; cases h
  rw [if_neg c1] at h
  by_cases c2 : le (List.take 4 src) ≠ lz4Magic
  · rw [if_pos c2] at h; cases h
  rw [if_neg c2] at h
  by_cases c3 : (byteAt src 4 / 2 % 2 == 1) = true
  · rw [if_pos c3] at h; cases h
  rw [if_neg c3] at h
  by_cases c4 : byteAt src 4 / 64 ≠ 1
  · rw [if_pos c4] at h; cases h
  rw [if_neg c4] at h
  by_cases c5 : List.length src < 7 + cs + dd
  · rw [if_pos c5] at h
    injection h with h
    subst h
    exact ⟨c5, by omega, by unfold LZ4V.Model.FrameDS.fhs; rw [hcs, hdd]⟩
  rw [if_neg c5] at h
  by_cases c6 : byteAt src 5 / 128 ≠ 0
  · rw [if_pos c6] at h; cases h
  rw [if_neg c6] at h
  by_cases c7 : byteAt src 5 / 16 % 8 < 4
  · rw [if_pos c7] at h; cases h
  rw [if_neg c7] at h
  by_cases c8 : byteAt src 5 % 16 ≠ 0
  · rw [if_pos c8] at h; cases h
  rw [if_neg c8] at h
  by_cases c9 : E.hash (List.take (7 + cs + dd - 5) (List.drop 4 src)) / 256 % 256 ≠ byteAt src (7 + cs + dd - 1)
  · rw [if_pos c9] at h; cases h
  rw [if_neg c9] at h
  injection h with h
  subst h
  exact ⟨by omega, by omega, by unfold LZ4V.Model.FrameDS.fhs; rw [hcs, hdd]⟩

theorem specHeader_local (E : Env) : Local (specHeader E) := by
  unfold specHeader
  apply Local.bind (Local.takeN 4)
  intro m4
  split
  · exact Local.fail _
  · exact pHeader_local E

end LZ4V.Model.FrameD

namespace LZ4V.Model.FrameDS
open LZ4V.Spec.FrameL
open LZ4V.Spec.Frame (Bad Header isSkippableMagic)

/-- the block loop looks at three header fields only -/
theorem pBlocks_hdr (E : Env) (h1 h2 : Header) (dict : Bytes) (hm : h1.maxBlock = h2.maxBlock) (hb : h1.blockChecksum = h2.blockChecksum) (hi : h1.blockIndep = h2.blockIndep) :
    ∀ (f : Nat) (content : Bytes), pBlocks E h1 dict f content = pBlocks E h2 dict f content := by
  intro f
  induction f with
  | zero => intro content; rfl
  | succ f ih =>
    intro content
    rw [pBlocks_succ, pBlocks_succ, hm, hb, hi]
    congr 1
    funext w4
    split; · rfl
    split; · rfl
    congr 1
    funext payload
    congr 1
    funext crc
    split; · rfl
    split
    · exact ih _
    · cases E.dec (if h2.blockIndep = true then window dict [] else window dict content) payload h2.maxBlock with
      | none => rfl
      | some d => exact ih _

theorem lz4Magic_not_skippable : isSkippableMagic lz4Magic = false := by decide

/-- an input that does not start with a skippable magic number: `pDFrame` is the header specification followed by the body -/
theorem pDFrame_lz4 (E : Env) (dict : Bytes) (f : Nat) (s : Bytes) (h4 : 4 ≤ s.length) (hns : isSkippableMagic (le (s.take 4)) = false) :
    pDFrame E dict f s = ((FrameD.specHeader E).bind (pBodyRest E dict f)) s := by
  obtain ⟨a, t, rfl, ha⟩ := split_input s 4 h4
  rw [List.take_left' ha] at hns
  unfold pDFrame FrameD.specHeader pFrameBodyZ
  rw [Parser.bind_assoc', takeN_bind_app 4 a t _ ha, takeN_bind_app 4 a t _ ha, hns]
  simp only [Bool.false_eq_true, if_false]
  split
  · rfl
  · rfl

theorem pDFrame_skippable (E : Env) (dict : Bytes) (f : Nat) (a t : Bytes) (ha : a.length = 4) (hs : isSkippableMagic (le a) = true) :
    pDFrame E dict f (a ++ t) = pSkipRest t := by
  unfold pDFrame
  rw [takeN_bind_app 4 a t _ ha, hs]
  rfl

theorem Inv.init (c : Ctx) (h1 : c.stage = .init) (h2 : c.skipChecksum = false) (h3 : c.frameRemaining = (c.contentSize : Int)) : Inv c := by
  refine ⟨h2, ?_, fun _ => h3, ?_, ?_, ?_, ?_, ?_, ?_, ?_, ?_, ?_, ?_⟩
  · intro h; rw [h1] at h; rcases h with h | h | h | h | h <;> cases h
  · intro h; rw [h1] at h; cases h
  · intro h; rw [h1] at h; cases h
  · intro h; rw [h1] at h; cases h
  · intro h; rw [h1] at h; cases h
  · intro h; rw [h1] at h; cases h
  · intro h; rw [h1] at h; cases h
  · intro h; rw [h1] at h; rcases h with h | h <;> cases h
  · intro h; rw [h1] at h; cases h
  · intro h; rw [h1] at h; cases h
  · intro h; rw [h1] at h; cases h

theorem bind_not_ok {α β : Type} (p : Parser α) (g : α → Parser β) (s : Bytes) (h : ∀ x, p s ≠ .ok x) : ∀ y, (p.bind g) s ≠ .ok y := by
  intro y hy
  unfold Parser.bind at hy
  cases hp : p s with
  | error e => rw [hp] at hy; cases hy
  | ok xr => exact h xr hp

theorem Inv.storeFH (c : Ctx) (h1 : c.stage = .storeFrameHeader) (h2 : c.skipChecksum = false) (h3 : c.frameRemaining = 0)
    (h4 : c.staged.length ≤ c.tmpInTarget ∧ 7 ≤ c.tmpInTarget ∧ (c.tmpInTarget = 7 ∨ (7 ≤ c.staged.length ∧ isSkippableMagic (le (c.staged.take 4)) = false ∧ c.tmpInTarget = fhs c.staged))) : Inv c := by
  refine ⟨h2, fun _ => h3, ?_, ?_, ?_, fun _ => h4, ?_, ?_, ?_, ?_, ?_, ?_, ?_⟩
  · intro h; rw [h1] at h; cases h
  · intro h; rw [h1] at h; cases h
  · intro h; rw [h1] at h; cases h
  · intro h; rw [h1] at h; cases h
  · intro h; rw [h1] at h; cases h
  · intro h; rw [h1] at h; cases h
  · intro h; rw [h1] at h; rcases h with h | h <;> cases h
  · intro h; rw [h1] at h; cases h
  · intro h; rw [h1] at h; cases h
  · intro h; rw [h1] at h; cases h

theorem Out_nil (c : Ctx) (h : inBlocks c.stage = false) : Out c [] := by
  unfold Out; rw [h]; simp

def normHdr (h : Header) : Header :=
  { blockIndep := h.blockIndep, blockChecksum := h.blockChecksum, contentSize := none, contentChecksum := false, dictId := none, bsid := 0, maxBlock := h.maxBlock, size := 0 }

theorem pBlocks_norm (E : Env) (h : Header) (dict : Bytes) (f : Nat) (content : Bytes) : pBlocks E h dict f content = pBlocks E (normHdr h) dict f content :=
  pBlocks_hdr E h (normHdr h) dict rfl rfl rfl f content

/-- `LZ4F_decodeHeader` against the specification: what it leaves to be parsed is what the specification still has to parse -/
theorem decodeHeader_spec (E : Env) (c : Ctx) (src : Bytes) (fromHeader : Bool) (h7 : 7 ≤ src.length) (hn : c.skipChecksum = false) (hr : c.frameRemaining = 0)
    (hfh : fromHeader = true → src.length = 7 ∨ (isSkippableMagic (le (src.take 4)) = false ∧ src.length = fhs src)) :
    match decodeHeader E c src fromHeader with
    | .error _ => ∀ f t x, pDFrame E c.dict f (src ++ t) ≠ .ok x
    | .ok (c', h) => h ≤ src.length ∧ (fromHeader = true → h = src.length) ∧ Inv c' ∧ Out c' [] ∧
        ∀ f t, okEq (pDFrame E c.dict f (src ++ t)) (K E f c' (stg c' ++ (src.drop h ++ t))) := by
  unfold decodeHeader
  have hmin : LZ4V.Gen.minFHSize = 7 := rfl
  rw [hmin, if_neg (by omega)]
  dsimp only
  have hsplit : src = src.take 4 ++ src.drop 4 := (List.take_append_drop 4 src).symm
  have h4len : (src.take 4).length = 4 := by rw [List.length_take]; omega
  by_cases hskip : isSkippableMagic (le (src.take 4)) = true
  · rw [if_pos hskip]
    have hpd : ∀ f t, pDFrame E c.dict f (src ++ t) = pSkipRest (src.drop 4 ++ t) := by
      intro f t
      conv => lhs; rw [hsplit, List.append_assoc]
      exact pDFrame_skippable E c.dict f _ _ h4len hskip
    by_cases hf : fromHeader = true
    · rw [if_pos hf]
      have hl8 : src.length ≤ 8 := by
        rcases hfh hf with h | ⟨h, _⟩
        · omega
        · rw [hskip] at h; cases h
      refine ⟨Nat.le_refl _, fun _ => rfl, Inv.skip _ (Or.inr (Or.inr ⟨rfl, by dsimp only; omega, hl8, rfl⟩)) hn hr, Out_nil _ rfl, ?_⟩
      intro f t
      apply okEq.of_eq
      rw [hpd]
      simp only [K, stg, List.drop_length, List.nil_append]
      rfl
    · rw [if_neg hf]
      refine ⟨by omega, fun h => absurd h hf, Inv.skip _ (Or.inl rfl) hn hr, Out_nil _ rfl, ?_⟩
      intro f t
      apply okEq.of_eq
      rw [hpd]
      simp only [K, stg, List.nil_append]
      rfl
  · rw [if_neg hskip]
    have hns : isSkippableMagic (le (src.take 4)) = false := by
      cases hh : isSkippableMagic (le (src.take 4)) with
      | false => rfl
      | true => exact absurd hh hskip
    have hpd : ∀ f t, pDFrame E c.dict f (src ++ t) = ((FrameD.specHeader E).bind (pBodyRest E c.dict f)) (src ++ t) := by
      intro f t
      apply pDFrame_lz4 E c.dict f (src ++ t) (by rw [List.length_append]; omega)
      rw [List.take_append_of_le_length (by omega)]
      exact hns
    cases hd : FrameD.decodeHeader E.hash src with
    | error e =>
      dsimp only
      intro f t x
      rw [hpd]
      exact bind_not_ok _ _ _ (FrameD.decodeHeader_error_spec E src t e hd h7) x
    | ok r =>
      have hshape := FrameD.decodeHeader_shape E src r hd
      cases r with
      | needMore target =>
        dsimp only at hshape ⊢
        refine ⟨Nat.le_refl _, fun _ => rfl, Inv.storeFH _ rfl hn hr ⟨by dsimp only; omega, hshape.2.1, Or.inr ⟨h7, hns, hshape.2.2⟩⟩, Out_nil _ rfl, ?_⟩
        intro f t
        apply okEq.of_eq
        simp only [K, stg, List.drop_length, List.nil_append]
        rfl
      | done hdr size =>
        dsimp only at hshape ⊢
        have hsound := FrameD.decodeHeader_sound E src hdr size hd
        have hloc := (FrameD.specHeader_local E).elim src
        refine ⟨hshape.1, ?_, ?_, Out_nil _ rfl, ?_⟩
        · intro hf
          rcases hfh hf with h | ⟨_, h⟩
          · omega
          · rw [h]; exact hshape.2.2
        · refine Inv.init _ rfl hn ?_
          dsimp only
          cases hdr.contentSize with
          | none => simp [hr, clearFrameInfo]
          | some v => simp
        · intro f t
          apply okEq.of_eq
          rw [hpd]
          unfold Parser.bind
          rw [hloc t hdr _ hsound]
          dsimp only
          simp only [K, stg, List.nil_append]
          unfold pBodyRest KB
          rw [pBlocks_norm E hdr]
          conv => rhs; rw [pBlocks_norm]
          unfold normHdr hdrOf clearFrameInfo
          simp only [Bool.not_not]


theorem fhs_append (a b : Bytes) (h : 5 ≤ a.length) : fhs (a ++ b) = fhs a := by
  unfold fhs
  rw [FrameD.byteAt_append a b 4 (by omega)]

/-- `SubOK` for the continuations that matter: those that begin with what the call was offered and has not consumed -/
def SubOKw (E : Env) (P : Nat → Parser Bytes) (k : Call) (dl : Bytes) : Step → Prop
  | .next k' => ∃ d o b, b ≤ 1 ∧ k.src = d ++ k'.src ∧ k'.out = k.out ++ o ∧ k'.room + o.length = k.room ∧ Inv k'.c ∧ Out k'.c (dl ++ o) ∧
      ∀ f t, okEq (P (f + b) (d ++ (k'.src ++ t))) (K E f k'.c (stg k'.c ++ (k'.src ++ t)))
  | .stop k' h => ∃ d o, k.src = d ++ k'.src ∧ k'.out = k.out ++ o ∧ k'.room + o.length = k.room ∧
      ((h = 0 ∧ k'.c.stage = .getFrameHeader ∧ Inv k'.c ∧ ∀ f t, okEq (P f (d ++ (k'.src ++ t))) (.ok (dl ++ o, k'.src ++ t))) ∨
       (h ≠ 0 ∧ ∃ b, b ≤ 1 ∧ Inv k'.c ∧ Out k'.c (dl ++ o) ∧ ∀ f t, okEq (P (f + b) (d ++ (k'.src ++ t))) (K E f k'.c (stg k'.c ++ (k'.src ++ t)))))
  | .fail _ _ => ∀ f t x, P f (k.src ++ t) ≠ .ok x

theorem SubOK.weaken (E : Env) (P : Nat → Parser Bytes) (k : Call) (dl : Bytes) (st : Step) (h : SubOK E P k dl st) : SubOKw E P k dl st := by
  cases st with
  | next k' =>
    obtain ⟨d, o, b, hb, h1, h2, h3, h4, h5, h6⟩ := h
    exact ⟨d, o, b, hb, h1, h2, h3, h4, h5, fun f t => h6 f _⟩
  | stop k' hh =>
    obtain ⟨d, o, h1, h2, h3, h4⟩ := h
    refine ⟨d, o, h1, h2, h3, ?_⟩
    rcases h4 with ⟨e0, e1, e2, e3⟩ | ⟨e0, b, hb, e1, e2, e3⟩
    · exact Or.inl ⟨e0, e1, e2, fun f t => e3 f _⟩
    · exact Or.inr ⟨e0, b, hb, e1, e2, fun f t => e3 f _⟩
  | fail c e => exact h

theorem sStoreFrameHeader_spec (E : Env) (k : Call) (hs : k.c.stage = .storeFrameHeader) (hn : k.c.skipChecksum = false) (hr : k.c.frameRemaining = 0)
    (hst : k.c.staged.length ≤ k.c.tmpInTarget ∧ 7 ≤ k.c.tmpInTarget ∧
      (k.c.tmpInTarget = 7 ∨ (7 ≤ k.c.staged.length ∧ isSkippableMagic (le (k.c.staged.take 4)) = false ∧ k.c.tmpInTarget = fhs k.c.staged))) :
    SubOK E (fun f s => pDFrame E k.c.dict f (k.c.staged ++ s)) k [] (sStoreFrameHeader E k) := by
  unfold sStoreFrameHeader
  dsimp only
  obtain ⟨hle, h7, hdis⟩ := hst
  generalize hm : min (k.c.tmpInTarget - k.c.staged.length) k.src.length = n
  have hlen : (k.c.staged ++ List.take n k.src).length = k.c.staged.length + n := by rw [List.length_append, List.length_take]; omega
  have hdis' : k.c.tmpInTarget = 7 ∨ (7 ≤ (k.c.staged ++ List.take n k.src).length ∧ isSkippableMagic (le ((k.c.staged ++ List.take n k.src).take 4)) = false ∧
      k.c.tmpInTarget = fhs (k.c.staged ++ List.take n k.src)) := by
    rcases hdis with h | ⟨h1, h2, h3⟩
    · exact Or.inl h
    · exact Or.inr ⟨by omega, by rw [List.take_append_of_le_length (by omega)]; exact h2, by rw [fhs_append _ _ (by omega)]; exact h3⟩
  by_cases hlt : (k.c.staged ++ List.take n k.src).length < k.c.tmpInTarget
  · rw [if_pos hlt]
    refine ⟨List.take n k.src, [], (List.take_append_drop _ _).symm, by simp, by simp, Or.inr ⟨by unfold LZ4V.Gen.BHSize; omega, 0, by omega, ?_, Out_nil _ (by dsimp only; rw [hs]; rfl), ?_⟩⟩
    · exact Inv.storeFH _ hs hn hr ⟨by dsimp only; omega, h7, hdis'⟩
    · intro f t
      apply okEq.of_eq
      simp only [K, stg, hs, Nat.add_zero, List.append_assoc]
  · rw [if_neg hlt]
    have hspec := decodeHeader_spec E { k.c with staged := k.c.staged ++ List.take n k.src } (k.c.staged ++ List.take n k.src) true (by omega) hn hr
      (fun _ => by
        rcases hdis' with h | ⟨_, h2, h3⟩
        · left; omega
        · right; exact ⟨h2, by omega⟩)
    cases hres : decodeHeader E { k.c with staged := k.c.staged ++ List.take n k.src } (k.c.staged ++ List.take n k.src) true with
    | error e =>
      rw [hres] at hspec
      dsimp only at hspec ⊢
      intro f t x
      have := hspec f (List.drop n k.src ++ t) x
      rw [List.append_assoc, ← List.append_assoc (List.take n k.src), List.take_append_drop] at this
      exact this
    | ok r =>
      obtain ⟨c', h⟩ := r
      rw [hres] at hspec
      dsimp only at hspec ⊢
      obtain ⟨_, hh, hinv, hout, hrel⟩ := hspec
      refine ⟨List.take n k.src, [], 0, by omega, (List.take_append_drop _ _).symm, by simp, by simp, hinv, hout, ?_⟩
      intro f t
      have := hrel f t
      rw [hh rfl, List.drop_length, List.nil_append, List.append_assoc] at this
      exact this

theorem sGetFrameHeader_spec (E : Env) (k : Call) (hs : k.c.stage = .getFrameHeader) (hn : k.c.skipChecksum = false) (hr : k.c.frameRemaining = 0) :
    SubOKw E (fun f s => pDFrame E k.c.dict f s) k [] (sGetFrameHeader E k) := by
  unfold sGetFrameHeader
  have hmax : LZ4V.Gen.maxFHSize = 19 := rfl
  have hmin : LZ4V.Gen.minFHSize = 7 := rfl
  rw [hmax, hmin]
  by_cases h19 : k.src.length ≥ 19
  · rw [if_pos h19]
    have hspec := decodeHeader_spec E k.c k.src false (by omega) hn hr (fun h => by cases h)
    cases hres : decodeHeader E k.c k.src false with
    | error e =>
      rw [hres] at hspec
      exact hspec
    | ok r =>
      obtain ⟨c', h⟩ := r
      rw [hres] at hspec
      dsimp only at hspec ⊢
      obtain ⟨hle, _, hinv, hout, hrel⟩ := hspec
      refine ⟨List.take h k.src, [], 0, by omega, (List.take_append_drop _ _).symm, by simp, by simp, hinv, hout, ?_⟩
      intro f t
      have := hrel f t
      rw [← List.append_assoc (List.take h k.src), List.take_append_drop]
      exact this
  · rw [if_neg h19]
    by_cases h0 : k.src.length = 0
    · rw [if_pos h0]
      have hnil : k.src = [] := List.eq_nil_of_length_eq_zero h0
      refine ⟨[], [], by simp, by simp, by simp, Or.inr ⟨by omega, 0, by omega, Inv.start _ hs hn hr, Out_nil _ (by dsimp only; rw [hs]; rfl), ?_⟩⟩
      intro f t
      apply okEq.of_eq
      simp only [K, stg, hs, Nat.add_zero, List.nil_append]
    · rw [if_neg h0]
      have := sStoreFrameHeader_spec E { k with c := { k.c with staged := [], tmpInTarget := 7, stage := .storeFrameHeader } } rfl hn hr ⟨by simp, by simp, Or.inl rfl⟩
      exact SubOK.weaken E _ _ [] _ (SubOK.consume E _ _ k { k with c := { k.c with staged := [], tmpInTarget := 7, stage := .storeFrameHeader } } [] _ []
        (fun f s => okEq.of_eq (by simp)) (by simp) rfl rfl this)

/-- `StepOK` for the continuations that begin with the unconsumed part of what the call was offered -/
def StepOKw (E : Env) (k : Call) (dl : Bytes) (st : Step) : Prop := SubOKw E (fun f s => K E f k.c (stg k.c ++ s)) k dl st

/-- **one execution of the `switch`** keeps the parse equation, the invariant and the output relation, whatever the stage -/
theorem step_ok (E : Env) (hE : DecBounded E) (k : Call) (dl : Bytes) (hi : Inv k.c) (ho : Out k.c dl) : StepOKw E k dl (step E k) := by
  unfold StepOKw step
  cases hs : k.c.stage with
  | getFrameHeader =>
    dsimp only
    have hdl : dl = [] := by unfold Out at ho; rw [hs] at ho; simpa [inBlocks] using ho
    subst hdl
    have := sGetFrameHeader_spec E k hs hi.noskip (hi.rem0 (Or.inl hs))
    simpa [K, stg, hs] using this
  | storeFrameHeader =>
    dsimp only
    have hdl : dl = [] := by unfold Out at ho; rw [hs] at ho; simpa [inBlocks] using ho
    subst hdl
    have := sStoreFrameHeader_spec E k hs hi.noskip (hi.rem0 (Or.inr (Or.inl hs))) (hi.stFH hs)
    exact SubOK.weaken E _ _ _ _ (by simpa [K, stg, hs] using this)
  | init =>
    dsimp only
    have hdl : dl = [] := by unfold Out at ho; rw [hs] at ho; simpa [inBlocks] using ho
    subst hdl
    have := sInit_spec E k hi.noskip (hi.remI hs)
    exact SubOK.weaken E _ _ _ _ (by simpa [K, stg, hs] using this)
  | getBlockHeader =>
    dsimp only
    have hdl : dl = k.c.content := by unfold Out at ho; rw [hs] at ho; simpa [inBlocks, pending, hs] using ho
    have := sGetBlockHeader_spec E k dl (hi.ib (by rw [hs]; rfl)) hdl
    exact SubOK.weaken E _ _ _ _ (by simpa [K, stg, hs] using this)
  | storeBlockHeader =>
    dsimp only
    have hdl : dl = k.c.content := by unfold Out at ho; rw [hs] at ho; simpa [inBlocks, pending, hs] using ho
    have := sStoreBlockHeader_spec E k dl (hi.ib (by rw [hs]; rfl)) hs (hi.stBH hs) hdl
    exact SubOK.weaken E _ _ _ _ (by simpa [K, stg, hs] using this)
  | copyDirect =>
    dsimp only
    have hdl : dl = k.c.content := by unfold Out at ho; rw [hs] at ho; simpa [inBlocks, pending, hs] using ho
    have := sCopyDirect_spec E k dl (hi.ib (by rw [hs]; rfl)) hs hdl
    exact SubOK.weaken E _ _ _ _ (by simpa [K, stg, hs] using this)
  | getBlockChecksum =>
    dsimp only
    have hdl : dl = k.c.content := by unfold Out at ho; rw [hs] at ho; simpa [inBlocks, pending, hs] using ho
    have := sGetBlockChecksum_spec E k dl (hi.ib (by rw [hs]; rfl)) hs (hi.stBC hs).1 (hi.stBC hs).2 hdl
    exact SubOK.weaken E _ _ _ _ (by simpa [K, stg, hs] using this)
  | getCBlock =>
    dsimp only
    have hdl : dl = k.c.content := by unfold Out at ho; rw [hs] at ho; simpa [inBlocks, pending, hs] using ho
    have := sGetCBlock_spec E hE k dl (hi.ib (by rw [hs]; rfl)) hs (hi.tgCB (Or.inl hs)) hdl
    exact SubOK.weaken E _ _ _ _ (by simpa [K, stg, hs] using this)
  | storeCBlock =>
    dsimp only
    have hdl : dl = k.c.content := by unfold Out at ho; rw [hs] at ho; simpa [inBlocks, pending, hs] using ho
    have := sStoreCBlock_spec E hE k dl (hi.ib (by rw [hs]; rfl)) hs (hi.stCB hs) (hi.tgCB (Or.inr hs)) hdl
    exact SubOK.weaken E _ _ _ _ (by simpa [K, stg, hs] using this)
  | flushOut =>
    dsimp only
    have hdl : dl ++ k.c.tmpOut.drop k.c.tmpOutStart = k.c.content := by unfold Out at ho; rw [hs] at ho; simpa [inBlocks, pending, hs] using ho
    have := sFlushOut_spec E k dl (hi.ib (by rw [hs]; rfl)) hs (hi.flush hs).1 (hi.flush hs).2 hdl
    exact SubOK.weaken E _ _ _ _ (by simpa [K, stg, hs] using this)
  | getSuffix =>
    dsimp only
    have hdl : dl = k.c.content := by unfold Out at ho; rw [hs] at ho; simpa [inBlocks, pending, hs] using ho
    have := sGetSuffix_spec E k dl (hi.ib (by rw [hs]; rfl)) hs hdl
    exact SubOK.weaken E _ _ _ _ (by simpa [K, stg, hs] using this)
  | storeSuffix =>
    dsimp only
    have hdl : dl = k.c.content := by unfold Out at ho; rw [hs] at ho; simpa [inBlocks, pending, hs] using ho
    have := sStoreSuffix_spec E k dl hi hs hdl
    exact SubOK.weaken E _ _ _ _ (by simpa [K, stg, hs] using this)
  | getSFrameSize =>
    dsimp only
    have hdl : dl = [] := by unfold Out at ho; rw [hs] at ho; simpa [inBlocks] using ho
    subst hdl
    have := sGetSFrameSize_spec E k hi.noskip (hi.rem0 (Or.inr (Or.inr (Or.inl hs))))
    exact SubOK.weaken E _ _ _ _ (by simpa [K, stg, hs, pSkipRest] using this)
  | storeSFrameSize =>
    dsimp only
    have hdl : dl = [] := by unfold Out at ho; rw [hs] at ho; simpa [inBlocks] using ho
    subst hdl
    have := sStoreSFrameSize_spec E k hi hs
    exact SubOK.weaken E _ _ _ _ (by simpa [K, stg, hs, pSkipRest] using this)
  | skipSkippable =>
    dsimp only
    have hdl : dl = [] := by unfold Out at ho; rw [hs] at ho; simpa [inBlocks] using ho
    subst hdl
    have := sSkipSkippable_spec E k hs hi.noskip (hi.rem0 (Or.inr (Or.inr (Or.inr (Or.inr hs)))))
    exact SubOK.weaken E _ _ _ _ (by simpa [K, stg, hs] using this)


/-- what `loop` achieves, in the shape of `SubOKw` with any number of blocks passed -/
def LoopOK (E : Env) (k : Call) (dl : Bytes) (k' : Call) : Ret → Prop
  | .hint h => ∃ d o nb, k.src = d ++ k'.src ∧ k'.out = k.out ++ o ∧ k'.room + o.length = k.room ∧
      ((h = 0 ∧ k'.c.stage = .getFrameHeader ∧ Inv k'.c ∧ ∀ f t, okEq (K E (f + nb) k.c (stg k.c ++ (d ++ (k'.src ++ t)))) (.ok (dl ++ o, k'.src ++ t))) ∨
       (h ≠ 0 ∧ Inv k'.c ∧ Out k'.c (dl ++ o) ∧ ∀ f t, okEq (K E (f + nb) k.c (stg k.c ++ (d ++ (k'.src ++ t)))) (K E f k'.c (stg k'.c ++ (k'.src ++ t)))))
  | .error _ => ∃ nb, ∀ f t x, K E (f + nb) k.c (stg k.c ++ (k.src ++ t)) ≠ .ok x
  | .stuck => True

theorem loop_ok (E : Env) (hE : DecBounded E) : ∀ (fuel : Nat) (k : Call) (dl : Bytes), Inv k.c → Out k.c dl →
    LoopOK E k dl (loop E fuel k).1 (loop E fuel k).2 := by
  intro fuel
  induction fuel with
  | zero => intro k dl _ _; exact True.intro
  | succ fuel ih =>
    intro k dl hi ho
    have hstep := step_ok E hE k dl hi ho
    unfold loop
    cases hs : step E k with
    | next k1 =>
      rw [hs] at hstep
      dsimp only
      obtain ⟨d, o, b, hb, h1, h2, h3, h4, h5, h6⟩ := hstep
      have hrec := ih k1 (dl ++ o) h4 h5
      cases hr : (loop E fuel k1).2 with
      | hint h =>
        rw [hr] at hrec
        obtain ⟨d2, o2, nb, g1, g2, g3, g4⟩ := hrec
        refine ⟨d ++ d2, o ++ o2, nb + b, by rw [h1, g1, List.append_assoc], by rw [g2, h2, List.append_assoc], by rw [List.length_append]; omega, ?_⟩
        rcases g4 with ⟨e0, e1, e2, e3⟩ | ⟨e0, e1, e2, e3⟩
        · left
          refine ⟨e0, e1, e2, ?_⟩
          intro f t
          have a := h6 (f + nb) t
          have b' := e3 f t
          rw [g1] at a
          simp only [List.append_assoc] at a b' ⊢
          rw [Nat.add_assoc] at a
          exact a.trans b'
        · right
          refine ⟨e0, e1, by rw [← List.append_assoc]; exact e2, ?_⟩
          intro f t
          have a := h6 (f + nb) t
          have b' := e3 f t
          rw [g1] at a
          simp only [List.append_assoc] at a b' ⊢
          rw [Nat.add_assoc] at a
          exact a.trans b'
      | error e =>
        rw [hr] at hrec
        obtain ⟨nb, g⟩ := hrec
        refine ⟨nb + b, ?_⟩
        intro f t x hx
        have a := h6 (f + nb) t
        rw [h1] at hx
        simp only [List.append_assoc] at a hx
        rw [Nat.add_assoc] at a
        exact g f t x ((a x).mp hx)
      | stuck => exact True.intro
    | stop k1 h =>
      rw [hs] at hstep
      dsimp only
      obtain ⟨d, o, h1, h2, h3, h4⟩ := hstep
      rcases h4 with ⟨e0, e1, e2, e3⟩ | ⟨e0, b, hb, e1, e2, e3⟩
      · exact ⟨d, o, 0, h1, h2, h3, Or.inl ⟨e0, e1, e2, fun f t => e3 f t⟩⟩
      · exact ⟨d, o, b, h1, h2, h3, Or.inr ⟨e0, e1, e2, fun f t => e3 f t⟩⟩
    | fail c e =>
      rw [hs] at hstep
      dsimp only
      exact ⟨0, fun f t x => hstep f t x⟩

theorem skip_false (c : Ctx) : ({ c with skipChecksum := c.skipChecksum || false } : Ctx) = c := by
  cases c; simp

/-- **one call of `LZ4F_decompress`** (no `skipChecksums`) -/
theorem decompress_ok (E : Env) (hE : DecBounded E) (c : Ctx) (src : Bytes) (cap : Nat) (dl : Bytes) (hi : Inv c) (ho : Out c dl) :
    match (decompress E c src cap false).ret with
    | .hint h => (decompress E c src cap false).consumed ≤ src.length ∧ (decompress E c src cap false).out.length ≤ cap ∧ ∃ nb,
        ((h = 0 ∧ (decompress E c src cap false).c.stage = .getFrameHeader ∧ Inv (decompress E c src cap false).c ∧
            ∀ f t, okEq (K E (f + nb) c (stg c ++ (src ++ t))) (.ok (dl ++ (decompress E c src cap false).out, src.drop (decompress E c src cap false).consumed ++ t))) ∨
         (h ≠ 0 ∧ Inv (decompress E c src cap false).c ∧ Out (decompress E c src cap false).c (dl ++ (decompress E c src cap false).out) ∧
            ∀ f t, okEq (K E (f + nb) c (stg c ++ (src ++ t)))
              (K E f (decompress E c src cap false).c (stg (decompress E c src cap false).c ++ (src.drop (decompress E c src cap false).consumed ++ t)))))
    | .error _ => ∃ nb, ∀ f t x, K E (f + nb) c (stg c ++ (src ++ t)) ≠ .ok x
    | .stuck => True := by
  unfold decompress
  dsimp only
  rw [skip_false]
  have hl := loop_ok E hE (fuelFor src) { c := c, src := src, room := cap, out := [] } dl hi ho
  cases hres : loop E (fuelFor src) { c := c, src := src, room := cap, out := [] } with
  | mk k' ret =>
    rw [hres] at hl
    cases ret with
    | hint h =>
      dsimp only at hl ⊢
      obtain ⟨d, o, nb, g1, g2, g3, g4⟩ := hl
      dsimp only at g1 g2 g3 g4
      have hcons : src.length - k'.src.length = d.length := by rw [g1, List.length_append]; omega
      have hdrop : List.drop (src.length - k'.src.length) src = k'.src := by rw [hcons, g1, List.drop_left]
      have hout : k'.out = o := by rw [g2]; rfl
      have hroom : o.length ≤ cap := by omega
      refine ⟨by omega, by rw [hout]; exact hroom, nb, ?_⟩
      rw [hdrop, hout]
      rcases g4 with ⟨e0, e1, e2, e3⟩ | ⟨e0, e1, e2, e3⟩
      · left
        refine ⟨e0, e1, e2, ?_⟩
        intro f t
        have := e3 f t
        rw [← List.append_assoc d, ← g1] at this
        exact this
      · right
        refine ⟨e0, e1, e2, ?_⟩
        intro f t
        have := e3 f t
        rw [← List.append_assoc d, ← g1] at this
        exact this
    | error e =>
      dsimp only at hl ⊢
      exact hl
    | stuck => exact True.intro

/-! ## fuel monotonicity of the frame specification -/
theorem pBodyRest_mono (E : Env) (dict : Bytes) (f d : Nat) (hdr : Header) : Le (pBodyRest E dict f hdr) (pBodyRest E dict (f + d) hdr) := by
  unfold pBodyRest
  exact Le.bind2 (pBlocks_mono E hdr dict [] f d) (fun _ => Le.refl _)

theorem pDFrame_mono (E : Env) (dict : Bytes) (f d : Nat) : Le (pDFrame E dict f) (pDFrame E dict (f + d)) := by
  unfold pDFrame
  apply Le.bind
  intro m4
  apply Le.ite (Le.refl _)
  apply Le.ite (Le.refl _)
  unfold pFrameBodyZ
  exact Le.bind (fun hdr => pBodyRest_mono E dict f d hdr)

/-! ## a whole session: any schedule of (bytes offered, output capacity) -/
inductive SessionResult
  | pending (c : Ctx) (rest out : Bytes)      -- the schedule ended before the frame did
  | complete (c : Ctx) (rest out : Bytes)     -- a call returned 0
  | failed (code : Nat)
  | stuck

/-- the client loop: every call is offered the first `avail` bytes of what has not been consumed yet and `cap` bytes of room;
    the session ends with the first call that returns 0 or an error -/
def session (E : Env) : Ctx → Bytes → List (Nat × Nat) → Bytes → SessionResult
  | c, rest, [], out => .pending c rest out
  | c, rest, (avail, cap) :: sched, out =>
    match (decompress E c (rest.take avail) cap false).ret with
    | .hint 0 => .complete (decompress E c (rest.take avail) cap false).c (rest.drop (decompress E c (rest.take avail) cap false).consumed) (out ++ (decompress E c (rest.take avail) cap false).out)
    | .hint _ => session E (decompress E c (rest.take avail) cap false).c (rest.drop (decompress E c (rest.take avail) cap false).consumed) sched (out ++ (decompress E c (rest.take avail) cap false).out)
    | .error e => .failed e
    | .stuck => .stuck

/-- the state of a session: `P0 f` is the frame specification applied to the WHOLE input with block fuel `f` -/
def SessInv (E : Env) (P0 : Nat → Except Bad (Bytes × Bytes)) (c : Ctx) (rest out : Bytes) : Prop :=
  Inv c ∧ Out c out ∧ ∃ nb, ∀ f, okEq (P0 (f + nb)) (K E f c (stg c ++ rest))

theorem session_ok (E : Env) (hE : DecBounded E) (P0 : Nat → Except Bad (Bytes × Bytes)) :
    ∀ (sched : List (Nat × Nat)) (c : Ctx) (rest out : Bytes), SessInv E P0 c rest out →
    match session E c rest sched out with
    | .pending c' rest' out' => SessInv E P0 c' rest' out'
    | .complete c' rest' out' => c'.stage = .getFrameHeader ∧ Inv c' ∧ ∃ nb, ∀ f, P0 (f + nb) = .ok (out', rest')
    | .failed _ => ∃ nb, ∀ f x, P0 (f + nb) ≠ .ok x
    | .stuck => True := by
  intro sched
  induction sched with
  | nil => intro c rest out h; exact h
  | cons ac sched ih =>
    intro c rest out ⟨hi, ho, nb0, hrel⟩
    obtain ⟨avail, cap⟩ := ac
    have hcall := decompress_ok E hE c (rest.take avail) cap out hi ho
    have hsplit : rest = rest.take avail ++ rest.drop avail := (List.take_append_drop _ _).symm
    unfold session
    cases hret : (decompress E c (rest.take avail) cap false).ret with
    | hint h =>
      rw [hret] at hcall
      dsimp only at hcall
      obtain ⟨hc, _, nb, hcases⟩ := hcall
      have hdropg : ∀ n, n ≤ (rest.take avail).length → rest.drop n = (rest.take avail).drop n ++ rest.drop avail := by
        intro n hn
        have := List.drop_append_of_le_length (l₂ := rest.drop avail) hn
        rw [List.take_append_drop] at this
        exact this
      have hdrop := hdropg _ hc
      rcases hcases with ⟨e0, e1, e2, e3⟩ | ⟨e0, e1, e2, e3⟩
      · subst e0
        refine ⟨e1, e2, nb + nb0, ?_⟩
        intro f
        have a := hrel (f + nb)
        have b := e3 f (rest.drop avail)
        rw [← hsplit] at b
        rw [hdrop]
        have := (a.trans b) (out ++ (decompress E c (rest.take avail) cap false).out, (rest.take avail).drop (decompress E c (rest.take avail) cap false).consumed ++ rest.drop avail)
        rw [Nat.add_assoc] at this
        exact this.mpr rfl
      · cases h with
        | zero => exact absurd rfl e0
        | succ h' =>
          apply ih
          refine ⟨e1, e2, nb + nb0, ?_⟩
          intro f
          have a := hrel (f + nb)
          have b := e3 f (rest.drop avail)
          rw [← hsplit] at b
          rw [hdrop, ← Nat.add_assoc]
          exact a.trans b
    | error e =>
      rw [hret] at hcall
      dsimp only at hcall ⊢
      obtain ⟨nb, hf⟩ := hcall
      refine ⟨nb + nb0, ?_⟩
      intro f x hx
      have a := hrel (f + nb)
      have b := hf f (rest.drop avail) x
      rw [← hsplit] at b
      rw [← Nat.add_assoc] at hx
      exact b ((a x).mp hx)
    | stuck => exact True.intro


end LZ4V.Model.FrameDS
