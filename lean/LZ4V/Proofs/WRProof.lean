import LZ4V.Model.Pool
/-!
# The write register writes every block exactly once, in rank order, whatever the arrival order
-/
namespace LZ4V.Model.WR

variable (pay : Nat → List UInt8)

/-- invariant: `out` is the payloads of ranks `0 .. expected-1` in order; everything stored is a genuine job of a
    strictly later rank that has arrived; everything that has arrived was written or is stored; everything written has arrived -/
def Inv (seen : List Nat) (s : State) : Prop :=
  s.out = (List.range s.expected).map pay ∧
  (∀ b ∈ s.stored, b.2 = pay b.1 ∧ s.expected < b.1 ∧ b.1 ∈ seen) ∧
  (∀ r ∈ seen, r < s.expected ∨ (r, pay r) ∈ s.stored) ∧
  (∀ r, r < s.expected → r ∈ seen)

/-- weaker invariant inside the drain loop: a stored rank may equal `expected` -/
def InvD (seen : List Nat) (s : State) : Prop :=
  s.out = (List.range s.expected).map pay ∧
  (∀ b ∈ s.stored, b.2 = pay b.1 ∧ s.expected ≤ b.1 ∧ b.1 ∈ seen) ∧
  (∀ r ∈ seen, r < s.expected ∨ (r, pay r) ∈ s.stored) ∧
  (∀ r, r < s.expected → r ∈ seen)

theorem drain_inv (seen : List Nat) : ∀ (fuel : Nat) (s : State), s.stored.length < fuel → InvD pay seen s → Inv pay seen (drain fuel s) := by
  intro fuel
  induction fuel with
  | zero => intro s h; omega
  | succ f ih =>
    intro s hf ⟨h1, h2, h3, h4⟩
    unfold drain
    cases hfind : s.stored.find? (fun b => b.1 == s.expected) with
    | none =>
      dsimp only
      refine ⟨h1, ?_, h3, h4⟩
      intro b hb
      obtain ⟨p1, p2, p3⟩ := h2 b hb
      refine ⟨p1, ?_, p3⟩
      have hne : ¬ (b.1 == s.expected) = true := by
        have := List.find?_eq_none.mp hfind b hb
        simpa using this
      have : b.1 ≠ s.expected := by simpa using hne
      omega
    | some b =>
      dsimp only
      have hbmem : b ∈ s.stored := List.mem_of_find?_eq_some hfind
      have hbrank : b.1 = s.expected := by
        have := List.find?_some hfind
        simpa using this
      obtain ⟨pb1, _, pb3⟩ := h2 b hbmem
      apply ih
      · dsimp only
        have hlt : (s.stored.filter (fun x => x.1 != s.expected)).length < s.stored.length := by
          apply List.length_filter_lt_length_iff_exists.mpr
          exact ⟨b, hbmem, by simp [hbrank]⟩
        omega
      · refine ⟨?_, ?_, ?_, ?_⟩
        · dsimp only
          rw [h1, List.range_succ, List.map_append, pb1, hbrank]
          rfl
        · intro x hx
          dsimp only at hx ⊢
          rw [List.mem_filter] at hx
          obtain ⟨q1, q2, q3⟩ := h2 x hx.1
          have : x.1 ≠ s.expected := by simpa using hx.2
          exact ⟨q1, by omega, q3⟩
        · intro r hr
          dsimp only
          rcases h3 r hr with h | h
          · left; omega
          · by_cases hre : r = s.expected
            · left; omega
            · right
              rw [List.mem_filter]
              exact ⟨h, by simpa using hre⟩
        · intro r hr
          dsimp only at hr
          by_cases hre : r = s.expected
          · rw [hre, ← hbrank]; exact pb3
          · exact h4 r (by omega)

theorem arrive_inv (seen : List Nat) (s : State) (r : Nat) (h : Inv pay seen s) (hge : ¬ r < s.expected) :
    Inv pay (r :: seen) (arrive s (r, pay r)) := by
  obtain ⟨h1, h2, h3, h4⟩ := h
  unfold arrive
  by_cases hr : (r, pay r).1 ≠ s.expected
  · rw [if_pos hr]
    have hr' : r ≠ s.expected := hr
    refine ⟨h1, ?_, ?_, ?_⟩
    · intro b hb
      dsimp only at hb ⊢
      rw [List.mem_append] at hb
      rcases hb with hb | hb
      · obtain ⟨q1, q2, q3⟩ := h2 b hb
        exact ⟨q1, q2, List.mem_cons_of_mem _ q3⟩
      · have : b = (r, pay r) := by simpa using hb
        subst this
        exact ⟨rfl, by dsimp only; omega, List.mem_cons_self⟩
    · intro x hx
      dsimp only
      rw [List.mem_cons] at hx
      rcases hx with hx | hx
      · subst hx; right; simp
      · rcases h3 x hx with h | h
        · exact Or.inl h
        · right; exact List.mem_append_left _ h
    · intro x hx
      exact List.mem_cons_of_mem _ (h4 x hx)
  · rw [if_neg hr]
    have hr' : r = s.expected := by
      by_cases hc : r = s.expected
      · exact hc
      · exact absurd hc hr
    apply drain_inv pay (r :: seen)
    · dsimp only; omega
    · refine ⟨?_, ?_, ?_, ?_⟩
      · dsimp only
        rw [h1, List.range_succ, List.map_append, ← hr']
        rfl
      · intro b hb
        dsimp only at hb ⊢
        obtain ⟨q1, q2, q3⟩ := h2 b hb
        exact ⟨q1, by omega, List.mem_cons_of_mem _ q3⟩
      · intro x hx
        dsimp only
        rw [List.mem_cons] at hx
        rcases hx with hx | hx
        · left; omega
        · rcases h3 x hx with h | h
          · left; omega
          · exact Or.inr h
      · intro x hx
        dsimp only at hx
        by_cases hxe : x = s.expected
        · rw [hxe, ← hr']; exact List.mem_cons_self
        · exact List.mem_cons_of_mem _ (h4 x (by omega))

/-- all arrivals processed -/
theorem run_inv : ∀ (arrival : List Nat) (seen : List Nat) (s : State), Inv pay seen s → arrival.Nodup →
    (∀ r ∈ arrival, r ∉ seen) →
    ∃ seen', Inv pay seen' ((arrival.map (fun r => (r, pay r))).foldl arrive s) ∧ (∀ r, r ∈ seen' ↔ r ∈ arrival ∨ r ∈ seen) := by
  intro arrival
  induction arrival with
  | nil => intro seen s h _ _; exact ⟨seen, h, by simp⟩
  | cons r rest ih =>
    intro seen s h hnd hnew
    have hnd' := List.nodup_cons.mp hnd
    have hge : ¬ r < s.expected := fun hlt => hnew r List.mem_cons_self (h.2.2.2 r hlt)
    have h1 := arrive_inv pay seen s r h hge
    simp only [List.map_cons, List.foldl_cons]
    have hnew' : ∀ x ∈ rest, x ∉ r :: seen := by
      intro x hx hin
      rw [List.mem_cons] at hin
      rcases hin with hin | hin
      · exact hnd'.1 (hin ▸ hx)
      · exact hnew x (List.mem_cons_of_mem _ hx) hin
    obtain ⟨seen', i1, i2⟩ := ih (r :: seen) _ h1 hnd'.2 hnew'
    refine ⟨seen', i1, ?_⟩
    intro x
    rw [i2 x]
    simp only [List.mem_cons]
    constructor
    · rintro (h | h | h)
      · exact Or.inl (Or.inr h)
      · exact Or.inl (Or.inl h)
      · exact Or.inr h
    · rintro ((h | h) | h)
      · exact Or.inr (Or.inl h)
      · exact Or.inl h
      · exact Or.inr (Or.inr h)

/-- **in order, exactly once**: if the write jobs of ranks `0 .. n-1` arrive in ANY order (each rank once), the register
    writes exactly the payloads of rank 0, 1, ..., n-1 in that order and ends empty -/
theorem in_order_once (n : Nat) (arrival : List Nat) (hperm : ∀ r, r ∈ arrival ↔ r < n) (hnd : arrival.Nodup) :
    (run (arrival.map (fun r => (r, pay r)))).out = (List.range n).map pay ∧
    (run (arrival.map (fun r => (r, pay r)))).stored = [] ∧
    (run (arrival.map (fun r => (r, pay r)))).expected = n := by
  have h0 : Inv pay [] init := by
    refine ⟨rfl, ?_, ?_, ?_⟩
    · intro b hb; simp [init] at hb
    · intro r hr; simp at hr
    · intro r hr; simp [init] at hr
  obtain ⟨seen', ⟨i1, i2, i3, i4⟩, hs⟩ := run_inv pay arrival [] init h0 hnd (by intro r _ h; cases h)
  unfold run
  generalize (arrival.map (fun r => (r, pay r))).foldl arrive init = fin at i1 i2 i3 i4
  have hseen : ∀ r, r ∈ seen' ↔ r < n := by intro r; rw [hs r, hperm r]; simp
  -- expected = n
  have hle : fin.expected ≤ n := by
    by_cases hc : fin.expected ≤ n
    · exact hc
    · have : n ∈ seen' := i4 n (by omega)
      have := (hseen n).mp this
      omega
  have hge : n ≤ fin.expected := by
    by_cases hc : n ≤ fin.expected
    · exact hc
    · -- rank `expected` < n has arrived, so it is written or stored; both are impossible
      have hin : fin.expected ∈ seen' := (hseen _).mpr (by omega)
      rcases i3 _ hin with h | h
      · omega
      · have := (i2 _ h).2.1
        dsimp only at this
        omega
  have he : fin.expected = n := by omega
  refine ⟨by rw [i1, he], ?_, he⟩
  -- nothing is left in the register
  cases hst : fin.stored with
  | nil => rfl
  | cons b t =>
    have hb : b ∈ fin.stored := by rw [hst]; exact List.mem_cons_self
    obtain ⟨_, q2, q3⟩ := i2 b hb
    have := (hseen b.1).mp q3
    omega

end LZ4V.Model.WR
