import LZ4V.Proofs.DecodeSafe4
/-!
# What the decoder model computes, part 1: functional effect of the memory primitives

The safety proofs (`DecodeSafe*`) say that no access leaves its buffer.  These lemmas say WHICH BYTES a successful copy leaves behind:
`copyIn` (from another object), `fwd` (the forward byte loop: an LZ77 copy when the source lies below the destination), and the
`memcpy` / wild-copy wrappers built from it.  `Per b off lo hi` : on `[lo, hi)` every byte equals the byte `off` positions earlier.
-/
namespace LZ4V.Model

theorem copyIn_spec (src : Bytes) (rf : Fault) : ∀ (n : Nat) (dst : Bytes) (d s : Nat) (b : Bytes), copyIn dst d src s rf n = .ok b →
    b.size = dst.size ∧ (∀ j, (j < d ∨ d + n ≤ j) → b[j]? = dst[j]?) ∧ (∀ i, i < n → b[d+i]? = src[s+i]?) ∧
    (n ≠ 0 → d + n ≤ dst.size ∧ s + n ≤ src.size) := by
  intro n
  induction n with
  | zero => intro dst d s b h; simp only [copyIn, Except.ok.injEq] at h; subst h; exact ⟨rfl, fun _ _ => rfl, fun i hi => by omega, fun h => absurd rfl h⟩
  | succ n ih =>
    intro dst d s b h
    unfold copyIn at h
    by_cases hs : s < src.size
    · rw [dif_pos hs] at h
      by_cases hd : d < dst.size
      · rw [dif_pos hd] at h
        obtain ⟨h1, h2, h3, h4⟩ := ih _ _ _ _ h
        rw [Array.size_set] at h1
        refine ⟨h1, ?_, ?_, ?_⟩
        rotate_left 2
        · intro _
          by_cases hn : n = 0
          · subst hn; omega
          · have := h4 hn
            rw [Array.size_set] at this
            omega
        · intro j hj
          rw [h2 j (by omega), Array.getElem?_set_ne _ (by omega)]
        · intro i hi
          cases i with
          | zero =>
            rw [Nat.add_zero, Nat.add_zero, h2 d (by omega), Array.getElem?_set_self, Array.getElem?_eq_getElem hs]
          | succ i =>
            have := h3 i (by omega)
            rw [show d + (i + 1) = d + 1 + i by omega, show s + (i + 1) = s + 1 + i by omega]
            exact this
      · rw [dif_neg hd] at h; cases h
    · rw [dif_neg hs] at h; cases h

/-- the forward byte loop: outside `[d, d+n)` nothing changes; with the source below the destination every written byte equals,
    in the RESULT, the byte `d - s` positions earlier (the LZ77 overlap semantics) -/
theorem fwd_spec : ∀ (n : Nat) (a : Bytes) (d s : Nat) (b : Bytes), fwd a d s n = .ok b →
    b.size = a.size ∧ (∀ j, (j < d ∨ d + n ≤ j) → b[j]? = a[j]?) ∧ (s < d → ∀ i, i < n → b[d+i]? = b[s+i]?) ∧
    (n ≠ 0 → d + n ≤ a.size ∧ s + n ≤ a.size) := by
  intro n
  induction n with
  | zero => intro a d s b h; simp only [fwd, Except.ok.injEq] at h; subst h; exact ⟨rfl, fun _ _ => rfl, fun _ i hi => by omega, fun h => absurd rfl h⟩
  | succ n ih =>
    intro a d s b h
    unfold fwd at h
    by_cases hs : s < a.size
    · rw [dif_pos hs] at h
      by_cases hd : d < a.size
      · rw [dif_pos hd] at h
        obtain ⟨h1, h2, h3, h4⟩ := ih _ _ _ _ h
        rw [Array.size_set] at h1
        refine ⟨h1, ?_, ?_, ?_⟩
        · intro j hj
          rw [h2 j (by omega), Array.getElem?_set_ne _ (by omega)]
        · intro hsd i hi
          cases i with
          | zero =>
            rw [Nat.add_zero, Nat.add_zero, h2 d (by omega), h2 s (by omega), Array.getElem?_set_self, Array.getElem?_set_ne _ (by omega),
              Array.getElem?_eq_getElem hs]
          | succ i =>
            have := h3 (by omega) i (by omega)
            rw [show d + (i + 1) = d + 1 + i by omega, show s + (i + 1) = s + 1 + i by omega]
            exact this
        · intro _
          by_cases hn : n = 0
          · subst hn; omega
          · have := h4 hn
            rw [Array.size_set] at this
            omega
      · rw [dif_neg hd] at h; cases h
    · rw [dif_neg hs] at h; cases h

/-- on `[lo, hi)` every byte equals the byte `off` positions earlier -/
def Per (b : Bytes) (off lo hi : Nat) : Prop := ∀ p, lo ≤ p → p < hi → b[p]? = b[p - off]?

/-- a periodic range is periodic for every multiple of the period, as long as the intermediate positions stay inside it -/
theorem Per.iter {b : Bytes} {off lo hi : Nat} (h : Per b off lo hi) : ∀ (t p : Nat), p < hi → lo + t * off ≤ p + off →
    b[p]? = b[p - t * off]? := by
  intro t
  induction t with
  | zero => intro p _ _; simp
  | succ t ih =>
    intro p hp hlo
    rw [Nat.succ_mul] at hlo ⊢
    by_cases ht : t = 0
    · subst ht; simp only [Nat.zero_mul, Nat.zero_add] at hlo ⊢
      by_cases ho : off = 0
      · subst ho; simp
      · exact h p (by omega) hp
    · by_cases ho : off = 0
      · subst ho; simp
      · have hpos : off ≤ t * off := Nat.le_mul_of_pos_left off (by omega)
        rw [h p (by omega) hp, ih (p - off) (by omega) (by omega)]
        congr 1
        omega

/-- a forward copy at a distance that is a multiple `k` of the period extends a periodic range,
    provided `k - 1` periods already fit between `lo` and the destination -/
theorem fwd_per (n : Nat) (a : Bytes) (d s : Nat) (b : Bytes) (h : fwd a d s n = .ok b) (off lo k : Nat) (hoff : 1 ≤ off) (hk : 1 ≤ k)
    (hsd : s + k * off = d) (_hlo : lo ≤ d) (hfit : lo + k * off ≤ d + off) (hper : Per a off lo d) : Per b off lo (d + n) := by
  obtain ⟨h1, h2, h3, _⟩ := fwd_spec n a d s b h
  have hpos : off ≤ k * off := Nat.le_mul_of_pos_left off (by omega)
  have hs : s < d := by omega
  -- strong induction on the position
  have key : ∀ m, Per b off lo (d + m) → m ≤ n → Per b off lo (d + n) := by
    intro m
    induction hm : n - m generalizing m with
    | zero => intro hp hmn; have : m = n := by omega
              subst this; exact hp
    | succ r ih =>
      intro hp hmn
      have hlt : m < n := by omega
      refine ih (m + 1) (by omega) ?_ (by omega)
      intro p hp1 hp2
      by_cases hpm : p < d + m
      · exact hp p hp1 hpm
      · have hpe : p = d + m := by omega
        subst hpe
        rw [h3 hs m hlt]
        -- b[d+m-off] = b[d+m-off-(k-1)off]
        have hk1 : k = (k - 1) + 1 := by omega
        have hmul : k * off = (k - 1) * off + off := by rw [← Nat.succ_mul]; congr 1
        by_cases hk2 : k = 1
        · subst hk2; simp only [Nat.one_mul] at hsd; congr 1; omega
        · have hpos2 : off ≤ (k - 1) * off := Nat.le_mul_of_pos_left off (by omega)
          have := hp.iter (k - 1) (d + m - off) (by omega) (by omega)
          rw [this]
          congr 1
          omega
  refine key 0 ?_ (by omega)
  intro p hp1 hp2
  rw [h2 p (by omega), h2 (p - off) (by omega)]
  exact hper p hp1 (by omega)

/-! ## the wrappers are forward copies -/

theorem memcpyB_fwd {a : Bytes} {d s n : Nat} {b : Bytes} (h : memcpyB a d s n = .ok b) : fwd a d s n = .ok b := by
  unfold memcpyB at h
  by_cases hn : n = 0
  · rw [if_pos hn] at h; subst hn; exact h
  · rw [if_neg hn] at h
    by_cases ho : d < s + n ∧ s < d + n
    · rw [if_pos ho] at h; cases h
    · rw [if_neg ho] at h; exact h

theorem wildCopy8B_fwd {a : Bytes} {d s e : Nat} {b : Bytes} (h : wildCopy8B a d s e = .ok b) : fwd a d s (wild8len d e) = .ok b := by
  unfold wildCopy8B at h
  by_cases ho : d < s + 8 ∧ s < d + 8
  · rw [if_pos ho] at h; cases h
  · rw [if_neg ho] at h; exact h

theorem wildCopy32B_fwd {a : Bytes} {d s e : Nat} {b : Bytes} (h : wildCopy32B a d s e = .ok b) : fwd a d s (wild32len d e) = .ok b := by
  unfold wildCopy32B at h
  by_cases ho : d < s + 16 ∧ s < d + 16
  · rw [if_pos ho] at h; cases h
  · rw [if_neg ho] at h; exact h

theorem zero4_spec {a : Bytes} {d : Nat} {b : Bytes} (h : zero4 a d = .ok b) :
    b.size = a.size ∧ (∀ j, (j < d ∨ d + 4 ≤ j) → b[j]? = a[j]?) := by
  unfold zero4 at h
  by_cases hd : d + 4 ≤ a.size
  · rw [if_pos hd] at h
    simp only [Except.ok.injEq] at h
    subst h
    refine ⟨by simp, ?_⟩
    intro j hj
    rw [Array.getElem?_setIfInBounds_ne (by omega), Array.getElem?_setIfInBounds_ne (by omega),
      Array.getElem?_setIfInBounds_ne (by omega), Array.getElem?_setIfInBounds_ne (by omega)]
  · rw [if_neg hd] at h; cases h

/-! ## `Ext a b op off hi` : `b` is `a` with an LZ77 copy at distance `off` laid down on `[op, hi)` (anything may lie beyond `hi`) -/

structure Ext (a b : Bytes) (op off hi : Nat) : Prop where
  size : b.size = a.size
  low  : ∀ j, j < op → b[j]? = a[j]?
  per  : Per b off op hi

theorem Ext.refl (a : Bytes) (op off : Nat) : Ext a a op off op := ⟨rfl, fun _ _ => rfl, fun p h1 h2 => by omega⟩

theorem Ext.mono {a b : Bytes} {op off hi hi' : Nat} (h : Ext a b op off hi) (hle : hi' ≤ hi) : Ext a b op off hi' :=
  ⟨h.size, h.low, fun p h1 h2 => h.per p h1 (by omega)⟩

/-- one more forward copy at a distance `k * off`, starting anywhere in `[op, hi]` -/
theorem Ext.fwd {a b : Bytes} {op off hi : Nat} (h : Ext a b op off hi) (n d s : Nat) (b' : Bytes) (hf : fwd b d s n = .ok b')
    (k : Nat) (hoff : 1 ≤ off) (hk : 1 ≤ k) (hsd : s + k * off = d) (hd : op ≤ d) (hdh : d ≤ hi) (hfit : op + k * off ≤ d + off) :
    Ext a b' op off (d + n) := by
  obtain ⟨h1, h2, _, _⟩ := fwd_spec n b d s b' hf
  refine ⟨by rw [h1, h.size], fun j hj => by rw [h2 j (by omega), h.low j hj], ?_⟩
  exact fwd_per n b d s b' hf off op k hoff hk hsd hd hfit (fun p h1 h2 => h.per p h1 (by omega))

end LZ4V.Model
