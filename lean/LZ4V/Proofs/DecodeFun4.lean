import LZ4V.Proofs.DecodeFun3
/-!
# What the decoder model computes, part 4: every in-buffer match copy is an LZ77 copy at the sequence's offset

`copy18`, `smallOffsetHead` (the `inc32table` / `dec64table` trick for offsets below 8), `safeMatchCopy`, `fastMatchCopy`:
whatever mixture of 8/16/32-byte wild copies, pattern copies and byte loops is chosen, the bytes on `[op, op+length)` continue the
buffer with period `offset`, and nothing below `op` changes (`Ext`).
-/
namespace LZ4V.Model.Decode
open LZ4V.Model LZ4V.Gen

theorem _root_.LZ4V.Model.Ext.rebase {a a' b : Bytes} {op off hi : Nat} (h : Ext a' b op off hi) (hs : a'.size = a.size) (hl : ∀ j, j < op → a'[j]? = a[j]?) :
    Ext a b op off hi := ⟨by rw [h.size, hs], fun j hj => by rw [h.low j hj, hl j hj], h.per⟩

/-- the distance used after the first 8 bytes of a small-offset match is a multiple of the offset, at most `8 + offset` -/
theorem smallDist_mul (offset : Nat) (h1 : 1 ≤ offset) (h8 : offset < 8) :
    ∃ k, 1 ≤ k ∧ smallDist offset = k * offset ∧ k * offset ≤ 8 + offset := by
  have : offset = 1 ∨ offset = 2 ∨ offset = 3 ∨ offset = 4 ∨ offset = 5 ∨ offset = 6 ∨ offset = 7 := by omega
  rcases this with rfl | rfl | rfl | rfl | rfl | rfl | rfl
  · exact ⟨8, by decide⟩
  · exact ⟨4, by decide⟩
  · exact ⟨3, by decide⟩
  · exact ⟨2, by decide⟩
  · exact ⟨2, by decide⟩
  · exact ⟨2, by decide⟩
  · exact ⟨2, by decide⟩

/-- … and so is the distance of the second 4-byte copy of the head, at most `4 + offset` -/
theorem inc_mul (offset : Nat) (h1 : 1 ≤ offset) (h8 : offset < 8) :
    ∃ k, 1 ≤ k ∧ (inc32table.getD offset 0).toNat + k * offset = 4 + offset ∧ k * offset ≤ 4 + offset := by
  have : offset = 1 ∨ offset = 2 ∨ offset = 3 ∨ offset = 4 ∨ offset = 5 ∨ offset = 6 ∨ offset = 7 := by omega
  rcases this with rfl | rfl | rfl | rfl | rfl | rfl | rfl
  · exact ⟨4, by decide⟩
  · exact ⟨2, by decide⟩
  · exact ⟨2, by decide⟩
  · exact ⟨2, by decide⟩
  · exact ⟨1, by decide⟩
  · exact ⟨1, by decide⟩
  · exact ⟨1, by decide⟩

theorem smallOffsetHead_ext (buf : Bytes) (op m offset : Nat) (b : Bytes) (h : smallOffsetHead buf op m offset = .ok b)
    (h1 : 1 ≤ offset) (h8 : offset < 8) (hm : m + offset = op) : Ext buf b op offset (op + 8) := by
  unfold smallOffsetHead at h
  cases hz : zero4 buf op with
  | error e => rw [hz] at h; cases h
  | ok b0 =>
    rw [hz] at h
    simp only [bind, Except.bind] at h
    cases hf : fwd b0 op m 4 with
    | error e => rw [hf] at h; cases h
    | ok b1 =>
      rw [hf] at h
      dsimp only at h
      obtain ⟨hz1, hz2⟩ := zero4_spec hz
      have e1 : Ext b0 b1 op offset (op + 4) :=
        (Ext.refl b0 op offset).fwd 4 op m b1 hf 1 h1 (by omega) (by omega) (by omega) (by omega) (by omega)
      obtain ⟨k, hk1, hk2, hk3⟩ := inc_mul offset h1 h8
      have e2 : Ext b0 b op offset (op + 4 + 4) :=
        e1.fwd 4 (op + 4) (m + (inc32table.getD offset 0).toNat) b (memcpyB_fwd h) k h1 hk1 (by omega) (by omega) (by omega) (by omega)
      exact (e2.rebase hz1 (fun j hj => hz2 j (Or.inl hj))).mono (by omega)

theorem copy18_ext (buf : Bytes) (op m off : Nat) (b : Bytes) (h : copy18 buf op m = .ok b) (h1 : 1 ≤ off) (hm : m + off = op) :
    Ext buf b op off (op + 18) := by
  unfold copy18 at h
  cases h1' : memcpyB buf op m 8 with
  | error e => rw [h1'] at h; cases h
  | ok b1 =>
    rw [h1'] at h
    simp only [bind, Except.bind] at h
    cases h2' : memcpyB b1 (op + 8) (m + 8) 8 with
    | error e => rw [h2'] at h; cases h
    | ok b2 =>
      rw [h2'] at h
      dsimp only at h
      have e1 := (Ext.refl buf op off).fwd 8 op m b1 (memcpyB_fwd h1') 1 h1 (by omega) (by omega) (by omega) (by omega) (by omega)
      have e2 := e1.fwd 8 (op + 8) (m + 8) b2 (memcpyB_fwd h2') 1 h1 (by omega) (by omega) (by omega) (by omega) (by omega)
      have e3 := e2.fwd 2 (op + 8 + 8) (m + 16) b (by rw [show op + 8 + 8 = op + 16 by omega]; exact memcpyB_fwd h) 1 h1 (by omega) (by omega) (by omega) (by omega) (by omega)
      exact e3.mono (by omega)

theorem bind_ok {α β} {x : Except Err α} {f : α → Except Err β} {b : β} (h : (x >>= f) = .ok b) : ∃ a, x = .ok a ∧ f a = .ok b := by
  cases x with
  | error e => cases h
  | ok a => exact ⟨a, rfl, h⟩

theorem bind_bad {α β} {x : Except Err α} {f : α → Except Err β} {ip : Nat} (h : (x >>= f) = .error (.bad ip)) :
    x = .error (.bad ip) ∨ ∃ a, x = .ok a ∧ f a = .error (.bad ip) := by
  cases x with
  | error e => left; simpa [bind, Except.bind] using h
  | ok a => right; exact ⟨a, rfl, h⟩

theorem Sim.intro {α} {P : α → Prop} {V : Prop} {x : Except Err α} (hok : ∀ a, x = .ok a → P a) (hbad : ∀ ip, x = .error (.bad ip) → ¬ V) :
    Sim P V x := by
  match x, hok, hbad with
  | .ok a, hok, _ => exact hok a rfl
  | .error (.bad ip), _, hbad => exact hbad ip rfl
  | .error (.fault f), _, _ => trivial
  | .error .fuel, _, _ => trivial

/-- the first 8 bytes of a safe-loop match -/
theorem head_ext (buf : Bytes) (op mN offset : Nat) (b : Bytes)
    (h : (if offset < 8 then smallOffsetHead buf op mN offset else memcpyB buf op mN 8) = .ok b) (h1 : 1 ≤ offset) (hm : mN + offset = op) :
    Ext buf b op offset (op + 8) := by
  by_cases h8 : offset < 8
  · rw [if_pos h8] at h; exact smallOffsetHead_ext buf op mN offset b h h1 h8 hm
  · rw [if_neg h8] at h
    exact (Ext.refl buf op offset).fwd 8 op mN b (memcpyB_fwd h) 1 h1 (by omega) (by omega) (by omega) (by omega) (by omega)

theorem head_nb (buf : Bytes) (op mN offset ip : Nat) :
    (if offset < 8 then smallOffsetHead buf op mN offset else memcpyB buf op mN 8) ≠ .error (.bad ip) := by
  split
  · unfold smallOffsetHead
    intro h
    rcases bind_bad h with h | ⟨b0, _, h⟩
    · exact zero4_nb _ _ _ h
    · rcases bind_bad h with h | ⟨b1, _, h⟩
      · exact fwd_nb _ _ _ _ _ h
      · exact memcpyB_nb _ _ _ _ _ h
  · exact memcpyB_nb _ _ _ _ _

/-- the source of the copies that follow the head: at a distance `k * offset` below `op + 8` -/
theorem m2_mul (op mN offset : Nat) (h1 : 1 ≤ offset) (hm : mN + offset = op) (_hsd : ¬ (offset < 8 ∧ op + 8 < smallDist offset)) :
    ∃ k, 1 ≤ k ∧ (if offset < 8 then op + 8 - smallDist offset else mN + 8) + k * offset = op + 8 ∧ k * offset ≤ 8 + offset := by
  by_cases h8 : offset < 8
  · rw [if_pos h8]
    obtain ⟨k, hk1, hk2, hk3⟩ := smallDist_mul offset h1 h8
    exact ⟨k, hk1, by omega, hk3⟩
  · rw [if_neg h8]
    exact ⟨1, by omega, by omega, by omega⟩

theorem safeMatchCopy_bad' (buf : Bytes) (ip op mN offset length : Nat) (b : Bytes) (h : safeMatchCopy buf ip op mN offset length = .ok b)
    (hc : ¬ op + length + 5 ≤ buf.size) : False := by
  unfold safeMatchCopy at h
  have c12 : MATCH_SAFEGUARD_DISTANCE = 12 := rfl
  have c5 : LASTLITERALS = 5 := rfl
  rw [c12, c5] at h
  obtain ⟨b1, hb1, h⟩ := bind_ok h
  dsimp only at h
  split at h
  · cases h
  · rw [if_pos (by omega), if_pos (by omega)] at h
    cases h

theorem safeMatchCopy_ok (buf : Bytes) (ip op mN offset length : Nat) (b : Bytes) (h : safeMatchCopy buf ip op mN offset length = .ok b)
    (h1 : 1 ≤ offset) (hm : mN + offset = op) : Ext buf b op offset (op + length) ∧ op + length + 5 ≤ buf.size := by
  refine ⟨?_, Classical.byContradiction (fun hc => safeMatchCopy_bad' buf ip op mN offset length b h hc)⟩
  unfold safeMatchCopy at h
  have c7 : WILDCOPYLENGTH - 1 = 7 := rfl
  have c12 : MATCH_SAFEGUARD_DISTANCE = 12 := rfl
  have c5 : LASTLITERALS = 5 := rfl
  rw [c12, c5] at h
  obtain ⟨b1, hb1, h⟩ := bind_ok h
  have e1 := head_ext buf op mN offset b1 hb1 h1 hm
  dsimp only at h
  by_cases hsd : offset < 8 ∧ op + 8 < smallDist offset
  · rw [if_pos hsd] at h; cases h
  · rw [if_neg hsd] at h
    obtain ⟨k, hk1, hk2, hk3⟩ := m2_mul op mN offset h1 hm hsd
    generalize (if offset < 8 then op + 8 - smallDist offset else mN + 8) = m2 at h hk2
    rw [c7] at h
    by_cases hnear : op + length + 12 > buf.size
    · rw [if_pos hnear] at h
      by_cases hlast : op + length + 5 > buf.size
      · rw [if_pos hlast] at h; cases h
      · rw [if_neg hlast] at h
        by_cases hw : op + 8 < buf.size - 7
        · rw [if_pos hw] at h
          obtain ⟨b2, hb2, h⟩ := bind_ok h
          have hw8 := wild8len_le (op + 8) (buf.size - 7)
          have e2 := e1.fwd _ (op + 8) m2 b2 (wildCopy8B_fwd hb2) k h1 hk1 hk2 (by omega) (by omega) (by omega)
          by_cases hn : op + length - (buf.size - 7) = 0
          · rw [hn] at h
            simp only [fwd, Except.ok.injEq] at h
            subst h
            exact e2.mono (by omega)
          · have e3 := e2.fwd _ (buf.size - 7) (m2 + (buf.size - 7 - (op + 8))) b h k h1 hk1 (by omega) (by omega) (by omega) (by omega)
            exact e3.mono (by omega)
        · rw [if_neg hw] at h
          by_cases hl8 : op + length - (op + 8) = 0
          · rw [hl8] at h
            simp only [fwd, Except.ok.injEq] at h
            subst h
            exact e1.mono (by omega)
          · have e2 := e1.fwd _ (op + 8) m2 b h k h1 hk1 hk2 (by omega) (by omega) (by omega)
            exact e2.mono (by omega)
    · rw [if_neg hnear] at h
      obtain ⟨b2, hb2, h⟩ := bind_ok h
      have e2 := e1.fwd 8 (op + 8) m2 b2 (memcpyB_fwd hb2) k h1 hk1 hk2 (by omega) (by omega) (by omega)
      by_cases h16 : length > 16
      · rw [if_pos h16] at h
        have hw8 := wild8len_le (op + 16) (op + length)
        have e3 := e2.fwd _ (op + 16) (m2 + 8) b (wildCopy8B_fwd h) k h1 hk1 (by omega) (by omega) (by omega) (by omega)
        exact e3.mono (by omega)
      · rw [if_neg h16] at h
        simp only [pure, Except.pure, Except.ok.injEq] at h
        subst h
        exact e2.mono (by omega)

theorem safeMatchCopy_bad (buf : Bytes) (ip op mN offset length ip' : Nat) (h : safeMatchCopy buf ip op mN offset length = .error (.bad ip')) :
    ¬ (op + length + 5 ≤ buf.size) := by
  unfold safeMatchCopy at h
  have c5 : LASTLITERALS = 5 := rfl
  rcases bind_bad h with h | ⟨b1, _, h⟩
  · exact absurd h (head_nb _ _ _ _ _)
  · dsimp only at h
    split at h
    · cases h
    · split at h
      · split at h
        · omega
        · split at h
          · rcases bind_bad h with h | ⟨b2, _, h⟩
            · exact absurd h (wildCopy8B_nb _ _ _ _ _)
            · exact absurd h (fwd_nb _ _ _ _ _)
          · exact absurd h (fwd_nb _ _ _ _ _)
      · rcases bind_bad h with h | ⟨b2, _, h⟩
        · exact absurd h (memcpyB_nb _ _ _ _ _)
        · split at h
          · exact absurd h (wildCopy8B_nb _ _ _ _ _)
          · cases h

theorem fastMatchCopy_ok (buf : Bytes) (op mN offset length : Nat) (b : Bytes) (h : fastMatchCopy buf op mN offset length = .ok b)
    (h1 : 1 ≤ offset) (hm : mN + offset = op) : Ext buf b op offset (op + length) := by
  unfold fastMatchCopy at h
  dsimp only at h
  have hw8 := wild8len_le op (op + length)
  have hw8' := wild8len_le (op + 8) (op + length)
  have hw32 := wild32len_le op (op + length)
  by_cases h16 : offset < 16
  · rw [if_pos h16] at h
    by_cases h124 : offset = 1 ∨ offset = 2 ∨ offset = 4
    · rw [if_pos h124] at h
      exact ((Ext.refl buf op offset).fwd _ op mN b h 1 h1 (by omega) (by omega) (by omega) (by omega) (by omega)).mono (by omega)
    · rw [if_neg h124] at h
      by_cases h8 : offset < 8
      · rw [if_pos h8] at h
        by_cases hsd : op + 8 < smallDist offset
        · rw [if_pos hsd] at h; cases h
        · rw [if_neg hsd] at h
          obtain ⟨b1, hb1, h⟩ := bind_ok h
          have e1 := smallOffsetHead_ext buf op mN offset b1 hb1 h1 h8 hm
          obtain ⟨k, hk1, hk2, hk3⟩ := smallDist_mul offset h1 h8
          exact (e1.fwd _ (op + 8) (op + 8 - smallDist offset) b (wildCopy8B_fwd h) k h1 hk1 (by omega) (by omega) (by omega) (by omega)).mono (by omega)
      · rw [if_neg h8] at h
        obtain ⟨b1, hb1, h⟩ := bind_ok h
        have e1 := (Ext.refl buf op offset).fwd 8 op mN b1 (memcpyB_fwd hb1) 1 h1 (by omega) (by omega) (by omega) (by omega) (by omega)
        exact (e1.fwd _ (op + 8) (mN + 8) b (wildCopy8B_fwd h) 1 h1 (by omega) (by omega) (by omega) (by omega) (by omega)).mono (by omega)
  · rw [if_neg h16] at h
    exact ((Ext.refl buf op offset).fwd _ op mN b (wildCopy32B_fwd h) 1 h1 (by omega) (by omega) (by omega) (by omega) (by omega)).mono (by omega)

theorem fastMatchCopy_nb (buf : Bytes) (op mN offset length ip : Nat) : fastMatchCopy buf op mN offset length ≠ .error (.bad ip) := by
  unfold fastMatchCopy
  dsimp only
  intro h
  split at h
  · split at h
    · exact fwd_nb _ _ _ _ _ h
    · split at h
      · split at h
        · cases h
        · rcases bind_bad h with h | ⟨b1, _, h⟩
          · unfold smallOffsetHead at h
            rcases bind_bad h with h | ⟨b0, _, h⟩
            · exact zero4_nb _ _ _ h
            · rcases bind_bad h with h | ⟨b2, _, h⟩
              · exact fwd_nb _ _ _ _ _ h
              · exact memcpyB_nb _ _ _ _ _ h
          · exact wildCopy8B_nb _ _ _ _ _ h
      · rcases bind_bad h with h | ⟨b1, _, h⟩
        · exact memcpyB_nb _ _ _ _ _ h
        · exact wildCopy8B_nb _ _ _ _ _ h
  · exact wildCopy32B_nb _ _ _ _ _ h

end LZ4V.Model.Decode
