import LZ4V.HC.HC5
/-!
# End-of-block rules of the hash-chain parser: every match starts at or before `mflimit` and ends at or before `matchlimit`

With `mflimit = n - 12` and `matchlimit = n - 5` this is what doc/lz4_Block_format.md asks of the end of a block: the last match starts at least 12 bytes
before the end, the last 5 bytes are literals.  The finders' contract gains one clause (`OracleLim`): an acceptable answer ends at or before `matchlimit`
(`LZ4HC_InsertAndFindBestMatch` / `LZ4HC_InsertAndGetWiderMatch` count up to `iHighLimit = matchlimit`).  The parser only ever shortens a match or moves its
start forward keeping its end, and it looks ahead from a match only when that match ends at or before `mflimit`.
-/
namespace HC

/-- the additional clause of the finders' contract -/
def OracleLim (ML : Nat) (o : Oracle) : Prop :=
  (∀ ip, 4 ≤ (o.best ip).len → ip + (o.best ip).len ≤ ML) ∧
  (∀ start low longest, longest < (o.wider start low longest).2.len → (o.wider start low longest).1 + (o.wider start low longest).2.len ≤ ML)

def Lim (mfl ML : Nat) : PC → Prop
  | .done _ => True
  | .main _ _ => True
  | .search2 ip _ m1 s0 m0 => ip ≤ mfl ∧ ip + m1.len ≤ ML ∧ s0 + m0.len ≤ ML ∧ ((s0 = ip ∧ m0 = m1) ∨ s0 + m0.len ≤ mfl)
  | .search3 ip _ m1 s2 m2 _ _ => ip + m1.len ≤ mfl ∧ s2 ≤ mfl ∧ s2 + m2.len ≤ ML

def EmitLim (mfl ML : Nat) (e : Emit) : Prop := e.ip ≤ mfl ∧ e.ip + e.len ≤ ML

theorem lookahead_lim (data : List UInt8) (o : Oracle) (hO : OracleOK data o) (ML : Nat) (hL : OracleLim ML o) (mfl start len back3 : Nat)
    (h : len < (lookahead o mfl start len back3).2.len) :
    start + len ≤ mfl ∧ start ≤ (lookahead o mfl start len back3).1 ∧ (lookahead o mfl start len back3).1 ≤ start + len - back3 ∧
    (lookahead o mfl start len back3).1 + (lookahead o mfl start len back3).2.len ≤ ML := by
  obtain ⟨l1, l2, _⟩ := lookahead_ok data o hO mfl start len back3 h
  unfold lookahead at h ⊢
  by_cases hm : start + len ≤ mfl
  · rw [if_pos hm] at h ⊢
    exact ⟨hm, by simpa [lookahead, hm] using l1, by simpa [lookahead, hm] using l2, hL.2 _ _ _ h⟩
  · rw [if_neg hm] at h
    simp at h

theorem step2_lim (data : List UInt8) (o : Oracle) (hO : OracleOK data o) (mfl ML : Nat) (hML : mfl ≤ ML) (hL : OracleLim ML o) (pc : PC)
    (hi : Inv2 data pc) (hl : Lim mfl ML pc) :
    Lim mfl ML (step2 o mfl pc).1 ∧ ∀ e ∈ (step2 o mfl pc).2, EmitLim mfl ML e := by
  cases pc with
  | done a => simp [step2, Lim]
  | main ip anchor =>
    simp only [step2]
    by_cases h1 : ip > mfl
    · rw [if_pos h1]; simp [Lim]
    · rw [if_neg h1]
      by_cases h2 : (o.best ip).len < 4
      · rw [if_pos h2]; simp [Lim]
      · rw [if_neg h2]
        refine ⟨?_, by simp⟩
        exact ⟨by omega, hL.1 ip (by omega), hL.1 ip (by omega), Or.inl ⟨rfl, rfl⟩⟩
  | search2 ip anchor m1 start0 m0 =>
    obtain ⟨i1, i2, i3, i4, i5, i6, i7⟩ := hi
    obtain ⟨l1, l2, l3, l4⟩ := hl
    simp only [step2]
    by_cases hle : (lookahead o mfl ip m1.len 2).2.len ≤ m1.len
    · rw [if_pos hle]
      refine ⟨trivial, ?_⟩
      intro e he
      simp only [List.mem_singleton] at he
      subst he
      exact ⟨l1, l2⟩
    · rw [if_neg hle]
      obtain ⟨k1, k2, k3, k4⟩ := lookahead_lim data o hO ML hL mfl ip m1.len 2 (by omega)
      generalize lookahead o mfl ip m1.len 2 = r at k2 k3 k4 hle ⊢
      by_cases hsw : start0 < ip ∧ r.1 < ip + m0.len
      · simp only [hsw, and_self, if_true]
        have hs0 : start0 + m0.len ≤ mfl := by
          rcases l4 with ⟨h, _⟩ | h
          · omega
          · exact h
        by_cases h3 : r.1 - start0 < 3
        · rw [if_pos h3]
          exact ⟨⟨by omega, k4, l3, Or.inr hs0⟩, by simp⟩
        · rw [if_neg h3]
          exact ⟨⟨hs0, by omega, k4⟩, by simp⟩
      · simp only [hsw, if_false]
        by_cases h3 : r.1 - ip < 3
        · rw [if_pos h3]
          refine ⟨⟨by omega, k4, l3, ?_⟩, by simp⟩
          rcases l4 with ⟨h, hm⟩ | h
          · right; rw [h, hm]; exact k1
          · exact Or.inr h
        · rw [if_neg h3]
          exact ⟨⟨k1, by omega, k4⟩, by simp⟩
  | search3 ip anchor m1 start2 m2 start0 m0 =>
    obtain ⟨i1, i2, i3, i4, i5, i6, i7, i8⟩ := hi
    obtain ⟨l1, l2, l3⟩ := hl
    obtain ⟨q1, q2, q3, q4, q5, q6, q7⟩ := squeeze_ok2 data ip m1 start2 m2 i2 i4 i5 i6 i7
    simp only [step2]
    generalize hs : squeeze ip m1 start2 m2 = s at q1 q2 q3 q4 q5 q6 q7 ⊢
    have hs1 : s.1 ≤ mfl := by
      rcases q4 with h | h
      · omega
      · rw [h]; exact l2
    have hsE : s.1 + s.2.len ≤ ML := by rw [q6]; exact l3
    by_cases hle : (lookahead o mfl s.1 s.2.len 3).2.len ≤ s.2.len
    · rw [if_pos hle]
      refine ⟨trivial, ?_⟩
      intro e he
      simp only [List.mem_cons, List.mem_singleton, List.not_mem_nil, or_false] at he
      rcases he with rfl | rfl
      · refine ⟨by show ip ≤ mfl; omega, ?_⟩
        show ip + (if s.1 < ip + m1.len then s.1 - ip else m1.len) ≤ ML
        split <;> omega
      · exact ⟨hs1, hsE⟩
    · rw [if_neg hle]
      obtain ⟨k1, k2, k3, k4⟩ := lookahead_lim data o hO ML hL mfl s.1 s.2.len 3 (by omega)
      generalize lookahead o mfl s.1 s.2.len 3 = r at k2 k3 k4 hle ⊢
      by_cases hnear : r.1 < ip + m1.len + 3
      · rw [if_pos hnear]
        by_cases hge : r.1 ≥ ip + m1.len
        · rw [if_pos hge]
          refine ⟨?_, ?_⟩
          · -- search2 r.1 (ip + m1.len) r.2 c.1 c.2
            show r.1 ≤ mfl ∧ r.1 + r.2.len ≤ ML ∧ (cutOrDrop ip m1 s.1 s.2 r.1 r.2).1 + (cutOrDrop ip m1 s.1 s.2 r.1 r.2).2.len ≤ ML ∧
              (((cutOrDrop ip m1 s.1 s.2 r.1 r.2).1 = r.1 ∧ (cutOrDrop ip m1 s.1 s.2 r.1 r.2).2 = r.2) ∨
               (cutOrDrop ip m1 s.1 s.2 r.1 r.2).1 + (cutOrDrop ip m1 s.1 s.2 r.1 r.2).2.len ≤ mfl)
            refine ⟨by omega, k4, ?_, ?_⟩
            · unfold cutOrDrop
              split
              · split
                · exact k4
                · show ip + m1.len + (s.2.len - (ip + m1.len - s.1)) ≤ ML; omega
              · exact hsE
            · unfold cutOrDrop
              split
              · split
                · exact Or.inl ⟨rfl, rfl⟩
                · right; show ip + m1.len + (s.2.len - (ip + m1.len - s.1)) ≤ mfl; omega
              · exact Or.inr k1
          · intro e he
            simp only [List.mem_singleton] at he
            subst he
            exact ⟨by show ip ≤ mfl; omega, by show ip + m1.len ≤ ML; omega⟩
        · rw [if_neg hge]
          exact ⟨⟨l1, by omega, k4⟩, by simp⟩
      · rw [if_neg hnear]
        obtain ⟨t1, t2, t3, t4, t5, t6, t7, t8⟩ := trim_ok data ip m1 s.1 s.2 i2 q1 q2 q7
        refine ⟨⟨by rw [t6]; exact k1, by omega, k4⟩, ?_⟩
        intro e he
        simp only [List.mem_singleton] at he
        subst he
        exact ⟨by show ip ≤ mfl; omega, by show ip + (trim ip m1 s.1 s.2).1 ≤ ML; omega⟩

theorem run_lim (data : List UInt8) (o : Oracle) (hO : OracleOK data o) (mfl ML : Nat) (hML : mfl ≤ ML) (hL : OracleLim ML o) :
    ∀ (n : Nat) (pc : PC), Inv2 data pc → Lim mfl ML pc → ∀ e ∈ (run o mfl n pc).2, EmitLim mfl ML e := by
  intro n
  induction n with
  | zero => intro pc _ _ e he; simp [run] at he
  | succ n ih =>
    intro pc hi hl e he
    obtain ⟨h1, _⟩ := step2_ok data o hO mfl pc hi
    obtain ⟨g1, g2⟩ := step2_lim data o hO mfl ML hML hL pc hi hl
    simp only [run, List.mem_append] at he
    rcases he with he | he
    · exact g2 e he
    · exact ih _ h1 g1 e he

open LZ4V.Spec.Block in
theorem chain_last : ∀ (es : List Emit) (a a' : Nat) (e : Emit), Chain a es a' → es.getLast? = some e → a' = e.ip + e.len := by
  intro es
  induction es with
  | nil => intro a a' e _ h; simp at h
  | cons x t ih =>
    intro a a' e hc hl
    cases t with
    | nil =>
      simp only [List.getLast?_singleton, Option.some.injEq] at hl
      subst hl
      simp only [Chain] at hc
      exact hc.2.symm
    | cons y t' =>
      rw [List.getLast?_cons_cons] at hl
      exact ih _ _ e hc.2 hl

open LZ4V.Spec.Block in
/-- **the hash-chain levels emit conforming blocks, for every match finder that honours its contract**: the block is the serialisation of a valid parse of
    the source against the history, every match length ≥ 4, every offset in 1..65535, the last 5 bytes literals, the last match starting at least 12 bytes
    before the end — one-shot (`hist = []`), streaming or with a dictionary -/
theorem compressH_conforms (hist block : List UInt8) (o : Oracle) (hO : OracleOK (hist ++ block) o)
    (hL : OracleLim (hist.length + block.length - 5) o) (fuel : Nat) (blk : List UInt8) (h : compressH o hist block fuel = some blk) :
    ∃ seqs last, blk = serialize seqs last ∧ ValidParse hist seqs last (hist ++ block) ∧
      (∀ s ∈ seqs, 4 ≤ s.ml ∧ 1 ≤ s.off ∧ s.off ≤ 65535) ∧ endConditions seqs last = true ∧ covered seqs last = block.length := by
  unfold compressH at h
  split at h
  · simp only [Option.some.injEq] at h
    subst h
    exact ⟨[], block, rfl, by simp [ValidParse], fun s hs => (List.not_mem_nil hs).elim, rfl, by simp [covered]⟩
  · rename_i hn
    have hc := run_chain o (hist.length + block.length - 12) fuel (.main hist.length hist.length)
    have hok := (run_ok (hist ++ block) o hO (hist.length + block.length - 12) fuel (.main hist.length hist.length) (Nat.le_refl _)).2
    have hlim := run_lim (hist ++ block) o hO (hist.length + block.length - 12) (hist.length + block.length - 5) (by omega) hL fuel
      (.main hist.length hist.length) (Nat.le_refl _) trivial
    generalize run o (hist.length + block.length - 12) fuel (.main hist.length hist.length) = r at h hc hok hlim
    obtain ⟨pc, es⟩ := r
    cases pc with
    | done a =>
      simp only [Option.some.injEq] at h
      subst h
      dsimp only [anchorOf] at hc
      have hlen : (hist ++ block).length = hist.length + block.length := List.length_append
      have hv := chain_valid (hist ++ block) es hist.length a hc hok (by omega)
      rw [List.take_left' rfl] at hv
      have hcov := chain_covered (hist ++ block) es hist.length a hc hok (by omega)
      refine ⟨_, _, rfl, hv, ?_, ?_, by omega⟩
      · intro s hs
        obtain ⟨e, he, rfl⟩ := List.mem_map.mp hs
        obtain ⟨_, h2, h3, h4, _⟩ := hok e he
        exact ⟨h2, h3, h4⟩
      · unfold endConditions
        cases hgl : (es.map (toSeq (hist ++ block))).getLast? with
        | none => rfl
        | some sq =>
          dsimp only
          rw [List.getLast?_map] at hgl
          cases hgl2 : es.getLast? with
          | none => rw [hgl2] at hgl; cases hgl
          | some e =>
            rw [hgl2] at hgl
            simp only [Option.map_some, Option.some.injEq] at hgl
            subst hgl
            have hmem : e ∈ es := List.mem_of_getLast? hgl2
            obtain ⟨g1, g2⟩ := hlim e hmem
            have ha := chain_last es _ _ e hc hgl2
            have hml : (toSeq (hist ++ block) e).ml = e.len := rfl
            rw [hml, List.length_drop, hlen]
            simp only [Bool.and_eq_true, decide_eq_true_eq]
            omega
    | main _ _ => cases h
    | search2 _ _ _ _ _ => cases h
    | search3 _ _ _ _ _ _ _ => cases h

end HC
