/-! Prototype (C01/C06, HC side): LZ4HC_compress_hashChain's three-match lazy parser over an ORACLE match finder.
    Positions are offsets in the block. The oracle is any pair of functions satisfying `OracleOK`
    (every answer that the parser would accept is a byte-verified match inside the allowed window).
    Theorem: every sequence the parser emits is a verified match of length ≥ 4 that starts at or after the anchor,
    and anchors only move forward -- for every oracle, every input, every path through the goto structure. -/
namespace HC

structure M where
  off : Nat
  len : Nat
deriving Repr

/-- `data[p, p+len)` equals the bytes `off` earlier; offset legal -/
def VMatch (data : List UInt8) (p len off : Nat) : Prop :=
  1 ≤ off ∧ off ≤ 65535 ∧ off ≤ p ∧ p + len ≤ data.length ∧ ∀ k, k < len → data[p + k]? = data[p + k - off]?

theorem VMatch.shorten {data p len off} (h : VMatch data p len off) (len' : Nat) (hl : len' ≤ len) : VMatch data p len' off :=
  ⟨h.1, h.2.1, h.2.2.1, by have := h.2.2.2.1; omega, fun k hk => h.2.2.2.2 k (by omega)⟩

theorem VMatch.advance {data p len off} (h : VMatch data p len off) (c : Nat) (hc : c ≤ len) : VMatch data (p + c) (len - c) off :=
  ⟨h.1, h.2.1, by have := h.2.2.1; omega, by have := h.2.2.2.1; omega, fun k hk => by
    have := h.2.2.2.2 (c + k) (by omega)
    simpa [Nat.add_assoc] using this⟩

structure Oracle where
  best  : Nat → M                        -- LZ4HC_InsertAndFindBestMatch(ip)
  wider : Nat → Nat → Nat → Nat × M      -- LZ4HC_InsertAndGetWiderMatch(start, iLowLimit, longest) ↦ (start + back, match)

def OracleOK (data : List UInt8) (o : Oracle) : Prop :=
  (∀ ip, 4 ≤ (o.best ip).len → VMatch data ip (o.best ip).len (o.best ip).off) ∧
  (∀ start low longest, longest < (o.wider start low longest).2.len →
      low ≤ (o.wider start low longest).1 ∧ (o.wider start low longest).1 ≤ start ∧
      VMatch data (o.wider start low longest).1 (o.wider start low longest).2.len (o.wider start low longest).2.off)

/-- an emitted sequence: literals [anchor, ip), then match (ip, len, off) -/
structure Emit where
  anchor : Nat
  ip : Nat
  len : Nat
  off : Nat
deriving Repr

def EmitOK (data : List UInt8) (e : Emit) : Prop := e.anchor ≤ e.ip ∧ 4 ≤ e.len ∧ VMatch data e.ip e.len e.off

inductive PC
  | main    (ip anchor : Nat)
  | search2 (ip anchor : Nat) (m1 : M) (start0 : Nat) (m0 : M)
  | search3 (ip anchor : Nat) (m1 : M) (start2 : Nat) (m2 : M) (start0 : Nat) (m0 : M)
  | done    (anchor : Nat)

def OPTIMAL_ML := 18

/-- one transition; returns the new control state and the sequences emitted on the way -/
def step (o : Oracle) (mflimit : Nat) : PC → PC × List Emit
  | .done a => (.done a, [])
  | .main ip anchor =>
    if ip > mflimit then (.done anchor, []) else
    let m1 := o.best ip
    if m1.len < 4 then (.main (ip+1) anchor, []) else (.search2 ip anchor m1 ip m1, [])
  | .search2 ip anchor m1 start0 m0 =>
    let (start2, m2) := if ip + m1.len ≤ mflimit then o.wider (ip + m1.len - 2) ip m1.len else (ip, ⟨0, 0⟩)
    if m2.len ≤ m1.len then (.main (ip + m1.len) (ip + m1.len), [⟨anchor, ip, m1.len, m1.off⟩]) else
    let (ip, m1) := if start0 < ip ∧ start2 < ip + m0.len then (start0, m0) else (ip, m1)
    if start2 - ip < 3 then (.search2 start2 anchor m2 start0 m0, []) else
    (.search3 ip anchor m1 start2 m2 start0 m0, [])
  | .search3 ip anchor m1 start2 m2 start0 m0 =>
    -- squeeze m1 / m2 when they overlap closely
    let (start2, m2) :=
      if start2 - ip < OPTIMAL_ML then
        let new_ml := if m1.len > OPTIMAL_ML then OPTIMAL_ML else m1.len
        let new_ml := if ip + new_ml > start2 + m2.len - 4 then start2 - ip + m2.len - 4 else new_ml
        if new_ml > start2 - ip then (start2 + (new_ml - (start2 - ip)), (⟨m2.off, m2.len - (new_ml - (start2 - ip))⟩ : M)) else (start2, m2)
      else (start2, m2)
    let (start3, m3) := if start2 + m2.len ≤ mflimit then o.wider (start2 + m2.len - 3) start2 m2.len else (start2, ⟨0, 0⟩)
    if m3.len ≤ m2.len then
      let l1 := if start2 < ip + m1.len then start2 - ip else m1.len
      (.main (start2 + m2.len) (start2 + m2.len), [⟨anchor, ip, l1, m1.off⟩, ⟨ip + l1, start2, m2.len, m2.off⟩])
    else if start3 < ip + m1.len + 3 then
      if start3 ≥ ip + m1.len then
        let (start2, m2) :=
          if start2 < ip + m1.len then
            let c := ip + m1.len - start2
            if m2.len - c < 4 then (start3, m3) else (start2 + c, (⟨m2.off, m2.len - c⟩ : M))
          else (start2, m2)
        (.search2 start3 (ip + m1.len) m3 start2 m2, [⟨anchor, ip, m1.len, m1.off⟩])
      else (.search3 ip anchor m1 start3 m3 start0 m0, [])
    else
      let (l1, start2, m2) :=
        if start2 < ip + m1.len then
          if start2 - ip < OPTIMAL_ML then
            let l := if m1.len > OPTIMAL_ML then OPTIMAL_ML else m1.len
            let l := if ip + l > start2 + m2.len - 4 then start2 - ip + m2.len - 4 else l
            if l > start2 - ip then (l, start2 + (l - (start2 - ip)), (⟨m2.off, m2.len - (l - (start2 - ip))⟩ : M)) else (l, start2, m2)
          else (start2 - ip, start2, m2)
        else (m1.len, start2, m2)
      (.search3 start2 (ip + l1) m2 start3 m3 start0 m0, [⟨anchor, ip, l1, m1.off⟩])

end HC
