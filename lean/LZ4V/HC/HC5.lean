import LZ4V.HC.HC4
import LZ4V.Proofs.BlockHub
import LZ4V.Proofs.Arith
/-!
# From the hash-chain parser to the block: whatever the match finder answers (within its contract), the block decodes to the input

`HC.step2` is `LZ4HC_compress_hashChain`'s three-match lazy parser (levels 3..9) over an ORACLE match finder (`LZ4HC_InsertAndFindBestMatch`,
`LZ4HC_InsertAndGetWiderMatch`: chain walking, pattern analysis, dictionaries — all inside the oracle).  `OracleOK`: every answer the parser would accept
is a byte-verified match inside the window.  `HC4.lean` proves every emitted sequence is such a match of length ≥ 4 at or after the anchor; here: the
emitted sequences CHAIN (each starts where the previous one ended), so they tile the input, so the serialised block decodes to the input.
-/
namespace HC
open LZ4V.Spec.Block

def anchorOf : PC → Nat
  | .main _ a => a
  | .search2 _ a _ _ _ => a
  | .search3 _ a _ _ _ _ _ => a
  | .done a => a

/-- the sequences start one after the other: literals from `a`, match, next literals from the end of the match … up to `a'` -/
def Chain : Nat → List Emit → Nat → Prop
  | a, [], a' => a = a'
  | a, e :: es, a' => e.anchor = a ∧ Chain (e.ip + e.len) es a'

theorem Chain.append {a b c : Nat} {xs ys : List Emit} (h1 : Chain a xs b) (h2 : Chain b ys c) : Chain a (xs ++ ys) c := by
  induction xs generalizing a with
  | nil => simp only [Chain] at h1; subst h1; exact h2
  | cons x t ih => exact ⟨h1.1, ih h1.2⟩

theorem step2_chain (o : Oracle) (mflimit : Nat) (pc : PC) : Chain (anchorOf pc) (step2 o mflimit pc).2 (anchorOf (step2 o mflimit pc).1) := by
  cases pc with
  | done a => simp [step2, Chain, anchorOf]
  | main ip anchor =>
    simp only [step2]
    repeat' split
    all_goals simp [Chain, anchorOf]
  | search2 ip anchor m1 start0 m0 =>
    simp only [step2]
    repeat' split
    all_goals simp [Chain, anchorOf]
  | search3 ip anchor m1 start2 m2 start0 m0 =>
    simp only [step2]
    repeat' split
    all_goals simp [Chain, anchorOf]

theorem run_chain (o : Oracle) (mflimit : Nat) : ∀ (n : Nat) (pc : PC), Chain (anchorOf pc) (run o mflimit n pc).2 (anchorOf (run o mflimit n pc).1) := by
  intro n
  induction n with
  | zero => intro pc; simp [run, Chain]
  | succ n ih =>
    intro pc
    simp only [run]
    exact (step2_chain o mflimit pc).append (ih _)

def toSeq (data : List UInt8) (e : Emit) : Seq := ⟨(data.drop e.anchor).take (e.ip - e.anchor), e.off, e.len⟩

theorem chain_end_le (data : List UInt8) : ∀ (es : List Emit) (a a' : Nat), Chain a es a' → (∀ e ∈ es, EmitOK data e) → a ≤ data.length → a' ≤ data.length := by
  intro es
  induction es with
  | nil => intro a a' h _ ha; simp only [Chain] at h; omega
  | cons e t ih =>
    intro a a' h hok _
    have he := hok e List.mem_cons_self
    exact ih _ _ h.2 (fun x hx => hok x (List.mem_cons_of_mem _ hx)) he.2.2.2.2.2.1

/-- chained, verified sequences are a valid parse of the input -/
theorem chain_valid (data : List UInt8) : ∀ (es : List Emit) (a a' : Nat), Chain a es a' → (∀ e ∈ es, EmitOK data e) → a ≤ data.length →
    ValidParse (data.take a) (es.map (toSeq data)) (data.drop a') data := by
  intro es
  induction es with
  | nil =>
    intro a a' h _ _
    simp only [Chain] at h
    subst h
    simp only [List.map_nil, ValidParse]
    exact (List.take_append_drop a data).symm
  | cons e t ih =>
    intro a a' h hok ha
    obtain ⟨hea, hrest⟩ := h
    obtain ⟨h1, h2, h3, h4, h5, h6, h7⟩ := hok e List.mem_cons_self
    subst hea
    have hlit : data.take e.anchor ++ (toSeq data e).lits = data.take e.ip := by
      show data.take e.anchor ++ (data.drop e.anchor).take (e.ip - e.anchor) = data.take e.ip
      have : e.ip = e.anchor + (e.ip - e.anchor) := by omega
      conv => rhs; rw [this, List.take_add]
    have hm : data.take e.ip ++ (data.drop e.ip).take e.len = data.take (e.ip + e.len) := by rw [List.take_add]
    simp only [List.map_cons, ValidParse]
    refine ⟨(data.drop e.ip).take e.len, ?_, h3, ?_, ?_, ?_⟩
    · show _ = e.len
      rw [List.length_take, List.length_drop]; omega
    · show e.off ≤ _
      rw [hlit, List.length_take]; omega
    · intro k hk
      rw [hlit, hm]
      have hl : (data.take e.ip).length = e.ip := by rw [List.length_take]; omega
      have hk' : k < e.len := by rw [List.length_take, List.length_drop] at hk; omega
      rw [hl, List.getElem?_take, List.getElem?_take, if_pos (by omega), if_pos (by omega)]
      exact h7 k hk'
    · rw [hlit, hm]
      exact ih _ _ hrest (fun x hx => hok x (List.mem_cons_of_mem _ hx)) h6

/-- the block `LZ4HC_compress_hashChain` writes (not limited): sequences in order, then the last literals; `none` if the loop has not ended within `fuel` steps -/
def compress (o : Oracle) (data : List UInt8) (fuel : Nat) : Option (List UInt8) :=
  if data.length < 13 then some (serialize [] data) else
  match run o (data.length - 12) fuel (.main 0 0) with
  | (.done a, es) => some (serialize (es.map (toSeq data)) (data.drop a))
  | _ => none

/-- **the hash-chain levels are lossless for every match finder that honours its contract** -/
theorem compress_decodes (data : List UInt8) (o : Oracle) (hO : OracleOK data o) (fuel : Nat) (blk : List UInt8)
    (h : compress o data fuel = some blk) : decode [] blk = some data := by
  unfold compress at h
  split at h
  · simp only [Option.some.injEq] at h
    subst h
    exact roundtrip [] [] data data (fun s hs => (List.not_mem_nil hs).elim) (by simp [ValidParse])
  · have hc := run_chain o (data.length - 12) fuel (.main 0 0)
    have hok := (run_ok data o hO (data.length - 12) fuel (.main 0 0) (Nat.le_refl 0)).2
    generalize run o (data.length - 12) fuel (.main 0 0) = r at h hc hok
    obtain ⟨pc, es⟩ := r
    cases pc with
    | done a =>
      simp only [Option.some.injEq] at h
      subst h
      dsimp only [anchorOf] at hc
      have hv := chain_valid data es 0 a hc hok (Nat.zero_le _)
      simp only [List.take_zero] at hv
      exact roundtrip [] _ _ data (fun s hs => by
        obtain ⟨e, he, rfl⟩ := List.mem_map.mp hs
        obtain ⟨_, h2, h3, h4, _⟩ := hok e he
        exact ⟨h2, by show e.off < 65536; omega⟩) (by simpa using hv)
    | main _ _ => cases h
    | search2 _ _ _ _ _ => cases h
    | search3 _ _ _ _ _ _ _ => cases h

/-! ## with a history: streaming and dictionary compression at the hash-chain levels

`LZ4_compress_HC_continue` / a loaded or attached dictionary: the parser is the same, positions are taken in `hist ++ block` (`hist` = what the decoder
has: previous blocks, the dictionary), the block starts at `hist.length`; where a match really lies in memory (prefix, external dictionary, dictionary
context) is the finders' business — the oracle only says "`len` bytes at `p` equal the bytes `off` earlier in `hist ++ block`". -/

/-- the block written for `block` with `hist` in front of it -/
def compressH (o : Oracle) (hist block : List UInt8) (fuel : Nat) : Option (List UInt8) :=
  if block.length < 13 then some (serialize [] block) else
  match run o (hist.length + block.length - 12) fuel (.main hist.length hist.length) with
  | (.done a, es) => some (serialize (es.map (toSeq (hist ++ block))) ((hist ++ block).drop a))
  | _ => none

theorem decode_literals_any_hist (hist l : List UInt8) : decode hist (serialize [] l) = some l :=
  roundtrip hist [] l l (fun s hs => (List.not_mem_nil hs).elim) (by simp [ValidParse])

/-- **streaming / dictionary compression at the hash-chain levels is lossless for every match finder that honours its contract**: the block decodes to
    its source against the history -/
theorem compressH_decodes (hist block : List UInt8) (o : Oracle) (hO : OracleOK (hist ++ block) o) (fuel : Nat) (blk : List UInt8)
    (h : compressH o hist block fuel = some blk) : decode hist blk = some block := by
  unfold compressH at h
  split at h
  · simp only [Option.some.injEq] at h
    subst h
    exact decode_literals_any_hist hist block
  · have hc := run_chain o (hist.length + block.length - 12) fuel (.main hist.length hist.length)
    have hok := (run_ok (hist ++ block) o hO (hist.length + block.length - 12) fuel (.main hist.length hist.length) (Nat.le_refl _)).2
    generalize run o (hist.length + block.length - 12) fuel (.main hist.length hist.length) = r at h hc hok
    obtain ⟨pc, es⟩ := r
    cases pc with
    | done a =>
      simp only [Option.some.injEq] at h
      subst h
      dsimp only [anchorOf] at hc
      have hv := chain_valid (hist ++ block) es hist.length a hc hok (by rw [List.length_append]; omega)
      rw [List.take_left' rfl] at hv
      exact roundtrip hist _ _ block (fun s hs => by
        obtain ⟨e, he, rfl⟩ := List.mem_map.mp hs
        obtain ⟨_, h2, h3, h4, _⟩ := hok e he
        exact ⟨h2, by show e.off < 65536; omega⟩) hv
    | main _ _ => cases h
    | search2 _ _ _ _ _ => cases h
    | search3 _ _ _ _ _ _ _ => cases h

/-! ## the certificate behind every level: chained, verified sequences

Whatever parser chose them (lz4mid at levels 1-2, the hash-chain parser at 3-9, the optimal parser at 10-12): if the sequences handed to
`LZ4HC_encodeSequence` start one after the other from the start of the block and each match is byte-verified inside `hist ++ block`, the block made of them
and of the remaining literals decodes to its source.  The judge checks the two premises on the sequences logged from the real parsers and that the real
block is this serialisation. -/
theorem chained_verified_sequences_decode (hist block : List UInt8) (es : List Emit) (a' : Nat) (hc : Chain hist.length es a')
    (hok : ∀ e ∈ es, EmitOK (hist ++ block) e) :
    decode hist (serialize (es.map (toSeq (hist ++ block))) ((hist ++ block).drop a')) = some block := by
  have hv := chain_valid (hist ++ block) es hist.length a' hc hok (by rw [List.length_append]; omega)
  rw [List.take_left' rfl] at hv
  exact roundtrip hist _ _ block (fun s hs => by
    obtain ⟨e, he, rfl⟩ := List.mem_map.mp hs
    obtain ⟨_, h2, h3, h4, _⟩ := hok e he
    exact ⟨h2, by show e.off < 65536; omega⟩) hv

/-- chained sequences cover exactly `[a, a')`: literals and matches add up -/
theorem chain_covered (data : List UInt8) : ∀ (es : List Emit) (a a' : Nat), Chain a es a' → (∀ e ∈ es, EmitOK data e) → a ≤ data.length →
    covered (es.map (toSeq data)) (data.drop a') + a = data.length := by
  intro es
  induction es with
  | nil =>
    intro a a' h _ ha
    simp only [Chain] at h
    subst h
    simp only [List.map_nil, covered, List.sum_nil, List.length_drop]
    omega
  | cons e t ih =>
    intro a a' h hok ha
    obtain ⟨hea, hrest⟩ := h
    obtain ⟨h1, h2, h3, h4, h5, h6, h7⟩ := hok e List.mem_cons_self
    subst hea
    have := ih _ _ hrest (fun x hx => hok x (List.mem_cons_of_mem _ hx)) h6
    have hl : (toSeq data e).lits.length = e.ip - e.anchor := by
      show ((data.drop e.anchor).take (e.ip - e.anchor)).length = _
      rw [List.length_take, List.length_drop]; omega
    have hm : (toSeq data e).ml = e.len := rfl
    simp only [List.map_cons, covered, List.sum_cons, hl, hm] at this ⊢
    omega

/-- **within the bound**: whatever the finders answer within their contract, the block is at most `n + n/255 + 2` bytes (below `LZ4_compressBound n`) -/
theorem compressH_size (hist block : List UInt8) (o : Oracle) (hO : OracleOK (hist ++ block) o) (fuel : Nat) (blk : List UInt8)
    (h : compressH o hist block fuel = some blk) : blk.length ≤ block.length + block.length / 255 + 2 := by
  unfold compressH at h
  split at h
  · simp only [Option.some.injEq] at h
    subst h
    have := serialize_length_le [] block (fun s hs => (List.not_mem_nil hs).elim)
    simpa [covered] using this
  · have hc := run_chain o (hist.length + block.length - 12) fuel (.main hist.length hist.length)
    have hok := (run_ok (hist ++ block) o hO (hist.length + block.length - 12) fuel (.main hist.length hist.length) (Nat.le_refl _)).2
    generalize run o (hist.length + block.length - 12) fuel (.main hist.length hist.length) = r at h hc hok
    obtain ⟨pc, es⟩ := r
    cases pc with
    | done a =>
      simp only [Option.some.injEq] at h
      subst h
      dsimp only [anchorOf] at hc
      have hcov := chain_covered (hist ++ block) es hist.length a hc hok (by rw [List.length_append]; omega)
      rw [List.length_append] at hcov
      have := serialize_length_le (es.map (toSeq (hist ++ block))) ((hist ++ block).drop a) (fun s hs => by
        obtain ⟨e, he, rfl⟩ := List.mem_map.mp hs
        exact (hok e he).2.1)
      have e : covered (es.map (toSeq (hist ++ block))) ((hist ++ block).drop a) = block.length := by omega
      rw [e] at this
      exact this
    | main _ _ => cases h
    | search2 _ _ _ _ _ => cases h
    | search3 _ _ _ _ _ _ _ => cases h

/-- executable premises -/
def chainB : Nat → List Emit → Option Nat
  | a, [] => some a
  | a, e :: es => if e.anchor = a then chainB (e.ip + e.len) es else none

theorem chainB_sound : ∀ (es : List Emit) (a a' : Nat), chainB a es = some a' → Chain a es a' := by
  intro es
  induction es with
  | nil => intro a a' h; simp only [chainB, Option.some.injEq] at h; exact h
  | cons e t ih =>
    intro a a' h
    simp only [chainB] at h
    split at h
    · rename_i he; exact ⟨he, ih _ _ h⟩
    · cases h

end HC
