import LZ4V.HC.HC2
namespace HC

theorem lookahead_ok (data : List UInt8) (o : Oracle) (hO : OracleOK data o) (mflimit start len back3 : Nat)
    (h : len < (lookahead o mflimit start len back3).2.len) :
    start ≤ (lookahead o mflimit start len back3).1 ∧ (lookahead o mflimit start len back3).1 ≤ start + len - back3 ∧
    VMatch data (lookahead o mflimit start len back3).1 (lookahead o mflimit start len back3).2.len (lookahead o mflimit start len back3).2.off := by
  unfold lookahead at h ⊢
  by_cases hm : start + len ≤ mflimit
  · rw [if_pos hm] at h ⊢
    exact hO.2 _ _ _ h
  · rw [if_neg hm] at h
    simp at h

theorem trim_ok (data : List UInt8) (ip : Nat) (m1 : M) (s1 : Nat) (s2 : M)
    (h1 : 4 ≤ m1.len) (h4 : ip + 4 ≤ s1) (hl : 4 ≤ s2.len) (hv : VMatch data s1 s2.len s2.off) :
    4 ≤ (trim ip m1 s1 s2).1 ∧ (trim ip m1 s1 s2).1 ≤ m1.len ∧ ip + (trim ip m1 s1 s2).1 ≤ (trim ip m1 s1 s2).2.1 ∧
    4 ≤ (trim ip m1 s1 s2).2.2.len ∧ s1 ≤ (trim ip m1 s1 s2).2.1 ∧
    (trim ip m1 s1 s2).2.1 + (trim ip m1 s1 s2).2.2.len = s1 + s2.len ∧
    ((trim ip m1 s1 s2).2.1 ≤ ip + m1.len ∨ (ip + m1.len ≤ s1 ∧ (trim ip m1 s1 s2).2 = (s1, s2))) ∧
    VMatch data (trim ip m1 s1 s2).2.1 (trim ip m1 s1 s2).2.2.len (trim ip m1 s1 s2).2.2.off := by
  have h18 : OPTIMAL_ML = 18 := rfl
  unfold trim
  by_cases hov : s1 < ip + m1.len
  · rw [if_pos hov]
    by_cases hlt : s1 - ip < OPTIMAL_ML
    · rw [if_pos hlt]
      simp only
      by_cases hbig : m1.len > OPTIMAL_ML
      · rw [if_pos hbig]
        by_cases hcl : ip + OPTIMAL_ML > s1 + s2.len - 4
        · rw [if_pos hcl]
          by_cases hc : s1 - ip + s2.len - 4 > s1 - ip
          · rw [if_pos hc]
            refine ⟨by simp only; omega, by simp only; omega, by simp only; omega, by simp only; omega, by simp only; omega, by simp only; omega, Or.inl (by simp only; omega), ?_⟩
            have := hv.advance (s1 - ip + s2.len - 4 - (s1 - ip)) (by omega)
            simpa using this
          · rw [if_neg hc]
            exact ⟨by simp only; omega, by simp only; omega, by simp only; omega, by simp only; omega, by simp only; omega, by simp only, Or.inl (by simp only; omega), hv⟩
        · rw [if_neg hcl]
          by_cases hc : OPTIMAL_ML > s1 - ip
          · rw [if_pos hc]
            refine ⟨by simp only; omega, by simp only; omega, by simp only; omega, by simp only; omega, by simp only; omega, by simp only; omega, Or.inl (by simp only; omega), ?_⟩
            have := hv.advance (OPTIMAL_ML - (s1 - ip)) (by omega)
            simpa using this
          · omega
      · rw [if_neg hbig]
        by_cases hcl : ip + m1.len > s1 + s2.len - 4
        · rw [if_pos hcl]
          by_cases hc : s1 - ip + s2.len - 4 > s1 - ip
          · rw [if_pos hc]
            refine ⟨by simp only; omega, by simp only; omega, by simp only; omega, by simp only; omega, by simp only; omega, by simp only; omega, Or.inl (by simp only; omega), ?_⟩
            have := hv.advance (s1 - ip + s2.len - 4 - (s1 - ip)) (by omega)
            simpa using this
          · rw [if_neg hc]
            exact ⟨by simp only; omega, by simp only; omega, by simp only; omega, by simp only; omega, by simp only; omega, by simp only, Or.inl (by simp only; omega), hv⟩
        · rw [if_neg hcl]
          by_cases hc : m1.len > s1 - ip
          · rw [if_pos hc]
            refine ⟨by simp only; omega, by simp only; omega, by simp only; omega, by simp only; omega, by simp only; omega, by simp only; omega, Or.inl (by simp only; omega), ?_⟩
            have := hv.advance (m1.len - (s1 - ip)) (by omega)
            simpa using this
          · omega
    · rw [if_neg hlt]
      exact ⟨by simp only; omega, by simp only; omega, by simp only; omega, by simp only; omega, by simp only; omega, by simp only, Or.inl (by simp only; omega), hv⟩
  · rw [if_neg hov]
    exact ⟨by simp only; omega, by simp only; omega, by simp only; omega, by simp only; omega, by simp only; omega, by simp only, Or.inr ⟨by omega, rfl⟩, hv⟩

end HC
