import LZ4V.HC.HCProof
/-! hash-chain parser, restated with named helpers so that lemmas can talk about each stage -/
namespace HC

/-- _Search2 / _Search3 lookahead: call the finder only if the current match ends before mflimit -/
def lookahead (o : Oracle) (mflimit : Nat) (start len : Nat) (back3 : Nat) : Nat × M :=
  if start + len ≤ mflimit then o.wider (start + len - back3) start len else (start, ⟨0, 0⟩)

/-- final-branch trimming of m1 against m2 ("OK, now we have 3 ascending matches; let's write the first one") -/
def trim (ip : Nat) (m1 : M) (start2 : Nat) (m2 : M) : Nat × Nat × M :=
  if start2 < ip + m1.len then
    if start2 - ip < OPTIMAL_ML then
      let l := if m1.len > OPTIMAL_ML then OPTIMAL_ML else m1.len
      let l := if ip + l > start2 + m2.len - 4 then start2 - ip + m2.len - 4 else l
      if l > start2 - ip then (l, start2 + (l - (start2 - ip)), (⟨m2.off, m2.len - (l - (start2 - ip))⟩ : M)) else (l, start2, m2)
    else (start2 - ip, start2, m2)
  else (m1.len, start2, m2)

/-- "start3 ≥ ip + m1.len": m2 is cut where m1 ends, or dropped in favour of m3 if it becomes too short -/
def cutOrDrop (ip : Nat) (m1 : M) (start2 : Nat) (m2 : M) (start3 : Nat) (m3 : M) : Nat × M :=
  if start2 < ip + m1.len then
    if m2.len - (ip + m1.len - start2) < 4 then (start3, m3) else (ip + m1.len, (⟨m2.off, m2.len - (ip + m1.len - start2)⟩ : M))
  else (start2, m2)

def step2 (o : Oracle) (mflimit : Nat) : PC → PC × List Emit
  | .done a => (.done a, [])
  | .main ip anchor =>
    if ip > mflimit then (.done anchor, []) else
    if (o.best ip).len < 4 then (.main (ip+1) anchor, []) else (.search2 ip anchor (o.best ip) ip (o.best ip), [])
  | .search2 ip anchor m1 start0 m0 =>
    let r := lookahead o mflimit ip m1.len 2
    if r.2.len ≤ m1.len then (.main (ip + m1.len) (ip + m1.len), [⟨anchor, ip, m1.len, m1.off⟩]) else
    let sw := start0 < ip ∧ r.1 < ip + m0.len
    let ip' := if sw then start0 else ip
    let m1' := if sw then m0 else m1
    if r.1 - ip' < 3 then (.search2 r.1 anchor r.2 start0 m0, []) else
    (.search3 ip' anchor m1' r.1 r.2 start0 m0, [])
  | .search3 ip anchor m1 start2 m2 start0 m0 =>
    let s := squeeze ip m1 start2 m2
    let r := lookahead o mflimit s.1 s.2.len 3
    if r.2.len ≤ s.2.len then
      let l1 := if s.1 < ip + m1.len then s.1 - ip else m1.len
      (.main (s.1 + s.2.len) (s.1 + s.2.len), [⟨anchor, ip, l1, m1.off⟩, ⟨ip + l1, s.1, s.2.len, s.2.off⟩])
    else if r.1 < ip + m1.len + 3 then
      if r.1 ≥ ip + m1.len then
        let c := cutOrDrop ip m1 s.1 s.2 r.1 r.2
        (.search2 r.1 (ip + m1.len) r.2 c.1 c.2, [⟨anchor, ip, m1.len, m1.off⟩])
      else (.search3 ip anchor m1 r.1 r.2 start0 m0, [])
    else
      let t := trim ip m1 s.1 s.2
      (.search3 t.2.1 (ip + t.1) t.2.2 r.1 r.2 start0 m0, [⟨anchor, ip, t.1, m1.off⟩])

/-- refined invariants (see DESIGN §5.4): the swap in _Search2 can open a gap; lengths compensate -/
def Inv2 (data : List UInt8) : PC → Prop
  | .done _ => True
  | .main ip anchor => anchor ≤ ip
  | .search2 ip anchor m1 start0 m0 =>
      anchor ≤ start0 ∧ start0 ≤ ip ∧ 4 ≤ m1.len ∧ VMatch data ip m1.len m1.off ∧ 4 ≤ m0.len ∧ VMatch data start0 m0.len m0.off ∧
      ip - start0 ≤ 2 * (m1.len - 4)
  | .search3 ip anchor m1 start2 m2 _ _ =>
      anchor ≤ ip ∧ 4 ≤ m1.len ∧ VMatch data ip m1.len m1.off ∧ ip ≤ start2 ∧ 5 ≤ m2.len ∧ VMatch data start2 m2.len m2.off ∧
      (ip + 3 ≤ start2 ∨ (7 ≤ m1.len + (start2 - ip) ∧ m1.len < m2.len)) ∧
      (start2 ≤ ip + m1.len ∨ (7 ≤ m2.len ∨ 4 + (start2 - (ip + m1.len)) ≤ m2.len))

theorem squeeze_ok2 (data : List UInt8) (ip : Nat) (m1 : M) (start2 : Nat) (m2 : M)
    (h1 : 4 ≤ m1.len) (hge : ip ≤ start2) (h5 : 5 ≤ m2.len) (hv : VMatch data start2 m2.len m2.off)
    (hA : ip + 3 ≤ start2 ∨ (7 ≤ m1.len + (start2 - ip) ∧ m1.len < m2.len)) :
    ip + 4 ≤ (squeeze ip m1 start2 m2).1 ∧ 4 ≤ (squeeze ip m1 start2 m2).2.len ∧ start2 ≤ (squeeze ip m1 start2 m2).1 ∧
    ((squeeze ip m1 start2 m2).1 ≤ ip + m1.len ∨ (squeeze ip m1 start2 m2) = (start2, m2)) ∧
    (squeeze ip m1 start2 m2).2.len ≤ m2.len ∧
    (squeeze ip m1 start2 m2).1 + (squeeze ip m1 start2 m2).2.len = start2 + m2.len ∧
    VMatch data (squeeze ip m1 start2 m2).1 (squeeze ip m1 start2 m2).2.len (squeeze ip m1 start2 m2).2.off := by
  have h18 : OPTIMAL_ML = 18 := rfl
  unfold squeeze
  by_cases hlt : start2 - ip < OPTIMAL_ML
  · rw [if_pos hlt]
    simp only
    by_cases hbig : m1.len > OPTIMAL_ML
    · rw [if_pos hbig]
      by_cases hcl : ip + OPTIMAL_ML > start2 + m2.len - 4
      · rw [if_pos hcl]
        by_cases hc : start2 - ip + m2.len - 4 > start2 - ip
        · rw [if_pos hc]
          refine ⟨by simp only; omega, by simp only; omega, by simp only; omega, Or.inl (by simp only; omega), by simp only; omega, by simp only; omega, ?_⟩
          have := hv.advance (start2 - ip + m2.len - 4 - (start2 - ip)) (by omega)
          simpa using this
        · omega
      · rw [if_neg hcl]
        by_cases hc : OPTIMAL_ML > start2 - ip
        · rw [if_pos hc]
          refine ⟨by simp only; omega, by simp only; omega, by simp only; omega, Or.inl (by simp only; omega), by simp only; omega, by simp only; omega, ?_⟩
          have := hv.advance (OPTIMAL_ML - (start2 - ip)) (by omega)
          simpa using this
        · omega
    · rw [if_neg hbig]
      by_cases hcl : ip + m1.len > start2 + m2.len - 4
      · rw [if_pos hcl]
        by_cases hc : start2 - ip + m2.len - 4 > start2 - ip
        · rw [if_pos hc]
          refine ⟨by simp only; omega, by simp only; omega, by simp only; omega, Or.inl (by simp only; omega), by simp only; omega, by simp only; omega, ?_⟩
          have := hv.advance (start2 - ip + m2.len - 4 - (start2 - ip)) (by omega)
          simpa using this
        · omega
      · rw [if_neg hcl]
        by_cases hc : m1.len > start2 - ip
        · rw [if_pos hc]
          refine ⟨by simp only; omega, by simp only; omega, by simp only; omega, Or.inl (by simp only; omega), by simp only; omega, by simp only; omega, ?_⟩
          have := hv.advance (m1.len - (start2 - ip)) (by omega)
          simpa using this
        · rw [if_neg hc]
          exact ⟨by simp only; omega, by simp only; omega, by simp only; omega, Or.inr rfl, Nat.le_refl _, rfl, hv⟩
  · rw [if_neg hlt]
    exact ⟨by simp only; omega, by simp only; omega, by simp only; omega, Or.inr rfl, Nat.le_refl _, rfl, hv⟩

end HC
