import LZ4V.HC.HC3
namespace HC

theorem step2_ok (data : List UInt8) (o : Oracle) (hO : OracleOK data o) (mflimit : Nat) (pc : PC) (h : Inv2 data pc) :
    Inv2 data (step2 o mflimit pc).1 ∧ ∀ e ∈ (step2 o mflimit pc).2, EmitOK data e := by
  cases pc with
  | done a => simp [step2, Inv2]
  | main ip anchor =>
    simp only [Inv2] at h
    simp only [step2]
    by_cases h1 : ip > mflimit
    · rw [if_pos h1]; simp [Inv2]
    · rw [if_neg h1]
      by_cases h2 : (o.best ip).len < 4
      · rw [if_pos h2]; simp [Inv2]; omega
      · rw [if_neg h2]
        have hv := hO.1 ip (by omega)
        refine ⟨?_, by simp⟩
        simp only [Inv2]
        exact ⟨h, Nat.le_refl _, by omega, hv, by omega, hv, by omega⟩
  | search2 ip anchor m1 start0 m0 =>
    obtain ⟨ha, hs0, hl1, hv1, hl0, hv0, hD⟩ := h
    simp only [step2]
    by_cases hle : (lookahead o mflimit ip m1.len 2).2.len ≤ m1.len
    · rw [if_pos hle]
      refine ⟨by simp only [Inv2]; omega, ?_⟩
      intro e he
      simp at he; subst he
      exact ⟨by simp only; omega, hl1, hv1⟩
    · rw [if_neg hle]
      obtain ⟨r1, r2, rv⟩ := lookahead_ok data o hO mflimit ip m1.len 2 (by omega)
      generalize lookahead o mflimit ip m1.len 2 = r at hle r1 r2 rv ⊢
      by_cases hsw : start0 < ip ∧ r.1 < ip + m0.len
      · simp only [hsw, and_self, if_true]
        by_cases hsm : r.1 - start0 < 3
        · rw [if_pos hsm]
          refine ⟨?_, by simp⟩
          simp only [Inv2]
          exact ⟨ha, by omega, by omega, rv, hl0, hv0, by omega⟩
        · rw [if_neg hsm]
          refine ⟨?_, by simp⟩
          simp only [Inv2]
          exact ⟨ha, hl0, hv0, by omega, by omega, rv, Or.inl (by omega), by omega⟩
      · simp only [hsw, if_false]
        by_cases hsm : r.1 - ip < 3
        · rw [if_pos hsm]
          refine ⟨?_, by simp⟩
          simp only [Inv2]
          exact ⟨ha, by omega, by omega, rv, hl0, hv0, by omega⟩
        · rw [if_neg hsm]
          refine ⟨?_, by simp⟩
          simp only [Inv2]
          exact ⟨by omega, hl1, hv1, by omega, by omega, rv, Or.inl (by omega), Or.inl (by omega)⟩
  | search3 ip anchor m1 start2 m2 start0 m0 =>
    obtain ⟨ha, hl1, hv1, hge, hl2, hv2, hA, hB⟩ := h
    obtain ⟨s4, sl, sge, sov, sle, ssum, sv⟩ := squeeze_ok2 data ip m1 start2 m2 hl1 hge hl2 hv2 hA
    simp only [step2]
    generalize squeeze ip m1 start2 m2 = s at s4 sl sge sov sle ssum sv ⊢
    by_cases hle : (lookahead o mflimit s.1 s.2.len 3).2.len ≤ s.2.len
    · rw [if_pos hle]
      refine ⟨by simp only [Inv2]; omega, ?_⟩
      intro e he
      simp at he
      rcases he with he | he
      · subst he
        by_cases hov : s.1 < ip + m1.len
        · simp only [hov, if_true]
          exact ⟨by simp only; omega, by simp only; omega, hv1.shorten (s.1 - ip) (by omega)⟩
        · simp only [hov, if_false]
          exact ⟨by simp only; omega, hl1, hv1⟩
      · subst he
        by_cases hov : s.1 < ip + m1.len
        · simp only [hov, if_true]
          exact ⟨by simp only; omega, sl, sv⟩
        · simp only [hov, if_false]
          exact ⟨by simp only; omega, sl, sv⟩
    · rw [if_neg hle]
      obtain ⟨r1, r2, rv⟩ := lookahead_ok data o hO mflimit s.1 s.2.len 3 (by omega)
      generalize lookahead o mflimit s.1 s.2.len 3 = r at hle r1 r2 rv ⊢
      by_cases hnear : r.1 < ip + m1.len + 3
      · rw [if_pos hnear]
        by_cases hge3 : r.1 ≥ ip + m1.len
        · rw [if_pos hge3]
          refine ⟨?_, ?_⟩
          · simp only [Inv2]
            unfold cutOrDrop
            by_cases hov : s.1 < ip + m1.len
            · rw [if_pos hov]
              by_cases hdrop : s.2.len - (ip + m1.len - s.1) < 4
              · rw [if_pos hdrop]
                exact ⟨by simp only; omega, by simp only; omega, by omega, rv, by simp only; omega, rv, by simp only; omega⟩
              · rw [if_neg hdrop]
                refine ⟨by simp only; omega, by simp only; omega, by omega, rv, by simp only; omega, ?_, by simp only; omega⟩
                have := sv.advance (ip + m1.len - s.1) (by omega)
                have e : s.1 + (ip + m1.len - s.1) = ip + m1.len := by omega
                simpa [e] using this
            · rw [if_neg hov]
              exact ⟨by simp only; omega, by simp only; omega, by omega, rv, by simp only; omega, sv, by simp only; omega⟩
          · intro e he
            simp at he; subst he
            exact ⟨by simp only; omega, hl1, hv1⟩
        · rw [if_neg hge3]
          refine ⟨?_, by simp⟩
          simp only [Inv2]
          exact ⟨ha, hl1, hv1, by omega, by omega, rv, Or.inl (by omega), Or.inl (by omega)⟩
      · rw [if_neg hnear]
        obtain ⟨t4, tle, tanch, tl, tge, tsum, tov, tv⟩ := trim_ok data ip m1 s.1 s.2 hl1 s4 sl sv
        generalize trim ip m1 s.1 s.2 = t at t4 tle tanch tl tge tsum tov tv ⊢
        refine ⟨?_, ?_⟩
        · simp only [Inv2]
          refine ⟨by omega, tl, tv, ?_, by omega, rv, ?_, Or.inl (by omega)⟩
          · rcases tov with h | ⟨_, h⟩
            · omega
            · have : t.2.1 = s.1 := by rw [h]
              omega
          · rcases tov with h | ⟨hno, h⟩
            · exact Or.inl (by omega)
            · have e1 : t.2.1 = s.1 := by rw [h]
              have e2 : t.2.2.len = s.2.len := by rw [h]
              rcases sov with hs | hs
              · exact Or.inl (by omega)
              · have f1 : s.1 = start2 := by rw [hs]
                have f2 : s.2.len = m2.len := by rw [hs]
                rcases hB with hB | hB | hB
                · exact Or.inl (by omega)
                · exact Or.inr ⟨by omega, by omega⟩
                · exact Or.inr ⟨by omega, by omega⟩
        · intro e he
          simp at he; subst he
          exact ⟨by simp only; omega, t4, hv1.shorten _ tle⟩

end HC

namespace HC

/-- run n steps, collecting emissions -/
def run (o : Oracle) (mflimit : Nat) : Nat → PC → PC × List Emit
  | 0, pc => (pc, [])
  | n+1, pc =>
    let r := step2 o mflimit pc
    let r' := run o mflimit n r.1
    (r'.1, r.2 ++ r'.2)

/-- For EVERY oracle honouring the contract, every input and every path through main/_Search2/_Search3:
    all emitted sequences start at or after the anchor, have matchLength ≥ MINMATCH and are byte-verified matches. -/
theorem run_ok (data : List UInt8) (o : Oracle) (hO : OracleOK data o) (mflimit : Nat) :
    ∀ (n : Nat) (pc : PC), Inv2 data pc → Inv2 data (run o mflimit n pc).1 ∧ ∀ e ∈ (run o mflimit n pc).2, EmitOK data e := by
  intro n
  induction n with
  | zero => intro pc h; exact ⟨h, by simp [run]⟩
  | succ n ih =>
    intro pc h
    obtain ⟨h1, h2⟩ := step2_ok data o hO mflimit pc h
    obtain ⟨h3, h4⟩ := ih _ h1
    refine ⟨h3, ?_⟩
    intro e he
    simp only [run, List.mem_append] at he
    rcases he with he | he
    · exact h2 e he
    · exact h4 e he

theorem hashChain_emits_ok (data : List UInt8) (o : Oracle) (hO : OracleOK data o) (mflimit n : Nat) :
    ∀ e ∈ (run o mflimit n (.main 0 0)).2, EmitOK data e :=
  (run_ok data o hO mflimit n (.main 0 0) (Nat.le_refl 0)).2

end HC
