import LZ4V.HC.HC
namespace HC

def Inv (data : List UInt8) : PC → Prop
  | .done _ => True
  | .main ip anchor => anchor ≤ ip
  | .search2 ip anchor m1 start0 m0 =>
      anchor ≤ start0 ∧ start0 ≤ ip ∧ 4 ≤ m1.len ∧ VMatch data ip m1.len m1.off ∧ 4 ≤ m0.len ∧ VMatch data start0 m0.len m0.off
  | .search3 ip anchor m1 start2 m2 _ _ =>
      anchor ≤ ip ∧ 4 ≤ m1.len ∧ VMatch data ip m1.len m1.off ∧ ip + 3 ≤ start2 ∧ start2 ≤ ip + m1.len ∧
      5 ≤ m2.len ∧ VMatch data start2 m2.len m2.off

/-- the squeeze at the top of _Search3, as a standalone function with its guarantees -/
def squeeze (ip : Nat) (m1 : M) (start2 : Nat) (m2 : M) : Nat × M :=
  if start2 - ip < OPTIMAL_ML then
    let new_ml := if m1.len > OPTIMAL_ML then OPTIMAL_ML else m1.len
    let new_ml := if ip + new_ml > start2 + m2.len - 4 then start2 - ip + m2.len - 4 else new_ml
    if new_ml > start2 - ip then (start2 + (new_ml - (start2 - ip)), (⟨m2.off, m2.len - (new_ml - (start2 - ip))⟩ : M)) else (start2, m2)
  else (start2, m2)

theorem squeeze_ok (data : List UInt8) (ip : Nat) (m1 : M) (start2 : Nat) (m2 : M)
    (h1 : 4 ≤ m1.len) (h3 : ip + 3 ≤ start2) (hle : start2 ≤ ip + m1.len) (h5 : 5 ≤ m2.len) (hv : VMatch data start2 m2.len m2.off) :
    ip + 4 ≤ (squeeze ip m1 start2 m2).1 ∧ (squeeze ip m1 start2 m2).1 ≤ ip + m1.len ∧ 4 ≤ (squeeze ip m1 start2 m2).2.len ∧
    start2 ≤ (squeeze ip m1 start2 m2).1 ∧
    VMatch data (squeeze ip m1 start2 m2).1 (squeeze ip m1 start2 m2).2.len (squeeze ip m1 start2 m2).2.off := by
  have h18 : OPTIMAL_ML = 18 := rfl
  unfold squeeze
  by_cases hlt : start2 - ip < OPTIMAL_ML
  · rw [if_pos hlt]
    simp only
    by_cases hbig : m1.len > OPTIMAL_ML
    · rw [if_pos hbig]
      by_cases hcl : ip + OPTIMAL_ML > start2 + m2.len - 4
      · rw [if_pos hcl]
        by_cases hc : start2 - ip + m2.len - 4 > start2 - ip
        · rw [if_pos hc]
          refine ⟨by simp only; omega, by simp only; omega, by simp only; omega, by simp only; omega, ?_⟩
          have := hv.advance (start2 - ip + m2.len - 4 - (start2 - ip)) (by omega)
          simpa using this
        · omega
      · rw [if_neg hcl]
        by_cases hc : OPTIMAL_ML > start2 - ip
        · rw [if_pos hc]
          refine ⟨by simp only; omega, by simp only; omega, by simp only; omega, by simp only; omega, ?_⟩
          have := hv.advance (OPTIMAL_ML - (start2 - ip)) (by omega)
          simpa using this
        · omega
    · rw [if_neg hbig]
      by_cases hcl : ip + m1.len > start2 + m2.len - 4
      · rw [if_pos hcl]
        by_cases hc : start2 - ip + m2.len - 4 > start2 - ip
        · rw [if_pos hc]
          refine ⟨by simp only; omega, by simp only; omega, by simp only; omega, by simp only; omega, ?_⟩
          have := hv.advance (start2 - ip + m2.len - 4 - (start2 - ip)) (by omega)
          simpa using this
        · omega
      · rw [if_neg hcl]
        by_cases hc : m1.len > start2 - ip
        · rw [if_pos hc]
          refine ⟨by simp only; omega, by simp only; omega, by simp only; omega, by simp only; omega, ?_⟩
          have := hv.advance (m1.len - (start2 - ip)) (by omega)
          simpa using this
        · rw [if_neg hc]
          exact ⟨by simp only; omega, by simp only; omega, by simp only; omega, by simp only; omega, hv⟩
  · rw [if_neg hlt]
    exact ⟨by simp only; omega, by simp only; omega, by simp only; omega, by simp only; omega, hv⟩

end HC
