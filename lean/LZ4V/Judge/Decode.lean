import LZ4V.Judge.Block
import LZ4V.Model.Decode
import Std.Data.HashMap
/-!
# Judge for decoder records (op 2)

args: mode, fastLoop, placement, cap, target, initSeed, src, dictSize, ret, out, flags, expectSize, trueBlk.
1. correspondence: the decoder *model* (`Model.Decode`, the object of the C02/C05/C16 theorems) is run on the same
   call; the API-visible observables (sign of the return value, its value and `dst[0,ret)` on success) must agree.
2. property on the implementation's behaviour, judged by the specification (`Spec.BlockA`):
   forward (valid block ⇒ exact content), converse (success ⇒ specified content), partial-decoding contract.
-/
namespace LZ4V.Judge
open LZ4V.Spec LZ4V.Model

def initByte (i s : Nat) : UInt8 := UInt8.ofNat ((0xA5 ^^^ (i * 13 + s)) % 256)
def mkInit (cap s : Nat) : Bytes := Array.ofFn (n := cap) (fun i => initByte i.val s)

def prefixEq (a : Bytes) (b : ByteArray) (n : Nat) : Bool := Id.run do
  if a.size < n || b.size < n then return false
  for i in [0:n] do
    if a[i]! != b.get! i then return false
  return true

def judgeDecode (blobs : Std.HashMap Nat ByteArray) (r : Rec) : Verdict := Id.run do
  let mode := r.nat 0
  let fastLoop := r.nat 1 != 0
  let placement := if r.nat 2 == 0 then Decode.Placement.contiguous else Decode.Placement.external
  let cap := r.nat 3
  let target := (r.int 4).toNat
  let initSeed := r.nat 5
  let src := r.bytes 6
  let dictSize := r.nat 7
  let ret := r.int 8
  let out := r.bytes 9
  let flags := r.nat 10
  let trueBlk := r.nat 12
  let blob := blobs.getD 1 ByteArray.empty
  let dict := blob.extract (blob.size - dictSize) blob.size
  let mut v : Verdict := {}
  let isPartial := mode == 1 || mode == 3
  let isFast := mode == 6 || mode == 7
  -- 1. correspondence with the model ------------------------------------------------------------
  if !isFast then
    let dstInit := mkInit cap initSeed
    let srcA : Bytes := src.data
    let dictA : Bytes := dict.data
    let res :=
      match mode with
      | 0 => Decode.decompress_safe fastLoop srcA dstInit
      | 1 => Decode.decompress_safe_partial fastLoop srcA dstInit target
      | 3 => Decode.decompress_safe_partial_usingDict fastLoop srcA dstInit dictA placement target
      | _ => Decode.decompress_safe_usingDict fastLoop srcA dstInit dictA placement   -- usingDict and the continue geometries
    match res with
    | .error e => v := { v with fails := ("model_fault", s!"model reports {repr e}; real ret={ret}") :: v.fails }
    | .ok m =>
      if (m.ret < 0) != (ret < 0) then
        v := { v with fails := ("model_mismatch_verdict", s!"model ret={m.ret} real ret={ret}") :: v.fails }
      else if ret ≥ 0 then
        if m.ret != ret then v := { v with fails := ("model_mismatch_ret", s!"model ret={m.ret} real ret={ret}") :: v.fails }
        else if !prefixEq m.buf out ret.toNat then v := { v with fails := ("model_mismatch_bytes", s!"ret={ret}") :: v.fails }
  -- 2. the property, judged by the specification -----------------------------------------------
  let blk := src.extract 0 (min trueBlk src.size)
  let spec := BlockA.decodeA dict blk (cap + 80000)
  let limit := if isPartial then min target cap else cap
  if !isFast && ret > 0 && ret.toNat > limit then v := { v with fails := ("ret_gt_limit", s!"ret={ret} limit={limit}") :: v.fails }
  match spec with
  | .ok (d, sm) =>
    -- the document names exactly one representation of empty content: the single zero byte
    let wellFormed := BlockA.endConditionsA sm && (sm.nseq == 0 || sm.maxOff ≤ 65535) && (d.size > 0 || (blk.size == 1 && blk.get! 0 == 0))
    v := { v with tags := [s!"mode.{mode}", if wellFormed then "spec.valid" else "spec.seq_ok_end_bad",
                            if sm.nseq > 0 && sm.minOff < 8 then "off.lt8" else if sm.nseq > 0 && sm.minOff < 16 then "off.lt16" else "off.ge16",
                            if dictSize == 0 then "dict.none" else if dictSize < 65535 then "dict.small" else "dict.64k",
                            if sm.maxMl > 18 then "ml.long" else "ml.short", if ret < 0 then "ret.neg" else "ret.ok"] }
    if trueBlk == src.size then
      if !isPartial && !isFast then
        -- forward: a well-formed block must decode exactly, for any capacity ≥ |D|
        if wellFormed && cap ≥ d.size then
          if ret != d.size then v := { v with fails := ("valid_block_rejected", s!"|D|={d.size} cap={cap} ret={ret}") :: v.fails }
          else if out != d then v := { v with fails := ("valid_block_wrong_bytes", s!"|D|={d.size}") :: v.fails }
        -- converse: success ⇒ exactly the specified content
        if ret ≥ 0 && (ret != d.size || out != d) then
          v := { v with fails := ("false_success", s!"ret={ret} but specification gives {d.size} bytes") :: v.fails }
    if isPartial && wellFormed then
      let want := min target d.size
      if cap ≥ want && (trueBlk == src.size || target ≤ d.size) then
        if ret != want then v := { v with fails := ("partial_wrong_size", s!"target={target} |D|={d.size} cap={cap} ret={ret} trailing={src.size - trueBlk}") :: v.fails }
        else if out != d.extract 0 want then v := { v with fails := ("partial_wrong_bytes", s!"target={target} |D|={d.size}") :: v.fails }
  | .error e =>
    v := { v with tags := [s!"mode.{mode}", "spec.invalid", if ret < 0 then "ret.neg" else "ret.ok", if dictSize == 0 then "dict.none" else "dict.some"] }
    if ret ≥ 0 && !isPartial && !isFast && trueBlk == src.size then
      -- success on a block the specification rejects: the only tolerated deviation is offset 0 (finding F7a)
      match BlockA.decodeZ dict blk (cap + 80000) with
      | .ok (dz, _) =>
        if ret == dz.size && out == dz then v := { v with fails := ("accepts_offset_zero", s!"specification: {repr e}; decoder zero-filled, ret={ret}") :: v.fails }
        else v := { v with fails := ("false_success", s!"specification: {repr e}; ret={ret}") :: v.fails }
      | .error _ => v := { v with fails := ("false_success", s!"specification: {repr e}; ret={ret}") :: v.fails }
  return v

end LZ4V.Judge
