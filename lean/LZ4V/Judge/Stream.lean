import LZ4V.Judge.Block
/-!
# Judge for streaming / dictionary block records (op 6)

args: family (0 fast, 1 HC), level, what (0 continue, 1 fast-reset one-shot, 2 continue_destSize, 3 continue after destSize),
hist (the logical history the decoder is entitled to: last ≤ 64 KB), src, block.
The block must decode, by the specification decoder given `hist`, to exactly `src`, and respect the end-of-block rules.
-/
namespace LZ4V.Judge
open LZ4V.Spec

def judgeStreamBlock (r : Rec) : Verdict := Id.run do
  let family := r.nat 0
  let what := r.nat 2
  let hist := r.bytes 3
  let src := r.bytes 4
  let blk := r.bytes 5
  let mut v : Verdict := {}
  match BlockA.decodeA hist blk (src.size + 64) with
  | .error e => v := { v with fails := ("stream_block_spec_decode_fails", s!"what={what} {repr e}") :: v.fails }
  | .ok (d, sm) =>
    if d != src then v := { v with fails := ("stream_block_spec_decode_mismatch", s!"what={what} decoded {d.size} want {src.size}") :: v.fails }
    if !BlockA.endConditionsA sm then v := { v with fails := ("end_conditions", s!"lastLits={sm.lastLits} lastMl={sm.lastMl}") :: v.fails }
    v := { v with tags := [s!"family.{family}", s!"what.{what}", if hist.size == 0 then "hist.none" else if hist.size < 65536 then "hist.partial" else "hist.full",
                            if sm.nseq == 0 then "lit_only" else if sm.maxOff > src.size then "reaches_history" else "in_block",
                            if src.size < 13 then "tiny" else if src.size < 4096 then "small" else if src.size < 65536 then "mid" else "big"] }
  return v

end LZ4V.Judge
