/-!
# Case-record reader for the judge (`lz4vmodel`)

Record format (little endian), written by `harness/gen.h`:
`u32 magic 'Z4CV' | u32 op | u32 caseId | u32 nargs | nargs × { u32 len | bytes }`
-/
namespace LZ4V.Judge

structure Rec where
  op   : Nat
  id   : Nat
  args : Array ByteArray
  start : Nat        -- byte range of the record in the case file (for replay extraction)
  stop  : Nat

def rdU32 (b : ByteArray) (i : Nat) : Nat :=
  (b.get! i).toNat + 256 * (b.get! (i+1)).toNat + 65536 * (b.get! (i+2)).toNat + 16777216 * (b.get! (i+3)).toNat

/-- 8-byte little-endian two's complement integer argument -/
def argInt (a : ByteArray) : Int :=
  let u := (List.range 8).foldl (fun acc j => acc + (a.get! j).toNat <<< (8*j)) 0
  if u ≥ 2^63 then (u : Int) - 2^64 else (u : Int)

def Rec.int (r : Rec) (i : Nat) : Int := argInt (r.args[i]!)
def Rec.nat (r : Rec) (i : Nat) : Nat := (r.int i).toNat
def Rec.bytes (r : Rec) (i : Nat) : ByteArray := r.args[i]!

/-- parse the record starting at `pos`; `none` at end of file or on a malformed record -/
def readRec (b : ByteArray) (pos : Nat) : Option Rec := Id.run do
  if pos + 16 > b.size then return none
  if rdU32 b pos != 0x5643345A then return none
  let op := rdU32 b (pos+4)
  let id := rdU32 b (pos+8)
  let n := rdU32 b (pos+12)
  let mut p := pos + 16
  let mut args : Array ByteArray := #[]
  for _ in [0:n] do
    if p + 4 > b.size then return none
    let len := rdU32 b p
    if p + 4 + len > b.size then return none
    args := args.push (b.extract (p+4) (p+4+len))
    p := p + 4 + len
  return some { op, id, args, start := pos, stop := p }

def hex (b : ByteArray) (maxBytes : Nat := 64) : String := Id.run do
  let digits := "0123456789abcdef".toList.toArray
  let mut s := ""
  for i in [0:min b.size maxBytes] do
    let v := (b.get! i).toNat
    s := s.push digits[v / 16]! |>.push digits[v % 16]!
  if b.size > maxBytes then s := s ++ "…"
  return s

end LZ4V.Judge
