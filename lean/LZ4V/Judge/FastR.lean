import LZ4V.Judge.Rec
import LZ4V.Model.FastR
import LZ4V.Gen.Funcs
/-! # Judge op 11: a history of `LZ4_compress_fast_extState_fastReset` calls on one state, replayed by `Model/FastR.lean`:
    every return value and every block must be the model's -/
namespace LZ4V.Judge
open LZ4V.Model

def judgeFastResetHistory (r : Rec) : List (String × String) × List String := Id.run do
  let nc := r.nat 0
  let mut S : FastR.RState := {}
  let mut fails : List (String × String) := []
  let mut kept := 0
  for k in [0:nc] do
    let src := r.bytes (1 + 5 * k)
    let acc := r.int (2 + 5 * k)
    let cap := r.int (3 + 5 * k)
    let ret := r.int (4 + 5 * k)
    let out := r.bytes (5 + 5 * k)
    let n := src.size
    let bound := (LZ4V.Gen.LZ4_compressBound n).toNat
    let capN : Nat := if cap < 0 then 0 else cap.toNat
    let before := S.currentOffset
    let res := FastR.call (fun s b => Fast.realHash s b) S src.data acc capN bound
    S := res.1
    if before != 0 && S.currentOffset == before + n then kept := kept + 1
    if fails.isEmpty then
      match res.2, decide (ret > 0) with
      | some blk, true =>
        if blk != out.toList then fails := [("model_fastreset_output_differs", s!"call {k} of {nc} (n={n} accel={acc} cap={cap}, currentOffset before={before}): model block {blk.length} bytes, real {out.size} bytes")]
      | some blk, false =>
        if ret == 0 then fails := [("model_fastreset_output_differs", s!"call {k} of {nc} (n={n} cap={cap}): model succeeds with {blk.length} bytes, real returns 0")]
      | none, true => fails := [("model_fastreset_output_differs", s!"call {k} of {nc} (n={n} cap={cap}): model returns 0, real returns {ret}")]
      | none, false => pure ()
  return (fails, [if kept > 0 then "fastreset.table_kept" else "fastreset.always_reset", s!"fastreset.calls.{if nc ≤ 4 then "few" else "many"}"])

end LZ4V.Judge
