import LZ4V.Judge.Rec
import LZ4V.Model.Sparse
/-! # Judge op 10: the sparse-writer model on the same buffers must return the same `storedSkips` after every call and
    leave the same file; the file must equal the concatenation of the buffers -/
namespace LZ4V.Judge
open LZ4V.Model

def rd32 (b : ByteArray) (i : Nat) : Nat :=
  (b.get! i).toNat + 256 * (b.get! (i+1)).toNat + 65536 * (b.get! (i+2)).toNat + 16777216 * (b.get! (i+3)).toNat

def judgeSparse (r : Rec) : List (String × String) × List String := Id.run do
  let nb := r.nat 0
  let lens := r.bytes 1
  let all := (r.bytes 2).toList
  let rets := r.bytes 3
  let file := (r.bytes 4).toList
  let mut st : Nat × Sparse.SFile := (0, {})
  let mut rest := all
  let mut fails : List (String × String) := []
  let mut bufs : List (List UInt8) := []
  for i in [0:nb] do
    let n := rd32 lens (4*i)
    let buf := rest.take n
    rest := rest.drop n
    bufs := bufs ++ [buf]
    st := Sparse.fwriteSparse st buf
    if st.1 != rd32 rets (4*i) && fails.isEmpty then
      fails := [("model_sparse_skips_differs", s!"call {i} (size {n}): model storedSkips={st.1} real={rd32 rets (4*i)}")]
  let fin := Sparse.sparseEnd st
  if fin.content != file && fails.isEmpty then
    fails := [("model_sparse_file_differs", s!"model file {fin.content.length} bytes (hole {fin.hole}), real file {file.length} bytes")]
  if file != all then
    fails := ("sparse_output_differs_from_plain", s!"file {file.length} bytes, buffers {all.length} bytes") :: fails
  let endsZero := match all.getLast? with | some 0 => true | _ => false
  return (fails, [if nb == 0 then "sparse.nobuf" else if endsZero then "sparse.ends_with_zeros" else "sparse.ends_with_data",
                  if all.length % 8 == 0 then "sparse.aligned" else "sparse.tail"])

end LZ4V.Judge
