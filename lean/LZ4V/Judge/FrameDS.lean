import LZ4V.Judge.Rec
import LZ4V.Model.FrameDS
import LZ4V.Model.Decode
import LZ4V.Spec.FrameLExec
import Std.Data.HashMap
/-!
# Judge for `LZ4F_decompress` call traces (op 12)

args: skipChecksums, dictSize, input bytes, trace (per call 7 × u64: offered, capacity, consumed, produced, return value, sizes of the tmpIn and
tmpOutBuffer allocations after the call), all output bytes, verdict, policy, allocator logged (0/1), the two allocation sizes before the first call.  The dStage model (`Model/FrameDS.lean`) is run from a fresh context on the same schedule of (offered, capacity); every
call must consume and produce the same number of bytes and return the same hint / error code, and the produced bytes must be the same.
The block decoder of the model's environment is the decoder MODEL (`Model/Decode.lean`, byte-exact mirror of `LZ4_decompress_generic`),
the checksum is the XXH32 specification.
-/
namespace LZ4V.Judge
open LZ4V.Model

def rdU64 (b : ByteArray) (i : Nat) : Nat := rdU32 b i + 4294967296 * rdU32 b (i + 4)

/-- `LZ4_decompress_safe_usingDict(payload, dst, |payload|, cap, hist, |hist|)` through the decoder model -/
def modelDec (hist payload : List UInt8) (cap : Nat) : Option (List UInt8) :=
  -- a block of n bytes decodes to fewer than 255 n bytes: beyond that the capacity cannot influence the decoder (no end-of-buffer test fires)
  match Decode.decompress_safe_usingDict true payload.toArray (Array.replicate (min cap (255 * payload.length + 64)) 0) hist.toArray .external with
  | .ok r => if r.ret < 0 then none else some ((r.buf.extract 0 r.ret.toNat).toList)
  | .error _ => none

def dsEnv : LZ4V.Spec.FrameL.Env := { hash := LZ4V.Spec.FrameL.xxhEnv.hash, dec := modelDec }

def stageName (s : FrameDS.Stage) : String := (reprStr s).replace "LZ4V.Model.FrameDS.Stage." ""

def judgeFrameTrace (blobs : Std.HashMap Nat ByteArray) (r : Rec) : List (String × String) × List String := Id.run do
  let skip := r.nat 0 != 0
  let dictSize := r.nat 1
  let input := r.bytes 2
  let trace := r.bytes 3
  let out := r.bytes 4
  let policy := r.nat 6
  let blob := blobs.getD 1 ByteArray.empty
  let dict := (blob.extract (blob.size - dictSize) blob.size).toList
  let logged := r.args.size > 9 && r.nat 7 == 1
  let ncalls := trace.size / 56
  let mut c : FrameDS.Ctx := if logged then { tmpInCap := r.nat 8, maxBufferSize := r.nat 9 } else {}
  let mut ip := 0
  let mut op := 0
  let mut rest := input.toList
  let mut stages : List String := []
  for i in [0:ncalls] do
    let offered := rdU64 trace (56 * i)
    let cap := rdU64 trace (56 * i + 8)
    let used := rdU64 trace (56 * i + 16)
    let produced := rdU64 trace (56 * i + 24)
    let ret := rdU64 trace (56 * i + 32)
    let src := if offered ≥ input.size - ip then rest else rest.take offered
    let stageBefore := c.stage
    let res := if dictSize > 0 then FrameDS.decompressUsingDict dsEnv c src cap dict skip else FrameDS.decompress dsEnv c src cap skip
    let realRet : FrameDS.Ret := if ret ≥ 2^64 - 64 then .error (2^64 - ret) else .hint ret
    if res.ret != realRet then
      return ([("model_dstage_differs", s!"call {i} (policy {policy}, stage {stageName stageBefore}, offered {offered}, capacity {cap}): model returns {repr res.ret}, real code {repr realRet}")], [])
    if res.consumed != used || res.out.length != produced then
      return ([("model_dstage_differs", s!"call {i} (policy {policy}, stage {stageName stageBefore}, offered {offered}, capacity {cap}): model consumes {res.consumed} and produces {res.out.length}, real code {used} and {produced}")], [])
    if res.out != (out.extract op (op + produced)).toList then
      return ([("model_dstage_differs", s!"call {i} (policy {policy}, stage {stageName stageBefore}): the {produced} bytes produced differ")], [])
    if logged && (res.c.tmpInCap != rdU64 trace (56 * i + 40) || res.c.maxBufferSize != rdU64 trace (56 * i + 48)) then
      return ([("model_dstage_differs", s!"call {i} (policy {policy}, stage {stageName stageBefore}): internal buffers: model has tmpIn {res.c.tmpInCap} / tmpOutBuffer {res.c.maxBufferSize} bytes, real code allocated {rdU64 trace (56 * i + 40)} / {rdU64 trace (56 * i + 48)}")], [])
    if !stages.contains (stageName stageBefore) then stages := stageName stageBefore :: stages
    c := res.c
    ip := ip + used
    op := op + produced
    rest := rest.drop used
  let final := match c.stage with | .getFrameHeader => "at_frame_start" | _ => "mid_frame"
  return ([], ["dstrace.same", s!"dstrace.policy{policy}", s!"dstrace.end.{final}"] ++ stages.map (fun s => "dstrace.entered." ++ s))

end LZ4V.Judge
