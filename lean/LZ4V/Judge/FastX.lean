import LZ4V.Judge.Rec
import LZ4V.Model.FastX
import LZ4V.Gen.Funcs
/-! # Judge op 16: a life of one `LZ4_stream_t` with sources placed anywhere (addresses recorded), replayed by `Model/FastX.lean`:
    every return value and every block must be the model's -/
namespace LZ4V.Judge
open LZ4V.Model

def judgePlacedStream (r : Rec) : List (String × String) × List String := Id.run do
  let nops := r.nat 0
  -- the state the life starts from (a fresh stream, or the real state dumped in the middle of a long life)
  let tb := r.bytes 1
  let tbl0 : Array Nat := if tb.size > 0 then (Array.range LZ4V.Gen.LZ4_HASH_SIZE_U32).map (fun i => (tb.data.getD (4*i) 0).toNat + 256 * (tb.data.getD (4*i+1) 0).toNat + 65536 * (tb.data.getD (4*i+2) 0).toNat + 16777216 * (tb.data.getD (4*i+3) 0).toNat)
                         else Array.replicate LZ4V.Gen.LZ4_HASH_SIZE_U32 0
  let mut S : FastX.XState := { tbl := tbl0, currentOffset := r.nat 2, dictAddr := r.nat 3, dict := (r.bytes 4).data, used := r.nat 5 != 0 }
  let mut fails : List (String × String) := []
  -- the hypothesis of the theorems (`JX`), checked on the real state
  if tbl0.any (fun v => v > S.currentOffset) || S.dict.size > S.currentOffset then fails := [("stream_state_invariant_broken", s!"dumped state: a table entry or dictSize={S.dict.size} exceeds currentOffset={S.currentOffset}")]
  let mut nRenorm := 0
  let mut i := 6
  let mut tags : List String := []
  let mut nPrefix := 0
  let mut nExt := 0
  let mut nTrim := 0
  let mut nTiny := 0
  for k in [0:nops] do
    let kind := r.nat i
    if kind == 0 then
      let addr := r.nat (i + 1)
      let data := r.bytes (i + 2)
      let acc := r.int (i + 3)
      let cap := r.int (i + 4)
      let ret := r.int (i + 5)
      let out := r.bytes (i + 6)
      i := i + 7
      let capN : Nat := if cap < 0 then 0 else cap.toNat
      let a := FastX.adjust S addr data.size
      if S.dctx.isSome && data.size > 0 then tags := (if data.size > 4096 then "xstream.attached_copy_path" else "xstream.attached_two_tables") :: tags
      if S.currentOffset + data.size > 0x80000000 then nRenorm := nRenorm + 1
      if a.2 then nPrefix := nPrefix + 1 else nExt := nExt + 1
      let ds1 := (FastX.renorm S data.size).dict.size
      if a.1.dict.size < ds1 then
        if a.1.dict.size == 0 && ds1 < 4 then nTiny := nTiny + 1 else nTrim := nTrim + 1
      let res := FastX.compress (fun s b => Fast.realHash s b) S addr data.data acc capN
      if fails.isEmpty then
        match res.2, decide (ret > 0) with
        | some blk, true =>
          if blk != out.toList then fails := [("model_stream_output_differs", s!"op {k} of {nops}: compress n={data.size} accel={acc} cap={cap} {if a.2 then "prefix" else "extDict"} mode, dictSize={a.1.dict.size} currentOffset={a.1.currentOffset}: model block {blk.length} bytes, real {out.size} bytes")]
        | some blk, false =>
          if ret == 0 then fails := [("model_stream_output_differs", s!"op {k} of {nops}: compress n={data.size} cap={cap}: model succeeds with {blk.length} bytes, real returns 0")]
        | none, true => fails := [("model_stream_output_differs", s!"op {k} of {nops}: compress n={data.size} cap={cap}: model returns 0, real returns {ret}")]
        | none, false => pure ()
      S := res.1
    else if kind == 1 then
      let addr := r.nat (i + 1)
      let want := r.nat (i + 2)
      let ret := r.int (i + 3)
      i := i + 4
      let res := FastX.saveDict S addr want
      if fails.isEmpty && ret != Int.ofNat res.2 then fails := [("model_stream_output_differs", s!"op {k} of {nops}: LZ4_saveDict({want}) returns {ret}, model {res.2} (dictSize={S.dict.size})")]
      S := res.1
    else if kind == 2 then
      let addr := r.nat (i + 1)
      let d := r.bytes (i + 2)
      let slow := r.nat (i + 3)
      let ret := r.int (i + 4)
      i := i + 5
      let res := FastX.loadDict (fun s b => Fast.realHash s b) addr d.data (slow != 0)
      if fails.isEmpty && ret != Int.ofNat res.2 then fails := [("model_stream_output_differs", s!"op {k} of {nops}: LZ4_loadDict({d.size}) returns {ret}, model {res.2}")]
      S := res.1
      tags := (if slow != 0 then "xstream.loadDictSlow" else "xstream.loadDict") :: tags
    else if kind == 4 then
      let addr := r.nat (i + 1)
      let d := r.bytes (i + 2)
      let slow := r.nat (i + 3)
      i := i + 4
      S := (FastX.step (fun s b => Fast.realHash s b) S (.attach addr d.data (slow != 0))).1
      tags := "xstream.attach" :: tags
    else
      i := i + 1
      S := FastX.reset S
  return (fails, [s!"xstream.prefix_calls.{if nPrefix == 0 then "0" else "some"}", s!"xstream.extdict_calls.{if nExt == 0 then "0" else "some"}",
                  if nTrim > 0 then "xstream.dictionary_trimmed_by_overlap" else "xstream.no_trim", if nTiny > 0 then "xstream.tiny_dictionary_dropped" else "xstream.no_tiny", if nRenorm > 0 then "xstream.index_rescaled_at_2GiB" else "xstream.no_rescale", if tb.size > 0 then "xstream.starts_from_dumped_state" else "xstream.starts_fresh"] ++ tags.eraseDups)

end LZ4V.Judge
