import LZ4V.Judge.Block
import LZ4V.Spec.Frame
import Std.Data.HashMap
import LZ4V.Model.FrameC
import LZ4V.Model.FrameD
import LZ4V.Spec.FrameLExec
import LZ4V.Model.FrameFast
import LZ4V.Model.FrameLinked
/-!
# Judge for frame records

op 3 (a frame produced by the real LZ4F API): kind, 9 preference fields, dictSize, dictKind, input, frame.
  The frame must be accepted by the independent parser, end exactly at its last byte, decode to the input, carry the
  header fields the preferences ask for, and store a block compressed only when that made it smaller.
op 4 (real `LZ4F_decompress` on arbitrary bytes): skipChecksums, dictSize, bytes, verdict, consumed, out.
  "complete" must coincide with the specification's verdict, output and frame end.
op 5 (regenerated Gen function vs the C function, sampled arguments): fn, a, b, c, d, e, result.
-/
namespace LZ4V.Judge
open LZ4V.Spec LZ4V.Spec.Frame

def dictOf (blobs : Std.HashMap Nat ByteArray) (dictSize : Nat) : ByteArray :=
  let blob := blobs.getD 1 ByteArray.empty
  blob.extract (blob.size - dictSize) blob.size

/-- correspondence of the buffering state machine: the call history recorded by the harness is replayed on
    `Model.FrameC`; the sizes of the blocks it predicts must be the decoded sizes of the blocks of the real frame -/
def judgeFrameOps (r : Rec) (parsedSizes : List Nat) (bs : Nat) (autoFlush : Bool) : List (String × String) := Id.run do
  if r.args.size < 15 then return []
  let ops := r.bytes 14
  let input := r.bytes 12
  if ops.size == 0 || input.size > 3000000 then return []
  let inp := input.toList
  let mut p := 0
  let mut pos := 0
  let mut hist : List LZ4V.Model.FrameC.Op := []
  while p < ops.size do
    let code := ops.get! p
    if code == 70 then
      hist := .flush :: hist; p := p + 1
    else if code == 119 then     -- one LZ4F_write call (lz4file.c): maxWriteSize = the block size
      let n := rdLE ops (p+1) 4
      hist := (LZ4V.Model.FrameC.writeOps bs [(inp.drop pos).take n]).reverse ++ hist
      pos := pos + n; p := p + 5
    else
      let n := rdLE ops (p+1) 4
      hist := .update ((inp.drop pos).take n) (code == 117) :: hist
      pos := pos + n; p := p + 5
  let full := (LZ4V.Model.FrameC.Op.begin bs autoFlush :: hist.reverse) ++ [.finish]
  match LZ4V.Model.FrameC.run {} full with
  | .error _ => return [("frame_model_rejects_history", s!"ops={ops.size} bytes")]
  | .ok (_, blocks) =>
    let sizes := blocks.map (·.length)
    if sizes != parsedSizes then
      return [("frame_block_structure_differs_from_model", s!"model blocks {sizes.take 12} real blocks {parsedSizes.take 12} (counts {sizes.length} vs {parsedSizes.length})")]
    return []

/-- record kind 5 (fresh context, fast level, independent blocks, no dictionary, compressed updates only): the end-to-end model
    `Model/FrameFast.lean` (proved to parse back to the input) must produce the very same frame bytes -/
def judgeFrameModel (r : Rec) : List (String × String) × List String := Id.run do
  if r.args.size < 15 then return ([], [])
  let input := r.bytes 12
  let frame := r.bytes 13
  let ops := r.bytes 14
  if ops.size == 0 || input.size > 300000 || frame.size == 0 then return ([], ["framemodel.skipped"])
  let bsidReq := r.nat 1
  let p : LZ4V.Model.FrameFast.Prefs := LZ4V.Model.FrameFast.Prefs.mk (if bsidReq == 0 then 4 else bsidReq) (r.nat 4 == 1) (r.nat 3 == 1) (rdLE (r.bytes 5) 0 8) (r.nat 6) (r.int 7) (r.nat 8 != 0)
  let inp := input.toList
  let mut pc := 0
  let mut pos := 0
  let mut hist : List LZ4V.Model.FrameC.Op := []
  while pc < ops.size do
    let code := ops.get! pc
    if code == 70 then
      hist := .flush :: hist; pc := pc + 1
    else
      let n := rdLE ops (pc+1) 4
      if code == 117 then return ([], ["framemodel.skipped"])      -- an uncompressed update: not modelled
      hist := .update ((inp.drop pos).take n) false :: hist
      pos := pos + n; pc := pc + 5
  -- the LZ4 state of the context when the first block arrives (dumped from the real context; empty: no block was ever compressed)
  let ini := if r.args.size > 15 then r.bytes 15 else ByteArray.empty
  let tt := if ini.size ≥ 8 then rdLE ini 4 4 else 0
  let S0 : LZ4V.Model.FastR.RState :=
    if ini.size ≥ 8 + 4 * LZ4V.Gen.LZ4_HASH_SIZE_U32 && tt != 0 then
      (if tt == 3 then { tbl := (Array.range (2 * LZ4V.Gen.LZ4_HASH_SIZE_U32)).map (fun i => rdLE ini (8 + 2 * i) 2), currentOffset := rdLE ini 0 4, tableType := .byU16 }
       else { tbl := (Array.range LZ4V.Gen.LZ4_HASH_SIZE_U32).map (fun i => rdLE ini (8 + 4 * i) 4), currentOffset := rdLE ini 0 4, tableType := .byU32 })
    else {}
  -- the hypothesis of the theorem (`FastR.J`), checked on the real state
  if ini.size ≥ 8 && (S0.tbl.any (fun v => v > S0.currentOffset) || (tt == 0 && rdLE ini 0 4 != 0) || tt == 1) then
    return ([("stream_state_invariant_broken", s!"independent-blocks frame: the LZ4 state of the context at the first block: tableType={tt} currentOffset={rdLE ini 0 4} or a table entry above currentOffset")], [])
  match LZ4V.Model.FrameFast.frameOfOpsFrom LZ4V.Spec.FrameL.xxhEnv (fun s b => LZ4V.Model.Fast.realHash s b) p S0 hist.reverse with
  | none => return ([("model_frame_bytes_differs", "the model refuses this call history")], [])
  | some f =>
    if f != frame.toList then
      let d := (List.range (min f.length frame.size)).find? (fun i => f.getD i 0 != frame.get! i)
      return ([("model_frame_bytes_differs", s!"model frame {f.length} bytes, real frame {frame.size} bytes, first difference at {d} (bsid={p.bsid} level={p.level} bcrc={p.blockChecksum} ccrc={p.contentChecksum} csize={p.contentSize} dictID={p.dictID} autoFlush={p.autoFlush})")], [])
    return ([], ["framemodel.same", if tt == 0 then "framemodel.fresh_state" else if tt == 3 then "framemodel.reused_state_byU16" else "framemodel.reused_state_byU32"])

/-- record kind 6 (fresh context, fast level, LINKED blocks, no dictionary, compressed updates only): the schedule logged by the interposed
    `LZ4_compress_fast_continue` / `LZ4_saveDict` calls is replayed by `Model/FrameLinked.lean`; the frame bytes must be the model's, the blocks of the
    schedule must spell out the input, every logged return value must be the stream model's -/
def judgeFrameLinked (r : Rec) (oneShot : Bool := false) : List (String × String) × List String := Id.run do
  if r.args.size < 15 then return ([], [])
  let input := r.bytes 12
  let frame := r.bytes 13
  let life := r.bytes (if oneShot then 15 else 14)
  if frame.size == 0 then return ([], ["framelinked.skipped"])
  let bsidReq := r.nat 1
  let bsidDefault := if bsidReq == 0 then 4 else bsidReq
  -- `LZ4F_compressFrame`: block size id chosen by `LZ4F_optimalBSID`, a declared content size corrected to the real one
  let p : LZ4V.Model.FrameFast.Prefs :=
    if oneShot then LZ4V.Model.FrameFast.Prefs.mk (LZ4V.Gen.LZ4F_optimalBSID bsidDefault input.size).toNat (r.nat 4 == 1) (r.nat 3 == 1) (if rdLE (r.bytes 5) 0 8 != 0 then input.size else 0) (r.nat 6) (r.int 7) true
    else LZ4V.Model.FrameFast.Prefs.mk bsidDefault (r.nat 4 == 1) (r.nat 3 == 1) (rdLE (r.bytes 5) 0 8) (r.nat 6) (r.int 7) (r.nat 8 != 0)
  let mut ops : List LZ4V.Model.FrameLinked.LOp := []
  let mut pc := 0
  let mut bad := false
  let mut nsave := 0
  let mut nfail := 0
  let mut ndict := 0
  -- the state of the context's LZ4 stream when the first block arrives (dumped from the real context)
  let iniIdx := if oneShot then 16 else 15
  let ini := if r.args.size > iniIdx then r.bytes iniIdx else ByteArray.empty
  let S0 : LZ4V.Model.FastX.XState :=
    if ini.size ≥ 24 + 4 * LZ4V.Gen.LZ4_HASH_SIZE_U32 then
      { tbl := (Array.range LZ4V.Gen.LZ4_HASH_SIZE_U32).map (fun i => rdLE ini (24 + 4 * i) 4), currentOffset := rdLE ini 0 4, dictAddr := rdLE ini 8 8, dict := #[], used := rdLE ini 16 4 != 0 }
    else {}
  let mut S : LZ4V.Model.FastX.XState := S0
  let mut fails : List (String × String) := []
  -- the hypotheses of the theorem, checked on the real state: `Inv S0 []` (table entries ≤ currentOffset, no dictionary, nothing attached)
  if ini.size ≥ 24 then
    if S0.tbl.any (fun v => v > S0.currentOffset) || rdLE ini 4 4 != 0 || rdLE ini 20 4 != 0 then
      fails := [("stream_state_invariant_broken", s!"linked frame: the LZ4 stream of the context at the first block: currentOffset={S0.currentOffset} dictSize={rdLE ini 4 4} dictCtx={rdLE ini 20 4} or a table entry above currentOffset")]
  let mut nblk := 0
  while pc < life.size && !bad do
    let kind := life.get! pc
    let addr := rdLE life (pc + 1) 8
    if kind == 0 then
      let n := rdLE life (pc + 9) 4
      let cap := rdLE life (pc + 13) 4
      let acc := rdLE life (pc + 17) 4
      let data := life.extract (pc + 21) (pc + 21 + n)
      let ret := rdLE life (pc + 21 + n) 4
      pc := pc + 25 + n
      if cap + 1 != n || Int.ofNat acc != LZ4V.Model.FrameLinked.accelOf p then bad := true
      let res := LZ4V.Model.FastX.compress (fun s b => LZ4V.Model.Fast.realHash s b) S addr data.data (LZ4V.Model.FrameLinked.accelOf p) (n - 1)
      let mret := match res.2 with | some b => b.length | none => 0
      if fails.isEmpty && mret != ret then fails := [("model_frame_bytes_differs", s!"linked frame, block {nblk} (n={n} at {addr}): LZ4_compress_fast_continue returned {ret}, the stream model {mret}")]
      if ret == 0 then nfail := nfail + 1
      S := res.1
      nblk := nblk + 1
      ops := .block addr data.data :: ops
    else if kind == 2 then
      -- a prepared dictionary stream attached (after the reset of LZ4F_initStream)
      let n := rdLE life (pc + 9) 4
      let d := life.extract (pc + 13) (pc + 13 + n)
      pc := pc + 13 + n
      S := (LZ4V.Model.FastX.step (fun s b => LZ4V.Model.Fast.realHash s b) S (.attach addr d.data true)).1
      ndict := ndict + 1
      ops := .attach addr d.data :: ops
    else if kind == 3 then
      -- a raw dictionary loaded into the working stream
      let n := rdLE life (pc + 9) 4
      let d := life.extract (pc + 13) (pc + 13 + n)
      let ret := rdLE life (pc + 13 + n) 4
      pc := pc + 17 + n
      let res := LZ4V.Model.FastX.loadDict (fun s b => LZ4V.Model.Fast.realHash s b) addr d.data false
      if fails.isEmpty && res.2 != ret then fails := [("model_frame_bytes_differs", s!"frame with dictionary: LZ4_loadDict({n}) returned {ret}, the stream model {res.2}")]
      S := res.1
      ndict := ndict + 1
      ops := .load addr d.data :: ops
    else
      let k := rdLE life (pc + 9) 4
      pc := pc + 17
      S := (LZ4V.Model.FastX.saveDict S addr k).1
      nsave := nsave + 1
      ops := .save addr k :: ops
  if bad then return ([("model_frame_bytes_differs", "linked frame: a logged compression call does not have capacity n-1 / the acceleration of the level")], [])
  let sched := ops.reverse
  if LZ4V.Model.FrameLinked.contentOf sched != input.toList then
    return ([("model_frame_bytes_differs", s!"linked frame: the blocks handed to the LZ4 stream do not spell out the input ({(LZ4V.Model.FrameLinked.contentOf sched).length} vs {input.size} bytes)")], [])
  let indep := r.nat 2 == 1 && !oneShot
  let f := if indep then LZ4V.Model.FrameLinked.frameFromI LZ4V.Spec.FrameL.xxhEnv (fun s b => LZ4V.Model.Fast.realHash s b) p S0 sched
           else LZ4V.Model.FrameLinked.frameFrom LZ4V.Spec.FrameL.xxhEnv (fun s b => LZ4V.Model.Fast.realHash s b) p S0 sched
  if fails.isEmpty && f != frame.toList then
    let d := (List.range (min f.length frame.size)).find? (fun i => f.getD i 0 != frame.get! i)
    fails := [("model_frame_bytes_differs", s!"linked frame: model {f.length} bytes, real {frame.size} bytes, first difference at {d} (bsid={p.bsid} level={p.level} bcrc={p.blockChecksum} ccrc={p.contentChecksum} csize={p.contentSize} autoFlush={p.autoFlush} blocks={nblk} saves={nsave})")]
  return (fails, ["framelinked.same", if nsave > 0 then "framelinked.saveDict" else "framelinked.nosave", if nfail > 0 then "framelinked.raw_blocks" else "framelinked.noraw",
                  if nblk ≥ 2 then "framelinked.blocks.many" else "framelinked.blocks.le1", if ndict > 0 then (if indep then "framelinked.dictionary.independent_blocks" else "framelinked.dictionary.linked_blocks") else "framelinked.no_dictionary",
                  if S0.currentOffset > 0 then (if S0.tbl.any (fun v => v != 0) then "framelinked.reused_context_stale_table" else "framelinked.reused_context_clean_table") else "framelinked.fresh_context"])

def judgeFrame (blobs : Std.HashMap Nat ByteArray) (r : Rec) : Verdict := Id.run do
  let kind := r.nat 0
  let bsidReq := r.nat 1
  let blockMode := r.nat 2
  let ccFlag := r.nat 3
  let bcFlag := r.nat 4
  let csize := r.nat 5
  let dictID := r.nat 6
  let dictSize := r.nat 10
  let input := r.bytes 12
  let frame := r.bytes 13
  let dict := dictOf blobs dictSize
  let mut v : Verdict := {}
  if frame.size == 0 then return { tags := ["frame.none"] }
  if kind == 3 then
    -- a header alone (what LZ4F_compressBegin wrote): it must parse, end exactly at its last byte and carry the requested fields
    let csize := rdLE (r.bytes 5) 0 8      -- unsigned 64-bit
    match parseHeader (frame ++ ByteArray.mk #[0, 0, 0, 0]) 0 with
    | .error e => return { fails := [("frame_rejected_by_spec_parser", s!"header alone: {repr e} (content size requested {csize})")] }
    | .ok h =>
      let bsidDefault := if bsidReq == 0 then 4 else bsidReq
      if h.size != frame.size then v := { v with fails := ("header_size", s!"header is {frame.size} bytes, its fields say {h.size}") :: v.fails }
      if h.bsid != bsidDefault then v := { v with fails := ("header_block_size_id", s!"got {h.bsid} want {bsidDefault}") :: v.fails }
      if h.blockIndep != (blockMode == 1) then v := { v with fails := ("header_block_mode", "") :: v.fails }
      if h.contentChecksum != (ccFlag == 1) then v := { v with fails := ("header_content_checksum_flag", "") :: v.fails }
      if h.blockChecksum != (bcFlag == 1) then v := { v with fails := ("header_block_checksum_flag", "") :: v.fails }
      if h.contentSize != (if csize == 0 then none else some csize) then v := { v with fails := ("header_content_size", s!"got {h.contentSize} want {csize}") :: v.fails }
      if h.dictId != (if dictID == 0 then none else some dictID) then v := { v with fails := ("header_dict_id", s!"got {h.dictId} want {dictID}") :: v.fails }
      return { v with tags := ["header.alone", if csize ≥ 4294967296 then "csize.huge" else "csize.small"] }
  match parseFrame frame 0 dict with
  | .error e => v := { v with fails := ("frame_rejected_by_spec_parser", s!"{repr e}") :: v.fails }
  | .ok f =>
    if f.next != frame.size then v := { v with fails := ("frame_has_trailing_bytes", s!"frame ends at {f.next} of {frame.size}") :: v.fails }
    if f.content != input then v := { v with fails := ("frame_content_mismatch", s!"decoded {f.content.size} bytes, input {input.size}") :: v.fails }
    let h := f.hdr
    -- header fields requested by the preferences
    let bsidDefault := if bsidReq == 0 then 4 else bsidReq
    let wantBsid := if kind == 0 || kind == 5 || kind == 6 then bsidDefault else (LZ4V.Gen.LZ4F_optimalBSID bsidDefault input.size).toNat
    if h.bsid != wantBsid then v := { v with fails := ("header_block_size_id", s!"got {h.bsid} want {wantBsid}") :: v.fails }
    let wantIndep := if kind == 0 || kind == 5 || kind == 6 then blockMode == 1 else (blockMode == 1 || input.size ≤ blockSizeOf wantBsid)
    if h.blockIndep != wantIndep then v := { v with fails := ("header_block_mode", s!"got indep={h.blockIndep} want {wantIndep}") :: v.fails }
    if h.contentChecksum != (ccFlag == 1) then v := { v with fails := ("header_content_checksum_flag", "") :: v.fails }
    if h.blockChecksum != (bcFlag == 1) then v := { v with fails := ("header_block_checksum_flag", "") :: v.fails }
    let wantCS : Option Nat := if csize == 0 then none else some input.size
    if h.contentSize != wantCS then v := { v with fails := ("header_content_size", s!"got {h.contentSize} want {wantCS}") :: v.fails }
    let wantDict : Option Nat := if dictID == 0 then none else some dictID
    if h.dictId != wantDict then v := { v with fails := ("header_dict_id", s!"got {h.dictId} want {wantDict}") :: v.fails }
    -- a block is stored compressed only if that shrinks it
    for bi in f.blocks do
      if !bi.raw && bi.csize ≥ bi.dsize then
        v := { v with fails := ("compressed_block_not_smaller", s!"csize={bi.csize} dsize={bi.dsize}") :: v.fails }
    if kind == 0 || kind == 5 then
      for x in judgeFrameOps r (f.blocks.toList.map (·.dsize)) (blockSizeOf h.bsid) (r.nat 8 != 0) do v := { v with fails := x :: v.fails }
    let nraw := (f.blocks.filter (·.raw)).size
    v := { v with tags := [s!"kind.{kind}", s!"bsid.{h.bsid}", if h.blockIndep then "indep" else "linked", if h.blockChecksum then "bcrc" else "nobcrc",
                            if h.contentChecksum then "ccrc" else "noccrc", if h.contentSize.isSome then "csize" else "nocsize",
                            if f.blocks.size == 0 then "blocks.0" else if f.blocks.size == 1 then "blocks.1" else "blocks.many",
                            if nraw == 0 then "raw.none" else if nraw == f.blocks.size then "raw.all" else "raw.some",
                            if dictSize == 0 then "nodict" else "dict"] }
    if kind == 5 then
      let m := judgeFrameModel r
      v := { v with fails := m.1 ++ v.fails, tags := m.2 ++ v.tags }
    if kind == 6 then
      let m := judgeFrameLinked r
      v := { v with fails := m.1 ++ v.fails, tags := m.2 ++ v.tags }
    if kind == 7 then
      let m := judgeFrameLinked r true
      v := { v with fails := m.1 ++ v.fails, tags := ("framelinked.compressFrame" :: m.2) ++ v.tags }
  return v

def skippableLen (b : ByteArray) : Option Nat :=
  if b.size ≥ 8 && isSkippableMagic (rdLE b 0 4) then
    let sz := rdLE b 4 4
    if 8 + sz ≤ b.size then some (8 + sz) else none
  else none

def badClass (e : Bad) : String :=
  match e with
  | .truncated _ => "truncated" | .magic => "magic" | .version => "version" | .reserved => "reserved" | .blockSizeId => "bsid"
  | .headerChecksum => "hcrc" | .blockTooLarge => "blocksize" | .blockChecksum => "bcrc" | .blockDecode _ => "payload"
  | .contentChecksum => "ccrc" | .contentSize => "csize" | .legacyBlock => "legacy"

def judgeFrameDec (blobs : Std.HashMap Nat ByteArray) (r : Rec) : Verdict := Id.run do
  let skip := r.nat 0 != 0
  let dictSize := r.nat 1
  let bytes := r.bytes 2
  let verdict := r.nat 3
  let consumed := r.nat 4
  let out := r.bytes 5
  let dict := dictOf blobs dictSize
  let mut v : Verdict := {}
  -- what the specification says about the first frame in `bytes`
  let spec : Except Bad (Nat × ByteArray) :=
    match skippableLen bytes with
    | some n => .ok (n, ByteArray.empty)
    | none =>
      if bytes.size ≥ 4 && isSkippableMagic (rdLE bytes 0 4) then .error (.truncated "skippable") else
      match parseFrame bytes 0 dict with
      | .ok f => .ok (f.next, f.content)
      | .error e => .error e
  match spec, verdict with
  | .ok (next, content), 0 =>
    if consumed != next then v := { v with fails := ("completion_not_at_frame_end", s!"consumed={consumed} frame ends at {next}") :: v.fails }
    if out != content then v := { v with fails := ("complete_but_wrong_output", s!"out={out.size} spec={content.size}") :: v.fails }
    v := { v with tags := ["dec.complete_ok"] }
  | .ok (next, _), _ =>
    v := { v with fails := ("valid_frame_not_completed", s!"verdict={verdict} frame ends at {next} of {bytes.size}") :: v.fails }
  | .error e, 0 =>
    -- the real decoder says "complete" where the specification rejects: tolerated only when the caller disabled
    -- checksum verification and the sole defect is a checksum, or for the known offset-0 deviation
    let checksumOnly := (match e with | .blockChecksum => true | .contentChecksum => true | _ => false)
    if skip && checksumOnly then v := { v with tags := ["dec.skipchecksum_tolerated"] }
    else
      let isOff0 := (match e with | .blockDecode s => (s.splitOn "badOffset").length > 1 && (s.splitOn " 0 ").length > 1 | _ => false)
      v := { v with fails := (if isOff0 then "accepts_offset_zero" else "false_completion", s!"specification: {repr e}; real decoder reported the frame complete, {out.size} bytes") :: v.fails }
  | .error e, _ =>
    let cls := badClass e
    v := { v with tags := [s!"dec.rejected.{cls}", if verdict == 1 then "real.error" else "real.incomplete"] }
    -- a truncated input must not be reported as an error class that hides data loss... both "error" and "needs more input" are acceptable
  -- the model of LZ4F_decodeHeader (Model/FrameD.lean, proved equivalent to the specification) on the same bytes:
  -- same acceptance, and on rejection the same LZ4F error code
  if bytes.size ≥ 7 && rdLE bytes 0 4 == 0x184D2204 then
    let realErr := if r.args.size > 6 then r.nat 6 else 0
    match LZ4V.Model.FrameD.decodeHeader LZ4V.Spec.FrameL.xxhEnv.hash (bytes.toList.take 19) with
    | .error e =>
      let want := match e with
        | .frameHeader_incomplete => LZ4V.Gen.LZ4F_ERROR_frameHeader_incomplete | .frameType_unknown => LZ4V.Gen.LZ4F_ERROR_frameType_unknown
        | .reservedFlag_set => LZ4V.Gen.LZ4F_ERROR_reservedFlag_set | .headerVersion_wrong => LZ4V.Gen.LZ4F_ERROR_headerVersion_wrong
        | .maxBlockSize_invalid => LZ4V.Gen.LZ4F_ERROR_maxBlockSize_invalid | .headerChecksum_invalid => LZ4V.Gen.LZ4F_ERROR_headerChecksum_invalid
      if verdict != 1 then v := { v with fails := ("model_header_differs", s!"model rejects the header ({repr e}), real verdict={verdict}") :: v.fails }
      else if r.args.size > 6 && realErr != want then v := { v with fails := ("model_header_differs_errcode", s!"model {repr e} (code {want}), real LZ4F error code {realErr}") :: v.fails }
      v := { v with tags := s!"hdrmodel.reject" :: v.tags }
    | .ok (.needMore _) =>
      if verdict == 0 then v := { v with fails := ("model_header_differs", "model needs more header bytes, real decoder reports completion") :: v.fails }
      v := { v with tags := "hdrmodel.needmore" :: v.tags }
    | .ok (.done _ _) =>
      let hdrErr := r.args.size > 6 && verdict == 1 && (realErr == LZ4V.Gen.LZ4F_ERROR_reservedFlag_set || realErr == LZ4V.Gen.LZ4F_ERROR_headerVersion_wrong ||
                      realErr == LZ4V.Gen.LZ4F_ERROR_headerChecksum_invalid || realErr == LZ4V.Gen.LZ4F_ERROR_frameType_unknown)   -- (maxBlockSize_invalid is also the "block too large" error)
      if hdrErr then v := { v with fails := ("model_header_differs", s!"model accepts the header, real decoder rejects it with header error code {realErr}") :: v.fails }
      v := { v with tags := "hdrmodel.accept" :: v.tags }
  return v

def judgeGenFunc (r : Rec) : Verdict := Id.run do
  let fn := r.nat 0
  let a := r.int 1
  let b := r.int 2
  let c := r.int 3
  let d := r.int 4
  let e := r.int 5
  let want := r.int 6
  if fn == 5 then
    -- written ≤ worstUpdate (Properties/C10.lean): a = srcSize, b = block size id, c = blockChecksumFlag, d = buffered, want = bytes written
    let bs : Int := if b == 5 then 262144 else if b == 6 then 1048576 else if b == 7 then 4194304 else 65536
    let worst := ((a + d) / bs) * (4 + bs + 4 * c)
    if want > worst then return { fails := [("update_wrote_more_than_model_worst_case", s!"srcSize={a} bsid={b} bcrc={c} buffered={d} written={want} worstUpdate={worst}")] }
    return { tags := ["genfunc.5"] }
  let prefs : Option LZ4V.Gen.LZ4F_preferences_t :=
    if b < 0 then none else some { frameInfo := { blockSizeID := b, blockChecksumFlag := c, contentChecksumFlag := d }, autoFlush := e }
  let got : Int :=
    match fn with
    | 1 => LZ4V.Gen.LZ4F_compressBound a prefs
    | 2 => LZ4V.Gen.LZ4F_compressFrameBound a prefs
    | 3 => LZ4V.Gen.LZ4F_getBlockSize a
    | 4 => LZ4V.Gen.LZ4_compressBound a
    | _ => -999
  let gotS := if got ≥ 2^63 then got - 2^64 else got
  if gotS != want then return { fails := [("gen_function_disagrees_with_c", s!"fn={fn} args=({a},{b},{c},{d},{e}) C={want} Lean={gotS}")] }
  return { tags := [s!"genfunc.{fn}"] }

end LZ4V.Judge
