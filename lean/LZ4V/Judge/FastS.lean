import LZ4V.Judge.Rec
import LZ4V.Model.FastS
import LZ4V.Gen.Funcs
/-! # Judge op 15: a contiguous `LZ4_compress_fast_continue` session on a freshly reset stream, replayed by `Model/FastS.lean`:
    every return value and every block must be the model's -/
namespace LZ4V.Judge
open LZ4V.Model

def judgeContigStream (r : Rec) : List (String × String) × List String := Id.run do
  let nc := r.nat 0
  let tb := r.bytes 1
  let off0 := r.nat 2
  let stale := tb.size > 0
  let tbl0 : Array Nat := if stale then (Array.range LZ4V.Gen.LZ4_HASH_SIZE_U32).map (fun i => (tb.data.getD (4*i) 0).toNat + 256 * (tb.data.getD (4*i+1) 0).toNat + 65536 * (tb.data.getD (4*i+2) 0).toNat + 16777216 * (tb.data.getD (4*i+3) 0).toNat)
                         else Array.replicate LZ4V.Gen.LZ4_HASH_SIZE_U32 0
  let mut S : FastS.SState := { tbl := tbl0, currentOffset := off0, dictSize := 0, mem := #[] }
  let mut fails : List (String × String) := []
  -- the hypothesis of the theorems (`JS`), checked on the real state a reset leaves behind
  if tbl0.any (fun v => v > off0) then fails := [("stream_state_invariant_broken", s!"after LZ4_resetStream_fast a table entry exceeds currentOffset={off0}")]
  let mut prefixUsed := 0
  let mut failed := false
  for k in [0:nc] do
    let src := r.bytes (3 + 5 * k)
    let acc := r.int (4 + 5 * k)
    let cap := r.int (5 + 5 * k)
    let ret := r.int (6 + 5 * k)
    let out := r.bytes (7 + 5 * k)
    let n := src.size
    let capN : Nat := if cap < 0 then 0 else cap.toNat
    let res := FastS.call (fun s b => Fast.realHash s b) S src.data acc capN
    if S.dictSize > 0 && n ≥ 13 then prefixUsed := prefixUsed + 1
    if fails.isEmpty then
      match res.2, decide (ret > 0) with
      | some blk, true =>
        if blk != out.toList then fails := [("model_stream_output_differs", s!"call {k} of {nc} (n={n} accel={acc} cap={cap}, dictSize={S.dictSize} currentOffset={S.currentOffset}): model block {blk.length} bytes, real {out.size} bytes")]
      | some blk, false =>
        if ret == 0 then fails := [("model_stream_output_differs", s!"call {k} of {nc} (n={n} cap={cap}): model succeeds with {blk.length} bytes, real returns 0")]
      | none, true => fails := [("model_stream_output_differs", s!"call {k} of {nc} (n={n} cap={cap}): model returns 0, real returns {ret}")]
      | none, false => failed := true
    S := res.1
  return (fails, [if prefixUsed > 0 then "stream.prefix_used" else "stream.no_prefix", if failed then "stream.ended_by_failure" else "stream.all_ok", if stale then "stream.starts_with_stale_table" else if off0 > 0 then "stream.starts_with_offset" else "stream.starts_fresh", s!"stream.calls.{if nc ≤ 4 then "few" else "many"}"])

end LZ4V.Judge
