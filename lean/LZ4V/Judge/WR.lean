import LZ4V.Judge.Rec
import LZ4V.Model.Pool
/-! # Judge op 9: the write-register model on the same arrival order must produce the same file -/
namespace LZ4V.Judge
open LZ4V.Model

def payOf (rank : Nat) : List UInt8 := (List.range (1 + rank % 5)).map (fun k => UInt8.ofNat ((rank * 3 + k) % 256))

structure VerdictWR where
  fails : List (String × String) := []
  tags : List String := []

def judgeWR (r : Rec) : List (String × String) × List String := Id.run do
  let n := r.nat 0
  let ord := r.bytes 1
  let file := r.bytes 2
  let arrival : List Nat := (List.range n).map (fun i => (ord.get! (2*i)).toNat + 256 * (ord.get! (2*i+1)).toNat)
  let fin := WR.run (arrival.map (fun k => (k, payOf k)))
  let model : List UInt8 := fin.out.flatten
  if model != file.toList then return ([("write_register_model_mismatch", s!"n={n} model {model.length} bytes, file {file.size} bytes")], [])
  if fin.expected != n || !fin.stored.isEmpty then return ([("write_register_model_not_drained", s!"n={n} expected={fin.expected}")], [])
  return ([], [if n ≤ 7 then "wr.exhaustive_small" else if n > 16 then "wr.grown" else "wr.random"])

end LZ4V.Judge
