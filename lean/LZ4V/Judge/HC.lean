import LZ4V.Judge.Rec
import LZ4V.HC.HC6
import Std.Data.HashMap
/-! # Judge op 18: `LZ4_compress_HC` at a hash-chain level (3..9) against the oracle model `LZ4V/HC`: the parser model, fed with the real match finders'
    logged answers as its oracle, must emit the very same sequences and the very same block; and every logged answer the parser could accept must
    honour the oracle contract (`HC.OracleOK`: a byte-verified match inside the window) — the hypothesis of `HC.compress_decodes`, checked on the real finder -/
namespace LZ4V.Judge
open HC

def i32At (b : ByteArray) (i : Nat) : Int :=
  let v := (b.get! i).toNat + 256 * (b.get! (i+1)).toNat + 65536 * (b.get! (i+2)).toNat + 16777216 * (b.get! (i+3)).toNat
  if v ≥ 2147483648 then (v : Int) - 4294967296 else v

/-- executable `VMatch` -/
def vmatch (data : ByteArray) (p len off : Nat) : Bool :=
  1 ≤ off && off ≤ 65535 && off ≤ p && p + len ≤ data.size && (List.range len).all (fun k => data.get! (p + k) == data.get! (p + k - off))

/-- `hist` : what precedes the block for the decoder (empty for a one-shot call); positions of the log are relative to the block -/
def judgeHCcore (level : Nat) (hist block log : ByteArray) (ret : Int) (out : ByteArray) : List (String × String) × List String := Id.run do
  let H := hist.size
  let data := hist ++ block
  let n := block.size
  let mut best : Std.HashMap Nat M := {}
  let mut wider : Std.HashMap (Nat × Nat × Nat) (Nat × M) := {}
  let mut emits : List Emit := []
  let mut fails : List (String × String) := []
  let nent := log.size / 28
  for k in [0:nent] do
    let kind := i32At log (28 * k)
    let a := (i32At log (28 * k + 4)).toNat + H
    let b := (i32At log (28 * k + 8)).toNat + H
    let c := i32At log (28 * k + 12)
    let d := i32At log (28 * k + 16)
    let e := i32At log (28 * k + 20)
    let f := i32At log (28 * k + 24)
    if kind == 1 then
      best := best.insert a ⟨e.toNat, d.toNat⟩
      if fails.isEmpty && d ≥ 4 && (!vmatch data a d.toNat e.toNat || a + d.toNat + 5 > H + n) then
        fails := [("hc_oracle_contract_broken", s!"level {level}: LZ4HC_InsertAndFindBestMatch at {a - H} (history {H}) answers len={d} off={e}: not a byte-verified match inside the window ending at or before matchlimit")]
    else if kind == 2 then
      let st := ((a : Int) + f).toNat
      wider := wider.insert (a, b, c.toNat) (st, ⟨e.toNat, d.toNat⟩)
      if fails.isEmpty && d > c && (!(b ≤ st && st ≤ a) || !vmatch data st d.toNat e.toNat || st + d.toNat + 5 > H + n) then
        fails := [("hc_oracle_contract_broken", s!"level {level}: LZ4HC_InsertAndGetWiderMatch(start={a - H}, low={b - H}, longest={c}) (history {H}) answers len={d} off={e} back={f}: not a byte-verified match inside the window")]
    else
      emits := ⟨a, b, c.toNat, d.toNat⟩ :: emits
  let real := emits.reverse
  let o : Oracle := { best := fun ip => (best.get? ip).getD ⟨0, 0⟩,
                      wider := fun s l g => (wider.get? (s, l, g)).getD (s, ⟨0, 0⟩) }
  if !fails.isEmpty then return (fails, [])
  -- the certificate of EVERY level (theorem `HC.chained_verified_sequences_decode`): the encoded sequences start one after the other from the start of the
  -- block, each match is byte-verified inside history ++ block, and the real block is their serialisation followed by the remaining literals
  let eff := if level < 1 then 9 else if level > 12 then 12 else level
  if ret > 0 then
    match HC.chainB H real with
    | none => return ([("model_hc_certificate_differs", s!"level {level} n={n}: the encoded sequences do not start one after the other")], [])
    | some a' =>
      if !real.all (fun e => e.anchor ≤ e.ip && 4 ≤ e.len && vmatch data e.ip e.len e.off) then
        return ([("hc_emitted_match_not_verified", s!"level {level} n={n} history={H}: an encoded sequence is not a byte-verified match of length >= 4 inside the window")], [])
      let cert := LZ4V.Spec.Block.serialize (real.map (HC.toSeq data.toList)) (data.toList.drop a')
      if cert != out.toList then return ([("model_hc_certificate_differs", s!"level {level} n={n}: the real block ({out.size} bytes) is not the serialisation of its logged sequences ({cert.length} bytes)")], [])
  if eff < 3 || eff > 9 then
    return ([], [s!"hc.level.{eff}", "hc.certificate_only", if H == 0 then "hc.no_history" else "hc.with_history"])
  let mres := HC.compressH o hist.toList block.toList (2 * n + 16)
  let mrun := if n < 13 then [] else (HC.run o (H + n - 12) (2 * n + 16) (.main H H)).2
  if mrun.length != real.length || !(List.zip mrun real).all (fun (x, y) => x.anchor == y.anchor && x.ip == y.ip && x.len == y.len && x.off == y.off) then
    let d := (List.range (min mrun.length real.length)).find? (fun i => match mrun[i]?, real[i]? with
      | some x, some y => !(x.anchor == y.anchor && x.ip == y.ip && x.len == y.len && x.off == y.off) | _, _ => true)
    return ([("model_hc_parse_differs", s!"level {level} n={n} history={H}: model emits {mrun.length} sequences, real {real.length}; first difference at {d}")], [])
  match mres with
  | none => return ([("model_hc_parse_differs", s!"level {level} n={n}: the parser model does not reach the end of the block")], [])
  | some blk =>
    if ret ≤ 0 then return ([("model_hc_parse_differs", s!"level {level} n={n}: real returns {ret}")], [])
    if blk != out.toList then return ([("model_hc_block_differs", s!"level {level} n={n} history={H}: model block {blk.length} bytes, real {out.size} bytes")], [])
    return ([], [s!"hc.level.{level}", if real.length == 0 then "hc.seqs.0" else if real.length < 10 then "hc.seqs.few" else "hc.seqs.many",
                 if wider.size > 0 then "hc.wider_used" else "hc.no_wider", if H == 0 then "hc.no_history" else "hc.with_history",
                 if real.any (fun e => e.off > e.ip - H) then "hc.match_into_history" else "hc.matches_in_block_only"])

/-- op 18: one-shot `LZ4_compress_HC` -/
def judgeHC (r : Rec) : List (String × String) × List String :=
  judgeHCcore (r.nat 0) ByteArray.empty (r.bytes 1) (r.bytes 2) (r.int 3) (r.bytes 4)

/-- op 19: one block of an `LZ4_compress_HC_continue` session / after `LZ4_loadDictHC`, with the history the decoder has -/
def judgeHCstream (r : Rec) : List (String × String) × List String :=
  judgeHCcore (r.nat 0) (r.bytes 1) (r.bytes 2) (r.bytes 3) (r.int 4) (r.bytes 5)

end LZ4V.Judge
