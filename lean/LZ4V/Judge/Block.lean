import LZ4V.Judge.Rec
import LZ4V.Spec.BlockFast
import LZ4V.Gen.Consts
import LZ4V.Gen.Funcs
import LZ4V.Model.Fast
import LZ4V.Model.FastDS
/-!
# Judge for block-compressor records (op 1)

args: entry, param, cap, ret, consumed, src, out, flags.
The real compressor's output is judged by the *specification* decoder (independent of liblz4, proved in
`Proofs/BlockHub.lean` and friends), by the end-of-block rules and by the regenerated `LZ4_compressBound`.
Failure kinds (the check of each property filters on the kinds that belong to it):
`spec_decode_fails`, `spec_decode_mismatch`, `end_conditions`, `offset_range`, `bound_should_succeed`, `ret_gt_cap`,
`destsize_zero`, `destsize_not_full_at_bound`, `crosscheck`.
-/
namespace LZ4V.Judge
open LZ4V.Spec

structure Verdict where
  fails : List (String × String) := []     -- (kind, detail)
  tags  : List String := []

def isDestSize (entry : Nat) : Bool := entry ≥ 8 && entry ≤ 10

def judgeBlock (r : Rec) : Verdict := Id.run do
  let entry := r.nat 0
  let cap := r.int 2
  let ret := r.int 3
  let consumed := r.nat 4
  let src := r.bytes 5
  let out := r.bytes 6
  let n := src.size
  let bound := LZ4V.Gen.LZ4_compressBound n
  let mut v : Verdict := {}
  if ret > cap && ret > 0 then v := { v with fails := ("ret_gt_cap", s!"ret={ret} cap={cap}") :: v.fails }
  if isDestSize entry then
    if cap ≥ 1 && ret < 1 then v := { v with fails := ("destsize_zero", s!"target={cap} ret={ret}") :: v.fails }
    if cap ≥ bound && consumed != n then v := { v with fails := ("destsize_not_full_at_bound", s!"target={cap} bound={bound} consumed={consumed} n={n}") :: v.fails }
  else
    if cap ≥ bound && ret ≤ 0 then v := { v with fails := ("bound_should_succeed", s!"n={n} cap={cap} bound={bound} ret={ret}") :: v.fails }
  if ret > 0 && ret ≤ cap then
    let want := if isDestSize entry then src.extract 0 consumed else src
    match BlockA.decodeA ByteArray.empty out (want.size + 64) with
    | .error e => v := { v with fails := ("spec_decode_fails", s!"{repr e}") :: v.fails }
    | .ok (dec, sm) =>
      if dec != want then v := { v with fails := ("spec_decode_mismatch", s!"decoded {dec.size} bytes, want {want.size}") :: v.fails }
      if !BlockA.endConditionsA sm then v := { v with fails := ("end_conditions", s!"lastLits={sm.lastLits} lastMl={sm.lastMl} nseq={sm.nseq}") :: v.fails }
      if sm.nseq > 0 && (sm.minOff < 1 || sm.maxOff > LZ4V.Gen.LZ4_DISTANCE_MAX) then
        v := { v with fails := ("offset_range", s!"minOff={sm.minOff} maxOff={sm.maxOff}") :: v.fails }
      v := { v with tags := [if sm.nseq = 0 then "parse.literal_only" else if sm.nseq < 4 then "parse.few_matches" else "parse.many_matches",
                             if sm.maxMl ≥ 19 then "ml.long" else "ml.short", if sm.maxLits ≥ 15 then "lits.long" else "lits.short",
                             if sm.nseq > 0 && sm.minOff < 8 then "off.overlap" else "off.far"] }
      if out.size ≤ 600 && want.size ≤ 1200 && !BlockA.crossCheck ByteArray.empty out then
        v := { v with fails := ("crosscheck", "array spec decoder disagrees with list specification") :: v.fails }
  else
    v := { v with tags := ["ret.zero"] }
  -- the model of the fast compressor (Model/Fast.lean, proved lossless for every hash function) must produce the very same bytes:
  -- entries LZ4_compress_default / LZ4_compress_fast / LZ4_compress_fast_extState (fresh state)
  if entry ≤ 2 && n ≤ 400000 then
    let accel : Int := if entry == 0 then 1 else r.int 1
    let capN : Nat := if cap < 0 then 0 else cap.toNat
    match LZ4V.Model.Fast.compressFast src.data accel capN bound.toNat, decide (ret > 0) with
    | some blk, true =>
      if blk != out.toList then
        v := { v with fails := ("model_fast_output_differs", s!"n={n} accel={accel} cap={cap}: model block {blk.length} bytes, real {out.size} bytes" ++
                 (match (List.range (min blk.length out.size)).find? (fun i => blk.getD i 0 != out.get! i) with | some i => s!", first difference at byte {i}" | none => "")) :: v.fails }
      v := { v with tags := "fastmodel.same" :: v.tags }
    | some blk, false =>
      if ret == 0 then v := { v with fails := ("model_fast_output_differs", s!"n={n} accel={accel} cap={cap}: model succeeds with {blk.length} bytes, real returns 0") :: v.fails }
    | none, true => v := { v with fails := ("model_fast_output_differs", s!"n={n} accel={accel} cap={cap}: model returns 0, real returns {ret}") :: v.fails }
    | none, false => v := { v with tags := "fastmodel.same_zero" :: v.tags }
  -- LZ4_compress_destSize / LZ4_compress_destSize_extState : the fillOutput model (Model/FastDS.lean) must consume the same number of
  -- bytes and produce the very same block
  if (entry == 8 || entry == 9) && n ≤ 400000 then
    let accel : Int := if entry == 8 then 1 else r.int 1
    let capN : Nat := if cap < 0 then 0 else cap.toNat
    let model : Option (Nat × List UInt8) :=
      if capN ≥ bound.toNat then (LZ4V.Model.Fast.compressFast src.data accel capN bound.toNat).map (fun b => (n, b))
      else LZ4V.Model.FastDS.compressDestSize src.data accel capN
    match model, decide (ret > 0) with
    | some (cons, blk), true =>
      if cons != consumed || blk != out.toList then
        v := { v with fails := ("model_destsize_output_differs", s!"n={n} accel={accel} target={cap}: model consumed {cons} -> {blk.length} bytes, real consumed {consumed} -> {out.size} bytes") :: v.fails }
      v := { v with tags := "destsizemodel.same" :: v.tags }
    | some (cons, blk), false =>
      if ret == 0 then v := { v with fails := ("model_destsize_output_differs", s!"n={n} accel={accel} target={cap}: model consumed {cons} -> {blk.length} bytes, real returns 0") :: v.fails }
    | none, true => v := { v with fails := ("model_destsize_output_differs", s!"n={n} accel={accel} target={cap}: model returns 0, real returns {ret}") :: v.fails }
    | none, false => v := { v with tags := "destsizemodel.same_zero" :: v.tags }
  return v

end LZ4V.Judge
