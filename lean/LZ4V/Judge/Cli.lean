import LZ4V.Judge.Frame
import LZ4V.Spec.FrameLExec
import LZ4V.Model.Legacy
import LZ4V.Model.CliFrame
import LZ4V.Model.CliLinked
/-!
# Judge for CLI records

op 7 (an archive produced by `lz4`): content, archive, dict, legacy flag, wantBsid (0 = don't care), wantIndep (0/1/2=don't care),
      wantContentSize (0/1/2), wantContentChecksum (0/1/2).
      The archive must decode, by the specification stream decoder, to the content.
op 8 (a run of `lz4 -d` / `-t` on arbitrary input): input, exit status, written bytes, dict, flags (bit0: output was captured).
      exit 0 ⇒ the specification decodes the input and (if captured) to exactly the written bytes;
      specification-valid input ⇒ exit 0 (C15).
-/
namespace LZ4V.Judge
open LZ4V.Spec LZ4V.Spec.Frame

/-- the list specification (`Spec/FrameL.lean`, the one the C14/C15 theorems are about) and the ByteArray specification
    must agree on every input the judges see (inputs up to 600 KB) -/
def crossL (input dict : ByteArray) (spec : Option ByteArray) : List (String × String) :=
  if input.size > 600000 then [] else
  match LZ4V.Spec.FrameL.decodeStream LZ4V.Spec.FrameL.xxhEnv dict.toList input.toList, spec with
  | .ok c, some o => if c != o.toList then [("crosscheck_frameL", s!"list specification decodes {c.length} bytes, ByteArray specification {o.size}")] else []
  | .ok c, none => [("crosscheck_frameL", s!"list specification accepts ({c.length} bytes), ByteArray specification rejects")]
  | .error e, some o => [("crosscheck_frameL", s!"list specification rejects ({repr e}), ByteArray specification accepts ({o.size} bytes)")]
  | .error _, none => []

def judgeCliArchive (r : Rec) : Verdict := Id.run do
  let content := r.bytes 0
  let archive := r.bytes 1
  let dict := r.bytes 2
  let legacy := r.nat 3 != 0
  let wantBsid := r.nat 4
  let wantIndep := r.nat 5
  let wantCS := r.nat 6
  let wantCC := r.nat 7
  let mut v : Verdict := {}
  v := { v with fails := crossL archive dict (match decodeWholeStream archive dict with | .ok (o, _) => some o | .error _ => none) }
  match decodeWholeStream archive dict with
  | .error e => v := { v with fails := ("archive_rejected_by_spec", s!"{repr e}") :: v.fails }
  | .ok (out, kinds) =>
    if out != content then v := { v with fails := ("archive_content_mismatch", s!"decoded {out.size} bytes, content {content.size}") :: v.fails }
    let mut mtags : List String := []
    -- `lz4 -l` at a fast level: the archive model (Model/Legacy.lean, proved to decode to the input) must produce the very same bytes
    if legacy && r.args.size > 8 && r.int 8 < 3 && content.size ≤ 300000 then
      match LZ4V.Model.Legacy.archive (r.int 8) content.toList with
      | some a =>
        if a != archive.toList then v := { v with fails := ("model_legacy_archive_differs", s!"level {r.int 8}, content {content.size} bytes: model archive {a.length} bytes, real {archive.size} bytes") :: v.fails }
        else mtags := ["legacymodel.same"]
      | none => v := { v with fails := ("model_legacy_archive_differs", "the model produces no archive") :: v.fails }
    -- `lz4 FILE` at a fast level, independent blocks, standard block size, no dictionary: the archive model (Model/CliFrame.lean, proved to decode
    -- to the input: `CliFrame.archive_decodes`) must produce the very same bytes, for the build that wrote the archive
    if !legacy && r.args.size > 14 && r.int 8 < LZ4V.Gen.LZ4HC_CLEVEL_MIN && dict.size == 0 && r.nat 10 != 0 && r.nat 14 == 1 && content.size ≤ 300000 then
      let o : LZ4V.Model.CliFrame.Opts := { bsidReq := r.nat 10, blockChecksum := r.nat 11 == 1, contentChecksum := r.nat 12 == 1, contentSize := r.nat 13 == 1, level := r.int 8 }
      match LZ4V.Model.CliFrame.archive LZ4V.Spec.FrameL.xxhEnv (fun s b => LZ4V.Model.Fast.realHash s b) (r.nat 9 == 1) o content.toList with
      | some a =>
        if a != archive.toList then
          let d := (List.range (min a.length archive.size)).find? (fun i => a.getD i 0 != archive.get! i)
          v := { v with fails := ("model_cli_archive_differs", s!"build mt={r.nat 9} level {r.int 8} bsid {r.nat 10} bx {r.nat 11} cc {r.nat 12} cs {r.nat 13}, content {content.size} bytes: model archive {a.length} bytes, real {archive.size} bytes, first difference at {d}") :: v.fails }
        else mtags := [if r.nat 9 == 1 then "climodel.same.mt" else if content.size < LZ4V.Spec.Frame.blockSizeOf (r.nat 10) then "climodel.same.st.single" else "climodel.same.st.streamed"]
      | none => mtags := ["climodel.not_applicable"]
    -- `lz4 -BD FILE` (linked blocks) at a fast level: the archive model Model/CliLinked.lean (the schedule lz4io.c / lz4frame.c follow, over the stream model;
    -- proved to decode to the input for every schedule) must produce the very same bytes
    if !legacy && r.args.size > 14 && r.int 8 < LZ4V.Gen.LZ4HC_CLEVEL_MIN && dict.size == 0 && r.nat 10 != 0 && r.nat 14 == 0 && content.size ≤ 300000 then
      let o : LZ4V.Model.CliFrame.Opts := { bsidReq := r.nat 10, blockChecksum := r.nat 11 == 1, contentChecksum := r.nat 12 == 1, contentSize := r.nat 13 == 1, level := r.int 8 }
      match LZ4V.Model.CliLinked.archive LZ4V.Spec.FrameL.xxhEnv (fun s b => LZ4V.Model.Fast.realHash s b) (r.nat 9 == 1) o content.toList with
      | some a =>
        if a != archive.toList then
          let d := (List.range (min a.length archive.size)).find? (fun i => a.getD i 0 != archive.get! i)
          v := { v with fails := ("model_cli_archive_differs", s!"-BD build mt={r.nat 9} level {r.int 8} bsid {r.nat 10} bx {r.nat 11} cc {r.nat 12} cs {r.nat 13}, content {content.size} bytes: model archive {a.length} bytes, real {archive.size} bytes, first difference at {d}") :: v.fails }
        else mtags := [if r.nat 9 == 1 then "clilinked.same.mt" else if content.size < LZ4V.Spec.Frame.blockSizeOf (r.nat 10) then "clilinked.same.st.single" else "clilinked.same.st.streamed"]
      | none => mtags := ["clilinked.not_applicable"]
    if legacy && !(kinds.all (· == Kind.legacy)) then v := { v with fails := ("archive_not_legacy", s!"{repr kinds}") :: v.fails }
    if !legacy && !(kinds.all (· == Kind.lz4)) then v := { v with fails := ("archive_not_lz4_frames", s!"{repr kinds}") :: v.fails }
    if !legacy && kinds.size == 1 then
      match parseHeader archive 0 with
      | .ok h =>
        -- the single-pass path (`LZ4F_compressFrame`) shrinks the block size to fit a small input and marks a single block independent
        let optBsid := (LZ4V.Gen.LZ4F_optimalBSID wantBsid content.size).toNat
        if wantBsid != 0 && h.bsid != wantBsid && h.bsid != optBsid then v := { v with fails := ("cli_header_block_size_id", s!"got {h.bsid} want {wantBsid}") :: v.fails }
        if wantIndep < 2 && h.blockIndep != (wantIndep == 1) && !(h.blockIndep && content.size ≤ h.maxBlock) then v := { v with fails := ("cli_header_block_mode", s!"got indep={h.blockIndep}") :: v.fails }
        if wantCS < 2 && h.contentSize.isSome != (wantCS == 1) then v := { v with fails := ("cli_header_content_size", s!"got {h.contentSize}") :: v.fails }
        if wantCS == 1 && h.contentSize != some content.size then v := { v with fails := ("cli_header_content_size_value", s!"got {h.contentSize}") :: v.fails }
        if wantCC < 2 && h.contentChecksum != (wantCC == 1) then v := { v with fails := ("cli_header_content_checksum", "") :: v.fails }
      | .error _ => pure ()
    v := { v with tags := mtags ++ [if legacy then "legacy" else "lz4", s!"frames.{kinds.size}", if content.size == 0 then "empty" else if content.size < 65536 then "small" else if content.size < 4194304 then "mid" else "multi_chunk",
                            if dict.size > 0 then "dict" else "nodict"] }
  return v

def judgeCliDecode (r : Rec) : Verdict := Id.run do
  let input := r.bytes 0
  let exit := r.int 1
  let written := r.bytes 2
  let dict := r.bytes 3
  let flags := r.nat 4
  let captured := flags % 2 == 1
  let mut v : Verdict := {}
  v := { v with fails := crossL input dict (match decodeWholeStream input dict with | .ok (o, _) => some o | .error _ => none) }
  match decodeWholeStream input dict, exit == 0 with
  | .ok (out, kinds), true =>
    if captured && out != written then v := { v with fails := ("exit0_but_wrong_bytes", s!"written {written.size} specification {out.size}") :: v.fails }
    v := { v with tags := ["cli.ok", s!"frames.{kinds.size}"] }
  | .ok (out, kinds), false =>
    v := { v with fails := ("valid_stream_rejected", s!"exit={exit} frames={repr kinds} content={out.size}") :: v.fails }
  | .error e, true =>
    let isOff0 := (match e with | .blockDecode s => (s.splitOn "badOffset").length > 1 && (s.splitOn " 0 ").length > 1 | _ => false)
    -- a cut inside the user data of a skippable frame is left unspecified by the property (seekable inputs tolerate it)
    let skipCut := (match e with | .truncated w => w == "skippable data" | _ => false)
    if skipCut then v := { v with tags := ["cli.skippable_cut_tolerated"] } else
    v := { v with fails := (if isOff0 then "accepts_offset_zero" else "exit0_on_undecodable_input", s!"specification: {repr e}; written {written.size} bytes") :: v.fails }
  | .error e, false =>
    v := { v with tags := ["cli.rejected." ++ badClass e] }
  return v

end LZ4V.Judge
