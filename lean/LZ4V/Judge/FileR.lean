import LZ4V.Judge.FrameDS
import LZ4V.Model.FileR
/-!
# Judge for lz4file reading sessions (op 14)

args: file bytes, result of `LZ4F_readOpen` (0 or LZ4F error code), log (per `LZ4F_read`: size asked, value returned — bit 63 set: error code), all bytes returned.
The model of `Model/FileR.lean` (readOpen, then the read loop over the dStage machine) is run on the same file and the same sizes.
-/
namespace LZ4V.Judge
open LZ4V.Model

def judgeReadSession (r : Rec) : List (String × String) × List String := Id.run do
  let file := (r.bytes 0).toList
  let openRes := r.nat 1
  let log := r.bytes 2
  let all := r.bytes 3
  let n := log.size / 16
  match FileR.readOpen dsEnv file with
  | .error e =>
    if openRes != e then return ([("model_fileread_differs", s!"readOpen: model error {e}, real result {openRes}")], [])
    else return ([], ["fileread.same", "fileread.open_error"])
  | .ok rd0 =>
    if openRes != 0 then return ([("model_fileread_differs", s!"readOpen: model succeeds, real error {openRes}")], [])
    let mut rd := rd0
    let mut pos := 0
    let mut sawErr := false
    for i in [0:n] do
      let want := rdU64 log (16 * i)
      let got := rdU64 log (16 * i + 8)
      match FileR.read dsEnv rd want with
      | .error e =>
        if got != 2^63 + e then return ([("model_fileread_differs", s!"read {i} (size {want}): model error {e}, real returns {got}")], [])
        sawErr := true
      | .ok (rd', bytes) =>
        if got != bytes.length then return ([("model_fileread_differs", s!"read {i} (size {want}): model returns {bytes.length} bytes, real {got}")], [])
        if bytes != (all.extract pos (pos + got)).toList then return ([("model_fileread_differs", s!"read {i} (size {want}): the {got} bytes returned differ")], [])
        rd := rd'
        pos := pos + got
    return ([], ["fileread.same", if sawErr then "fileread.read_error" else "fileread.ok", if n ≤ 2 then "fileread.oneshot" else "fileread.pieces"])

end LZ4V.Judge
