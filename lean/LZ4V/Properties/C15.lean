import LZ4V.Spec.Frame
/-! # C15 — property theorems (in progress) -/
namespace LZ4V.C15
end LZ4V.C15
