import LZ4V.Proofs.StreamLProof
/-!
# C15 — `lz4 -d` decodes any concatenation of LZ4, legacy and skippable frames

`Spec/FrameL.lean` is the specification of what a stream decodes to (from `doc/lz4_Frame_format.md` and
`programs/lz4.1.md`), for ANY checksum function and block decoder.  The theorems: decoding is unique, and decoding
commutes with concatenation, for every sequence of frames of the three kinds in any order.  The subtle case is the
legacy frame, which has no end mark: it ends at end of input or in front of a known magic number, so it is "local" only
because every stream that decodes starts with a magic number larger than any legacy block size (`known_gt_bound`).
Tie: `vlib/cli.py` runs the real `lz4 -d`/`-t` (ST and MT builds, file and pipe, `-m`) on random frame sequences; the
judge decodes the same bytes with the executable instance of this specification and with `Spec/Frame.lean`.
-/
namespace LZ4V.C15
open LZ4V.Spec.FrameL

/-- two streams that decode, concatenated, decode to the concatenation of their contents -/
theorem concatenation_decodes (E : Env) (dict a b ca cb : Bytes) (ha : Decodes E dict a ca) (hb : Decodes E dict b cb) :
    Decodes E dict (a ++ b) (ca ++ cb) := Decodes.append ha hb

/-- any finite sequence of streams (in particular: of single frames of any kind, in any order and number) -/
theorem concatenation_of_any_sequence (E : Env) (dict : Bytes) : ∀ (parts : List (Bytes × Bytes)),
    (∀ p ∈ parts, Decodes E dict p.1 p.2) → Decodes E dict (parts.map (·.1)).flatten (parts.map (·.2)).flatten := by
  intro parts
  induction parts with
  | nil => intro _; exact ⟨0, 1, rfl⟩
  | cons p t ih =>
    intro h
    simp only [List.map_cons, List.flatten_cons]
    exact Decodes.append (h p List.mem_cons_self) (ih (fun q hq => h q (List.mem_cons_of_mem _ hq)))

/-- the decoded content is a function of the input bytes -/
theorem decoding_unique (E : Env) (dict s c c' : Bytes) (h : Decodes E dict s c) (h' : Decodes E dict s c') : c = c' := h.unique h'

/-- what the executable specification returns is a decoding -/
theorem executable_spec_sound (E : Env) (dict s c : Bytes) (h : decodeStream E dict s = .ok c) : Decodes E dict s c :=
  decodeStream_decodes E dict s c h

/-- a single LZ4 / legacy / skippable frame is a stream (non-vacuity: the hypotheses of the theorems above are met by
    concrete frames, here with a trivial checksum and a block decoder that accepts only the empty payload) -/
def toyEnv : Env := { hash := fun _ => 0, dec := fun _ p _ => if p = [] then some [] else none }
-- skippable frame (magic 0x184D2A50, 2 bytes of user data), LZ4 frame with one stored block "AB", legacy frame with no block
def skipF : Bytes := [0x50, 0x2A, 0x4D, 0x18, 2, 0, 0, 0, 9, 9]
def lz4F : Bytes := [0x04, 0x22, 0x4D, 0x18, 0x60, 0x40, 0x00, 2, 0, 0, 0x80, 65, 66, 0, 0, 0, 0]
def legF : Bytes := [0x02, 0x21, 0x4C, 0x18]
def okIs (r : Except LZ4V.Spec.Frame.Bad Bytes) (c : Bytes) : Bool := match r with | .ok x => x == c | .error _ => false
example : okIs (decodeStream toyEnv [] (skipF ++ lz4F ++ legF ++ lz4F ++ skipF)) [65, 66, 65, 66] = true := by decide

end LZ4V.C15
